(* C15 — histories of admission requests and informer deliveries: the judge's invariant, and
   [eprop_code] evaluated on the model's own trace holds for every history in which no update
   that is admitted unchecked switches the allow-force-update / is-root label. *)
From Coq Require Import List ZArith Bool Lia.
From Verif Require Import Lib.Wire C15.Model C15.Spec C15.Informer C15.SpecInf C15.Proofs C15.Proofs_maps
     C15.Proofs_reach C15.Proofs_checks C15.Proofs_inv C15.Proofs_spec C15.Proofs_ns C15.Proofs_hist
     C15.Proofs_inf_base C15.Proofs_inf_apply.
Import ListNotations.
Open Scope Z_scope.

Definition LastOK (j : judge) : Prop :=
  match j_last j with
  | Some (w, false) => wf_op w = true /\ Applied w (j_ms j)
  | Some (w, true) =>
      wf_op w = true /\ j_full j = true
      /\ exists o n, w = Update o n /\ fields_eq o n = true /\ find (q_name n) (j_st j) = Some n
  | None => True
  end.

Record Inv (j : judge) : Prop := mkInv {
  inv_sorted : sorted_topo (j_ms j);
  inv_st : ksorted (j_st j);
  inv_fc : j_full j = true -> j_cons j = true;
  inv_wf : j_ord j = true -> WF (j_ms j);
  inv_root : j_ord j = true -> mem ROOT (hier (j_ms j)) = true;
  inv_ns : j_ord j = true -> j_cons j = true -> NsOK (j_st j) (j_ms j);
  inv_so : j_ord j = true -> j_full j = true -> StoreOK (j_st j) (j_ms j);
  inv_last : j_ord j = true -> LastOK j }.

Lemma Inv_init g : Inv (init_judge g).
Proof.
  constructor; cbn [init_judge j_ms j_st j_full j_cons j_ord j_last]; intros.
  - apply sorted_init.
  - constructor.
  - reflexivity.
  - apply WF_init.
  - reflexivity.
  - apply NsOK_init.
  - apply StoreOK_init.
  - exact I.
Qed.

Lemma zb_bz b : zb (bz b) = b.
Proof. destruct b; reflexivity. Qed.

(* what the judge decides on a record that is as it should be *)
Lemma judged_ok st cons s : sorted_topo s -> ksorted st -> WF s ->
  (cons = true -> NsOK st s) -> StoreOK st s ->
  wf_code s = 0 /\ cons && negb (ns_okb st s) = false /\ negb (infos_okb st s) = false.
Proof.
  intros [S1 [S2 S3]] SS W N SO. split; [now apply wf_code_complete|]. split.
  - destruct cons; [|reflexivity]. cbn [andb]. rewrite ns_okb_complete; auto.
  - rewrite infos_okb_complete; auto.
Qed.

Lemma accepted_code s r : accepted s r = true -> code s r <? 0 = false -> code s r = 0.
Proof. unfold accepted. intros A B. apply Z.leb_le in A. apply Z.ltb_ge in B. lia. Qed.

Lemma code_neg_update s r : accepted s r = true -> code s r <? 0 = true ->
  exists o n, snd r = Update o n /\ fields_eq o n = true /\ code s r = -1.
Proof.
  unfold accepted. intros A B. apply Z.leb_le in A. apply Z.ltb_lt in B.
  destruct r as [pods [q|o n|q]]; cbn [fst snd code] in *.
  - apply add_code_range in A. lia.
  - destruct (update_code_range _ _ _ _ A) as [Z0|[ZM FE]]; [lia|]. exists o, n. auto.
  - apply delete_code_range in A. lia.
Qed.

(* ------------------------------------------------------------------ an admission request *)
Lemma req_applied s st r :
  WF s -> mem ROOT (hier s) = true -> NsOK st s -> StoreOK st s ->
  cons_full st (snd r) = true -> wf_op (snd r) = true -> code s r = 0 ->
  Applied (snd r) (step s r).
Proof.
  intros W MR N SO CF WO C. unfold step. rewrite C. cbn [Z.eqb].
  destruct r as [pods [q|o n|q]]; cbn [fst snd code] in *.
  - apply add_apply_applied.
  - destruct (peer_update _ _ _ _ _ MR N SO CF C) as [s' [E T]].
    apply (Applied_text _ s'); [exact T|]. apply (applied_after s (Update o n) s' WO E).
  - rewrite <- (peer_delete _ _ _ _ SO CF C). apply (applied_after s (Delete q) (on_delete s q) WO eq_refl).
Qed.

Lemma step_req j r : Inv j -> flag_stable_op (snd r) = true ->
  let s := j_ms j in
  judge_event j s (EReq r) (bz (accepted s r)) (step s r) = 0
  /\ Inv (judge_step j (EReq r) (bz (accepted s r)))
  /\ j_ms (judge_step j (EReq r) (bz (accepted s r))) = step s r.
Proof.
  intros IV FS s. split; [|split; [|reflexivity]].
  - (* the clauses *)
    unfold judge_event. rewrite zb_bz. fold s.
    destruct (j_ord j) eqn:ORD; cbn [andb].
    2:{ destruct (accepted s r) eqn:A; cbn [negb andb]; [reflexivity|].
        rewrite (reject_frame _ _ A), same_topo_refl. reflexivity. }
    pose proof (inv_wf j IV ORD) as W. pose proof (inv_sorted j IV) as S.
    pose proof (WF_step s r W) as W'. pose proof (sorted_step s r S) as S'.
    rewrite (wf_code_complete _ (proj1 S') W'). cbn [Z.eqb negb].
    assert (negb (accepted s r) && negb (same_topo s (step s r)) = false) as C20.
    { destruct (accepted s r) eqn:A; [reflexivity|]. cbn [negb andb].
      rewrite (reject_frame _ _ A), same_topo_refl. reflexivity. }
    rewrite C20.
    assert (accepted s r && match snd r with
                            | Delete q => negb (delete_guard_ok s (step s r) (fst r) q)
                            | _ => false
                            end = false) as C19.
    { destruct (accepted s r) eqn:A; [|reflexivity]. cbn [andb].
      destruct r as [pods [q|o n|q]]; cbn [fst snd]; try reflexivity.
      apply negb_false_iff. apply delete_guard_okb; [exact W|exact (proj1 S)|exact A]. }
    rewrite C19.
    assert (accepted s r && nsbound_delete r = false) as C21.
    { destruct (accepted s r) eqn:A; [|reflexivity]. cbn [andb]. now apply (nsbound_accepted s r W). }
    rewrite C21.
    cbn [judge_step j_cons j_full j_st]. rewrite zb_bz. fold s.
    assert (ksorted (store_step (j_st j) (accepted s r) r)) as SS by (apply ksorted_store_step, (inv_st j IV)).
    destruct (j_cons j && consistent1 (j_st j) (accepted s r) r) eqn:CN.
    + apply andb_true_iff in CN. destruct CN as [CN1 CN2].
      pose proof (NsOK_step s (j_st j) r (inv_ns j IV ORD CN1) CN2) as N'.
      rewrite ns_okb_complete; [|exact SS|exact (proj2 (proj2 S'))|exact N']. cbn [negb].
      destruct (j_full j && (negb (accepted s r) || cons_full (j_st j) (snd r))) eqn:FL; [|reflexivity].
      apply andb_true_iff in FL. destruct FL as [FL1 FL2].
      rewrite infos_okb_complete; [reflexivity|exact SS|exact (proj1 S')|].
      apply StoreOK_step; [exact (inv_so j IV ORD FL1)| |exact FS].
      intro A. rewrite A in FL2. exact FL2.
    + destruct (j_full j && (negb (accepted s r) || cons_full (j_st j) (snd r))) eqn:FL; [|reflexivity].
      apply andb_true_iff in FL. destruct FL as [FL1 FL2].
      rewrite infos_okb_complete; [reflexivity|exact SS|exact (proj1 S')|].
      apply StoreOK_step; [exact (inv_so j IV ORD FL1)| |exact FS].
      intro A. rewrite A in FL2. exact FL2.
  - (* the invariant *)
    cbn [judge_step]. rewrite zb_bz. fold s.
    set (acc := accepted s r).
    set (full' := j_full j && (negb acc || cons_full (j_st j) (snd r))).
    constructor; cbn [j_ms j_st j_cons j_full j_ord j_last].
    + apply sorted_step, (inv_sorted j IV).
    + apply ksorted_store_step, (inv_st j IV).
    + intro F. unfold full' in F. apply andb_true_iff in F. destruct F as [F1 F2].
      rewrite (inv_fc j IV F1). cbn [andb]. unfold acc in *.
      destruct (accepted s r) eqn:A; [|reflexivity]. cbn [negb orb] in F2.
      now apply cons_full_consistent1.
    + intro ORD. apply WF_step, (inv_wf j IV ORD).
    + intro ORD. apply memroot_step, (inv_root j IV ORD).
    + intros ORD CN. apply andb_true_iff in CN. destruct CN as [CN1 CN2].
      unfold acc. apply NsOK_step; [exact (inv_ns j IV ORD CN1)|exact CN2].
    + intros ORD F. unfold full' in F. apply andb_true_iff in F. destruct F as [F1 F2].
      unfold acc in *. apply StoreOK_step; [exact (inv_so j IV ORD F1)| |exact FS].
      intro A. rewrite A in F2. exact F2.
    + intro ORD. unfold LastOK. cbn [j_last j_ms j_st j_full].
      unfold acc in *. destruct (accepted s r) eqn:A.
      * destruct (full' && wf_op (snd r)) eqn:FW; [|exact I].
        apply andb_true_iff in FW. destruct FW as [F WO].
        unfold full' in F. apply andb_true_iff in F. destruct F as [F1 F2]. cbn [negb orb] in F2.
        destruct (code s r <? 0) eqn:CNEG.
        -- destruct (code_neg_update _ _ A CNEG) as [o [n [E [FE _]]]].
           split; [exact WO|]. split; [unfold full'; now rewrite F1, F2|].
           exists o, n. repeat split; auto. unfold store_step. rewrite E. apply find_mset_eq.
        -- split; [exact WO|]. apply (req_applied s (j_st j)); auto.
           ++ apply (inv_wf j IV ORD).
           ++ apply (inv_root j IV ORD).
           ++ apply (inv_ns j IV ORD (inv_fc j IV F1)).
           ++ apply (inv_so j IV ORD F1).
           ++ now apply accepted_code.
      * pose proof (inv_last j IV ORD) as L. unfold LastOK in L.
        rewrite (reject_frame _ _ A). cbn [store_step].
        destruct (j_last j) as [[w [|]]|]; auto.
        destruct L as [L1 [L2 L3]]. split; [exact L1|]. split; [|exact L3].
        unfold full'. rewrite L2. reflexivity.
Qed.

(* ------------------------------------------------------------------ an informer delivery *)
(* the common conclusion of every covered delivery *)
Lemma deliver_ok j w st' s' :
  Inv j -> j_ord j = true -> j_full j = true -> wf_op w = true ->
  inf_apply (j_ms j) w = (s', false) ->
  ksorted st' -> WF s' -> mem ROOT (hier s') = true -> NsOK st' s' -> StoreOK st' s' ->
  (let w0 := wf_code s' in
   if 1 =? 2 then 23
   else if negb (w0 =? 0) then w0
   else if j_cons j && negb (ns_okb st' s') then 18
   else if negb (infos_okb st' s') then 22
   else 0) = 0
  /\ Inv (mkJ st' (j_cons j) (j_full j) (j_ord j) (Some (w, false)) s').
Proof.
  intros IV ORD FL WO E SS W MR N SO.
  assert (sorted_topo s') as S'.
  { change s' with (fst (s', false)). rewrite <- E. apply sorted_inf, (inv_sorted j IV). }
  destruct (judged_ok st' (j_cons j) s' S' SS W (fun _ => N) SO) as [C1 [C2 C3]].
  split.
  - cbn [Z.eqb]. rewrite C1. cbn [Z.eqb negb]. rewrite C2, C3. reflexivity.
  - constructor; cbn [j_ms j_st j_cons j_full j_ord j_last]; auto.
    + apply (inv_fc j IV).
    + intros _. unfold LastOK. cbn [j_last j_ms]. split; [exact WO|]. eapply applied_after; eauto.
Qed.

Lemma eout_inf s pods w s' : inf_apply s w = (s', false) ->
  eout s (EInf (pods, w)) = 1 /\ estep s (EInf (pods, w)) = s'.
Proof. intro E. cbn [eout estep snd]. now rewrite E. Qed.

(* what each class of covered delivery means *)
Lemma classify_inv j pods w :
  match classify j pods w with
  | COut => True
  | CEcho => j_ord j = true /\ j_full j = true /\ wf_op w = true /\ j_last j = Some (w, false)
  | CRefresh => j_ord j = true /\ j_full j = true /\ wf_op w = true /\ j_last j = Some (w, true)
  | CPeer => j_ord j = true /\ j_full j = true /\ wf_op w = true
             /\ cons_full (j_st j) w = true /\ accepted (j_ms j) (pods, w) = true
  end.
Proof.
  unfold classify. destruct (j_ord j && j_full j && wf_op w) eqn:G; cbn [negb]; [|exact I].
  apply andb_true_iff in G. destruct G as [G WO]. apply andb_true_iff in G. destruct G as [ORD FL].
  assert (match (if cons_full (j_st j) w && (code (j_ms j) (pods, w) <=? 0) then CPeer else COut) with
          | COut => True
          | CEcho => j_ord j = true /\ j_full j = true /\ wf_op w = true /\ j_last j = Some (w, false)
          | CRefresh => j_ord j = true /\ j_full j = true /\ wf_op w = true /\ j_last j = Some (w, true)
          | CPeer => j_ord j = true /\ j_full j = true /\ wf_op w = true
                     /\ cons_full (j_st j) w = true /\ accepted (j_ms j) (pods, w) = true
          end) as PEER.
  { destruct (cons_full (j_st j) w && (code (j_ms j) (pods, w) <=? 0)) eqn:PC; [|exact I].
    apply andb_true_iff in PC. destruct PC as [P1 P2]. repeat split; auto. }
  destruct (j_last j) as [[w' pend]|]; [|exact PEER].
  destruct (eq_op w' w) eqn:EO; [|exact PEER].
  apply eq_op_eq in EO. subst w'. destruct pend; repeat split; auto.
Qed.

(* the record after a covered delivery *)
Definition Delivered (j : judge) (pods : list pod) (w : op) (st' : store) : Prop :=
  exists s', inf_apply (j_ms j) w = (s', false) /\ WF s' /\ mem ROOT (hier s') = true
             /\ NsOK st' s' /\ StoreOK st' s'.

Lemma echo_delivered j pods w : Inv j -> j_ord j = true -> j_full j = true ->
  j_last j = Some (w, false) -> Delivered j pods w (j_st j).
Proof.
  intros IV ORD FL JL. pose proof (inv_last j IV ORD) as L. unfold LastOK in L. rewrite JL in L.
  destruct L as [_ AP]. destruct (applied_noop _ _ AP) as [s' [E T]].
  pose proof (inv_fc j IV FL) as CN.
  exists s'. split; [exact E|]. split; [exact (WF_text _ _ T (inv_wf j IV ORD))|].
  split; [exact (eq_trans (proj1 (proj2 (proj2 T)) ROOT) (inv_root j IV ORD))|].
  split; [exact (NsOK_nsmap _ _ _ (proj2 (proj2 (proj2 (proj2 T)))) (inv_ns j IV ORD CN))|].
  exact (StoreOK_infos _ _ _ (proj1 (proj2 T)) (inv_so j IV ORD FL)).
Qed.

Lemma refresh_delivered j pods w : Inv j -> j_ord j = true -> j_full j = true -> wf_op w = true ->
  j_last j = Some (w, true) -> Delivered j pods w (j_st j).
Proof.
  intros IV ORD FL WO JL. pose proof (inv_last j IV ORD) as L. unfold LastOK in L. rewrite JL in L.
  destruct L as [_ [_ [o [n [-> [FE FN]]]]]]. cbn [wf_op] in WO. apply Z.eqb_eq in WO.
  pose proof (inv_fc j IV FL) as CN. pose proof (inv_so j IV ORD FL) as SO.
  destruct (StoreOK_some _ _ _ _ SO FN) as [oi [FX V]].
  eexists. split; [exact (refresh_update (j_ms j) o n WO FE)|].
  split; [exact (WF_refresh (j_ms j) (q_name n) (info_of n) oi (inv_wf j IV ORD) FX (info_eqv_sym _ _ V))|].
  split; [exact (inv_root j IV ORD)|].
  split; [exact (NsOK_nsmap _ _ (j_ms j) (fun x => eq_refl) (inv_ns j IV ORD CN))|].
  intro k. cbn [infos]. rewrite find_mset.
  destruct (Z.eqb_spec k (q_name n)) as [->|]; [rewrite FN; apply info_eqv_refl|apply SO].
Qed.

Lemma peer_delivered j pods w : Inv j -> j_ord j = true -> j_full j = true ->
  flag_stable_op w = true ->
  cons_full (j_st j) w = true -> accepted (j_ms j) (pods, w) = true ->
  Delivered j pods w (store_step (j_st j) true (pods, w)).
Proof.
  intros IV ORD FL FS CF A. set (s := j_ms j) in *.
  pose proof (inv_wf j IV ORD) as W. pose proof (inv_root j IV ORD) as MR.
  pose proof (inv_fc j IV FL) as CN. pose proof (inv_ns j IV ORD CN) as N.
  pose proof (inv_so j IV ORD FL) as SO.
  pose proof (NsOK_step s (j_st j) (pods, w) N) as NS. rewrite A in NS.
  specialize (NS (cons_full_consistent1 _ (pods, w) CF)).
  pose proof (StoreOK_step (j_st j) s (pods, w) SO (fun _ => CF) FS) as SS. rewrite A in SS.
  pose proof (WF_step s (pods, w) W) as WS. pose proof (memroot_step s (pods, w) MR) as MS.
  pose proof A as A'. unfold accepted in A'. apply Z.leb_le in A'. cbn [code fst snd] in A'.
  unfold Delivered. fold s. unfold step in NS, SS, WS, MS.
  destruct w as [q|o n|q]; cbn [inf_apply]; cbn [code fst snd] in NS, SS, WS, MS, A'.
  - apply add_code_range in A'. rewrite A' in NS, SS, WS, MS. cbn [Z.eqb] in NS, SS, WS, MS.
    exists (on_add s q). split; [reflexivity|]. split; [eapply WF_on_add; eauto|].
    split; [now apply memroot_on_add|].
    split; [exact (NsOK_nsmap _ (on_add s q) (add_apply s q) (fun x => eq_refl) NS)|].
    exact (StoreOK_infos _ (on_add s q) (add_apply s q) (fun k => eq_refl) SS).
  - destruct (update_code_range _ _ _ _ A') as [Z0|[ZM FE]].
    + rewrite Z0 in NS, SS, WS, MS. cbn [Z.eqb] in NS, SS, WS, MS.
      destruct (peer_update s (j_st j) pods o n MR N SO CF Z0) as [s' [E T]].
      exists s'. split; [exact E|]. split; [exact (WF_text _ _ T WS)|].
      split; [exact (eq_trans (proj1 (proj2 (proj2 T)) ROOT) MS)|].
      split; [exact (NsOK_nsmap _ _ _ (proj2 (proj2 (proj2 (proj2 T)))) NS)|].
      exact (StoreOK_infos _ _ _ (proj1 (proj2 T)) SS).
    + rewrite ZM in NS, SS. cbn [Z.eqb] in NS, SS.
      pose proof CF as CF'. cbn [cons_full] in CF'. apply andb_true_iff in CF'. destruct CF' as [EN CF'].
      apply Z.eqb_eq in EN.
      destruct (find (q_name n) (j_st j)) as [o'|] eqn:FO; [|discriminate].
      apply eq_quota_eq in CF'. subst o'.
      destruct (StoreOK_some _ _ _ _ SO FO) as [oi [FX V]].
      destruct (flag_stable_facts _ _ FS FE) as [F1 F2].
      pose proof (fields_eq_info_eqv o n EN FE F1 F2) as V2.
      eexists. split; [exact (refresh_update s o n EN FE)|].
      split; [exact (WF_refresh s (q_name n) (info_of n) oi W FX
                       (info_eqv_sym _ _ (info_eqv_trans _ _ _ V V2)))|].
      split; [exact MR|].
      split; [exact (NsOK_nsmap _ _ s (fun x => eq_refl) NS)|].
      intro k. cbn [infos store_step snd]. rewrite !find_mset.
      destruct (Z.eqb_spec k (q_name n)) as [->|]; [apply info_eqv_refl|apply SO].
  - apply delete_code_range in A'. rewrite A' in NS, SS, WS, MS. cbn [Z.eqb] in NS, SS, WS, MS.
    exists (on_delete s q). rewrite (peer_delete s (j_st j) pods q SO CF A').
    split; [reflexivity|]. split; [exact WS|]. split; [exact MS|]. split; [exact NS|exact SS].
Qed.

Lemma step_inf j pods w : Inv j -> flag_stable_op w = true ->
  let s := j_ms j in
  let e := EInf (pods, w) in
  judge_event j s e (eout s e) (estep s e) = 0
  /\ Inv (judge_step j e (eout s e))
  /\ j_ms (judge_step j e (eout s e)) = estep s e.
Proof.
  intros IV FS s e.
  assert (j_ms (judge_step j e (eout s e)) = estep s e) as EM.
  { unfold e. cbn [judge_step fst snd]. destruct (classify j pods w); reflexivity. }
  pose proof (classify_inv j pods w) as CI.
  unfold e. cbn [judge_event judge_step fst snd]. fold s.
  destruct (classify j pods w) eqn:CL.
  - (* echo *)
    destruct CI as [ORD [FL [WO JL]]].
    destruct (echo_delivered j pods w IV ORD FL JL) as [s' [E [WS [MS [NS SS]]]]].
    destruct (eout_inf s pods w s' E) as [EO ES]. rewrite EO, ES.
    replace (fst (inf_apply s w)) with s' by (unfold s; now rewrite E).
    destruct (deliver_ok j w (j_st j) s' IV ORD FL WO E (inv_st j IV) WS MS NS SS) as [D1 D2].
    rewrite JL. split; [exact D1|]. split; [exact D2|reflexivity].
  - (* refresh *)
    destruct CI as [ORD [FL [WO JL]]].
    destruct (refresh_delivered j pods w IV ORD FL WO JL) as [s' [E [WS [MS [NS SS]]]]].
    destruct (eout_inf s pods w s' E) as [EO ES]. rewrite EO, ES.
    replace (fst (inf_apply s w)) with s' by (unfold s; now rewrite E).
    destruct (deliver_ok j w (j_st j) s' IV ORD FL WO E (inv_st j IV) WS MS NS SS) as [D1 D2].
    split; [exact D1|]. split; [exact D2|reflexivity].
  - (* a peer's write *)
    destruct CI as [ORD [FL [WO [CF A]]]].
    destruct (peer_delivered j pods w IV ORD FL FS CF A) as [s' [E [WS [MS [NS SS]]]]].
    destruct (eout_inf s pods w s' E) as [EO ES]. rewrite EO, ES.
    replace (fst (inf_apply s w)) with s' by (unfold s; now rewrite E).
    destruct (deliver_ok j w _ s' IV ORD FL WO E
                (ksorted_store_step _ true (pods, w) (inv_st j IV)) WS MS NS SS) as [D1 D2].
    split; [exact D1|]. split; [exact D2|reflexivity].
  - (* not covered *)
    split; [reflexivity|]. split; [|reflexivity].
    constructor; cbn [j_ms j_st j_cons j_full j_ord j_last]; try discriminate.
    + apply sorted_inf, (inv_sorted j IV).
    + apply (inv_st j IV).
    + apply (inv_fc j IV).
Qed.

(* ------------------------------------------------------------------ all histories *)
Lemma ehist_code_trace es : forall j, Inv j -> forallb flag_stable_ev es = true ->
  ehist_code j (j_ms j) es (etrace (j_ms j) es) = 0.
Proof.
  induction es as [|e es IH]; intros j IV FS; cbn [etrace ehist_code]; [reflexivity|].
  cbn [forallb] in FS. apply andb_true_iff in FS. destruct FS as [FS1 FS2].
  assert (judge_event j (j_ms j) e (eout (j_ms j) e) (estep (j_ms j) e) = 0
          /\ Inv (judge_step j e (eout (j_ms j) e))
          /\ j_ms (judge_step j e (eout (j_ms j) e)) = estep (j_ms j) e) as [C [IV' EM]].
  { destruct e as [r|[pods w]].
    - cbn [eout estep]. apply step_req; auto.
    - apply step_inf; auto. }
  rewrite C. cbn [Z.eqb negb]. rewrite <- EM. apply IH; auto.
Qed.

Lemma eprop_code_trace g es : forallb flag_stable_ev es = true ->
  eprop_code g es (etrace (init_topo g) es) = 0.
Proof.
  intro FS. unfold eprop_code. apply (ehist_code_trace es (init_judge g) (Inv_init g) FS).
Qed.

(* ------------------------------------------------------------------ the same, stated on records *)
(* the judge along the model's own run *)
Fixpoint ejudge (j : judge) (es : list event) : judge :=
  match es with
  | [] => j
  | e :: t => ejudge (judge_step j e (eout (j_ms j) e)) t
  end.

Lemma Inv_ejudge es : forall j, Inv j -> forallb flag_stable_ev es = true ->
  Inv (ejudge j es) /\ j_ms (ejudge j es) = fold_left estep es (j_ms j).
Proof.
  induction es as [|e es IH]; intros j IV FS; cbn [ejudge fold_left]; [auto|].
  cbn [forallb] in FS. apply andb_true_iff in FS. destruct FS as [FS1 FS2].
  assert (Inv (judge_step j e (eout (j_ms j) e))
          /\ j_ms (judge_step j e (eout (j_ms j) e)) = estep (j_ms j) e) as [IV' EM].
  { destruct e as [r|[pods w]].
    - cbn [eout estep]. apply step_req; auto.
    - apply step_inf; auto. }
  rewrite <- EM. now apply IH.
Qed.

(* as long as every delivery was a covered one, the record is a well-formed tree; and if the
   old objects were the stored ones it shows exactly the admitted objects and their namespaces *)
Lemma covered_history_wf g es : forallb flag_stable_ev es = true ->
  let j := ejudge (init_judge g) es in
  j_ord j = true ->
  WF (erun g es)
  /\ (j_cons j = true -> NsOK (j_st j) (erun g es))
  /\ (j_full j = true -> StoreOK (j_st j) (erun g es)).
Proof.
  intros FS j ORD. destruct (Inv_ejudge es (init_judge g) (Inv_init g) FS) as [IV EM].
  fold j in IV, EM. cbn [init_judge j_ms] in EM. unfold erun. rewrite <- EM.
  split; [exact (inv_wf j IV ORD)|]. split; [exact (inv_ns j IV ORD)|exact (inv_so j IV ORD)].
Qed.

(* a write of a peer replica (the stored old object; this replica would admit it itself):
   the handler does not panic and leaves a well-formed record that shows the new store *)
Lemma peer_written s st pods w :
  sorted_topo s -> ksorted st ->
  WF s -> mem ROOT (hier s) = true -> NsOK st s -> StoreOK st s ->
  flag_stable_op w = true -> cons_full st w = true -> accepted s (pods, w) = true ->
  exists s', inf_apply s w = (s', false) /\ WF s' /\ mem ROOT (hier s') = true
             /\ NsOK (store_step st true (pods, w)) s' /\ StoreOK (store_step st true (pods, w)) s'.
Proof.
  intros S SS W MR N SO FS CF A.
  assert (Inv (mkJ st true true true None s)) as IV.
  { constructor; cbn [j_ms j_st j_cons j_full j_ord j_last]; auto. intros _. exact I. }
  exact (peer_delivered (mkJ st true true true None s) pods w IV eq_refl eq_refl FS CF A).
Qed.

(* ------------------------------------------------------------------ unconditionally *)
(* every history is flag-stable (Proofs_inf_apply.flag_stable_all), so the hypothesis goes *)
Lemma eprop_code_trace_all g es : eprop_code g es (etrace (init_topo g) es) = 0.
Proof. apply eprop_code_trace, flag_stable_all. Qed.

Lemma covered_history_wf_all g es :
  let j := ejudge (init_judge g) es in
  j_ord j = true ->
  WF (erun g es)
  /\ (j_cons j = true -> NsOK (j_st j) (erun g es))
  /\ (j_full j = true -> StoreOK (j_st j) (erun g es)).
Proof. apply covered_history_wf, flag_stable_all. Qed.

Lemma peer_written_all s st pods w :
  sorted_topo s -> ksorted st ->
  WF s -> mem ROOT (hier s) = true -> NsOK st s -> StoreOK st s ->
  cons_full st w = true -> accepted s (pods, w) = true ->
  exists s', inf_apply s w = (s', false) /\ WF s' /\ mem ROOT (hier s') = true
             /\ NsOK (store_step st true (pods, w)) s' /\ StoreOK (store_step st true (pods, w)) s'.
Proof. intros S SS W MR N SO CF A. apply peer_written; auto. apply flag_stable_op_true. Qed.
