(* C15 — the property over histories in which admission requests and informer deliveries are
   interleaved ([Informer.event]).

   The judge ([ehist_code]) walks the history and the OBSERVED outcomes/records. Besides the
   observed record it keeps figures it recomputes from the history alone:
     - the admitted objects (what the API server holds) [j_st],
     - whether the old objects of admitted updates/deletes were the stored ones, for the
       namespaces only [j_cons] (as in Spec.hist_code) and in every field [j_full],
     - the last persisted write and whether it was admitted without any check (ValidUpdateQuota
       returns early when no checked field differs) and still awaits its delivery [j_last],
     - the record the webhook should hold: the model's own record [j_ms].
   An informer delivery is COVERED by the property when it is
     (a) the delivery (or a repeated delivery) of the last persisted write — the replica's own
         echo: the record must not be damaged by it,
     (b) the write of a peer replica that is in step with this one: the stored old object in
         every field and a write this replica would itself admit now.
   After a delivery that is neither (a stale, reordered or fabricated event) the record is
   outside the property: the handlers write whatever they are handed, by design; from then on
   only the frame of rejected requests is judged.

   Clauses (first failing one is reported): 11-17 the record is a well-formed tree (Spec.wf_code);
   20 a rejected request changed the record; 19/21 an admitted deletion had children/pods;
   18 the namespace map is not exactly what the admitted objects declare; 22 the record does not
   show the admitted objects (names, parent, is-parent, tree, min, max); 23 a covered delivery
   made the handler panic; 9 malformed observable. *)
From Coq Require Import List ZArith Bool.
From Verif Require Import Lib.Wire C15.Model C15.Spec C15.Informer.
Import ListNotations.
Open Scope Z_scope.

(* ------------------------------------------------------------------ equality of payloads *)
Fixpoint eq_reslist (a b : reslist) : bool :=
  match a, b with
  | [], [] => true
  | x :: a', y :: b' => eq_opt x y && eq_reslist a' b'
  | _, _ => false
  end.

Definition eq_quota (a b : quota) : bool :=
  (q_name a =? q_name b) && (q_plabel a =? q_plabel b) && Bool.eqb (q_is_parent a) (q_is_parent b)
  && (q_tree a =? q_tree b) && Bool.eqb (q_tree_root a) (q_tree_root b)
  && Bool.eqb (q_force a) (q_force b) && (q_sw a =? q_sw b)
  && Bool.eqb (q_ns_bad a) (q_ns_bad b) && eq_listZ (q_ns a) (q_ns b)
  && Bool.eqb (q_strict_bad a) (q_strict_bad b) && eq_listZ (q_strict a) (q_strict b)
  && eq_reslist (q_used a) (q_used b) && eq_reslist (q_min a) (q_min b)
  && eq_reslist (q_max a) (q_max b) && eq_reslist (q_guar a) (q_guar b).

Definition eq_op (a b : op) : bool :=
  match a, b with
  | Add x, Add y => eq_quota x y
  | Update o n, Update o' n' => eq_quota o o' && eq_quota n n'
  | Delete x, Delete y => eq_quota x y
  | _, _ => false
  end.

(* an update event names one quota *)
Definition wf_op (w : op) : bool :=
  match w with Update o n => q_name o =? q_name n | _ => true end.

(* the old object of the write is the stored one, in every field *)
Definition cons_full (st : store) (w : op) : bool :=
  match w with
  | Add q => negb (mem (q_name q) st)
  | Update o n => (q_name o =? q_name n)
                  && match find (q_name n) st with Some o' => eq_quota o' o | None => false end
  | Delete q => match find (q_name q) st with Some q' => eq_quota q' q | None => false end
  end.

(* ------------------------------------------------------------------ clause 22 *)
(* the record shows the admitted objects: the same names, and for each the parent, is-parent,
   tree id, min and max of the admitted object (the guaranteed annotation is not compared: an
   update that changes nothing else is admitted unchecked and reaches the record only through
   the informer; the two exempting labels are part of the checked fields, see Model.fields_eq) *)
Definition shows (i : info) (q : quota) : bool :=
  (i_parent i =? parent_name q) && Bool.eqb (i_is_parent i) (q_is_parent q)
  && (i_tree i =? q_tree q) && eq_res (i_min i) (q_min q) && eq_res (i_max i) (q_max q).

Definition infos_okb (st : store) (s : topo) : bool :=
  forallb (fun e => match find (fst e) (infos s) with
                    | Some i => shows i (snd e)
                    | None => false
                    end) st
  && forallb (fun e => mem (fst e) st) (infos s).

(* ------------------------------------------------------------------ the judge *)
Record judge := mkJ {
  j_st : store;
  j_cons : bool;
  j_full : bool;
  j_ord : bool;
  j_last : option (op * bool);
  j_ms : topo }.

Definition init_judge (g : bool * bool) : judge := mkJ [] true true true None (init_topo g).

Inductive cls := CEcho | CRefresh | CPeer | COut.

(* is the delivery of [w] covered, and as what *)
Definition classify (j : judge) (pods : list pod) (w : op) : cls :=
  if negb (j_ord j && j_full j && wf_op w) then COut
  else match j_last j with
       | Some (w', pending) =>
           if eq_op w' w then (if pending then CRefresh else CEcho)
           else if cons_full (j_st j) w && (code (j_ms j) (pods, w) <=? 0) then CPeer else COut
       | None =>
           if cons_full (j_st j) w && (code (j_ms j) (pods, w) <=? 0) then CPeer else COut
       end.

(* the judge after an event with observed outcome [out] *)
Definition judge_step (j : judge) (e : event) (out : Z) : judge :=
  match e with
  | EReq r =>
      let acc := zb out in
      let st' := store_step (j_st j) acc r in
      let cons' := j_cons j && consistent1 (j_st j) acc r in
      let full' := j_full j && (negb acc || cons_full (j_st j) (snd r)) in
      let last' := if acc
                   then (if full' && wf_op (snd r)
                         then Some (snd r, code (j_ms j) r <? 0) else None)
                   else j_last j in
      mkJ st' cons' full' (j_ord j) last' (step (j_ms j) r)
  | EInf r =>
      let ms' := fst (inf_apply (j_ms j) (snd r)) in
      match classify j (fst r) (snd r) with
      | CEcho => mkJ (j_st j) (j_cons j) (j_full j) (j_ord j) (j_last j) ms'
      | CRefresh => mkJ (j_st j) (j_cons j) (j_full j) (j_ord j) (Some (snd r, false)) ms'
      | CPeer => mkJ (store_step (j_st j) true r) (j_cons j) (j_full j) (j_ord j)
                     (Some (snd r, false)) ms'
      | COut => mkJ (j_st j) (j_cons j) (j_full j) false None ms'
      end
  end.

(* what is judged on the observed record [cur] after the event *)
Definition judge_event (j : judge) (prev : topo) (e : event) (out : Z) (cur : topo) : Z :=
  let j' := judge_step j e out in
  match e with
  | EReq r =>
      let acc := zb out in
      let w := wf_code cur in
      if j_ord j && negb (w =? 0) then w
      else if negb acc && negb (same_topo prev cur) then 20
      else if j_ord j && acc && match snd r with
                                | Delete q => negb (delete_guard_ok prev cur (fst r) q)
                                | _ => false
                                end then 19
      else if j_ord j && acc && nsbound_delete r then 21
      else if j_ord j && j_cons j' && negb (ns_okb (j_st j') cur) then 18
      else if j_ord j && j_full j' && negb (infos_okb (j_st j') cur) then 22
      else 0
  | EInf r =>
      match classify j (fst r) (snd r) with
      | COut => 0
      | _ =>
          let w := wf_code cur in
          if out =? 2 then 23
          else if negb (w =? 0) then w
          else if j_cons j' && negb (ns_okb (j_st j') cur) then 18
          else if negb (infos_okb (j_st j') cur) then 22
          else 0
      end
  end.

Fixpoint ehist_code (j : judge) (prev : topo) (es : list event) (tr : list (Z * topo)) : Z :=
  match es, tr with
  | [], [] => 0
  | e :: es', (out, cur) :: tr' =>
      let c := judge_event j prev e out cur in
      if negb (c =? 0) then c
      else ehist_code (judge_step j e out) cur es' tr'
  | _, _ => 9
  end.

Definition eprop_code (g : bool * bool) (es : list event) (tr : list (Z * topo)) : Z :=
  ehist_code (init_judge g) (init_topo g) es tr.

