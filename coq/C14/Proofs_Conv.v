(* C14 — facts about the GENERATED unit conversions (Gen_funcs.MilliCPUToShares / MilliCPUToQuota
   over Gen_consts) and about the ratio scaling. Everything later is derived from the two
   closed forms [shares_std] / [quota_std]; they are re-proved whenever the source changes. *)
From Coq Require Import List ZArith Bool Lia.
From Verif Require Import C14.Model C14.Spec.
Import ListNotations.
Open Scope Z_scope.

(* ---------- the standard (kubelet) conversions, with literal numbers ---------- *)

Lemma shares_std m : MilliCPUToShares m = std_shares m.
Proof.
  unfold MilliCPUToShares, std_shares, CPUSharesMinValue, CPUSharesMaxValue, CPUShareUnitValue.
  destruct (m <=? 0) eqn:E; [reflexivity|]. apply Z.leb_gt in E.
  rewrite Z.quot_div_nonneg by lia.
  set (s := m * 1024 / 1000).
  destruct (s <? 2) eqn:E1; [apply Z.ltb_lt in E1|apply Z.ltb_ge in E1].
  - replace (262144 <? 2) with false by reflexivity. lia.
  - destruct (262144 <? s) eqn:E2; [apply Z.ltb_lt in E2|apply Z.ltb_ge in E2]; lia.
Qed.

Lemma quota_std m : MilliCPUToQuota m = std_quota m.
Proof.
  unfold MilliCPUToQuota, std_quota, CFSBasePeriodValue, CFSQuotaMinValue.
  replace (m * 100000) with (m * 100 * 1000) by lia.
  rewrite Z.quot_mul by lia.
  destruct (m <=? 0) eqn:E; [apply Z.leb_le in E|apply Z.leb_gt in E].
  - replace (m * 100 <=? 0) with true by (symmetry; apply Z.leb_le; lia). reflexivity.
  - replace (m * 100 <=? 0) with false by (symmetry; apply Z.leb_gt; lia).
    destruct (m * 100 <? 1000) eqn:E1; [apply Z.ltb_lt in E1|apply Z.ltb_ge in E1]; lia.
Qed.

(* ---------- shares ---------- *)

Lemma shares_range m : CPUSharesMinValue <= MilliCPUToShares m <= CPUSharesMaxValue.
Proof.
  rewrite shares_std. unfold std_shares, CPUSharesMinValue, CPUSharesMaxValue.
  destruct (m <=? 0); lia.
Qed.

Lemma shares_mono a b : a <= b -> MilliCPUToShares a <= MilliCPUToShares b.
Proof.
  intro H. rewrite !shares_std. unfold std_shares.
  destruct (a <=? 0) eqn:Ea; [apply Z.leb_le in Ea|apply Z.leb_gt in Ea];
  destruct (b <=? 0) eqn:Eb; [apply Z.leb_le in Eb|apply Z.leb_gt in Eb|apply Z.leb_le in Eb|apply Z.leb_gt in Eb];
  try lia.
  assert (a * 1024 / 1000 <= b * 1024 / 1000) by (apply Z.div_le_mono; lia). lia.
Qed.

(* below the maximum clamp: floor(1.024 m) up to the minimum clamp *)
Lemma shares_floor_bounds m : 0 <= m -> MilliCPUToShares m < CPUSharesMaxValue ->
  m * 1024 / 1000 <= MilliCPUToShares m <= m * 1024 / 1000 + CPUSharesMinValue.
Proof.
  intros Hm. rewrite shares_std. unfold std_shares, CPUSharesMaxValue, CPUSharesMinValue.
  assert (0 <= m * 1024 / 1000) by (apply Z.div_pos; lia).
  destruct (m <=? 0) eqn:E; [apply Z.leb_le in E|apply Z.leb_gt in E].
  - assert (m = 0) by lia. subst m. cbn. lia.
  - lia.
Qed.

(* ---------- quota ---------- *)

Lemma quota_unlimited m : m <= 0 -> MilliCPUToQuota m = -1.
Proof. intro H. rewrite quota_std. unfold std_quota. apply Z.leb_le in H. now rewrite H. Qed.

Lemma quota_pos m : 0 < m -> CFSQuotaMinValue <= MilliCPUToQuota m.
Proof.
  intro H. rewrite quota_std. unfold std_quota, CFSQuotaMinValue.
  replace (m <=? 0) with false by (symmetry; apply Z.leb_gt; lia). lia.
Qed.

Lemma quota_mono a b : 0 < a -> a <= b -> MilliCPUToQuota a <= MilliCPUToQuota b.
Proof.
  intros Ha H. rewrite !quota_std. unfold std_quota.
  replace (a <=? 0) with false by (symmetry; apply Z.leb_gt; lia).
  replace (b <=? 0) with false by (symmetry; apply Z.leb_gt; lia). lia.
Qed.

Lemma quota_linear_bounds m : 0 < m ->
  m * 100 <= MilliCPUToQuota m <= m * 100 + (CFSQuotaMinValue - 100).
Proof.
  intro H. rewrite quota_std. unfold std_quota, CFSQuotaMinValue.
  replace (m <=? 0) with false by (symmetry; apply Z.leb_gt; lia). lia.
Qed.

(* ---------- the ratio scaling (float64 semantics: Lib.Float53) ---------- *)

Lemma scale_id r q : r <= 100 -> scale_quota r q = q.
Proof.
  intro H. unfold scale_quota. replace (100 <? r) with false by (symmetry; apply Z.ltb_ge; lia).
  now rewrite andb_false_r.
Qed.

Lemma scale_nonpos r q : q <= 0 -> scale_quota r q = q.
Proof.
  intro H. unfold scale_quota. replace (0 <? q) with false by (symmetry; apply Z.ltb_ge; lia).
  reflexivity.
Qed.

Lemma scale_normalized r q : 0 < q -> scale_quota r q = normalized r q.
Proof.
  intro H. unfold scale_quota, normalized.
  replace (0 <? q) with true by (symmetry; apply Z.ltb_lt; lia). reflexivity.
Qed.

Lemma normalized_pos r q : 0 < q -> 0 < normalized r q.
Proof.
  intro H. unfold normalized. destruct (100 <? r) eqn:E; [apply Z.ltb_lt in E|lia].
  apply ratio_div_ceil_pos; lia.
Qed.

Lemma normalized_le r q : 0 < q -> normalized r q <= q.
Proof.
  intro H. unfold normalized. destruct (100 <? r) eqn:E; [apply Z.ltb_lt in E|lia].
  apply ratio_div_ceil_le; lia.
Qed.

Lemma normalized_mono r q q' : 0 <= q -> q <= q' -> normalized r q <= normalized r q'.
Proof.
  intros H0 H. unfold normalized. destruct (100 <? r) eqn:E; [apply Z.ltb_lt in E|lia].
  apply ratio_div_ceil_mono; lia.
Qed.

(* with M / T the double nearest to r/100: the result is the floor or the ceiling of q T / M *)
Lemma normalized_near r q : 100 < r -> 0 < q ->
  ratio_mant r * (normalized r q - 1) < q * ratio_den r < ratio_mant r * (normalized r q + 1).
Proof.
  intros H Hq. unfold normalized. replace (100 <? r) with true by (symmetry; apply Z.ltb_lt; lia).
  apply ratio_div_ceil_near; lia.
Qed.
