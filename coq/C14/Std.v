(* C14 — the STANDARD (kubelet / kernel) unit conversions the property speaks of, written with
   literal numbers and independent of the source tree: cpu.shares = milli * 1024 / 1000 clamped
   into the kernel's range [2, 262144]; cfs_quota_us = milli * 100000 / 1000 with the kernel's
   minimum of 1000 us, -1 = unlimited. Spec.v judges the IMPLEMENTATION against these (never
   against the functions generated from the implementation); Proofs_Conv proves that the generated
   functions equal them on the unchanged tree. No proofs and no generated definitions in this file. *)
From Coq Require Import ZArith.
Open Scope Z_scope.

Definition std_shares_min : Z := 2.
Definition std_shares_max : Z := 262144.
Definition std_quota_min : Z := 1000.

Definition std_shares (m : Z) : Z := if m <=? 0 then 2 else Z.min 262144 (Z.max 2 (m * 1024 / 1000)).
Definition std_quota (m : Z) : Z := if m <=? 0 then -1 else Z.max 1000 (m * 100).
