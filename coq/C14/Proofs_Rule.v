(* C14 — the rule follows the node: the first ratio always takes effect, and so does every later
   change of at least two hundredths; only a one-step change can be swallowed by the float64
   comparison against 0.01 (witness in Proofs_Codec.rule_stale_refuted). *)
From Coq Require Import List ZArith Bool Lia.
From Verif Require Import Lib.Float53 C14.Rule.
Import ListNotations.
Open Scope Z_scope.

Lemma rne_div_100_near a : a - 50 <= 100 * rne_div a 100 <= a + 50.
Proof.
  unfold rne_div.
  pose proof (Z.div_mod a 100 ltac:(lia)). pose proof (Z.mod_pos_bound a 100 ltac:(lia)).
  destruct (2 * (a mod 100) <? 100) eqn:E1; [apply Z.ltb_lt in E1; lia|apply Z.ltb_ge in E1].
  destruct (100 <? 2 * (a mod 100)) eqn:E2; [apply Z.ltb_lt in E2; lia|apply Z.ltb_ge in E2].
  destruct (Z.even (a / 100)); lia.
Qed.

Lemma dec_mant_near k : k * dec_den k - 50 <= 100 * dec_mant k <= k * dec_den k + 50.
Proof. unfold dec_mant. apply rne_div_100_near. Qed.

(* denominators are large for every ratio below 2^40 hundredths *)
Lemma dec_den_big k : 1 <= k < 2 ^ 40 -> 2 ^ 19 <= dec_den k.
Proof.
  intros [H1 H2]. unfold dec_den.
  assert (Hq : 1 <= k * 128 / 100) by (apply Z.div_le_lower_bound; lia).
  assert (Hlt : k * 128 / 100 < 2 ^ 41).
  { apply Z.div_lt_upper_bound; [lia|]. change (2 ^ 41) with (2 * 2 ^ 40). lia. }
  assert (Hj : Z.log2 (k * 128 / 100) < 41) by (apply Z.log2_lt_pow2; lia).
  pose proof (Z.log2_nonneg (k * 128 / 100)).
  apply Z.pow_le_mono_r; lia.
Qed.

Lemma differs_two_steps k1 k2 :
  1 <= k1 < 2 ^ 40 -> 1 <= k2 < 2 ^ 40 -> 2 <= Z.abs (k1 - k2) ->
  differs (RDec k1) (RDec k2) = true.
Proof.
  intros H1 H2 Hd. unfold differs. apply Z.leb_le.
  pose proof (dec_mant_near k1) as N1. pose proof (dec_mant_near k2) as N2.
  pose proof (dec_den_big k1 H1) as B1. pose proof (dec_den_big k2 H2) as B2.
  assert (E0 : dec_den 1 = 2 ^ 59) by reflexivity.
  assert (M0 : dec_mant 1 = 5764607523034235) by (vm_compute; reflexivity).
  rewrite E0, M0.
  set (T1 := dec_den k1) in *. set (T2 := dec_den k2) in *.
  set (M1 := dec_mant k1) in *. set (M2 := dec_mant k2) in *.
  change (2 ^ 19) with 524288 in *. change (2 ^ 59) with 576460752303423488.
  (* 100 |M1 T2 - M2 T1| >= |k1 - k2| T1 T2 - 50 (T1 + T2) *)
  assert (HT : 0 < T1 * T2) by nia.
  assert (L : 2 * (T1 * T2) - 50 * T2 - 50 * T1 <= 100 * Z.abs (M1 * T2 - M2 * T1)).
  { assert (100 * (M1 * T2 - M2 * T1) = (100 * M1) * T2 - (100 * M2) * T1) by ring.
    destruct (Z.abs_spec (k1 - k2)) as [[? Ea]|[? Ea]]; rewrite Ea in Hd.
    - assert ((k1 * T1 - 50) * T2 - (k2 * T2 + 50) * T1 <= 100 * (M1 * T2 - M2 * T1)) by nia.
      assert ((k1 - k2) * (T1 * T2) >= 2 * (T1 * T2)) by nia. lia.
    - assert ((k2 * T2 - 50) * T1 - (k1 * T1 + 50) * T2 <= 100 * (M2 * T1 - M1 * T2)) by nia.
      assert ((k2 - k1) * (T1 * T2) >= 2 * (T1 * T2)) by nia. lia. }
  (* 50 T2 + 50 T1 <= T1 T2 / 5000 since both are at least 2^19 *)
  assert (S : 5000 * (50 * T2 + 50 * T1) <= T1 * T2) by nia.
  nia.
Qed.

(* consequence for the rule: after two updates the stored ratio is the advertised one unless the
   two annotations are neighbouring two-decimal values *)
Lemma rule_follows prev k :
  1 <= prev < 2 ^ 40 -> 1 <= k < 2 ^ 40 -> 2 <= Z.abs (prev - k) ->
  ratio_of_state (rule_after [prev; k]) = configured [prev; k].
Proof.
  intros Hp Hk Hd. unfold rule_after, configured, rule_update, parse_code. cbn [fold_left].
  replace (prev =? 0) with false by (symmetry; apply Z.eqb_neq; lia).
  replace (0 <? prev) with true by (symmetry; apply Z.ltb_lt; lia).
  replace (k =? 0) with false by (symmetry; apply Z.eqb_neq; lia).
  replace (0 <? k) with true by (symmetry; apply Z.ltb_lt; lia).
  now rewrite differs_two_steps.
Qed.
