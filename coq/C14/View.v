(* C14 — model of the SOURCE SELECTION of the request builders
   (pkg/koordlet/runtimehooks/protocol/pod_context.go, container_context.go) and of the pod object
   they are handed: a stored pod carries the declared batch amounts twice, in
   spec.containers[*].resources and in the node.koordinator.sh/extended-resource-spec annotation.
   The webhook (pkg/webhook/pod/mutating/extended_resource_spec.go) OVERWRITES the annotation
   with what the spec declares; a pod that bypassed the webhook may carry no annotation or a
   foreign / stale one.
     FromProxy / FromNri  : pod level   = the annotation's container map (nil -> nothing to do)
                            container   = the annotation's entry of that container name
     FromReconciler       : pod level   = util.GetPodExtendedResources(pod) when some container
                                          names a batch resource, else the annotation's map
                            container   = util.GetContainerExtendedResources(container) when the
                                          container names a batch resource, else the annotation's
                                          entry of that name
   The hook bodies (Model.v) are then run on the selected amounts.
   Executable, total, no proofs in this file. *)
From Coq Require Import List ZArith Bool.
From Verif Require Import C14.Model.
Import ListNotations.
Open Scope Z_scope.

(* a stored pod: per container (in spec order) the amounts its spec declares and the entry the
   annotation holds under its name ([None] = no entry; an entry may name no resource at all) *)
Notation spod := (list (ctr * option ctr))%type.

Definition nothing : ctr := mkCtr None None None None.

(* ---------- who writes the annotation ---------- *)

(* mutateByExtendedResources: an entry for every container that names a batch resource, the
   previous content is replaced *)
Definition entry_of (c : ctr) : option ctr := if listed c then Some c else None.
Definition webhook (cs : list ctr) : list (option ctr) := map entry_of cs.

(* pair the containers with annotation entries; missing entries are absent *)
Fixpoint attach (cs : list ctr) (an : list (option ctr)) : spod :=
  match cs with
  | [] => []
  | c :: t => (c, match an with e :: _ => e | [] => None end) :: attach t (tl an)
  end.

(* how the pod reached the store: 0 created through the webhook; 1 webhook bypassed, no annotation;
   2 webhook bypassed, foreign annotation kept; 3 created WITH a foreign annotation through the
   webhook (which rewrites it); 4 created through the webhook, the annotation replaced later by
   an UPDATE that the webhook admits without mutating (handleUpdate is a no-op); 5 created through
   the webhook with the DisableExtendedResourceSpec feature gate on (nothing is written);
   anything else as 0 *)
Definition keeps_foreign (amode : Z) : bool := (amode =? 2) || (amode =? 4).
Definition no_annotation (amode : Z) : bool := (amode =? 1) || (amode =? 5).
Definition stored (amode : Z) (cs : list ctr) (foreign : list (option ctr)) : spod :=
  if no_annotation amode then attach cs []
  else if keeps_foreign amode then attach cs foreign
  else attach cs (webhook cs).

(* ---------- the hook bodies on a selected per-container pointer ---------- *)

Fixpoint somes {A} (l : list (option A)) : list A :=
  match l with
  | [] => []
  | Some a :: t => a :: somes t
  | None :: t => somes t
  end.

(* SetContainer*: ExtendedResources == nil -> untouched; otherwise the three conversions (a nil
   Requests / Limits list reads as "absent", Model.amount) *)
Definition container_out_e (g : cfg) (e : option ctr) : res :=
  match e with
  | Some c => if be g then mkRes (Some (ctr_shares c)) (Some (ctr_quota g c)) (Some (ctr_mem c)) else untouched
  | None => untouched
  end.

(* [pv] = the container map the pod-level hook iterates, [es] = the pointer of each container *)
Definition run_v (g : cfg) (pv : list ctr) (es : list (option ctr)) : res * list res :=
  (pod_out_spec g pv, map (container_out_e g) es).

(* ---------- the request builders ---------- *)

(* [recon] = true: FromReconciler (the builder is handed the pod object);
   false: FromProxy / FromNri (the builder is handed labels and annotations only) *)
Definition pod_view (recon : bool) (p : spod) : list ctr :=
  if recon
  then match spec_of (map fst p) with
       | [] => somes (map snd p)
       | sp => sp
       end
  else somes (map snd p).

Definition ctr_view (recon : bool) (x : ctr * option ctr) : option ctr :=
  if recon && listed (fst x) then Some (fst x) else snd x.

Definition run_b (recon : bool) (g : cfg) (p : spod) : res * list res :=
  run_v g (pod_view recon p) (map (ctr_view recon) p).

(* ---------- init containers ---------- *)

(* spec.initContainers: the webhook and util.GetPodExtendedResources skip them ("TODO: count init
   containers and pod overhead"), so the annotation holds no entry under their names and they
   never enter a pod-level sum. FromProxy / FromNri therefore find nothing for them;
   FromReconciler finds them through status.initContainerStatuses and reads their own spec. *)
Definition init_view (recon : bool) (c : ctr) : option ctr :=
  if recon && listed c then Some c else None.

(* the pod's and the containers' responses, then one response per init container *)
Definition run_i (recon : bool) (g : cfg) (p : spod) (inits : list ctr) : (res * list res) * list res :=
  (run_b recon g p, map (fun c => container_out_e g (init_view recon c)) inits).

(* harness mode codes: 0 / 3 runtime proxy, 1 / 4 NRI, anything else reconciler (3, 4, 5 = the same
   paths observed after the injecting stage) *)
Definition recon_of_mode (m : Z) : bool := negb ((m =? 0) || (m =? 1) || (m =? 3) || (m =? 4)).
