(* C14 — extraction of the wire-level entry points (defined in Codec.v) for the generic driver. *)
From Coq Require Import List ZArith Bool.
From Verif Require Import C14.Codec.

Require Extraction.
Require Import ExtrOcamlBasic.
Extraction "model.ml" run_case prop_case nontrivial_case finding_sig.
