(* C14 — flat-integer interface of the model for the generic OCaml driver.
   input  : mode qos cfs ratio n  then n records (rcf rc lcf lc rmf rm lmf lm)
            (mode = which request builder the harness used; the model does not depend on it)
   observable: 6 integers for the pod, then 6 per container in spec order:
            sharesSet shares quotaSet quota memSet mem *)
From Coq Require Import List ZArith Bool.
From Verif Require Import Lib.Wire C14.Model C14.Spec.
Import ListNotations.
Open Scope Z_scope.

Definition opt_of (flag v : Z) : option Z := if flag =? 0 then None else Some v.

Fixpoint decode_ctrs (k : nat) (l : list Z) : list ctr :=
  match k, l with
  | S k', a :: b :: c :: d :: e :: f :: g :: h :: t =>
      mkCtr (opt_of a b) (opt_of c d) (opt_of e f) (opt_of g h) :: decode_ctrs k' t
  | _, _ => []
  end.

Definition decode (inp : list Z) : cfg * list ctr :=
  match inp with
  | _mode :: q :: c :: k :: n :: t => (cfg_of_codes q c k, decode_ctrs (Z.to_nat n) t)
  | _ => (cfg_of_codes 0 0 0, [])
  end.

Definition enc_opt (o : option Z) : list Z := match o with Some v => [1; v] | None => [0; 0] end.
Definition enc_res (r : res) : list Z := enc_opt (shares r) ++ enc_opt (quota r) ++ enc_opt (mem r).
Definition enc_obs (o : obs) : list Z := enc_res (fst o) ++ flat_map enc_res (snd o).

Fixpoint dec_ress (fuel : nat) (l : list Z) : list res :=
  match fuel, l with
  | S f, a :: b :: c :: d :: e :: g :: t => mkRes (opt_of a b) (opt_of c d) (opt_of e g) :: dec_ress f t
  | _, _ => []
  end.

(* a malformed observable (crash marker, error code, wrong length) decodes to too few
   responses and fails clause 9 *)
Definition dec_obs (l : list Z) : obs :=
  match dec_ress (length l) l with
  | p :: rs => (p, rs)
  | [] => (untouched, [])
  end.

Definition well_sized (n : nat) (l : list Z) : bool := Nat.eqb (length l) (6 * (n + 1)).

Definition run_case (inp : list Z) : list Z :=
  let '(g, cs) := decode inp in enc_obs (run g cs).

Definition prop_case (inp o : list Z) : Z :=
  let '(g, cs) := decode inp in
  if negb (well_sized (length cs) o) then 9 else prop_code g cs (dec_obs o).

(* non-trivial: a best-effort pod with at least two containers naming a batch resource, CFS
   quota enabled and a finite pod-level quota or memory limit (so sums, clamps and the
   pod-versus-container comparison are all exercised) *)
Definition nontrivial_case (inp : list Z) : bool :=
  let '(g, cs) := decode inp in
  be g && cfsOn g && (2 <=? Z.of_nat (length (spec_of cs)))
  && (all_cpu_limited (spec_of cs) || all_mem_limited (spec_of cs)).

Definition finding_sig (inp o : list Z) : Z :=
  let '(g, cs) := decode inp in
  if well_sized (length cs) o && d10_shape g cs (dec_obs o) then 1 else 0.

Require Extraction.
Require Import ExtrOcamlBasic.
Extraction "model.ml" run_case prop_case nontrivial_case finding_sig.
