(* C14 — the request builders' source selection (View.v): for a pod admitted by the webhook every
   builder yields the model of Model.v; the reconciler builder ignores the annotation whenever
   the pod spec is complete; for EVERY stored pod (webhook bypassed, stale / foreign / absent
   annotation) the hooks satisfy the property with respect to the declaration the agent is
   handed, or fail in the D10 shape. *)
From Coq Require Import List ZArith Bool Lia.
From Verif Require Import C14.Model C14.View C14.Spec C14.Proofs C14.Proofs_Conv C14.Proofs_Pod
  C14.Proofs_Main C14.Proofs_Model.
Import ListNotations.
Open Scope Z_scope.

(* ---------- bookkeeping on stored pods ---------- *)

Lemma attach_fst cs an : map fst (attach cs an) = cs.
Proof. revert an. induction cs as [|c cs IH]; intro an; cbn [attach map fst]; [reflexivity|now rewrite IH]. Qed.

Lemma attach_length cs an : length (attach cs an) = length cs.
Proof. rewrite <- (attach_fst cs an) at 2. now rewrite map_length. Qed.

Lemma attach_snd_map (f : ctr -> option ctr) cs : map snd (attach cs (map f cs)) = map f cs.
Proof. induction cs as [|c cs IH]; cbn [attach map snd tl]; [reflexivity|now rewrite IH]. Qed.

Lemma somes_entry_of cs : somes (map entry_of cs) = spec_of cs.
Proof.
  unfold spec_of. induction cs as [|c cs IH]; cbn [map somes filter]; [reflexivity|].
  unfold entry_of at 1. destruct (listed c); cbn [somes]; now rewrite IH.
Qed.

Lemma somes_map_Some {A} (l : list A) : somes (map Some l) = l.
Proof. induction l as [|x l IH]; cbn [map somes]; [reflexivity|now rewrite IH]. Qed.

Lemma unlisted_nothing c : listed c = false -> c = nothing.
Proof. destruct c as [[?|] [?|] [?|] [?|]]; cbn; try discriminate. reflexivity. Qed.

Lemma of_entry_entry_of c : of_entry (entry_of c) = c.
Proof.
  unfold entry_of. destruct (listed c) eqn:L; cbn [of_entry]; [reflexivity|].
  symmetry. now apply unlisted_nothing.
Qed.

Lemma container_out_entry g c : container_out g c = container_out_e g (entry_of c).
Proof.
  unfold container_out, entry_of. destruct (listed c); cbn [container_out_e].
  - now rewrite andb_true_r.
  - now rewrite andb_false_r.
Qed.

(* ---------- a pod admitted by the webhook: all builders agree with Model.run ---------- *)

Lemma handed_synced recon cs : handed recon (attach cs (webhook cs)) = cs.
Proof.
  unfold handed, webhook. destruct recon; [apply attach_fst|].
  rewrite <- (map_map snd of_entry), attach_snd_map, map_map.
  rewrite <- (map_id cs) at 2. apply map_ext. exact of_entry_entry_of.
Qed.

Lemma view_synced recon g cs : run_b recon g (attach cs (webhook cs)) = run g cs.
Proof.
  unfold run_b, run_v, run, webhook. f_equal.
  - unfold pod_out, pod_view. rewrite attach_fst, attach_snd_map, somes_entry_of.
    destruct recon; [|reflexivity]. now destruct (spec_of cs).
  - induction cs as [|c cs IH]; cbn [attach map tl]; [reflexivity|]. rewrite IH. f_equal.
    unfold ctr_view. cbn [fst snd]. rewrite container_out_entry. unfold entry_of.
    destruct recon, (listed c); reflexivity.
Qed.

Lemma stored_synced amode cs foreign : no_annotation amode = false -> keeps_foreign amode = false ->
  stored amode cs foreign = attach cs (webhook cs).
Proof. intros H1 H2. unfold stored. now rewrite H1, H2. Qed.

(* ---------- the reconciler prefers the pod spec, at both levels ---------- *)

Lemma filter_all' {A} (p : A -> bool) l : forallb p l = true -> filter p l = l.
Proof.
  induction l as [|x l IH]; cbn [forallb filter]; [reflexivity|].
  intro H. apply andb_true_iff in H. destruct H as [Hx Hl]. now rewrite Hx, IH.
Qed.

Lemma reconciler_views_listed p : forallb listed (map fst p) = true ->
  map (ctr_view true) p = map Some (map fst p).
Proof.
  induction p as [|[c e] p IH]; cbn [map forallb fst]; [reflexivity|].
  intro H. apply andb_true_iff in H. destruct H as [L Hp]. rewrite IH by exact Hp.
  unfold ctr_view. cbn [fst snd andb]. now rewrite L.
Qed.

Lemma reconciler_pod_view_listed p : forallb listed (map fst p) = true -> pod_view true p = map fst p.
Proof.
  intro H. unfold pod_view, spec_of. rewrite filter_all' by exact H.
  destruct p as [|x p]; reflexivity.
Qed.

Lemma run_v_all_some g cs : run_v g cs (map Some cs) = run_v g (somes (map Some cs)) (map Some cs).
Proof. now rewrite somes_map_Some. Qed.

(* ---------- effective values of a container's response ---------- *)

Lemma unlisted_wants g c : listed c = false ->
  want_ctr_shares c = std_shares_min /\ want_ctr_quota g c = unlimited /\ want_ctr_mem c = unlimited.
Proof.
  intro L. rewrite (unlisted_nothing c L). unfold want_ctr_quota. cbn. rewrite andb_false_r. repeat split.
Qed.

Lemma container_out_e_some g c : be g = true ->
  container_out_e g (Some c) = mkRes (Some (want_ctr_shares c)) (Some (want_ctr_quota g c)) (Some (want_ctr_mem c)).
Proof. intro H. unfold container_out_e. rewrite H. now rewrite ctr_shares_spec, ctr_quota_spec, ctr_mem_spec. Qed.

Lemma eff_out g e : be g = true ->
  eff_shares (shares (container_out_e g e)) = want_ctr_shares (of_entry e)
  /\ eff_unl (quota (container_out_e g e)) = want_ctr_quota g (of_entry e)
  /\ eff_unl (mem (container_out_e g e)) = want_ctr_mem (of_entry e).
Proof.
  intro Hbe. destruct e as [c|].
  - rewrite container_out_e_some by exact Hbe. cbn. repeat split.
  - cbn [container_out_e of_entry untouched shares quota mem eff_shares eff_unl].
    destruct (unlisted_wants g nothing eq_refl) as [-> [-> ->]]. repeat split.
Qed.

Lemma ctr_ok_e g e : be g = true -> ctr_ok g (of_entry e) (container_out_e g e).
Proof.
  intro Hbe. unfold ctr_ok. destruct (declares_any (of_entry e)) eqn:L.
  - destruct e as [c|]; [|discriminate]. cbn [of_entry]. now apply container_out_e_some.
  - destruct (eff_out g e Hbe) as [-> [-> ->]].
    destruct (unlisted_wants g (of_entry e) L) as [_ [-> ->]]. repeat split.
Qed.

(* ---------- the property from "the pod holds the expected pod values" ---------- *)

Definition wants (g : cfg) (H : list ctr) : res :=
  mkRes (Some (want_pod_shares H)) (Some (want_pod_quota g H)) (Some (want_pod_mem H)).

Lemma near_sum_core g H rs : H <> [] ->
  sum_shares rs = sumZ (map want_ctr_shares H) ->
  sum_quota rs = sumZ (map (want_ctr_quota g) H) ->
  sum_mem rs = sumZ (map want_ctr_mem H) ->
  near_sum g H (wants g H, rs).
Proof.
  intros Hne Es Eq Em. unfold near_sum, wants. cbn [fst snd shares quota mem eff_shares eff_unl].
  rewrite Es, Eq, Em. split; [|split].
  - assert (E : sumZ (map want_ctr_shares H)
                = sumZ (map (fun c => MilliCPUToShares (declared (reqC c))) H)).
    { apply sumZ_map_ext. intros c _. unfold want_ctr_shares. now rewrite shares_std. }
    rewrite E. unfold want_pod_shares. rewrite <- shares_std.
    change std_shares_max with CPUSharesMaxValue. change std_shares_min with CPUSharesMinValue.
    intro Hmax.
    apply (shares_sum_bounds (fun c => declared (reqC c)) H); [intros; apply declared_nonneg|exact Hne|exact Hmax].
  - intros Hcfs Hlim. unfold want_pod_quota. rewrite Hcfs, Hlim. cbn [andb].
    unfold all_cpu_limited in Hlim. rewrite forallb_forall in Hlim.
    assert (E : sumZ (map (want_ctr_quota g) H)
                = sumZ (map (fun c => normalized (ratio g) (MilliCPUToQuota (amount (limC c)))) H)).
    { apply sumZ_map_ext. intros c Hc. unfold want_ctr_quota. now rewrite Hcfs, (Hlim c Hc), quota_std. }
    rewrite E. rewrite <- quota_std. change std_quota_min with CFSQuotaMinValue.
    apply (quota_near_sum (fun c => amount (limC c)) H (ratio g)); [|exact Hne].
    intros c Hc. now destruct (declared_limited _ (Hlim c Hc)).
  - intro Hlim. unfold want_pod_mem. rewrite Hlim.
    unfold all_mem_limited in Hlim. rewrite forallb_forall in Hlim.
    apply sumZ_map_ext. intros c Hc. unfold want_ctr_mem. now rewrite (Hlim c Hc).
Qed.

Lemma sums_of_outputs g es : be g = true ->
  let rs := map (container_out_e g) es in let H := map of_entry es in
  sum_shares rs = sumZ (map want_ctr_shares H)
  /\ sum_quota rs = sumZ (map (want_ctr_quota g) H)
  /\ sum_mem rs = sumZ (map want_ctr_mem H).
Proof.
  intro Hbe. cbv zeta. unfold sum_shares, sum_quota, sum_mem. rewrite !map_map.
  repeat split; apply sumZ_map_ext; intros e _; now destruct (eff_out g e Hbe) as [? [? ?]].
Qed.

Lemma uses_batch_ne H : uses_batch H = true -> H <> [].
Proof. intros Hu E. subst H. discriminate. Qed.

(* the containers' responses are those of the pointers [es]; the pod's response is the expected
   pod value for the declaration [map of_entry es] *)
Lemma holds_e g es pod :
  (be g = true -> uses_batch (map of_entry es) = true -> pod = wants g (map of_entry es)) ->
  (be g = false -> pod = untouched) ->
  C14_holds g (map of_entry es) (pod, map (container_out_e g) es).
Proof.
  intros Hpod Hnb. unfold C14_holds. cbn [fst snd].
  split; [now rewrite !map_length|].
  split.
  { intro Hbe. unfold non_be_untouched. cbn [fst snd]. split; [now apply Hnb|].
    apply Forall_forall. intros r Hr. apply in_map_iff in Hr. destruct Hr as [e [<- _]].
    unfold container_out_e. rewrite Hbe. now destruct e. }
  intros Hbe Hub. rewrite (Hpod Hbe Hub). set (H := map of_entry es) in *.
  split; [|split; [|split]].
  - unfold H. clear - Hbe. induction es as [|e es IH]; cbn [map]; [constructor|constructor; [now apply ctr_ok_e|exact IH]].
  - apply Forall_forall. intros r Hr. apply in_map_iff in Hr. destruct Hr as [e [<- He]].
    assert (Hin : In (of_entry e) H) by (unfold H; now apply in_map).
    unfold pod_covers, wants. cbn [shares quota mem eff_shares eff_unl].
    destruct (eff_out g e Hbe) as [-> [-> ->]].
    split; [now apply want_shares_le|]. split; [now apply want_quota_no_tighter|now apply want_mem_no_tighter].
  - reflexivity.
  - destruct (sums_of_outputs g es Hbe) as [Es [Eq Em]].
    apply near_sum_core; [now apply uses_batch_ne|exact Es|exact Eq|exact Em].
Qed.

Lemma pod_out_spec_non_be g sp : be g = false -> pod_out_spec g sp = untouched.
Proof. intro H. unfold pod_out_spec. rewrite H. now destruct sp. Qed.

Lemma pod_out_spec_wants g sp : be g = true -> sp <> [] -> pod_out_spec g sp = wants g sp.
Proof. intros Hbe Hne. exact (pod_out_spec_ok g sp Hbe Hne). Qed.

Lemma map_of_entry_Some cs : map of_entry (map Some cs) = cs.
Proof. rewrite map_map. cbn [of_entry]. apply map_id. Qed.

(* every container has a pointer (possibly naming no resource) and the pod level sums them all *)
Lemma holds_all_some g cs : C14_holds g cs (run_v g cs (map Some cs)).
Proof.
  unfold run_v. rewrite <- (map_of_entry_Some cs) at 1. apply holds_e.
  - rewrite map_of_entry_Some. intros Hbe Hub. apply pod_out_spec_wants; [exact Hbe|now apply uses_batch_ne].
  - apply pod_out_spec_non_be.
Qed.

(* ---------- annotation-only builders: the expected pod values over the entries ---------- *)

Lemma want_pod_shares_somes es : want_pod_shares (somes es) = want_pod_shares (map of_entry es).
Proof.
  unfold want_pod_shares. f_equal. induction es as [|[c|] es IH]; cbn [somes map of_entry]; [reflexivity| |].
  - now rewrite !sumZ_cons, IH.
  - rewrite sumZ_cons, IH. reflexivity.
Qed.

Definition has_blank (es : list (option ctr)) : bool :=
  existsb (fun e => match e with Some a => negb (listed a) | None => false end) es.

Lemma blank_unlimited es : has_blank es = true ->
  all_cpu_limited (somes es) = false /\ all_mem_limited (somes es) = false
  /\ all_cpu_limited (map of_entry es) = false /\ all_mem_limited (map of_entry es) = false
  /\ somes es <> [].
Proof.
  unfold has_blank, all_cpu_limited, all_mem_limited.
  induction es as [|[c|] es IH]; cbn [existsb somes map of_entry forallb]; [discriminate| |].
  - destruct (listed c) eqn:L; cbn [negb orb].
    + intro H. destruct (IH H) as [-> [-> [-> [-> _]]]]. rewrite !andb_false_r. repeat split; discriminate.
    + intros _. rewrite (unlisted_nothing c L). cbn. repeat split; discriminate.
  - cbn [orb]. intro H. destruct (IH H) as [-> [-> [_ [_ Hne]]]]. cbn. repeat split; exact Hne.
Qed.

Lemma no_blank_run g es : has_blank es = false ->
  run_v g (somes es) es = run g (map of_entry es).
Proof.
  intro Hb. unfold run_v, run, pod_out. f_equal.
  - f_equal. unfold spec_of, has_blank in *.
    induction es as [|[c|] es IH]; cbn [somes map of_entry filter existsb] in *; [reflexivity| |].
    + apply orb_false_iff in Hb. destruct Hb as [L Hb]. apply negb_false_iff in L. rewrite L. now rewrite IH.
    + cbn [orb] in Hb. now rewrite IH.
  - rewrite map_map. unfold has_blank in Hb.
    induction es as [|[c|] es IH]; cbn [map of_entry existsb] in *; [reflexivity| |].
    + apply orb_false_iff in Hb. destruct Hb as [L Hb]. apply negb_false_iff in L. rewrite IH by exact Hb.
      f_equal. rewrite container_out_entry. unfold entry_of. now rewrite L.
    + cbn [orb] in Hb. rewrite IH by exact Hb. f_equal.
      unfold container_out. cbn. now rewrite andb_false_r.
Qed.

Lemma blank_holds g es : has_blank es = true -> C14_holds g (map of_entry es) (run_v g (somes es) es).
Proof.
  intro Hb. destruct (blank_unlimited es Hb) as [C1 [M1 [C2 [M2 Hne]]]].
  unfold run_v. apply holds_e; [|apply pod_out_spec_non_be].
  intros Hbe _. rewrite pod_out_spec_wants by assumption. unfold wants.
  rewrite want_pod_shares_somes. unfold want_pod_quota, want_pod_mem. rewrite C1, C2, M1, M2, !andb_false_r. reflexivity.
Qed.

Lemma entries_only_d10 g es :
  prop_code g (map of_entry es) (run_v g (somes es) es) = 0
  \/ d10_shape g (map of_entry es) (run_v g (somes es) es) = true.
Proof.
  destruct (has_blank es) eqn:Hb.
  - left. apply prop_code_complete. now apply blank_holds.
  - rewrite no_blank_run by exact Hb. apply only_d10.
Qed.

(* ---------- the reconciler builder ---------- *)

Lemma spec_nil_uses cs : spec_of cs = [] -> uses_batch cs = false.
Proof.
  intro E. destruct (uses_batch cs) eqn:U; [|reflexivity].
  exfalso. now apply (uses_batch_nonempty cs U).
Qed.

Lemma holds_vacuous g H o : uses_batch H = false -> length (snd o) = length H ->
  (be g = false -> non_be_untouched o) -> C14_holds g H o.
Proof.
  intros Hu Hl Hn. unfold C14_holds. split; [exact Hl|]. split; [exact Hn|].
  intros _ Hub. congruence.
Qed.

Lemma run_b_non_be recon g p : be g = false -> non_be_untouched (run_b recon g p).
Proof.
  intro Hbe. unfold non_be_untouched, run_b, run_v. cbn [fst snd].
  split; [now apply pod_out_spec_non_be|].
  apply Forall_forall. intros r Hr. apply in_map_iff in Hr. destruct Hr as [e [<- _]].
  unfold container_out_e. rewrite Hbe. now destruct e.
Qed.

Lemma run_b_length recon g p : length (snd (run_b recon g p)) = length (handed recon p).
Proof. unfold run_b, run_v, handed. cbn [snd]. destruct recon; now rewrite !map_length. Qed.

Lemma restrict_reconciler g p :
  restrict (map fst p) (map (container_out_e g) (map (ctr_view true) p))
  = map (container_out_e g) (map Some (filter listed (map fst p))).
Proof.
  induction p as [|[c e] p IH]; cbn [map fst restrict filter]; [reflexivity|].
  unfold ctr_view at 1. cbn [fst snd andb].
  destruct (listed c) eqn:L; cbn [map]; now rewrite IH.
Qed.

Lemma reconciler_only_d10 g p :
  prop_code g (map fst p) (run_b true g p) = 0 \/ d10_shape g (map fst p) (run_b true g p) = true.
Proof.
  set (cs := map fst p).
  destruct (spec_of cs) as [|c0 sp0] eqn:Esp.
  { left. apply prop_code_complete, holds_vacuous.
    - now apply spec_nil_uses.
    - apply (run_b_length true g p).
    - apply run_b_non_be. }
  destruct (Z.eq_dec (prop_code g cs (run_b true g p)) 0) as [E|E]; [now left|right].
  assert (Hpv : pod_view true p = filter listed cs).
  { unfold pod_view. fold cs. rewrite Esp. symmetry. exact Esp. }
  unfold d10_shape.
  replace (prop_code g cs (run_b true g p) =? 0) with false by (symmetry; now apply Z.eqb_neq).
  cbn [negb andb].
  assert (Hr : prop_code g (filter listed cs) (fst (run_b true g p), restrict cs (snd (run_b true g p))) = 0).
  { unfold run_b, run_v. cbn [fst snd]. unfold cs. rewrite restrict_reconciler. fold cs. rewrite Hpv.
    apply prop_code_complete. apply (holds_all_some g (filter listed cs)). }
  rewrite Hr, Z.eqb_refl, andb_true_r.
  destruct (existsb (fun c => negb (listed c)) cs) eqn:Ex; [reflexivity|exfalso].
  assert (Hall : forallb listed cs = true).
  { apply forallb_forall. intros c Hc. destruct (listed c) eqn:L; [reflexivity|].
    assert (existsb (fun c => negb (listed c)) cs = true) by (apply existsb_exists; exists c; now rewrite L).
    congruence. }
  apply E. unfold run_b. unfold cs in Hall.
  rewrite reconciler_views_listed, reconciler_pod_view_listed by exact Hall.
  apply prop_code_complete, holds_all_some.
Qed.

(* ---------- all builders, every stored pod ---------- *)

Lemma run_b_annotation g p :
  run_b false g p = run_v g (somes (map snd p)) (map snd p).
Proof. reflexivity. Qed.

Lemma handed_annotation p : handed false p = map of_entry (map snd p).
Proof. unfold handed. now rewrite map_map. Qed.

Lemma view_only_d10 recon g p :
  prop_code g (handed recon p) (run_b recon g p) = 0
  \/ d10_shape g (handed recon p) (run_b recon g p) = true.
Proof.
  destruct recon; [apply reconciler_only_d10|].
  rewrite handed_annotation, run_b_annotation. apply entries_only_d10.
Qed.

Lemma all_some_map p : forallb (fun x : ctr * option ctr => isSome (snd x)) p = true ->
  map snd p = map Some (map of_entry (map snd p)).
Proof.
  induction p as [|[c [a|]] p IH]; cbn [forallb map snd isSome of_entry andb]; [reflexivity| |discriminate].
  intro H. now rewrite <- IH.
Qed.

Lemma view_main recon g p : complete recon p = true ->
  prop_code g (handed recon p) (run_b recon g p) = 0.
Proof.
  intro Hc. apply prop_code_complete. destruct recon; cbn [complete] in Hc.
  - unfold run_b, handed. rewrite reconciler_views_listed, reconciler_pod_view_listed by exact Hc.
    apply holds_all_some.
  - rewrite handed_annotation, run_b_annotation. rewrite (all_some_map p Hc) at 2 3.
    rewrite somes_map_Some. apply holds_all_some.
Qed.

(* the reconciler's responses do not depend on the annotation when every container names a batch
   resource in the pod spec: both levels read the spec *)
Lemma reconciler_prefers_spec g cs an : forallb listed cs = true ->
  run_b true g (attach cs an) = run g cs.
Proof.
  intro H. unfold run_b.
  rewrite reconciler_views_listed, reconciler_pod_view_listed by (now rewrite attach_fst).
  rewrite attach_fst. unfold run_v, run, pod_out, spec_of. rewrite filter_all' by exact H. f_equal.
  rewrite map_map. apply map_ext_in. intros c Hc. rewrite container_out_entry. unfold entry_of.
  rewrite forallb_forall in H. now rewrite (H c Hc).
Qed.

(* limit, not a finding: the runtime-proxy / NRI requests carry no pod spec, so with a stale
   annotation the injected values follow the annotation and not what the spec declares *)
Lemma annotation_only_follows_annotation_refuted :
  exists g cs an, forallb listed cs = true
    /\ prop_code g cs (run_b true g (attach cs an)) = 0
    /\ prop_code g (handed false (attach cs an)) (run_b false g (attach cs an)) = 0
    /\ prop_code g cs (run_b false g (attach cs an)) = 2.
Proof.
  exists (mkCfg true true (-100)),
         [mkCtr (Some 4000) (Some 4000) (Some 8589934592) (Some 8589934592)],
         [Some (mkCtr (Some 1000) (Some 1000) (Some 1073741824) (Some 1073741824))].
  vm_compute. repeat split.
Qed.

(* ---------- init containers ---------- *)

Lemma init_code_spec g H HI pod ri : init_code g H HI pod ri = 0 <-> init_holds g H HI pod ri.
Proof.
  unfold init_code, init_holds.
  destruct (Nat.eqb (length ri) (length HI)) eqn:EL; cbn [negb].
  2:{ split; [discriminate|]. intros [E _]. apply Nat.eqb_neq in EL. contradiction. }
  apply Nat.eqb_eq in EL.
  destruct (be g) eqn:Ebe; cbn [negb].
  2:{ destruct (forallb res_untouchedb ri) eqn:E.
      - split; [intros _|reflexivity]. split; [exact EL|]. split; [|discriminate].
        intros _. apply Forall_forall. intros r Hr. apply res_untouchedb_spec.
        rewrite forallb_forall in E. now apply E.
      - split; [discriminate|]. intros [_ [Hn _]]. specialize (Hn eq_refl).
        assert (forallb res_untouchedb ri = true); [|congruence].
        apply forallb_forall. intros r Hr. apply res_untouchedb_spec. rewrite Forall_forall in Hn. now apply Hn. }
  destruct (uses_batch (H ++ HI)) eqn:Hub; cbn [negb].
  2:{ split; [intros _|reflexivity]. split; [exact EL|]. split; discriminate. }
  destruct (forallb2 (ctr_okb g) HI ri) eqn:E2; cbn [negb].
  2:{ split; [discriminate|]. intros [_ [_ Hb]]. destruct (Hb eq_refl eq_refl) as [H2 _].
      apply (forallb2_spec _ _ (ctr_okb_spec g)) in H2. congruence. }
  destruct (forallb (pod_coversb pod) ri) eqn:E3; cbn [negb].
  2:{ split; [discriminate|]. intros [_ [_ Hb]]. destruct (Hb eq_refl eq_refl) as [_ H3].
      assert (forallb (pod_coversb pod) ri = true); [|congruence].
      apply forallb_forall. intros r Hr. apply pod_coversb_spec. rewrite Forall_forall in H3. now apply H3. }
  split; [intros _|reflexivity]. split; [exact EL|]. split; [discriminate|]. intros _ _.
  split; [now apply (forallb2_spec _ _ (ctr_okb_spec g))|].
  apply Forall_forall. intros r Hr. apply pod_coversb_spec. rewrite forallb_forall in E3. now apply E3.
Qed.

Lemma prop_code_i_spec g H HI o ri :
  prop_code_i g H HI o ri = 0 <-> C14_holds g H o /\ init_holds g H HI (fst o) ri.
Proof.
  unfold prop_code_i. cbv zeta. destruct (prop_code g H o =? 0) eqn:E.
  - apply Z.eqb_eq in E. rewrite init_code_spec. split; [intro Hi; split; [now apply prop_code_spec|exact Hi]|tauto].
  - apply Z.eqb_neq in E. split; [contradiction|]. intros [Hc _]. now apply prop_code_spec in Hc.
Qed.

Lemma init_code_nil g H pod : init_code g H [] pod [] = 0.
Proof. unfold init_code. cbn. destruct (be g), (uses_batch (H ++ [])); reflexivity. Qed.

(* every builder, every stored pod, any init containers: the main clauses hold or fail in the D10
   shape; the init clauses can only fail when there are init containers (D11) *)
Lemma view_i_only recon g p inits :
  let o := run_i recon g p inits in
  prop_code_i g (handed recon p) inits (fst o) (snd o) = 0
  \/ d10_shape g (handed recon p) (fst o) = true
  \/ d11_shape g (handed recon p) inits (fst o) (snd o) = true.
Proof.
  cbv zeta. unfold run_i. cbn [fst snd]. unfold prop_code_i, d11_shape. cbv zeta.
  destruct (view_only_d10 recon g p) as [E|E]; [|right; now left].
  rewrite E. cbn [Z.eqb andb].
  match goal with |- context [init_code ?a ?b ?c ?d ?e] => destruct (Z.eq_dec (init_code a b c d e) 0) as [Ei|Ei] end.
  - now left.
  - right. right. destruct inits as [|c inits].
    + exfalso. apply Ei. apply init_code_nil.
    + now replace (_ =? 0) with false by (symmetry; now apply Z.eqb_neq).
Qed.

Lemma view_i_main recon g p : complete recon p = true ->
  prop_code_i g (handed recon p) [] (run_b recon g p) [] = 0.
Proof.
  intro Hc. unfold prop_code_i. cbv zeta. rewrite (view_main recon g p Hc). cbn [Z.eqb]. apply init_code_nil.
Qed.

(* the reconciler gives every init container the conversion of its own declared amounts
   (clause 10 cannot fail there) *)
Lemma reconciler_init_conv g inits : be g = true ->
  Forall2 (ctr_ok g) inits (map (fun c => container_out_e g (init_view true c)) inits).
Proof.
  intro Hbe. induction inits as [|c inits IH]; cbn [map]; constructor; [|exact IH].
  unfold init_view. cbn [andb]. destruct (listed c) eqn:L.
  - exact (ctr_ok_e g (Some c) Hbe).
  - rewrite (unlisted_nothing c L). exact (ctr_ok_e g None Hbe).
Qed.

(* D11 witness: BE pod, main container batch-cpu 1000 / batch-memory 1Gi, init container
   batch-cpu 4000 / batch-memory 8Gi, reconciler: the init container gets its own limits, the pod
   holds the sum over spec.containers only *)
Lemma d11_refuted :
  exists g p inits, complete true p = true
    /\ prop_code g (handed true p) (run_b true g p) = 0
    /\ run_i true g p inits
       = ((mkRes (Some 1024) (Some 100000) (Some 1073741824), [mkRes (Some 1024) (Some 100000) (Some 1073741824)]),
          [mkRes (Some 4096) (Some 400000) (Some 8589934592)])
    /\ prop_code_i g (handed true p) inits (fst (run_i true g p inits)) (snd (run_i true g p inits)) = 11
    /\ prop_code_i g (handed false p) inits (fst (run_i false g p inits)) (snd (run_i false g p inits)) = 10.
Proof.
  exists (mkCfg true true (-100)).
  exists (attach [mkCtr (Some 1000) (Some 1000) (Some 1073741824) (Some 1073741824)]
                 (webhook [mkCtr (Some 1000) (Some 1000) (Some 1073741824) (Some 1073741824)])).
  exists [mkCtr (Some 4000) (Some 4000) (Some 8589934592) (Some 8589934592)].
  vm_compute. repeat split.
Qed.
