(* C14 — model of the BatchResource runtime hook
   (pkg/koordlet/runtimehooks/hooks/batchresource/batch_resource.go, rule.go), of the part of the
   pod webhook that records the declared batch amounts (pkg/webhook/pod/mutating/
   extended_resource_spec.go, pkg/util/container.go) and of the request builders
   (runtimehooks/protocol/{pod,container}_context.go) as far as they select the amounts.
   The unit conversions MilliCPUToShares / MilliCPUToQuota and their constants are NOT re-typed
   here: they are the definitions regenerated from pkg/koordlet/util/system/cgroup.go.
   Executable, total, no proofs in this file. *)
From Coq Require Import List ZArith Bool.
From Verif Require Export Lib.ListX Lib.Float53.
From Verif Require Export Gen.Gen_consts Gen.Gen_funcs.
Import ListNotations.
Open Scope Z_scope.

(* ---------- inputs ---------- *)

(* declared batch amounts of one container; [None] = the resource name is not declared
   (batch-cpu in milli-CPU, batch-memory in bytes; any integer may be declared) *)
Record ctr := mkCtr {
  reqC : option Z;   (* resources.requests[kubernetes.io/batch-cpu]    *)
  limC : option Z;   (* resources.limits  [kubernetes.io/batch-cpu]    *)
  reqM : option Z;   (* resources.requests[kubernetes.io/batch-memory] *)
  limM : option Z }. (* resources.limits  [kubernetes.io/batch-memory] *)

(* what the hook's rule and the pod's QoS marking amount to *)
Record cfg := mkCfg {
  be    : bool;   (* GetQoSClassByAttrs(labels, annotations) == BE *)
  cfsOn : bool;   (* Rule.enableCFSQuota (default true) *)
  ratio : Z }.    (* Rule.cpuNormalizationRatio in hundredths; -100 = unset/disabled *)

(* ---------- outputs ---------- *)

(* Response.Resources: [None] = field left nil (cgroup untouched) *)
Record res := mkRes { shares : option Z; quota : option Z; mem : option Z }.
Definition untouched : res := mkRes None None None.

(* ---------- webhook: which containers are recorded in the extended-resource-spec ---------- *)

Definition isSome {A} (o : option A) : bool := match o with Some _ => true | None => false end.

(* getContainerExtendedResourcesRequirement / GetContainerTargetExtendedResources return nil
   when neither requests nor limits name a batch resource: the container gets no entry *)
Definition listed (c : ctr) : bool :=
  isSome (reqC c) || isSome (limC c) || isSome (reqM c) || isSome (limM c).

(* the annotation's container map, in some iteration order *)
Definition spec_of (cs : list ctr) : list ctr := filter listed cs.

(* util.GetBatchMilliCPUFromResourceList / GetBatchMemoryFromResourceList: -1 when absent
   (an absent Requests/Limits list behaves the same in every caller) *)
Definition amount (o : option Z) : Z := match o with Some v => v | None => -1 end.

(* ---------- rule: CFS quota scaling ---------- *)

(* cfsQuota = int64(math.Ceil(float64(cfsQuota) / scaleRatio)) when cfsQuota > 0 && scaleRatio > 1.0,
   scaleRatio = ParseFloat of the node annotation (r hundredths). The float64 expression is
   Lib.Float53.ratio_div_ceil: correctly rounded 53-bit quotient by the double nearest to r/100,
   then the ceiling (exact for quotas below 2^53). scaleRatio > 1.0 iff r > 100. *)
Definition scale_quota (r q : Z) : Z :=
  if (0 <? q) && (100 <? r) then ratio_div_ceil r q else q.

(* ---------- container level (SetContainerCPUShares / CFSQuota / MemoryLimit) ---------- *)

Definition pos_or_zero (v : Z) : Z := if 0 <? v then v else 0.

Definition ctr_shares (c : ctr) : Z := MilliCPUToShares (pos_or_zero (amount (reqC c))).
Definition ctr_quota (g : cfg) (c : ctr) : Z :=
  if cfsOn g then scale_quota (ratio g) (MilliCPUToQuota (pos_or_zero (amount (limC c)))) else -1.
Definition ctr_mem (c : ctr) : Z :=
  let l := pos_or_zero (amount (limM c)) in if l <=? 0 then -1 else l.

Definition container_out (g : cfg) (c : ctr) : res :=
  if be g && listed c
  then mkRes (Some (ctr_shares c)) (Some (ctr_quota g c)) (Some (ctr_mem c))
  else untouched.

(* ---------- pod level (SetPodCPUShares / CFSQuota / MemoryLimit) ---------- *)

(* for _, c := range spec.Containers { r := get(c.Requests); if r <= 0 {continue}; sum += r } *)
Definition sum_requests (l : list ctr) : Z :=
  fold_left (fun acc c => let r := amount (reqC c) in if r <=? 0 then acc else acc + r) l 0.

(* for _, c := range spec.Containers { v := get(c.Limits); if v <= 0 {sum = -1; break}; sum += v } *)
Fixpoint sum_limits (f : ctr -> Z) (acc : Z) (l : list ctr) : Z :=
  match l with
  | [] => acc
  | c :: t => if f c <=? 0 then -1 else sum_limits f (acc + f c) t
  end.

Definition cpu_limit (c : ctr) : Z := amount (limC c).
Definition mem_limit (c : ctr) : Z := amount (limM c).

Definition pod_shares (sp : list ctr) : Z := MilliCPUToShares (sum_requests sp).
Definition pod_quota (g : cfg) (sp : list ctr) : Z :=
  if cfsOn g then scale_quota (ratio g) (MilliCPUToQuota (sum_limits cpu_limit 0 sp)) else -1.
Definition pod_mem (sp : list ctr) : Z := sum_limits mem_limit 0 sp.

(* [sp] is the recorded spec in the order the hook happens to iterate it *)
Definition pod_out_spec (g : cfg) (sp : list ctr) : res :=
  match sp with
  | [] => untouched                     (* no annotation / empty map: ExtendedResources == nil *)
  | _ => if be g then mkRes (Some (pod_shares sp)) (Some (pod_quota g sp)) (Some (pod_mem sp))
         else untouched
  end.

Definition pod_out (g : cfg) (cs : list ctr) : res := pod_out_spec g (spec_of cs).

(* the whole observable: the pod's response, then one response per container in spec order *)
Definition run (g : cfg) (cs : list ctr) : res * list res :=
  (pod_out g cs, map (container_out g) cs).

(* ---------- the environment codes of the harness -> cfg ---------- *)

(* qos code: 1 = label BE, 5 = label BE and an annotation naming another class; every other
   code (unmarked, other classes, unknown name, annotation only) is not BE for
   apis/extension.GetQoSClassByAttrs, which reads the label only *)
Definition be_of_code (q : Z) : bool := (q =? 1) || (q =? 5).
(* cfs code 2 = suppress strategy enabled with policy cfsQuota -> quota disabled for batch pods;
   never parsed / defaults / other policies / strategy disabled -> enabled *)
Definition cfs_of_code (c : Z) : bool := negb (c =? 2).
(* ratio code k of a single node-meta update on a fresh rule: k > 0 annotation k/100; -1 never
   parsed, 0 no annotation, -2/-3 rejected values (Rule.v models sequences of updates) *)
Definition ratio_of_code (k : Z) : Z := if 0 <? k then k else -100.

(* [r] is the ratio the rule holds, in hundredths (-100 = unset / -1.0) *)
Definition cfg_of_codes (q c r : Z) : cfg := mkCfg (be_of_code q) (cfs_of_code c) r.
