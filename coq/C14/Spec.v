(* C14 — the property as Props over (configuration, declared amounts, observable) and its
   decision procedure [prop_code] (0 = holds, otherwise the number of the first failing clause).
   The expected values are written from scratch (sums with [sumZ], "every container limited" with
   [forallb]) and do not mention how the webhook records the amounts or how the hook iterates. *)
From Coq Require Import List ZArith Bool.
From Verif Require Import C14.Model C14.View.
From Verif Require Export C14.Std.
Import ListNotations.
Open Scope Z_scope.

(* an observable: the pod's Response.Resources and one per container, in spec order *)
Notation obs := (res * list res)%type.

(* ---------- declared amounts ---------- *)

(* a declared amount counts when it is positive; an undeclared limit means unlimited *)
Definition declared (o : option Z) : Z := Z.max 0 (amount o).
Definition limited (o : option Z) : bool := 0 <? amount o.
Definition declares_any (c : ctr) : bool := listed c.
(* "a best-effort pod using reclaimed resources": at least one container names a batch resource *)
Definition uses_batch (cs : list ctr) : bool := existsb declares_any cs.

Definition unlimited : Z := -1.

(* the CFS quota divided by the normalization ratio (hundredths) when one above 1 is configured:
   the double-precision quotient rounded up, as the Go expression computes it; Properties.v
   relates it to the exact rational quotient (c14_ratio_above_one) *)
Definition normalized (r q : Z) : Z := if 100 <? r then ratio_div_ceil r q else q.

(* ---------- expected values: container (standard conversions of Std.v, literal numbers) ---------- *)

Definition want_ctr_shares (c : ctr) : Z := std_shares (declared (reqC c)).
Definition want_ctr_quota (g : cfg) (c : ctr) : Z :=
  if cfsOn g && limited (limC c) then normalized (ratio g) (std_quota (amount (limC c)))
  else unlimited.
Definition want_ctr_mem (c : ctr) : Z := if limited (limM c) then amount (limM c) else unlimited.

(* ---------- expected values: pod = the same conversion applied to the sums ---------- *)

Definition all_cpu_limited (cs : list ctr) : bool := forallb (fun c => limited (limC c)) cs.
Definition all_mem_limited (cs : list ctr) : bool := forallb (fun c => limited (limM c)) cs.

Definition want_pod_shares (cs : list ctr) : Z :=
  std_shares (sumZ (map (fun c => declared (reqC c)) cs)).
Definition want_pod_quota (g : cfg) (cs : list ctr) : Z :=
  if cfsOn g && all_cpu_limited cs
  then normalized (ratio g) (std_quota (sumZ (map (fun c => amount (limC c)) cs)))
  else unlimited.
Definition want_pod_mem (cs : list ctr) : Z :=
  if all_mem_limited cs then sumZ (map (fun c => amount (limM c)) cs) else unlimited.

(* ---------- reading an observable ---------- *)

(* a field the hook left untouched keeps the kubelet's setting for a pod that declares no native
   cpu/memory: unlimited quota and memory, minimum shares *)
Definition eff_unl (o : option Z) : Z := match o with Some v => v | None => unlimited end.
Definition eff_shares (o : option Z) : Z := match o with Some v => v | None => std_shares_min end.

Definition is_val (o : option Z) (v : Z) : Prop := o = Some v.
Definition is_valb (o : option Z) (v : Z) : bool := match o with Some x => x =? v | None => false end.

(* clause 1: a pod that is not best-effort is left untouched *)
Definition res_untouchedb (r : res) : bool :=
  negb (isSome (shares r)) && negb (isSome (quota r)) && negb (isSome (mem r)).
Definition non_be_untouched (o : obs) : Prop :=
  fst o = untouched /\ Forall (fun r => r = untouched) (snd o).
Definition non_be_untouchedb (o : obs) : bool :=
  res_untouchedb (fst o) && forallb res_untouchedb (snd o).

(* clause 2: every container gets the standard conversion of its own declared amounts; a
   container that declares nothing may also be left untouched (same effective values) *)
Definition ctr_ok (g : cfg) (c : ctr) (r : res) : Prop :=
  if declares_any c
  then r = mkRes (Some (want_ctr_shares c)) (Some (want_ctr_quota g c)) (Some (want_ctr_mem c))
  else eff_shares (shares r) = want_ctr_shares c /\ eff_unl (quota r) = unlimited
       /\ eff_unl (mem r) = unlimited.
Definition ctr_okb (g : cfg) (c : ctr) (r : res) : bool :=
  if declares_any c
  then is_valb (shares r) (want_ctr_shares c) && is_valb (quota r) (want_ctr_quota g c)
       && is_valb (mem r) (want_ctr_mem c)
  else (eff_shares (shares r) =? want_ctr_shares c) && (eff_unl (quota r) =? unlimited)
       && (eff_unl (mem r) =? unlimited).

(* clause 3: the pod cgroup is never tighter than any one of its containers *)
Definition no_tighter (cv pv : Z) : Prop := pv = unlimited \/ (cv <> unlimited /\ cv <= pv).
Definition no_tighterb (cv pv : Z) : bool := (pv =? unlimited) || (negb (cv =? unlimited) && (cv <=? pv)).
Definition pod_covers (p r : res) : Prop :=
  eff_shares (shares r) <= eff_shares (shares p)
  /\ no_tighter (eff_unl (quota r)) (eff_unl (quota p))
  /\ no_tighter (eff_unl (mem r)) (eff_unl (mem p)).
Definition pod_coversb (p r : res) : bool :=
  (eff_shares (shares r) <=? eff_shares (shares p))
  && no_tighterb (eff_unl (quota r)) (eff_unl (quota p))
  && no_tighterb (eff_unl (mem r)) (eff_unl (mem p)).

(* clauses 4-6: the pod gets the same conversion applied to the sums, unlimited as soon as one
   container is unlimited *)
Definition pod_ok (g : cfg) (cs : list ctr) (p : res) : Prop :=
  p = mkRes (Some (want_pod_shares cs)) (Some (want_pod_quota g cs)) (Some (want_pod_mem cs)).

(* clause 7: the pod equals the sum of its containers up to rounding and minimum clamps *)
Definition sum_shares (rs : list res) : Z := sumZ (map (fun r => eff_shares (shares r)) rs).
Definition sum_quota (rs : list res) : Z := sumZ (map (fun r => eff_unl (quota r)) rs).
Definition sum_mem (rs : list res) : Z := sumZ (map (fun r => eff_unl (mem r)) rs).
Definition near_sum (g : cfg) (cs : list ctr) (o : obs) : Prop :=
  let p := fst o in let rs := snd o in let n := Z.of_nat (length cs) in
  (eff_shares (shares p) < std_shares_max ->
     eff_shares (shares p) <= sum_shares rs + n /\ sum_shares rs <= eff_shares (shares p) + n * std_shares_min)
  /\ (cfsOn g = true -> all_cpu_limited cs = true ->
     eff_unl (quota p) <= sum_quota rs + (if 100 <? ratio g then n else 0) /\ sum_quota rs <= eff_unl (quota p) + n * std_quota_min)
  /\ (all_mem_limited cs = true -> eff_unl (mem p) = sum_mem rs).
Definition near_sumb (g : cfg) (cs : list ctr) (o : obs) : bool :=
  let p := fst o in let rs := snd o in let n := Z.of_nat (length cs) in
  (negb (eff_shares (shares p) <? std_shares_max)
   || ((eff_shares (shares p) <=? sum_shares rs + n) && (sum_shares rs <=? eff_shares (shares p) + n * std_shares_min)))
  && (negb (cfsOn g) || negb (all_cpu_limited cs)
      || ((eff_unl (quota p) <=? sum_quota rs + (if 100 <? ratio g then n else 0)) && (sum_quota rs <=? eff_unl (quota p) + n * std_quota_min)))
  && (negb (all_mem_limited cs) || (eff_unl (mem p) =? sum_mem rs)).

(* ---------- the property ---------- *)

Definition C14_holds (g : cfg) (cs : list ctr) (o : obs) : Prop :=
  length (snd o) = length cs
  /\ (be g = false -> non_be_untouched o)
  /\ (be g = true -> uses_batch cs = true ->
        Forall2 (ctr_ok g) cs (snd o)
        /\ Forall (pod_covers (fst o)) (snd o)
        /\ pod_ok g cs (fst o)
        /\ near_sum g cs o).

Fixpoint forallb2 {A B} (f : A -> B -> bool) (la : list A) (lb : list B) : bool :=
  match la, lb with
  | [], [] => true
  | a :: ta, b :: tb => f a b && forallb2 f ta tb
  | _, _ => false
  end.

Definition prop_code (g : cfg) (cs : list ctr) (o : obs) : Z :=
  if negb (Nat.eqb (length (snd o)) (length cs)) then 9
  else if negb (be g) then (if non_be_untouchedb o then 0 else 1)
  else if negb (uses_batch cs) then 0
  else if negb (forallb2 (ctr_okb g) cs (snd o)) then 2
  else if negb (forallb (pod_coversb (fst o)) (snd o)) then 3
  else if negb (is_valb (shares (fst o)) (want_pod_shares cs)) then 4
  else if negb (is_valb (quota (fst o)) (want_pod_quota g cs)) then 5
  else if negb (is_valb (mem (fst o)) (want_pod_mem cs)) then 6
  else if negb (near_sumb g cs o) then 7
  else 0.

(* ---------- the known-finding shape D10 ---------- *)

(* keep the observations of the containers that are recorded in the extended-resource-spec *)
Fixpoint restrict (cs : list ctr) (rs : list res) : list res :=
  match cs, rs with
  | c :: ct, r :: rt => if listed c then r :: restrict ct rt else restrict ct rt
  | _, _ => []
  end.

(* D10: the case fails, some container declares no batch resource, and the same observation is
   a correct one for the pod made of the remaining containers: the pod-level values were
   computed as if the undeclared (hence unlimited) container did not exist *)
Definition d10_shape (g : cfg) (cs : list ctr) (o : obs) : bool :=
  negb (prop_code g cs o =? 0)
  && existsb (fun c => negb (listed c)) cs
  && (prop_code g (filter listed cs) (fst o, restrict cs (snd o)) =? 0).

(* ---------- the declaration the node agent is handed ---------- *)

(* A stored pod (View.spod) carries the declared amounts in its spec and in the
   extended-resource-spec annotation. The property is judged against the pod spec whenever the
   agent is handed the pod object (reconciler); the runtime-proxy / NRI requests carry labels and
   annotations only, there the annotation IS the declaration (a container without an entry
   declares nothing). For a pod admitted by the webhook the two coincide (Proofs_View.handed_synced). *)
Definition of_entry (e : option ctr) : ctr := match e with Some a => a | None => nothing end.
Definition handed (recon : bool) (p : spod) : list ctr :=
  if recon then map fst p else map (fun x => of_entry (snd x)) p.

(* every container is visible in the declaration the pod-level hook sums over *)
Definition complete (recon : bool) (p : spod) : bool :=
  if recon then forallb listed (map fst p) else forallb (fun x => isSome (snd x)) p.

(* ---------- init containers ---------- *)

(* An init container is a container of the pod: it gets the conversion of its own declared amounts
   (clause 10) and the pod cgroup is never tighter than it (clause 11). It is NOT part of the
   sums (init containers run before, not beside, the others). Judged after the main clauses. *)
Definition init_holds (g : cfg) (H HI : list ctr) (pod : res) (ri : list res) : Prop :=
  length ri = length HI
  /\ (be g = false -> Forall (fun r => r = untouched) ri)
  /\ (be g = true -> uses_batch (H ++ HI) = true ->
        Forall2 (ctr_ok g) HI ri /\ Forall (pod_covers pod) ri).

Definition init_code (g : cfg) (H HI : list ctr) (pod : res) (ri : list res) : Z :=
  if negb (Nat.eqb (length ri) (length HI)) then 9
  else if negb (be g) then (if forallb res_untouchedb ri then 0 else 1)
  else if negb (uses_batch (H ++ HI)) then 0
  else if negb (forallb2 (ctr_okb g) HI ri) then 10
  else if negb (forallb (pod_coversb pod) ri) then 11
  else 0.

Definition prop_code_i (g : cfg) (H HI : list ctr) (o : obs) (ri : list res) : Z :=
  let a := prop_code g H o in if a =? 0 then init_code g H HI (fst o) ri else a.

(* D11: the main clauses hold, the pod has init containers and the failure concerns them only *)
Definition d11_shape (g : cfg) (H HI : list ctr) (o : obs) (ri : list res) : bool :=
  (prop_code g H o =? 0) && negb (init_code g H HI (fst o) ri =? 0)
  && match HI with [] => false | _ => true end.
