(* C14 — the model satisfies the property on every pod all of whose containers name a batch
   resource; without that hypothesis the only way it fails is the D10 shape (refuted witness). *)
From Coq Require Import List ZArith Bool Lia Permutation.
From Verif Require Import C14.Model C14.Spec C14.Proofs C14.Proofs_Conv C14.Proofs_Pod C14.Proofs_Main.
Import ListNotations.
Open Scope Z_scope.

Lemma filter_all {A} (p : A -> bool) l : forallb p l = true -> filter p l = l.
Proof.
  induction l as [|x l IH]; cbn [forallb filter]; [reflexivity|].
  intro H. apply andb_true_iff in H. destruct H as [Hx Hl]. now rewrite Hx, IH.
Qed.

Lemma filter_idem {A} (p : A -> bool) l : filter p (filter p l) = filter p l.
Proof.
  apply filter_all, forallb_forall. intros x Hx. apply filter_In in Hx. tauto.
Qed.

Lemma uses_batch_nonempty cs : uses_batch cs = true -> spec_of cs <> [].
Proof.
  unfold uses_batch, declares_any, spec_of. intro H. apply existsb_exists in H.
  destruct H as [c [Hin L]]. intro E.
  assert (In c (filter listed cs)) by (apply filter_In; auto). rewrite E in H. contradiction.
Qed.

(* ---------- container outputs of a fully recorded pod ---------- *)

Lemma container_out_listed g c : be g = true -> listed c = true ->
  container_out g c = mkRes (Some (want_ctr_shares c)) (Some (want_ctr_quota g c)) (Some (want_ctr_mem c)).
Proof.
  intros Hbe L. unfold container_out. rewrite Hbe, L. cbn [andb].
  now rewrite ctr_shares_spec, ctr_quota_spec, ctr_mem_spec.
Qed.

Lemma sum_over_outputs g cs (proj : res -> Z) (want : ctr -> Z) :
  (forall c, In c cs -> proj (container_out g c) = want c) ->
  sumZ (map proj (map (container_out g) cs)) = sumZ (map want cs).
Proof. intro H. rewrite map_map. apply sumZ_map_ext. exact H. Qed.

Lemma run_near_sum g cs :
  be g = true -> forallb listed cs = true -> cs <> [] -> near_sum g cs (run g cs).
Proof.
  intros Hbe Hall Hne.
  assert (HL : forall c, In c cs -> listed c = true) by (now apply forallb_forall).
  assert (Hsp : spec_of cs = cs) by (apply filter_all, Hall).
  pose proof (pod_out_spec_ok g cs Hbe Hne) as Hp. unfold pod_ok in Hp.
  unfold near_sum, run. cbn [fst snd]. unfold pod_out. rewrite Hsp, Hp.
  cbn [shares quota mem eff_shares eff_unl].
  unfold sum_shares, sum_quota, sum_mem.
  rewrite (sum_over_outputs g cs _ want_ctr_shares)
    by (intros c Hc; rewrite (container_out_listed g c Hbe (HL c Hc)); reflexivity).
  rewrite (sum_over_outputs g cs _ (want_ctr_quota g))
    by (intros c Hc; rewrite (container_out_listed g c Hbe (HL c Hc)); reflexivity).
  rewrite (sum_over_outputs g cs _ want_ctr_mem)
    by (intros c Hc; rewrite (container_out_listed g c Hbe (HL c Hc)); reflexivity).
  split; [|split].
  - assert (E : sumZ (map want_ctr_shares cs)
                = sumZ (map (fun c => MilliCPUToShares (declared (reqC c))) cs)).
    { apply sumZ_map_ext. intros c _. unfold want_ctr_shares. now rewrite shares_std. }
    rewrite E. unfold want_pod_shares. rewrite <- shares_std.
    change std_shares_max with CPUSharesMaxValue. change std_shares_min with CPUSharesMinValue.
    intro Hmax.
    apply (shares_sum_bounds (fun c => declared (reqC c)) cs); [intros; apply declared_nonneg|exact Hne|exact Hmax].
  - intros Hcfs Hlim. unfold want_pod_quota. rewrite Hcfs, Hlim. cbn [andb].
    unfold all_cpu_limited in Hlim. rewrite forallb_forall in Hlim.
    assert (E : sumZ (map (want_ctr_quota g) cs)
                = sumZ (map (fun c => normalized (ratio g) (MilliCPUToQuota (amount (limC c)))) cs)).
    { apply sumZ_map_ext. intros c Hc. unfold want_ctr_quota. now rewrite Hcfs, (Hlim c Hc), quota_std. }
    rewrite E. rewrite <- quota_std. change std_quota_min with CFSQuotaMinValue.
    apply (quota_near_sum (fun c => amount (limC c)) cs (ratio g)); [|exact Hne].
    intros c Hc. now destruct (declared_limited _ (Hlim c Hc)).
  - intro Hlim. unfold want_pod_mem. rewrite Hlim.
    unfold all_mem_limited in Hlim. rewrite forallb_forall in Hlim.
    apply sumZ_map_ext. intros c Hc. unfold want_ctr_mem. now rewrite (Hlim c Hc).
Qed.

(* ---------- main theorem ---------- *)

Lemma run_holds g cs : forallb listed cs = true -> C14_holds g cs (run g cs).
Proof.
  intro Hall. unfold C14_holds.
  split; [unfold run; cbn [snd]; apply map_length|].
  split; [apply non_be_run_untouched|].
  intros Hbe Hub.
  assert (Hsp : spec_of cs = cs) by (apply filter_all, Hall).
  assert (Hne : cs <> []) by (rewrite <- Hsp; now apply uses_batch_nonempty).
  split; [|split; [|split]].
  - unfold run. cbn [snd]. clear Hall Hub Hsp Hne. induction cs as [|c cs IH]; cbn [map]; constructor;
      [now apply container_out_ok|exact IH].
  - unfold run. cbn [fst snd]. apply Forall_forall. intros r Hr. apply in_map_iff in Hr.
    destruct Hr as [c [<- Hc]]. apply pod_covers_listed; [exact Hbe|exact Hc|].
    rewrite forallb_forall in Hall. now apply Hall.
  - unfold run. cbn [fst]. unfold pod_out. rewrite Hsp. now apply pod_out_spec_ok.
  - now apply run_near_sum.
Qed.

Lemma main g cs : forallb listed cs = true -> prop_code g cs (run g cs) = 0.
Proof. intro H. apply prop_code_complete, run_holds, H. Qed.

(* ---------- every failure of the model is the D10 shape ---------- *)

Lemma restrict_outputs g cs :
  restrict cs (map (container_out g) cs) = map (container_out g) (filter listed cs).
Proof.
  induction cs as [|c cs IH]; cbn [map restrict filter]; [reflexivity|].
  destruct (listed c); cbn [map]; now rewrite IH.
Qed.

Lemma run_restricted g cs :
  (fst (run g cs), restrict cs (snd (run g cs))) = run g (filter listed cs).
Proof.
  unfold run. cbn [fst snd]. rewrite restrict_outputs. unfold pod_out, spec_of. now rewrite filter_idem.
Qed.

Lemma only_d10 g cs : prop_code g cs (run g cs) = 0 \/ d10_shape g cs (run g cs) = true.
Proof.
  destruct (Z.eq_dec (prop_code g cs (run g cs)) 0) as [E|E]; [now left|right].
  unfold d10_shape. rewrite run_restricted.
  rewrite (main g (filter listed cs)) by (apply forallb_forall; intros x Hx; apply filter_In in Hx; tauto).
  replace (prop_code g cs (run g cs) =? 0) with false by (symmetry; now apply Z.eqb_neq).
  cbn [negb andb]. rewrite Z.eqb_refl, andb_true_r.
  destruct (existsb (fun c => negb (listed c)) cs) eqn:Ex; [reflexivity|exfalso].
  apply E, main, forallb_forall. intros c Hc.
  destruct (listed c) eqn:L; [reflexivity|].
  assert (existsb (fun c => negb (listed c)) cs = true) by (apply existsb_exists; exists c; now rewrite L).
  congruence.
Qed.

(* ---------- D10: the witness ---------- *)

(* BE pod, CFS quota enabled, no ratio: c1 batch-cpu 1000 / batch-memory 1Gi, c2 declares nothing *)
Definition d10_cfg : cfg := mkCfg true true (-100).
Definition d10_c1 : ctr := mkCtr (Some 1000) (Some 1000) (Some 1073741824) (Some 1073741824).
Definition d10_c2 : ctr := mkCtr None None None None.

Lemma d10_refuted :
  exists g cs c, be g = true /\ uses_batch cs = true /\ In c cs
    /\ ~ pod_covers (pod_out g cs) (container_out g c)
    /\ pod_out g cs = mkRes (Some 1024) (Some 100000) (Some 1073741824)
    /\ container_out g c = untouched
    /\ prop_code g cs (run g cs) = 3.
Proof.
  exists d10_cfg, [d10_c1; d10_c2], d10_c2.
  split; [reflexivity|]. split; [reflexivity|]. split; [cbn; auto|].
  assert (Hp : pod_out d10_cfg [d10_c1; d10_c2] = mkRes (Some 1024) (Some 100000) (Some 1073741824))
    by (vm_compute; reflexivity).
  assert (Hc : container_out d10_cfg d10_c2 = untouched) by (vm_compute; reflexivity).
  split.
  - rewrite Hp, Hc. unfold pod_covers, no_tighter, unlimited. cbn [untouched shares quota mem eff_shares eff_unl].
    intros [_ [[H|[H _]] _]]; [discriminate|]. now apply H.
  - split; [exact Hp|]. split; [exact Hc|]. vm_compute. reflexivity.
Qed.

(* ---------- the normalization ratio only matters above 1 ---------- *)

Definition without_ratio (g : cfg) : cfg := mkCfg (be g) (cfsOn g) (-100).

Lemma ratio_only_above_one g cs : ratio g <= 100 -> run g cs = run (without_ratio g) cs.
Proof.
  intro Hr.
  assert (Hc : forall c, container_out g c = container_out (without_ratio g) c).
  { intro c. unfold container_out, ctr_quota, without_ratio. cbn [be cfsOn ratio].
    now rewrite !scale_id by lia. }
  assert (Hp : forall sp, pod_out_spec g sp = pod_out_spec (without_ratio g) sp).
  { intro sp. unfold pod_out_spec, pod_quota, without_ratio. cbn [be cfsOn ratio].
    now rewrite !scale_id by lia. }
  unfold run, pod_out. rewrite Hp. f_equal. apply map_ext. exact Hc.
Qed.

Lemma ratio_above_one r q : 100 < r -> 0 < q ->
  0 < scale_quota r q <= q
  /\ ratio_mant r * (scale_quota r q - 1) < q * ratio_den r < ratio_mant r * (scale_quota r q + 1)
  /\ (r / 100 < 2 ^ 53 -> q <= 2 ^ 52 -> 100 * q - 2 * r < r * scale_quota r q < 100 * q + 2 * r).
Proof.
  intros Hr Hq. rewrite scale_normalized by exact Hq.
  split; [split; [now apply normalized_pos|now apply normalized_le]|].
  split; [now apply normalized_near|].
  intros Hlt Hq52. unfold normalized. replace (100 <? r) with true by (symmetry; apply Z.ltb_lt; lia).
  apply ratio_div_ceil_decimal; lia.
Qed.

(* ---------- conversions of the model, stated on the model's own functions ---------- *)

Lemma container_conv g c : be g = true ->
  (listed c = true ->
     container_out g c = mkRes (Some (want_ctr_shares c)) (Some (want_ctr_quota g c)) (Some (want_ctr_mem c)))
  /\ (listed c = false -> container_out g c = untouched).
Proof.
  intro Hbe. split; intro L; [now apply container_out_listed|].
  unfold container_out. now rewrite L, andb_false_r.
Qed.

Lemma pod_conv g cs : be g = true -> uses_batch cs = true ->
  pod_ok g (spec_of cs) (pod_out g cs)
  /\ (forallb listed cs = true -> pod_ok g cs (pod_out g cs))
  /\ (forall cs', Permutation cs cs' -> pod_out g cs' = pod_out g cs).
Proof.
  intros Hbe Hub.
  assert (H1 : pod_ok g (spec_of cs) (pod_out g cs))
    by (apply pod_out_spec_ok; [exact Hbe|now apply uses_batch_nonempty]).
  split; [exact H1|]. split.
  - intro Hall. unfold spec_of in H1. now rewrite (filter_all _ _ Hall) in H1.
  - intros cs' Hperm. symmetry. now apply pod_out_perm.
Qed.

Lemma standard_conversion m :
  MilliCPUToShares m = (if m <=? 0 then 2 else Z.min 262144 (Z.max 2 (m * 1024 / 1000)))
  /\ MilliCPUToQuota m = (if m <=? 0 then -1 else Z.max 1000 (m * 100)).
Proof. split; [apply shares_std|apply quota_std]. Qed.
