(* C14 — proofs about the model (see Properties.v for the exported statements). *)
From Coq Require Import List ZArith Bool Lia.
From Verif Require Import C14.Model C14.Spec.
Import ListNotations.
Open Scope Z_scope.

Lemma non_be_run_untouched g cs :
  be g = false -> non_be_untouched (run g cs).
Proof.
  intro Hbe. unfold non_be_untouched, run, pod_out, pod_out_spec, container_out. cbn [fst snd].
  rewrite Hbe. split.
  - destruct (spec_of cs); reflexivity.
  - apply Forall_forall. intros r Hr. apply in_map_iff in Hr. destruct Hr as [c [Hc _]].
    cbn [andb] in Hc. now subst r.
Qed.
