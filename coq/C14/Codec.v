(* C14 — flat-integer wire format of the model (decoders, encoders and the four entry points
   the generic OCaml driver calls). Extract.v only extracts these definitions; Properties.v
   states the main theorem over them. No proofs in this file.
   input  : mode qos cfs prev ratio n  then n records (rcf rc lcf lc rmf rm lmf lm)
            then optionally amode and, for amode 2 / 3 / 4, n records (present rcf rc lcf lc rmf rm lmf lm)
            (mode = which request builder the harness used: 0 runtime proxy, 1 NRI, else reconciler;
             prev, ratio = annotation codes of two successive node-meta rule updates;
             amode = how the pod reached the store (View.stored): 0 / absent = admitted by the
             webhook, 1 = webhook bypassed and no annotation, 2 = webhook bypassed and the foreign
             extended-resource-spec annotation given by the second record list, 3 = created with
             that foreign annotation and admitted by the webhook, 4 = admitted at creation, the
             annotation replaced later by an update (not re-mutated), 5 = admitted with the
             DisableExtendedResourceSpec gate on)
            then optionally ni and ni records (rcf rc lcf lc rmf rm lmf lm): the init containers
   observable: 6 integers for the pod, then 6 per container in spec order, then 6 per init
            container: sharesSet shares quotaSet quota memSet mem *)
From Coq Require Import List ZArith Bool.
From Verif Require Import Lib.Wire C14.Model C14.View C14.Spec C14.Rule.
Import ListNotations.
Open Scope Z_scope.

Definition opt_of (flag v : Z) : option Z := if flag =? 0 then None else Some v.

Fixpoint decode_ctrs (k : nat) (l : list Z) : list ctr :=
  match k, l with
  | S k', a :: b :: c :: d :: e :: f :: g :: h :: t =>
      mkCtr (opt_of a b) (opt_of c d) (opt_of e f) (opt_of g h) :: decode_ctrs k' t
  | _, _ => []
  end.

(* the configuration the hook runs with (the rule's stored ratio), the configuration the node
   advertises (the last annotation that parsed), and the containers *)
Definition decode (inp : list Z) : cfg * cfg * list ctr :=
  match inp with
  | _mode :: q :: c :: prev :: k :: n :: t =>
      (cfg_of_codes q c (ratio_of_state (rule_after [prev; k])),
       cfg_of_codes q c (configured [prev; k]),
       decode_ctrs (Z.to_nat n) t)
  | _ => (cfg_of_codes 0 0 (-100), cfg_of_codes 0 0 (-100), [])
  end.

(* the foreign annotation: one optional entry per container, in container order *)
Fixpoint decode_entries (k : nat) (l : list Z) : list (option ctr) :=
  match k, l with
  | S k', p :: a :: b :: c :: d :: e :: f :: g :: h :: t =>
      (if p =? 0 then None else Some (mkCtr (opt_of a b) (opt_of c d) (opt_of e f) (opt_of g h)))
      :: decode_entries k' t
  | _, _ => []
  end.

(* which request builder is used and the pod object as stored *)
Definition decode_view (inp : list Z) : bool * spod :=
  match inp with
  | mode :: _q :: _c :: _prev :: _k :: n :: t =>
      let cs := decode_ctrs (Z.to_nat n) t in
      match skipn (8 * Z.to_nat n) t with
      | amode :: f => (recon_of_mode mode, stored amode cs (decode_entries (Z.to_nat n) f))
      | [] => (recon_of_mode mode, stored 0 cs [])
      end
  | _ => (false, [])
  end.

(* spec.initContainers (after the amode block) *)
Definition decode_inits (inp : list Z) : list ctr :=
  match inp with
  | _mode :: _q :: _c :: _prev :: _k :: n :: t =>
      match skipn (8 * Z.to_nat n) t with
      | amode :: f =>
          match (if (2 <=? amode) && (amode <=? 4) then skipn (9 * Z.to_nat n) f else f) with
          | ni :: r => decode_ctrs (Z.to_nat ni) r
          | [] => []
          end
      | [] => []
      end
  | _ => []
  end.

Definition enc_opt (o : option Z) : list Z := match o with Some v => [1; v] | None => [0; 0] end.
Definition enc_res (r : res) : list Z := enc_opt (shares r) ++ enc_opt (quota r) ++ enc_opt (mem r).
Definition enc_obs (o : obs) : list Z := enc_res (fst o) ++ flat_map enc_res (snd o).

Fixpoint dec_ress (fuel : nat) (l : list Z) : list res :=
  match fuel, l with
  | S f, a :: b :: c :: d :: e :: g :: t => mkRes (opt_of a b) (opt_of c d) (opt_of e g) :: dec_ress f t
  | _, _ => []
  end.

(* a malformed observable (crash marker, error code, wrong length) decodes to too few
   responses and fails clause 9 *)
Definition dec_obs (l : list Z) : obs :=
  match dec_ress (length l) l with
  | p :: rs => (p, rs)
  | [] => (untouched, [])
  end.

Definition well_sized (n : nat) (l : list Z) : bool := Nat.eqb (length l) (6 * (n + 1)).

Definition run_case (inp : list Z) : list Z :=
  let '(g, _, _) := decode inp in
  let '(recon, p) := decode_view inp in
  let o := run_i recon g p (decode_inits inp) in
  enc_obs (fst (fst o), snd (fst o) ++ snd o).

(* split the decoded responses: the pod, the containers, the init containers *)
Definition split_obs (n : nat) (o : obs) : obs * list res := ((fst o, firstn n (snd o)), skipn n (snd o)).

(* the property is judged against the ratio the node advertises and the declaration the agent is
   handed (Spec.handed: the pod spec for the reconciler, the annotation for proxy / NRI) *)
Definition prop_case (inp o : list Z) : Z :=
  let '(_, gw, _) := decode inp in
  let '(recon, p) := decode_view inp in
  let cs := handed recon p in
  let inits := decode_inits inp in
  if negb (well_sized (length cs + length inits) o) then 9
  else let '(oa, ri) := split_obs (length cs) (dec_obs o) in prop_code_i gw cs inits oa ri.

(* non-trivial: a best-effort pod with at least two containers naming a batch resource, CFS
   quota enabled and a finite pod-level quota or memory limit (so sums, clamps and the
   pod-versus-container comparison are all exercised) *)
Definition nontrivial_case (inp : list Z) : bool :=
  let '(g, _, _) := decode inp in
  let '(recon, p) := decode_view inp in
  let cs := handed recon p in
  be g && cfsOn g && (2 <=? Z.of_nat (length (spec_of cs)))
  && (all_cpu_limited (spec_of cs) || all_mem_limited (spec_of cs)).

(* the generator's guard: two successive rule updates are never neighbouring two-decimal values
   (|prev - ratio| = 0.01), whose float64 difference may fall below the rule's 0.01 hysteresis;
   under the guard the rule holds the ratio the node advertises (Proofs_Codec.guard_fresh) *)
Definition input_guard (inp : list Z) : bool :=
  match inp with
  | _mode :: _q :: _c :: prev :: k :: _ =>
      (prev <? 2 ^ 40) && (k <? 2 ^ 40)
      && negb ((0 <? prev) && (0 <? k) && (Z.abs (prev - k) =? 1))
  | _ => true
  end.

Fixpoint eq_listZ (a b : list Z) : bool :=
  match a, b with
  | [], [] => true
  | x :: a', y :: b' => (x =? y) && eq_listZ a' b'
  | _, _ => false
  end.

(* known-finding shape of a failing case: 1 = D10 (a container without batch resources is
   ignored by the pod-level values), 2 = D11 (the main clauses hold, the pod has init containers
   and only their clauses fail), in both cases AND the implementation's whole observable equals
   the faithful model's, so that no other deviation can hide behind the recorded shape; every
   other failure is 0 *)
Definition finding_sig (inp o : list Z) : Z :=
  let '(_, gw, _) := decode inp in
  let '(recon, p) := decode_view inp in
  let cs := handed recon p in
  let inits := decode_inits inp in
  if well_sized (length cs + length inits) o && eq_listZ (run_case inp) o
  then let '(oa, ri) := split_obs (length cs) (dec_obs o) in
       if d10_shape gw cs oa then 1 else if d11_shape gw cs inits oa ri then 2 else 0
  else 0.
