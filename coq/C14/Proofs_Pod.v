(* C14 — the hook's loops refine the from-scratch expected values; order independence; the pod
   is never tighter than a recorded container. *)
From Coq Require Import List ZArith Bool Lia Permutation.
From Verif Require Import C14.Model C14.Spec C14.Proofs_Conv.
Import ListNotations.
Open Scope Z_scope.

(* ---------- loops = sums ---------- *)

Lemma pos_or_zero_declared o : pos_or_zero (amount o) = declared o.
Proof. unfold pos_or_zero, declared. destruct (0 <? amount o) eqn:E; [apply Z.ltb_lt in E|apply Z.ltb_ge in E]; lia. Qed.

Lemma declared_nonneg o : 0 <= declared o.
Proof. unfold declared. lia. Qed.

Lemma declared_limited o : limited o = true -> declared o = amount o /\ 0 < amount o.
Proof. unfold limited, declared. intro H. apply Z.ltb_lt in H. lia. Qed.

Lemma declared_unlimited o : limited o = false -> declared o = 0 /\ amount o <= 0.
Proof. unfold limited, declared. intro H. apply Z.ltb_ge in H. lia. Qed.

Lemma sum_requests_acc l acc :
  fold_left (fun acc c => let r := amount (reqC c) in if r <=? 0 then acc else acc + r) l acc
  = acc + sumZ (map (fun c => declared (reqC c)) l).
Proof.
  revert acc. induction l as [|c l IH]; intro acc; cbn [fold_left map].
  - rewrite sumZ_nil. lia.
  - rewrite IH, sumZ_cons. unfold declared.
    destruct (amount (reqC c) <=? 0) eqn:E; [apply Z.leb_le in E|apply Z.leb_gt in E]; lia.
Qed.

Lemma sum_requests_spec l : sum_requests l = sumZ (map (fun c => declared (reqC c)) l).
Proof. unfold sum_requests. rewrite sum_requests_acc. lia. Qed.

Lemma sum_limits_spec f l acc :
  sum_limits f acc l = if forallb (fun c => 0 <? f c) l then acc + sumZ (map f l) else -1.
Proof.
  revert acc. induction l as [|c l IH]; intro acc; cbn [sum_limits forallb map].
  - rewrite sumZ_nil. lia.
  - destruct (f c <=? 0) eqn:E; [apply Z.leb_le in E|apply Z.leb_gt in E].
    + replace (0 <? f c) with false by (symmetry; apply Z.ltb_ge; lia). reflexivity.
    + replace (0 <? f c) with true by (symmetry; apply Z.ltb_lt; lia). cbn [andb].
      rewrite IH, sumZ_cons. destruct (forallb _ l); lia.
Qed.

Lemma sum_pos_of_all_pos {A} (f : A -> Z) l :
  l <> [] -> forallb (fun c => 0 <? f c) l = true -> 0 < sumZ (map f l).
Proof.
  intros Hne H. destruct l as [|c l]; [congruence|]. clear Hne.
  cbn [forallb map] in *. apply andb_true_iff in H. destruct H as [Hc Hl]. apply Z.ltb_lt in Hc.
  rewrite sumZ_cons.
  assert (0 <= sumZ (map f l)).
  { apply sumZ_map_nonneg. intros x Hx. rewrite forallb_forall in Hl. specialize (Hl x Hx).
    apply Z.ltb_lt in Hl. lia. }
  lia.
Qed.

Lemma elem_le_sum {A} (f : A -> Z) l c :
  (forall x, In x l -> 0 <= f x) -> In c l -> f c <= sumZ (map f l).
Proof.
  intros Hnn Hin. induction l as [|x l IH]; [contradiction|].
  cbn [map]. rewrite sumZ_cons. destruct Hin as [->|Hin].
  - assert (0 <= sumZ (map f l)) by (apply sumZ_map_nonneg; intros; apply Hnn; now right). lia.
  - assert (0 <= f x) by (apply Hnn; now left).
    assert (f c <= sumZ (map f l)) by (apply IH; [intros; apply Hnn; now right|exact Hin]). lia.
Qed.

(* ---------- the model's pod values are the expected values over the recorded spec ---------- *)

Lemma pod_shares_spec sp : pod_shares sp = want_pod_shares sp.
Proof. unfold pod_shares, want_pod_shares. now rewrite sum_requests_spec, shares_std. Qed.

Lemma pod_mem_spec sp : pod_mem sp = want_pod_mem sp.
Proof. unfold pod_mem, want_pod_mem, all_mem_limited, mem_limit, limited. rewrite sum_limits_spec. destruct (forallb _ sp); reflexivity || lia. Qed.

Lemma pod_quota_spec g sp : sp <> [] -> pod_quota g sp = want_pod_quota g sp.
Proof.
  intro Hne. unfold pod_quota, want_pod_quota, all_cpu_limited, cpu_limit, limited.
  destruct (cfsOn g); [|reflexivity]. cbn [andb].
  rewrite <- quota_std. rewrite sum_limits_spec.
  destruct (forallb (fun c => 0 <? amount (limC c)) sp) eqn:E.
  - pose proof (sum_pos_of_all_pos (fun c => amount (limC c)) sp Hne E) as Hpos.
    rewrite Z.add_0_l. apply scale_normalized.
    pose proof (quota_pos _ Hpos). unfold CFSQuotaMinValue in *. lia.
  - rewrite quota_unlimited by lia. rewrite scale_nonpos by lia. reflexivity.
Qed.

Lemma pod_out_spec_ok g sp : be g = true -> sp <> [] -> pod_ok g sp (pod_out_spec g sp).
Proof.
  intros Hbe Hne. unfold pod_ok, pod_out_spec. rewrite Hbe.
  destruct sp as [|c sp']; [congruence|].
  now rewrite pod_shares_spec, pod_quota_spec, pod_mem_spec.
Qed.

(* ---------- independence of the map iteration order ---------- *)

Lemma forallb_perm {A} (p : A -> bool) a b : Permutation a b -> forallb p a = forallb p b.
Proof.
  induction 1 as [|x a b _ IH|x y a|a b c _ IH1 _ IH2]; cbn [forallb].
  - reflexivity.
  - now rewrite IH.
  - destruct (p x), (p y); reflexivity.
  - congruence.
Qed.

Lemma perm_nil_iff {A} (a b : list A) : Permutation a b -> (a = [] <-> b = []).
Proof.
  intro H. split; intro E; subst.
  - now apply Permutation_nil.
  - apply Permutation_sym in H. now apply Permutation_nil.
Qed.

Lemma pod_out_spec_perm g sp sp' : Permutation sp sp' -> pod_out_spec g sp = pod_out_spec g sp'.
Proof.
  intro H. unfold pod_out_spec.
  destruct sp as [|c t].
  - apply Permutation_nil in H. now subst.
  - destruct sp' as [|c' t'].
    + apply Permutation_sym, Permutation_nil in H. discriminate.
    + destruct (be g); [|reflexivity].
      rewrite !pod_shares_spec, !pod_mem_spec, !pod_quota_spec by discriminate.
      unfold want_pod_shares, want_pod_quota, want_pod_mem, all_cpu_limited, all_mem_limited.
      rewrite (sumZ_map_perm (fun c => declared (reqC c)) _ _ H).
      rewrite (sumZ_map_perm (fun c => amount (limC c)) _ _ H).
      rewrite (sumZ_map_perm (fun c => amount (limM c)) _ _ H).
      rewrite (forallb_perm (fun c => limited (limC c)) _ _ H).
      rewrite (forallb_perm (fun c => limited (limM c)) _ _ H).
      reflexivity.
Qed.

Lemma pod_out_perm g cs cs' : Permutation cs cs' -> pod_out g cs = pod_out g cs'.
Proof. intro H. unfold pod_out, spec_of. apply pod_out_spec_perm, filter_perm, H. Qed.

(* ---------- the model's container values are the expected values ---------- *)

Lemma ctr_shares_spec c : ctr_shares c = want_ctr_shares c.
Proof. unfold ctr_shares, want_ctr_shares. now rewrite pos_or_zero_declared, shares_std. Qed.

Lemma ctr_quota_spec g c : ctr_quota g c = want_ctr_quota g c.
Proof.
  unfold ctr_quota, want_ctr_quota. destruct (cfsOn g); [|reflexivity]. cbn [andb].
  rewrite <- quota_std. rewrite pos_or_zero_declared.
  destruct (limited (limC c)) eqn:E.
  - destruct (declared_limited _ E) as [-> Hpos]. apply scale_normalized.
    pose proof (quota_pos _ Hpos). unfold CFSQuotaMinValue in *. lia.
  - destruct (declared_unlimited _ E) as [-> _]. rewrite quota_unlimited by lia. now rewrite scale_nonpos by lia.
Qed.

Lemma ctr_mem_spec c : ctr_mem c = want_ctr_mem c.
Proof.
  unfold ctr_mem, want_ctr_mem. rewrite pos_or_zero_declared.
  destruct (limited (limM c)) eqn:E.
  - destruct (declared_limited _ E) as [-> Hpos].
    replace (amount (limM c) <=? 0) with false by (symmetry; apply Z.leb_gt; lia). reflexivity.
  - destruct (declared_unlimited _ E) as [-> _]. reflexivity.
Qed.

Lemma container_out_ok g c : be g = true -> ctr_ok g c (container_out g c).
Proof.
  intro Hbe. unfold ctr_ok, container_out, declares_any. rewrite Hbe. cbn [andb].
  destruct (listed c) eqn:L.
  - now rewrite ctr_shares_spec, ctr_quota_spec, ctr_mem_spec.
  - cbn [untouched shares quota mem eff_shares eff_unl]. repeat split.
    unfold want_ctr_shares, listed in *.
    destruct (reqC c); [discriminate|]. cbn. reflexivity.
Qed.

(* ---------- expected pod values dominate expected container values ---------- *)

Lemma want_shares_le cs c : In c cs -> want_ctr_shares c <= want_pod_shares cs.
Proof.
  intro Hin. unfold want_ctr_shares, want_pod_shares. rewrite <- !shares_std. apply shares_mono.
  apply (elem_le_sum (fun c => declared (reqC c))); [intros; apply declared_nonneg|exact Hin].
Qed.

Lemma want_quota_no_tighter g cs c :
  In c cs -> no_tighter (want_ctr_quota g c) (want_pod_quota g cs).
Proof.
  intro Hin. unfold no_tighter, want_ctr_quota, want_pod_quota. rewrite <- !quota_std.
  destruct (cfsOn g); [|now left]. cbn [andb].
  destruct (all_cpu_limited cs) eqn:A; [|now left]. right.
  unfold all_cpu_limited in A. rewrite forallb_forall in A.
  pose proof (A c Hin) as Lc. rewrite Lc.
  destruct (declared_limited _ Lc) as [_ Hpos].
  assert (Hle : amount (limC c) <= sumZ (map (fun c => amount (limC c)) cs)).
  { apply (elem_le_sum (fun c => amount (limC c))); [|exact Hin].
    intros x Hx. destruct (declared_limited _ (A x Hx)). lia. }
  pose proof (quota_pos _ Hpos) as Hq. unfold CFSQuotaMinValue in Hq.
  split.
  - pose proof (normalized_pos (ratio g) (MilliCPUToQuota (amount (limC c))) ltac:(lia)).
    unfold unlimited. lia.
  - apply normalized_mono; [lia|apply quota_mono; assumption].
Qed.

Lemma want_mem_no_tighter cs c :
  In c cs -> no_tighter (want_ctr_mem c) (want_pod_mem cs).
Proof.
  intro Hin. unfold no_tighter, want_ctr_mem, want_pod_mem.
  destruct (all_mem_limited cs) eqn:A; [|now left]. right.
  unfold all_mem_limited in A. rewrite forallb_forall in A.
  pose proof (A c Hin) as Lc. rewrite Lc.
  destruct (declared_limited _ Lc) as [_ Hpos].
  split; [unfold unlimited; lia|].
  apply (elem_le_sum (fun c => amount (limM c))); [|exact Hin].
  intros x Hx. destruct (declared_limited _ (A x Hx)). lia.
Qed.

(* the headline: whatever else is in the pod, the pod-level values cover every container that
   the extended-resource-spec records *)
Lemma pod_covers_listed g cs c :
  be g = true -> In c cs -> listed c = true -> pod_covers (pod_out g cs) (container_out g c).
Proof.
  intros Hbe Hin L.
  assert (Hsp : In c (spec_of cs)) by (unfold spec_of; apply filter_In; auto).
  assert (Hne : spec_of cs <> []) by (intro E; rewrite E in Hsp; contradiction).
  pose proof (pod_out_spec_ok g (spec_of cs) Hbe Hne) as Hp. unfold pod_ok in Hp.
  unfold pod_out. rewrite Hp.
  unfold container_out. rewrite Hbe, L. cbn [andb].
  rewrite ctr_shares_spec, ctr_quota_spec, ctr_mem_spec.
  unfold pod_covers. cbn [shares quota mem eff_shares eff_unl].
  split; [apply want_shares_le; exact Hsp|].
  split; [apply want_quota_no_tighter; exact Hsp|apply want_mem_no_tighter; exact Hsp].
Qed.
