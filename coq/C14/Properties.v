(* C14 — exported theorems only: each is closed by [exact] and followed by Print Assumptions.
   MilliCPUToShares / MilliCPUToQuota and the CFS / shares constants are the definitions
   regenerated from pkg/koordlet/util/system/cgroup.go (coq/Gen). *)
From Coq Require Import List ZArith Bool Permutation.
From Verif Require Import C14.Model C14.View C14.Spec C14.Proofs C14.Proofs_Conv C14.Proofs_Pod C14.Proofs_Main C14.Proofs_Model C14.Proofs_View C14.Rule C14.Codec C14.Proofs_Codec C14.Proofs_Rule.
Import ListNotations.
Open Scope Z_scope.

(* the generated conversions are the standard ones (literal numbers: an edit of a clamp or unit
   constant in the source breaks this proof) *)
Theorem c14_standard_conversion : forall m,
  MilliCPUToShares m = (if m <=? 0 then 2 else Z.min 262144 (Z.max 2 (m * 1024 / 1000)))
  /\ MilliCPUToQuota m = (if m <=? 0 then -1 else Z.max 1000 (m * 100)).
Proof. exact standard_conversion. Qed.
Print Assumptions c14_standard_conversion.

(* a recorded container gets the standard conversion of its own declared amounts (undeclared
   limit = unlimited); a container that declares nothing is left untouched *)
Theorem c14_container_conv : forall g c, be g = true ->
  (listed c = true ->
     container_out g c = mkRes (Some (want_ctr_shares c)) (Some (want_ctr_quota g c)) (Some (want_ctr_mem c)))
  /\ (listed c = false -> container_out g c = untouched).
Proof. exact container_conv. Qed.
Print Assumptions c14_container_conv.

(* the pod gets the same conversion applied to the sums over the recorded containers, unlimited
   as soon as one of them is unlimited, whatever the iteration order of the map *)
Theorem c14_pod_conv : forall g cs, be g = true -> uses_batch cs = true ->
  pod_ok g (spec_of cs) (pod_out g cs)
  /\ (forallb listed cs = true -> pod_ok g cs (pod_out g cs))
  /\ (forall cs', Permutation cs cs' -> pod_out g cs' = pod_out g cs).
Proof. exact pod_conv. Qed.
Print Assumptions c14_pod_conv.

(* the pod is never tighter than a container recorded in the extended-resource-spec, whatever
   else the pod contains *)
Theorem c14_pod_ge_container : forall g cs c,
  be g = true -> In c cs -> listed c = true -> pod_covers (pod_out g cs) (container_out g c).
Proof. exact pod_covers_listed. Qed.
Print Assumptions c14_pod_ge_container.

(* D10: without [listed c] the statement is false of the faithful model *)
Theorem c14_pod_ge_container_refuted :
  exists g cs c, be g = true /\ uses_batch cs = true /\ In c cs
    /\ ~ pod_covers (pod_out g cs) (container_out g c)
    /\ pod_out g cs = mkRes (Some 1024) (Some 100000) (Some 1073741824)
    /\ container_out g c = untouched
    /\ prop_code g cs (run g cs) = 3.
Proof. exact d10_refuted. Qed.
Print Assumptions c14_pod_ge_container_refuted.

(* the pod equals the sum of its containers up to rounding and the minimum clamps *)
Theorem c14_sum_within_rounding : forall g cs,
  be g = true -> forallb listed cs = true -> cs <> [] -> near_sum g cs (run g cs).
Proof. exact run_near_sum. Qed.
Print Assumptions c14_sum_within_rounding.

Theorem c14_non_be_untouched : forall g cs, be g = false -> non_be_untouched (run g cs).
Proof. exact non_be_run_untouched. Qed.
Print Assumptions c14_non_be_untouched.

Theorem c14_ratio_only_above_one : forall g cs, ratio g <= 100 -> run g cs = run (without_ratio g) cs.
Proof. exact ratio_only_above_one. Qed.
Print Assumptions c14_ratio_only_above_one.

(* above 1 the quota is ceil(float64(q) / float64(r/100)) in IEEE double arithmetic
   (Lib.Float53): positive, not larger than q, the floor or the ceiling of q divided by the
   double M/T nearest to r/100, hence within 2 of the exact decimal quotient 100 q / r *)
Theorem c14_ratio_above_one : forall r q, 100 < r -> 0 < q ->
  0 < scale_quota r q <= q
  /\ ratio_mant r * (scale_quota r q - 1) < q * ratio_den r < ratio_mant r * (scale_quota r q + 1)
  /\ (r / 100 < 2 ^ 53 -> q <= 2 ^ 52 -> 100 * q - 2 * r < r * scale_quota r q < 100 * q + 2 * r).
Proof. exact ratio_above_one. Qed.
Print Assumptions c14_ratio_above_one.

(* the decision procedure run on the implementation's observables decides the property *)
Theorem c14_prop_code_spec : forall g cs o, prop_code g cs o = 0 <-> C14_holds g cs o.
Proof. exact prop_code_spec. Qed.
Print Assumptions c14_prop_code_spec.

(* main theorem, over the definitions Extract.v runs *)
Theorem c14_main : forall g cs, forallb listed cs = true -> prop_code g cs (run g cs) = 0.
Proof. exact main. Qed.
Print Assumptions c14_main.

(* without the hypothesis the model fails only in the D10 shape *)
Theorem c14_only_d10 : forall g cs, prop_code g cs (run g cs) = 0 \/ d10_shape g cs (run g cs) = true.
Proof. exact only_d10. Qed.
Print Assumptions c14_only_d10.

(* ---- stored pods and request builders (View.v): the pod object carries the declared amounts in
   its spec and in the extended-resource-spec annotation; the webhook rewrites the annotation, a
   pod that bypassed it may carry none or a stale / foreign one ---- *)

(* a pod admitted by the webhook: the three request builders select the same amounts *)
Theorem c14_view_synced : forall recon g cs,
  run_b recon g (attach cs (webhook cs)) = run g cs /\ handed recon (attach cs (webhook cs)) = cs.
Proof. intros recon g cs. split; [apply view_synced|apply handed_synced]. Qed.
Print Assumptions c14_view_synced.

(* the reconciler reads the pod spec at BOTH levels: whatever the annotation says, a pod whose
   containers all name a batch resource gets the values of its spec *)
Theorem c14_reconciler_prefers_spec : forall g cs an, forallb listed cs = true ->
  run_b true g (attach cs an) = run g cs.
Proof. exact reconciler_prefers_spec. Qed.
Print Assumptions c14_reconciler_prefers_spec.

(* every builder, EVERY stored pod (any annotation): when the pod-level hook sees every container
   the property holds with respect to the declaration the agent is handed *)
Theorem c14_view_main : forall recon g p, complete recon p = true ->
  prop_code g (handed recon p) (run_b recon g p) = 0.
Proof. exact view_main. Qed.
Print Assumptions c14_view_main.

(* and otherwise the only way to fail is the D10 shape *)
Theorem c14_view_only_d10 : forall recon g p,
  prop_code g (handed recon p) (run_b recon g p) = 0
  \/ d10_shape g (handed recon p) (run_b recon g p) = true.
Proof. exact view_only_d10. Qed.
Print Assumptions c14_view_only_d10.

(* limit (not a finding): runtime-proxy / NRI requests carry no pod spec; with a stale annotation
   the injected values are those of the annotation (correct for it), not of the spec, while the
   reconciler restores the spec's values *)
Theorem c14_annotation_only_stale_refuted :
  exists g cs an, forallb listed cs = true
    /\ prop_code g cs (run_b true g (attach cs an)) = 0
    /\ prop_code g (handed false (attach cs an)) (run_b false g (attach cs an)) = 0
    /\ prop_code g cs (run_b false g (attach cs an)) = 2.
Proof. exact annotation_only_follows_annotation_refuted. Qed.
Print Assumptions c14_annotation_only_stale_refuted.

(* ---- init containers (spec.initContainers; never recorded by the webhook, never summed) ---- *)

(* the decision procedure with the init clauses (10: own conversion, 11: pod no tighter) *)
Theorem c14_prop_code_i_spec : forall g H HI o ri,
  prop_code_i g H HI o ri = 0 <-> C14_holds g H o /\ init_holds g H HI (fst o) ri.
Proof. exact prop_code_i_spec. Qed.
Print Assumptions c14_prop_code_i_spec.

(* the reconciler gives every init container the conversion of its own declared amounts *)
Theorem c14_reconciler_init_conv : forall g inits, be g = true ->
  Forall2 (ctr_ok g) inits (map (fun c => container_out_e g (init_view true c)) inits).
Proof. exact reconciler_init_conv. Qed.
Print Assumptions c14_reconciler_init_conv.

(* every builder, every stored pod, any init containers: pass, D10 shape, or D11 shape *)
Theorem c14_view_i_only : forall recon g p inits,
  let o := run_i recon g p inits in
  prop_code_i g (handed recon p) inits (fst o) (snd o) = 0
  \/ d10_shape g (handed recon p) (fst o) = true
  \/ d11_shape g (handed recon p) inits (fst o) (snd o) = true.
Proof. exact view_i_only. Qed.
Print Assumptions c14_view_i_only.

(* D11: the pod-level values ignore init containers. Reconciler: the init container gets its own
   limits (quota 400000, 8Gi) under a pod cgroup that holds the main container's only (100000,
   1Gi) - clause 11; proxy / NRI: the init container is not even converted - clause 10 *)
Theorem c14_init_containers_refuted :
  exists g p inits, complete true p = true
    /\ prop_code g (handed true p) (run_b true g p) = 0
    /\ run_i true g p inits
       = ((mkRes (Some 1024) (Some 100000) (Some 1073741824), [mkRes (Some 1024) (Some 100000) (Some 1073741824)]),
          [mkRes (Some 4096) (Some 400000) (Some 8589934592)])
    /\ prop_code_i g (handed true p) inits (fst (run_i true g p inits)) (snd (run_i true g p inits)) = 11
    /\ prop_code_i g (handed false p) inits (fst (run_i false g p inits)) (snd (run_i false g p inits)) = 10.
Proof. exact d11_refuted. Qed.
Print Assumptions c14_init_containers_refuted.

(* the same over the wire-level entry points the extracted runner executes: for EVERY integer
   input within the generator's guard (two successive rule updates are not neighbouring
   two-decimal values, so the rule holds the ratio the node advertises) the model's own observable
   passes the decision procedure or has the D10 or the D11 signature *)
Theorem c14_wire_main : forall inp, input_guard inp = true ->
  prop_case inp (run_case inp) = 0 \/ finding_sig inp (run_case inp) = 1 \/ finding_sig inp (run_case inp) = 2.
Proof. exact wire_main. Qed.
Print Assumptions c14_wire_main.

Theorem c14_wire_main_listed : forall inp,
  let '(g, gw, _) := decode inp in
  let '(recon, p) := decode_view inp in
  complete recon p = true -> ratio g = ratio gw -> decode_inits inp = [] ->
  prop_case inp (run_case inp) = 0.
Proof. exact wire_main_listed. Qed.
Print Assumptions c14_wire_main_listed.

(* inputs in the format before the stored-pod widening (no trailing amode) and every amode other
   than 1, 2, 4, 5 (in particular 0 and 3) denote a pod whose annotation the webhook wrote: the wire entry points run Model.run on the spec *)
Theorem c14_wire_synced : forall mode q c prev k n t amode f,
  no_annotation amode = false -> keeps_foreign amode = false ->
  skipn (8 * Z.to_nat n) t = [] \/ skipn (8 * Z.to_nat n) t = amode :: f ->
  let inp := mode :: q :: c :: prev :: k :: n :: t in
  let cs := decode_ctrs (Z.to_nat n) t in
  handed (fst (decode_view inp)) (snd (decode_view inp)) = cs
  /\ forall g, run_b (fst (decode_view inp)) g (snd (decode_view inp)) = run g cs.
Proof. exact decode_view_synced. Qed.
Print Assumptions c14_wire_synced.

(* the first ratio a fresh rule sees always takes effect *)
Theorem c14_rule_fresh : forall k,
  ratio_of_state (rule_after [k]) = configured [k] /\ configured [k] = ratio_of_code k.
Proof. exact rule_fresh. Qed.
Print Assumptions c14_rule_fresh.

(* a later one takes effect whenever it differs from the stored one by at least 0.02 *)
Theorem c14_rule_follows_node : forall prev k,
  1 <= prev < 2 ^ 40 -> 1 <= k < 2 ^ 40 -> 2 <= Z.abs (prev - k) ->
  ratio_of_state (rule_after [prev; k]) = configured [prev; k].
Proof. exact rule_follows. Qed.
Print Assumptions c14_rule_follows_node.

(* non-vacuity: hypotheses are satisfiable and the clauses are exercised *)
Example c14_nonvacuous_main :
  let g := mkCfg true true 150 in
  let cs := [mkCtr (Some 500) (Some 1000) (Some 100) (Some 200); mkCtr (Some 5) (Some 7) None (Some 300)] in
  forallb listed cs = true /\ uses_batch cs = true
  /\ run g cs = (mkRes (Some 517) (Some 67134) (Some 500),
                 [mkRes (Some 512) (Some 66667) (Some 200); mkRes (Some 5) (Some 667) (Some 300)]).
Proof. vm_compute. repeat split. Qed.
Example c14_nonvacuous_unlimited :
  let g := mkCfg true true (-100) in
  let cs := [mkCtr (Some 500) (Some 1000) None (Some 200); mkCtr (Some 5) None None None] in
  run g cs = (mkRes (Some 517) (Some (-1)) (Some (-1)),
              [mkRes (Some 512) (Some 100000) (Some 200); mkRes (Some 5) (Some (-1)) (Some (-1))]).
Proof. vm_compute. reflexivity. Qed.
(* a stale annotation (quarter amounts) on a fully declared pod: the reconciler still injects the
   spec's values at both levels; the proxy / NRI builders inject the annotation's *)
Example c14_nonvacuous_stale :
  let g := mkCfg true true (-100) in
  let cs := [mkCtr (Some 4000) (Some 4000) (Some 800) (Some 800); mkCtr (Some 1000) (Some 1000) (Some 200) (Some 200)] in
  let an := [Some (mkCtr (Some 1000) (Some 1000) (Some 200) (Some 200)); Some (mkCtr (Some 500) (Some 500) (Some 100) (Some 100))] in
  complete true (attach cs an) = true /\ complete false (attach cs an) = true
  /\ run_b true g (attach cs an) = (mkRes (Some 5120) (Some 500000) (Some 1000),
        [mkRes (Some 4096) (Some 400000) (Some 800); mkRes (Some 1024) (Some 100000) (Some 200)])
  /\ run_b false g (attach cs an) = (mkRes (Some 1536) (Some 150000) (Some 300),
        [mkRes (Some 1024) (Some 100000) (Some 200); mkRes (Some 512) (Some 50000) (Some 100)]).
Proof. vm_compute. repeat split. Qed.
Example c14_nonvacuous_non_be : be (cfg_of_codes 4 0 150) = false /\ be (cfg_of_codes 1 0 150) = true.
Proof. vm_compute. split; reflexivity. Qed.
(* observation (outside the property's quantifier, see findings/C14-stale-normalization-ratio.md):
   the hypothesis 2 <= |prev - k| of c14_rule_follows_node cannot be dropped — a one-step change
   1.12 -> 1.13 is below the rule's 0.01 hysteresis in float64 and the rule keeps 1.12 *)
Example c14_rule_one_step_observation :
  exists prev k, configured [prev; k] = k /\ 100 < k /\ ratio_of_state (rule_after [prev; k]) = prev /\ prev <> k.
Proof. exact rule_stale_refuted. Qed.
