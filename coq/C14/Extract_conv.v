(* C14, stream "conv" — the generated conversions against the compiled Go functions.
   input: m ; observable: MilliCPUToShares m, MilliCPUToQuota m.
   prop_case compares the implementation with the standard conversion written with literal
   numbers (Std.std_shares / std_quota; Proofs_Conv proves the generated functions equal them on
   the unchanged tree). No proof file is imported: the runner builds even when that proof breaks. *)
From Coq Require Import List ZArith Bool.
From Verif Require Import Lib.Wire C14.Model C14.Std.
Import ListNotations.
Open Scope Z_scope.

Definition run_case (inp : list Z) : list Z :=
  let m := hdZ inp in [MilliCPUToShares m; MilliCPUToQuota m].

Definition prop_case (inp o : list Z) : Z :=
  let m := hdZ inp in
  match o with
  | [s; q] => if negb (s =? std_shares m) then 1 else if negb (q =? std_quota m) then 2 else 0
  | _ => 9
  end.

(* non-trivial: a positive amount, i.e. neither conversion is in its constant branch *)
Definition nontrivial_case (inp : list Z) : bool := 0 <? hdZ inp.

Definition finding_sig (inp o : list Z) : Z := 0.

Require Extraction.
Require Import ExtrOcamlBasic.
Extraction "model.ml" run_case prop_case nontrivial_case finding_sig.
