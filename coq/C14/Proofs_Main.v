(* C14 — the decision procedure decides the property; the pod equals the sum of its containers
   up to rounding and clamps; the model satisfies the property on every pod all of whose
   containers name a batch resource; every failure of the model has the D10 shape. *)
From Coq Require Import List ZArith Bool Lia Permutation.
From Verif Require Import C14.Model C14.Spec C14.Proofs_Conv C14.Proofs_Pod.
Import ListNotations.
Open Scope Z_scope.

(* ---------- reflection of the boolean checks ---------- *)

Lemma is_valb_spec o v : is_valb o v = true <-> o = Some v.
Proof.
  unfold is_valb. destruct o as [x|]; [|split; discriminate].
  rewrite Z.eqb_eq. split; [now intros ->|now intros [= ->]].
Qed.

Lemma res_untouchedb_spec r : res_untouchedb r = true <-> r = untouched.
Proof.
  destruct r as [[s|] [q|] [m|]]; unfold res_untouchedb, untouched; cbn; split; try discriminate; reflexivity.
Qed.

Lemma non_be_untouchedb_spec o : non_be_untouchedb o = true <-> non_be_untouched o.
Proof.
  unfold non_be_untouchedb, non_be_untouched. rewrite andb_true_iff, res_untouchedb_spec, forallb_forall, Forall_forall.
  split; intros [H1 H2]; (split; [exact H1|]); intros x Hx; apply res_untouchedb_spec, H2, Hx.
Qed.

Lemma ctr_okb_spec g c r : ctr_okb g c r = true <-> ctr_ok g c r.
Proof.
  unfold ctr_okb, ctr_ok. destruct (declares_any c).
  - rewrite !andb_true_iff, !is_valb_spec. destruct r as [s q m]. cbn [shares quota mem].
    split; [intros [[-> ->] ->]; reflexivity|intros [= -> -> ->]; auto].
  - rewrite !andb_true_iff, !Z.eqb_eq. tauto.
Qed.

Lemma no_tighterb_spec c p : no_tighterb c p = true <-> no_tighter c p.
Proof.
  unfold no_tighterb, no_tighter. rewrite orb_true_iff, andb_true_iff, negb_true_iff, Z.eqb_eq, Z.eqb_neq, Z.leb_le. tauto.
Qed.

Lemma pod_coversb_spec p r : pod_coversb p r = true <-> pod_covers p r.
Proof.
  unfold pod_coversb, pod_covers. rewrite !andb_true_iff, !no_tighterb_spec, Z.leb_le. tauto.
Qed.

Lemma forallb2_spec {A B} (f : A -> B -> bool) (P : A -> B -> Prop) :
  (forall a b, f a b = true <-> P a b) ->
  forall la lb, forallb2 f la lb = true <-> Forall2 P la lb.
Proof.
  intros Hf la. induction la as [|a la IH]; intros [|b lb]; cbn [forallb2].
  - split; [constructor|reflexivity].
  - split; [discriminate|inversion 1].
  - split; [discriminate|inversion 1].
  - rewrite andb_true_iff, Hf, IH. split; [intros [? ?]; now constructor|inversion 1; auto].
Qed.

Lemma near_sumb_spec g cs o : near_sumb g cs o = true <-> near_sum g cs o.
Proof.
  unfold near_sumb, near_sum. cbv zeta.
  rewrite !andb_true_iff, !orb_true_iff, !negb_true_iff, !andb_true_iff, !Z.leb_le, Z.ltb_ge, Z.eqb_eq.
  destruct (cfsOn g), (all_cpu_limited cs), (all_mem_limited cs); intuition (try discriminate; try lia).
Qed.

Lemma pod_ok_spec g cs p :
  pod_ok g cs p <->
  is_valb (shares p) (want_pod_shares cs) = true /\ is_valb (quota p) (want_pod_quota g cs) = true
  /\ is_valb (mem p) (want_pod_mem cs) = true.
Proof.
  unfold pod_ok. rewrite !is_valb_spec. destruct p as [s q m]. cbn [shares quota mem].
  split; [intros [= -> -> ->]; auto|intros [-> [-> ->]]; reflexivity].
Qed.

Lemma prop_code_sound g cs o : prop_code g cs o = 0 -> C14_holds g cs o.
Proof.
  unfold prop_code, C14_holds.
  destruct (Nat.eqb (length (snd o)) (length cs)) eqn:EL; cbn [negb]; [|discriminate].
  apply Nat.eqb_eq in EL.
  destruct (be g) eqn:Ebe; cbn [negb].
  2:{ destruct (non_be_untouchedb o) eqn:E; [|discriminate]. intros _.
      split; [exact EL|]. split; [intros _; now apply non_be_untouchedb_spec|discriminate]. }
  destruct (uses_batch cs) eqn:Hub; cbn [negb].
  2:{ intros _. split; [exact EL|]. split; discriminate. }
  destruct (forallb2 (ctr_okb g) cs (snd o)) eqn:E2; cbn [negb]; [|discriminate].
  destruct (forallb (pod_coversb (fst o)) (snd o)) eqn:E3; cbn [negb]; [|discriminate].
  destruct (is_valb (shares (fst o)) (want_pod_shares cs)) eqn:E4; cbn [negb]; [|discriminate].
  destruct (is_valb (quota (fst o)) (want_pod_quota g cs)) eqn:E5; cbn [negb]; [|discriminate].
  destruct (is_valb (mem (fst o)) (want_pod_mem cs)) eqn:E6; cbn [negb]; [|discriminate].
  destruct (near_sumb g cs o) eqn:E7; cbn [negb]; [|discriminate]. intros _.
  split; [exact EL|]. split; [discriminate|]. intros _ _.
  split; [apply (forallb2_spec _ _ (ctr_okb_spec g)); exact E2|].
  split; [apply Forall_forall; intros r Hr; apply pod_coversb_spec; rewrite forallb_forall in E3; now apply E3|].
  split; [apply pod_ok_spec; auto|now apply near_sumb_spec].
Qed.

Lemma prop_code_complete g cs o : C14_holds g cs o -> prop_code g cs o = 0.
Proof.
  unfold prop_code, C14_holds. intros [EL [Hn Hb]].
  apply Nat.eqb_eq in EL. rewrite EL. cbn [negb].
  destruct (be g) eqn:Ebe; cbn [negb].
  2:{ apply non_be_untouchedb_spec in Hn; [|reflexivity]. now rewrite Hn. }
  destruct (uses_batch cs) eqn:Hub; cbn [negb]; [|reflexivity].
  destruct (Hb eq_refl eq_refl) as [H2 [H3 [H4 H7]]].
  apply (forallb2_spec _ _ (ctr_okb_spec g)) in H2. rewrite H2. cbn [negb].
  assert (E3 : forallb (pod_coversb (fst o)) (snd o) = true).
  { apply forallb_forall. intros r Hr. apply pod_coversb_spec. rewrite Forall_forall in H3. now apply H3. }
  rewrite E3. cbn [negb].
  apply pod_ok_spec in H4. destruct H4 as [-> [-> ->]]. cbn [negb].
  apply near_sumb_spec in H7. now rewrite H7.
Qed.

Lemma prop_code_spec g cs o : prop_code g cs o = 0 <-> C14_holds g cs o.
Proof. split; [apply prop_code_sound|apply prop_code_complete]. Qed.

(* ---------- pod versus the sum of its containers ---------- *)

Definition fl (m : Z) : Z := m * 1024 / 1000.

Lemma fl_add a b : fl a + fl b <= fl (a + b) <= fl a + fl b + 1.
Proof.
  unfold fl.
  pose proof (Z.div_mod (a * 1024) 1000 ltac:(lia)). pose proof (Z.mod_pos_bound (a * 1024) 1000 ltac:(lia)).
  pose proof (Z.div_mod (b * 1024) 1000 ltac:(lia)). pose proof (Z.mod_pos_bound (b * 1024) 1000 ltac:(lia)).
  pose proof (Z.div_mod ((a + b) * 1024) 1000 ltac:(lia)). pose proof (Z.mod_pos_bound ((a + b) * 1024) 1000 ltac:(lia)).
  lia.
Qed.

Lemma fl_sum {A} (f : A -> Z) l :
  sumZ (map (fun c => fl (f c)) l) <= fl (sumZ (map f l)) <= sumZ (map (fun c => fl (f c)) l) + Z.of_nat (length l).
Proof.
  induction l as [|c l IH]; cbn [map length].
  - rewrite !sumZ_nil. cbn. lia.
  - rewrite !sumZ_cons, Nat2Z.inj_succ. pose proof (fl_add (f c) (sumZ (map f l))). lia.
Qed.

Lemma shares_below_max m : 0 <= m -> MilliCPUToShares m < CPUSharesMaxValue ->
  MilliCPUToShares m = Z.max CPUSharesMinValue (fl m).
Proof.
  intros Hm. rewrite shares_std. unfold std_shares, CPUSharesMaxValue, CPUSharesMinValue, fl.
  assert (0 <= m * 1024 / 1000) by (apply Z.div_pos; lia).
  destruct (m <=? 0) eqn:E; [apply Z.leb_le in E|apply Z.leb_gt in E].
  - assert (m = 0) by lia. subst m. cbn. lia.
  - lia.
Qed.

Lemma shares_sum_bounds {A} (f : A -> Z) (l : list A) :
  (forall x, In x l -> 0 <= f x) -> l <> [] ->
  MilliCPUToShares (sumZ (map f l)) < CPUSharesMaxValue ->
  let S := sumZ (map (fun c => MilliCPUToShares (f c)) l) in
  let n := Z.of_nat (length l) in
  MilliCPUToShares (sumZ (map f l)) <= S + n /\ S <= MilliCPUToShares (sumZ (map f l)) + n * CPUSharesMinValue.
Proof.
  intros Hnn Hne Hmax S n.
  assert (Htot : 0 <= sumZ (map f l)) by (apply sumZ_map_nonneg; exact Hnn).
  (* every element is below the maximum clamp too *)
  assert (Hel : forall x, In x l -> MilliCPUToShares (f x) = Z.max CPUSharesMinValue (fl (f x))).
  { intros x Hx. apply shares_below_max; [now apply Hnn|].
    pose proof (shares_mono (f x) (sumZ (map f l)) (elem_le_sum f l x Hnn Hx)). lia. }
  assert (HS : S = sumZ (map (fun c => Z.max CPUSharesMinValue (fl (f c))) l)).
  { unfold S. apply sumZ_map_ext. exact Hel. }
  assert (Hlo : sumZ (map (fun c => fl (f c)) l) <= S /\ n * CPUSharesMinValue <= S
                /\ S <= sumZ (map (fun c => fl (f c)) l) + n * CPUSharesMinValue).
  { rewrite HS. unfold n. clear - Hnn. induction l as [|c l IH]; cbn [map length].
    - rewrite !sumZ_nil. cbn. lia.
    - rewrite !sumZ_cons, Nat2Z.inj_succ.
      assert (0 <= fl (f c)) by (unfold fl; apply Z.div_pos; [specialize (Hnn c (or_introl eq_refl))|]; lia).
      specialize (IH ltac:(intros; apply Hnn; now right)). unfold CPUSharesMinValue in *. lia. }
  rewrite (shares_below_max _ Htot Hmax).
  pose proof (fl_sum f l) as Hfl. fold n in Hfl.
  assert (1 <= n) by (unfold n; destruct l; [congruence|cbn [length]; lia]).
  unfold CPUSharesMinValue in *. lia.
Qed.

Lemma quota_sum_bounds {A} (f : A -> Z) (l : list A) :
  (forall x, In x l -> 0 < f x) -> l <> [] ->
  let S := sumZ (map (fun c => MilliCPUToQuota (f c)) l) in
  let n := Z.of_nat (length l) in
  MilliCPUToQuota (sumZ (map f l)) <= S <= MilliCPUToQuota (sumZ (map f l)) + n * (CFSQuotaMinValue - 100).
Proof.
  intros Hpos Hne S n.
  assert (Hlin : sumZ (map f l) * 100 <= S <= sumZ (map f l) * 100 + n * (CFSQuotaMinValue - 100)
                 /\ n * CFSQuotaMinValue <= S /\ n <= sumZ (map f l)).
  { unfold S, n. clear - Hpos. induction l as [|c l IH]; cbn [map length].
    - rewrite !sumZ_nil. cbn. lia.
    - rewrite !sumZ_cons, Nat2Z.inj_succ.
      pose proof (Hpos c (or_introl eq_refl)) as Hc.
      pose proof (quota_linear_bounds _ Hc). pose proof (quota_pos _ Hc).
      specialize (IH ltac:(intros; apply Hpos; now right)). unfold CFSQuotaMinValue in *. lia. }
  assert (1 <= n) by (unfold n; destruct l; [congruence|cbn [length]; lia]).
  assert (Htot : 0 < sumZ (map f l)) by lia.
  rewrite quota_std. unfold std_quota.
  replace (sumZ (map f l) <=? 0) with false by (symmetry; apply Z.leb_gt; lia).
  unfold CFSQuotaMinValue in *. lia.
Qed.

Lemma normalized_sum_bounds {A} (q : A -> Z) (l : list A) r : 100 < r ->
  (forall x, In x l -> 0 < q x) ->
  let S := sumZ (map (fun c => normalized r (q c)) l) in
  let n := Z.of_nat (length l) in
  ratio_mant r * (S - n) <= sumZ (map q l) * ratio_den r <= ratio_mant r * (S + n).
Proof.
  intros Hr Hpos. cbv zeta. induction l as [|c l IH]; cbn [map length].
  - rewrite !sumZ_nil. lia.
  - rewrite !sumZ_cons, Nat2Z.inj_succ.
    pose proof (normalized_near r (q c) Hr (Hpos c (or_introl eq_refl))).
    specialize (IH ltac:(intros; apply Hpos; now right)). lia.
Qed.

(* pod quota versus the sum of the container quotas, both after normalization *)
Lemma quota_near_sum {A} (f : A -> Z) (l : list A) r :
  (forall x, In x l -> 0 < f x) -> l <> [] ->
  let P := normalized r (MilliCPUToQuota (sumZ (map f l))) in
  let S := sumZ (map (fun c => normalized r (MilliCPUToQuota (f c))) l) in
  let n := Z.of_nat (length l) in
  P <= S + (if 100 <? r then n else 0) /\ S <= P + n * CFSQuotaMinValue.
Proof.
  intros Hpos Hne P S n.
  pose proof (quota_sum_bounds f l Hpos Hne) as HB. cbv zeta in HB. fold n in HB.
  assert (Hn : 1 <= n) by (unfold n; destruct l; [congruence|cbn [length]; lia]).
  destruct (100 <? r) eqn:Er; [apply Z.ltb_lt in Er|apply Z.ltb_ge in Er].
  2:{ (* ratio not above 1: no scaling *)
    assert (HP : P = MilliCPUToQuota (sumZ (map f l))).
    { unfold P, normalized. now replace (100 <? r) with false by (symmetry; apply Z.ltb_ge; lia). }
    assert (HS : S = sumZ (map (fun c => MilliCPUToQuota (f c)) l)).
    { unfold S. apply sumZ_map_ext. intros x _. unfold normalized.
      now replace (100 <? r) with false by (symmetry; apply Z.ltb_ge; lia). }
    rewrite HP, HS. unfold CFSQuotaMinValue in *. lia. }
  assert (Hqpos : forall x, In x l -> 0 < MilliCPUToQuota (f x)).
  { intros x Hx. pose proof (quota_pos _ (Hpos x Hx)). unfold CFSQuotaMinValue in *. lia. }
  pose proof (normalized_sum_bounds (fun c => MilliCPUToQuota (f c)) l r Er Hqpos) as HN. cbv zeta in HN.
  fold S in HN. fold n in HN.
  set (A0 := sumZ (map (fun c => MilliCPUToQuota (f c)) l)) in *.
  set (Q0 := MilliCPUToQuota (sumZ (map f l))) in *.
  assert (HQ0 : 0 < Q0).
  { assert (0 < sumZ (map f l)).
    { destruct l as [|c l']; [congruence|]. cbn [map]. rewrite sumZ_cons.
      assert (0 < f c) by (apply Hpos; now left).
      assert (0 <= sumZ (map f l')) by (apply sumZ_map_nonneg; intros x Hx; specialize (Hpos x (or_intror Hx)); lia). lia. }
    pose proof (quota_pos _ H). unfold Q0, CFSQuotaMinValue in *. lia. }
  pose proof (normalized_near r Q0 Er HQ0) as HPb. fold P in HPb.
  set (M := ratio_mant r) in *. set (T := ratio_den r) in *.
  assert (HT : 0 < T) by apply ratio_den_pos.
  assert (HTM : T <= M) by (apply ratio_mant_ge_den; lia).
  unfold CFSQuotaMinValue in *.
  assert (HQA : Q0 * T <= A0 * T) by (apply Z.mul_le_mono_nonneg_r; lia).
  assert (HAQ : A0 * T <= (Q0 + n * 900) * T) by (apply Z.mul_le_mono_nonneg_r; lia).
  assert (HnT : n * 900 * T <= n * 900 * M) by (apply Z.mul_le_mono_nonneg_l; lia).
  split.
  - (* M (P - 1) < Q0 T <= A0 T <= M (S + n) *)
    destruct (Z.le_gt_cases P (S + n)) as [Hle|Hgt]; [exact Hle|exfalso].
    assert (M * (S + n) <= M * (P - 1)) by (apply Z.mul_le_mono_nonneg_l; lia). lia.
  - (* M (S - n) <= A0 T <= Q0 T + 900 n T < M (P + 1) + 900 n M *)
    destruct (Z.le_gt_cases S (P + n * 1000)) as [Hle|Hgt]; [exact Hle|exfalso].
    assert (M * (P + 1 + n * 900) <= M * (S - n)) by (apply Z.mul_le_mono_nonneg_l; lia).
    lia.
Qed.
