(* C14 — model of Rule.UpdateCPUNormalizationRatio / parseRuleForNodeMeta
   (pkg/koordlet/runtimehooks/hooks/batchresource/rule.go:82-94, 120-141): the rule keeps the
   stored ratio unless the new one differs by at least ratioDiffEpsilon = 0.01 — a comparison the
   code makes in float64 on the doubles nearest to the two-decimal annotations.
   Executable, total, no proofs in this file. *)
From Coq Require Import List ZArith Bool.
From Verif Require Import Lib.Float53.
Import ListNotations.
Open Scope Z_scope.

(* value of Rule.cpuNormalizationRatio: -1.0 (node without the annotation) or the double nearest
   to k/100 *)
Inductive rval := RMinus1 | RDec (k : Z).
(* None = the pointer is still nil (no successful parse yet) *)
Notation rule_state := (option rval).

(* apiext.GetCPUNormalizationRatio on the harness's annotation codes: 0 = no annotation -> -1,
   k > 0 = "k/100" -> that double, anything else (not called, "0.00", "abc") -> no update *)
Definition parse_code (c : Z) : option rval :=
  if c =? 0 then Some RMinus1 else if 0 <? c then Some (RDec c) else None.

(* the double nearest to k/100 for k >= 1, as mantissa / power-of-two denominator *)
Definition dec_den (k : Z) : Z := 2 ^ (52 - (Z.log2 (k * 128 / 100) - 7)).
Definition dec_mant (k : Z) : Z := rne_div (k * dec_den k) 100.

(* math.Abs(a - b) >= 0.01 on doubles: the subtraction of two doubles within a factor two of
   each other is exact, and otherwise the difference exceeds the smaller one, which is at
   least the double 0.01 *)
Definition differs (a b : rval) : bool :=
  match a, b with
  | RMinus1, RMinus1 => false
  | RMinus1, RDec _ | RDec _, RMinus1 => true
  | RDec k1, RDec k2 =>
      dec_mant 1 * (dec_den k1 * dec_den k2)
      <=? Z.abs (dec_mant k1 * dec_den k2 - dec_mant k2 * dec_den k1) * dec_den 1
  end.

Definition rule_update (s : rule_state) (c : Z) : rule_state :=
  match parse_code c with
  | None => s
  | Some v => match s with
              | None => Some v
              | Some old => if differs old v then Some v else s
              end
  end.

Definition rule_after (codes : list Z) : rule_state := fold_left rule_update codes None.

(* the ratio (hundredths) the hook divides by; -100 stands for -1.0 / unset *)
Definition ratio_of_state (s : rule_state) : Z :=
  match s with Some (RDec k) => k | _ => -100 end.

(* the ratio the node currently advertises: the last annotation that parsed *)
Definition configured (codes : list Z) : Z :=
  ratio_of_state (fold_left (fun s c => match parse_code c with Some v => Some v | None => s end) codes None).
