(* C14 — the wire codec round-trips, so the main theorem holds for the extracted entry points. *)
From Coq Require Import List ZArith Bool Lia.
From Verif Require Import C14.Model C14.View C14.Spec C14.Rule C14.Codec C14.Proofs_Model C14.Proofs_View C14.Proofs_Rule.
Import ListNotations.
Open Scope Z_scope.

Lemma opt_roundtrip o : match enc_opt o with [a; b] => opt_of a b = o | _ => False end.
Proof. destruct o; reflexivity. Qed.

Lemma enc_res_shape r : exists a b c d e f, enc_res r = [a; b; c; d; e; f]
  /\ mkRes (opt_of a b) (opt_of c d) (opt_of e f) = r.
Proof.
  destruct r as [[s|] [q|] [m|]]; cbn; repeat eexists.
Qed.

Lemma enc_res_length r : length (enc_res r) = 6%nat.
Proof. destruct (enc_res_shape r) as (a & b & c & d & e & f & -> & _). reflexivity. Qed.

Lemma flat_enc_length rs : length (flat_map enc_res rs) = (6 * length rs)%nat.
Proof.
  induction rs as [|r rs IH]; [reflexivity|].
  cbn [flat_map length]. rewrite app_length, enc_res_length, IH. lia.
Qed.

Lemma dec_ress_enc rs fuel : (length rs <= fuel)%nat -> dec_ress fuel (flat_map enc_res rs) = rs.
Proof.
  revert fuel. induction rs as [|r rs IH]; intros fuel Hf.
  - destruct fuel; reflexivity.
  - destruct fuel as [|fuel]; [cbn in Hf; lia|].
    cbn [flat_map]. destruct (enc_res_shape r) as (a & b & c & d & e & f & -> & Hr).
    cbn [app dec_ress]. rewrite Hr, IH; [reflexivity|cbn in Hf; lia].
Qed.

Lemma dec_enc_obs o : dec_obs (enc_obs o) = o.
Proof.
  destruct o as [p rs]. unfold dec_obs, enc_obs. cbn [fst snd].
  change (enc_res p ++ flat_map enc_res rs) with (flat_map enc_res (p :: rs)).
  rewrite dec_ress_enc; [reflexivity|].
  rewrite flat_enc_length. cbn [length]. lia.
Qed.

Lemma enc_obs_sized (o : obs) n : length (snd o) = n -> well_sized n (enc_obs o) = true.
Proof.
  intros <-. unfold well_sized, enc_obs.
  rewrite app_length, enc_res_length, flat_enc_length.
  apply Nat.eqb_eq. lia.
Qed.

Lemma decode_same_but_ratio inp :
  let '(g, gw, _) := decode inp in be g = be gw /\ cfsOn g = cfsOn gw.
Proof.
  unfold decode. destruct inp as [|m [|q [|c [|p [|k [|n t]]]]]]; cbn; auto.
Qed.

Lemma cfg_eq g gw : be g = be gw -> cfsOn g = cfsOn gw -> ratio g = ratio gw -> g = gw.
Proof. destruct g, gw. cbn. now intros -> -> ->. Qed.

(* whenever the rule holds the advertised ratio: the model's own observable passes the decision
   procedure, or the failure is D10 *)
Lemma eq_listZ_refl l : eq_listZ l l = true.
Proof. induction l as [|x l IH]; [reflexivity|]. cbn [eq_listZ]. now rewrite Z.eqb_refl, IH. Qed.

Lemma firstn_skipn_app {A} (a b : list A) n : length a = n -> firstn n (a ++ b) = a /\ skipn n (a ++ b) = b.
Proof.
  intros <-. split.
  - rewrite firstn_app, Nat.sub_diag, firstn_all. cbn. apply app_nil_r.
  - rewrite skipn_app, Nat.sub_diag, skipn_all. reflexivity.
Qed.

Lemma split_run recon g p inits :
  let o := run_i recon g p inits in
  split_obs (length (handed recon p)) (fst (fst o), snd (fst o) ++ snd o) = o.
Proof.
  cbv zeta. unfold split_obs, run_i. cbn [fst snd].
  destruct (firstn_skipn_app (snd (run_b recon g p))
              (map (fun c => container_out_e g (init_view recon c)) inits)
              (length (handed recon p)) (run_b_length recon g p)) as [-> ->].
  now destruct (run_b recon g p).
Qed.

Lemma run_i_sized recon g p inits :
  let o := run_i recon g p inits in
  length (snd (fst (fst o), snd (fst o) ++ snd o)) = (length (handed recon p) + length inits)%nat.
Proof.
  cbv zeta. unfold run_i. cbn [fst snd]. rewrite app_length, (run_b_length recon g p).
  now rewrite map_length.
Qed.

Lemma wire_main_fresh inp :
  (let '(g, gw, _) := decode inp in ratio g = ratio gw) ->
  prop_case inp (run_case inp) = 0 \/ finding_sig inp (run_case inp) = 1 \/ finding_sig inp (run_case inp) = 2.
Proof.
  unfold prop_case, finding_sig. rewrite eq_listZ_refl. unfold run_case.
  pose proof (decode_same_but_ratio inp) as Hd.
  destruct (decode inp) as [[g gw] cs0]. destruct Hd as [Hbe Hcfs]. intro Hr.
  assert (g = gw) by now apply cfg_eq. subst gw.
  destruct (decode_view inp) as [recon p]. cbv zeta.
  set (inits := decode_inits inp).
  rewrite andb_true_r, (enc_obs_sized _ _ (run_i_sized recon g p inits)), dec_enc_obs. cbn [negb].
  pose proof (split_run recon g p inits) as Hs. cbv zeta in Hs. rewrite Hs.
  pose proof (view_i_only recon g p inits) as Hv. cbv zeta in Hv.
  destruct (run_i recon g p inits) as [oa ri]. cbn [fst snd] in Hv.
  destruct Hv as [H|[H|H]]; [now left|right; left; now rewrite H|right; right].
  rewrite H. destruct (d10_shape g (handed recon p) oa) eqn:E; [|reflexivity].
  exfalso. unfold d10_shape, d11_shape in *.
  apply andb_true_iff in H. destruct H as [H _]. apply andb_true_iff in H. destruct H as [H _].
  apply andb_true_iff in E. destruct E as [E _]. apply andb_true_iff in E. destruct E as [E _].
  rewrite H in E. discriminate.
Qed.

(* with every container recorded and the rule up to date the model passes *)
Lemma wire_main_listed inp :
  let '(g, gw, _) := decode inp in
  let '(recon, p) := decode_view inp in
  complete recon p = true -> ratio g = ratio gw -> decode_inits inp = [] ->
  prop_case inp (run_case inp) = 0.
Proof.
  unfold prop_case, run_case.
  pose proof (decode_same_but_ratio inp) as Hd.
  destruct (decode inp) as [[g gw] cs0]. destruct Hd as [Hbe Hcfs].
  destruct (decode_view inp) as [recon p]. intros H Hr.
  assert (g = gw) by now apply cfg_eq. subst gw. cbv zeta.
  intro Hi. rewrite Hi.
  rewrite (enc_obs_sized _ _ (run_i_sized recon g p [])), dec_enc_obs. cbn [negb].
  pose proof (split_run recon g p []) as Hs. cbv zeta in Hs. rewrite Hs.
  unfold run_i. cbn [map fst snd]. now apply view_i_main.
Qed.

(* an input without the trailing amode (the format before the stored-pod widening) or with amode
   0 / 3 denotes a pod admitted by the webhook: every builder runs Model.run on the spec *)
Lemma decode_view_synced mode q c prev k n t amode f :
  no_annotation amode = false -> keeps_foreign amode = false ->
  skipn (8 * Z.to_nat n) t = [] \/ skipn (8 * Z.to_nat n) t = amode :: f ->
  let inp := mode :: q :: c :: prev :: k :: n :: t in
  let cs := decode_ctrs (Z.to_nat n) t in
  handed (fst (decode_view inp)) (snd (decode_view inp)) = cs
  /\ forall g, run_b (fst (decode_view inp)) g (snd (decode_view inp)) = run g cs.
Proof.
  intros H1 H2 Hs. cbv zeta. unfold decode_view.
  destruct Hs as [-> | ->]; cbn [fst snd]; rewrite stored_synced by (try assumption; reflexivity);
    (split; [apply handed_synced|intro g; apply view_synced]).
Qed.

(* ---------- the rule ---------- *)

Lemma rule_fresh k : ratio_of_state (rule_after [k]) = configured [k] /\ configured [k] = ratio_of_code k.
Proof.
  unfold rule_after, configured, rule_update, ratio_of_code, parse_code. cbn [fold_left].
  destruct (k =? 0) eqn:E0; [apply Z.eqb_eq in E0; subst k; split; reflexivity|].
  destruct (0 <? k); split; reflexivity.
Qed.

Lemma rule_stale_refuted :
  exists prev k, configured [prev; k] = k /\ 100 < k /\ ratio_of_state (rule_after [prev; k]) = prev /\ prev <> k.
Proof. exists 112, 113. vm_compute. repeat split; congruence. Qed.

(* under the generator's guard the rule holds the advertised ratio *)
Lemma guard_rule prev k :
  prev < 2 ^ 40 -> k < 2 ^ 40 -> (0 < prev -> 0 < k -> Z.abs (prev - k) <> 1) ->
  ratio_of_state (rule_after [prev; k]) = configured [prev; k].
Proof.
  intros Hp Hk Hg.
  destruct (Z_lt_le_dec 0 prev) as [Pp|Pp]; destruct (Z_lt_le_dec 0 k) as [Pk|Pk].
  - destruct (Z.eq_dec prev k) as [->|Hne].
    + unfold rule_after, configured, rule_update, parse_code. cbn [fold_left].
      replace (k =? 0) with false by (symmetry; apply Z.eqb_neq; lia).
      replace (0 <? k) with true by (symmetry; apply Z.ltb_lt; lia).
      destruct (differs (RDec k) (RDec k)); reflexivity.
    + apply rule_follows; lia.
  - unfold rule_after, configured, rule_update, parse_code. cbn [fold_left].
    replace (prev =? 0) with false by (symmetry; apply Z.eqb_neq; lia).
    replace (0 <? prev) with true by (symmetry; apply Z.ltb_lt; lia).
    replace (0 <? k) with false by (symmetry; apply Z.ltb_ge; lia).
    destruct (k =? 0); reflexivity.
  - unfold rule_after, configured, rule_update, parse_code. cbn [fold_left].
    replace (0 <? prev) with false by (symmetry; apply Z.ltb_ge; lia).
    replace (k =? 0) with false by (symmetry; apply Z.eqb_neq; lia).
    replace (0 <? k) with true by (symmetry; apply Z.ltb_lt; lia).
    destruct (prev =? 0); reflexivity.
  - unfold rule_after, configured, rule_update, parse_code. cbn [fold_left].
    replace (0 <? prev) with false by (symmetry; apply Z.ltb_ge; lia).
    replace (0 <? k) with false by (symmetry; apply Z.ltb_ge; lia).
    destruct (prev =? 0), (k =? 0); reflexivity.
Qed.

Lemma guard_fresh inp : input_guard inp = true -> let '(g, gw, _) := decode inp in ratio g = ratio gw.
Proof.
  unfold input_guard, decode.
  destruct inp as [|m [|q [|c [|prev [|k [|n t]]]]]]; try reflexivity; intro H.
  apply andb_true_iff in H. destruct H as [H Hn]. apply andb_true_iff in H. destruct H as [H1 H2].
  apply Z.ltb_lt in H1. apply Z.ltb_lt in H2. cbn [cfg_of_codes ratio].
  apply guard_rule; [exact H1|exact H2|]. intros Pp Pk E.
  apply negb_true_iff in Hn.
  replace (0 <? prev) with true in Hn by (symmetry; apply Z.ltb_lt; lia).
  replace (0 <? k) with true in Hn by (symmetry; apply Z.ltb_lt; lia).
  rewrite E in Hn. discriminate.
Qed.

(* for EVERY integer input satisfying the generator's guard *)
Lemma wire_main inp : input_guard inp = true ->
  prop_case inp (run_case inp) = 0 \/ finding_sig inp (run_case inp) = 1 \/ finding_sig inp (run_case inp) = 2.
Proof. intro H. apply wire_main_fresh, guard_fresh, H. Qed.
