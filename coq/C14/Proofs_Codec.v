(* C14 — the wire codec round-trips, so the main theorem holds for the extracted entry points. *)
From Coq Require Import List ZArith Bool Lia.
From Verif Require Import C14.Model C14.Spec C14.Rule C14.Codec C14.Proofs_Model.
Import ListNotations.
Open Scope Z_scope.

Lemma opt_roundtrip o : match enc_opt o with [a; b] => opt_of a b = o | _ => False end.
Proof. destruct o; reflexivity. Qed.

Lemma enc_res_shape r : exists a b c d e f, enc_res r = [a; b; c; d; e; f]
  /\ mkRes (opt_of a b) (opt_of c d) (opt_of e f) = r.
Proof.
  destruct r as [[s|] [q|] [m|]]; cbn; repeat eexists.
Qed.

Lemma enc_res_length r : length (enc_res r) = 6%nat.
Proof. destruct (enc_res_shape r) as (a & b & c & d & e & f & -> & _). reflexivity. Qed.

Lemma flat_enc_length rs : length (flat_map enc_res rs) = (6 * length rs)%nat.
Proof.
  induction rs as [|r rs IH]; [reflexivity|].
  cbn [flat_map length]. rewrite app_length, enc_res_length, IH. lia.
Qed.

Lemma dec_ress_enc rs fuel : (length rs <= fuel)%nat -> dec_ress fuel (flat_map enc_res rs) = rs.
Proof.
  revert fuel. induction rs as [|r rs IH]; intros fuel Hf.
  - destruct fuel; reflexivity.
  - destruct fuel as [|fuel]; [cbn in Hf; lia|].
    cbn [flat_map]. destruct (enc_res_shape r) as (a & b & c & d & e & f & -> & Hr).
    cbn [app dec_ress]. rewrite Hr, IH; [reflexivity|cbn in Hf; lia].
Qed.

Lemma dec_enc_obs o : dec_obs (enc_obs o) = o.
Proof.
  destruct o as [p rs]. unfold dec_obs, enc_obs. cbn [fst snd].
  change (enc_res p ++ flat_map enc_res rs) with (flat_map enc_res (p :: rs)).
  rewrite dec_ress_enc; [reflexivity|].
  rewrite flat_enc_length. cbn [length]. lia.
Qed.

Lemma enc_obs_sized g cs : well_sized (length cs) (enc_obs (run g cs)) = true.
Proof.
  unfold well_sized, enc_obs, run. cbn [fst snd].
  rewrite app_length, enc_res_length, flat_enc_length, map_length.
  apply Nat.eqb_eq. lia.
Qed.

Lemma decode_same_but_ratio inp :
  let '(g, gw, _) := decode inp in be g = be gw /\ cfsOn g = cfsOn gw.
Proof.
  unfold decode. destruct inp as [|m [|q [|c [|p [|k [|n t]]]]]]; cbn; auto.
Qed.

Lemma cfg_eq g gw : be g = be gw -> cfsOn g = cfsOn gw -> ratio g = ratio gw -> g = gw.
Proof. destruct g, gw. cbn. now intros -> -> ->. Qed.

(* for EVERY integer input: the model's own observable passes the decision procedure, or the
   failure has one of the recorded shapes *)
Lemma wire_main inp :
  prop_case inp (run_case inp) = 0 \/ In (finding_sig inp (run_case inp)) [1; 2; 3].
Proof.
  unfold prop_case, finding_sig, run_case.
  pose proof (decode_same_but_ratio inp) as Hd.
  destruct (decode inp) as [[g gw] cs]. destruct Hd as [Hbe Hcfs].
  rewrite enc_obs_sized, dec_enc_obs. cbn [negb].
  destruct (prop_code gw cs (run g cs) =? 0) eqn:E0; [left; now apply Z.eqb_eq|right].
  destruct (d10_shape gw cs (run g cs)) eqn:E1; [cbn; auto|].
  destruct (ratio g =? ratio gw) eqn:Er.
  - (* rule up to date: g = gw, so the failure must be D10 *)
    apply Z.eqb_eq in Er. assert (g = gw) by now apply cfg_eq. subst gw.
    destruct (only_d10 g cs) as [H|H]; [apply Z.eqb_neq in E0; contradiction|congruence].
  - destruct (only_d10 g cs) as [H|H].
    + rewrite H. cbn. auto.
    + replace (prop_code g cs (run g cs) =? 0) with false.
      * rewrite H. cbn. auto.
      * unfold d10_shape in H. apply andb_true_iff in H. destruct H as [H _].
        apply andb_true_iff in H. destruct H as [H _]. now apply negb_true_iff in H.
Qed.

(* with every container recorded and the rule up to date the model passes *)
Lemma wire_main_listed inp :
  let '(g, gw, cs) := decode inp in
  forallb listed cs = true -> ratio g = ratio gw -> prop_case inp (run_case inp) = 0.
Proof.
  unfold prop_case, run_case.
  pose proof (decode_same_but_ratio inp) as Hd.
  destruct (decode inp) as [[g gw] cs]. destruct Hd as [Hbe Hcfs]. intros H Hr.
  assert (g = gw) by now apply cfg_eq. subst gw.
  rewrite enc_obs_sized, dec_enc_obs. cbn [negb]. now apply main.
Qed.

(* ---------- the rule ---------- *)

Lemma rule_fresh k : ratio_of_state (rule_after [k]) = configured [k] /\ configured [k] = ratio_of_code k.
Proof.
  unfold rule_after, configured, rule_update, ratio_of_code, parse_code. cbn [fold_left].
  destruct (k =? 0) eqn:E0; [apply Z.eqb_eq in E0; subst k; split; reflexivity|].
  destruct (0 <? k); split; reflexivity.
Qed.

Lemma rule_stale_refuted :
  exists prev k, configured [prev; k] = k /\ 100 < k /\ ratio_of_state (rule_after [prev; k]) = prev /\ prev <> k.
Proof. exists 112, 113. vm_compute. repeat split; congruence. Qed.
