(* C02 — the division does not depend on the order in which the siblings are visited:
   permuting the input list permutes the result, so every name gets the same runtime. *)
From Coq Require Import List ZArith Bool Lia Permutation.
From Verif Require Import C02.Model C02.Spec C02.Proofs_Hamilton C02.Proofs_Iterate C02.Proofs.
Import ListNotations.
Open Scope Z_scope.

Lemma residual_perm T W ns ns' : Permutation ns ns' -> residual T W ns = residual T W ns'.
Proof. intro HP. unfold residual. rewrite (sumZ_map_perm _ _ _ HP). reflexivity. Qed.

(* the sorted candidate list is the same list: sorting under a total order that is
   antisymmetric on distinct names has a unique result *)
Lemma sorted_cand_perm_eq T W ns ns' :
  Permutation ns ns' -> NoDup (map nm ns) -> sorted_cand T W ns = sorted_cand T W ns'.
Proof.
  intros HP Hnd. unfold sorted_cand. apply sort_by_unique.
  - apply rem_leb_total.
  - apply rem_leb_trans.
  - apply rem_leb_antisym. apply NoDup_map_filter, Hnd.
  - apply filter_perm, HP.
Qed.

Lemma winners_perm T W ns ns' :
  Permutation ns ns' -> NoDup (map nm ns) -> winners T W ns = winners T W ns'.
Proof.
  intros HP Hnd. rewrite !winners_eq.
  rewrite (residual_perm T W ns ns' HP), (sorted_cand_perm_eq T W ns ns' HP Hnd). reflexivity.
Qed.

Lemma delta_of_perm T W ns ns' n :
  Permutation ns ns' -> NoDup (map nm ns) -> delta_of T W ns n = delta_of T W ns' n.
Proof. intros HP Hnd. unfold delta_of. rewrite (winners_perm T W ns ns' HP Hnd). reflexivity. Qed.

Lemma nodup_fst es : NoDup (map ename es) -> NoDup (map nm (map fst es)).
Proof. rewrite ename_map. auto. Qed.

Lemma round_es_perm T W es es' :
  Permutation es es' -> NoDup (map ename es) ->
  Permutation (round_es T W es) (round_es T W es').
Proof.
  intros HP Hnd. unfold round_es.
  rewrite (map_ext (fun e => (fst e, snd e + dl T W es' e)) (fun e => (fst e, snd e + dl T W es e))).
  - apply Permutation_map, HP.
  - intro e. unfold dl. f_equal. f_equal. symmetry.
    apply delta_of_perm; [apply Permutation_map, HP|apply nodup_fst, Hnd].
Qed.

Lemma perm_is_nil {A} (a b : list A) : Permutation a b -> is_nil a = is_nil b.
Proof.
  intro HP. destruct a, b; try reflexivity.
  - apply Permutation_nil in HP. discriminate.
  - apply Permutation_sym, Permutation_nil in HP. discriminate.
Qed.

Lemma iterate_perm f : forall T W es es',
  Permutation es es' -> NoDup (map ename es) ->
  Permutation (iterate f T W es) (iterate f T W es').
Proof.
  induction f as [|f IH]; intros T W es es' HP Hnd; [exact HP|].
  rewrite !iterate_S. rewrite <- (perm_is_nil _ _ HP).
  destruct ((W <=? 0) || (T <=? 0) || is_nil es); [exact HP|].
  pose proof (round_es_perm T W es es' HP Hnd) as HR.
  assert (HK : Permutation (keep_of T W es) (keep_of T W es')) by (apply filter_perm, HR).
  assert (HF : Permutation (full_of T W es) (full_of T W es')) by (apply filter_perm, HR).
  assert (Hs : surplus_es T W es = surplus_es T W es').
  { unfold surplus_es. apply sumZ_map_perm, HF. }
  assert (Hw : wsum (keep_of T W es) = wsum (keep_of T W es')).
  { unfold wsum. apply sumZ_map_perm, HK. }
  rewrite <- Hs, <- Hw, <- (perm_is_nil _ _ HK).
  destruct ((0 <? surplus_es T W es) && negb (is_nil (keep_of T W es))).
  - apply Permutation_app; [apply Permutation_map, HF|].
    apply IH; [exact HK|]. unfold keep_of. apply NoDup_map_filter. rewrite round_ename. exact Hnd.
  - apply Permutation_app; [apply Permutation_map, HF|exact HK].
Qed.

Lemma redistribution_perm total ns ns' :
  Permutation ns ns' -> NoDup (map nm ns) ->
  Permutation (redistribution total ns) (redistribution total ns').
Proof.
  intros HP Hnd. rewrite !redistribution_eq.
  assert (HI : Permutation (init_es ns) (init_es ns')) by (apply Permutation_map, HP).
  assert (HA : Permutation (adj_es ns) (adj_es ns')) by (apply filter_perm, HI).
  assert (HR : Permutation (rest_es ns) (rest_es ns')) by (apply filter_perm, HI).
  assert (Ht : to_part total ns = to_part total ns').
  { unfold to_part. rewrite (sumZ_map_perm snd _ _ HI). reflexivity. }
  assert (Hw : wsum (adj_es ns) = wsum (adj_es ns')).
  { unfold wsum. apply sumZ_map_perm, HA. }
  rewrite <- Ht, <- Hw, <- (Permutation_length HA).
  destruct (0 <? to_part total ns); [|exact HI].
  apply Permutation_app; [exact HR|]. apply iterate_perm; [exact HA|].
  unfold adj_es. apply NoDup_map_filter. rewrite init_ename. exact Hnd.
Qed.

(* ---------- lookups are invariant under permutation of a list with distinct names ---------- *)
Lemma runtime_of_Some k es r :
  runtime_of k es = Some r -> exists e, In e es /\ ename e = k /\ snd e = r.
Proof.
  induction es as [|e es IH]; [discriminate|].
  cbn [runtime_of]. destruct (nm (fst e) =? k) eqn:E.
  - intro H. inversion H. apply Z.eqb_eq in E. exists e. cbn; auto.
  - intro H. destruct (IH H) as [x [Hx Hr]]. exists x. cbn; auto.
Qed.

Lemma runtime_of_None k es : runtime_of k es = None -> ~ In k (map ename es).
Proof.
  induction es as [|e es IH]; [intros _ []|].
  cbn [runtime_of]. destruct (nm (fst e) =? k) eqn:E; [discriminate|].
  apply Z.eqb_neq in E. intros H [Hin|Hin]; [exact (E Hin)|exact (IH H Hin)].
Qed.

Lemma runtime_of_perm k es es' :
  Permutation es es' -> NoDup (map ename es) -> runtime_of k es' = runtime_of k es.
Proof.
  intros HP Hnd.
  assert (Hnd' : NoDup (map ename es')) by (eapply NoDup_map_perm; eassumption).
  destruct (runtime_of k es) as [r|] eqn:E.
  - apply runtime_of_Some in E. destruct E as [e [He [Hk Hr]]]. subst k r.
    unfold ename. apply runtime_of_In; [exact Hnd'|].
    rewrite <- surjective_pairing. eapply Permutation_in; eassumption.
  - apply runtime_of_None in E. destruct (runtime_of k es') as [r|] eqn:E'; [|reflexivity].
    exfalso. apply E. apply runtime_of_Some in E'. destruct E' as [e [He [Hk _]]]. subst k.
    apply in_map. eapply Permutation_in; [apply Permutation_sym, HP|exact He].
Qed.

Lemma perm_invariant total ns ns' :
  Permutation ns ns' -> NoDup (map nm ns) ->
  forall k, runtime_of k (redistribution total ns') = runtime_of k (redistribution total ns).
Proof.
  intros HP Hnd k. apply runtime_of_perm.
  - apply redistribution_perm; assumption.
  - apply redistribution_nodup, Hnd.
Qed.

(* the observable of any re-ordered run (in particular the harness's second run, on the
   reversed insertion order) is the same list *)
Lemma perm_same_obs total ns ns' :
  Permutation ns ns' -> NoDup (map nm ns) ->
  obs_of ns (redistribution total ns') = obs_of ns (redistribution total ns).
Proof.
  intros HP Hnd. unfold obs_of. apply map_ext. intro k.
  rewrite (perm_invariant total ns ns' HP Hnd k). reflexivity.
Qed.

Lemma rev_same_obs total ns :
  NoDup (map nm ns) ->
  obs_of ns (redistribution total (rev ns)) = obs_of ns (redistribution total ns).
Proof. intro Hnd. apply perm_same_obs; [apply Permutation_rev|exact Hnd]. Qed.
