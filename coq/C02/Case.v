(* C02 — the flat-integer case interface run by the generic driver: wire decoding, the model
   observable [run_case] and the decision [prop_case] on an observable.  No proofs here;
   Extract.v extracts these definitions unchanged, Proofs_Case.v proves them consistent. *)
From Coq Require Import List ZArith Bool.
From Verif Require Import C02.Model C02.Spec.
Import ListNotations.
Open Scope Z_scope.

(* input wire format:  total k  then k records  name request weight min guarantee lend  (insertion order)
   observable wire format: k runtimes in ascending order of name rank 1..k, for each of two runs *)
Fixpoint decode_nodes (k : nat) (l : list Z) : list node :=
  match k, l with
  | S k', a :: b :: c :: d :: e :: f :: t =>
      mkNode a b c d e (negb (f =? 0)) :: decode_nodes k' t
  | _, _ => []
  end.

Definition decode (inp : list Z) : Z * list node :=
  match inp with
  | total :: k :: t => (total, decode_nodes (Z.to_nat k) t)
  | _ => (0, [])
  end.

(* the observable carries two runs of the implementation (second one: fresh tree, reverse
   insertion order, another random map iteration order) *)
Definition run_case (inp : list Z) : list Z :=
  let '(total, ns) := decode inp in
  obs_of ns (redistribution total ns) ++ obs_of ns (redistribution total (rev ns)).

Fixpoint eq_listZ (a b : list Z) : bool :=
  match a, b with
  | [], [] => true
  | x :: a', y :: b' => (x =? y) && eq_listZ a' b'
  | _, _ => false
  end.

(* property decision on the implementation's observable; 0 = holds, otherwise clause number
   (6 = the two runs differ: the division depends on iteration order) *)
Definition prop_case (inp obs : list Z) : Z :=
  let '(total, ns) := decode inp in
  let k := length ns in
  let o1 := firstn k obs in let o2 := skipn k obs in
  if negb (eq_listZ o1 o2) then 6 else prop_code total ns o1.

Definition nontrivial_case (inp : list Z) : bool :=
  let '(total, ns) := decode inp in
  (1 <? Z.of_nat (length ns)) && existsb needs_adjust ns
  && (sumZ (map init_runtime ns) <? total).

Definition finding_sig (inp obs : list Z) : Z := 0.
