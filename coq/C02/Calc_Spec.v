(* C02 / calculator — specification side of the "calculator" stream.
   The CURRENT figures of every child are recomputed from the op history alone ([cur_step]: no
   tree, no cache, no version stamp); the C02 clauses (C02.Spec.prop_code) are then decided on the
   runtimes the IMPLEMENTATION logged after every op against nodes built from scratch from those
   figures.  A cached figure that went stale inside the calculator therefore shows up as a failing
   clause (ids 21..29, distinct from the redistribution stream's 1..9), not merely as a
   correspondence mismatch. *)
From Coq Require Import List ZArith Bool.
From Verif Require Import Lib.Wire C02.Model C02.Spec C02.Calc_Model.
Import ListNotations.
Open Scope Z_scope.

(* ---------- current figures, from the history only ---------- *)
Record fig := mkF { f_max : Z; f_req : Z; f_min : Z; f_weight : Z; f_guar : Z; f_lend : bool }.
Notation figs := (list (Z * fig)).
Record cur := mkCur { cu_total : Z; cu_figs : figs }.
Definition cur0 : cur := mkCur 0 [].

Fixpoint figs_find (k : Z) (fs : figs) : option fig :=
  match fs with
  | [] => None
  | p :: t => if fst p =? k then Some (snd p) else figs_find k t
  end.
Definition figs_upd (k : Z) (g : fig -> fig) (fs : figs) : figs :=
  map (fun p => if fst p =? k then (fst p, g (snd p)) else p) fs.
Definition figs_del (k : Z) (fs : figs) : figs := filter (fun p => negb (fst p =? k)) fs.
Definition live (k : Z) (fs : figs) : bool := match figs_find k fs with Some _ => true | None => false end.

Definition cur_upd (cu : cur) (k : Z) (g : fig -> fig) : cur :=
  if live k (cu_figs cu) then mkCur (cu_total cu) (figs_upd k g (cu_figs cu)) else cu.

Definition cur_step (cu : cur) (o : op) : cur :=
  match o with
  | OCreate k l mx =>
      if live k (cu_figs cu) then cu else mkCur (cu_total cu) (cu_figs cu ++ [(k, mkF mx 0 0 0 0 l)])
  | OSetMax k v => cur_upd cu k (fun f => mkF v (f_req f) (f_min f) (f_weight f) (f_guar f) (f_lend f))
  | OSetMin k v => cur_upd cu k (fun f => mkF (f_max f) (f_req f) v (f_weight f) (f_guar f) (f_lend f))
  | OSetWeight k v => cur_upd cu k (fun f => mkF (f_max f) (f_req f) (f_min f) v (f_guar f) (f_lend f))
  | OSetReq k v => cur_upd cu k (fun f => mkF (f_max f) v (f_min f) (f_weight f) (f_guar f) (f_lend f))
  | OSetGuar k v => cur_upd cu k (fun f => mkF (f_max f) (f_req f) (f_min f) (f_weight f) v (f_lend f))
  | ODelete k => if live k (cu_figs cu) then mkCur (cu_total cu) (figs_del k (cu_figs cu)) else cu
  | OSetTotal t => mkCur t (cu_figs cu)
  | ONoop => cu
  end.

(* the sibling a child IS, from scratch: request limited by max *)
Definition fig_node (k : Z) (f : fig) : node :=
  mkNode k (Z.min (f_req f) (f_max f)) (f_weight f) (f_min f) (f_guar f) (f_lend f).
(* a slot without a live child: asks for nothing, is owed nothing *)
Definition zero_node (k : Z) : node := mkNode k 0 0 0 0 true.

(* the siblings of the slots 1..K in slot order (so names are exactly 1..K) *)
Definition pad (K : nat) (fs : figs) : list node :=
  map (fun k => match figs_find k fs with Some f => fig_node k f | None => zero_node k end) (ids K).

(* ---------- one logged step ---------- *)
(* a slot without a live child must be logged as -1; it then counts as runtime 0 *)
Definition marks_ok (K : nat) (fs : figs) (o : list Z) : bool :=
  forallb (fun p => live (fst p) fs || (snd p =? -1)) (combine (ids K) o).
Definition clean (K : nat) (fs : figs) (o : list Z) : list Z :=
  map (fun p => if live (fst p) fs then snd p else 0) (combine (ids K) o).

Definition step_code (K : nat) (cu : cur) (o : list Z) : Z :=
  if negb (Nat.eqb (length o) K) then 29
  else if negb (marks_ok K (cu_figs cu) o) then 28
  else let c := prop_code (cu_total cu) (pad K (cu_figs cu)) (clean K (cu_figs cu) o) in
       if c =? 0 then 0 else 20 + c.

(* ---------- purity: equal current inputs, equal division ---------- *)
Definition node_eqb (a b : node) : bool :=
  (nm a =? nm b) && (request a =? request b) && (weight a =? weight b) && (qmin a =? qmin b)
  && (guarantee a =? guarantee b) && Bool.eqb (lend a) (lend b).
Fixpoint nodes_eqb (a b : list node) : bool :=
  match a, b with
  | [], [] => true
  | x :: a', y :: b' => node_eqb x y && nodes_eqb a' b'
  | _, _ => false
  end.
Fixpoint eq_lz (a b : list Z) : bool :=
  match a, b with
  | [], [] => true
  | x :: a', y :: b' => (x =? y) && eq_lz a' b'
  | _, _ => false
  end.

Notation seen := (list (Z * list node * list Z)).
(* an earlier step with the same total and the same siblings must have logged the same runtimes
   (compared after [clean]: a dead slot and a live all-zero lending child are the same sibling) *)
Definition pure_ok (t : Z) (ns : list node) (o : list Z) (s : seen) : bool :=
  forallb (fun e => let '(t', ns', o') := e in
                    negb ((t' =? t) && nodes_eqb ns' ns) || eq_lz o' o) s.

(* walk the history: figures from the ops, runtimes from the observable (K per op) *)
Fixpoint check_steps (K : nat) (cu : cur) (s : seen) (ops : list op) (obs : list Z) : Z :=
  match ops with
  | [] => if is_nil obs then 0 else 29
  | o :: t =>
      let cu' := cur_step cu o in
      let oi := firstn K obs in
      let c := step_code K cu' oi in
      if negb (c =? 0) then c
      else let ns := pad K (cu_figs cu') in
           if negb (pure_ok (cu_total cu') ns (clean K (cu_figs cu') oi) s) then 26
           else check_steps K cu' ((cu_total cu', ns, clean K (cu_figs cu') oi) :: s) t (skipn K obs)
  end.

(* ---------- well-formed histories ----------
   The calling discipline itself (figure changed, then the matching call; need… before the two
   guarded updates) is built into [Calc_Model.step]; what remains is that children are named
   within the K slots that are observed, and that shared weights are not negative. *)
Definition op_ok (K : nat) (o : op) : bool :=
  match o with
  | OCreate k _ _ => (1 <=? k) && (k <=? Z.of_nat K)
  | OSetWeight _ v => 0 <=? v
  | _ => true
  end.
Definition wf_ops (K : nat) (ops : list op) : bool := forallb (op_ok K) ops.

(* ---------- wire format ----------
   input:  K n  then n records  code k a b
           code 0 create(k, lend=a, max=b)  1 max(k,a)  2 min(k,a)  3 weight(k,a)  4 request(k,a)
                5 guarantee(k,a)  6 delete(k)  7 total(a)  8 observe only
   observable: after every op the K runtimes of the slots 1..K (-1: no live child) *)
Definition decode_op (c k a b : Z) : op :=
  if c =? 0 then OCreate k (zb a) b
  else if c =? 1 then OSetMax k a
  else if c =? 2 then OSetMin k a
  else if c =? 3 then OSetWeight k a
  else if c =? 4 then OSetReq k a
  else if c =? 5 then OSetGuar k a
  else if c =? 6 then ODelete k
  else if c =? 7 then OSetTotal a
  else ONoop.

Fixpoint decode_ops (n : nat) (l : list Z) : list op :=
  match n, l with
  | S n', c :: k :: a :: b :: t => decode_op c k a b :: decode_ops n' t
  | _, _ => []
  end.

Definition calc_decode (inp : list Z) : nat * list op :=
  match inp with
  | K :: n :: t => (Z.to_nat K, decode_ops (Z.to_nat n) t)
  | _ => (O, [])
  end.

Definition calc_run_case (inp : list Z) : list Z :=
  let '(K, ops)   := calc_decode inp in run_obs K world0 ops.

Definition calc_prop_case (inp obs : list Z) : Z :=
  let '(K, ops)   := calc_decode inp in check_steps K cur0 [] ops obs.

(* non-trivial: at some step at least two live children compete (one asks for more than its
   effective minimum and capacity is left after the minimums) *)
Fixpoint contended (K : nat) (cu : cur) (ops : list op) : bool :=
  match ops with
  | [] => false
  | o :: t =>
      let cu' := cur_step cu o in
      let ns := pad K (cu_figs cu') in
      ((1 <? Z.of_nat (length (cu_figs cu'))) && existsb needs_adjust ns
       && (sumZ (map init_runtime ns) <? cu_total cu'))
      || contended K cu' t
  end.

Definition calc_nontrivial_case (inp : list Z) : bool :=
  let '(K, ops)   := calc_decode inp in contended K cur0 ops.

Definition calc_finding_sig (inp obs : list Z) : Z := 0.
