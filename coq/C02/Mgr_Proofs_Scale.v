(* C02 / manager — min-quota scaling on (EnableMinQuotaScale): after RefreshRuntime(k) the
   AutoScaleMin the parent's calculator holds for k is getScaledMinQuota of the total handed to k's
   level and the DECLARED mins of k's siblings; in particular, whenever the declared mins fit in that
   total, it is k's declared min. *)
From Coq Require Import List ZArith Bool Lia Permutation.
From Verif Require Import C02.Model C02.Calc_Model C02.Calc_Proofs_Inv C02.Calc_Proofs_Run
  C02.Mgr_Model C02.Mgr_Proofs_Base C02.Mgr_Proofs_Inv C02.Mgr_Proofs_Step.
Import ListNotations.
Open Scope Z_scope.

(* what a refresh never changes: who is whose child, and the declared mins *)
Definition decl (st : mgr) : list (Z * (Z * Z)) :=
  map (fun e => (fst e, (m_parent (snd e), m_min (snd e)))) (g_quotas st).
Definition same_decl (a b : mgr) : Prop := decl a = decl b.

Lemma esum_decl p st :
  esum p st = sumZ (map (fun x => snd (snd x)) (filter (fun x => fst (snd x) =? p) (decl st))).
Proof.
  unfold esum, decl. induction (g_quotas st) as [|e l IH]; [reflexivity|].
  cbn [map filter fst snd]. destruct (m_parent (snd e) =? p); cbn [map snd]; rewrite ?sumZ_cons, IH; reflexivity.
Qed.

Lemma afind_decl j st :
  afind j (decl st) = option_map (fun mq => (m_parent mq, m_min mq)) (afind j (g_quotas st)).
Proof.
  unfold decl. induction (g_quotas st) as [|e l IH]; [reflexivity|].
  cbn [map afind fst snd]. destruct (fst e =? j); [reflexivity|exact IH].
Qed.

Lemma same_decl_esum a b p : same_decl a b -> esum p a = esum p b.
Proof. intro H. rewrite !esum_decl, H. reflexivity. Qed.

Lemma same_decl_parent a b j :
  same_decl a b -> option_map m_parent (afind j (g_quotas a)) = option_map m_parent (afind j (g_quotas b)).
Proof.
  intro H. pose proof (afind_decl j a) as Ha. pose proof (afind_decl j b) as Hb. rewrite H in Ha.
  rewrite Hb in Ha. destruct (afind j (g_quotas a)), (afind j (g_quotas b)); cbn in *; congruence.
Qed.

Lemma same_decl_min a b j mqa mqb :
  same_decl a b -> afind j (g_quotas a) = Some mqa -> afind j (g_quotas b) = Some mqb ->
  m_parent mqa = m_parent mqb /\ m_min mqa = m_min mqb.
Proof.
  intros H Ha Hb. pose proof (afind_decl j a) as Ea. pose proof (afind_decl j b) as Eb.
  rewrite H, Eb, Ha, Hb in Ea. cbn in Ea. inversion Ea. auto.
Qed.

Lemma decl_set_quota st k mq mq' :
  minv st -> afind k (g_quotas st) = Some mq -> m_parent mq' = m_parent mq -> m_min mq' = m_min mq ->
  same_decl st (set_quota k mq' st).
Proof.
  intros Hi Hf Hp Hm. unfold same_decl, decl. cbn [set_quota remake g_quotas].
  rewrite (aset_live k mq' mq) by exact Hf. unfold repl. rewrite map_map.
  apply map_ext_in. intros e He. destruct (fst e =? k) eqn:E; [|reflexivity].
  apply Z.eqb_eq in E. cbn [fst snd]. rewrite (live_unique st k mq e Hi Hf He E), Hp, Hm, E. reflexivity.
Qed.

Lemma same_decl_chain a b pth : forall par, same_decl a b -> chain par pth a -> chain par pth b.
Proof.
  induction pth as [|j rest IH]; intros par H Hc; [exact I|].
  cbn [chain] in *. destruct Hc as [H1 H2]. split; [rewrite <- (same_decl_parent a b j H); exact H1|].
  apply IH; assumption.
Qed.

Lemma get_scaled_fit hk T E m : E <= T -> get_scaled hk T E m = m.
Proof.
  intro H. unfold get_scaled. destruct (T <? E) eqn:X; [apply Z.ltb_lt in X; lia|].
  rewrite andb_false_r. reflexivity.
Qed.

(* the handed-down key flag at the last level of a path *)
Definition last_hk (pth : list Z) (hk : bool) : bool := match pth with [_] => hk | _ => true end.

Lemma scale_level_spec st j mq T hk :
  minv st -> afind j (g_quotas st) = Some mq ->
  let sta := scale_level true j T hk st in
  same_decl st sta
  /\ (forall p, c_total (get_calc p sta) = c_total (get_calc p st))
  /\ exists mqa, afind j (g_quotas sta) = Some mqa
       /\ q_min (m_info mqa) = get_scaled hk T (esum (m_parent mq) st) (m_min mq).
Proof.
  intros Hi Hf. unfold scale_level. rewrite Hf. cbv zeta.
  set (nm := get_scaled hk T (esum (m_parent mq) st) (m_min mq)).
  destruct (q_min (m_info mq) =? nm) eqn:E; cbn [andb negb].
  - apply Z.eqb_eq in E. split; [reflexivity|]. split; [reflexivity|]. exists mq. auto.
  - set (q1 := q_set_min nm (m_info mq)). split; [|split].
    + apply (decl_set_quota st j mq); try assumption; reflexivity.
    + intro p. rewrite get_calc_upd, get_calc_set_quota.
      destruct (m_parent mq =? p) eqn:Ep; [|reflexivity].
      apply Z.eqb_eq in Ep. subst p. reflexivity.
    + exists (with_info mq q1). split; [|reflexivity].
      cbn [upd_calc set_calc set_quota remake g_quotas]. rewrite afind_aset, Z.eqb_refl. reflexivity.
Qed.

Lemma refresh_q_min k q c : q_min (updateOneGroupRuntimeQuota k q c) = q_min q.
Proof. unfold updateOneGroupRuntimeQuota. destruct (q_rver q =? c_version c); reflexivity. Qed.

Lemma refresh_down_min pth : forall T hk st par,
  minv st -> chain par pth st -> c_total (get_calc par st) = T -> pth <> [] ->
  let st' := refresh_down true pth T hk st in
  same_decl st st'
  /\ exists mq', afind (last pth 0) (g_quotas st') = Some mq'
       /\ q_min (m_info mq')
          = get_scaled (last_hk pth hk) (c_total (get_calc (m_parent mq') st'))
                       (esum (m_parent mq') st') (m_min mq').
Proof.
  induction pth as [|j rest IH]; intros T hk st par Hi Hch HT Hne; [congruence|].
  cbn [chain] in Hch. destruct Hch as [Hpj Hch].
  destruct (afind j (g_quotas st)) as [mq|] eqn:Hf; [|discriminate].
  cbn [option_map] in Hpj. inversion Hpj as [Hpar].
  cbn [refresh_down]. cbv zeta.
  destruct (scale_level_spec st j mq T hk Hi Hf) as [Hd0 [Ht0 [mqa [Hfa Hqa]]]].
  pose proof (scale_level_inv true j T hk st Hi) as Hia.
  set (sta := scale_level true j T hk st) in *.
  rewrite Hfa. rewrite refresh_guard.
  destruct (same_decl_min st sta j mq mqa Hd0 Hf Hfa) as [Hpa Hma].
  destruct (level_inv sta j mqa Hia Hfa) as [Hi1 [_ [_ Hf1]]].
  set (q' := updateOneGroupRuntimeQuota j (m_info mqa) (get_calc (m_parent mqa) sta)) in *.
  set (st1 := set_quota j (with_info mqa q') sta) in *.
  assert (Hd1 : same_decl st st1).
  { unfold same_decl in *. rewrite Hd0. apply (decl_set_quota sta j mqa); try assumption; reflexivity. }
  destruct rest as [|j2 rest'].
  - cbn [refresh_down]. split; [exact Hd1|]. exists (with_info mqa q'). split; [exact Hf1|].
    cbn [last last_hk with_info m_info m_parent m_min]. unfold q'. rewrite refresh_q_min, Hqa.
    rewrite <- Hpa, Hpar. rewrite (same_decl_esum st st1 par Hd1), Hma.
    f_equal. unfold st1. rewrite get_calc_set_quota, Ht0. symmetry. exact HT.
  - set (st2 := upd_calc j (setClusterTotalResource (q_runtime q')) st1).
    assert (Hi2 : minv st2) by (eapply level_total_inv; eassumption).
    assert (Hd2 : same_decl st st2) by exact Hd1.
    assert (HT2 : c_total (get_calc j st2) = q_runtime q').
    { unfold st2. rewrite get_calc_upd, Z.eqb_refl. reflexivity. }
    destruct (IH (q_runtime q') true st2 j Hi2 (same_decl_chain st st2 _ j Hd2 Hch) HT2 ltac:(discriminate))
      as [Hd3 [mq' [Hl Hq]]].
    split; [unfold same_decl in *; congruence|].
    exists mq'. split; [exact Hl|].
    assert (Hk' : last_hk (j2 :: rest') true = true) by (destruct rest'; reflexivity).
    rewrite Hk' in Hq. exact Hq.
Qed.

(* RefreshRuntime(k) with scaling on, for a path that reaches the root (acyclic trees: C15) *)
Theorem refresh_scaled_min st k mq :
  minv st -> afind k (g_quotas st) = Some mq ->
  top_parent (rev (path k st)) st = 0 ->
  let st' := refresh true k st in
  let hk := last_hk (rev (path k st)) (g_hasTotal st) in
  exists mq', afind k (g_quotas st') = Some mq'
    /\ m_parent mq' = m_parent mq /\ m_min mq' = m_min mq
    /\ let T := c_total (get_calc (m_parent mq) st') in
       let E := esum (m_parent mq) st' in
       E = esum (m_parent mq) st
       /\ q_min (m_info mq') = get_scaled hk T E (m_min mq)
       /\ (E <= T -> q_min (m_info mq') = m_min mq).
Proof.
  intros Hi Hf Htop st' hk. unfold st', refresh.
  destruct (path_chain (S (length (g_quotas st))) k st) as [Hc Hl]. fold (path k st) in Hc, Hl.
  assert (Hk0 : k <> 0) by (intro E; subst k; rewrite (mi_noroot st Hi) in Hf; discriminate).
  assert (Hne : path k st <> []).
  { unfold path. cbn [path_of]. destruct (k =? 0) eqn:E; [apply Z.eqb_eq in E; congruence|].
    rewrite Hf. discriminate. }
  assert (Hpne : rev (path k st) <> []).
  { intro E. apply Hne. apply (f_equal (@rev Z)) in E. rewrite rev_involutive in E. exact E. }
  rewrite Htop in Hc.
  destruct (refresh_down_min (rev (path k st)) (g_total st) (g_hasTotal st) st 0 Hi Hc
              (mi_root_total st Hi) Hpne) as [Hd [mq' [H1 H2]]].
  rewrite (Hl Hne) in H1.
  destruct (same_decl_min _ _ k mq mq' Hd Hf H1) as [Hp Hm].
  exists mq'. split; [exact H1|]. split; [congruence|]. split; [congruence|].
  cbv zeta. rewrite <- Hp in H2. rewrite <- Hm in H2. fold hk in H2.
  split; [symmetry; apply same_decl_esum, Hd|]. split; [exact H2|].
  intro Hle. rewrite H2. unfold get_scaled.
  destruct (_ <? _) eqn:E; [apply Z.ltb_lt in E; lia|]. rewrite andb_false_r. reflexivity.
Qed.

(* after any history *)
Lemma mgr_refresh_scaled_min K ops k mq :
  let st := mrun true K ops in
  afind k (g_quotas st) = Some mq ->
  top_parent (rev (path k st)) st = 0 ->
  let st' := refresh true k st in
  let hk := last_hk (rev (path k st)) (g_hasTotal st) in
  exists mq', afind k (g_quotas st') = Some mq'
    /\ m_parent mq' = m_parent mq /\ m_min mq' = m_min mq
    /\ let T := c_total (get_calc (m_parent mq) st') in
       let E := esum (m_parent mq) st' in
       E = esum (m_parent mq) st
       /\ q_min (m_info mq') = get_scaled hk T E (m_min mq)
       /\ (E <= T -> q_min (m_info mq') = m_min mq).
Proof. intros st Hf Ht. apply refresh_scaled_min; [apply mrun_inv|exact Hf|exact Ht]. Qed.
