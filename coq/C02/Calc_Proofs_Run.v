(* C02 / calculator — history independence: after ANY history the runtime the calculator reports
   for a child is the one [redistribution] computes from the children's CURRENT figures, which are
   a function of the op history alone ([cur_step], Calc_Spec.v). *)
From Coq Require Import List ZArith Bool Lia Permutation.
From Verif Require Import C02.Model C02.Spec C02.Proofs_Iterate C02.Proofs C02.Proofs_Perm
  C02.Calc_Model C02.Calc_Spec C02.Calc_Proofs_Inv.
Import ListNotations.
Open Scope Z_scope.

(* every sibling handed to [redistribution] has a runtime in the result *)
Lemma named_has_runtime total ns k :
  In k (map nm ns) -> exists r, runtime_of k (redistribution total ns) = Some r.
Proof.
  intro Hin. destruct (runtime_of k (redistribution total ns)) as [r|] eqn:E; [eauto|].
  exfalso. apply runtime_of_None in E. apply E. rewrite ename_map.
  eapply Permutation_in; [|exact Hin].
  apply Permutation_map, Permutation_sym, redistribution_fst_perm.
Qed.

(* ---------- the observation (refresh of every live child) ---------- *)
Definition refreshed (c : calc) (tb : table) : table :=
  map (fun p => (fst p, updateOneGroupRuntimeQuota (fst p) (snd p) c)) tb.

Lemma observe_eq w : observe w = mkW (w_calc w) (refreshed (w_calc w) (w_tab w)).
Proof. reflexivity. Qed.

Lemma refresh_node k q c : node_of k (updateOneGroupRuntimeQuota k q c) = node_of k q.
Proof. unfold updateOneGroupRuntimeQuota. destruct (q_rver q =? c_version c); reflexivity. Qed.

Lemma refreshed_keys c tb : map fst (refreshed c tb) = map fst tb.
Proof. unfold refreshed. rewrite map_map. reflexivity. Qed.

Lemma refreshed_abs c tb : abs (refreshed c tb) = abs tb.
Proof.
  unfold abs, refreshed. rewrite map_map. apply map_ext. intro p. cbn [fst snd].
  apply refresh_node.
Qed.

Lemma refreshed_find c k tb :
  tab_find k (refreshed c tb) = option_map (fun q => updateOneGroupRuntimeQuota k q c) (tab_find k tb).
Proof.
  induction tb as [|p tb IH]; [reflexivity|].
  cbn [refreshed map tab_find fst snd]. fold (refreshed c tb).
  destruct (fst p =? k) eqn:E; [|exact IH].
  apply Z.eqb_eq in E. rewrite E. reflexivity.
Qed.

(* all stamps current, all cached runtimes the calculator's *)
Definition fresh (w : world) : Prop :=
  forall k q, tab_find k (w_tab w) = Some q ->
    runtime_of k (calculateRuntime (w_calc w)) = Some (q_runtime q).

Lemma observe_inv w : calc_inv w -> calc_inv (observe w) /\ fresh (observe w).
Proof.
  intro Hi. rewrite observe_eq.
  assert (Hver : forall k q, tab_find k (refreshed (w_calc w) (w_tab w)) = Some q ->
            q_rver q = c_version (w_calc w)
            /\ runtime_of k (calculateRuntime (w_calc w)) = Some (q_runtime q)).
  { intros k q' Hf. rewrite refreshed_find in Hf.
    destruct (tab_find k (w_tab w)) as [q|] eqn:E; [|discriminate]. cbn in Hf. inversion Hf as [Hq].
    unfold updateOneGroupRuntimeQuota. destruct (q_rver q =? c_version (w_calc w)) eqn:Ev.
    - apply Z.eqb_eq in Ev. destruct (inv_ver w Hi k q E) as [H|[_ H]]; [lia|]. auto.
    - cbn [q_rver q_runtime]. split; [reflexivity|].
      destruct (named_has_runtime (c_total (w_calc w)) (c_tree (w_calc w)) k) as [r Hr].
      + rewrite (inv_tree w Hi), abs_keys. apply tab_find_In in E.
        change k with (fst (k, q)). apply in_map, E.
      + unfold calculateRuntime. rewrite Hr. reflexivity. }
  split.
  - constructor; cbn [w_calc w_tab].
    + rewrite refreshed_keys. apply (inv_nodup w Hi).
    + rewrite refreshed_abs. apply (inv_tree w Hi).
    + intro k. rewrite refreshed_find, (inv_req w Hi k).
      destruct (tab_find k (w_tab w)) as [q|]; [|reflexivity]. cbn.
      unfold updateOneGroupRuntimeQuota. destruct (q_rver q =? _); reflexivity.
    + intro k. rewrite refreshed_find, (inv_guar w Hi k).
      destruct (tab_find k (w_tab w)) as [q|]; [|reflexivity]. cbn.
      unfold updateOneGroupRuntimeQuota. destruct (q_rver q =? _); reflexivity.
    + apply (inv_pos w Hi).
    + intros k q Hf. right. apply Hver, Hf.
  - intros k q Hf. cbn [w_calc w_tab] in *. apply Hver, Hf.
Qed.

Lemma world0_inv : calc_inv world0.
Proof.
  constructor; cbn.
  - constructor.
  - reflexivity.
  - intro; reflexivity.
  - intro; reflexivity.
  - lia.
  - intros; discriminate.
Qed.

Lemma ostep_inv w o : calc_inv w -> calc_inv (ostep w o) /\ fresh (ostep w o).
Proof. intro Hi. apply observe_inv, step_inv, Hi. Qed.

Lemma fold_inv ops : forall w, calc_inv w -> fresh w ->
  calc_inv (fold_left ostep ops w) /\ fresh (fold_left ostep ops w).
Proof.
  induction ops as [|o ops IH]; intros w Hi Hf; [auto|].
  cbn [fold_left]. destruct (ostep_inv w o Hi). apply IH; assumption.
Qed.

Lemma run_inv ops : calc_inv (run ops) /\ fresh (run ops).
Proof. apply fold_inv; [apply world0_inv|]. intros k q H. discriminate. Qed.

(* ---------- the calculator's table carries exactly the history's current figures ---------- *)
Definition fig_of (q : qinfo) : fig :=
  mkF (q_max q) (q_req q) (q_min q) (q_weight q) (q_guar q) (q_lend q).
Definition figs_of (tb : table) : figs := map (fun p => (fst p, fig_of (snd p))) tb.
Definition sim (w : world) (cu : cur) : Prop :=
  cu_total cu = c_total (w_calc w) /\ cu_figs cu = figs_of (w_tab w).

Definition nodes_of (fs : figs) : list node := map (fun p => fig_node (fst p) (snd p)) fs.

Lemma fig_node_of k q : fig_node k (fig_of q) = node_of k q.
Proof.
  unfold fig_node, node_of, fig_of, limit_req. cbn. f_equal.
  destruct (q_max q <? q_req q) eqn:E; [apply Z.ltb_lt in E|apply Z.ltb_ge in E]; lia.
Qed.

Lemma nodes_of_figs_of tb : nodes_of (figs_of tb) = abs tb.
Proof.
  unfold nodes_of, figs_of, abs. rewrite map_map. apply map_ext. intro p. cbn [fst snd].
  apply fig_node_of.
Qed.

Lemma figs_find_of k tb : figs_find k (figs_of tb) = option_map fig_of (tab_find k tb).
Proof.
  induction tb as [|p tb IH]; [reflexivity|].
  cbn [figs_of map figs_find tab_find fst snd]. fold (figs_of tb).
  destruct (fst p =? k); [reflexivity|exact IH].
Qed.

Lemma live_of k tb : live k (figs_of tb) = match tab_find k tb with Some _ => true | None => false end.
Proof. unfold live. rewrite figs_find_of. destruct (tab_find k tb); reflexivity. Qed.

Lemma figs_upd_of k g g' tb :
  (forall q, fig_of (g q) = g' (fig_of q)) -> figs_upd k g' (figs_of tb) = figs_of (tab_upd k g tb).
Proof.
  intro H. unfold figs_upd, figs_of, tab_upd. rewrite !map_map. apply map_ext. intro p.
  cbn [fst snd]. destruct (fst p =? k); [|reflexivity]. cbn [fst snd]. rewrite H. reflexivity.
Qed.

Lemma figs_del_of k tb : figs_del k (figs_of tb) = figs_of (tab_del k tb).
Proof. unfold figs_del, figs_of, tab_del. rewrite filter_map_comm. reflexivity. Qed.

Lemma on_live_total w k g push :
  (forall q c, c_total (push k q c) = c_total c) ->
  c_total (w_calc (on_live w k g push)) = c_total (w_calc w).
Proof.
  intro H. unfold on_live. destruct (tab_find k (w_tab w)); [|reflexivity]. cbn. apply H.
Qed.

Lemma on_live_tab w k g push :
  w_tab (on_live w k g push) = match tab_find k (w_tab w) with Some _ => tab_upd k g (w_tab w) | None => w_tab w end.
Proof. unfold on_live. destruct (tab_find k (w_tab w)); reflexivity. Qed.

Lemma sim_on_live w cu k g g' push :
  sim w cu ->
  (forall q c, c_total (push k q c) = c_total c) ->
  (forall q, fig_of (g q) = g' (fig_of q)) ->
  sim (on_live w k g push) (cur_upd cu k g').
Proof.
  intros [Ht Hf] Hp Hg. unfold sim, cur_upd. rewrite on_live_total by exact Hp.
  rewrite on_live_tab, Hf, live_of.
  destruct (tab_find k (w_tab w)); cbn [cu_total cu_figs]; [|auto].
  split; [exact Ht|]. apply figs_upd_of, Hg.
Qed.

Lemma sim_step w cu o : sim w cu -> sim (step w o) (cur_step cu o).
Proof.
  intro Hs. destruct o; cbn [step cur_step];
    try (apply sim_on_live; [exact Hs| |reflexivity]; intros q c; try reflexivity).
  - destruct Hs as [Ht Hf]. rewrite Hf, live_of.
    destruct (tab_find k (w_tab w)); [split; assumption|].
    split; cbn; [exact Ht|]. unfold figs_of. rewrite map_app. reflexivity.
  - unfold push_request. destruct (needUpdateOneGroupRequest k q c); reflexivity.
  - unfold push_guaranteed. destruct (needUpdateOneGroupGuaranteed k q c); reflexivity.
  - destruct Hs as [Ht Hf]. rewrite Hf, live_of.
    destruct (tab_find k (w_tab w)); [|split; assumption].
    split; cbn; [exact Ht|]. apply figs_del_of.
  - destruct Hs as [Ht Hf]. split; cbn; [reflexivity|exact Hf].
  - exact Hs.
Qed.

Lemma sim_observe w cu : sim w cu -> sim (observe w) cu.
Proof.
  intros [Ht Hf]. split; [exact Ht|]. rewrite Hf. cbn [observe w_tab].
  unfold figs_of. rewrite map_map. apply map_ext. intro p. cbn [fst snd]. f_equal.
  unfold updateOneGroupRuntimeQuota. destruct (q_rver (snd p) =? _); reflexivity.
Qed.

Definition cur_of (ops : list op) : cur := fold_left cur_step ops cur0.

Lemma fold_sim ops : forall w cu, sim w cu -> sim (fold_left ostep ops w) (fold_left cur_step ops cu).
Proof.
  induction ops as [|o ops IH]; intros w cu Hs; [exact Hs|].
  cbn [fold_left]. apply IH, sim_observe, sim_step, Hs.
Qed.

Lemma run_sim ops : sim (run ops) (cur_of ops).
Proof. apply fold_sim. split; reflexivity. Qed.

(* ---------- history independence ---------- *)
Theorem history_independent ops k :
  let w := run ops in let cu := cur_of ops in
  match tab_find k (w_tab w) with
  | Some q => live k (cu_figs cu) = true
              /\ runtime_of k (redistribution (cu_total cu) (nodes_of (cu_figs cu))) = Some (q_runtime q)
  | None => live k (cu_figs cu) = false
  end.
Proof.
  cbv zeta. destruct (run_inv ops) as [Hi Hf]. destruct (run_sim ops) as [Ht Hfs].
  rewrite Hfs, live_of, nodes_of_figs_of, Ht.
  destruct (tab_find k (w_tab (run ops))) as [q|] eqn:E; [|reflexivity].
  split; [reflexivity|]. rewrite <- (inv_tree _ Hi). apply (Hf k q E).
Qed.

(* the invariant, in terms of the history's current figures *)
Theorem calc_state_agrees ops :
  let c := w_calc (run ops) in let cu := cur_of ops in
  c_tree c = nodes_of (cu_figs cu)
  /\ c_total c = cu_total cu
  /\ NoDup (map fst (cu_figs cu))
  /\ (forall k, c_get k (c_reqLimit c) =
                match figs_find k (cu_figs cu) with Some f => Z.min (f_req f) (f_max f) | None => 0 end)
  /\ (forall k, c_get k (c_guaranteed c) =
                match figs_find k (cu_figs cu) with Some f => f_guar f | None => 0 end).
Proof.
  cbv zeta. destruct (run_inv ops) as [Hi _]. destruct (run_sim ops) as [Ht Hfs].
  rewrite Hfs, nodes_of_figs_of, Ht. repeat split.
  - apply (inv_tree _ Hi).
  - unfold figs_of. rewrite map_map. cbn [fst]. apply (inv_nodup _ Hi).
  - intro k. rewrite (inv_req _ Hi k), figs_find_of.
    destruct (tab_find k (w_tab (run ops))) as [q|]; [|reflexivity]. cbn.
    pose proof (fig_node_of k q) as H. unfold fig_node, node_of in H. inversion H. reflexivity.
  - intro k. rewrite (inv_guar _ Hi k), figs_find_of.
    destruct (tab_find k (w_tab (run ops))) as [q|]; reflexivity.
Qed.
