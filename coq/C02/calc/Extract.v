(* C02 / calculator stream — flat-integer interface for the generic OCaml driver.  The entry
   points and the wire decoding are defined in Calc_Spec.v (where Calc_Proofs*.v reason about
   them); this file only extracts them. *)
From Coq Require Import List ZArith Bool.
From Verif Require Import Lib.Wire C02.Model C02.Spec C02.Calc_Model C02.Calc_Spec.

Definition run_case := calc_run_case.
Definition prop_case := calc_prop_case.
Definition nontrivial_case := calc_nontrivial_case.
Definition finding_sig := calc_finding_sig.

Require Extraction.
Require Import ExtrOcamlBasic.
Extraction "model.ml" run_case prop_case nontrivial_case finding_sig.
