(* C02 / dims — the guarantee equations, abstractly.  What the Allocated -> Guaranteed chain reads of
   one half (one dimension) of the manager is, per quota, its parent, its declared min and its
   Guaranteed ([gview]).  The LOCAL EQUATIONS
       Guaranteed(k) = max(Allocated(k), Min(k))
       Allocated(k)  = (requests of the assigned pods of k) + sum of Guaranteed(c), c child of k
   are the invariant; one level of recursiveUpdateGroupTreeWithDeltaAllocated repairs the equation of
   the quota it visits and breaks the one of its parent by exactly the delta it hands upwards
   ([level_fix]); a walk that reaches the root leaves no equation broken.  Also: the parent chains of the
   model reach the root ([complete]: quotas are created below live parents and never re-parented). *)
From Coq Require Import List ZArith Bool Lia Permutation.
From Verif Require Import C02.Model C02.Calc_Model C02.Calc_Proofs_Inv C02.Mgr_Model C02.Mgr_Proofs_Base.
Import ListNotations.
Open Scope Z_scope.

Record gfig := mkG { gp : Z; gm : Z; gg : Z }.   (* parent, declared min, guaranteed *)
Notation gv := (list (Z * gfig)).

Definition gfig_of (mq : mquota) : gfig := mkG (m_parent mq) (m_min mq) (q_guar (m_info mq)).
Definition gview (s : mgr) : gv := map (fun e => (fst e, gfig_of (snd e))) (g_quotas s).

Lemma afind_map_snd {A B} (f : A -> B) k (l : list (Z * A)) :
  afind k (map (fun e => (fst e, f (snd e))) l) = option_map f (afind k l).
Proof.
  induction l as [|e l IH]; [reflexivity|]. cbn [map afind fst snd].
  destruct (fst e =? k); [reflexivity|exact IH].
Qed.

Lemma afind_gview k s : afind k (gview s) = option_map gfig_of (afind k (g_quotas s)).
Proof. apply afind_map_snd. Qed.

Lemma keys_map_snd {A B} (f : A -> B) (l : list (Z * A)) : map fst (map (fun e => (fst e, f (snd e))) l) = map fst l.
Proof. rewrite map_map. reflexivity. Qed.

Lemma gview_keys s : map fst (gview s) = map fst (g_quotas s).
Proof. apply keys_map_snd. Qed.

Lemma repl_map_snd {A B} (f : A -> B) k (x : A) (l : list (Z * A)) :
  map (fun e => (fst e, f (snd e))) (repl k x l) = repl k (f x) (map (fun e => (fst e, f (snd e))) l).
Proof.
  unfold repl. rewrite !map_map. apply map_ext. intro e. cbn [fst snd].
  destruct (fst e =? k); reflexivity.
Qed.

Lemma adel_map_snd {A B} (f : A -> B) k (l : list (Z * A)) :
  map (fun e => (fst e, f (snd e))) (adel k l) = adel k (map (fun e => (fst e, f (snd e))) l).
Proof.
  unfold adel. induction l as [|e l IH]; [reflexivity|]. cbn [filter map fst snd].
  destruct (fst e =? k); cbn [negb]; [exact IH|]. cbn [map]. rewrite IH. reflexivity.
Qed.

(* ---------- the children's guarantees ---------- *)
Definition kid_guar (k : Z) (v : gv) : Z :=
  sumZ (map (fun e => gg (snd e)) (filter (fun e => gp (snd e) =? k) v)).

Lemma kid_guar_app x v k f :
  kid_guar x (v ++ [(k, f)]) = kid_guar x v + (if gp f =? x then gg f else 0).
Proof.
  unfold kid_guar. rewrite filter_app, map_app, sumZ_app. cbn [filter snd].
  destruct (gp f =? x); cbn; lia.
Qed.

Lemma repl_absent' {A} k (x : A) l : ~ In k (map fst l) -> repl k x l = l.
Proof.
  intro H. unfold repl. rewrite <- (map_id l) at 2. apply map_ext_in. intros p Hp.
  destruct (fst p =? k) eqn:E; [|reflexivity].
  apply Z.eqb_eq in E. exfalso. apply H. rewrite <- E. apply in_map, Hp.
Qed.

Lemma kid_guar_repl x v j f f' :
  NoDup (map fst v) -> afind j v = Some f -> gp f' = gp f ->
  kid_guar x (repl j f' v) = kid_guar x v + (if gp f =? x then gg f' - gg f else 0).
Proof.
  induction v as [|e v IH]; intros Hnd Hf Hp; [discriminate|].
  cbn [map] in Hnd. inversion Hnd as [|? ? Hnin Hnd']; subst.
  cbn [afind] in Hf. unfold repl. cbn [map]. fold (repl j f' v).
  destruct (fst e =? j) eqn:E.
  - inversion Hf; subst f. apply Z.eqb_eq in E.
    rewrite repl_absent' by (rewrite <- E; exact Hnin).
    unfold kid_guar. cbn [filter snd]. rewrite Hp.
    destruct (gp (snd e) =? x); cbn [map snd]; rewrite ?sumZ_cons; lia.
  - specialize (IH Hnd' Hf Hp). unfold kid_guar in *. cbn [filter].
    destruct (gp (snd e) =? x); cbn [map]; rewrite ?sumZ_cons; lia.
Qed.

Lemma adel_absent {A} k (l : list (Z * A)) : ~ In k (map fst l) -> adel k l = l.
Proof.
  intro H. unfold adel. apply filter_all_true. intros p Hp.
  destruct (fst p =? k) eqn:E; [|reflexivity].
  apply Z.eqb_eq in E. exfalso. apply H. rewrite <- E. apply in_map, Hp.
Qed.

Lemma kid_guar_adel x v j f :
  NoDup (map fst v) -> afind j v = Some f ->
  kid_guar x (adel j v) = kid_guar x v - (if gp f =? x then gg f else 0).
Proof.
  induction v as [|e v IH]; intros Hnd Hf; [discriminate|].
  cbn [map] in Hnd. inversion Hnd as [|? ? Hnin Hnd']; subst.
  cbn [afind] in Hf. unfold adel. cbn [filter]. fold (adel j v).
  destruct (fst e =? j) eqn:E; cbn [negb].
  - inversion Hf; subst f. apply Z.eqb_eq in E.
    rewrite adel_absent by (rewrite <- E; exact Hnin).
    unfold kid_guar. cbn [filter]. destruct (gp (snd e) =? x); cbn [map]; rewrite ?sumZ_cons; lia.
  - specialize (IH Hnd' Hf). unfold kid_guar in *. cbn [filter].
    destruct (gp (snd e) =? x); cbn [map]; rewrite ?sumZ_cons; lia.
Qed.

Lemma kid_guar_nonneg x v : (forall k f, In (k, f) v -> 0 <= gg f) -> 0 <= kid_guar x v.
Proof.
  intro H. unfold kid_guar. apply sumZ_map_nonneg. intros e He. apply filter_In in He.
  destruct He as [He _]. destruct e as [k f]. apply (H k f He).
Qed.

Lemma filter_nothing {A} (f : A -> bool) l : (forall x, In x l -> f x = false) -> filter f l = [].
Proof.
  induction l as [|x l IH]; intro H; [reflexivity|].
  cbn [filter]. rewrite (H x) by (cbn; auto). apply IH. intros; apply H; cbn; auto.
Qed.

Lemma kid_guar_none x v : (forall k f, In (k, f) v -> gp f <> x) -> kid_guar x v = 0.
Proof.
  intro H. unfold kid_guar. rewrite filter_nothing; [reflexivity|].
  intros e He. destruct e as [k f]. cbn [snd]. apply Z.eqb_neq. apply (H k f He).
Qed.

(* ---------- the equations ---------- *)
Section Equations.
Variables (v : gv) (al us : Z -> Z).

Definition eq_guar : Prop := forall k f, afind k v = Some f -> gg f = Z.max (al k) (gm f).
Definition eq_alloc (k : Z) : Prop := al k = us k + kid_guar k v.
Definition geq : Prop := eq_guar /\ forall k f, afind k v = Some f -> eq_alloc k.
(* every equation holds, except that Allocated(j) still misses d *)
Definition broken (j d : Z) : Prop :=
  eq_guar
  /\ (forall k f, afind k v = Some f -> k <> j -> eq_alloc k)
  /\ (forall f, afind j v = Some f -> al j + d = us j + kid_guar j v).

Lemma geq_broken j : geq -> broken j 0.
Proof.
  intros [H1 H2]. split; [exact H1|]. split.
  - intros k f Hf _. apply (H2 k f Hf).
  - intros f Hf. rewrite Z.add_0_r. apply (H2 j f Hf).
Qed.

Lemma broken_geq j d : broken j d -> afind j v = None -> geq.
Proof.
  intros [H1 [H2 _]] Hj. split; [exact H1|].
  intros k f Hf. apply (H2 k f Hf). intro E. subst k. congruence.
Qed.
End Equations.

Lemma geq_ext v al al' us us' :
  (forall k, al' k = al k) -> (forall k, us' k = us k) -> geq v al us -> geq v al' us'.
Proof.
  intros Ha Hu [H1 H2]. split.
  - intros k f Hf. rewrite Ha. apply (H1 k f Hf).
  - intros k f Hf. unfold eq_alloc. rewrite Ha, Hu. apply (H2 k f Hf).
Qed.

Lemma broken_ext v al al' us us' j d :
  (forall k, al' k = al k) -> (forall k, us' k = us k) -> broken v al us j d -> broken v al' us' j d.
Proof.
  intros Ha Hu [H1 [H2 H3]]. split; [|split].
  - intros k f Hf. rewrite Ha. apply (H1 k f Hf).
  - intros k f Hf Hk. unfold eq_alloc. rewrite Ha, Hu. apply (H2 k f Hf Hk).
  - intros f Hf. rewrite Ha, Hu. apply (H3 f Hf).
Qed.

Lemma In_afind' {A} k (x : A) l : NoDup (map fst l) -> In (k, x) l -> afind k l = Some x.
Proof. apply In_afind. Qed.

(* guarantees are non-negative when the mins are *)
Lemma guar_nonneg v al :
  eq_guar v al -> NoDup (map fst v) -> (forall k f, afind k v = Some f -> 0 <= gm f) ->
  forall k f, In (k, f) v -> 0 <= gg f.
Proof.
  intros He Hnd Hm k f Hin. pose proof (In_afind _ _ _ Hnd Hin) as Hf.
  rewrite (He k f Hf). pose proof (Hm k f Hf). lia.
Qed.

(* one level: Allocated(j) += d (never negative), Guaranteed(j) := max(Allocated(j), min'), where the
   declared min may change to min' at the same time (doUpdateOneGroupMinQuotaNoLock: d = 0) *)
Lemma level_fix v al al' us j f d m' :
  NoDup (map fst v) -> afind j v = Some f -> gp f <> j ->
  broken v al us j d -> 0 <= al j + d ->
  al' j = Z.max 0 (al j + d) -> (forall x, x <> j -> al' x = al x) ->
  let g' := Z.max (al' j) m' in
  broken (repl j (mkG (gp f) m' g') v) al' us (gp f) (g' - gg f).
Proof.
  intros Hnd Hf Hpj [H1 [H2 H3]] Hpos Haj Hax g'.
  assert (Ha' : al' j = al j + d) by lia.
  assert (Hfind : forall k, afind k (repl j (mkG (gp f) m' g') v)
                            = if j =? k then Some (mkG (gp f) m' g') else afind k v).
  { intro k. rewrite afind_repl. destruct (j =? k) eqn:E; [|reflexivity].
    apply Z.eqb_eq in E. subst k. rewrite Hf. reflexivity. }
  assert (Hkg : forall x, kid_guar x (repl j (mkG (gp f) m' g') v)
                          = kid_guar x v + (if gp f =? x then g' - gg f else 0)).
  { intro x. rewrite (kid_guar_repl x v j f _ Hnd Hf) by reflexivity. reflexivity. }
  split; [|split].
  - intros k f0 H0. rewrite Hfind in H0. destruct (j =? k) eqn:E.
    + apply Z.eqb_eq in E. subst k. inversion H0; subst f0. reflexivity.
    + apply Z.eqb_neq in E. rewrite Hax by congruence. apply (H1 k f0 H0).
  - intros k f0 H0 Hk. unfold eq_alloc. rewrite Hkg.
    destruct (gp f =? k) eqn:Ep; [apply Z.eqb_eq in Ep; congruence|]. rewrite Z.add_0_r.
    rewrite Hfind in H0. destruct (j =? k) eqn:E.
    + apply Z.eqb_eq in E. subst k. rewrite Ha'. apply (H3 f Hf).
    + apply Z.eqb_neq in E. rewrite Hax by congruence. apply (H2 k f0 H0). congruence.
  - intros f0 H0. rewrite Hkg, Z.eqb_refl. rewrite Hfind in H0.
    destruct (j =? gp f) eqn:E; [apply Z.eqb_eq in E; congruence|].
    rewrite Hax by congruence. pose proof (H2 (gp f) f0 H0 Hpj) as Hq. unfold eq_alloc in Hq. lia.
Qed.

(* ---------- the shape of the tree and the parent chains ---------- *)
Definition shape (s : mgr) : list (Z * Z) := map (fun e => (fst e, m_parent (snd e))) (g_quotas s).

Lemma afind_shape k s : afind k (shape s) = option_map m_parent (afind k (g_quotas s)).
Proof. apply afind_map_snd. Qed.

Lemma shape_keys s : map fst (shape s) = map fst (g_quotas s).
Proof. apply keys_map_snd. Qed.

Fixpoint spath (fuel : nat) (k : Z) (sh : list (Z * Z)) : list Z :=
  match fuel with
  | O => []
  | S f => if k =? 0 then [] else
           match afind k sh with
           | None => []
           | Some p => k :: spath f p sh
           end
  end.

Lemma path_of_shape f : forall k s, path_of f k s = spath f k (shape s).
Proof.
  induction f as [|f IH]; intros k s; [reflexivity|].
  cbn [path_of spath]. destruct (k =? 0); [reflexivity|].
  rewrite afind_shape. destruct (afind k (g_quotas s)) as [mq|]; [|reflexivity].
  cbn [option_map]. f_equal. apply IH.
Qed.

Lemma path_shape k s : path k s = spath (S (length (shape s))) k (shape s).
Proof. unfold path, shape. rewrite map_length. apply path_of_shape. Qed.

(* [pth] is the whole chain from j upwards: it ends where the parent is not a quota (the root) *)
Fixpoint chain_up (j : Z) (pth : list Z) (sh : list (Z * Z)) : Prop :=
  match pth with
  | [] => afind j sh = None
  | k :: rest => k = j /\ exists p, afind j sh = Some p /\ chain_up p rest sh
  end.

(* every quota's parent is the root or stands EARLIER in the list *)
Fixpoint ord_from (seen : list Z) (sh : list (Z * Z)) : Prop :=
  match sh with
  | [] => True
  | e :: t => (snd e = 0 \/ In (snd e) seen) /\ ord_from (fst e :: seen) t
  end.
Definition ordered (sh : list (Z * Z)) : Prop := ord_from [] sh.

Lemma ord_from_split l1 : forall seen k p l2,
  ord_from seen (l1 ++ (k, p) :: l2) -> p = 0 \/ In p (map fst l1) \/ In p seen.
Proof.
  induction l1 as [|e l1 IH]; intros seen k p l2 H.
  - cbn in H. destruct H as [[H|H] _]; auto.
  - cbn [app ord_from] in H. destruct H as [_ H]. destruct (IH _ _ _ _ H) as [Hp|[Hp|Hp]]; auto.
    + right. left. right. exact Hp.
    + destruct Hp as [Hp|Hp]; [right; left; left; exact Hp|auto].
Qed.

Lemma ordered_split sh : ordered sh ->
  forall l1 k p l2, sh = l1 ++ (k, p) :: l2 -> p = 0 \/ In p (map fst l1).
Proof.
  intros Ho l1 k p l2 E. unfold ordered in Ho. rewrite E in Ho.
  destruct (ord_from_split _ _ _ _ _ Ho) as [H|[H|[]]]; auto.
Qed.

Lemma ord_from_app sh : forall seen k p,
  ord_from seen sh -> (p = 0 \/ In p (map fst sh) \/ In p seen) -> ord_from seen (sh ++ [(k, p)]).
Proof.
  induction sh as [|e sh IH]; intros seen k p Ho Hp.
  - cbn. split; [|exact I]. destruct Hp as [Hp|[[]|Hp]]; auto.
  - cbn [app ord_from] in *. destruct Ho as [H1 H2]. split; [exact H1|].
    apply IH; [exact H2|]. destruct Hp as [Hp|[[Hp|Hp]|Hp]]; auto.
    + right. right. left. exact Hp.
    + right. right. right. exact Hp.
Qed.

Lemma ord_from_adel k sh : forall seen seen',
  ord_from seen sh -> (forall e, In e sh -> snd e <> k) ->
  (forall x, x <> k -> In x seen -> In x seen') ->
  ord_from seen' (adel k sh).
Proof.
  induction sh as [|e sh IH]; intros seen seen' Ho Hk Hs; [exact I|].
  cbn [ord_from] in Ho. destruct Ho as [H1 H2]. unfold adel. cbn [filter]. fold (adel k sh).
  assert (Hk' : forall e0, In e0 sh -> snd e0 <> k) by (intros; apply Hk; right; assumption).
  destruct (fst e =? k) eqn:E; cbn [negb].
  - apply (IH (fst e :: seen)); try assumption.
    intros x Hx [Hin|Hin]; [apply Z.eqb_eq in E; congruence|apply Hs; assumption].
  - cbn [ord_from]. split.
    + destruct H1 as [H1|H1]; [left; exact H1|right]. apply Hs; [apply Hk; left; reflexivity|exact H1].
    + apply (IH (fst e :: seen)); try assumption.
      intros x Hx [Hin|Hin]; [left; exact Hin|right; apply Hs; assumption].
Qed.

Lemma afind_app_l {A} k (l1 l2 : list (Z * A)) x : afind k l1 = Some x -> afind k (l1 ++ l2) = Some x.
Proof.
  induction l1 as [|e l1 IH]; [discriminate|]. cbn [app afind].
  destruct (fst e =? k); [auto|exact IH].
Qed.

Lemma afind_app_r {A} k (l1 l2 : list (Z * A)) : ~ In k (map fst l1) -> afind k (l1 ++ l2) = afind k l2.
Proof.
  induction l1 as [|e l1 IH]; intro H; [reflexivity|]. cbn [app afind].
  destruct (fst e =? k) eqn:E.
  - apply Z.eqb_eq in E. exfalso. apply H. left. exact E.
  - apply IH. intro Hin. apply H. right. exact Hin.
Qed.

Lemma complete_prefix sh :
  NoDup (map fst sh) -> afind 0 sh = None -> ordered sh ->
  forall l1 l2, sh = l1 ++ l2 ->
  forall k f, (k = 0 \/ afind k sh = None \/ In k (map fst l1)) -> (length l1 < f)%nat ->
  chain_up k (spath f k sh) sh.
Proof.
  intros Hnd H0 Hord l1. induction l1 as [|x l1 IH] using rev_ind; intros l2 Hsh k f Hk Hlen.
  - destruct f as [|f]; [lia|]. cbn [spath]. destruct (k =? 0) eqn:E.
    + apply Z.eqb_eq in E. subst k. exact H0.
    + destruct Hk as [Hk|[Hk|Hk]]; [apply Z.eqb_neq in E; congruence| |destruct Hk].
      rewrite Hk. exact Hk.
  - rewrite <- app_assoc in Hsh. cbn [app] in Hsh.
    rewrite map_app in Hk. cbn [map] in Hk.
    rewrite app_length in Hlen. cbn [length] in Hlen.
    assert (Hold : k = 0 \/ afind k sh = None \/ In k (map fst l1) -> chain_up k (spath f k sh) sh).
    { intro H. apply (IH (x :: l2) Hsh k f H). lia. }
    destruct Hk as [Hk|[Hk|Hk]]; [apply Hold; auto|apply Hold; auto|].
    apply in_app_or in Hk. destruct Hk as [Hk|[Hk|[]]]; [apply Hold; auto|].
    (* k is the key of x, the last entry of the prefix *)
    destruct x as [kx p]. cbn [fst] in Hk. subst kx.
    assert (Hnin : ~ In k (map fst l1)).
    { rewrite Hsh, map_app in Hnd. apply NoDup_remove_2 in Hnd.
      intro Hin. apply Hnd. apply in_or_app. left. exact Hin. }
    assert (Hfk : afind k sh = Some p).
    { rewrite Hsh, afind_app_r by exact Hnin. cbn [afind fst snd]. rewrite Z.eqb_refl. reflexivity. }
    destruct f as [|f]; [lia|]. cbn [spath].
    destruct (k =? 0) eqn:E; [apply Z.eqb_eq in E; subst k; congruence|].
    rewrite Hfk. cbn [chain_up]. split; [reflexivity|]. exists p. split; [exact Hfk|].
    apply (IH ((k, p) :: l2) Hsh p f); [|lia].
    destruct (ordered_split sh Hord l1 k p l2 Hsh) as [Hp|Hp]; [left; exact Hp|right; right; exact Hp].
Qed.

Lemma complete sh :
  NoDup (map fst sh) -> afind 0 sh = None -> ordered sh ->
  forall k, chain_up k (spath (S (length sh)) k sh) sh.
Proof.
  intros Hnd H0 Hord k.
  apply (complete_prefix sh Hnd H0 Hord sh [] (eq_sym (app_nil_r sh))); [|lia].
  destruct (afind k sh) as [p|] eqn:E; [|right; left; reflexivity].
  right. right. apply afind_In in E. change k with (fst (k, p)). apply in_map, E.
Qed.

(* ---------- [ordered] under the list operations of the model ---------- *)
Lemma ordered_app sh k p :
  ordered sh -> (p = 0 \/ In p (map fst sh)) -> ordered (sh ++ [(k, p)]).
Proof. intros Ho Hp. apply ord_from_app; [exact Ho|]. destruct Hp; auto. Qed.

Lemma ordered_adel sh k :
  ordered sh -> (forall e, In e sh -> snd e <> k) -> ordered (adel k sh).
Proof. intros Ho Hk. apply (ord_from_adel k sh [] []); auto. Qed.

Lemma shape_set_quota k mq' mq s :
  NoDup (map fst (g_quotas s)) ->
  afind k (g_quotas s) = Some mq -> m_parent mq' = m_parent mq -> shape (set_quota k mq' s) = shape s.
Proof.
  intros Hnd Hf Hp. unfold shape. cbn [set_quota g_quotas remake]. rewrite (aset_live k mq' mq) by exact Hf.
  unfold repl. rewrite map_map. apply map_ext_in. intros e He. cbn [fst snd].
  destruct (fst e =? k) eqn:E; [|reflexivity]. apply Z.eqb_eq in E. cbn [fst snd].
  assert (snd e = mq).
  { destruct e as [k0 m0]. cbn in *. subst k0. apply (In_afind _ _ _ Hnd) in He. congruence. }
  subst mq. rewrite Hp, E. reflexivity.
Qed.

Lemma gview_set_quota k mq' mq s :
  afind k (g_quotas s) = Some mq -> gview (set_quota k mq' s) = repl k (gfig_of mq') (gview s).
Proof.
  intro Hf. unfold gview. cbn [set_quota g_quotas remake]. rewrite (aset_live k mq' mq) by exact Hf.
  apply repl_map_snd.
Qed.

Lemma repl_same {A} k (x : A) l : NoDup (map fst l) -> afind k l = Some x -> repl k x l = l.
Proof.
  intros Hnd Hf. unfold repl. rewrite <- (map_id l) at 2. apply map_ext_in. intros e He.
  destruct (fst e =? k) eqn:E; [|reflexivity]. apply Z.eqb_eq in E.
  destruct e as [k0 x0]. cbn in *. subst k0. apply (In_afind _ _ _ Hnd) in He. congruence.
Qed.

Lemma gview_set_same k mq' mq s :
  NoDup (map fst (g_quotas s)) -> afind k (g_quotas s) = Some mq -> gfig_of mq' = gfig_of mq ->
  gview (set_quota k mq' s) = gview s.
Proof.
  intros Hnd Hf He. rewrite (gview_set_quota k mq' mq s Hf), He.
  apply repl_same; [rewrite gview_keys; exact Hnd|]. rewrite afind_gview, Hf. reflexivity.
Qed.

Lemma shape_of_gview s : shape s = map (fun e => (fst e, gp (snd e))) (gview s).
Proof. unfold shape, gview. rewrite map_map. reflexivity. Qed.
