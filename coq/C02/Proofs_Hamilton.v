(* C02 — computeHamiltonDeltas: the largest-remainder split is exact (sum of deltas = T),
   each delta is the floor share or the floor share + 1, strictly within one unit of the
   exact proportional share, and zero-weight nodes get nothing. *)
From Coq Require Import List ZArith Bool Lia Permutation Sorted.
From Verif Require Import C02.Model.
Import ListNotations.
Open Scope Z_scope.

Definition wnn (ns : list node) : Prop := forall n, In n ns -> 0 <= weight n.

Lemma wnn_cons n ns : wnn (n :: ns) -> 0 <= weight n /\ wnn ns.
Proof. intro H. split; [apply H; left; reflexivity|intros x Hx; apply H; right; exact Hx]. Qed.

Lemma wnn_perm a b : Permutation a b -> wnn a -> wnn b.
Proof. intros HP H n Hn. apply H. eapply Permutation_in; [apply Permutation_sym, HP|exact Hn]. Qed.

Lemma wnn_filter p ns : wnn ns -> wnn (filter p ns).
Proof. intros H n Hn. apply filter_In in Hn. apply H, Hn. Qed.

(* ---------- memZ ---------- *)
Lemma memZ_In x l : memZ x l = true <-> In x l.
Proof.
  unfold memZ. rewrite existsb_exists. split.
  - intros [y [Hy E]]. apply Z.eqb_eq in E. subst. exact Hy.
  - intro H. exists x. split; [exact H|apply Z.eqb_refl].
Qed.

Lemma memZ_false x l : memZ x l = false <-> ~ In x l.
Proof.
  rewrite <- memZ_In. destruct (memZ x l); split; intro H; congruence.
Qed.

(* ---------- base / remainder ---------- *)
Lemma pos_weight_true n : pos_weight n = true <-> 0 < weight n.
Proof. unfold pos_weight. apply Z.ltb_lt. Qed.

Lemma pos_weight_false0 n : 0 <= weight n -> pos_weight n = false -> weight n = 0.
Proof. unfold pos_weight. intros H E. apply Z.ltb_ge in E. lia. Qed.

Lemma base_rem_eq T W n :
  0 < W -> 0 <= weight n -> weight n * T = W * base_of T W n + rem_of T W n.
Proof.
  intros HW Hw. unfold base_of, rem_of. destruct (pos_weight n) eqn:E.
  - apply Z.div_mod. lia.
  - apply pos_weight_false0 in E; [|exact Hw]. rewrite E. lia.
Qed.

Lemma rem_bounds T W n : 0 < W -> 0 <= rem_of T W n < W.
Proof.
  intro HW. unfold rem_of. destruct (pos_weight n); [|lia].
  apply Z.mod_pos_bound. exact HW.
Qed.

Lemma base_of_div T W n : 0 <= weight n -> base_of T W n = weight n * T / W.
Proof.
  intro Hw. unfold base_of. destruct (pos_weight n) eqn:E; [reflexivity|].
  apply pos_weight_false0 in E; [|exact Hw]. rewrite E. reflexivity.
Qed.

Lemma base_nonneg T W n : 0 < W -> 0 <= T -> 0 <= base_of T W n.
Proof.
  intros HW HT. unfold base_of. destruct (pos_weight n) eqn:E; [|lia].
  apply pos_weight_true in E. apply Z.div_pos; nia.
Qed.

Lemma sum_identity T W ns :
  0 < W -> wnn ns ->
  T * sumZ (map weight ns)
  = W * sumZ (map (base_of T W) ns) + sumZ (map (rem_of T W) ns).
Proof.
  intros HW. induction ns as [|n ns IH]; intro Hnn; [cbn; lia|].
  apply wnn_cons in Hnn. destruct Hnn as [Hn Hnn].
  cbn [map]. rewrite !sumZ_cons. specialize (IH Hnn).
  pose proof (base_rem_eq T W n HW Hn). lia.
Qed.

Definition residual (T W : Z) (ns : list node) : Z := T - sumZ (map (base_of T W) ns).

Lemma residual_rem T W ns :
  0 < W -> wnn ns -> W = sumZ (map weight ns) ->
  W * residual T W ns = sumZ (map (rem_of T W) ns).
Proof.
  intros HW Hnn HWeq. unfold residual.
  pose proof (sum_identity T W ns HW Hnn) as H. rewrite <- HWeq in H. lia.
Qed.

Lemma rem_sum_cand T W ns :
  sumZ (map (rem_of T W) (filter pos_weight ns)) = sumZ (map (rem_of T W) ns).
Proof.
  apply sumZ_map_filter_zero. intros x _ E. unfold rem_of. rewrite E. reflexivity.
Qed.

Lemma residual_bounds T W ns :
  0 < W -> wnn ns -> W = sumZ (map weight ns) ->
  0 <= residual T W ns <= Z.of_nat (length (filter pos_weight ns)).
Proof.
  intros HW Hnn HWeq.
  pose proof (residual_rem T W ns HW Hnn HWeq) as HR.
  assert (H0 : 0 <= sumZ (map (rem_of T W) ns)).
  { apply sumZ_map_nonneg. intros x _. apply rem_bounds, HW. }
  assert (H1 : sumZ (map (rem_of T W) ns) <= (W - 1) * Z.of_nat (length (filter pos_weight ns))).
  { rewrite <- rem_sum_cand. apply sumZ_map_le_const.
    intros x _. pose proof (rem_bounds T W x HW). lia. }
  split; nia.
Qed.

(* ---------- the order used to hand out the residual ---------- *)
Lemma rem_leb_total T W : leb_total (rem_leb T W).
Proof.
  intros a b. unfold rem_leb.
  destruct (rem_of T W a =? rem_of T W b) eqn:E1;
  destruct (rem_of T W b =? rem_of T W a) eqn:E2;
  rewrite ?Z.eqb_eq, ?Z.eqb_neq, ?Z.leb_le, ?Z.ltb_lt in *; lia.
Qed.

Lemma rem_leb_trans T W : leb_trans (rem_leb T W).
Proof.
  intros a b c. unfold rem_leb.
  destruct (rem_of T W a =? rem_of T W b) eqn:E1;
  destruct (rem_of T W b =? rem_of T W c) eqn:E2;
  destruct (rem_of T W a =? rem_of T W c) eqn:E3;
  rewrite ?Z.eqb_eq, ?Z.eqb_neq, ?Z.leb_le, ?Z.ltb_lt in *; lia.
Qed.

Lemma rem_leb_names T W a b :
  rem_leb T W a b = true -> rem_leb T W b a = true -> nm a = nm b.
Proof.
  unfold rem_leb.
  destruct (rem_of T W a =? rem_of T W b) eqn:E1;
  destruct (rem_of T W b =? rem_of T W a) eqn:E2;
  rewrite ?Z.eqb_eq, ?Z.eqb_neq, ?Z.leb_le, ?Z.ltb_lt in *; lia.
Qed.

Lemma rem_leb_antisym T W l : NoDup (map nm l) -> leb_antisym_on (rem_leb T W) l.
Proof.
  intros Hnd a b Ha Hb H1 H2.
  apply (NoDup_map_inj_in nm l); try assumption. eapply rem_leb_names; eassumption.
Qed.

Lemma rem_leb_ge T W a b : rem_leb T W a b = true -> rem_of T W b <= rem_of T W a.
Proof.
  unfold rem_leb. destruct (rem_of T W a =? rem_of T W b) eqn:E1;
  rewrite ?Z.eqb_eq, ?Z.eqb_neq, ?Z.leb_le, ?Z.ltb_lt in *; lia.
Qed.

Definition sorted_cand (T W : Z) (ns : list node) : list node :=
  sort_by (rem_leb T W) (filter pos_weight ns).

Lemma winners_eq T W ns :
  winners T W ns = map nm (firstn (Z.to_nat (residual T W ns)) (sorted_cand T W ns)).
Proof. reflexivity. Qed.

Lemma sorted_cand_perm T W ns : Permutation (sorted_cand T W ns) (filter pos_weight ns).
Proof. apply sort_by_perm. Qed.

Lemma sorted_cand_In T W ns x :
  In x (sorted_cand T W ns) -> In x ns /\ pos_weight x = true.
Proof.
  intro H. apply (Permutation_in _ (sorted_cand_perm T W ns)) in H.
  apply filter_In in H. exact H.
Qed.

Lemma sorted_cand_nodup T W ns : NoDup (map nm ns) -> NoDup (map nm (sorted_cand T W ns)).
Proof.
  intro H. eapply NoDup_map_perm; [apply Permutation_sym, sorted_cand_perm|].
  apply NoDup_map_filter, H.
Qed.

Lemma NoDup_map_app_disj {A B} (f : A -> B) a b x :
  NoDup (map f (a ++ b)) -> In x b -> ~ In (f x) (map f a).
Proof.
  induction a as [|y a IH]; intros Hnd Hx; [intros []|].
  rewrite <- app_comm_cons in Hnd. cbn [map] in Hnd.
  inversion Hnd as [|? ? Hnin Hnd']; subst.
  intros [E|Hin].
  - apply Hnin. rewrite E. apply in_map, in_or_app. right. exact Hx.
  - exact (IH Hnd' Hx Hin).
Qed.

(* "+1 to a NoDup winner set": exactly [r] nodes receive the extra unit *)
Lemma winners_count T W ns (r : nat) :
  NoDup (map nm ns) -> (r <= length (filter pos_weight ns))%nat ->
  sumZ (map (fun n => if pos_weight n && memZ (nm n) (map nm (firstn r (sorted_cand T W ns)))
                      then 1 else 0) ns) = Z.of_nat r.
Proof.
  intros Hnd Hr.
  set (S := sorted_cand T W ns).
  set (ind := fun n : node => if pos_weight n && memZ (nm n) (map nm (firstn r S)) then 1 else 0).
  assert (HS : NoDup (map nm S)) by (apply sorted_cand_nodup, Hnd).
  rewrite <- (sumZ_map_filter_zero pos_weight ind ns).
  2:{ intros x _ E. unfold ind. rewrite E. reflexivity. }
  rewrite <- (sumZ_map_perm ind _ _ (sorted_cand_perm T W ns)). fold S.
  rewrite <- (firstn_skipn r S) at 1. rewrite map_app, sumZ_app.
  rewrite <- (firstn_skipn r S) in HS.
  rewrite (sumZ_map_ext ind (fun _ => 1) (firstn r S)).
  2:{ intros x Hx. unfold ind.
      assert (Hp : pos_weight x = true).
      { apply (sorted_cand_In T W ns). fold S. rewrite <- (firstn_skipn r S).
        apply in_or_app. left. exact Hx. }
      rewrite Hp. cbn [andb].
      assert (Hm : memZ (nm x) (map nm (firstn r S)) = true) by (apply memZ_In, in_map, Hx).
      rewrite Hm. reflexivity. }
  rewrite (sumZ_map_zero ind (skipn r S)).
  2:{ intros x Hx. unfold ind.
      assert (Hm : memZ (nm x) (map nm (firstn r S)) = false).
      { apply memZ_false. eapply NoDup_map_app_disj; eassumption. }
      rewrite Hm, andb_false_r. reflexivity. }
  rewrite sumZ_map_const, firstn_length_le'; [lia|].
  unfold S, sorted_cand. rewrite sort_by_length. exact Hr.
Qed.

Lemma hamilton_unfold T W ns :
  0 < T -> 0 < W -> hamilton T W ns = map (delta_of T W ns) ns.
Proof.
  intros HT HW. unfold hamilton.
  destruct (W <=? 0) eqn:E1; [apply Z.leb_le in E1; lia|].
  destruct (T <=? 0) eqn:E2; [apply Z.leb_le in E2; lia|]. reflexivity.
Qed.

Lemma hamilton_length T W ns : length (hamilton T W ns) = length ns.
Proof. unfold hamilton. destruct (_ || _); apply map_length. Qed.

(* Σ deltas = T : no unit is created or dropped by rounding *)
Lemma hamilton_sum T W ns :
  0 < T -> 0 < W -> wnn ns -> W = sumZ (map weight ns) -> NoDup (map nm ns) ->
  sumZ (hamilton T W ns) = T.
Proof.
  intros HT HW Hnn HWeq Hnd. rewrite hamilton_unfold by assumption.
  pose proof (residual_bounds T W ns HW Hnn HWeq) as [Hr0 Hr1].
  unfold delta_of. rewrite winners_eq.
  rewrite (sumZ_map_add (base_of T W)
    (fun n => if pos_weight n && memZ (nm n)
       (map nm (firstn (Z.to_nat (residual T W ns)) (sorted_cand T W ns))) then 1 else 0)).
  rewrite winners_count; [|exact Hnd|lia].
  unfold residual in *. lia.
Qed.

(* a node whose remainder is 0 never receives the extra unit *)
Lemma winner_rem_pos T W ns n :
  0 < W -> wnn ns -> W = sumZ (map weight ns) -> NoDup (map nm ns) ->
  In n ns -> memZ (nm n) (winners T W ns) = true -> 0 < rem_of T W n.
Proof.
  intros HW Hnn HWeq Hnd Hn Hm.
  rewrite winners_eq in Hm. apply memZ_In in Hm.
  set (r := Z.to_nat (residual T W ns)) in *. set (S := sorted_cand T W ns) in *.
  apply in_map_iff in Hm. destruct Hm as [x [Hxn Hx]].
  assert (HxS : In x S).
  { rewrite <- (firstn_skipn r S). apply in_or_app. left. exact Hx. }
  assert (x = n).
  { apply (NoDup_map_inj_in nm ns); try assumption. apply (sorted_cand_In T W ns x HxS). }
  subst x. clear Hxn.
  pose proof (rem_bounds T W n HW) as Hb.
  destruct (Z.eq_dec (rem_of T W n) 0) as [E0|]; [exfalso|lia].
  pose proof (residual_bounds T W ns HW Hnn HWeq) as [Hr0 Hr1].
  pose proof (residual_rem T W ns HW Hnn HWeq) as HR.
  assert (Hsorted : StronglySorted (fun a b => rem_leb T W a b = true) S).
  { apply sort_by_sorted; [apply rem_leb_total|apply rem_leb_trans]. }
  assert (Hsum : sumZ (map (rem_of T W) ns)
                 = sumZ (map (rem_of T W) (firstn r S)) + sumZ (map (rem_of T W) (skipn r S))).
  { rewrite <- rem_sum_cand.
    rewrite <- (sumZ_map_perm (rem_of T W) _ _ (sorted_cand_perm T W ns)). fold S.
    rewrite <- (firstn_skipn r S) at 1. rewrite map_app, sumZ_app. reflexivity. }
  rewrite (sumZ_map_zero (rem_of T W) (skipn r S)) in Hsum.
  2:{ intros y Hy.
      pose proof (sorted_firstn_skipn (rem_leb T W) r S n y Hsorted Hx Hy) as Hle.
      apply rem_leb_ge in Hle. pose proof (rem_bounds T W y HW). lia. }
  assert (Hle : sumZ (map (rem_of T W) (firstn r S)) <= (W - 1) * Z.of_nat (length (firstn r S))).
  { apply sumZ_map_le_const. intros y _. pose proof (rem_bounds T W y HW). lia. }
  assert (Hlen : length (firstn r S) = r).
  { apply firstn_length_le'. unfold S, sorted_cand. rewrite sort_by_length. lia. }
  assert (Hrpos : (0 < r)%nat).
  { destruct r; [destruct Hx|lia]. }
  rewrite Hlen in Hle. unfold r in *. nia.
Qed.

Lemma delta_cases T W ns n :
  delta_of T W ns n = base_of T W n \/ delta_of T W ns n = base_of T W n + 1.
Proof. unfold delta_of. destruct (_ && _); lia. Qed.

Lemma delta_zero_weight T W ns n : weight n = 0 -> delta_of T W ns n = 0.
Proof.
  intro E. unfold delta_of, base_of.
  assert (Hp : pos_weight n = false) by (unfold pos_weight; rewrite E; reflexivity).
  rewrite Hp. reflexivity.
Qed.

Lemma delta_nonneg T W ns n : 0 < W -> 0 <= T -> 0 <= delta_of T W ns n.
Proof.
  intros HW HT. pose proof (base_nonneg T W n HW HT). destruct (delta_cases T W ns n); lia.
Qed.

(* |delta·W − w·T| < W, i.e. |delta − w·T/W| < 1 over the rationals *)
Lemma delta_close T W ns n :
  0 < W -> wnn ns -> W = sumZ (map weight ns) -> NoDup (map nm ns) -> In n ns ->
  - W < delta_of T W ns n * W - weight n * T < W.
Proof.
  intros HW Hnn HWeq Hnd Hn.
  pose proof (base_rem_eq T W n HW (Hnn n Hn)) as HE.
  pose proof (rem_bounds T W n HW) as Hb.
  unfold delta_of. destruct (pos_weight n && memZ (nm n) (winners T W ns)) eqn:E.
  - apply andb_prop in E. destruct E as [_ Hm].
    pose proof (winner_rem_pos T W ns n HW Hnn HWeq Hnd Hn Hm). lia.
  - lia.
Qed.

(* shares of two nodes are proportional to their weights up to one unit each *)
Lemma delta_fair T W ns a b :
  0 < W -> wnn ns -> W = sumZ (map weight ns) -> NoDup (map nm ns) -> In a ns -> In b ns ->
  Z.abs (delta_of T W ns a * weight b - delta_of T W ns b * weight a) <= weight a + weight b.
Proof.
  intros HW Hnn HWeq Hnd Ha Hb.
  pose proof (delta_close T W ns a HW Hnn HWeq Hnd Ha) as HA.
  pose proof (delta_close T W ns b HW Hnn HWeq Hnd Hb) as HB.
  pose proof (Hnn _ Ha) as Hwa. pose proof (Hnn _ Hb) as Hwb.
  set (da := delta_of T W ns a) in *. set (db := delta_of T W ns b) in *.
  set (wa := weight a) in *. set (wb := weight b) in *.
  set (X := da * W - wa * T) in *. set (Y := db * W - wb * T) in *.
  assert (HQ : (da * wb - db * wa) * W = X * wb - Y * wa) by (unfold X, Y; ring).
  assert (H1 : X * wb <= W * wb) by nia.
  assert (H2 : - (W * wb) <= X * wb) by nia.
  assert (H3 : Y * wa <= W * wa) by nia.
  assert (H4 : - (W * wa) <= Y * wa) by nia.
  assert (H5 : (da * wb - db * wa) * W <= (wa + wb) * W) by lia.
  assert (H6 : - ((wa + wb) * W) <= (da * wb - db * wa) * W) by lia.
  assert (da * wb - db * wa <= wa + wb) by nia.
  assert (- (wa + wb) <= da * wb - db * wa) by nia.
  lia.
Qed.

Lemma hamilton_exact T W ns :
  0 < T -> 0 < W -> wnn ns -> W = sumZ (map weight ns) -> NoDup (map nm ns) ->
  hamilton T W ns = map (delta_of T W ns) ns
  /\ sumZ (hamilton T W ns) = T
  /\ forall n, In n ns ->
       (delta_of T W ns n = weight n * T / W \/ delta_of T W ns n = weight n * T / W + 1)
       /\ - W < delta_of T W ns n * W - weight n * T < W
       /\ (weight n = 0 -> delta_of T W ns n = 0).
Proof.
  intros HT HW Hnn HWeq Hnd. split; [apply hamilton_unfold; assumption|].
  split; [apply hamilton_sum; assumption|].
  intros n Hn. split; [|split].
  - rewrite <- (base_of_div T W n (Hnn n Hn)). apply delta_cases.
  - apply delta_close; assumption.
  - apply delta_zero_weight.
Qed.
