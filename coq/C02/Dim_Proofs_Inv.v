(* C02 / dims — the calculators' invariant in BOTH dimensions.  Every op of the two-dimensional
   manager model (Dim_Model.v) and every RefreshRuntime preserves Mgr_Proofs_Inv.minv in the cpu half
   and in the memory half: after any history, with the gate on or off, every calculator holds exactly
   the current QuotaInfo figures (request, min, sharedWeight, GUARANTEE, both caches) of the quotas
   whose parent it serves, in each dimension.  The joint change detectors
   (needUpdateOneGroupRequest / needUpdateOneGroupGuaranteed: "some dimension differs") never leave a
   dimension stale: when they answer "no", this dimension's cache already is the new figure; when they
   answer "yes", every dimension is rewritten. *)
From Coq Require Import List ZArith Bool Lia Permutation.
From Verif Require Import C02.Model C02.Proofs C02.Proofs_Perm C02.Calc_Model C02.Calc_Spec
  C02.Calc_Proofs_Inv C02.Calc_Proofs_Run C02.Mgr_Model C02.Mgr_Proofs_Base C02.Mgr_Proofs_Inv
  C02.Mgr_Proofs_Reset C02.Mgr_Proofs_Step C02.Dim_Model.
Import ListNotations.
Open Scope Z_scope.

(* ---------- the forced halves of the joint need -> update pairs, on one calculator world ---------- *)
Lemma force_request_step w k v b q :
  calc_inv w -> tab_find k (w_tab w) = Some q ->
  (b = false -> needUpdateOneGroupRequest k (q_set_req v q) (w_calc w) = false) ->
  calc_inv (mkW (force_request b k (q_set_req v q) (w_calc w)) (tab_upd k (q_set_req v) (w_tab w))).
Proof.
  intros Hi Hf Hb. destruct b; cbn [force_request].
  - apply (inv_after_bump w); try assumption; cbn [updateOneGroupRequest c_tree c_reqLimit c_guaranteed c_version].
    + rewrite tab_upd_keys. apply (inv_nodup w Hi).
    + live_upsert Hi Hf. symmetry. apply abs_upd. intros q' Hin.
      rewrite (unique_live w k q q' Hi Hf Hin). reflexivity.
    + apply agrees_upd; [apply (inv_req w Hi)| |congruence]. intros q0 H0. congruence.
    + apply agrees_upd_same; [apply (inv_guar w Hi)|]. reflexivity.
    + reflexivity.
    + apply stamps_le_upd; [exact Hi|]. intro; split; reflexivity.
  - pose proof (step_req_inv w k v Hi) as H. cbn [step] in H. unfold on_live in H. rewrite Hf in H.
    unfold push_request in H. rewrite (Hb eq_refl) in H. exact H.
Qed.

Lemma force_guaranteed_step w k v b q :
  calc_inv w -> tab_find k (w_tab w) = Some q ->
  (b = false -> needUpdateOneGroupGuaranteed k (q_set_guar v q) (w_calc w) = false) ->
  calc_inv (mkW (force_guaranteed b k (q_set_guar v q) (w_calc w)) (tab_upd k (q_set_guar v) (w_tab w))).
Proof.
  intros Hi Hf Hb. destruct b; cbn [force_guaranteed].
  - apply (inv_after_bump w); try assumption; cbn [updateOneGroupGuaranteed c_tree c_reqLimit c_guaranteed c_version].
    + rewrite tab_upd_keys. apply (inv_nodup w Hi).
    + live_upsert Hi Hf. symmetry. apply abs_upd. intros q' Hin. reflexivity.
    + apply agrees_upd_same; [apply (inv_req w Hi)|]. reflexivity.
    + apply agrees_upd; [apply (inv_guar w Hi)| |congruence]. intros q0 H0. reflexivity.
    + reflexivity.
    + apply stamps_le_upd; [exact Hi|]. intro; split; reflexivity.
  - pose proof (step_guar_inv w k v Hi) as H. cbn [step] in H. unfold on_live in H. rewrite Hf in H.
    unfold push_guaranteed in H. rewrite (Hb eq_refl) in H. exact H.
Qed.

(* the table of k's parent with k's QuotaInfo changed by g *)
Lemma kids_upd_const st k mq g :
  minv st -> afind k (g_quotas st) = Some mq ->
  tab_upd k g (kids (m_parent mq) (g_quotas st))
  = tab_upd k (fun _ => g (m_info mq)) (kids (m_parent mq) (g_quotas st)).
Proof.
  intros Hi Hf. apply tab_upd_const. intros q' Hin.
  pose proof (kids_nodup (m_parent mq) _ (mi_nodup st Hi)) as Hnd.
  apply (In_tab_find _ _ _ Hnd) in Hin. rewrite (kids_live st k mq Hi Hf) in Hin. congruence.
Qed.

(* ---------- one level of the request walk, one half ---------- *)
Lemma req_level_inv st k mq d b :
  minv st -> afind k (g_quotas st) = Some mq ->
  (b = false -> needUpdateOneGroupRequest k (m_info (req_figures mq d)) (get_calc (m_parent mq) st) = false) ->
  minv (upd_calc (m_parent mq) (force_request b k (m_info (req_figures mq d))) (set_quota k (req_figures mq d) st)).
Proof.
  intros Hi Hf Hb.
  apply (push_inv st k mq (req_figures mq d) (force_request b k (m_info (req_figures mq d)))); try assumption.
  - reflexivity.
  - cbn [req_figures m_info] in *.
    set (r := real_request mq (Z.max 0 (m_childReq mq + d))) in *.
    pose proof (force_request_step (wld (m_parent mq) st) k r b (m_info mq)
                  (mi_worlds st Hi _) (kids_live st k mq Hi Hf) Hb) as H.
    cbn [wld w_calc w_tab] in H. rewrite (kids_upd_const st k mq _ Hi Hf) in H. exact H.
  - intro c. unfold force_request. destruct b; reflexivity.
Qed.

Definition dinv (st : dmgr) : Prop := minv (d_cpu st) /\ minv (d_mem st).

Lemma rec_delta2_inv pth : forall d1 d2 s1 s2, minv s1 -> minv s2 ->
  minv (fst (rec_delta2 pth d1 d2 s1 s2)) /\ minv (snd (rec_delta2 pth d1 d2 s1 s2)).
Proof.
  induction pth as [|k rest IH]; intros d1 d2 s1 s2 H1 H2; [split; assumption|].
  cbn [rec_delta2].
  destruct (afind k (g_quotas s1)) as [m1|] eqn:Hf1; [|split; assumption].
  destruct (afind k (g_quotas s2)) as [m2|] eqn:Hf2; [|split; assumption].
  cbv zeta. apply IH.
  - apply req_level_inv; try assumption. intro E. apply orb_false_elim in E. apply E.
  - apply req_level_inv; try assumption. intro E. apply orb_false_elim in E. apply E.
Qed.

Lemma with_halves_inv st p : minv (fst p) -> minv (snd p) -> dinv (with_halves st p).
Proof. intros; split; assumption. Qed.

Lemma request_walk_inv k d1 d2 st : dinv st -> dinv (request_walk k d1 d2 st).
Proof.
  intros [H1 H2]. unfold request_walk.
  destruct (rec_delta2_inv (path k (d_cpu st)) d1 d2 _ _ H1 H2). split; assumption.
Qed.

(* ---------- one level of the allocated / guaranteed walk, one half ---------- *)
Lemma guar_level_inv st k mq v b :
  minv st -> afind k (g_quotas st) = Some mq ->
  (b = false -> needUpdateOneGroupGuaranteed k (q_set_guar v (m_info mq)) (get_calc (m_parent mq) st) = false) ->
  minv (upd_calc (m_parent mq) (force_guaranteed b k (q_set_guar v (m_info mq)))
                 (set_quota k (with_info mq (q_set_guar v (m_info mq))) st)).
Proof.
  intros Hi Hf Hb.
  apply (push_inv st k mq (with_info mq (q_set_guar v (m_info mq))) (force_guaranteed b k (q_set_guar v (m_info mq))));
    try assumption.
  - reflexivity.
  - cbn [with_info m_info].
    pose proof (force_guaranteed_step (wld (m_parent mq) st) k v b (m_info mq)
                  (mi_worlds st Hi _) (kids_live st k mq Hi Hf) Hb) as H.
    cbn [wld w_calc w_tab] in H. rewrite (kids_upd_const st k mq _ Hi Hf) in H. exact H.
  - intro c. unfold force_guaranteed. destruct b; reflexivity.
Qed.

Lemma rec_alloc2_inv pth : forall d1 d2 st, dinv st -> dinv (rec_alloc2 pth d1 d2 st).
Proof.
  induction pth as [|k rest IH]; intros d1 d2 st [H1 H2]; [split; assumption|].
  cbn [rec_alloc2].
  destruct (afind k (g_quotas (d_cpu st))) as [m1|] eqn:Hf1; [|split; assumption].
  destruct (afind k (g_quotas (d_mem st))) as [m2|] eqn:Hf2; [|split; assumption].
  cbv zeta. apply IH. split; cbn [d_cpu d_mem].
  - apply guar_level_inv; try assumption. intro E. apply orb_false_elim in E. apply E.
  - apply guar_level_inv; try assumption. intro E. apply orb_false_elim in E. apply E.
Qed.

Lemma used_walk_inv gate k d1 d2 st : dinv st -> dinv (used_walk gate k d1 d2 st).
Proof. intro H. unfold used_walk. destruct gate; [apply rec_alloc2_inv, H|exact H]. Qed.

(* ---------- doUpdateOneGroupMax / Min / SharedWeight ---------- *)
Lemma max_level_inv st k mq v :
  minv st -> afind k (g_quotas st) = Some mq ->
  minv (upd_calc (m_parent mq) (updateOneGroupMaxQuota k (q_set_max v (m_info mq)))
                 (set_quota k (with_info mq (q_set_max v (m_info mq))) st)).
Proof.
  intros Hi Hf.
  apply (push_inv st k mq (with_info mq (q_set_max v (m_info mq))) (updateOneGroupMaxQuota k (q_set_max v (m_info mq))));
    try assumption; try reflexivity.
  cbn [with_info m_info].
  pose proof (step_inv _ (OSetMax k v) (mi_worlds st Hi (m_parent mq))) as H.
  cbn [step] in H. rewrite (on_live_wld st k mq _ _ Hi Hf) in H. exact H.
Qed.

Lemma do_max2_inv k v1 v2 st : dinv st -> dinv (do_max2 k v1 v2 st).
Proof.
  intros [H1 H2]. unfold do_max2.
  destruct (afind k (g_quotas (d_cpu st))) as [m1|] eqn:Hf1; [|split; assumption].
  destruct (afind k (g_quotas (d_mem st))) as [m2|] eqn:Hf2; [|split; assumption].
  cbv zeta.
  match goal with |- dinv (with_halves st (rec_delta2 ?p ?a ?b ?x ?y)) =>
    destruct (rec_delta2_inv p a b x y) as [Ha Hb]; [| |split; assumption] end.
  - apply max_level_inv; assumption.
  - apply max_level_inv; assumption.
Qed.

(* the min, then the request through the joint need… / update… pair (one half) *)
Lemma min_level_inv st k mq v b :
  minv st -> afind k (g_quotas st) = Some mq ->
  let m' := min_figures mq v in
  (b = false -> needUpdateOneGroupRequest k (m_info m')
                  (updateOneGroupMinQuota k (m_info m') (get_calc (m_parent mq) st)) = false) ->
  minv (upd_calc (m_parent mq) (fun c => force_request b k (m_info m') (updateOneGroupMinQuota k (m_info m') c))
                 (set_quota k m' st)).
Proof.
  intros Hi Hf m' Hb.
  set (q := m_info mq).
  set (mq1 := mkMQ (m_parent mq) (m_isParent mq) (q_set_min v q) v (m_childReq mq)).
  set (r := real_request mq1 (m_childReq mq)).
  set (q' := q_set_req r (q_set_min v q)).
  assert (Hm' : m' = with_info mq1 q') by reflexivity.
  assert (Hq' : m_info m' = q') by reflexivity.
  rewrite Hq' in *.
  apply (push_inv st k mq m' (fun c => force_request b k q' (updateOneGroupMinQuota k q' c)));
    try assumption; try reflexivity.
  - rewrite Hm'. cbn [with_info m_info].
    pose proof (mi_worlds st Hi (m_parent mq)) as Hw.
    pose proof (step_inv _ (OSetMin k v) Hw) as W1.
    cbn [step] in W1. rewrite (on_live_wld st k mq _ _ Hi Hf) in W1. fold q in W1.
    assert (Hk : tab_find k (kids (m_parent mq) (g_quotas st)) = Some q) by (apply kids_live; assumption).
    assert (Hc : updateOneGroupMinQuota k q' (get_calc (m_parent mq) st)
                 = updateOneGroupMinQuota k (q_set_min v q) (get_calc (m_parent mq) st)).
    { unfold updateOneGroupMinQuota. f_equal. cbn [q' q_set_req q_min].
      apply upsert_live. pose proof (inv_tree _ Hw) as Ht0. cbn [wld w_calc w_tab] in Ht0.
      rewrite Ht0, t_mem_abs, Hk. reflexivity. }
    rewrite Hc in *.
    assert (Hk1 : tab_find k (tab_upd k (fun _ => q_set_min v q) (kids (m_parent mq) (g_quotas st))) = Some (q_set_min v q)).
    { rewrite tab_find_upd, Z.eqb_refl, Hk. reflexivity. }
    pose proof (force_request_step _ k r b (q_set_min v q) W1 Hk1) as W2.
    cbn [w_calc w_tab] in W2. fold q' in W2. specialize (W2 Hb).
    assert (Ht : tab_upd k (fun _ => q') (kids (m_parent mq) (g_quotas st))
                 = tab_upd k (q_set_req r) (tab_upd k (fun _ => q_set_min v q) (kids (m_parent mq) (g_quotas st)))).
    { unfold tab_upd. rewrite map_map. apply map_ext. intro p.
      destruct (fst p =? k) eqn:E; cbn [fst snd]; rewrite ?E; reflexivity. }
    rewrite Ht. exact W2.
  - intro c. unfold force_request. destruct b; reflexivity.
Qed.

Lemma do_min2_inv gate k v1 v2 st : dinv st -> dinv (do_min2 gate k v1 v2 st).
Proof.
  intros [H1 H2]. unfold do_min2.
  destruct (afind k (g_quotas (d_cpu st))) as [m1|] eqn:Hf1; [|split; assumption].
  destruct (afind k (g_quotas (d_mem st))) as [m2|] eqn:Hf2; [|split; assumption].
  cbv zeta.
  match goal with |- dinv (if negb gate then with_halves st (rec_delta2 ?p ?a ?b ?x ?y) else _) =>
    assert (Hs : dinv (with_halves st (rec_delta2 p a b x y))) end.
  { match goal with |- dinv (with_halves st (rec_delta2 ?p ?a ?b ?x ?y)) =>
      destruct (rec_delta2_inv p a b x y) as [Ha Hb]; [| |split; assumption] end.
    - apply (min_level_inv (d_cpu st) k m1 v1); try assumption.
      intro E. apply orb_false_elim in E. apply E.
    - apply (min_level_inv (d_mem st) k m2 v2); try assumption.
      intro E. apply orb_false_elim in E. apply E. }
  destruct (negb gate); [exact Hs|].
  match type of Hs with dinv ?X => set (st1 := X) in * end.
  destruct Hs as [G1 G2].
  destruct (afind k (g_quotas (d_cpu st1))) as [n1|] eqn:Hg1; [|split; assumption].
  destruct (afind k (g_quotas (d_mem st1))) as [n2|] eqn:Hg2; [|split; assumption].
  apply rec_alloc2_inv. split; cbn [d_cpu d_mem].
  - apply guar_level_inv; try assumption. intro E. apply orb_false_elim in E. apply E.
  - apply guar_level_inv; try assumption. intro E. apply orb_false_elim in E. apply E.
Qed.

Lemma do_weight2_inv k v1 v2 st : dinv st -> dinv (do_weight2 k v1 v2 st).
Proof. intros [H1 H2]. split; cbn [do_weight2 d_cpu d_mem]; apply do_weight_inv; assumption. Qed.

(* ---------- UpdateQuota of a name that is not live (one half): NewQuotaInfo + the max ---------- *)
Lemma create_base_inv st k par isPar lnd mx :
  minv st -> afind k (g_quotas st) = None -> k <> 0 ->
  (par = 0 \/ afind par (g_quotas st) <> None) ->
  let mq0 := mkMQ par isPar (q_new lnd 0) 0 0 in
  let q' := q_set_max mx (m_info mq0) in
  minv (upd_calc par (updateOneGroupMaxQuota k q') (set_quota k (with_info mq0 q') (add_quota k par isPar lnd st))).
Proof.
  intros Hi Hf Hk Hpar mq0 q'.
  set (st1 := add_quota k par isPar lnd st).
  assert (Hpk : par <> k).
  { destruct Hpar as [->|H]; [congruence|]. intro E. subst par. congruence. }
  assert (Hf1 : afind k (g_quotas st1) = Some mq0).
  { cbn [st1 add_quota g_quotas remake]. rewrite afind_app, Hf, Z.eqb_refl. reflexivity. }
  assert (Hnk : ~ In k (map fst (g_quotas st))) by (apply afind_None, Hf).
  assert (Hq : g_quotas (upd_calc par (updateOneGroupMaxQuota k q') (set_quota k (with_info mq0 q') st1))
               = g_quotas st ++ [(k, with_info mq0 q')]).
  { cbn [upd_calc set_calc set_quota g_quotas remake]. rewrite (aset_live k _ mq0) by exact Hf1.
    cbn [st1 add_quota g_quotas remake].
    unfold repl. rewrite map_app. fold (repl k (with_info mq0 q') (g_quotas st)).
    rewrite repl_absent by exact Hnk. cbn [map fst]. rewrite Z.eqb_refl. reflexivity. }
  assert (Hc : forall p, get_calc p (upd_calc par (updateOneGroupMaxQuota k q') (set_quota k (with_info mq0 q') st1))
               = if par =? p then updateOneGroupMaxQuota k q' (get_calc par st)
                 else if k =? p then calc0 else get_calc p st).
  { intro p. rewrite get_calc_upd, !get_calc_set_quota.
    assert (Hg : forall p', get_calc p' st1 = if k =? p' then calc0 else get_calc p' st).
    { intro p'. unfold get_calc. cbn [st1 add_quota g_calcs remake]. rewrite afind_aset. destruct (k =? p'); reflexivity. }
    rewrite !Hg. destruct (k =? par) eqn:E; [apply Z.eqb_eq in E; congruence|]. reflexivity. }
  constructor.
  - rewrite Hq, map_app. cbn [map fst]. apply NoDup_app_snoc; [apply (mi_nodup st Hi)|exact Hnk].
  - intro p. unfold wld. rewrite Hq, Hc, kids_app. cbn [with_info m_parent mq0 m_info].
    destruct (par =? p) eqn:E.
    + apply Z.eqb_eq in E. subst p.
      pose proof (step_inv _ (OCreate k lnd mx) (mi_worlds st Hi par)) as H.
      cbn [step wld w_tab w_calc] in H.
      assert (Hd : tab_find k (kids par (g_quotas st)) = None) by (apply tab_find_None, kids_dead, Hf).
      rewrite Hd in H. exact H.
    + rewrite app_nil_r. destruct (k =? p) eqn:E2.
      * apply Z.eqb_eq in E2. subst p. rewrite (kids_nil st k Hi Hk Hf). apply world0_calc_inv.
      * apply (mi_worlds st Hi p).
  - intros k' mq1 H1. rewrite Hq in *. rewrite afind_app in H1.
    assert (Hlive : forall j, afind j (g_quotas st) <> None ->
                     afind j (g_quotas st ++ [(k, with_info mq0 q')]) <> None).
    { intros j Hj. rewrite afind_app. destruct (afind j (g_quotas st)); [discriminate|congruence]. }
    destruct (afind k' (g_quotas st)) as [mq2|] eqn:E2.
    + inversion H1; subst mq1. destruct (mi_parents st Hi k' mq2 E2) as [Hn Hp]. split; [exact Hn|].
      destruct Hp as [Hp|Hp]; [left; exact Hp|right; apply Hlive, Hp].
    + destruct (k =? k') eqn:E3; [|discriminate]. apply Z.eqb_eq in E3. subst k'.
      inversion H1; subst mq1. cbn [with_info m_parent mq0]. split; [exact Hpk|].
      destruct Hpar as [Hp|Hp]; [left; exact Hp|right; apply Hlive, Hp].
  - rewrite Hq, afind_app, (mi_noroot st Hi). destruct (k =? 0) eqn:E; [apply Z.eqb_eq in E; congruence|reflexivity].
  - rewrite Hc. cbn [upd_calc set_calc set_quota g_total st1 add_quota remake].
    destruct (par =? 0) eqn:E.
    + apply Z.eqb_eq in E. subst par. cbn [updateOneGroupMaxQuota c_total]. apply (mi_root_total st Hi).
    + destruct (k =? 0) eqn:E2; [apply Z.eqb_eq in E2; congruence|]. apply (mi_root_total st Hi).
Qed.

Lemma parent_live_found par s : parent_live par s = true -> afind par (g_quotas s) <> None.
Proof. unfold parent_live. destruct (afind par (g_quotas s)); [discriminate|discriminate]. Qed.

Lemma afind_add_quota k par isPar lnd s :
  afind k (g_quotas s) = None ->
  afind k (g_quotas (add_quota k par isPar lnd s)) = Some (mkMQ par isPar (q_new lnd 0) 0 0).
Proof. intro H. cbn [add_quota g_quotas remake]. rewrite afind_app, H, Z.eqb_refl. reflexivity. Qed.

Lemma create2_inv k par isPar lnd mx1 mx2 st :
  dinv st -> afind k (g_quotas (d_cpu st)) = None -> afind k (g_quotas (d_mem st)) = None -> k <> 0 ->
  (par = 0 \/ (afind par (g_quotas (d_cpu st)) <> None /\ afind par (g_quotas (d_mem st)) <> None)) ->
  dinv (do_max2 k mx1 mx2 (mkD (add_quota k par isPar lnd (d_cpu st)) (add_quota k par isPar lnd (d_mem st))
                               (d_alloc st) (d_pods st))).
Proof.
  intros [H1 H2] Hf1 Hf2 Hk Hpar. unfold do_max2. cbn [d_cpu d_mem].
  rewrite (afind_add_quota k par isPar lnd _ Hf1), (afind_add_quota k par isPar lnd _ Hf2).
  cbv zeta.
  match goal with |- dinv (with_halves ?s (rec_delta2 ?p ?a ?b ?x ?y)) =>
    destruct (rec_delta2_inv p a b x y) as [Ha Hb]; [| |split; assumption] end.
  - apply (create_base_inv (d_cpu st) k par isPar lnd mx1); try assumption.
    destruct Hpar as [Hp|[Hp _]]; [left|right]; assumption.
  - apply (create_base_inv (d_mem st) k par isPar lnd mx2); try assumption.
    destruct Hpar as [Hp|[_ Hp]]; [left|right]; assumption.
Qed.

Lemma update_quota2_inv gate k par isPar lnd mx1 mx2 mn1 mn2 w1 w2 st :
  dinv st -> dinv (update_quota2 gate k par isPar lnd mx1 mx2 mn1 mn2 w1 w2 st).
Proof.
  intro Hi. unfold update_quota2. cbv zeta.
  destruct (afind k (g_quotas (d_cpu st))) as [m1|] eqn:Hf1;
    destruct (afind k (g_quotas (d_mem st))) as [m2|] eqn:Hf2; try exact Hi.
  - assert (A1 : dinv (if (q_max (m_info m1) =? mx1) && (q_max (m_info m2) =? mx2) then st else do_max2 k mx1 mx2 st))
      by (destruct ((q_max (m_info m1) =? mx1) && (q_max (m_info m2) =? mx2)); [exact Hi|apply do_max2_inv, Hi]).
    set (st1 := if (q_max (m_info m1) =? mx1) && (q_max (m_info m2) =? mx2) then st else do_max2 k mx1 mx2 st) in *.
    assert (A2 : dinv (if (m_min m1 =? mn1) && (m_min m2 =? mn2) then st1 else do_min2 gate k mn1 mn2 st1))
      by (destruct ((m_min m1 =? mn1) && (m_min m2 =? mn2)); [exact A1|apply do_min2_inv, A1]).
    match goal with |- dinv (if ?c then _ else _) => destruct c end; [exact A2|apply do_weight2_inv, A2].
  - destruct (negb ((par =? 0) || (parent_live par (d_cpu st) && parent_live par (d_mem st))) || (k =? 0)) eqn:E;
      [exact Hi|].
    apply orb_false_elim in E. destruct E as [E1 E2]. apply negb_false_iff in E1. apply Z.eqb_neq in E2.
    apply do_weight2_inv, do_min2_inv, create2_inv; try assumption.
    apply orb_prop in E1. destruct E1 as [E1|E1]; [left; apply Z.eqb_eq, E1|right].
    apply andb_prop in E1. destruct E1 as [Ea Eb]. split; apply parent_live_found; assumption.
Qed.

(* ---------- DeleteQuota (one half): the quota leaves its parent's calculator ---------- *)
Lemma drop_quota_inv st k mq :
  minv st -> afind k (g_quotas st) = Some mq -> has_children k st = false ->
  minv (drop_quota k (m_parent mq) st).
Proof.
  intros Hi Hf Hch. unfold drop_quota.
  set (st1 := remake st (g_total st) (adel k (g_quotas st)) (adel k (g_calcs st)) (g_pods st)).
  set (st2 := upd_calc (m_parent mq) (deleteOneGroup k) st1).
  destruct (mi_parents st Hi k mq Hf) as [Hpk Hpl].
  assert (Hk0 : k <> 0) by (intro E; subst k; rewrite (mi_noroot st Hi) in Hf; discriminate).
  assert (Hc : forall p, get_calc p st2 = if m_parent mq =? p then deleteOneGroup k (get_calc (m_parent mq) st)
                                        else if k =? p then calc0 else get_calc p st).
  { intro p. unfold st2. rewrite get_calc_upd.
    assert (Hg : forall p', get_calc p' st1 = if k =? p' then calc0 else get_calc p' st).
    { intro p'. unfold get_calc. cbn [st1 g_calcs remake]. rewrite afind_adel. destruct (k =? p'); reflexivity. }
    rewrite !Hg. destruct (k =? m_parent mq) eqn:E; [apply Z.eqb_eq in E; congruence|]. reflexivity. }
  constructor.
  - cbn [st2 upd_calc set_calc g_quotas st1 remake]. unfold adel. apply NoDup_map_filter, (mi_nodup st Hi).
  - intro p. unfold wld. rewrite Hc. cbn [st2 upd_calc set_calc g_quotas st1 remake]. rewrite kids_adel.
    destruct (m_parent mq =? p) eqn:E.
    + apply Z.eqb_eq in E. subst p.
      pose proof (step_inv _ (ODelete k) (mi_worlds st Hi (m_parent mq))) as H.
      cbn [step wld w_tab w_calc] in H. rewrite (kids_live st k mq Hi Hf) in H. exact H.
    + apply Z.eqb_neq in E. rewrite tab_del_absent by (eapply kids_not_mine; eassumption).
      destruct (k =? p) eqn:E2; [|apply (mi_worlds st Hi p)].
      apply Z.eqb_eq in E2. subst p. rewrite (no_children_kids st k Hch). apply world0_calc_inv.
  - intros k' mq1 H1. cbn [st2 upd_calc set_calc g_quotas st1 remake] in *. rewrite afind_adel in H1.
    destruct (k =? k') eqn:E; [discriminate|].
    destruct (mi_parents st Hi k' mq1 H1) as [Hn Hp]. split; [exact Hn|].
    destruct Hp as [Hp|Hp]; [left; exact Hp|right]. rewrite afind_adel.
    destruct (k =? m_parent mq1) eqn:E2; [|exact Hp].
    apply Z.eqb_eq in E2. exfalso.
    assert (X : existsb (fun p => m_parent (snd p) =? k) (g_quotas st) = true).
    { apply existsb_exists. exists (k', mq1). split; [apply afind_In, H1|]. cbn. apply Z.eqb_eq. congruence. }
    unfold has_children in Hch. congruence.
  - cbn [st2 upd_calc set_calc g_quotas st1 remake]. rewrite afind_adel, (mi_noroot st Hi). destruct (k =? 0); reflexivity.
  - rewrite Hc. cbn [st2 upd_calc set_calc g_total st1 remake].
    destruct (m_parent mq =? 0) eqn:E.
    + apply Z.eqb_eq in E. rewrite E. cbn [deleteOneGroup c_total]. apply (mi_root_total st Hi).
    + destruct (k =? 0) eqn:E2; [apply Z.eqb_eq in E2; congruence|]. apply (mi_root_total st Hi).
Qed.

Lemma delete_quota2_inv gate fxd k st : dinv st -> dinv (delete_quota2 gate fxd k st).
Proof.
  intros [H1 H2]. unfold delete_quota2.
  destruct (afind k (g_quotas (d_cpu st))) as [m1|] eqn:Hf1; [|split; assumption].
  destruct (afind k (g_quotas (d_mem st))) as [m2|] eqn:Hf2; [|split; assumption].
  destruct (has_children k (d_cpu st) || has_children k (d_mem st)) eqn:Hch; [split; assumption|].
  apply orb_false_elim in Hch. destruct Hch as [Hc1 Hc2]. cbv zeta.
  match goal with |- context [mkD (drop_quota k ?p1 ?x) (drop_quota k ?p2 ?y) ?a ?b] =>
    set (st1 := mkD (drop_quota k p1 x) (drop_quota k p2 y) a b) end.
  assert (A1 : dinv st1) by (split; cbn [st1 d_cpu d_mem]; apply drop_quota_inv; assumption).
  assert (A2 : forall c p a b, dinv (if c : bool then st1 else request_walk p a b st1))
    by (intros c p a b; destruct c; [exact A1|apply request_walk_inv, A1]).
  match goal with |- context [if ?c then st1 else request_walk ?p ?a ?b st1] =>
    specialize (A2 c p a b); set (st2 := if c then st1 else request_walk p a b st1) in * end.
  destruct fxd; [apply used_walk_inv, A2|].
  match goal with |- dinv (if ?c then _ else _) => destruct c end; [exact A2|apply used_walk_inv, A2].
Qed.

(* ---------- pods ---------- *)
Lemma set_pods_inv ps st : dinv st -> dinv (set_pods ps st).
Proof. intro H. exact H. Qed.

Lemma pod_request_inv k d1 d2 st : dinv st -> dinv (pod_request k d1 d2 st).
Proof. intro H. unfold pod_request. destruct (_ && _); [exact H|apply request_walk_inv, H]. Qed.

Lemma pod_used_inv gate k d1 d2 st : dinv st -> dinv (pod_used gate k d1 d2 st).
Proof. intro H. unfold pod_used. destruct (_ && _); [exact H|apply used_walk_inv, H]. Qed.

Lemma pod_leave_inv gate k s st : dinv st -> dinv (pod_leave gate k s st).
Proof.
  intro H. unfold pod_leave. destruct (pod_find2 k s st) as [p|]; [|exact H]. cbv zeta.
  unfold del_pod. apply set_pods_inv.
  destruct (p_assigned p); [apply pod_used_inv|]; apply pod_request_inv, H.
Qed.

Lemma pod_arrive_inv gate k s c m asg st : dinv st -> dinv (pod_arrive gate k s c m asg st).
Proof.
  intro H. unfold pod_arrive. cbv zeta.
  assert (A : dinv (pod_request k c m (put_pod (mkPod k s c m false) st))) by (apply pod_request_inv; exact H).
  destruct asg; [|exact A]. apply pod_used_inv. exact A.
Qed.

Lemma pod_set2_inv gate k s c m asg st : dinv st -> dinv (pod_set2 gate k s c m asg st).
Proof.
  intro H. unfold pod_set2. destruct (afind k (g_quotas (d_cpu st))) as [mq|]; [|exact H].
  destruct (m_isParent mq); [exact H|]. cbv zeta.
  destruct (_ && _); [apply pod_leave_inv, H|apply pod_arrive_inv, pod_leave_inv, H].
Qed.

Lemma pod_resize_inv gate k s c m st : dinv st -> dinv (pod_resize gate k s c m st).
Proof.
  intro H. unfold pod_resize. destruct (pod_find2 k s st) as [p|]; [|exact H]. cbv zeta.
  assert (A : dinv (pod_request k (c - p_cpu p) (m - p_mem p) (put_pod (mkPod k s c m (p_assigned p)) st)))
    by (apply pod_request_inv; exact H).
  destruct (p_assigned p); [apply pod_used_inv|]; exact A.
Qed.

Lemma pod_reserve_inv gate k s st : dinv st -> dinv (pod_reserve gate k s st).
Proof.
  intro H. unfold pod_reserve. destruct (pod_find2 k s st) as [p|]; [|exact H].
  destruct (p_assigned p); [exact H|]. apply pod_used_inv. exact H.
Qed.

Lemma pod_unreserve_inv gate k s st : dinv st -> dinv (pod_unreserve gate k s st).
Proof.
  intro H. unfold pod_unreserve. destruct (pod_find2 k s st) as [p|]; [|exact H].
  destruct (p_assigned p); [|exact H].
  unfold put_pod. apply set_pods_inv. apply pod_used_inv, H.
Qed.

(* ---------- cluster total ---------- *)
Lemma force_total_inv t st : minv st -> minv (force_total t st).
Proof.
  intro Hi. unfold force_total.
  apply (calc_only_inv st _ 0 (setClusterTotalResource t (get_calc 0 st))); try assumption.
  - reflexivity.
  - intro p'. rewrite get_calc_upd. reflexivity.
  - pose proof (step_inv _ (OSetTotal t) (mi_worlds st Hi 0)) as H. exact H.
  - rewrite get_calc_upd. reflexivity.
Qed.

Lemma set_total2_inv t1 t2 st : dinv st -> dinv (set_total2 t1 t2 st).
Proof.
  intros [H1 H2]. unfold set_total2. destruct (_ && _); [split; assumption|].
  split; cbn [d_cpu d_mem]; apply force_total_inv; assumption.
Qed.

Lemma dstep_inv gate fxd st o : dinv st -> dinv (dstep gate fxd st o).
Proof.
  intro Hi. destruct o; cbn [dstep].
  - apply update_quota2_inv, Hi.
  - apply delete_quota2_inv, Hi.
  - apply pod_set2_inv, Hi.
  - apply set_total2_inv, Hi.
  - exact Hi.
  - apply pod_reserve_inv, Hi.
  - apply pod_unreserve_inv, Hi.
  - apply pod_resize_inv, Hi.
Qed.

(* ---------- RefreshRuntime, histories ---------- *)
Lemma refresh2_inv k st : dinv st -> dinv (refresh2 k st).
Proof. intros [H1 H2]. split; cbn [refresh2 d_cpu d_mem]; apply refresh_inv; assumption. Qed.

Lemma dobserve_inv ks : forall st, dinv st -> dinv (fst (dobserve ks st)).
Proof.
  induction ks as [|k ks IH]; intros st Hi; [exact Hi|].
  cbn [dobserve]. destruct (afind k (g_quotas (d_cpu st))) as [mq|] eqn:Hf.
  - specialize (IH (refresh2 k st) (refresh2_inv k st Hi)).
    destruct (dobserve ks (refresh2 k st)) as [st' o]. exact IH.
  - specialize (IH st Hi). destruct (dobserve ks st) as [st' o]. exact IH.
Qed.

Lemma dmgr0_inv : dinv dmgr0.
Proof. split; apply mgr0_inv. Qed.

Theorem drun_inv gate fxd K ops : dinv (drun gate fxd K ops).
Proof.
  unfold drun. assert (H : forall st, dinv st -> dinv (fold_left (dostep gate fxd K) ops st)).
  { induction ops as [|o ops IH]; intros st Hi; [exact Hi|].
    cbn [fold_left]. apply IH. apply dobserve_inv, dstep_inv, Hi. }
  apply H, dmgr0_inv.
Qed.

(* ---------- the exported statements ---------- *)
Definition half (mem : bool) (st : dmgr) : mgr := if mem then d_mem st else d_cpu st.

Lemma dims_calculators_agree gate fxd K ops mem p :
  let st := half mem (drun gate fxd K ops) in let c := get_calc p st in let tb := kids p (g_quotas st) in
  c_tree c = abs tb
  /\ (forall k, c_get k (c_reqLimit c) = match tab_find k tb with Some q => limit_req q | None => 0 end)
  /\ (forall k, c_get k (c_guaranteed c) = match tab_find k tb with Some q => q_guar q | None => 0 end)
  /\ c_total (get_calc 0 st) = g_total st.
Proof.
  cbv zeta. destruct (drun_inv gate fxd K ops) as [H1 H2].
  assert (Hi : minv (half mem (drun gate fxd K ops))) by (destruct mem; assumption).
  pose proof (mi_worlds _ Hi p) as Hw. repeat split.
  - exact (inv_tree _ Hw).
  - exact (inv_req _ Hw).
  - exact (inv_guar _ Hw).
  - exact (mi_root_total _ Hi).
Qed.

(* RefreshRuntime(k) after any history: per dimension, the from-scratch division top-down along k's path *)
Lemma dims_refresh_division gate fxd K ops mem k mq :
  let st := half mem (drun gate fxd K ops) in
  afind k (g_quotas st) = Some mq ->
  let pth := rev (path k st) in
  let top := top_parent pth st in
  half mem (refresh2 k (drun gate fxd K ops)) = refresh false k st
  /\ same_figs st (refresh false k st)
  /\ (top = 0 -> c_total (get_calc top st) = g_total st)
  /\ exists mq', afind k (g_quotas (refresh false k st)) = Some mq'
                 /\ down pth (c_total (get_calc top st)) st = Some (q_runtime (m_info mq')).
Proof.
  intros st Hf pth top. destruct (drun_inv gate fxd K ops) as [H1 H2].
  assert (Hi : minv st) by (unfold st; destruct mem; assumption).
  destruct (refresh_division st k mq Hi Hf) as [Hs Hd].
  split; [unfold st; destruct mem; reflexivity|].
  split; [exact Hs|]. split; [|exact Hd].
  intro E. rewrite E. apply (mi_root_total _ Hi).
Qed.
