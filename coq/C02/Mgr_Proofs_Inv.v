(* C02 / manager — the invariant of the (repaired, cf84410) GroupQuotaManager model: after any
   history EVERY calculator of the tree satisfies Calc_Proofs_Inv.calc_inv with respect to the
   current QuotaInfo figures of the quotas whose parent it serves. *)
From Coq Require Import List ZArith Bool Lia Permutation.
From Verif Require Import C02.Model C02.Calc_Model C02.Calc_Proofs_Inv C02.Mgr_Model C02.Mgr_Proofs_Base.
Import ListNotations.
Open Scope Z_scope.

Record minv (st : mgr) : Prop := mkMinv {
  mi_nodup : NoDup (map fst (g_quotas st));
  mi_worlds : forall p, calc_inv (wld p st);
  mi_parents : forall k mq, afind k (g_quotas st) = Some mq ->
      m_parent mq <> k /\ (m_parent mq = 0 \/ afind (m_parent mq) (g_quotas st) <> None);
  mi_noroot : afind 0 (g_quotas st) = None;
  mi_root_total : c_total (get_calc 0 st) = g_total st }.

Lemma world0_calc_inv : calc_inv (mkW calc0 []).
Proof.
  constructor; cbn.
  - constructor.
  - reflexivity.
  - intro; reflexivity.
  - intro; reflexivity.
  - lia.
  - intros; discriminate.
Qed.

Lemma mgr0_inv : minv mgr0.
Proof.
  constructor; cbn.
  - constructor.
  - intro p. unfold wld, get_calc. cbn. destruct p; apply world0_calc_inv.
  - intros; discriminate.
  - reflexivity.
  - reflexivity.
Qed.

(* pods are no part of the invariant *)
Lemma minv_pods st pods' : minv st -> minv (remake st (g_total st) (g_quotas st) (g_calcs st) pods').
Proof. intros [H1 H2 H3 H4 H5]. constructor; assumption. Qed.

Lemma live_unique st k mq e : minv st -> afind k (g_quotas st) = Some mq -> In e (g_quotas st) -> fst e = k -> snd e = mq.
Proof.
  intros Hi Hf He Hk. destruct e as [k' mq']. cbn in *. subst k'.
  apply (In_afind _ _ _ (mi_nodup st Hi)) in He. congruence.
Qed.

Lemma kids_live st k mq : minv st -> afind k (g_quotas st) = Some mq ->
  tab_find k (kids (m_parent mq) (g_quotas st)) = Some (m_info mq).
Proof. intros Hi Hf. rewrite (kids_find _ _ _ (mi_nodup st Hi)), Hf, Z.eqb_refl. reflexivity. Qed.

Lemma kids_not_mine st k mq p : minv st -> afind k (g_quotas st) = Some mq -> m_parent mq <> p ->
  ~ In k (map fst (kids p (g_quotas st))).
Proof.
  intros Hi Hf Hp. apply tab_find_None. rewrite (kids_find _ _ _ (mi_nodup st Hi)), Hf.
  destruct (m_parent mq =? p) eqn:E; [apply Z.eqb_eq in E; congruence|reflexivity].
Qed.

Lemma kids_dead st k p : afind k (g_quotas st) = None -> ~ In k (map fst (kids p (g_quotas st))).
Proof. intros Hf Hin. apply kids_keys_incl in Hin. apply afind_None in Hf. exact (Hf Hin). Qed.

(* ---------- one quota's record is replaced (same parent), its parent's calculator becomes C ---------- *)
Lemma replace_inv st st' k mq mq' C :
  minv st -> afind k (g_quotas st) = Some mq -> m_parent mq' = m_parent mq ->
  g_quotas st' = repl k mq' (g_quotas st) -> g_total st' = g_total st ->
  (forall p, get_calc p st' = if m_parent mq =? p then C else get_calc p st) ->
  calc_inv (mkW C (tab_upd k (fun _ => m_info mq') (kids (m_parent mq) (g_quotas st)))) ->
  c_total C = c_total (get_calc (m_parent mq) st) ->
  minv st'.
Proof.
  intros Hi Hf Hpar Hq Hto Hc Hw Htot.
  constructor.
  - rewrite Hq, repl_keys. apply (mi_nodup st Hi).
  - intro p. unfold wld. rewrite Hq, Hc.
    rewrite kids_repl by (intros e He Hk; rewrite (live_unique st k mq e Hi Hf He Hk); congruence).
    destruct (m_parent mq =? p) eqn:E.
    + apply Z.eqb_eq in E. subst p. exact Hw.
    + apply Z.eqb_neq in E. rewrite tab_upd_absent by (eapply kids_not_mine; eassumption).
      apply (mi_worlds st Hi p).
  - intros k' mq0 H0. rewrite Hq, afind_repl in H0. rewrite Hq.
    assert (Hlive : forall j, afind j (g_quotas st) <> None -> afind j (repl k mq' (g_quotas st)) <> None).
    { intros j Hj. rewrite afind_repl. destruct (k =? j); [|exact Hj].
      destruct (afind j (g_quotas st)); [discriminate|congruence]. }
    destruct (k =? k') eqn:E.
    + apply Z.eqb_eq in E. subst k'. rewrite Hf in H0. cbn in H0. inversion H0; subst mq0.
      rewrite Hpar. destruct (mi_parents st Hi k mq Hf) as [Hn Hp]. split; [exact Hn|].
      destruct Hp as [Hp|Hp]; [left; exact Hp|right; apply Hlive, Hp].
    + destruct (mi_parents st Hi k' mq0 H0) as [Hn Hp]. split; [exact Hn|].
      destruct Hp as [Hp|Hp]; [left; exact Hp|right; apply Hlive, Hp].
  - rewrite Hq, afind_repl, (mi_noroot st Hi). destruct (k =? 0); reflexivity.
  - rewrite Hc, Hto. destruct (m_parent mq =? 0) eqn:E; [|apply (mi_root_total st Hi)].
    apply Z.eqb_eq in E. rewrite Htot, E. apply (mi_root_total st Hi).
Qed.

Lemma push_inv st k mq mq' push :
  minv st -> afind k (g_quotas st) = Some mq -> m_parent mq' = m_parent mq ->
  calc_inv (mkW (push (get_calc (m_parent mq) st))
                (tab_upd k (fun _ => m_info mq') (kids (m_parent mq) (g_quotas st)))) ->
  (forall c, c_total (push c) = c_total c) ->
  minv (upd_calc (m_parent mq) push (set_quota k mq' st)).
Proof.
  intros Hi Hf Hpar Hw Htot.
  apply (replace_inv st _ k mq mq' (push (get_calc (m_parent mq) st))); try assumption.
  - cbn. apply (aset_live k mq' mq), Hf.
  - reflexivity.
  - intro p. rewrite get_calc_upd, get_calc_set_quota. reflexivity.
  - apply Htot.
Qed.

(* only the stamps of quota k change (RefreshRuntime) *)
Lemma set_quota_inv st k mq mq' :
  minv st -> afind k (g_quotas st) = Some mq -> m_parent mq' = m_parent mq ->
  calc_inv (mkW (get_calc (m_parent mq) st)
                (tab_upd k (fun _ => m_info mq') (kids (m_parent mq) (g_quotas st)))) ->
  minv (set_quota k mq' st).
Proof.
  intros Hi Hf Hpar Hw.
  apply (replace_inv st _ k mq mq' (get_calc (m_parent mq) st)); try assumption; try reflexivity.
  - cbn. apply (aset_live k mq' mq), Hf.
  - intro p. rewrite get_calc_set_quota. destruct (m_parent mq =? p) eqn:E; [|reflexivity].
    apply Z.eqb_eq in E. subst p. reflexivity.
Qed.

(* only calculator p changes *)
Lemma calc_only_inv st st' p C :
  minv st -> g_quotas st' = g_quotas st ->
  (forall p', get_calc p' st' = if p =? p' then C else get_calc p' st) ->
  calc_inv (mkW C (kids p (g_quotas st))) ->
  c_total (get_calc 0 st') = g_total st' ->
  minv st'.
Proof.
  intros Hi Hq Hc Hw Ht. constructor.
  - rewrite Hq. apply (mi_nodup st Hi).
  - intro p'. unfold wld. rewrite Hq, Hc. destruct (p =? p') eqn:E.
    + apply Z.eqb_eq in E. subst p'. exact Hw.
    + apply (mi_worlds st Hi p').
  - rewrite Hq. apply (mi_parents st Hi).
  - rewrite Hq. apply (mi_noroot st Hi).
  - exact Ht.
Qed.

(* what a Calc_Model op on child k does to the world of its parent *)
Lemma on_live_wld st k mq g push :
  minv st -> afind k (g_quotas st) = Some mq ->
  on_live (wld (m_parent mq) st) k g push
  = mkW (push k (g (m_info mq)) (get_calc (m_parent mq) st))
        (tab_upd k (fun _ => g (m_info mq)) (kids (m_parent mq) (g_quotas st))).
Proof.
  intros Hi Hf. unfold on_live, wld. cbn [w_tab w_calc]. rewrite (kids_live st k mq Hi Hf).
  f_equal. apply tab_upd_const. intros q' Hin.
  pose proof (kids_nodup (m_parent mq) _ (mi_nodup st Hi)) as Hnd.
  apply (In_tab_find _ _ _ Hnd) in Hin. rewrite (kids_live st k mq Hi Hf) in Hin. congruence.
Qed.

Lemma push_request_total k q c : c_total (push_request k q c) = c_total c.
Proof. unfold push_request. destruct (needUpdateOneGroupRequest k q c); reflexivity. Qed.

(* ---------- recursiveUpdateGroupTreeWithDeltaRequest ---------- *)
Lemma rec_delta_inv pth : forall delta st, minv st -> minv (rec_delta pth delta st).
Proof.
  induction pth as [|k rest IH]; intros delta st Hi; [exact Hi|].
  cbn [rec_delta]. destruct (afind k (g_quotas st)) as [mq|] eqn:Hf; [|exact Hi].
  cbv zeta. apply IH.
  set (cr := Z.max 0 (m_childReq mq + delta)).
  set (q' := q_set_req (real_request mq cr) (m_info mq)).
  apply (push_inv st k mq (mkMQ (m_parent mq) (m_isParent mq) q' (m_min mq) cr) (push_request k q'));
    try assumption; try reflexivity.
  - cbn [m_info]. pose proof (step_inv _ (OSetReq k (real_request mq cr)) (mi_worlds st Hi (m_parent mq))) as H.
    cbn [step] in H. rewrite (on_live_wld st k mq _ _ Hi Hf) in H. exact H.
  - intro c. apply push_request_total.
Qed.

(* ---------- doUpdateOneGroupMax/Min/SharedWeightNoLock ---------- *)
Lemma do_max_inv k v st : minv st -> minv (do_max k v st).
Proof.
  intro Hi. unfold do_max. destruct (afind k (g_quotas st)) as [mq|] eqn:Hf; [|exact Hi].
  cbv zeta. apply rec_delta_inv.
  apply (push_inv st k mq (with_info mq (q_set_max v (m_info mq))) (updateOneGroupMaxQuota k (q_set_max v (m_info mq))));
    try assumption; try reflexivity.
  cbn [with_info m_info].
  pose proof (step_inv _ (OSetMax k v) (mi_worlds st Hi (m_parent mq))) as H.
  cbn [step] in H. rewrite (on_live_wld st k mq _ _ Hi Hf) in H. exact H.
Qed.

Lemma do_weight_inv k v st : minv st -> minv (do_weight k v st).
Proof.
  intro Hi. unfold do_weight. destruct (afind k (g_quotas st)) as [mq|] eqn:Hf; [|exact Hi].
  cbv zeta.
  apply (push_inv st k mq (with_info mq (q_set_weight v (m_info mq))) (updateOneGroupSharedWeight k (q_set_weight v (m_info mq))));
    try assumption; try reflexivity.
  cbn [with_info m_info].
  pose proof (step_inv _ (OSetWeight k v) (mi_worlds st Hi (m_parent mq))) as H.
  cbn [step] in H. rewrite (on_live_wld st k mq _ _ Hi Hf) in H. exact H.
Qed.

(* on a node that exists, only the pushed figure of the QuotaInfo is read *)
Lemma upsert_live k q1 q2 f t : t_mem k t = true -> upsert k q1 f t = upsert k q2 f t.
Proof. intro H. unfold upsert. rewrite H. reflexivity. Qed.

Lemma do_min_inv k v st : minv st -> minv (do_min true k v st).
Proof.
  intro Hi. unfold do_min. destruct (afind k (g_quotas st)) as [mq|] eqn:Hf; [|exact Hi].
  cbv zeta. apply rec_delta_inv.
  set (q := m_info mq).
  set (mq1 := mkMQ (m_parent mq) (m_isParent mq) (q_set_min v q) v (m_childReq mq)).
  set (r := real_request mq1 (m_childReq mq)).
  set (q' := q_set_req r (q_set_min v q)).
  apply (push_inv st k mq (with_info mq1 q')
           (fun c => push_request k q' (updateOneGroupMinQuota k q' c)));
    try assumption; try reflexivity.
  - cbn [with_info m_info].
    (* the parent's world makes the two Calc_Model steps  min := v ; request := r *)
    pose proof (mi_worlds st Hi (m_parent mq)) as Hw.
    pose proof (step_inv _ (OSetMin k v) Hw) as H1.
    cbn [step] in H1. rewrite (on_live_wld st k mq _ _ Hi Hf) in H1. fold q in H1.
    pose proof (step_inv _ (OSetReq k r) H1) as H2.
    cbn [step] in H2. unfold on_live in H2. cbn [w_tab w_calc] in H2.
    rewrite tab_find_upd, Z.eqb_refl in H2.
    assert (Hk : tab_find k (kids (m_parent mq) (g_quotas st)) = Some q) by (apply kids_live; assumption).
    rewrite Hk in H2. cbn [option_map] in H2. fold q' in H2.
    assert (Hc : updateOneGroupMinQuota k q' (get_calc (m_parent mq) st)
                 = updateOneGroupMinQuota k (q_set_min v q) (get_calc (m_parent mq) st)).
    { unfold updateOneGroupMinQuota. f_equal. cbn [q' q_set_req q_min].
      apply upsert_live. pose proof (inv_tree _ Hw) as Ht0. cbn [wld w_calc w_tab] in Ht0.
      rewrite Ht0, t_mem_abs, Hk. reflexivity. }
    rewrite Hc.
    assert (Ht : tab_upd k (fun _ => q') (kids (m_parent mq) (g_quotas st))
                 = tab_upd k (q_set_req r) (tab_upd k (fun _ => q_set_min v q) (kids (m_parent mq) (g_quotas st)))).
    { unfold tab_upd. rewrite map_map. apply map_ext. intro p.
      destruct (fst p =? k) eqn:E; cbn [fst snd]; rewrite ?E; reflexivity. }
    rewrite Ht. exact H2.
  - intro c. rewrite push_request_total. reflexivity.
Qed.
