(* C02 / dims — specification side of the "dims" stream.  The CURRENT objects (quotas with parent /
   max / min / sharedWeight / allowLent in both dimensions, the pods of every leaf with their
   requests and whether they are assigned, the cluster total) are recomputed from the op history
   alone.  Per dimension, every quota's request is computed FROM SCRATCH bottom-up (as in
   Mgr_Spec.up_request) and — with ElasticQuotaGuaranteeUsage on — every quota's guarantee is
   computed FROM SCRATCH bottom-up as well:
       allocated(k) = sum of the requests of the ASSIGNED pods of k + sum of guaranteed(c), c child of k
       guaranteed(k) = max(allocated(k), min(k))
   At every level of the tree, in each dimension, the C02 clauses (C02.Spec.prop_code) are decided on
   the runtimes the IMPLEMENTATION logged for the children of one parent, against those from-scratch
   siblings {request, sharedWeight, min, guarantee, allowLent} and the parent's logged runtime as the
   total.  Clause ids: 140 + c for cpu, 240 + c for memory (c the clause of C02.Spec.prop_code; 6 = equal
   inputs, different division), 48 = live / not-live marks, 49 = length. *)
From Coq Require Import List ZArith Bool.
From Verif Require Import Lib.Wire C02.Model C02.Spec C02.Calc_Model C02.Mgr_Model C02.Mgr_Spec C02.Dim_Model.
Import ListNotations.
Open Scope Z_scope.

Record dobj := mkDObj { b_parent : Z; b_isParent : bool; b_lend : bool;
                        b_max1 : Z; b_max2 : Z; b_min1 : Z; b_min2 : Z; b_w1 : Z; b_w2 : Z }.
Record dobjs := mkDObjs { bs_t1 : Z; bs_t2 : Z; bs_quotas : list (Z * dobj); bs_pods : list dpod }.
Definition dobjs0 : dobjs := mkDObjs 0 0 [] [].

Definition b_children (k : Z) (s : dobjs) : list (Z * dobj) := filter (fun p => b_parent (snd p) =? k) (bs_quotas s).
Definition b_pod (k sl : Z) (s : dobjs) : option dpod :=
  match filter (pod_is k sl) (bs_pods s) with p :: _ => Some p | [] => None end.
Definition b_without (k sl : Z) (s : dobjs) : list dpod := filter (fun p => negb (pod_is k sl p)) (bs_pods s).
Definition b_set_pods (ps : list dpod) (s : dobjs) : dobjs := mkDObjs (bs_t1 s) (bs_t2 s) (bs_quotas s) ps.

Definition dobjs_step (gate : bool) (s : dobjs) (o : dop) : dobjs :=
  match o with
  | DUpdate k par isPar lnd mx1 mx2 mn1 mn2 w1 w2 =>
      let ew := eff_weight2 mx1 mx2 w1 w2 in
      match afind k (bs_quotas s) with
      | None =>
          let parent_ok := (par =? 0) || match afind par (bs_quotas s) with Some p => b_isParent p | None => false end in
          if negb parent_ok || (k =? 0) then s
          else mkDObjs (bs_t1 s) (bs_t2 s)
                 (bs_quotas s ++ [(k, mkDObj par isPar (if gate then false else lnd) mx1 mx2 mn1 mn2 (fst ew) (snd ew))])
                 (bs_pods s)
      | Some ob =>
          mkDObjs (bs_t1 s) (bs_t2 s)
                  (aset k (mkDObj (b_parent ob) (b_isParent ob) (b_lend ob) mx1 mx2 mn1 mn2 (fst ew) (snd ew)) (bs_quotas s))
                  (bs_pods s)
      end
  | DDelete k =>
      match afind k (bs_quotas s), b_children k s with
      | Some _, [] => mkDObjs (bs_t1 s) (bs_t2 s) (adel k (bs_quotas s)) (filter (fun p => negb (p_quota p =? k)) (bs_pods s))
      | _, _ => s
      end
  | DPod k sl c m asg =>
      match afind k (bs_quotas s) with
      | Some ob =>
          if b_isParent ob then s else
          b_set_pods (if (c =? 0) && (m =? 0) then b_without k sl s else b_without k sl s ++ [mkPod k sl c m asg]) s
      | None => s
      end
  | DTotal t1 t2 => mkDObjs t1 t2 (bs_quotas s) (bs_pods s)
  | DNoop => s
  | DReserve k sl =>
      match b_pod k sl s with
      | Some p => b_set_pods (b_without k sl s ++ [mkPod k sl (p_cpu p) (p_mem p) true]) s
      | None => s
      end
  | DUnreserve k sl =>
      match b_pod k sl s with
      | Some p => b_set_pods (b_without k sl s ++ [mkPod k sl (p_cpu p) (p_mem p) false]) s
      | None => s
      end
  | DResize k sl c m =>
      match b_pod k sl s with
      | Some p => b_set_pods (b_without k sl s ++ [mkPod k sl c m (p_assigned p)]) s
      | None => s
      end
  end.

(* ---------- one dimension of the current objects, in the vocabulary of Mgr_Spec ---------- *)
Definition proj_obj (mem : bool) (ob : dobj) : obj :=
  if mem then mkObj (b_parent ob) (b_isParent ob) (b_lend ob) (b_max2 ob) (b_min2 ob) (b_w2 ob)
  else mkObj (b_parent ob) (b_isParent ob) (b_lend ob) (b_max1 ob) (b_min1 ob) (b_w1 ob).
Definition pod_dim (mem : bool) (p : dpod) : Z := if mem then p_mem p else p_cpu p.
Definition proj (mem : bool) (s : dobjs) : objs :=
  mkObjs (if mem then bs_t2 s else bs_t1 s)
         (map (fun e => (fst e, proj_obj mem (snd e))) (bs_quotas s))
         (map (fun p => (p_quota p, p_slot p, pod_dim mem p)) (bs_pods s)) true.
(* the assigned pods only: what is "used" *)
Definition proj_used (mem : bool) (s : dobjs) : list (Z * Z * Z) :=
  map (fun p => (p_quota p, p_slot p, pod_dim mem p)) (filter p_assigned (bs_pods s)).

(* the guarantee of a quota, from scratch *)
Fixpoint guar_of (fuel : nat) (s : objs) (used : list (Z * Z * Z)) (k : Z) (ob : obj) : Z :=
  match fuel with
  | O => 0
  | S f =>
      let al := sumZ (map snd (filter (fun p => fst (fst p) =? k) used))
                + sumZ (map (fun p => guar_of f s used (fst p) (snd p)) (obj_children k s)) in
      Z.max al (o_min ob)
  end.

Definition dgroup_nodes (gate : bool) (s : objs) (used : list (Z * Z * Z)) (g : Z) : list (Z * node) :=
  let fuel := S (length (os_quotas s)) in
  map (fun ip => let '(i, (k, ob)) := ip in
                 (k, mkNode i (up_request fuel s k ob) (o_weight ob) (o_min ob)
                            (if gate then guar_of fuel s used k ob else 0) (o_lend ob)))
      (number 1 (sort_ids (obj_children g s))).

(* the runtimes of quota k in the observation of one step: 2 integers per name *)
Definition dlogged (mem : bool) (o : list Z) (k : Z) : Z :=
  nth (2 * (Z.to_nat k - 1) + (if mem then 1 else 0)) o (-1).

(* one group in one dimension: parent g (0 = root) with total t *)
Definition dgroup_code (gate mem : bool) (s : objs) (used : list (Z * Z * Z)) (o : list Z) (g t : Z) (sn : seen) : Z * seen :=
  let kn := dgroup_nodes gate s used g in
  match kn with
  | [] => (0, sn)
  | _ =>
      let ns := map snd kn in
      let rts := map (fun p => dlogged mem o (fst p)) kn in
      let c := prop_code t ns rts in
      if negb (c =? 0) then ((if mem then 240 else 140) + c, sn)
      else if negb (pure_ok t ns rts sn) then ((if mem then 246 else 146), sn)
      else (0, (t, ns, rts) :: sn)
  end.

Fixpoint dgroups_code (gate mem : bool) (s : objs) (used : list (Z * Z * Z)) (o : list Z) (gs : list Z) (sn : seen) : Z * seen :=
  match gs with
  | [] => (0, sn)
  | g :: rest =>
      let t := if g =? 0 then os_total s else dlogged mem o g in
      let '(c, sn') := dgroup_code gate mem s used o g t sn in
      if negb (c =? 0) then (c, sn) else dgroups_code gate mem s used o rest sn'
  end.

Definition dmarks_ok (K : nat) (s : dobjs) (o : list Z) : bool :=
  forallb (fun k => match afind k (bs_quotas s) with
                    | Some _ => negb (dlogged false o k =? -1) && negb (dlogged true o k =? -1)
                    | None => (dlogged false o k =? -1) && (dlogged true o k =? -1)
                    end) (ids K).

Definition parents_of (s : dobjs) : list Z := 0 :: map fst (filter (fun p => b_isParent (snd p)) (bs_quotas s)).

(* [sn1] / [sn2]: the divisions seen so far in the cpu / memory dimension *)
Definition dstep_code (gate : bool) (K : nat) (s : dobjs) (o : list Z) (sn1 sn2 : seen) : Z * seen * seen :=
  if negb (Nat.eqb (length o) (2 * K)) then (49, sn1, sn2)
  else if negb (dmarks_ok K s o) then (48, sn1, sn2)
  else
    let '(c1, sn1') := dgroups_code gate false (proj false s) (proj_used false s) o (parents_of s) sn1 in
    if negb (c1 =? 0) then (c1, sn1, sn2) else
    let '(c2, sn2') := dgroups_code gate true (proj true s) (proj_used true s) o (parents_of s) sn2 in
    if negb (c2 =? 0) then (c2, sn1, sn2) else (0, sn1', sn2').

Fixpoint dcheck (gate : bool) (K : nat) (s : dobjs) (sn1 sn2 : seen) (ops : list dop) (obs : list Z) : Z :=
  match ops with
  | [] => if is_nil obs then 0 else 49
  | o :: t =>
      let s' := dobjs_step gate s o in
      let '(c, sn1', sn2') := dstep_code gate K s' (firstn (2 * K) obs) sn1 sn2 in
      if negb (c =? 0) then c else dcheck gate K s' sn1' sn2' t (skipn (2 * K) obs)
  end.

(* ---------- wire format ----------
   input: K + 100*gate, n, then n records  code k a b c d e f g h
     0 UpdateQuota(k, parent=a, flags=b (1: isParent, 2: allowLent), max=(c cpu-milli, d bytes), min=(e, f), sharedWeight=(g, h))
     1 DeleteQuota(k)
     2 the pod of (k, slot a) leaves; unless b = c = 0 one requesting (b milli-cpu, c bytes) arrives, d = 1: already bound to a node
     3 cluster total = (a, b)     4 observe only
     5 ReservePod(k, slot a)      6 UnreservePod(k, slot a)
     7 OnPodUpdate: the pod of (k, slot a) now requests (b, c)
   observable: after every op RefreshRuntime(q01..qK) in name order: cpu (milli) and memory, -1 -1 for a name that is not live *)
Definition decode_dop (c k a b x d e f g h : Z) : dop :=
  if c =? 0 then DUpdate k a (Z.odd b) (Z.odd (b / 2)) x d e f g h
  else if c =? 1 then DDelete k
  else if c =? 2 then DPod k a b x (d =? 1)
  else if c =? 3 then DTotal a b
  else if c =? 5 then DReserve k a
  else if c =? 6 then DUnreserve k a
  else if c =? 7 then DResize k a b x
  else DNoop.

Fixpoint decode_dops (n : nat) (l : list Z) : list dop :=
  match n, l with
  | S n', c :: k :: a :: b :: x :: d :: e :: f :: g :: h :: t => decode_dop c k a b x d e f g h :: decode_dops n' t
  | _, _ => []
  end.

Definition dims_decode (inp : list Z) : bool * nat * list dop :=
  match inp with
  | K :: n :: t => (100 <=? K, Z.to_nat (K mod 100), decode_dops (Z.to_nat n) t)
  | _ => (false, O, [])
  end.

(* [fxd] = true: DeleteQuota takes the deleted quota's Guaranteed back from its ancestors — the code since
   the repair of findings/C02-delete-keeps-guarantee.md *)
Definition dims_run_case (inp : list Z) : list Z :=
  let '(gate, K, ops) := dims_decode inp in drun_obs gate true K dmgr0 ops.

Definition dims_prop_case (inp obs : list Z) : Z :=
  let '(gate, K, ops) := dims_decode inp in dcheck gate K dobjs0 [] [] ops obs.

(* non-trivial: at some step, in some dimension, some group has at least two children, one asking for
   more than its (guaranteed) minimum, and capacity is left after the minimums — on the model's runtimes *)
Definition contended_in (gate mem : bool) (s : dobjs) (ob : list Z) : bool :=
  existsb (fun g =>
             let so := proj mem s in
             let tt := if g =? 0 then os_total so else dlogged mem ob g in
             let ns := map snd (dgroup_nodes gate so (proj_used mem s) g) in
             (1 <? Z.of_nat (length ns)) && existsb needs_adjust ns && (sumZ (map init_runtime ns) <? tt))
          (parents_of s).

Fixpoint dcontended (gate : bool) (K : nat) (s : dobjs) (st : dmgr) (ops : list dop) : bool :=
  match ops with
  | [] => false
  | o :: t =>
      let s' := dobjs_step gate s o in
      let '(st', ob) := dobserve (ids K) (dstep gate true st o) in
      contended_in gate false s' ob || contended_in gate true s' ob || dcontended gate K s' st' t
  end.

Definition dims_nontrivial_case (inp : list Z) : bool :=
  let '(gate, K, ops) := dims_decode inp in dcontended gate K dobjs0 dmgr0 ops.

(* no known finding: DeleteQuota leaving the deleted quota's guarantee in its ancestors
   (findings/C02-delete-keeps-guarantee.md) is repaired in /repo and is a regression scenario now
   (corpus/C02/dims/f2-delete-keeps-guarantee.case, Properties.c02_dims_delete_guarantee_refuted) *)
Definition dims_finding_sig (inp obs : list Z) : Z := 0.
