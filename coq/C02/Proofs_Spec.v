(* C02 — the decision procedure [prop_code] that bin/check evaluates on the implementation's
   observable decides exactly the Prop [C02_holds]. *)
From Coq Require Import List ZArith Bool Lia ZifyBool.
From Verif Require Import C02.Model C02.Spec.
Import ListNotations.
Open Scope Z_scope.

Lemma bounds_okb_spec obs n : bounds_okb obs n = true <-> bounds_ok obs n.
Proof.
  unfold bounds_okb, bounds_ok. cbv zeta.
  generalize (obs_get obs n) (request n) (eff_min n) (lend n). intros r q m l.
  destruct l; split; intro H; lia.
Qed.

Lemma conservation_okb_spec total ns obs :
  conservation_okb total ns obs = true <-> conservation_ok total ns obs.
Proof.
  unfold conservation_okb, conservation_ok.
  generalize (sumZ (map init_runtime ns)) (sumZ (map (obs_get obs) ns)). intros a s. lia.
Qed.

Lemma work_conservingb_spec total ns obs :
  work_conservingb total ns obs = true <-> work_conserving total ns obs.
Proof.
  unfold work_conservingb, work_conserving.
  generalize (sumZ (map init_runtime ns)) (sumZ (map (obs_get obs) ns))
             (forallb (satisfied obs) ns). intros a s b.
  destruct b; split; intro H; lia.
Qed.

Lemma fair_pairb_spec k obs a b : fair_pairb k obs a b = true <-> fair_pair k obs a b.
Proof.
  unfold fair_pairb, fair_pair.
  generalize (Z.abs ((obs_get obs a - eff_min a) * weight b - (obs_get obs b - eff_min b) * weight a))
             (k * (weight a + weight b)) (still_short obs a) (still_short obs b).
  intros x y sa sb. destruct sa, sb; cbn [negb orb]; split; intro H; lia.
Qed.

Lemma fairb_spec ns obs : fairb ns obs = true <-> fair ns obs.
Proof.
  unfold fairb, fair. rewrite forallb_forall. split.
  - intros H a b Ha Hb. specialize (H a Ha). rewrite forallb_forall in H.
    apply fair_pairb_spec, H, Hb.
  - intros H a Ha. apply forallb_forall. intros b Hb. apply fair_pairb_spec, H; assumption.
Qed.

Lemma bounds_all_spec ns obs :
  forallb (bounds_okb obs) ns = true <-> forall n, In n ns -> bounds_ok obs n.
Proof.
  rewrite forallb_forall. split; intros H n Hn; apply bounds_okb_spec, H, Hn.
Qed.

Lemma prop_code_spec total ns obs : prop_code total ns obs = 0 <-> C02_holds total ns obs.
Proof.
  unfold prop_code, C02_holds.
  rewrite <- bounds_all_spec, <- conservation_okb_spec, <- work_conservingb_spec, <- fairb_spec.
  destruct (Nat.eqb (length obs) (length ns)) eqn:E1; cbn [negb].
  2:{ apply Nat.eqb_neq in E1. split; [discriminate|tauto]. }
  apply Nat.eqb_eq in E1.
  destruct (forallb (bounds_okb obs) ns); cbn [negb]; [|split; [discriminate|intuition discriminate]].
  destruct (conservation_okb total ns obs); cbn [negb]; [|split; [discriminate|intuition discriminate]].
  destruct (work_conservingb total ns obs); cbn [negb]; [|split; [discriminate|intuition discriminate]].
  destruct (fairb ns obs); cbn [negb]; [|split; [discriminate|intuition discriminate]].
  tauto.
Qed.

Lemma prop_code_sound total ns obs : prop_code total ns obs = 0 -> C02_holds total ns obs.
Proof. apply prop_code_spec. Qed.

Lemma prop_code_complete total ns obs : C02_holds total ns obs -> prop_code total ns obs = 0.
Proof. apply prop_code_spec. Qed.
