(* C02 / manager — model of the part of GroupQuotaManager (group_quota_manager.go) that feeds the
   runtime-quota calculators of a multi-level quota tree, in one resource dimension:
   UpdateQuota (create / max, min, sharedWeight change), DeleteQuota, pod requests arriving and
   leaving (OnPodAdd / OnPodDelete), UpdateClusterTotalResource, and RefreshRuntime — the top-down
   refresh along the path with version stamps (refreshRuntimeNoLock, :286).  One
   Calc_Model.calc per quota (and one for the root); every calculator call is the transcribed
   method of Calc_Model.v.  Feature gate ElasticQuotaGuaranteeUsage off, no change of parent / isParent /
   allowLent (those reset the whole tree).  Min-quota scaling (scale_minquota_when_over_root_res.go,
   getScaledMinQuota) is modelled with the configuration switch [sc] (EnableMinQuotaScale) and an
   exact binary64 evaluation of int64(float64(T) * float64(min) / float64(sum)) (C09.Model's
   round-to-nearest-even emulation).  Executable, no proofs.

   [fx] = true is the code as it is since commit cf84410 (doUpdateOneGroupMinQuotaNoLock also
   pushes the changed request of a non-lending quota to the parent's calculator); [fx] = false is
   the code before that repair, kept as the regression witness of
   findings/C02-stale-request-after-min-update.md. *)
From Coq Require Import List ZArith Bool.
From Verif Require C09.Model.
From Verif Require Import C02.Model C02.Calc_Model.
Import ListNotations.
Open Scope Z_scope.

Record mquota := mkMQ {
  m_parent : Z;        (* 0 = the root *)
  m_isParent : bool;
  m_info : qinfo;      (* Max, Request, AutoScaleMin, SharedWeight, Guaranteed (=0), AllowLent, RuntimeVersion, Runtime *)
  m_min : Z;           (* CalculateInfo.Min *)
  m_childReq : Z       (* CalculateInfo.ChildRequest *)
}.

Record mgr := mkM {
  g_total : Z;                       (* totalResourceExceptSystemAndDefaultUsed *)
  g_quotas : list (Z * mquota);
  g_calcs : list (Z * calc);         (* runtimeQuotaCalculatorMap; key 0 = root *)
  g_pods : list (Z * Z * Z);         (* (quota, slot, request) *)
  g_hasTotal : bool                  (* totalResourceExceptSystemAndDefaultUsed has the dimension's key *)
}.

Definition mgr0 : mgr := mkM 0 [] [(0, calc0)] [] false.
Definition remake (st : mgr) (t : Z) (qs : list (Z * mquota)) (cs : list (Z * calc)) (ps : list (Z * Z * Z)) : mgr :=
  mkM t qs cs ps (g_hasTotal st).

(* ---------- association lists ---------- *)
Fixpoint afind {A} (k : Z) (l : list (Z * A)) : option A :=
  match l with
  | [] => None
  | p :: t => if fst p =? k then Some (snd p) else afind k t
  end.
Definition aset {A} (k : Z) (v : A) (l : list (Z * A)) : list (Z * A) :=
  if existsb (fun p => fst p =? k) l
  then map (fun p => if fst p =? k then (k, v) else p) l
  else l ++ [(k, v)].
Definition adel {A} (k : Z) (l : list (Z * A)) : list (Z * A) := filter (fun p => negb (fst p =? k)) l.

Definition get_calc (k : Z) (st : mgr) : calc := match afind k (g_calcs st) with Some c => c | None => calc0 end.
Definition set_calc (k : Z) (c : calc) (st : mgr) : mgr := remake st (g_total st) (g_quotas st) (aset k c (g_calcs st)) (g_pods st).
Definition upd_calc (k : Z) (f : calc -> calc) (st : mgr) : mgr := set_calc k (f (get_calc k st)) st.
Definition set_quota (k : Z) (q : mquota) (st : mgr) : mgr := remake st (g_total st) (aset k q (g_quotas st)) (g_calcs st) (g_pods st).

Definition with_info (mq : mquota) (q : qinfo) : mquota := mkMQ (m_parent mq) (m_isParent mq) q (m_min mq) (m_childReq mq).

(* getCurToAllParentGroupQuotaInfoNoLock, without the root *)
Fixpoint path_of (fuel : nat) (k : Z) (st : mgr) : list Z :=
  match fuel with
  | O => []
  | S f => if k =? 0 then [] else
           match afind k (g_quotas st) with
           | None => []
           | Some mq => k :: path_of f (m_parent mq) st
           end
  end.
Definition path (k : Z) (st : mgr) : list Z := path_of (S (length (g_quotas st))) k st.

(* Request = AllowLent ? ChildRequest : max(ChildRequest, Min) *)
Definition real_request (mq : mquota) (cr : Z) : Z := if q_lend (m_info mq) then cr else Z.max cr (m_min mq).

(* recursiveUpdateGroupTreeWithDeltaRequest along [pth] (the root's own Request is not modelled) *)
Fixpoint rec_delta (pth : list Z) (delta : Z) (st : mgr) : mgr :=
  match pth with
  | [] => st
  | k :: rest =>
      match afind k (g_quotas st) with
      | None => st
      | Some mq =>
          let q := m_info mq in
          let oldLimit := limit_req q in
          let cr := Z.max 0 (m_childReq mq + delta) in
          let q' := q_set_req (real_request mq cr) q in
          let st1 := set_quota k (mkMQ (m_parent mq) (m_isParent mq) q' (m_min mq) cr) st in
          let st2 := upd_calc (m_parent mq) (push_request k q') st1 in
          rec_delta rest (limit_req q' - oldLimit) st2
      end
  end.

(* doUpdateOneGroupMaxQuotaNoLock *)
Definition do_max (k v : Z) (st : mgr) : mgr :=
  match afind k (g_quotas st) with
  | None => st
  | Some mq =>
      let q := m_info mq in
      let q' := q_set_max v q in
      let st1 := set_quota k (with_info mq q') st in
      let st2 := upd_calc (m_parent mq) (updateOneGroupMaxQuota k q') st1 in
      rec_delta (path (m_parent mq) st2) (limit_req q' - limit_req q) st2
  end.

(* doUpdateOneGroupMinQuotaNoLock: Min, AutoScaleMin and (for a non-lending quota) Request change;
   the min is pushed to the parent's calculator, then (cf84410) the request through need…/update… *)
Definition do_min (fx : bool) (k v : Z) (st : mgr) : mgr :=
  match afind k (g_quotas st) with
  | None => st
  | Some mq =>
      let q := m_info mq in
      let mq1 := mkMQ (m_parent mq) (m_isParent mq) (q_set_min v q) v (m_childReq mq) in
      let q' := q_set_req (real_request mq1 (m_childReq mq)) (q_set_min v q) in
      let st1 := set_quota k (with_info mq1 q') st in
      let st2 := upd_calc (m_parent mq)
                   (fun c => let c1 := updateOneGroupMinQuota k q' c in
                             if fx then push_request k q' c1 else c1) st1 in
      rec_delta (path (m_parent mq) st2) (limit_req q' - limit_req q) st2
  end.

(* doUpdateOneGroupSharedWeightNoLock *)
Definition do_weight (k v : Z) (st : mgr) : mgr :=
  match afind k (g_quotas st) with
  | None => st
  | Some mq =>
      let q' := q_set_weight v (m_info mq) in
      upd_calc (m_parent mq) (updateOneGroupSharedWeight k q') (set_quota k (with_info mq q') st)
  end.

(* extension.GetSharedWeight: a zero annotation means "same as max" *)
Definition eff_weight (mx w : Z) : Z := if w =? 0 then mx else w.

Definition has_children (k : Z) (st : mgr) : bool := existsb (fun p => m_parent (snd p) =? k) (g_quotas st).

(* ---------- resetQuotaNoLock (after a change of the allow-lent / is-parent label) ----------
   rebuildAllGroupQuotaNoLock: every QuotaInfo is cleared (clearForResetNoLock: Request,
   ChildRequest, Runtime, RuntimeVersion; AutoScaleMin := Min), every calculator is created anew and
   told about each of its children (updateOneGroupMaxQuota / MinQuota / SharedWeight — a calculator
   only ever hears about its own children, so it is built here per parent, as the three
   Calc_Model steps create / min / weight per child), the root calculator gets the cluster total;
   then every quota's own request (a leaf: the sum of its pods) is replayed bottom-up through
   updateGroupDeltaRequestNoLock — ALSO when it is zero: that walk is what raises a non-lending
   quota's request to its min and pushes it to the ancestors. *)
Definition cleared (mq : mquota) : qinfo :=
  q_set_weight (q_weight (m_info mq)) (q_set_min (m_min mq) (q_new (q_lend (m_info mq)) (q_max (m_info mq)))).

Definition reinsert (w : world) (e : Z * mquota) : world :=
  step (step (step w (OCreate (fst e) (q_lend (m_info (snd e))) (q_max (m_info (snd e)))))
             (OSetMin (fst e) (m_min (snd e))))
       (OSetWeight (fst e) (q_weight (m_info (snd e)))).

Definition base_calc (p : Z) (st : mgr) : calc :=
  if p =? 0 then setClusterTotalResource (g_total st) calc0 else calc0.

Definition world_for (p : Z) (st : mgr) : world :=
  fold_left reinsert (filter (fun e => m_parent (snd e) =? p) (g_quotas st)) (mkW (base_calc p st) []).

Definition clear_quota (e : Z * mquota) : Z * mquota :=
  (fst e, mkMQ (m_parent (snd e)) (m_isParent (snd e)) (cleared (snd e)) (m_min (snd e)) 0).

Definition rebuilt (st : mgr) : mgr :=
  remake st (g_total st) (map clear_quota (g_quotas st))
         ((0, w_calc (world_for 0 st)) :: map (fun e => (fst e, w_calc (world_for (fst e) st))) (g_quotas st))
         (g_pods st).

Definition replay (s : mgr) (e : Z * mquota) : mgr :=
  rec_delta (path (fst e) s) (if m_isParent (snd e) then 0 else m_childReq (snd e)) s.

Definition reset (st : mgr) : mgr := fold_left replay (g_quotas st) (rebuilt st).

Definition no_pods (k : Z) (st : mgr) : bool := negb (existsb (fun p => fst (fst p) =? k) (g_pods st)).

(* UpdateQuota.  For a live quota the labels are honoured only with an unchanged parent; the
   is-parent label only flips on a quota without children and without pods (what the webhook admits) *)
Definition update_quota (fx : bool) (k par : Z) (isPar lnd : bool) (mx mn w : Z) (st : mgr) : mgr :=
  match afind k (g_quotas st) with
  | None =>
      let parent_ok := (par =? 0) || match afind par (g_quotas st) with Some p => m_isParent p | None => false end in
      if negb parent_ok || (k =? 0) then st else
      (* updateQuotaInternalNoLock(new, nil): calculators, NewQuotaInfo, then max / min / sharedWeight *)
      let st1 := remake st (g_total st) (g_quotas st ++ [(k, mkMQ par isPar (q_new lnd 0) 0 0)])
                     (aset k calc0 (g_calcs st)) (g_pods st) in
      do_weight k (eff_weight mx w) (do_min fx k mn (do_max k mx st1))
  | Some mq =>
      let q := m_info mq in
      let same_par := par =? m_parent mq in
      let isPar' := if same_par && negb (has_children k st) && no_pods k st then isPar else m_isParent mq in
      let lnd' := if same_par then lnd else q_lend q in
      if negb (Bool.eqb isPar' (m_isParent mq)) || negb (Bool.eqb lnd' (q_lend q)) then
        (* meta change: updateQuotaInfoFromRemote, then resetQuotaNoLock *)
        let q1 := mkQ mx (q_req q) (q_min q) (eff_weight mx w) (q_guar q) lnd' (q_rver q) (q_runtime q) in
        reset (set_quota k (mkMQ (m_parent mq) isPar' q1 mn (m_childReq mq)) st)
      else
      let st1 := if q_max q =? mx then st else do_max k mx st in
      let st2 := if m_min mq =? mn then st1 else do_min fx k mn st1 in
      if q_weight q =? eff_weight mx w then st2 else do_weight k (eff_weight mx w) st2
  end.

(* DeleteQuota (leaf quotas only) *)
Definition delete_quota (k : Z) (st : mgr) : mgr :=
  match afind k (g_quotas st) with
  | None => st
  | Some mq =>
      if has_children k st then st else
      let st1 := remake st (g_total st) (adel k (g_quotas st)) (adel k (g_calcs st))
                     (filter (fun p => negb (fst (fst p) =? k)) (g_pods st)) in
      let st2 := upd_calc (m_parent mq) (deleteOneGroup k) st1 in
      let d := - limit_req (m_info mq) in
      if d =? 0 then st2 else rec_delta (path (m_parent mq) st2) d st2
  end.

(* one pod per (quota, slot): the old pod of the slot leaves (OnPodDelete), a new one with request v
   arrives (OnPodAdd); v = 0: only leaves *)
Definition pod_find (k s : Z) (st : mgr) : option Z :=
  match filter (fun p => (fst (fst p) =? k) && (snd (fst p) =? s)) (g_pods st) with
  | p :: _ => Some (snd p)
  | [] => None
  end.
Definition pod_request_delta (k d : Z) (st : mgr) : mgr := if d =? 0 then st else rec_delta (path k st) d st.
Definition pod_set (k s v : Z) (st : mgr) : mgr :=
  match afind k (g_quotas st) with
  | None => st
  | Some mq =>
      if m_isParent mq then st else
      let st1 := match pod_find k s st with
                 | Some old =>
                     let st' := pod_request_delta k (- old) st in
                     remake st' (g_total st') (g_quotas st') (g_calcs st')
                         (filter (fun p => negb ((fst (fst p) =? k) && (snd (fst p) =? s))) (g_pods st'))
                 | None => st
                 end in
      if v =? 0 then st1 else
      let st2 := remake st1 (g_total st1) (g_quotas st1) (g_calcs st1) (g_pods st1 ++ [(k, s, v)]) in
      pod_request_delta k v st2
  end.

(* UpdateClusterTotalResource(t - total): the root calculator hears about it only if it changed *)
Definition set_total (t : Z) (st : mgr) : mgr :=
  if t =? g_total st then st
  else upd_calc 0 (setClusterTotalResource t) (mkM t (g_quotas st) (g_calcs st) (g_pods st) true).

(* ---------- min-quota scaling (ScaleMinQuotaManager, all quotas enabled) ----------
   enableScaleSubsSumMinQuotaMap[p] is the sum of the declared mins of p's children (maintained
   incrementally by update/remove in the code; the same number), originalMinQuotaMap[k] = Min(k). *)
Definition esum (p : Z) (st : mgr) : Z :=
  sumZ (map (fun e => m_min (snd e)) (filter (fun e => m_parent (snd e) =? p) (g_quotas st))).

(* int64(float64(T) * float64(m) / float64(E)), every operation rounded to binary64 *)
Definition scaled_min (T m E : Z) : Z :=
  if T <=? 0 then 0
  else if 0 <? E then C09.Model.f_trunc (C09.Model.f_div (C09.Model.f_mul (C09.Model.f_of_int T) (C09.Model.f_of_int m)) (C09.Model.f_of_int E)) else 0.

(* getScaledMinQuota in one dimension: scaling only where the total is BELOW the sum of the mins
   ([hk]: the total has the dimension's key at all) *)
Definition get_scaled (hk : bool) (T E m : Z) : Z := if hk && (T <? E) then scaled_min T m E else m.

(* step 1 of a level of refreshRuntimeNoLock: updateOneGroupAutoScaleMinQuotaNoLock *)
Definition scale_level (sc : bool) (k T : Z) (hk : bool) (st : mgr) : mgr :=
  match afind k (g_quotas st) with
  | None => st
  | Some mq =>
      let nm := get_scaled hk T (esum (m_parent mq) st) (m_min mq) in
      if sc && negb (q_min (m_info mq) =? nm)
      then let q1 := q_set_min nm (m_info mq) in
           upd_calc (m_parent mq) (updateOneGroupMinQuota k q1) (set_quota k (with_info mq q1) st)
      else st
  end.

(* refreshRuntimeNoLock(k): top-down along the path with the total [T] handed down; every level
   but the last hands its runtime to its own calculator as the total (which bumps that
   calculator's version every time) *)
Fixpoint refresh_down (sc : bool) (pth : list Z) (T : Z) (hk : bool) (st0 : mgr) : mgr :=   (* pth: top first *)
  match pth with
  | [] => st0
  | k :: rest =>
      let st := scale_level sc k T hk st0 in
      match afind k (g_quotas st) with
      | None => st
      | Some mq =>
          let pc := get_calc (m_parent mq) st in
          let q' := if q_rver (m_info mq) =? c_version pc then m_info mq
                    else updateOneGroupRuntimeQuota k (m_info mq) pc in
          let st1 := set_quota k (with_info mq q') st in
          let st2 := match rest with
                     | [] => st1
                     | _ => upd_calc k (setClusterTotalResource (q_runtime q')) st1
                     end in
          refresh_down sc rest (q_runtime q') true st2
      end
  end.
Definition refresh (sc : bool) (k : Z) (st : mgr) : mgr :=
  refresh_down sc (rev (path k st)) (g_total st) (g_hasTotal st) st.

Inductive mop :=
| MUpdate (k par : Z) (isPar lnd : bool) (mx mn w : Z)
| MDelete (k : Z)
| MPod (k s v : Z)
| MTotal (t : Z)
| MNoop.

Definition mstep (fx : bool) (st : mgr) (o : mop) : mgr :=
  match o with
  | MUpdate k par isPar lnd mx mn w => update_quota fx k par isPar lnd mx mn w st
  | MDelete k => delete_quota k st
  | MPod k s v => pod_set k s v st
  | MTotal t => set_total t st
  | MNoop => st
  end.

(* after every op: RefreshRuntime of the quotas 1..K in name order; -1 for a name that is not live.
   With scaling on, the scaled mins of a level are brought up to date one quota at a time as each is
   refreshed, so three silent passes come first and the fourth is logged. *)
Fixpoint mobserve1 (sc : bool) (ks : list Z) (st : mgr) : mgr * list Z :=
  match ks with
  | [] => (st, [])
  | k :: t =>
      match afind k (g_quotas st) with
      | None => let '(st', o) := mobserve1 sc t st in (st', -1 :: o)
      | Some _ =>
          let st1 := refresh sc k st in
          let r := match afind k (g_quotas st1) with Some mq => q_runtime (m_info mq) | None => -1 end in
          let '(st', o) := mobserve1 sc t st1 in (st', r :: o)
      end
  end.

Definition mobserve (sc : bool) (ks : list Z) (st : mgr) : mgr * list Z :=
  if sc then
    mobserve1 sc ks (fst (mobserve1 sc ks (fst (mobserve1 sc ks (fst (mobserve1 sc ks st))))))
  else mobserve1 sc ks st.

Fixpoint mrun_obs (fx sc : bool) (K : nat) (st : mgr) (ops : list mop) : list Z :=
  match ops with
  | [] => []
  | o :: t => let '(st', obs) := mobserve sc (ids K) (mstep fx st o) in obs ++ mrun_obs fx sc K st' t
  end.
