(* C02 — what bin/check evaluates: on every well-formed input the model's own observable
   passes [prop_case], and whenever [prop_case] returns 0 on an observable (the
   implementation's), that observable consists of two equal runs satisfying [C02_holds]. *)
From Coq Require Import List ZArith Bool Lia.
From Verif Require Import C02.Model C02.Spec C02.Case C02.Proofs C02.Proofs_Perm C02.Proofs_Spec.
Import ListNotations.
Open Scope Z_scope.

Lemma eq_listZ_spec a : forall b, eq_listZ a b = true <-> a = b.
Proof.
  induction a as [|x a IH]; intros [|y b]; cbn [eq_listZ]; try (split; [discriminate|congruence]).
  - split; reflexivity.
  - rewrite andb_true_iff, Z.eqb_eq, IH. split; [intros [-> ->]; reflexivity|].
    intro H. inversion H. auto.
Qed.

Lemma firstn_app_exact {A} (a b : list A) : firstn (length a) (a ++ b) = a.
Proof. induction a as [|x a IH]; [destruct b; reflexivity|cbn; rewrite IH; reflexivity]. Qed.

Lemma skipn_app_exact {A} (a b : list A) : skipn (length a) (a ++ b) = b.
Proof. induction a as [|x a IH]; [reflexivity|exact IH]. Qed.

Lemma prop_case_model inp :
  in_range (fst (decode inp)) (snd (decode inp)) = true -> names_ok (snd (decode inp)) ->
  prop_case inp (run_case inp) = 0.
Proof.
  unfold prop_case, run_case. destruct (decode inp) as [total ns]. cbn [fst snd].
  intros Hr Hok. cbv zeta.
  rewrite (rev_same_obs total ns (proj1 Hok)).
  pose proof (model_satisfies_spec total ns Hr Hok) as HM.
  pose proof (obs_of_length ns (redistribution total ns)) as Hlen.
  set (o := obs_of ns (redistribution total ns)) in *.
  rewrite <- Hlen, firstn_app_exact, skipn_app_exact.
  assert (E : eq_listZ o o = true) by (apply eq_listZ_spec; reflexivity).
  rewrite E. cbn [negb].
  apply prop_code_complete, HM.
Qed.

Lemma prop_case_sound inp obs :
  prop_case inp obs = 0 ->
  let total := fst (decode inp) in let ns := snd (decode inp) in
  firstn (length ns) obs = skipn (length ns) obs
  /\ C02_holds total ns (firstn (length ns) obs).
Proof.
  unfold prop_case. destruct (decode inp) as [total ns]. cbn [fst snd]. cbv zeta.
  destruct (eq_listZ (firstn (length ns) obs) (skipn (length ns) obs)) eqn:E; cbn [negb];
    [|discriminate].
  intro H. split; [apply eq_listZ_spec, E|apply prop_code_sound, H].
Qed.
