(* C02 — model of quotaTree.redistribution / iterationForRedistribution /
   computeHamiltonDeltas (pkg/scheduler/plugins/elasticquota/core/runtime_quota_calculator.go).
   Executable, total, no proofs in this file. *)
From Coq Require Import List ZArith Bool.
(* [sumZ] comes from Lib.ListX, the stable insertion sort [sort_by] from Lib.SortX *)
From Verif Require Export Lib.ListX Lib.SortX.
Import ListNotations.
Open Scope Z_scope.

(* one sibling in one resource dimension; [nm] is the rank of the quota name in string order *)
Record node := mkNode {
  nm : Z; request : Z; weight : Z; qmin : Z; guarantee : Z; lend : bool }.

(* an entry is a node together with its current runtimeQuota *)
Notation entry := (node * Z)%type.

Definition eff_min (n : node) : Z := Z.max (qmin n) (guarantee n).
Definition needs_adjust (n : node) : bool := eff_min n <? request n.
Definition init_runtime (n : node) : Z :=
  if needs_adjust n then eff_min n else if lend n then request n else eff_min n.

(* ---------- computeHamiltonDeltas ---------- *)
Definition pos_weight (n : node) : bool := 0 <? weight n.
Definition base_of (T W : Z) (n : node) : Z :=
  if pos_weight n then (weight n * T) / W else 0.
Definition rem_of (T W : Z) (n : node) : Z :=
  if pos_weight n then (weight n * T) mod W else 0.

(* "a before b": larger remainder first, ties by name ascending *)
Definition rem_leb (T W : Z) (a b : node) : bool :=
  if rem_of T W a =? rem_of T W b then nm a <=? nm b else rem_of T W b <? rem_of T W a.

Definition winners (T W : Z) (ns : list node) : list Z :=
  let cand := filter pos_weight ns in
  let residual := T - sumZ (map (base_of T W) ns) in
  map nm (firstn (Z.to_nat residual) (sort_by (rem_leb T W) cand)).

Definition memZ (x : Z) (l : list Z) : bool := existsb (Z.eqb x) l.

Definition delta_of (T W : Z) (ns : list node) (n : node) : Z :=
  base_of T W n + (if pos_weight n && memZ (nm n) (winners T W ns) then 1 else 0).

Definition hamilton (T W : Z) (ns : list node) : list Z :=
  if (W <=? 0) || (T <=? 0) then map (fun _ => 0) ns
  else map (delta_of T W ns) ns.

(* ---------- iterationForRedistribution ---------- *)
Definition bump (e : entry) (d : Z) : entry := (fst e, snd e + d).
Definition unsat (e : entry) : bool := snd e <? request (fst e).
Definition cap (e : entry) : entry := (fst e, request (fst e)).
Definition surplus_of (e : entry) : Z := snd e - request (fst e).

Definition is_nil {A} (l : list A) : bool := match l with [] => true | _ => false end.

Fixpoint iterate (fuel : nat) (T W : Z) (es : list entry) : list entry :=
  match fuel with
  | O => es
  | S f =>
    if (W <=? 0) || (T <=? 0) || is_nil es then es
    else
      let ds := hamilton T W (map fst es) in
      let es1 := map (fun p => bump (fst p) (snd p)) (combine es ds) in
      let keep := filter unsat es1 in
      let full := filter (fun e => negb (unsat e)) es1 in
      let surplus := sumZ (map surplus_of full) in
      let W' := sumZ (map (fun e => weight (fst e)) keep) in
      if (0 <? surplus) && negb (is_nil keep)
      then map cap full ++ iterate f surplus W' keep
      else map cap full ++ keep
  end.

(* ---------- redistribution ---------- *)
Definition redistribution (total : Z) (ns : list node) : list entry :=
  let es := map (fun n => (n, init_runtime n)) ns in
  let toPart := total - sumZ (map snd es) in
  let adj := filter (fun e => needs_adjust (fst e)) es in
  let rest := filter (fun e => negb (needs_adjust (fst e))) es in
  let W := sumZ (map (fun e => weight (fst e)) adj) in
  if 0 <? toPart then rest ++ iterate (S (length adj)) toPart W adj else es.

Fixpoint runtime_of (k : Z) (es : list entry) : option Z :=
  match es with
  | [] => None
  | e :: t => if nm (fst e) =? k then Some (snd e) else runtime_of k t
  end.

(* range guard under which the Go int64 / 128-bit code cannot wrap *)
Definition two63 : Z := 9223372036854775808.
Definition node_ok (n : node) : bool :=
  (0 <=? request n) && (0 <=? weight n) && (0 <=? qmin n) && (0 <=? guarantee n).
Definition in_range (total : Z) (ns : list node) : bool :=
  (0 <=? total) && (total <? two63) && forallb node_ok ns
  && (sumZ (map request ns) + sumZ (map eff_min ns) <? two63)
  && (sumZ (map weight ns) <? two63).
