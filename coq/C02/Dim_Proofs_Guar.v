(* C02 / dims — the guarantee chain of the two-dimensional manager model, gate on: after ANY history of
   UpdateQuota (create / max / min / sharedWeight) / DeleteQuota ([fxd]) / pods arriving, leaving,
   reserved, un-reserved, resized / cluster total / RefreshRuntime, in each dimension and for every
   live quota k
       Guaranteed(k) = max(Allocated(k), Min(k))
       Allocated(k)  = requests of the ASSIGNED pods of k + sum of Guaranteed(c) over the children c of k.
   This is what seeded/C02-m8 breaks (a released guarantee not rolled back at the ancestors), and what
   DeleteQuota of the code as it is ([fxd] = false) breaks (Properties.c02_dims_delete_guarantee_refuted). *)
From Coq Require Import List ZArith Bool Lia Permutation.
From Verif Require Import C02.Model C02.Calc_Model C02.Calc_Proofs_Inv C02.Mgr_Model C02.Mgr_Proofs_Base
  C02.Mgr_Proofs_Inv C02.Mgr_Proofs_Step C02.Dim_Model C02.Dim_Proofs_Inv C02.Dim_Proofs_Geq.
Import ListNotations.
Open Scope Z_scope.

Definition sel (mem : bool) (p : Z * Z) : Z := if mem then snd p else fst p.
Definition al (mem : bool) (st : dmgr) (k : Z) : Z := sel mem (alloc_of k st).
Definition pdim (mem : bool) (p : dpod) : Z := if mem then p_mem p else p_cpu p.
Definition term (mem : bool) (k : Z) (p : dpod) : Z := if (p_quota p =? k) && p_assigned p then pdim mem p else 0.
Definition us (mem : bool) (ps : list dpod) (k : Z) : Z := sumZ (map (term mem k) ps).

(* everything but the equations *)
Record gpre (st : dmgr) : Prop := mkGpre {
  gi_inv : dinv st;
  gi_sync : shape (d_cpu st) = shape (d_mem st);
  gi_ord : ordered (shape (d_cpu st));
  gi_min : forall mem k f, afind k (gview (half mem st)) = Some f -> 0 <= gm f;
  gi_pods : forall p, In p (d_pods st) ->
      0 <= p_cpu p /\ 0 <= p_mem p /\ afind (p_quota p) (shape (d_cpu st)) <> None;
  gi_uniq : forall k s, (length (filter (pod_is k s) (d_pods st)) <= 1)%nat;
  gi_dead : forall k, afind k (shape (d_cpu st)) = None -> alloc_of k st = (0, 0) }.

(* all equations hold, except that Allocated(j) still misses (d1, d2) *)
Definition gbroken (st : dmgr) (j d1 d2 : Z) : Prop :=
  gpre st /\ forall mem, broken (gview (half mem st)) (al mem st) (us mem (d_pods st)) j (sel mem (d1, d2)).

Definition ginv (st : dmgr) : Prop :=
  gpre st /\ forall mem, geq (gview (half mem st)) (al mem st) (us mem (d_pods st)).

Lemma ginv_gbroken st j : ginv st -> gbroken st j 0 0.
Proof.
  intros [P E]. split; [exact P|]. intro mem.
  replace (sel mem (0, 0)) with 0 by (destruct mem; reflexivity). apply geq_broken, E.
Qed.

Lemma half_inv mem st : dinv st -> minv (half mem st).
Proof. intros [H1 H2]. destruct mem; assumption. Qed.

Lemma shape_half mem st : shape (d_cpu st) = shape (d_mem st) -> shape (half mem st) = shape (d_cpu st).
Proof. intro H. destruct mem; cbn [half]; congruence. Qed.

Lemma afind_gview_shape k s : afind k (shape s) = option_map gp (afind k (gview s)).
Proof. rewrite afind_shape, afind_gview. destruct (afind k (g_quotas s)); reflexivity. Qed.

Lemma gbroken_dead st j d1 d2 : gbroken st j d1 d2 -> afind j (shape (d_cpu st)) = None -> ginv st.
Proof.
  intros [P B] Hj. split; [exact P|]. intro mem. apply (broken_geq _ _ _ j _ (B mem)).
  rewrite <- (shape_half mem st (gi_sync st P)) in Hj. rewrite afind_gview_shape in Hj.
  destruct (afind j (gview (half mem st))); [discriminate|reflexivity].
Qed.

(* ---------- states that differ in nothing the guarantee equations read ---------- *)
Lemma gpre_same st st' :
  gpre st -> dinv st' ->
  gview (d_cpu st') = gview (d_cpu st) -> gview (d_mem st') = gview (d_mem st) ->
  d_alloc st' = d_alloc st -> d_pods st' = d_pods st -> gpre st'.
Proof.
  intros [Hi Hs Ho Hm Hp Hu Hd] Hi' G1 G2 Ga Gp.
  assert (S1 : shape (d_cpu st') = shape (d_cpu st)) by (rewrite !shape_of_gview, G1; reflexivity).
  assert (S2 : shape (d_mem st') = shape (d_mem st)) by (rewrite !shape_of_gview, G2; reflexivity).
  assert (Gh : forall mem, gview (half mem st') = gview (half mem st)) by (intro mem; destruct mem; assumption).
  constructor.
  - exact Hi'.
  - congruence.
  - rewrite S1. exact Ho.
  - intros mem k f. rewrite Gh. apply Hm.
  - intros p. rewrite Gp, S1. apply Hp.
  - intros k s. rewrite Gp. apply Hu.
  - intros k. rewrite S1. intro H. unfold alloc_of. rewrite Ga. apply (Hd k H).
Qed.

Lemma gbroken_same st st' j d1 d2 :
  gbroken st j d1 d2 -> dinv st' ->
  gview (d_cpu st') = gview (d_cpu st) -> gview (d_mem st') = gview (d_mem st) ->
  d_alloc st' = d_alloc st -> d_pods st' = d_pods st -> gbroken st' j d1 d2.
Proof.
  intros [P B] Hi' G1 G2 Ga Gp. split; [eapply gpre_same; eassumption|].
  assert (Gh : forall mem, gview (half mem st') = gview (half mem st)) by (intro mem; destruct mem; assumption).
  intro mem. rewrite Gh, Gp.
  apply (broken_ext _ (al mem st) _ (us mem (d_pods st))); auto.
  intro k. unfold al, alloc_of. rewrite Ga. reflexivity.
Qed.

Lemma ginv_same st st' :
  ginv st -> dinv st' ->
  gview (d_cpu st') = gview (d_cpu st) -> gview (d_mem st') = gview (d_mem st) ->
  d_alloc st' = d_alloc st -> d_pods st' = d_pods st -> ginv st'.
Proof.
  intros [P E] Hi' G1 G2 Ga Gp. split; [eapply gpre_same; eassumption|].
  assert (Gh : forall mem, gview (half mem st') = gview (half mem st)) by (intro mem; destruct mem; assumption).
  intro mem. rewrite Gh, Gp.
  apply (geq_ext _ (al mem st) _ (us mem (d_pods st))); auto.
  intro k. unfold al, alloc_of. rewrite Ga. reflexivity.
Qed.

(* ---------- frames: the request side never touches parent / min / Guaranteed ---------- *)
Lemma req_figures_gfig mq d : gfig_of (req_figures mq d) = gfig_of mq.
Proof. reflexivity. Qed.

Lemma rec_delta2_gview pth : forall d1 d2 s1 s2, minv s1 -> minv s2 ->
  gview (fst (rec_delta2 pth d1 d2 s1 s2)) = gview s1 /\ gview (snd (rec_delta2 pth d1 d2 s1 s2)) = gview s2.
Proof.
  induction pth as [|k rest IH]; intros d1 d2 s1 s2 H1 H2; [split; reflexivity|].
  cbn [rec_delta2].
  destruct (afind k (g_quotas s1)) as [m1|] eqn:Hf1; [|split; reflexivity].
  destruct (afind k (g_quotas s2)) as [m2|] eqn:Hf2; [|split; reflexivity].
  cbv zeta.
  match goal with |- gview (fst (rec_delta2 rest ?a ?b ?x ?y)) = _ /\ _ =>
    destruct (IH a b x y) as [Ga Gb] end.
  - apply req_level_inv; try assumption. intro E. apply orb_false_elim in E. apply E.
  - apply req_level_inv; try assumption. intro E. apply orb_false_elim in E. apply E.
  - rewrite Ga, Gb. split.
    + change (gview (set_quota k (req_figures m1 d1) s1) = gview s1).
      apply (gview_set_same k _ m1); [apply (mi_nodup _ H1)|exact Hf1|reflexivity].
    + change (gview (set_quota k (req_figures m2 d2) s2) = gview s2).
      apply (gview_set_same k _ m2); [apply (mi_nodup _ H2)|exact Hf2|reflexivity].
Qed.

Lemma request_walk_broken k d1 d2 st j e1 e2 : gbroken st j e1 e2 -> gbroken (request_walk k d1 d2 st) j e1 e2.
Proof.
  intro G. pose proof (gi_inv st (proj1 G)) as [H1 H2].
  destruct (rec_delta2_gview (path k (d_cpu st)) d1 d2 _ _ H1 H2) as [Ga Gb].
  apply (gbroken_same st); try assumption; try reflexivity.
  apply request_walk_inv. split; assumption.
Qed.

Lemma request_walk_same k d1 d2 st : ginv st -> ginv (request_walk k d1 d2 st).
Proof.
  intro G. pose proof (gi_inv st (proj1 G)) as [H1 H2].
  destruct (rec_delta2_gview (path k (d_cpu st)) d1 d2 _ _ H1 H2) as [Ga Gb].
  apply (ginv_same st); try assumption; try reflexivity.
  apply request_walk_inv. split; assumption.
Qed.

Lemma pod_request_same k d1 d2 st : ginv st -> ginv (pod_request k d1 d2 st).
Proof. intro G. unfold pod_request. destruct (_ && _); [exact G|apply request_walk_same, G]. Qed.

Lemma do_max2_same k v1 v2 st : ginv st -> ginv (do_max2 k v1 v2 st).
Proof.
  intro G. pose proof (gi_inv st (proj1 G)) as [H1 H2].
  assert (Hi' : dinv (do_max2 k v1 v2 st)) by (apply do_max2_inv; split; assumption).
  revert Hi'. unfold do_max2.
  destruct (afind k (g_quotas (d_cpu st))) as [m1|] eqn:Hf1; [|intros _; exact G].
  destruct (afind k (g_quotas (d_mem st))) as [m2|] eqn:Hf2; [|intros _; exact G].
  cbv zeta. intro Hi'.
  match goal with |- ginv (with_halves st (rec_delta2 ?p ?a ?b ?x ?y)) =>
    destruct (rec_delta2_gview p a b x y) as [Ga Gb] end.
  - apply max_level_inv; assumption.
  - apply max_level_inv; assumption.
  - apply (ginv_same st); try assumption; try reflexivity; cbn [with_halves d_cpu d_mem].
    + rewrite Ga. change (gview (set_quota k (with_info m1 (q_set_max v1 (m_info m1))) (d_cpu st)) = gview (d_cpu st)).
      apply (gview_set_same k _ m1); [apply (mi_nodup _ H1)|exact Hf1|reflexivity].
    + rewrite Gb. change (gview (set_quota k (with_info m2 (q_set_max v2 (m_info m2))) (d_mem st)) = gview (d_mem st)).
      apply (gview_set_same k _ m2); [apply (mi_nodup _ H2)|exact Hf2|reflexivity].
Qed.

Lemma do_weight_gview k v s : minv s -> gview (do_weight k v s) = gview s.
Proof.
  intro Hi. unfold do_weight. destruct (afind k (g_quotas s)) as [mq|] eqn:Hf; [|reflexivity].
  change (gview (set_quota k (with_info mq (q_set_weight v (m_info mq))) s) = gview s).
  apply (gview_set_same k _ mq); [apply (mi_nodup _ Hi)|exact Hf|reflexivity].
Qed.

Lemma do_weight2_same k v1 v2 st : ginv st -> ginv (do_weight2 k v1 v2 st).
Proof.
  intro G. pose proof (gi_inv st (proj1 G)) as [H1 H2].
  apply (ginv_same st); try assumption; try reflexivity; cbn [do_weight2 d_cpu d_mem].
  - apply do_weight2_inv. split; assumption.
  - apply do_weight_gview, H1.
  - apply do_weight_gview, H2.
Qed.

Lemma set_total2_same t1 t2 st : ginv st -> ginv (set_total2 t1 t2 st).
Proof.
  intro G. unfold set_total2. destruct (_ && _); [exact G|].
  apply (ginv_same st); try assumption; try reflexivity.
  pose proof (gi_inv st (proj1 G)) as [H1 H2]. split; cbn [d_cpu d_mem]; apply force_total_inv; assumption.
Qed.

(* RefreshRuntime changes stamps and runtimes only *)
Lemma refresh_down_gview pth : forall T hk s, minv s -> gview (refresh_down false pth T hk s) = gview s.
Proof.
  induction pth as [|j rest IH]; intros T hk s Hi; [reflexivity|].
  cbn [refresh_down]. rewrite scale_level_off.
  destruct (afind j (g_quotas s)) as [mq|] eqn:Hf; [|reflexivity].
  cbv zeta. rewrite refresh_guard.
  destruct (level_inv s j mq Hi Hf) as [Hi1 _].
  set (q' := updateOneGroupRuntimeQuota j (m_info mq) (get_calc (m_parent mq) s)) in *.
  assert (Hg : gview (set_quota j (with_info mq q') s) = gview s).
  { apply (gview_set_same j _ mq); [apply (mi_nodup _ Hi)|exact Hf|].
    unfold gfig_of, q', updateOneGroupRuntimeQuota. cbn [with_info m_parent m_min m_info].
    destruct (q_rver (m_info mq) =? c_version (get_calc (m_parent mq) s)); reflexivity. }
  rewrite IH.
  - destruct rest; exact Hg.
  - destruct rest; [exact Hi1|]. eapply level_total_inv; [exact Hi1|].
    cbn [set_quota g_quotas remake]. rewrite afind_aset, Z.eqb_refl. reflexivity.
Qed.

Lemma refresh2_same k st : ginv st -> ginv (refresh2 k st).
Proof.
  intro G. pose proof (gi_inv st (proj1 G)) as [H1 H2].
  apply (ginv_same st); try assumption; try reflexivity; cbn [refresh2 d_cpu d_mem].
  - apply refresh2_inv. split; assumption.
  - apply refresh_down_gview, H1.
  - apply refresh_down_gview, H2.
Qed.

Lemma dobserve_same ks : forall st, ginv st -> ginv (fst (dobserve ks st)).
Proof.
  induction ks as [|k ks IH]; intros st G; [exact G|].
  cbn [dobserve]. destruct (afind k (g_quotas (d_cpu st))) as [mq|] eqn:Hf.
  - specialize (IH (refresh2 k st) (refresh2_same k st G)).
    destruct (dobserve ks (refresh2 k st)) as [st' o]. exact IH.
  - specialize (IH st G). destruct (dobserve ks st) as [st' o]. exact IH.
Qed.

(* ---------- the allocated / guaranteed walk ---------- *)
Lemma us_nonneg mem ps k : (forall p, In p ps -> 0 <= p_cpu p /\ 0 <= p_mem p) -> 0 <= us mem ps k.
Proof.
  intro H. unfold us. apply sumZ_map_nonneg. intros p Hp. unfold term, pdim.
  destruct (H p Hp). destruct ((p_quota p =? k) && p_assigned p); [destruct mem; assumption|lia].
Qed.

Lemma repl_repl {A} k (x y : A) l : repl k y (repl k x l) = repl k y l.
Proof.
  unfold repl. rewrite map_map. apply map_ext. intro e.
  destruct (fst e =? k) eqn:E; cbn [fst]; [rewrite Z.eqb_refl|rewrite E]; reflexivity.
Qed.

(* one level in one half *)
Lemma level_half s j m alf alf' usf d F :
  minv s -> afind j (g_quotas s) = Some m ->
  broken (gview s) alf usf j d ->
  (forall k, 0 <= usf k) -> (forall k f, afind k (gview s) = Some f -> 0 <= gm f) ->
  alf' j = Z.max 0 (alf j + d) -> (forall x, x <> j -> alf' x = alf x) ->
  let g := Z.max (alf' j) (m_min m) in
  let s' := upd_calc (m_parent m) F (set_quota j (with_info m (q_set_guar g (m_info m))) s) in
  broken (gview s') alf' usf (m_parent m) (g - q_guar (m_info m))
  /\ (forall k f, afind k (gview s') = Some f -> 0 <= gm f)
  /\ shape s' = shape s.
Proof.
  intros Hi Hf Hb Hus Hm Haj Hax g s'.
  assert (Hnd : NoDup (map fst (gview s))) by (rewrite gview_keys; apply (mi_nodup _ Hi)).
  assert (Hfv : afind j (gview s) = Some (gfig_of m)) by (rewrite afind_gview, Hf; reflexivity).
  assert (Hgv : gview s' = repl j (mkG (m_parent m) (m_min m) g) (gview s)).
  { unfold s'. change (gview (set_quota j (with_info m (q_set_guar g (m_info m))) s) = repl j (mkG (m_parent m) (m_min m) g) (gview s)).
    rewrite (gview_set_quota j _ m s Hf). reflexivity. }
  assert (Hpos : 0 <= alf j + d).
  { destruct Hb as [He [_ H3]]. rewrite (H3 _ Hfv).
    pose proof (Hus j). pose proof (kid_guar_nonneg j (gview s) (guar_nonneg _ _ He Hnd Hm)). lia. }
  split; [|split].
  - rewrite Hgv.
    apply (level_fix (gview s) alf alf' usf j (gfig_of m) d (m_min m) Hnd Hfv); try assumption.
    cbn [gfig_of gp]. apply (mi_parents _ Hi j m Hf).
  - intros k f. rewrite Hgv, afind_repl. destruct (j =? k) eqn:E.
    + apply Z.eqb_eq in E. subst k. rewrite Hfv. cbn [option_map]. intro H. inversion H. cbn [gm].
      apply (Hm j (gfig_of m) Hfv).
    + apply Hm.
  - unfold s'. change (shape (set_quota j (with_info m (q_set_guar g (m_info m))) s) = shape s).
    apply (shape_set_quota j _ m); [apply (mi_nodup _ Hi)|exact Hf|reflexivity].
Qed.

Lemma alloc_of_set k a k' s1 s2 al0 ps :
  alloc_of k' (mkD s1 s2 (aset k a al0) ps) = if k =? k' then a else match afind k' al0 with Some x => x | None => (0, 0) end.
Proof. unfold alloc_of. cbn [d_alloc]. rewrite afind_aset. destruct (k =? k'); reflexivity. Qed.

Lemma walk_ginv pth : forall d1 d2 st j,
  gbroken st j d1 d2 -> chain_up j pth (shape (d_cpu st)) -> ginv (rec_alloc2 pth d1 d2 st).
Proof.
  induction pth as [|k rest IH]; intros d1 d2 st j G Hc.
  - cbn [rec_alloc2]. apply (gbroken_dead st j d1 d2 G). exact Hc.
  - cbn [chain_up] in Hc. destruct Hc as [Hk [p [Hp Hc]]]. subst k.
    destruct G as [P B]. pose proof (gi_inv st P) as [H1 H2]. pose proof (gi_sync st P) as Hs.
    assert (Hp2 : afind j (shape (d_mem st)) = Some p) by (rewrite <- Hs; exact Hp).
    rewrite afind_shape in Hp, Hp2.
    cbn [rec_alloc2].
    destruct (afind j (g_quotas (d_cpu st))) as [m1|] eqn:Hf1; [|discriminate].
    destruct (afind j (g_quotas (d_mem st))) as [m2|] eqn:Hf2; [|discriminate].
    cbn [option_map] in Hp, Hp2. inversion Hp as [Hp1]. inversion Hp2 as [Hp2'].
    cbv zeta.
    set (a := alloc_of j st).
    set (a1 := Z.max 0 (fst a + d1)). set (a2 := Z.max 0 (snd a + d2)).
    set (g1 := Z.max a1 (m_min m1)). set (g2 := Z.max a2 (m_min m2)).
    match goal with |- ginv (rec_alloc2 rest _ _ ?X) => set (st1 := X) end.
    assert (Hpn : forall q, In q (d_pods st) -> 0 <= p_cpu q /\ 0 <= p_mem q)
      by (intros q Hq; destruct (gi_pods st P q Hq) as [A [B0 _]]; auto).
    assert (Hal : forall mem x, x <> j -> al mem st1 x = al mem st x).
    { intros mem x Hx. unfold al, st1. rewrite alloc_of_set.
      destruct (j =? x) eqn:E; [apply Z.eqb_eq in E; congruence|reflexivity]. }
    assert (L1 := level_half (d_cpu st) j m1 (al false st) (al false st1) (us false (d_pods st)) d1
                    (force_guaranteed (needUpdateOneGroupGuaranteed j (q_set_guar g1 (m_info m1)) (get_calc (m_parent m1) (d_cpu st))
                                       || needUpdateOneGroupGuaranteed j (q_set_guar g2 (m_info m2)) (get_calc (m_parent m2) (d_mem st)))
                                      j (q_set_guar g1 (m_info m1)))
                    H1 Hf1 (B false) (fun x => us_nonneg false _ x Hpn) (gi_min st P false)).
    assert (L2 := level_half (d_mem st) j m2 (al true st) (al true st1) (us true (d_pods st)) d2
                    (force_guaranteed (needUpdateOneGroupGuaranteed j (q_set_guar g1 (m_info m1)) (get_calc (m_parent m1) (d_cpu st))
                                       || needUpdateOneGroupGuaranteed j (q_set_guar g2 (m_info m2)) (get_calc (m_parent m2) (d_mem st)))
                                      j (q_set_guar g2 (m_info m2)))
                    H2 Hf2 (B true) (fun x => us_nonneg true _ x Hpn) (gi_min st P true)).
    assert (Ha1 : al false st1 j = Z.max 0 (al false st j + d1)).
    { unfold al, st1. rewrite alloc_of_set, Z.eqb_refl. reflexivity. }
    assert (Ha2 : al true st1 j = Z.max 0 (al true st j + d2)).
    { unfold al, st1. rewrite alloc_of_set, Z.eqb_refl. reflexivity. }
    specialize (L1 Ha1 (Hal false)). specialize (L2 Ha2 (Hal true)).
    cbv zeta in L1, L2.
    replace (Z.max (al false st1 j) (m_min m1)) with g1 in L1 by (rewrite Ha1; reflexivity).
    replace (Z.max (al true st1 j) (m_min m2)) with g2 in L2 by (rewrite Ha2; reflexivity).
    destruct L1 as [B1 [M1 S1]]. destruct L2 as [B2 [M2 S2]].
    apply (IH _ _ st1 p).
    + split.
      * constructor.
        -- split; cbn [st1 d_cpu d_mem]; apply guar_level_inv; try assumption;
             intro E; apply orb_false_elim in E; apply E.
        -- cbn [st1 d_cpu d_mem]. rewrite S1, S2. exact Hs.
        -- cbn [st1 d_cpu]. rewrite S1. apply (gi_ord st P).
        -- intros mem. destruct mem; cbn [half st1 d_cpu d_mem]; assumption.
        -- intros q Hq. cbn [st1 d_pods d_cpu] in *. rewrite S1. apply (gi_pods st P q Hq).
        -- intros k s. apply (gi_uniq st P).
        -- intros k Hk. cbn [st1 d_cpu] in Hk. rewrite S1 in Hk. unfold st1. rewrite alloc_of_set.
           destruct (j =? k) eqn:E.
           ++ apply Z.eqb_eq in E. subst k. rewrite afind_shape, Hf1 in Hk. discriminate.
           ++ apply (gi_dead st P k Hk).
      * intro mem. destruct mem; cbn [half st1 d_cpu d_mem d_pods sel fst snd].
        -- rewrite <- Hp2'. exact B2.
        -- rewrite <- Hp1. exact B1.
    + cbn [st1 d_cpu]. rewrite S1. exact Hc.
Qed.

(* ---------- the path of the model is the whole chain ---------- *)
Lemma path_chain_up st k : gpre st -> chain_up k (path k (d_cpu st)) (shape (d_cpu st)).
Proof.
  intro P. destruct (gi_inv st P) as [H1 _]. rewrite path_shape. apply complete.
  - rewrite shape_keys. apply (mi_nodup _ H1).
  - rewrite afind_shape, (mi_noroot _ H1). reflexivity.
  - apply (gi_ord st P).
Qed.

Lemma broken0_geq v alf usf j : broken v alf usf j 0 -> geq v alf usf.
Proof.
  intros [H1 [H2 H3]]. split; [exact H1|]. intros k f Hf.
  destruct (Z.eq_dec k j) as [->|Hn]; [|apply (H2 k f Hf Hn)].
  unfold eq_alloc. specialize (H3 f Hf). lia.
Qed.

Lemma gbroken0_ginv st j : gbroken st j 0 0 -> ginv st.
Proof.
  intros [P B]. split; [exact P|]. intro mem. apply (broken0_geq _ _ _ j).
  specialize (B mem). destruct mem; exact B.
Qed.

Lemma used_walk_ginv k d1 d2 st : gbroken st k d1 d2 -> ginv (used_walk true k d1 d2 st).
Proof. intro G. cbn [used_walk]. apply (walk_ginv _ d1 d2 st k G). apply path_chain_up, G. Qed.

Lemma pod_used_ginv k d1 d2 st : gbroken st k d1 d2 -> ginv (pod_used true k d1 d2 st).
Proof.
  intro G. unfold pod_used. destruct ((d1 =? 0) && (d2 =? 0)) eqn:E; [|apply used_walk_ginv, G].
  apply andb_prop in E. destruct E as [E1 E2]. apply Z.eqb_eq in E1, E2. subst. apply (gbroken0_ginv st k G).
Qed.

(* ---------- the pod tables ---------- *)
Lemma rec_alloc2_pods pth : forall d1 d2 st ps,
  rec_alloc2 pth d1 d2 (set_pods ps st) = set_pods ps (rec_alloc2 pth d1 d2 st).
Proof.
  induction pth as [|k rest IH]; intros d1 d2 st ps; [reflexivity|].
  cbn [rec_alloc2 set_pods d_cpu d_mem].
  destruct (afind k (g_quotas (d_cpu st))) as [m1|]; [|reflexivity].
  destruct (afind k (g_quotas (d_mem st))) as [m2|]; [|reflexivity].
  cbv zeta. unfold alloc_of. cbn [d_alloc d_pods].
  rewrite <- IH. reflexivity.
Qed.

Lemma pod_used_pods gate k d1 d2 st ps :
  pod_used gate k d1 d2 (set_pods ps st) = set_pods ps (pod_used gate k d1 d2 st).
Proof.
  unfold pod_used. destruct (_ && _); [reflexivity|]. unfold used_walk. destruct gate; [|reflexivity].
  cbn [set_pods d_cpu]. apply rec_alloc2_pods.
Qed.

Definition pods_ok (st : dmgr) (ps : list dpod) : Prop :=
  (forall p, In p ps -> 0 <= p_cpu p /\ 0 <= p_mem p /\ afind (p_quota p) (shape (d_cpu st)) <> None)
  /\ (forall k s, (length (filter (pod_is k s) ps) <= 1)%nat).

Lemma gbroken_pods st ps k e1 e2 :
  ginv st -> pods_ok st ps ->
  (forall mem x, us mem ps x = us mem (d_pods st) x + (if x =? k then sel mem (e1, e2) else 0)) ->
  gbroken (set_pods ps st) k e1 e2.
Proof.
  intros [P E] [O1 O2] Hu. split.
  - destruct P as [Hi Hs Ho Hm Hp Hq Hd]. constructor; try assumption.
  - intro mem. destruct (E mem) as [G1 G2].
    assert (Hh : half mem (set_pods ps st) = half mem st) by (destruct mem; reflexivity).
    rewrite Hh. cbn [set_pods d_pods].
    assert (Ha : forall x, al mem (set_pods ps st) x = al mem st x) by reflexivity.
    split; [|split].
    + intros x f Hf. rewrite Ha. apply (G1 x f Hf).
    + intros x f Hf Hx. unfold eq_alloc. rewrite Ha, Hu.
      destruct (x =? k) eqn:Ex; [apply Z.eqb_eq in Ex; congruence|]. rewrite Z.add_0_r. apply (G2 x f Hf).
    + intros f Hf. rewrite Ha, Hu, Z.eqb_refl. pose proof (G2 k f Hf) as Hq. unfold eq_alloc in Hq. lia.
Qed.

Lemma us_app mem ps p x : us mem (ps ++ [p]) x = us mem ps x + term mem x p.
Proof. unfold us. rewrite map_app, sumZ_app. cbn. lia. Qed.

Lemma us_split mem g ps x :
  us mem ps x = us mem (filter g ps) x + us mem (filter (fun p => negb (g p)) ps) x.
Proof. unfold us. apply sumZ_map_filter_split. Qed.

Lemma find_unique st k s p :
  (length (filter (pod_is k s) (d_pods st)) <= 1)%nat -> pod_find2 k s st = Some p ->
  filter (pod_is k s) (d_pods st) = [p].
Proof.
  unfold pod_find2. intros Hl Hf. destruct (filter (pod_is k s) (d_pods st)) as [|q [|r l]]; try discriminate.
  - inversion Hf. reflexivity.
  - cbn in Hl. lia.
Qed.

Lemma find_none st k s : pod_find2 k s st = None -> filter (pod_is k s) (d_pods st) = [].
Proof. unfold pod_find2. destruct (filter (pod_is k s) (d_pods st)); [reflexivity|discriminate]. Qed.

Lemma find_is st k s p : pod_find2 k s st = Some p -> In p (d_pods st) /\ p_quota p = k /\ p_slot p = s.
Proof.
  unfold pod_find2. intro H. destruct (filter (pod_is k s) (d_pods st)) as [|q l] eqn:E; [discriminate|].
  inversion H; subst q. assert (Hin : In p (filter (pod_is k s) (d_pods st))) by (rewrite E; left; reflexivity).
  apply filter_In in Hin. destruct Hin as [Hin Hp]. unfold pod_is in Hp. apply andb_prop in Hp.
  destruct Hp as [A B]. apply Z.eqb_eq in A, B. auto.
Qed.

(* the (k, s) entry replaced by p (or removed): what it does to "used" *)
Lemma us_without mem st k s x old :
  (length (filter (pod_is k s) (d_pods st)) <= 1)%nat ->
  old = match pod_find2 k s st with Some q => term mem x q | None => 0 end ->
  us mem (filter (fun p => negb (pod_is k s p)) (d_pods st)) x = us mem (d_pods st) x - old.
Proof.
  intros Hl Ho. subst old. rewrite (us_split mem (pod_is k s) (d_pods st) x).
  destruct (pod_find2 k s st) as [q|] eqn:E.
  - rewrite (find_unique st k s q Hl E). unfold us at 2. cbn [map]. rewrite sumZ_cons, sumZ_nil. lia.
  - rewrite (find_none st k s E). unfold us at 2. cbn [map]. rewrite sumZ_nil. lia.
Qed.

Lemma filter_filter_neg {A} (g : A -> bool) l : filter g (filter (fun x => negb (g x)) l) = [].
Proof.
  induction l as [|x l IH]; [reflexivity|]. cbn [filter]. destruct (g x) eqn:E; cbn [negb filter]; [exact IH|].
  rewrite E. exact IH.
Qed.

Lemma pod_is_other k s k' s' p : pod_is k s p = true -> pod_is k' s' p = true -> k' = k /\ s' = s.
Proof.
  unfold pod_is. intros A B. apply andb_prop in A, B. destruct A as [A1 A2], B as [B1 B2].
  apply Z.eqb_eq in A1, A2, B1, B2. split; congruence.
Qed.

Lemma uniq_without st k s :
  (forall k' s', (length (filter (pod_is k' s') (d_pods st)) <= 1)%nat) ->
  forall k' s', (length (filter (pod_is k' s') (filter (fun p => negb (pod_is k s p)) (d_pods st))) <= 1)%nat.
Proof.
  intros H k' s'. specialize (H k' s').
  pose proof (filter_length_le (fun p => negb (pod_is k s p)) (filter (pod_is k' s') (d_pods st))) as L.
  assert (E : filter (pod_is k' s') (filter (fun p => negb (pod_is k s p)) (d_pods st))
              = filter (fun p => negb (pod_is k s p)) (filter (pod_is k' s') (d_pods st))).
  { generalize (d_pods st). intro l. induction l as [|x l IH]; [reflexivity|]. cbn [filter].
    destruct (pod_is k s x) eqn:A, (pod_is k' s' x) eqn:B; cbn [negb filter]; rewrite ?A, ?B; cbn [negb]; rewrite ?IH; reflexivity. }
  rewrite E. lia.
Qed.

Lemma uniq_put st p :
  (forall k' s', (length (filter (pod_is k' s') (d_pods st)) <= 1)%nat) ->
  forall k' s', (length (filter (pod_is k' s')
                   (filter (fun x => negb (pod_is (p_quota p) (p_slot p) x)) (d_pods st) ++ [p])) <= 1)%nat.
Proof.
  intros H k' s'. rewrite filter_app, app_length. cbn [filter].
  destruct (pod_is k' s' p) eqn:E; cbn [length].
  - assert (Hk : k' = p_quota p /\ s' = p_slot p).
    { unfold pod_is in E. apply andb_prop in E. destruct E as [A B]. apply Z.eqb_eq in A, B. auto. }
    destruct Hk as [-> ->]. rewrite filter_filter_neg. cbn. lia.
  - pose proof (uniq_without st (p_quota p) (p_slot p) H k' s'). lia.
Qed.

Lemma pods_ok_without st k s : gpre st -> pods_ok st (filter (fun p => negb (pod_is k s p)) (d_pods st)).
Proof.
  intro P. split.
  - intros p Hp. apply filter_In in Hp. apply (gi_pods st P p (proj1 Hp)).
  - apply uniq_without, (gi_uniq st P).
Qed.

Lemma pods_ok_put st p :
  gpre st -> 0 <= p_cpu p -> 0 <= p_mem p -> afind (p_quota p) (shape (d_cpu st)) <> None ->
  pods_ok st (filter (fun x => negb (pod_is (p_quota p) (p_slot p) x)) (d_pods st) ++ [p]).
Proof.
  intros P Hc Hm Hq. split.
  - intros q Hin. apply in_app_or in Hin. destruct Hin as [Hin|[<-|[]]]; [|auto].
    apply filter_In in Hin. apply (gi_pods st P q (proj1 Hin)).
  - apply uniq_put, (gi_uniq st P).
Qed.

Lemma us_put mem st p x :
  gpre st ->
  us mem (filter (fun q => negb (pod_is (p_quota p) (p_slot p) q)) (d_pods st) ++ [p]) x
  = us mem (d_pods st) x
    - match pod_find2 (p_quota p) (p_slot p) st with Some q => term mem x q | None => 0 end
    + term mem x p.
Proof.
  intro P. rewrite us_app.
  rewrite (us_without mem st (p_quota p) (p_slot p) x _ (gi_uniq st P _ _) eq_refl). reflexivity.
Qed.

Lemma term_at mem x k s c m (asg : bool) :
  term mem x (mkPod k s c m asg) = if x =? k then (if asg then sel mem (c, m) else 0) else 0.
Proof.
  unfold term, pdim, sel. cbn [p_quota p_assigned p_cpu p_mem fst snd].
  rewrite (Z.eqb_sym k x). destruct (x =? k), asg, mem; reflexivity.
Qed.

Lemma term_found mem x st k s p :
  pod_find2 k s st = Some p ->
  term mem x p = if x =? k then (if p_assigned p then sel mem (p_cpu p, p_mem p) else 0) else 0.
Proof.
  intro H. destruct (find_is st k s p H) as [_ [Hk _]]. destruct p as [k0 s0 c m a]. cbn in Hk. subst k0.
  apply term_at.
Qed.

(* ---------- frames of the walks: pods and shape ---------- *)
Lemma rec_alloc2_d_pods pth : forall d1 d2 st, d_pods (rec_alloc2 pth d1 d2 st) = d_pods st.
Proof.
  induction pth as [|k rest IH]; intros d1 d2 st; [reflexivity|]. cbn [rec_alloc2].
  destruct (afind k (g_quotas (d_cpu st))); [|reflexivity].
  destruct (afind k (g_quotas (d_mem st))); [|reflexivity].
  cbv zeta. rewrite IH. reflexivity.
Qed.

Lemma pod_used_d_pods gate k d1 d2 st : d_pods (pod_used gate k d1 d2 st) = d_pods st.
Proof.
  unfold pod_used. destruct (_ && _); [reflexivity|]. unfold used_walk. destruct gate; [|reflexivity].
  apply rec_alloc2_d_pods.
Qed.

Lemma pod_request_d_pods k d1 d2 st : d_pods (pod_request k d1 d2 st) = d_pods st.
Proof. unfold pod_request. destruct (_ && _); reflexivity. Qed.

Lemma rec_alloc2_shape pth : forall d1 d2 st, dinv st -> shape (d_cpu (rec_alloc2 pth d1 d2 st)) = shape (d_cpu st).
Proof.
  induction pth as [|k rest IH]; intros d1 d2 st [H1 H2]; [reflexivity|]. cbn [rec_alloc2].
  destruct (afind k (g_quotas (d_cpu st))) as [m1|] eqn:Hf1; [|reflexivity].
  destruct (afind k (g_quotas (d_mem st))) as [m2|] eqn:Hf2; [|reflexivity].
  cbv zeta. rewrite IH.
  - cbn [d_cpu].
    match goal with |- shape (upd_calc _ _ (set_quota k ?X (d_cpu st))) = _ =>
      change (shape (set_quota k X (d_cpu st)) = shape (d_cpu st)) end.
    apply (shape_set_quota k _ m1); [apply (mi_nodup _ H1)|exact Hf1|reflexivity].
  - split; cbn [d_cpu d_mem]; apply guar_level_inv; try assumption;
      intro E; apply orb_false_elim in E; apply E.
Qed.

Lemma pod_used_shape gate k d1 d2 st : dinv st -> shape (d_cpu (pod_used gate k d1 d2 st)) = shape (d_cpu st).
Proof.
  intro Hi. unfold pod_used. destruct (_ && _); [reflexivity|]. unfold used_walk. destruct gate; [|reflexivity].
  apply rec_alloc2_shape, Hi.
Qed.

Lemma pod_request_shape k d1 d2 st : dinv st -> shape (d_cpu (pod_request k d1 d2 st)) = shape (d_cpu st).
Proof.
  intros [H1 H2]. unfold pod_request. destruct (_ && _); [reflexivity|]. unfold request_walk. cbn [with_halves d_cpu].
  destruct (rec_delta2_gview (path k (d_cpu st)) d1 d2 _ _ H1 H2) as [Ga _].
  rewrite !shape_of_gview, Ga. reflexivity.
Qed.

Lemma sel_neg mem c m : sel mem (- c, - m) = - sel mem (c, m).
Proof. destruct mem; reflexivity. Qed.

Lemma sel_sub mem c m c0 m0 : sel mem (c - c0, m - m0) = sel mem (c, m) - sel mem (c0, m0).
Proof. destruct mem; reflexivity. Qed.

(* a pod table in which the (k, s) entry is replaced by p *)
Lemma put_pod_gbroken st p e1 e2 :
  ginv st -> 0 <= p_cpu p -> 0 <= p_mem p -> afind (p_quota p) (shape (d_cpu st)) <> None ->
  (forall mem x, term mem x p - match pod_find2 (p_quota p) (p_slot p) st with Some q => term mem x q | None => 0 end
                 = if x =? p_quota p then sel mem (e1, e2) else 0) ->
  gbroken (put_pod p st) (p_quota p) e1 e2.
Proof.
  intros G Hc Hm Hq Ht. unfold put_pod.
  apply (gbroken_pods st _ (p_quota p) e1 e2 G).
  - apply pods_ok_put; try assumption. apply G.
  - intros mem x. rewrite (us_put mem st p x (proj1 G)). specialize (Ht mem x). lia.
Qed.

Lemma del_pod_gbroken st k s e1 e2 :
  ginv st ->
  (forall mem x, - match pod_find2 k s st with Some q => term mem x q | None => 0 end
                 = if x =? k then sel mem (e1, e2) else 0) ->
  gbroken (del_pod k s st) k e1 e2.
Proof.
  intros G Ht. unfold del_pod.
  apply (gbroken_pods st _ k e1 e2 G).
  - apply pods_ok_without, G.
  - intros mem x. rewrite (us_without mem st k s x _ (gi_uniq st (proj1 G) _ _) eq_refl).
    specialize (Ht mem x). lia.
Qed.

(* ---------- the pod events ---------- *)
Lemma find_after_request k s k' d1 d2 st : pod_find2 k s (pod_request k' d1 d2 st) = pod_find2 k s st.
Proof. unfold pod_find2. rewrite pod_request_d_pods. reflexivity. Qed.

Lemma pod_leave_ginv k s st : ginv st -> ginv (pod_leave true k s st).
Proof.
  intro G. unfold pod_leave. destruct (pod_find2 k s st) as [p|] eqn:E; [|exact G]. cbv zeta.
  set (st1 := pod_request k (- p_cpu p) (- p_mem p) st).
  assert (G1 : ginv st1) by (apply pod_request_same, G).
  assert (E1 : pod_find2 k s st1 = Some p) by (unfold st1; rewrite find_after_request; exact E).
  destruct (p_assigned p) eqn:Ea.
  - assert (Hc : del_pod k s (pod_used true k (- p_cpu p) (- p_mem p) st1)
                 = pod_used true k (- p_cpu p) (- p_mem p) (del_pod k s st1)).
    { unfold del_pod. rewrite pod_used_d_pods. symmetry. apply pod_used_pods. }
    rewrite Hc. apply pod_used_ginv. apply del_pod_gbroken; [exact G1|].
    intros mem x. rewrite E1, (term_found mem x st1 k s p E1), Ea, sel_neg.
    destruct (x =? k); lia.
  - apply (gbroken0_ginv _ k). apply del_pod_gbroken; [exact G1|].
    intros mem x. rewrite E1, (term_found mem x st1 k s p E1), Ea.
    destruct (x =? k), mem; reflexivity.
Qed.

Lemma find_after_put st p : pod_find2 (p_quota p) (p_slot p) (put_pod p st) = Some p.
Proof.
  unfold pod_find2, put_pod. cbn [set_pods d_pods]. rewrite filter_app, filter_filter_neg. cbn [app filter].
  unfold pod_is. rewrite !Z.eqb_refl. reflexivity.
Qed.

Lemma pod_arrive_ginv k s c m asg st :
  ginv st -> 0 <= c -> 0 <= m -> afind k (shape (d_cpu st)) <> None -> pod_find2 k s st = None ->
  ginv (pod_arrive true k s c m asg st).
Proof.
  intros G Hc Hm Hk E. unfold pod_arrive. cbv zeta.
  set (st0 := put_pod (mkPod k s c m false) st).
  assert (G0 : ginv st0).
  { apply (gbroken0_ginv _ k). apply (put_pod_gbroken st (mkPod k s c m false) 0 0 G); try assumption.
    intros mem x. cbn [p_quota p_slot]. rewrite E, term_at. destruct (x =? k), mem; reflexivity. }
  set (st1 := pod_request k c m st0).
  assert (G1 : ginv st1) by (apply pod_request_same, G0).
  destruct asg; [|exact G1].
  apply pod_used_ginv.
  assert (E1 : pod_find2 k s st1 = Some (mkPod k s c m false)).
  { unfold st1. rewrite find_after_request. apply (find_after_put st (mkPod k s c m false)). }
  apply (put_pod_gbroken st1 (mkPod k s c m true) c m G1); try assumption.
  - cbn [p_quota]. unfold st1. rewrite pod_request_shape by apply G0. exact Hk.
  - intros mem x. cbn [p_quota p_slot]. rewrite E1, !term_at. destruct (x =? k); lia.
Qed.

Lemma find_after_del k s st : pod_find2 k s (del_pod k s st) = None.
Proof. unfold pod_find2, del_pod. cbn [set_pods d_pods]. rewrite filter_filter_neg. reflexivity. Qed.

Lemma pod_leave_find k s st : pod_find2 k s (pod_leave true k s st) = None.
Proof.
  unfold pod_leave. destruct (pod_find2 k s st) eqn:E; [|exact E]. cbv zeta. apply find_after_del.
Qed.

Lemma pod_leave_shape k s st : dinv st -> shape (d_cpu (pod_leave true k s st)) = shape (d_cpu st).
Proof.
  intro Hi. unfold pod_leave. destruct (pod_find2 k s st) as [p|]; [|reflexivity]. cbv zeta.
  unfold del_pod. cbn [set_pods d_cpu].
  destruct (p_assigned p).
  - rewrite pod_used_shape by (apply pod_request_inv, Hi). apply pod_request_shape, Hi.
  - apply pod_request_shape, Hi.
Qed.

Lemma pod_set2_ginv k s c m asg st : ginv st -> 0 <= c -> 0 <= m -> ginv (pod_set2 true k s c m asg st).
Proof.
  intros G Hc Hm. unfold pod_set2. destruct (afind k (g_quotas (d_cpu st))) as [mq|] eqn:Hf; [|exact G].
  destruct (m_isParent mq); [exact G|]. cbv zeta.
  destruct ((c =? 0) && (m =? 0)); [apply pod_leave_ginv, G|].
  apply pod_arrive_ginv; try assumption.
  - apply pod_leave_ginv, G.
  - rewrite pod_leave_shape by apply G. rewrite afind_shape, Hf. discriminate.
  - apply pod_leave_find.
Qed.

Lemma pod_reserve_ginv k s st : ginv st -> ginv (pod_reserve true k s st).
Proof.
  intro G. unfold pod_reserve. destruct (pod_find2 k s st) as [p|] eqn:E; [|exact G].
  destruct (p_assigned p) eqn:Ea; [exact G|].
  destruct (find_is st k s p E) as [Hin [Hk Hs]]. destruct (gi_pods st (proj1 G) p Hin) as [Hc [Hm Hq]].
  apply pod_used_ginv.
  apply (put_pod_gbroken st (mkPod k s (p_cpu p) (p_mem p) true) (p_cpu p) (p_mem p) G); try assumption.
  - cbn [p_quota]. rewrite <- Hk. exact Hq.
  - intros mem x. cbn [p_quota p_slot]. rewrite E, term_at, (term_found mem x st k s p E), Ea.
    destruct (x =? k); lia.
Qed.

Lemma put_pod_used gate k d1 d2 p st :
  put_pod p (pod_used gate k d1 d2 st) = pod_used gate k d1 d2 (put_pod p st).
Proof. unfold put_pod. rewrite pod_used_d_pods. symmetry. apply pod_used_pods. Qed.

Lemma pod_unreserve_ginv k s st : ginv st -> ginv (pod_unreserve true k s st).
Proof.
  intro G. unfold pod_unreserve. destruct (pod_find2 k s st) as [p|] eqn:E; [|exact G].
  destruct (p_assigned p) eqn:Ea; [|exact G].
  destruct (find_is st k s p E) as [Hin [Hk Hs]]. destruct (gi_pods st (proj1 G) p Hin) as [Hc [Hm Hq]].
  rewrite put_pod_used. apply pod_used_ginv.
  apply (put_pod_gbroken st (mkPod k s (p_cpu p) (p_mem p) false) (- p_cpu p) (- p_mem p) G); try assumption.
  - cbn [p_quota]. rewrite <- Hk. exact Hq.
  - intros mem x. cbn [p_quota p_slot]. rewrite E, term_at, (term_found mem x st k s p E), Ea, sel_neg.
    destruct (x =? k); lia.
Qed.

Lemma pod_resize_ginv k s c m st : ginv st -> 0 <= c -> 0 <= m -> ginv (pod_resize true k s c m st).
Proof.
  intros G Hc Hm. unfold pod_resize. destruct (pod_find2 k s st) as [p|] eqn:E; [|exact G]. cbv zeta.
  destruct (find_is st k s p E) as [Hin [Hk Hs]]. destruct (gi_pods st (proj1 G) p Hin) as [_ [_ Hq]].
  set (p' := mkPod k s c m (p_assigned p)).
  assert (Hq' : afind (p_quota p') (shape (d_cpu st)) <> None) by (cbn [p' p_quota]; rewrite <- Hk; exact Hq).
  destruct (p_assigned p) eqn:Ea.
  - (* the used walk comes after the request walk; the request walk reads nothing of the pods *)
    assert (B : gbroken (put_pod p' st) k (c - p_cpu p) (m - p_mem p)).
    { apply (put_pod_gbroken st p' (c - p_cpu p) (m - p_mem p) G); try assumption.
      intros mem x. unfold p'. cbn [p_quota p_slot]. rewrite E, term_at, (term_found mem x st k s p E), Ea, sel_sub.
      destruct (x =? k); lia. }
    apply pod_used_ginv. unfold pod_request. destruct (_ && _); [exact B|apply request_walk_broken, B].
  - apply pod_request_same. apply (gbroken0_ginv _ k).
    apply (put_pod_gbroken st p' 0 0 G); try assumption.
    intros mem x. unfold p'. cbn [p_quota p_slot]. rewrite E, term_at, (term_found mem x st k s p E), Ea.
    destruct (x =? k), mem; reflexivity.
Qed.

(* ---------- doUpdateOneGroupMinQuotaNoLock with the gate on ---------- *)
Lemma shape_repl_same k (f f' : gfig) (v : gv) :
  NoDup (map fst v) -> afind k v = Some f -> gp f' = gp f ->
  map (fun e => (fst e, gp (snd e))) (repl k f' v) = map (fun e => (fst e, gp (snd e))) v.
Proof.
  intros Hnd Hf Hp. unfold repl. rewrite map_map. apply map_ext_in. intros e He. cbn [fst snd].
  destruct (fst e =? k) eqn:E; [|reflexivity]. apply Z.eqb_eq in E.
  destruct e as [k0 f0]. cbn in *. subst k0. apply (In_afind _ _ _ Hnd) in He.
  assert (f0 = f) by congruence. subst f0. rewrite Hp. reflexivity.
Qed.

(* T differs from st in the record of quota k only: same parent, min' >= 0, some Guaranteed *)
Lemma gpre_repl st T k (f1 f2 f1' f2' : gfig) :
  gpre st -> dinv T -> d_alloc T = d_alloc st -> d_pods T = d_pods st ->
  afind k (gview (d_cpu st)) = Some f1 -> afind k (gview (d_mem st)) = Some f2 ->
  gview (d_cpu T) = repl k f1' (gview (d_cpu st)) -> gview (d_mem T) = repl k f2' (gview (d_mem st)) ->
  gp f1' = gp f1 -> gp f2' = gp f2 -> 0 <= gm f1' -> 0 <= gm f2' ->
  gpre T.
Proof.
  intros P HiT Ha Hp Hf1 Hf2 G1 G2 P1 P2 M1 M2.
  destruct (gi_inv st P) as [H1 H2].
  assert (N1 : NoDup (map fst (gview (d_cpu st)))) by (rewrite gview_keys; apply (mi_nodup _ H1)).
  assert (N2 : NoDup (map fst (gview (d_mem st)))) by (rewrite gview_keys; apply (mi_nodup _ H2)).
  assert (S1 : shape (d_cpu T) = shape (d_cpu st))
    by (rewrite !shape_of_gview, G1; apply (shape_repl_same k f1); assumption).
  assert (S2 : shape (d_mem T) = shape (d_mem st))
    by (rewrite !shape_of_gview, G2; apply (shape_repl_same k f2); assumption).
  constructor.
  - exact HiT.
  - rewrite S1, S2. apply (gi_sync st P).
  - rewrite S1. apply (gi_ord st P).
  - intros mem x f. destruct mem; cbn [half].
    + rewrite G2, afind_repl. destruct (k =? x) eqn:E.
      * apply Z.eqb_eq in E. subst x. rewrite Hf2. cbn. intro H. inversion H; subst f. exact M2.
      * apply (gi_min st P true).
    + rewrite G1, afind_repl. destruct (k =? x) eqn:E.
      * apply Z.eqb_eq in E. subst x. rewrite Hf1. cbn. intro H. inversion H; subst f. exact M1.
      * apply (gi_min st P false).
  - intros p. rewrite Hp, S1. apply (gi_pods st P).
  - intros x s. rewrite Hp. apply (gi_uniq st P).
  - intros x. rewrite S1. intro H. unfold alloc_of. rewrite Ha. apply (gi_dead st P x H).
Qed.

Lemma al_nonneg mem st k f :
  ginv st -> afind k (gview (half mem st)) = Some f -> 0 <= al mem st k.
Proof.
  intros [P E] Hf. destruct (E mem) as [E1 E2]. rewrite (E2 k f Hf).
  assert (Hnd : NoDup (map fst (gview (half mem st)))) by (rewrite gview_keys; apply (mi_nodup _ (half_inv mem st (gi_inv st P)))).
  pose proof (kid_guar_nonneg k _ (guar_nonneg _ _ E1 Hnd (gi_min st P mem))).
  assert (0 <= us mem (d_pods st) k).
  { apply us_nonneg. intros q Hq. destruct (gi_pods st P q Hq) as [A [B _]]. auto. }
  lia.
Qed.

Lemma do_min2_ginv k v1 v2 st : ginv st -> 0 <= v1 -> 0 <= v2 -> ginv (do_min2 true k v1 v2 st).
Proof.
  intros G Hv1 Hv2. destruct G as [P E]. destruct (gi_inv st P) as [H1 H2]. unfold do_min2.
  destruct (afind k (g_quotas (d_cpu st))) as [m1|] eqn:Hf1; [|split; assumption].
  destruct (afind k (g_quotas (d_mem st))) as [m2|] eqn:Hf2; [|split; assumption].
  cbv zeta. cbn [negb].
  set (m1' := min_figures m1 v1). set (m2' := min_figures m2 v2).
  set (nd := needUpdateOneGroupRequest k (m_info m1') (updateOneGroupMinQuota k (m_info m1') (get_calc (m_parent m1) (d_cpu st)))
             || needUpdateOneGroupRequest k (m_info m2') (updateOneGroupMinQuota k (m_info m2') (get_calc (m_parent m2) (d_mem st)))).
  set (s1 := upd_calc (m_parent m1) (fun c => force_request nd k (m_info m1') (updateOneGroupMinQuota k (m_info m1') c))
                      (set_quota k m1' (d_cpu st))).
  set (s2 := upd_calc (m_parent m2) (fun c => force_request nd k (m_info m2') (updateOneGroupMinQuota k (m_info m2') c))
                      (set_quota k m2' (d_mem st))).
  assert (I1 : minv s1).
  { apply (min_level_inv (d_cpu st) k m1 v1 nd H1 Hf1). intro X. apply orb_false_elim in X. apply X. }
  assert (I2 : minv s2).
  { apply (min_level_inv (d_mem st) k m2 v2 nd H2 Hf2). intro X. apply orb_false_elim in X. apply X. }
  assert (V1 : gview s1 = repl k (mkG (m_parent m1) v1 (q_guar (m_info m1))) (gview (d_cpu st))).
  { change (gview (set_quota k m1' (d_cpu st)) = repl k (mkG (m_parent m1) v1 (q_guar (m_info m1))) (gview (d_cpu st))).
    rewrite (gview_set_quota k m1' m1 _ Hf1). reflexivity. }
  assert (V2 : gview s2 = repl k (mkG (m_parent m2) v2 (q_guar (m_info m2))) (gview (d_mem st))).
  { change (gview (set_quota k m2' (d_mem st)) = repl k (mkG (m_parent m2) v2 (q_guar (m_info m2))) (gview (d_mem st))).
    rewrite (gview_set_quota k m2' m2 _ Hf2). reflexivity. }
  match goal with |- context [rec_delta2 ?p ?a ?b s1 s2] =>
    destruct (rec_delta2_gview p a b s1 s2 I1 I2) as [W1 W2];
    destruct (rec_delta2_inv p a b s1 s2 I1 I2) as [J1 J2];
    set (st1 := with_halves st (rec_delta2 p a b s1 s2)) in * end.
  assert (F1 : afind k (gview (d_cpu st)) = Some (gfig_of m1)) by (rewrite afind_gview, Hf1; reflexivity).
  assert (F2 : afind k (gview (d_mem st)) = Some (gfig_of m2)) by (rewrite afind_gview, Hf2; reflexivity).
  assert (X1 : afind k (gview (d_cpu st1)) = Some (mkG (m_parent m1) v1 (q_guar (m_info m1)))).
  { cbn [st1 with_halves d_cpu]. rewrite W1, V1, afind_repl, Z.eqb_refl, F1. reflexivity. }
  assert (X2 : afind k (gview (d_mem st1)) = Some (mkG (m_parent m2) v2 (q_guar (m_info m2)))).
  { cbn [st1 with_halves d_mem]. rewrite W2, V2, afind_repl, Z.eqb_refl, F2. reflexivity. }
  rewrite afind_gview in X1, X2.
  destruct (afind k (g_quotas (d_cpu st1))) as [n1|] eqn:Hn1; [|discriminate].
  destruct (afind k (g_quotas (d_mem st1))) as [n2|] eqn:Hn2; [|discriminate].
  cbn [option_map] in X1, X2. injection X1 as Xp1 Xm1 Xg1. injection X2 as Xp2 Xm2 Xg2.
  set (a := alloc_of k st1).
  set (g1 := Z.max (fst a) v1). set (g2 := Z.max (snd a) v2).
  match goal with |- ginv (rec_alloc2 _ _ _ ?X) => set (T := X) end.
  assert (Hal : forall mem x, al mem T x = al mem st x) by reflexivity.
  assert (HiT : dinv T).
  { split; cbn [T d_cpu d_mem]; apply guar_level_inv; try assumption; intro X; apply orb_false_elim in X; apply X. }
  assert (GT1 : gview (d_cpu T) = repl k (mkG (m_parent m1) v1 g1) (gview (d_cpu st))).
  { cbn [T d_cpu].
    match goal with |- gview (upd_calc _ _ (set_quota k ?X (d_cpu st1))) = _ =>
      change (gview (set_quota k X (d_cpu st1)) = repl k (mkG (m_parent m1) v1 g1) (gview (d_cpu st))) end.
    rewrite (gview_set_quota k _ n1 _ Hn1). cbn [st1 with_halves d_cpu]. rewrite W1, V1, repl_repl.
    unfold gfig_of. cbn [with_info m_parent m_min m_info q_set_guar q_guar]. rewrite Xp1, Xm1. reflexivity. }
  assert (GT2 : gview (d_mem T) = repl k (mkG (m_parent m2) v2 g2) (gview (d_mem st))).
  { cbn [T d_mem].
    match goal with |- gview (upd_calc _ _ (set_quota k ?X (d_mem st1))) = _ =>
      change (gview (set_quota k X (d_mem st1)) = repl k (mkG (m_parent m2) v2 g2) (gview (d_mem st))) end.
    rewrite (gview_set_quota k _ n2 _ Hn2). cbn [st1 with_halves d_mem]. rewrite W2, V2, repl_repl.
    unfold gfig_of. cbn [with_info m_parent m_min m_info q_set_guar q_guar]. rewrite Xp2, Xm2. reflexivity. }
  assert (PT : gpre T).
  { apply (gpre_repl st T k (gfig_of m1) (gfig_of m2) _ _ P HiT eq_refl eq_refl F1 F2 GT1 GT2); try reflexivity; assumption. }
  assert (Hpar : m_parent m2 = m_parent m1).
  { pose proof (gi_sync st P) as Hs. apply (f_equal (afind k)) in Hs. rewrite !afind_shape, Hf1, Hf2 in Hs.
    cbn in Hs. congruence. }
  apply (walk_ginv _ _ _ T (m_parent n1)).
  - rewrite Xp1. split; [exact PT|]. intro mem.
    assert (Hnd : NoDup (map fst (gview (half mem st))))
      by (rewrite gview_keys; apply (mi_nodup _ (half_inv mem st (gi_inv st P)))).
    destruct mem.
    + change (broken (gview (d_mem T)) (al true st) (us true (d_pods st)) (m_parent m1)
                     (Z.max (al true st k) v2 - q_guar (m_info n2))).
      rewrite GT2, Xg2, <- Hpar.
      change (broken (repl k (mkG (gp (gfig_of m2)) v2 (Z.max (al true st k) v2)) (gview (d_mem st)))
                     (al true st) (us true (d_pods st)) (gp (gfig_of m2))
                     (Z.max (al true st k) v2 - gg (gfig_of m2))).
      assert (A0 : 0 <= al true st k) by (apply (al_nonneg true st k (gfig_of m2) (conj P E) F2)).
      apply (level_fix (gview (d_mem st)) (al true st) (al true st) (us true (d_pods st)) k (gfig_of m2) 0 v2 Hnd F2).
      * cbn [gfig_of gp]. apply (mi_parents _ H2 k m2 Hf2).
      * apply geq_broken, (E true).
      * lia.
      * lia.
      * reflexivity.
    + change (broken (gview (d_cpu T)) (al false st) (us false (d_pods st)) (m_parent m1)
                     (Z.max (al false st k) v1 - q_guar (m_info n1))).
      rewrite GT1, Xg1.
      change (broken (repl k (mkG (gp (gfig_of m1)) v1 (Z.max (al false st k) v1)) (gview (d_cpu st)))
                     (al false st) (us false (d_pods st)) (gp (gfig_of m1))
                     (Z.max (al false st k) v1 - gg (gfig_of m1))).
      assert (A0 : 0 <= al false st k) by (apply (al_nonneg false st k (gfig_of m1) (conj P E) F1)).
      apply (level_fix (gview (d_cpu st)) (al false st) (al false st) (us false (d_pods st)) k (gfig_of m1) 0 v1 Hnd F1).
      * cbn [gfig_of gp]. apply (mi_parents _ H1 k m1 Hf1).
      * apply geq_broken, (E false).
      * lia.
      * lia.
      * reflexivity.
  - exact (path_chain_up T (m_parent n1) PT).
Qed.

(* ---------- UpdateQuota of a name that is not live ---------- *)
Lemma us_none mem ps k : (forall p, In p ps -> p_quota p <> k) -> us mem ps k = 0.
Proof.
  intro H. unfold us. apply sumZ_map_zero. intros p Hp. unfold term.
  destruct (p_quota p =? k) eqn:E; [apply Z.eqb_eq in E; exfalso; exact (H p Hp E)|reflexivity].
Qed.

Lemma ginv_append st T k par :
  ginv st -> dinv T ->
  gview (d_cpu T) = gview (d_cpu st) ++ [(k, mkG par 0 0)] ->
  gview (d_mem T) = gview (d_mem st) ++ [(k, mkG par 0 0)] ->
  d_alloc T = d_alloc st -> d_pods T = d_pods st ->
  afind k (shape (d_cpu st)) = None -> k <> 0 ->
  (par = 0 \/ afind par (shape (d_cpu st)) <> None) ->
  ginv T.
Proof.
  intros [P E] HiT G1 G2 Ha Hp Hk Hk0 Hpar.
  destruct (gi_inv st P) as [H1 H2]. pose proof (gi_sync st P) as Hs.
  assert (S1 : shape (d_cpu T) = shape (d_cpu st) ++ [(k, par)]).
  { rewrite !shape_of_gview, G1, map_app. reflexivity. }
  assert (S2 : shape (d_mem T) = shape (d_mem st) ++ [(k, par)]).
  { rewrite !shape_of_gview, G2, map_app. reflexivity. }
  assert (Gh : forall mem, gview (half mem T) = gview (half mem st) ++ [(k, mkG par 0 0)])
    by (intro mem; destruct mem; assumption).
  assert (Hkm : forall mem, afind k (gview (half mem st)) = None).
  { intro mem. pose proof Hk as Hk'. rewrite <- (shape_half mem st Hs), afind_gview_shape in Hk'.
    destruct (afind k (gview (half mem st))); [discriminate|reflexivity]. }
  split.
  - constructor.
    + exact HiT.
    + rewrite S1, S2, Hs. reflexivity.
    + rewrite S1. apply ordered_app; [apply (gi_ord st P)|].
      destruct Hpar as [Hp0|Hp0]; [left; exact Hp0|right].
      destruct (afind par (shape (d_cpu st))) as [x|] eqn:Ex; [|congruence].
      apply afind_In in Ex. change par with (fst (par, x)). apply in_map, Ex.
    + intros mem x f. rewrite Gh, afind_app. destruct (afind x (gview (half mem st))) as [f0|] eqn:Ex.
      * intro H. inversion H; subst f0. apply (gi_min st P mem x f Ex).
      * destruct (k =? x); [|discriminate]. intro H. inversion H. cbn. lia.
    + intros p. rewrite Hp, S1. intro Hin. destruct (gi_pods st P p Hin) as [A [B C]].
      split; [exact A|split; [exact B|]]. rewrite afind_app.
      destruct (afind (p_quota p) (shape (d_cpu st))); [discriminate|congruence].
    + intros x s. rewrite Hp. apply (gi_uniq st P).
    + intros x. rewrite S1, afind_app. destruct (afind x (shape (d_cpu st))) eqn:Ex; [discriminate|].
      intros _. unfold alloc_of. rewrite Ha. apply (gi_dead st P x Ex).
  - intro mem. destruct (E mem) as [E1 E2]. rewrite Gh, Hp.
    assert (Hal : forall x, al mem T x = al mem st x) by (intro x; unfold al, alloc_of; rewrite Ha; reflexivity).
    assert (Hak : al mem st k = 0).
    { unfold al. rewrite (gi_dead st P k Hk). destruct mem; reflexivity. }
    assert (Hkg : forall x, kid_guar x (gview (half mem st) ++ [(k, mkG par 0 0)]) = kid_guar x (gview (half mem st))).
    { intro x. rewrite kid_guar_app. cbn [gp gg]. destruct (par =? x); lia. }
    split.
    + intros x f. rewrite afind_app, Hal. destruct (afind x (gview (half mem st))) as [f0|] eqn:Ex.
      * intro H. inversion H; subst f0. apply (E1 x f Ex).
      * destruct (k =? x) eqn:Ek; [|discriminate]. apply Z.eqb_eq in Ek. subst x.
        intro H. inversion H. cbn [gg gm]. rewrite Hak. reflexivity.
    + intros x f. rewrite afind_app. unfold eq_alloc. rewrite Hal, Hkg.
      destruct (afind x (gview (half mem st))) as [f0|] eqn:Ex.
      * intros _. apply (E2 x f0 Ex).
      * destruct (k =? x) eqn:Ek; [|discriminate]. apply Z.eqb_eq in Ek. subst x. intros _.
        rewrite Hak, us_none, kid_guar_none; [reflexivity| |].
        -- intros x f0 Hin.
           assert (Hnd : NoDup (map fst (gview (half mem st))))
             by (rewrite gview_keys; apply (mi_nodup _ (half_inv mem st (gi_inv st P)))).
           apply (In_afind _ _ _ Hnd) in Hin. rewrite afind_gview in Hin.
           destruct (afind x (g_quotas (half mem st))) as [mq|] eqn:Eq; [|discriminate].
           cbn in Hin. inversion Hin. unfold gfig_of. cbn [gp].
           destruct (mi_parents _ (half_inv mem st (gi_inv st P)) x mq Eq) as [_ [Hp0|Hp0]]; [intro; congruence|].
           intro Ec. apply Hp0. rewrite Ec.
           pose proof (Hkm mem) as Hx. rewrite afind_gview in Hx.
           destruct (afind k (g_quotas (half mem st))); [discriminate|reflexivity].
        -- intros p Hin Ec. destruct (gi_pods st P p Hin) as [_ [_ C]]. rewrite Ec in C. congruence.
Qed.

Lemma gview_add_quota k par isPar lnd s :
  gview (add_quota k par isPar lnd s) = gview s ++ [(k, mkG par 0 0)].
Proof. unfold gview. cbn [add_quota g_quotas remake]. rewrite map_app. reflexivity. Qed.

Lemma create2_ginv k par isPar lnd mx1 mx2 st :
  ginv st -> afind k (g_quotas (d_cpu st)) = None -> afind k (g_quotas (d_mem st)) = None -> k <> 0 ->
  (par = 0 \/ (afind par (g_quotas (d_cpu st)) <> None /\ afind par (g_quotas (d_mem st)) <> None)) ->
  ginv (do_max2 k mx1 mx2 (mkD (add_quota k par isPar lnd (d_cpu st)) (add_quota k par isPar lnd (d_mem st))
                               (d_alloc st) (d_pods st))).
Proof.
  intros G Hf1 Hf2 Hk Hpar. destruct (gi_inv st (proj1 G)) as [H1 H2].
  assert (HiT := create2_inv k par isPar lnd mx1 mx2 st (conj H1 H2) Hf1 Hf2 Hk Hpar).
  revert HiT. unfold do_max2. cbn [d_cpu d_mem].
  rewrite (afind_add_quota k par isPar lnd _ Hf1), (afind_add_quota k par isPar lnd _ Hf2).
  cbv zeta. intro HiT.
  set (mq0 := mkMQ par isPar (q_new lnd 0) 0 0) in *.
  match goal with |- ginv (with_halves ?S (rec_delta2 ?p ?a ?b ?x ?y)) =>
    set (s1 := x) in *; set (s2 := y) in *;
    assert (I1 : minv s1); [|assert (I2 : minv s2); [|
      destruct (rec_delta2_gview p a b s1 s2 I1 I2) as [W1 W2]]] end.
  - apply (create_base_inv (d_cpu st) k par isPar lnd mx1); try assumption.
    destruct Hpar as [Hp|[Hp _]]; [left|right]; assumption.
  - apply (create_base_inv (d_mem st) k par isPar lnd mx2); try assumption.
    destruct Hpar as [Hp|[_ Hp]]; [left|right]; assumption.
  - assert (Hv : forall s mx, afind k (g_quotas s) = None -> minv s ->
               gview (upd_calc (m_parent mq0) (updateOneGroupMaxQuota k (q_set_max mx (m_info mq0)))
                               (set_quota k (with_info mq0 (q_set_max mx (m_info mq0))) (add_quota k par isPar lnd s)))
               = gview s ++ [(k, mkG par 0 0)]).
    { intros s mx Hf Hi.
      change (gview (set_quota k (with_info mq0 (q_set_max mx (m_info mq0))) (add_quota k par isPar lnd s))
              = gview s ++ [(k, mkG par 0 0)]).
      rewrite (gview_set_quota k _ mq0 _ (afind_add_quota k par isPar lnd s Hf)), gview_add_quota.
      apply repl_same.
      - rewrite map_app, gview_keys. cbn [map fst]. apply NoDup_app_snoc; [apply (mi_nodup _ Hi)|].
        apply afind_None, Hf.
      - rewrite afind_app, afind_gview, Hf. cbn. rewrite Z.eqb_refl. reflexivity. }
    apply (ginv_append st _ k par G HiT); cbn [with_halves d_cpu d_mem d_alloc d_pods]; try reflexivity.
    + etransitivity; [exact W1|]. apply (Hv (d_cpu st) mx1 Hf1 H1).
    + etransitivity; [exact W2|]. apply (Hv (d_mem st) mx2 Hf2 H2).
    + rewrite afind_shape, Hf1. reflexivity.
    + exact Hk.
    + destruct Hpar as [Hp|[Hp _]]; [left; exact Hp|right]. rewrite afind_shape.
      destruct (afind par (g_quotas (d_cpu st))); [discriminate|congruence].
Qed.

(* ---------- DeleteQuota, the guarantee taken back ([fxd] = true) ---------- *)
Lemma gview_drop_quota k par s : gview (drop_quota k par s) = adel k (gview s).
Proof. unfold drop_quota, gview. cbn [upd_calc set_calc g_quotas remake]. apply adel_map_snd. Qed.

Lemma us_drop mem ps k x : x <> k -> us mem (filter (fun p => negb (p_quota p =? k)) ps) x = us mem ps x.
Proof.
  intro Hx. unfold us. apply sumZ_map_filter_zero. intros p _ Hp.
  apply negb_false_iff, Z.eqb_eq in Hp. unfold term.
  destruct (p_quota p =? x) eqn:E; [apply Z.eqb_eq in E; congruence|reflexivity].
Qed.

Lemma filter_filter_le {A} (f g : A -> bool) l : (length (filter f (filter g l)) <= length (filter f l))%nat.
Proof.
  induction l as [|x l IH]; [cbn; lia|]. cbn [filter].
  destruct (g x), (f x) eqn:E; cbn [filter length]; rewrite ?E; cbn [length]; lia.
Qed.

Lemma no_children_parents k s : has_children k s = false -> forall e, In e (shape s) -> snd e <> k.
Proof.
  intros Hc e He. unfold shape in He. apply in_map_iff in He. destruct He as [x [<- Hx]]. cbn [snd].
  intro Ec. unfold has_children in Hc.
  assert (X : existsb (fun p => m_parent (snd p) =? k) (g_quotas s) = true)
    by (apply existsb_exists; exists x; split; [exact Hx|apply Z.eqb_eq, Ec]).
  congruence.
Qed.

Lemma shape_drop_quota k par s : shape (drop_quota k par s) = adel k (shape s).
Proof. unfold drop_quota, shape. cbn [upd_calc set_calc g_quotas remake]. apply adel_map_snd. Qed.

Lemma gbroken_delete k st m1 m2 :
  ginv st -> afind k (g_quotas (d_cpu st)) = Some m1 -> afind k (g_quotas (d_mem st)) = Some m2 ->
  has_children k (d_cpu st) = false -> has_children k (d_mem st) = false ->
  gbroken (mkD (drop_quota k (m_parent m1) (d_cpu st)) (drop_quota k (m_parent m2) (d_mem st))
               (adel k (d_alloc st)) (filter (fun p => negb (p_quota p =? k)) (d_pods st)))
          (m_parent m1) (- q_guar (m_info m1)) (- q_guar (m_info m2)).
Proof.
  intros [P E] Hf1 Hf2 Hc1 Hc2. destruct (gi_inv st P) as [H1 H2]. pose proof (gi_sync st P) as Hs.
  set (T := mkD _ _ _ _).
  assert (Hpar : m_parent m2 = m_parent m1).
  { pose proof Hs as Hs'. apply (f_equal (afind k)) in Hs'. rewrite !afind_shape, Hf1, Hf2 in Hs'. cbn in Hs'. congruence. }
  assert (S1 : shape (d_cpu T) = adel k (shape (d_cpu st))) by apply shape_drop_quota.
  assert (S2 : shape (d_mem T) = adel k (shape (d_mem st))) by apply shape_drop_quota.
  assert (Gh : forall mem, gview (half mem T) = adel k (gview (half mem st)))
    by (intro mem; destruct mem; apply gview_drop_quota).
  assert (Halx : forall mem x, x <> k -> al mem T x = al mem st x).
  { intros mem x Hx. unfold al, alloc_of. cbn [T d_alloc]. rewrite afind_adel.
    destruct (k =? x) eqn:Ex; [apply Z.eqb_eq in Ex; congruence|reflexivity]. }
  split.
  - constructor.
    + split; cbn [T d_cpu d_mem]; apply drop_quota_inv; assumption.
    + rewrite S1, S2, Hs. reflexivity.
    + rewrite S1. apply ordered_adel; [apply (gi_ord st P)|apply no_children_parents, Hc1].
    + intros mem x f. rewrite Gh, afind_adel. destruct (k =? x); [discriminate|apply (gi_min st P mem)].
    + intros p Hin. cbn [T d_pods] in Hin. apply filter_In in Hin. destruct Hin as [Hin Hq].
      destruct (gi_pods st P p Hin) as [A [B C]]. split; [exact A|split; [exact B|]].
      rewrite S1, afind_adel. apply negb_true_iff, Z.eqb_neq in Hq.
      destruct (k =? p_quota p) eqn:Ex; [apply Z.eqb_eq in Ex; congruence|exact C].
    + intros x s. cbn [T d_pods]. pose proof (gi_uniq st P x s).
      pose proof (filter_filter_le (pod_is x s) (fun p => negb (p_quota p =? k)) (d_pods st)). lia.
    + intros x. rewrite S1, afind_adel. unfold alloc_of. cbn [T d_alloc]. rewrite afind_adel.
      destruct (k =? x); [reflexivity|]. intro Hx. apply (gi_dead st P x Hx).
  - intro mem. destruct (E mem) as [E1 E2]. rewrite Gh. cbn [T d_pods].
    assert (Hnd : NoDup (map fst (gview (half mem st))))
      by (rewrite gview_keys; apply (mi_nodup _ (half_inv mem st (gi_inv st P)))).
    set (m := if mem then m2 else m1).
    assert (Hfm : afind k (gview (half mem st)) = Some (gfig_of m)).
    { rewrite afind_gview. unfold m. destruct mem; cbn [half]; [rewrite Hf2|rewrite Hf1]; reflexivity. }
    assert (Hpm : gp (gfig_of m) = m_parent m1) by (unfold m, gfig_of; destruct mem; cbn [gp]; congruence).
    assert (Hkg : forall x, kid_guar x (adel k (gview (half mem st)))
                            = kid_guar x (gview (half mem st)) - (if m_parent m1 =? x then gg (gfig_of m) else 0)).
    { intro x. rewrite (kid_guar_adel x _ k (gfig_of m) Hnd Hfm), Hpm. reflexivity. }
    assert (Hd : sel mem (- q_guar (m_info m1), - q_guar (m_info m2)) = - gg (gfig_of m))
      by (unfold m; destruct mem; reflexivity).
    rewrite Hd.
    split; [|split].
    + intros x f. rewrite afind_adel. destruct (k =? x) eqn:Ex; [discriminate|]. apply Z.eqb_neq in Ex.
      intro Hf. rewrite Halx by congruence. apply (E1 x f Hf).
    + intros x f. rewrite afind_adel. destruct (k =? x) eqn:Ex; [discriminate|]. apply Z.eqb_neq in Ex.
      intros Hf Hx. unfold eq_alloc. rewrite Halx, us_drop, Hkg by congruence.
      destruct (m_parent m1 =? x) eqn:Ep; [apply Z.eqb_eq in Ep; congruence|].
      rewrite Z.sub_0_r. apply (E2 x f Hf).
    + intros f. rewrite afind_adel. destruct (k =? m_parent m1) eqn:Ex; [discriminate|]. apply Z.eqb_neq in Ex.
      intro Hf. rewrite Halx, us_drop, Hkg, Z.eqb_refl by congruence.
      pose proof (E2 _ f Hf) as Hq. unfold eq_alloc in Hq. lia.
Qed.

Lemma delete_quota2_ginv k st : ginv st -> ginv (delete_quota2 true true k st).
Proof.
  intro G. unfold delete_quota2.
  destruct (afind k (g_quotas (d_cpu st))) as [m1|] eqn:Hf1; [|exact G].
  destruct (afind k (g_quotas (d_mem st))) as [m2|] eqn:Hf2; [|exact G].
  destruct (has_children k (d_cpu st) || has_children k (d_mem st)) eqn:Hch; [exact G|].
  apply orb_false_elim in Hch. destruct Hch as [Hc1 Hc2]. cbv zeta.
  pose proof (gbroken_delete k st m1 m2 G Hf1 Hf2 Hc1 Hc2) as B.
  apply used_walk_ginv.
  match goal with |- gbroken (if ?c then _ else _) _ _ _ => destruct c end; [exact B|apply request_walk_broken, B].
Qed.

(* ---------- every op, every history ---------- *)
Definition wf_dop (o : dop) : bool :=
  match o with
  | DUpdate _ _ _ _ _ _ mn1 mn2 _ _ => (0 <=? mn1) && (0 <=? mn2)
  | DPod _ _ c m _ => (0 <=? c) && (0 <=? m)
  | DResize _ _ c m => (0 <=? c) && (0 <=? m)
  | _ => true
  end.

Definition not_delete (o : dop) : bool := match o with DDelete _ => false | _ => true end.

Lemma update_quota2_ginv k par isPar lnd mx1 mx2 mn1 mn2 w1 w2 st :
  ginv st -> 0 <= mn1 -> 0 <= mn2 -> ginv (update_quota2 true k par isPar lnd mx1 mx2 mn1 mn2 w1 w2 st).
Proof.
  intros G Hm1 Hm2. unfold update_quota2. cbv zeta.
  destruct (afind k (g_quotas (d_cpu st))) as [m1|] eqn:Hf1;
    destruct (afind k (g_quotas (d_mem st))) as [m2|] eqn:Hf2; try exact G.
  - assert (A1 : ginv (if (q_max (m_info m1) =? mx1) && (q_max (m_info m2) =? mx2) then st else do_max2 k mx1 mx2 st))
      by (destruct ((q_max (m_info m1) =? mx1) && (q_max (m_info m2) =? mx2)); [exact G|apply do_max2_same, G]).
    set (st1 := if (q_max (m_info m1) =? mx1) && (q_max (m_info m2) =? mx2) then st else do_max2 k mx1 mx2 st) in *.
    assert (A2 : ginv (if (m_min m1 =? mn1) && (m_min m2 =? mn2) then st1 else do_min2 true k mn1 mn2 st1))
      by (destruct ((m_min m1 =? mn1) && (m_min m2 =? mn2)); [exact A1|apply do_min2_ginv; assumption]).
    match goal with |- ginv (if ?c then _ else _) => destruct c end; [exact A2|apply do_weight2_same, A2].
  - destruct (negb ((par =? 0) || (parent_live par (d_cpu st) && parent_live par (d_mem st))) || (k =? 0)) eqn:Ec;
      [exact G|].
    apply orb_false_elim in Ec. destruct Ec as [E1 E2]. apply negb_false_iff in E1. apply Z.eqb_neq in E2.
    apply do_weight2_same, do_min2_ginv; try assumption. apply create2_ginv; try assumption.
    apply orb_prop in E1. destruct E1 as [E1|E1]; [left; apply Z.eqb_eq, E1|right].
    apply andb_prop in E1. destruct E1 as [Ea Eb]. split; apply parent_live_found; assumption.
Qed.

Lemma dstep_ginv fxd st o :
  ginv st -> wf_dop o = true -> (fxd = true \/ not_delete o = true) -> ginv (dstep true fxd st o).
Proof.
  intros G Hw Hd. destruct o; cbn [dstep wf_dop not_delete] in *.
  - apply andb_prop in Hw. destruct Hw as [A B]. apply Z.leb_le in A, B. apply update_quota2_ginv; assumption.
  - destruct Hd as [->|Hd]; [apply delete_quota2_ginv, G|discriminate].
  - apply andb_prop in Hw. destruct Hw as [A B]. apply Z.leb_le in A, B. apply pod_set2_ginv; assumption.
  - apply set_total2_same, G.
  - exact G.
  - apply pod_reserve_ginv, G.
  - apply pod_unreserve_ginv, G.
  - apply andb_prop in Hw. destruct Hw as [A B]. apply Z.leb_le in A, B. apply pod_resize_ginv; assumption.
Qed.

Lemma dmgr0_ginv : ginv dmgr0.
Proof.
  split.
  - constructor; cbn.
    + apply dmgr0_inv.
    + reflexivity.
    + exact I.
    + intros mem k f. destruct mem; discriminate.
    + intros p [].
    + intros; lia.
    + reflexivity.
  - intro mem. split.
    + intros k f. destruct mem; discriminate.
    + intros k f. destruct mem; discriminate.
Qed.

Theorem drun_ginv fxd K ops :
  forallb wf_dop ops = true -> (fxd = true \/ forallb not_delete ops = true) -> ginv (drun true fxd K ops).
Proof.
  unfold drun.
  assert (H : forall st, ginv st -> forallb wf_dop ops = true -> (fxd = true \/ forallb not_delete ops = true) ->
                         ginv (fold_left (dostep true fxd K) ops st)).
  { induction ops as [|o ops IH]; intros st G Hw Hd; [exact G|].
    cbn [fold_left forallb] in *. apply andb_prop in Hw. destruct Hw as [Hw1 Hw2].
    apply IH; [|exact Hw2|destruct Hd as [Hd|Hd]; [left; exact Hd|right; apply andb_prop in Hd; apply Hd]].
    apply dobserve_same, dstep_ginv; try assumption.
    destruct Hd as [Hd|Hd]; [left; exact Hd|right; apply andb_prop in Hd; apply Hd]. }
  intros Hw Hd. apply H; [apply dmgr0_ginv|exact Hw|exact Hd].
Qed.

(* ---------- the exported statement ---------- *)
Definition kids_guar (k : Z) (s : mgr) : Z :=
  sumZ (map (fun e => q_guar (m_info (snd e))) (filter (fun e => m_parent (snd e) =? k) (g_quotas s))).

Lemma kid_guar_gview k s : kid_guar k (gview s) = kids_guar k s.
Proof.
  unfold kid_guar, kids_guar, gview. induction (g_quotas s) as [|e l IH]; [reflexivity|].
  cbn [map filter snd gfig_of gp]. destruct (m_parent (snd e) =? k); cbn [map snd gg gfig_of]; rewrite ?sumZ_cons, IH; reflexivity.
Qed.

Definition assigned_sum (mem : bool) (k : Z) (st : dmgr) : Z :=
  sumZ (map (pdim mem) (filter (fun p => (p_quota p =? k) && p_assigned p) (d_pods st))).

Lemma us_assigned mem k st : us mem (d_pods st) k = assigned_sum mem k st.
Proof.
  unfold us, assigned_sum. induction (d_pods st) as [|p l IH]; [reflexivity|].
  cbn [map filter]. unfold term at 1. destruct ((p_quota p =? k) && p_assigned p); cbn [map]; rewrite !sumZ_cons, IH; lia.
Qed.

Lemma dims_guarantee_exact fxd K ops mem k mq :
  forallb wf_dop ops = true -> (fxd = true \/ forallb not_delete ops = true) ->
  let st := drun true fxd K ops in
  afind k (g_quotas (half mem st)) = Some mq ->
  q_guar (m_info mq) = Z.max (al mem st k) (m_min mq)
  /\ al mem st k = assigned_sum mem k st + kids_guar k (half mem st)
  /\ 0 <= al mem st k.
Proof.
  intros Hw Hd st Hf. pose proof (drun_ginv fxd K ops Hw Hd) as G. fold st in G.
  destruct G as [P E]. destruct (E mem) as [E1 E2].
  assert (Hv : afind k (gview (half mem st)) = Some (gfig_of mq)) by (rewrite afind_gview, Hf; reflexivity).
  split; [|split].
  - apply (E1 k _ Hv).
  - rewrite <- us_assigned, <- kid_guar_gview. apply (E2 k _ Hv).
  - apply (al_nonneg mem st k _ (conj P E) Hv).
Qed.
