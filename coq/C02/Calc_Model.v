(* C02 / calculator — model of one RuntimeQuotaCalculator (runtime_quota_calculator.go:252-614) in
   one resource dimension, together with the QuotaInfo figures its caller (GroupQuotaManager) holds
   for every child.  Every method is transcribed branch by branch; the division itself is
   C02.Model.redistribution.  Executable, total, no proofs in this file.

   What the code keeps per child, and what can therefore go stale:
     quotaTree[dim].quotaNodes[name]  {request(limited), sharedWeight, min, guarantee, allowLent}
     groupReqLimit[name][dim]         last limited request pushed   (needUpdateOneGroupRequest)
     groupGuaranteed[name][dim]       last guarantee pushed         (needUpdateOneGroupGuaranteed)
     globalRuntimeVersion / QuotaInfo.RuntimeVersion                (updateOneGroupRuntimeQuota skip)
     totalResource[dim] *)
From Coq Require Import List ZArith Bool.
From Verif Require Export C02.Model.
Import ListNotations.
Open Scope Z_scope.

(* ---------- the caller's QuotaInfo (one child, one dimension) ---------- *)
Record qinfo := mkQ {
  q_max : Z;        (* CalculateInfo.Max[dim] *)
  q_req : Z;        (* CalculateInfo.Request[dim] (not yet limited by max) *)
  q_min : Z;        (* CalculateInfo.AutoScaleMin[dim] *)
  q_weight : Z;     (* CalculateInfo.SharedWeight[dim] *)
  q_guar : Z;       (* CalculateInfo.Guaranteed[dim] *)
  q_lend : bool;    (* AllowLentResource *)
  q_rver : Z;       (* RuntimeVersion *)
  q_runtime : Z     (* CalculateInfo.Runtime[dim] *)
}.

(* QuotaInfo.getLimitRequestNoLock: min(request, max) *)
Definition limit_req (q : qinfo) : Z := if q_max q <? q_req q then q_max q else q_req q.

(* the node [insert] builds from a QuotaInfo *)
Definition node_of (k : Z) (q : qinfo) : node :=
  mkNode k (limit_req q) (q_weight q) (q_min q) (q_guar q) (q_lend q).

(* ---------- quotaTree (one dimension): insertion-ordered list of nodes ---------- *)
Definition t_mem (k : Z) (t : list node) : bool := existsb (fun n => nm n =? k) t.
Definition t_upd (k : Z) (f : node -> node) (t : list node) : list node :=
  map (fun n => if nm n =? k then f n else n) t.
Definition t_erase (k : Z) (t : list node) : list node := filter (fun n => negb (nm n =? k)) t.

Definition set_request (v : Z) (n : node) : node := mkNode (nm n) v (weight n) (qmin n) (guarantee n) (lend n).
Definition set_weight (v : Z) (n : node) : node := mkNode (nm n) (request n) v (qmin n) (guarantee n) (lend n).
Definition set_min (v : Z) (n : node) : node := mkNode (nm n) (request n) (weight n) v (guarantee n) (lend n).
Definition set_guarantee (v : Z) (n : node) : node := mkNode (nm n) (request n) (weight n) (qmin n) v (lend n).

(* "if exist { updateX } else { insert(all figures of quotaInfo) }" — the shape of all five update methods *)
Definition upsert (k : Z) (q : qinfo) (f : node -> node) (t : list node) : list node :=
  if t_mem k t then t_upd k f t else t ++ [node_of k q].

(* ---------- quotaResMapType caches (one dimension); an absent entry reads as 0 ---------- *)
Notation cache := (list (Z * Z)).
Fixpoint c_get (k : Z) (c : cache) : Z :=
  match c with
  | [] => 0
  | p :: t => if fst p =? k then snd p else c_get k t
  end.
Definition c_del (k : Z) (c : cache) : cache := filter (fun p => negb (fst p =? k)) c.
Definition c_set (k v : Z) (c : cache) : cache := (k, v) :: c_del k c.

Record calc := mkCalc {
  c_tree : list node;
  c_reqLimit : cache;
  c_guaranteed : cache;
  c_total : Z;
  c_version : Z }.

(* NewRuntimeQuotaCalculator + updateResourceKeys({dim}) *)
Definition calc0 : calc := mkCalc [] [] [] 0 1.

(* ---------- the methods ---------- *)
Definition updateOneGroupMaxQuota (k : Z) (q : qinfo) (c : calc) : calc :=
  mkCalc (upsert k q (set_request (limit_req q)) (c_tree c))
         (c_set k (limit_req q) (c_reqLimit c)) (c_guaranteed c) (c_total c) (c_version c + 1).

Definition updateOneGroupMinQuota (k : Z) (q : qinfo) (c : calc) : calc :=
  mkCalc (upsert k q (set_min (q_min q)) (c_tree c))
         (c_reqLimit c) (c_guaranteed c) (c_total c) (c_version c + 1).

Definition updateOneGroupSharedWeight (k : Z) (q : qinfo) (c : calc) : calc :=
  mkCalc (upsert k q (set_weight (q_weight q)) (c_tree c))
         (c_reqLimit c) (c_guaranteed c) (c_total c) (c_version c + 1).

Definition needUpdateOneGroupRequest (k : Z) (q : qinfo) (c : calc) : bool :=
  negb (c_get k (c_reqLimit c) =? limit_req q).

Definition updateOneGroupRequest (k : Z) (q : qinfo) (c : calc) : calc :=
  mkCalc (upsert k q (set_request (limit_req q)) (c_tree c))
         (c_set k (limit_req q) (c_reqLimit c)) (c_guaranteed c) (c_total c) (c_version c + 1).

Definition needUpdateOneGroupGuaranteed (k : Z) (q : qinfo) (c : calc) : bool :=
  negb (c_get k (c_guaranteed c) =? q_guar q).

Definition updateOneGroupGuaranteed (k : Z) (q : qinfo) (c : calc) : calc :=
  mkCalc (upsert k q (set_guarantee (q_guar q)) (c_tree c))
         (c_reqLimit c) (c_set k (q_guar q) (c_guaranteed c)) (c_total c) (c_version c + 1).

Definition deleteOneGroup (k : Z) (c : calc) : calc :=
  mkCalc (t_erase k (c_tree c)) (c_del k (c_reqLimit c)) (c_del k (c_guaranteed c))
         (c_total c) (c_version c + 1).

Definition setClusterTotalResource (t : Z) (c : calc) : calc :=
  mkCalc (c_tree c) (c_reqLimit c) (c_guaranteed c) t (c_version c + 1).

(* calculateRuntimeNoLock: redistribution over the tree's nodes (Go: in map order; the list
   order here is irrelevant by c02_perm_invariant) *)
Definition calculateRuntime (c : calc) : list entry := redistribution (c_total c) (c_tree c).

(* updateOneGroupRuntimeQuota: skipped when the version stamps agree *)
Definition updateOneGroupRuntimeQuota (k : Z) (q : qinfo) (c : calc) : qinfo :=
  if q_rver q =? c_version c then q
  else mkQ (q_max q) (q_req q) (q_min q) (q_weight q) (q_guar q) (q_lend q) (c_version c)
           (match runtime_of k (calculateRuntime c) with Some r => r | None => q_runtime q end).

(* ---------- the caller: GroupQuotaManager's calling discipline ----------
   Every change of a figure of a child's QuotaInfo is followed by the call that pushes it:
     create           NewQuotaInfo; Max := v; updateOneGroupMaxQuota     (updateQuotaInternalNoLock)
     max/min/weight   figure := v;  updateOneGroupXxx                    (doUpdateOneGroupXxxNoLock)
     request          Request := v; if need… then updateOneGroupRequest  (recursiveUpdateGroupTreeWithDeltaRequest)
     guarantee        Guaranteed := v; if need… then updateOneGroupGuaranteed
     delete           deleteOneGroup                                     (deleteQuotaNoLock)
     total            setClusterTotalResource                            (refreshRuntimeNoLock, step 3)
   An op naming a child that is not live (or creating a live one) is ignored, as in the harness. *)
Inductive op :=
| OCreate (k : Z) (l : bool) (mx : Z)
| OSetMax (k v : Z) | OSetMin (k v : Z) | OSetWeight (k v : Z)
| OSetReq (k v : Z) | OSetGuar (k v : Z)
| ODelete (k : Z) | OSetTotal (t : Z) | ONoop.

Notation table := (list (Z * qinfo)).
Record world := mkW { w_calc : calc; w_tab : table }.
Definition world0 : world := mkW calc0 [].

Fixpoint tab_find (k : Z) (tb : table) : option qinfo :=
  match tb with
  | [] => None
  | p :: t => if fst p =? k then Some (snd p) else tab_find k t
  end.
Definition tab_upd (k : Z) (g : qinfo -> qinfo) (tb : table) : table :=
  map (fun p => if fst p =? k then (fst p, g (snd p)) else p) tb.
Definition tab_del (k : Z) (tb : table) : table := filter (fun p => negb (fst p =? k)) tb.

Definition q_new (l : bool) (mx : Z) : qinfo := mkQ mx 0 0 0 0 l 0 0.
Definition q_set_max (v : Z) (q : qinfo) := mkQ v (q_req q) (q_min q) (q_weight q) (q_guar q) (q_lend q) (q_rver q) (q_runtime q).
Definition q_set_req (v : Z) (q : qinfo) := mkQ (q_max q) v (q_min q) (q_weight q) (q_guar q) (q_lend q) (q_rver q) (q_runtime q).
Definition q_set_min (v : Z) (q : qinfo) := mkQ (q_max q) (q_req q) v (q_weight q) (q_guar q) (q_lend q) (q_rver q) (q_runtime q).
Definition q_set_weight (v : Z) (q : qinfo) := mkQ (q_max q) (q_req q) (q_min q) v (q_guar q) (q_lend q) (q_rver q) (q_runtime q).
Definition q_set_guar (v : Z) (q : qinfo) := mkQ (q_max q) (q_req q) (q_min q) (q_weight q) v (q_lend q) (q_rver q) (q_runtime q).

(* change one figure of live child k with [g], then push it with [push k q'] *)
Definition on_live (w : world) (k : Z) (g : qinfo -> qinfo) (push : Z -> qinfo -> calc -> calc) : world :=
  match tab_find k (w_tab w) with
  | None => w
  | Some q => mkW (push k (g q) (w_calc w)) (tab_upd k g (w_tab w))
  end.

Definition push_request (k : Z) (q : qinfo) (c : calc) : calc :=
  if needUpdateOneGroupRequest k q c then updateOneGroupRequest k q c else c.
Definition push_guaranteed (k : Z) (q : qinfo) (c : calc) : calc :=
  if needUpdateOneGroupGuaranteed k q c then updateOneGroupGuaranteed k q c else c.

Definition step (w : world) (o : op) : world :=
  match o with
  | OCreate k l mx =>
      match tab_find k (w_tab w) with
      | Some _ => w
      | None => mkW (updateOneGroupMaxQuota k (q_new l mx) (w_calc w)) (w_tab w ++ [(k, q_new l mx)])
      end
  | OSetMax k v => on_live w k (q_set_max v) updateOneGroupMaxQuota
  | OSetMin k v => on_live w k (q_set_min v) updateOneGroupMinQuota
  | OSetWeight k v => on_live w k (q_set_weight v) updateOneGroupSharedWeight
  | OSetReq k v => on_live w k (q_set_req v) push_request
  | OSetGuar k v => on_live w k (q_set_guar v) push_guaranteed
  | ODelete k =>
      match tab_find k (w_tab w) with
      | None => w
      | Some _ => mkW (deleteOneGroup k (w_calc w)) (tab_del k (w_tab w))
      end
  | OSetTotal t => mkW (setClusterTotalResource t (w_calc w)) (w_tab w)
  | ONoop => w
  end.

(* the observation after every op: RefreshRuntime of every live child (refreshRuntimeNoLock step 2) *)
Definition observe (w : world) : world :=
  mkW (w_calc w)
      (map (fun p => (fst p, updateOneGroupRuntimeQuota (fst p) (snd p) (w_calc w))) (w_tab w)).

Definition ostep (w : world) (o : op) : world := observe (step w o).
Definition run (ops : list op) : world := fold_left ostep ops world0.

(* child slots 1..K *)
Definition ids (K : nat) : list Z := map Z.of_nat (seq 1 K).

(* logged after every op: Runtime of child 1..K, -1 for a child that is not live *)
Definition obs_world (K : nat) (w : world) : list Z :=
  map (fun k => match tab_find k (w_tab w) with Some q => q_runtime q | None => -1 end) (ids K).

Fixpoint run_obs (K : nat) (w : world) (ops : list op) : list Z :=
  match ops with
  | [] => []
  | o :: t => let w' := ostep w o in obs_world K w' ++ run_obs K w' t
  end.
