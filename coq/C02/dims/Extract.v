(* C02 / dims stream — flat-integer interface for the generic OCaml driver.  The entry points and
   the wire decoding are defined in Dim_Spec.v; this file only extracts them. *)
From Coq Require Import List ZArith Bool.
From Verif Require Import Lib.Wire C02.Model C02.Spec C02.Calc_Model C02.Mgr_Model C02.Mgr_Spec C02.Dim_Model C02.Dim_Spec.

Definition run_case := dims_run_case.
Definition prop_case := dims_prop_case.
Definition nontrivial_case := dims_nontrivial_case.
Definition finding_sig := dims_finding_sig.

Require Extraction.
Require Import ExtrOcamlBasic.
Extraction "model.ml" run_case prop_case nontrivial_case finding_sig.
