(* C02 — exported theorems only: each is closed by [exact] and followed by Print Assumptions.
   All statements are for every sibling list (any length) and every total; the only hypotheses
   are the range guard [in_range] (non-negative values) and [names_ok] (names are 1..k). *)
From Coq Require Import List ZArith Bool Permutation.
From Verif Require Import C02.Model C02.Spec C02.Case C02.Proofs_Hamilton C02.Proofs_Iterate
  C02.Proofs C02.Proofs_Perm C02.Proofs_Spec C02.Proofs_Case.
Import ListNotations.
Open Scope Z_scope.

(* ---- 1. computeHamiltonDeltas is exact: no unit is created or dropped by rounding ---- *)
Theorem c02_hamilton_exact : forall T W ns,
  0 < T -> 0 < W -> (forall n, In n ns -> 0 <= weight n) ->
  W = sumZ (map weight ns) -> NoDup (map nm ns) ->
  hamilton T W ns = map (delta_of T W ns) ns
  /\ sumZ (hamilton T W ns) = T
  /\ forall n, In n ns ->
       (delta_of T W ns n = weight n * T / W \/ delta_of T W ns n = weight n * T / W + 1)
       /\ - W < delta_of T W ns n * W - weight n * T < W
       /\ (weight n = 0 -> delta_of T W ns n = 0).
Proof. exact hamilton_exact. Qed.
Print Assumptions c02_hamilton_exact.

(* within one round, shares are proportional to the weights up to one unit each *)
Theorem c02_fair_round : forall T W ns a b,
  0 < W -> (forall n, In n ns -> 0 <= weight n) ->
  W = sumZ (map weight ns) -> NoDup (map nm ns) -> In a ns -> In b ns ->
  Z.abs (delta_of T W ns a * weight b - delta_of T W ns b * weight a) <= weight a + weight b.
Proof. exact delta_fair. Qed.
Print Assumptions c02_fair_round.

(* ---- 2. per-sibling bounds (needs no range guard at all) ---- *)
Theorem c02_init_bounds : forall n,
  Z.min (request n) (eff_min n) <= init_runtime n <= Z.max (request n) (eff_min n).
Proof. exact init_runtime_bounds. Qed.
Print Assumptions c02_init_bounds.

Theorem c02_bounds : forall total ns,
  names_ok ns ->
  forall n, In n ns -> bounds_ok (obs_of ns (redistribution total ns)) n.
Proof. exact bounds_proved. Qed.
Print Assumptions c02_bounds.

(* the same on the result list itself: every sibling has exactly one entry, within bounds *)
Theorem c02_entry_bounds : forall total ns n,
  In n ns ->
  exists r, In (n, r) (redistribution total ns)
    /\ Z.min (request n) (eff_min n) <= r <= Z.max (request n) (eff_min n)
    /\ (lend n = false -> eff_min n <= r)
    /\ (needs_adjust n = true -> eff_min n <= r <= request n)
    /\ (needs_adjust n = false -> r = init_runtime n).
Proof. exact redistribution_entry. Qed.
Print Assumptions c02_entry_bounds.

Theorem c02_same_nodes : forall total ns,
  Permutation (map fst (redistribution total ns)) ns.
Proof. exact redistribution_fst_perm. Qed.
Print Assumptions c02_same_nodes.

(* ---- 3. conservation, work conservation, fuel ---- *)
Theorem c02_conservation : forall total ns,
  (forall n, In n ns -> 0 <= weight n) -> names_ok ns ->
  conservation_ok total ns (obs_of ns (redistribution total ns)).
Proof. exact conservation_proved. Qed.
Print Assumptions c02_conservation.

Theorem c02_work_conserving : forall total ns,
  (forall n, In n ns -> 0 <= weight n) -> names_ok ns ->
  work_conserving total ns (obs_of ns (redistribution total ns)).
Proof. exact work_conserving_proved. Qed.
Print Assumptions c02_work_conserving.

(* running out of fuel is unreachable: any fuel above the number of entries gives the same
   run as the fuel [S (length adj)] used by [redistribution] *)
Theorem c02_fuel_irrelevant : forall k f T W es,
  (length es < f)%nat -> iterate (k + f) T W es = iterate f T W es.
Proof. exact iterate_fuel_enough. Qed.
Print Assumptions c02_fuel_irrelevant.

(* ---- 4. the division does not depend on iteration order ---- *)
Theorem c02_perm_invariant : forall total ns ns',
  Permutation ns ns' -> NoDup (map nm ns) ->
  forall k, runtime_of k (redistribution total ns') = runtime_of k (redistribution total ns).
Proof. exact perm_invariant. Qed.
Print Assumptions c02_perm_invariant.

Theorem c02_perm_result : forall total ns ns',
  Permutation ns ns' -> NoDup (map nm ns) ->
  Permutation (redistribution total ns) (redistribution total ns').
Proof. exact redistribution_perm. Qed.
Print Assumptions c02_perm_result.

(* the two runs compared by the harness (insertion order and its reverse) have equal observables *)
Theorem c02_rev_same_obs : forall total ns,
  NoDup (map nm ns) ->
  obs_of ns (redistribution total (rev ns)) = obs_of ns (redistribution total ns).
Proof. exact rev_same_obs. Qed.
Print Assumptions c02_rev_same_obs.

(* ---- 5. fairness over the whole run ---- *)
Theorem c02_fair : forall total ns,
  (forall n, In n ns -> 0 <= weight n) -> names_ok ns ->
  fair ns (obs_of ns (redistribution total ns)).
Proof. exact fair_proved. Qed.
Print Assumptions c02_fair.

(* ---- 6. capstone: the model satisfies the specification, and the decision procedure that
        bin/check runs on the implementation's observable decides exactly that Prop ---- *)
Theorem c02_model_satisfies_spec : forall total ns,
  in_range total ns = true -> names_ok ns ->
  C02_holds total ns (obs_of ns (redistribution total ns)).
Proof. exact model_satisfies_spec. Qed.
Print Assumptions c02_model_satisfies_spec.

Theorem c02_prop_code_sound : forall total ns obs,
  prop_code total ns obs = 0 -> C02_holds total ns obs.
Proof. exact prop_code_sound. Qed.
Print Assumptions c02_prop_code_sound.

Theorem c02_prop_code_complete : forall total ns obs,
  C02_holds total ns obs -> prop_code total ns obs = 0.
Proof. exact prop_code_complete. Qed.
Print Assumptions c02_prop_code_complete.

Theorem c02_prop_code_model : forall total ns,
  in_range total ns = true -> names_ok ns ->
  prop_code total ns (obs_of ns (redistribution total ns)) = 0.
Proof. exact (fun total ns Hr Hok => prop_code_complete _ _ _ (model_satisfies_spec total ns Hr Hok)). Qed.
Print Assumptions c02_prop_code_model.

(* the same at the level of the extracted entry points that bin/check runs ([Case.v]):
   the model's observable passes [prop_case] on every well-formed input, and an observable
   (the implementation's) on which [prop_case] returns 0 is two equal runs satisfying the Prop *)
Theorem c02_prop_case_model : forall inp,
  in_range (fst (decode inp)) (snd (decode inp)) = true -> names_ok (snd (decode inp)) ->
  prop_case inp (run_case inp) = 0.
Proof. exact prop_case_model. Qed.
Print Assumptions c02_prop_case_model.

Theorem c02_prop_case_sound : forall inp obs,
  prop_case inp obs = 0 ->
  let total := fst (decode inp) in let ns := snd (decode inp) in
  firstn (length ns) obs = skipn (length ns) obs
  /\ C02_holds total ns (firstn (length ns) obs).
Proof. exact prop_case_sound. Qed.
Print Assumptions c02_prop_case_sound.

(* ---- non-vacuity: the hypotheses are satisfiable by an input that runs three rounds, with
        a zero-weight sibling, a non-lending sibling below its minimum and a +1 winner ---- *)
Definition ex_ns : list node :=
  [ mkNode 1 100 3 10 0 true; mkNode 2 20 1 5 8 false; mkNode 3 50 0 0 0 true;
    mkNode 4 4 2 6 0 false; mkNode 5 40 2 6 0 true ].

Example c02_hyps_nonvacuous : in_range 130 ex_ns = true /\ names_ok ex_ns.
Proof.
  split; [reflexivity|]. split.
  - repeat constructor; cbn; intuition discriminate.
  - intros n Hn. cbn in Hn.
    repeat (destruct Hn as [<-|Hn]; [cbn; split; discriminate|]). destruct Hn.
Qed.

Example c02_example_run :
  obs_of ex_ns (redistribution 130 ex_ns) = [64; 20; 0; 6; 40]
  /\ obs_of ex_ns (redistribution 97 ex_ns) = [44; 19; 0; 6; 28]
  /\ obs_of ex_ns (redistribution 20 ex_ns) = [10; 8; 0; 6; 6].
Proof. vm_compute. auto. Qed.

(* the hypotheses of c02_hamilton_exact are satisfiable with a non-zero residual *)
Example c02_hamilton_nonvacuous :
  let ns := [mkNode 1 0 3 0 0 true; mkNode 2 0 1 0 0 true; mkNode 3 0 0 0 0 true; mkNode 4 0 2 0 0 true] in
  0 < 10 /\ 6 = sumZ (map weight ns) /\ NoDup (map nm ns)
  /\ (forall n, In n ns -> 0 <= weight n) /\ hamilton 10 6 ns = [5; 2; 0; 3].
Proof.
  cbv zeta. split; [reflexivity|]. split; [reflexivity|]. split.
  - repeat constructor; cbn; intuition discriminate.
  - split; [|reflexivity]. intros n Hn. cbn in Hn.
    repeat (destruct Hn as [<-|Hn]; [cbn; discriminate|]). destruct Hn.
Qed.

(* ======================================================================================== *)
(* Stream "calculator": one RuntimeQuotaCalculator (tree nodes + groupReqLimit +           *)
(* groupGuaranteed caches + version stamps) driven by ANY history of the calls              *)
(* GroupQuotaManager makes (Calc_Model.v).  [cur_of ops] are the children's current         *)
(* figures, a function of the op history alone (Calc_Spec.cur_step: no tree, no cache).     *)
(* ======================================================================================== *)
From Verif Require Import C02.Calc_Model C02.Calc_Spec C02.Calc_Proofs_Inv C02.Calc_Proofs_Run
  C02.Calc_Proofs_Pad C02.Calc_Proofs_Case.

(* ---- 7. the invariant: after every history the tree nodes, the total and both caches are
        exactly the children's current figures (absent cache entry = 0) ---- *)
Theorem c02_calc_invariant : forall ops,
  let c := w_calc (run ops) in let cu := cur_of ops in
  c_tree c = nodes_of (cu_figs cu)
  /\ c_total c = cu_total cu
  /\ NoDup (map fst (cu_figs cu))
  /\ (forall k, c_get k (c_reqLimit c) =
                match figs_find k (cu_figs cu) with Some f => Z.min (f_req f) (f_max f) | None => 0 end)
  /\ (forall k, c_get k (c_guaranteed c) =
                match figs_find k (cu_figs cu) with Some f => f_guar f | None => 0 end).
Proof. exact calc_state_agrees. Qed.
Print Assumptions c02_calc_invariant.

(* ---- 8. history independence: the runtime reported for a child (through the version-stamped
        updateOneGroupRuntimeQuota) is the one redistribution computes from scratch from the
        current figures; no hypothesis on the history ---- *)
Theorem c02_calc_history_independent : forall ops k,
  let w := run ops in let cu := cur_of ops in
  match tab_find k (w_tab w) with
  | Some q => live k (cu_figs cu) = true
              /\ runtime_of k (redistribution (cu_total cu) (nodes_of (cu_figs cu))) = Some (q_runtime q)
  | None => live k (cu_figs cu) = false
  end.
Proof. exact history_independent. Qed.
Print Assumptions c02_calc_history_independent.

(* siblings that ask for nothing and are owed nothing do not influence anybody's runtime *)
Theorem c02_inert_siblings : forall total ns p k,
  (forall n, In n ns -> p n = false -> request n = 0 /\ qmin n = 0 /\ guarantee n = 0) ->
  (forall n, In n ns -> nm n = k -> p n = true) ->
  runtime_of k (redistribution total (filter p ns)) = runtime_of k (redistribution total ns).
Proof. exact redistribution_inert. Qed.
Print Assumptions c02_inert_siblings.

(* what the harness logs after a history (slots 1..K, -1 for a slot without a live child,
   counted as 0) is the division among the K slots built from the current figures *)
Theorem c02_calc_logged_is_division : forall K ops,
  wf_ops K ops = true ->
  let cu := cur_of ops in
  clean K (cu_figs cu) (obs_world K (run ops))
  = obs_of (pad K (cu_figs cu)) (redistribution (cu_total cu) (pad K (cu_figs cu))).
Proof. exact logged_is_division. Qed.
Print Assumptions c02_calc_logged_is_division.

(* ---- 9. corollary: every C02 clause (bounds, conservation, work conservation, fairness) holds
        for the calculator's reports after ANY well-formed history, against the current figures ---- *)
Theorem c02_calc_satisfies_spec : forall K ops,
  wf_ops K ops = true ->
  let cu := cur_of ops in
  C02_holds (cu_total cu) (pad K (cu_figs cu)) (clean K (cu_figs cu) (obs_world K (run ops))).
Proof. exact calc_satisfies_spec. Qed.
Print Assumptions c02_calc_satisfies_spec.

(* ---- 10. purity: two histories that end in the same current inputs (same total, same figures
        per name — whatever was created, changed and deleted on the way) report the same runtimes ---- *)
Theorem c02_calc_pure : forall ops1 ops2 K,
  cu_total (cur_of ops1) = cu_total (cur_of ops2)
  /\ (forall k, figs_find k (cu_figs (cur_of ops1)) = figs_find k (cu_figs (cur_of ops2))) ->
  obs_world K (run ops1) = obs_world K (run ops2).
Proof. exact calc_pure. Qed.
Print Assumptions c02_calc_pure.

(* delete a child and create it again under the same name with the same figures: no residue *)
Theorem c02_calc_delete_recreate : forall ops k f K,
  figs_find k (cu_figs (cur_of ops)) = Some f ->
  obs_world K (run (ops ++ [ODelete k; OCreate k (f_lend f) (f_max f); OSetMin k (f_min f);
                            OSetWeight k (f_weight f); OSetReq k (f_req f); OSetGuar k (f_guar f)]))
  = obs_world K (run ops).
Proof. exact calc_delete_recreate. Qed.
Print Assumptions c02_calc_delete_recreate.

(* ---- 11. the entry points of the "calculator" stream (coq/C02/calc/Extract.v) ---- *)
Theorem c02_calc_prop_case_model : forall inp,
  wf_ops (fst (calc_decode inp)) (snd (calc_decode inp)) = true ->
  calc_prop_case inp (calc_run_case inp) = 0.
Proof. exact calc_prop_case_model. Qed.
Print Assumptions c02_calc_prop_case_model.

(* an observable (the implementation's) accepted by the decision procedure satisfies every C02
   clause after every op, against the figures current at that op *)
Theorem c02_calc_prop_case_sound : forall inp obs,
  calc_prop_case inp obs = 0 ->
  steps_hold (fst (calc_decode inp)) cur0 (snd (calc_decode inp)) obs.
Proof. exact calc_prop_case_sound. Qed.
Print Assumptions c02_calc_prop_case_sound.

(* ---- non-vacuity: a well-formed history with contention (two children asking 50 each of 40),
        a guarantee above the minimum, delete + re-create, an update that binds the max ---- *)
Definition ex_ops : list op :=
  [ OSetTotal 40;
    OCreate 1 true 100; OSetMin 1 10; OSetWeight 1 1; OSetReq 1 50; OSetGuar 1 30;
    OCreate 2 true 100; OSetMin 2 10; OSetWeight 2 1; OSetReq 2 50; OSetGuar 2 10;
    ODelete 1;
    OCreate 1 true 100; OSetMin 1 10; OSetWeight 1 1; OSetReq 1 50; OSetGuar 1 30;
    OSetTotal 70; OSetMax 2 20; ONoop ].

Example c02_calc_nonvacuous :
  wf_ops 3 ex_ops = true
  /\ obs_world 3 (run (firstn 11 ex_ops)) = [30; 10; -1]
  /\ obs_world 3 (run (firstn 12 ex_ops)) = [-1; 40; -1]
  /\ obs_world 3 (run (firstn 17 ex_ops)) = [30; 10; -1]
  /\ obs_world 3 (run (firstn 18 ex_ops)) = [45; 25; -1]
  /\ obs_world 3 (run ex_ops) = [50; 20; -1].
Proof. vm_compute. repeat split; reflexivity. Qed.

(* two levels, as refreshRuntimeNoLock composes them top-down: the runtime the parent's calculator
   reports for child c becomes the total of c's own calculator; the grandchild's report is the
   from-scratch division with c's from-scratch share — for any two histories *)
Theorem c02_calc_two_level : forall opsP opsC c g qc qg,
  tab_find c (w_tab (run opsP)) = Some qc ->
  tab_find g (w_tab (run (opsC ++ [OSetTotal (q_runtime qc)]))) = Some qg ->
  exists rc,
    runtime_of c (redistribution (cu_total (cur_of opsP)) (nodes_of (cu_figs (cur_of opsP)))) = Some rc
    /\ runtime_of g (redistribution rc (nodes_of (cu_figs (cur_of opsC)))) = Some (q_runtime qg).
Proof. exact calc_two_level. Qed.
Print Assumptions c02_calc_two_level.

(* ======================================================================================== *)
(* Stream "manager": GroupQuotaManager feeding the calculators of a multi-level tree         *)
(* (Mgr_Model.v, transcribed; Mgr_Spec.v, requests recomputed from scratch from the history). *)
(* Regression witness of the defect repaired by cf84410 (doUpdateOneGroupMinQuotaNoLock       *)
(* changed a non-lending quota's Request = max(childRequest, min) but pushed only the min to  *)
(* the parent's calculator; findings/C02-stale-request-after-min-update.md): total 100; q1    *)
(* not lending, min 20, one pod of 1; q2 lending, asks 100; q1.min := 5                       *)
(* (corpus/C02/manager/f1-stale-request-after-min-update.case).                               *)
(* ======================================================================================== *)
From Verif Require Import C02.Mgr_Model C02.Mgr_Spec.

Definition mgr_witness : list Z :=
  [2; 6;  3;0;100;0;0;0;0;  0;1;0;0;100;20;0;  0;2;0;2;100;0;0;  2;1;0;1;0;0;0;  2;2;0;100;0;0;0;
          0;1;0;0;100;5;0].

Theorem c02_mgr_min_update_regression :
  (* the code as it is reports 5 / 95 and passes the decision procedure ... *)
  skipn 10 (mgr_run_case mgr_witness) = [5; 95]
  /\ mgr_prop_case mgr_witness (mgr_run_case mgr_witness) = 0
  (* ... the code before the repair reported 20 / 80, above max(request 5, min 5) of q1: clause 41 *)
  /\ skipn 10 (mrun_obs false false 2 mgr0 (snd (mgr_decode mgr_witness))) = [20; 80]
  /\ mgr_prop_case mgr_witness (mrun_obs false false 2 mgr0 (snd (mgr_decode mgr_witness))) = 41.
Proof. vm_compute. repeat split; reflexivity. Qed.
Print Assumptions c02_mgr_min_update_regression.

(* ---- 12. the manager (code as repaired by cf84410), any history of UpdateQuota / DeleteQuota /
        pod requests / cluster total, with RefreshRuntime of every quota after every op:
        EVERY calculator of the tree holds exactly the current QuotaInfo figures of the quotas
        whose parent it serves (tree nodes and both caches), and the root calculator's total is
        the cluster total ---- *)
From Verif Require Import C02.Mgr_Proofs_Base C02.Mgr_Proofs_Inv C02.Mgr_Proofs_Step.

Theorem c02_mgr_calculators_agree : forall sc K ops p,   (* sc: EnableMinQuotaScale *)
  let st := mrun sc K ops in let c := get_calc p st in let tb := kids p (g_quotas st) in
  c_tree c = abs tb
  /\ (forall k, c_get k (c_reqLimit c) = match tab_find k tb with Some q => limit_req q | None => 0 end)
  /\ (forall k, c_get k (c_guaranteed c) = match tab_find k tb with Some q => q_guar q | None => 0 end)
  /\ c_total (get_calc 0 st) = g_total st.
Proof. exact mgr_calculators_agree. Qed.
Print Assumptions c02_mgr_calculators_agree.

(* ---- 13. RefreshRuntime(k) after any history reports the from-scratch division top-down along
        k's path: [down] starts from the total of the calculator above the topmost quota of the
        path (the cluster total when the path reaches the root — acyclic trees are C15's part)
        and at every level takes redistribution of the level's total among the current figures
        of that level's siblings; the figures themselves are not changed by the refresh ---- *)
Theorem c02_mgr_refresh_division : forall K ops k mq,   (* min-quota scaling off *)
  let st := mrun false K ops in
  afind k (g_quotas st) = Some mq ->
  let pth := rev (path k st) in
  let top := top_parent pth st in
  same_figs st (refresh false k st)
  /\ (top = 0 -> c_total (get_calc top st) = g_total st)
  /\ exists mq', afind k (g_quotas (refresh false k st)) = Some mq'
                 /\ down pth (c_total (get_calc top st)) st = Some (q_runtime (m_info mq')).
Proof. exact mgr_refresh_division. Qed.
Print Assumptions c02_mgr_refresh_division.

(* non-vacuity: a three-level tree root -> q1 -> q2 -> {q3, q4}, q5 under the root; total 100,
   pods 60 / 30 / 50 in q3 / q4 / q5: RefreshRuntime gives q1 55, q2 55, q3 28, q4 27, q5 45; the
   path of q3 is q1, q2, q3 and reaches the root, and [down] along it gives 28 *)
Definition mgr_ex : list Z :=
  [5; 9;  3;0;100;0;0;0;0;  0;1;0;3;100;10;0;  0;2;1;3;100;0;0;  0;3;2;2;100;0;0;  0;4;2;2;100;0;0;
          0;5;0;2;100;0;0;  2;3;0;60;0;0;0;  2;4;0;30;0;0;0;  2;5;0;50;0;0;0].

Example c02_mgr_nonvacuous :
  skipn 40 (mgr_run_case mgr_ex) = [55; 55; 28; 27; 45]
  /\ mgr_prop_case mgr_ex (mgr_run_case mgr_ex) = 0
  /\ (let st := mrun false 5 (snd (mgr_decode mgr_ex)) in
      rev (path 3 st) = [1; 2; 3] /\ top_parent (rev (path 3 st)) st = 0
      /\ down (rev (path 3 st)) (g_total st) st = Some 28).
Proof. vm_compute. repeat split; reflexivity. Qed.

(* ---- 14. min-quota scaling (EnableMinQuotaScale; getScaledMinQuota evaluated in exact binary64).
        Scaling happens only where the total is BELOW the sum of the declared mins ... ---- *)
From Verif Require Import C02.Mgr_Proofs_Scale C02.Mgr_Proofs_Float.

Theorem c02_no_scaling_when_mins_fit : forall hk T E m, E <= T -> get_scaled hk T E m = m.
Proof. exact get_scaled_fit. Qed.
Print Assumptions c02_no_scaling_when_mins_fit.

(* ... and after any history, RefreshRuntime(k) leaves in k's QuotaInfo (hence, by
   c02_mgr_calculators_agree, in the node of the parent's calculator) the AutoScaleMin
   getScaledMinQuota(total handed to k's level, sum of the DECLARED mins of k's siblings, k's declared
   min); whenever those declared mins fit in that total it is k's declared min — so the C02 lower
   bound is against the declared min.  (Path reaching the root: acyclic trees are C15's part.) *)
Theorem c02_mgr_refresh_scaled_min : forall K ops k mq,
  let st := mrun true K ops in
  afind k (g_quotas st) = Some mq ->
  top_parent (rev (path k st)) st = 0 ->
  let st' := refresh true k st in
  let hk := last_hk (rev (path k st)) (g_hasTotal st) in
  exists mq', afind k (g_quotas st') = Some mq'
    /\ m_parent mq' = m_parent mq /\ m_min mq' = m_min mq
    /\ let T := c_total (get_calc (m_parent mq) st') in
       let E := esum (m_parent mq) st' in
       E = esum (m_parent mq) st
       /\ q_min (m_info mq') = get_scaled hk T E (m_min mq)
       /\ (E <= T -> q_min (m_info mq') = m_min mq).
Proof. exact mgr_refresh_scaled_min. Qed.
Print Assumptions c02_mgr_refresh_scaled_min.

(* c02_scaled_min_le for the float model: when scaling happens, the scaled mins (each one
   int64(float64(T) * float64(min) / float64(sum)) with every operation rounded to binary64) add up to
   at most the total, for totals up to 2^51 and sums of mins below 2^53 (beyond that float64(int64)
   itself rounds; not claimed) *)
Theorem c02_scaled_min_le : forall T ms,
  0 < T <= 2 ^ 51 -> (forall m, In m ms -> 0 <= m) -> sumZ ms < 2 ^ 53 -> T < sumZ ms ->
  sumZ (map (fun m => scaled_min T m (sumZ ms)) ms) <= T.
Proof. exact scaled_min_sum_le. Qed.
Print Assumptions c02_scaled_min_le.

(* non-vacuity / regression of seeded/C02-m4: byte-scale mins 100000000001 / 33333333340 /
   77777777777, total exactly their sum, every sibling asking twice its min, scaling on: every sibling
   is reported at least its declared min (33333333340 for q2); the float formula applied at equality
   would give 33333333339 *)
Definition mgr_scale_ex : list Z :=
  [103; 7;  3;0;211111111118;0;0;0;0;
            0;1;0;2;400000000000;100000000001;0;  0;2;0;2;200000000000;33333333340;0;
            0;3;0;2;300000000000;77777777777;0;
            2;1;0;200000000002;0;0;0;  2;2;0;66666666680;0;0;0;  2;3;0;155555555554;0;0;0].

Example c02_mgr_scale_nonvacuous :
  skipn 18 (mgr_run_case mgr_scale_ex) = [100000000001; 33333333340; 77777777777]
  /\ mgr_prop_case mgr_scale_ex (mgr_run_case mgr_scale_ex) = 0
  /\ scaled_min 211111111118 33333333340 211111111118 = 33333333339
  /\ scaled_min 105555555559 33333333340 211111111118 = 16666666669.
Proof. vm_compute. repeat split; reflexivity. Qed.

(* ---- 15. label edits (allow-lent / is-parent, same parent) take resetQuotaNoLock: every calculator
        is rebuilt from the cleared QuotaInfos and every quota's own request is replayed bottom-up.
        The reset re-establishes the invariant from the tree shape alone (so c02_mgr_calculators_agree,
        c02_mgr_refresh_division and c02_mgr_refresh_scaled_min above hold for histories WITH label
        edits — [mrun] ranges over all ops) ---- *)
From Verif Require Import C02.Mgr_Proofs_Reset.

Theorem c02_mgr_reset_rebuilds : forall st, pre_inv st -> minv (reset st).
Proof. exact reset_inv. Qed.
Print Assumptions c02_mgr_reset_rebuilds.

(* non-vacuity / regression of seeded/C02-m6: total 100; team (parent, lends, min 60) with two
   non-lending children without pods (min 20 each); batch (min 40) asks 96; misc is created as a leaf
   and relabelled as a parent: the runtimes 40 / 20 / 20 / 60 / 0 are the same before and after *)
Definition mgr_reset_ex : list Z :=
  [5; 8;  3;0;100;0;0;0;0;  0;1;0;3;96;60;0;  0;2;1;0;96;20;0;  0;3;1;0;96;20;0;  0;4;0;2;96;40;0;
          0;5;0;2;96;0;0;  2;4;0;96;0;0;0;  0;5;0;3;96;0;0].

Example c02_mgr_reset_nonvacuous :
  firstn 5 (skipn 30 (mgr_run_case mgr_reset_ex)) = [40; 20; 20; 60; 0]
  /\ skipn 35 (mgr_run_case mgr_reset_ex) = [40; 20; 20; 60; 0]
  /\ mgr_prop_case mgr_reset_ex (mgr_run_case mgr_reset_ex) = 0.
Proof. vm_compute. repeat split; reflexivity. Qed.

(* ======================================================================================== *)
(* Stream "dims": GroupQuotaManager in TWO resource dimensions (cpu in milli-cores, memory),   *)
(* the feature gate ElasticQuotaGuaranteeUsage as a switch, pods reserved / un-reserved /      *)
(* resized (Dim_Model.v, transcribed: every place where the code looks at the dimensions       *)
(* together — need…/update… pairs, IsZero, Equals, GetSharedWeight — is joint in the model;   *)
(* Dim_Spec.v: requests AND guarantees recomputed from scratch from the history).              *)
(* ======================================================================================== *)
From Verif Require Import C02.Dim_Model C02.Dim_Spec C02.Dim_Proofs_Inv.

(* ---- 16. after ANY history (gate on or off; [fxd]: DeleteQuota repaired, as it is now / before the repair), in EACH
        dimension every calculator of the tree holds exactly the current QuotaInfo figures of the
        quotas whose parent it serves: tree nodes (request = min(Request, Max), min, sharedWeight,
        guarantee = Guaranteed) and both caches.  In particular the joint change detectors never
        leave one dimension stale (the mechanism of seeded/C02-m7) ---- *)
Theorem c02_dims_calculators_agree : forall gate fxd K ops mem p,
  let st := half mem (drun gate fxd K ops) in let c := get_calc p st in let tb := kids p (g_quotas st) in
  c_tree c = abs tb
  /\ (forall k, c_get k (c_reqLimit c) = match tab_find k tb with Some q => limit_req q | None => 0 end)
  /\ (forall k, c_get k (c_guaranteed c) = match tab_find k tb with Some q => q_guar q | None => 0 end)
  /\ c_total (get_calc 0 st) = g_total st.
Proof. exact dims_calculators_agree. Qed.
Print Assumptions c02_dims_calculators_agree.

(* ---- 17. RefreshRuntime(k) after any such history reports, in each dimension, the from-scratch
        division top-down along k's path (as c02_mgr_refresh_division) ---- *)
Theorem c02_dims_refresh_division : forall gate fxd K ops mem k mq,
  let st := half mem (drun gate fxd K ops) in
  afind k (g_quotas st) = Some mq ->
  let pth := rev (path k st) in
  let top := top_parent pth st in
  half mem (refresh2 k (drun gate fxd K ops)) = refresh false k st
  /\ same_figs st (refresh false k st)
  /\ (top = 0 -> c_total (get_calc top st) = g_total st)
  /\ exists mq', afind k (g_quotas (refresh false k st)) = Some mq'
                 /\ down pth (c_total (get_calc top st)) st = Some (q_runtime (m_info mq')).
Proof. exact dims_refresh_division. Qed.
Print Assumptions c02_dims_refresh_division.

(* non-vacuity / regression of seeded/C02-m7: total 10 cores / 100; q1 (lends, min 1000m) holds a pod
   of 1500m + 1, q2 (lends, min 2000m) one of 1200m + 1; then a cpu-ONLY pod of 300m arrives in q1 and
   one of 600m in q2: both requests change by a sub-core amount in one dimension only and the division
   follows (1800m / 1800m).  An implementation that leaves q1 at 1500m (whole-core change detection)
   is rejected: capacity is left and q1 is short (clause 144, work conservation, cpu) *)
Definition dims_m7_ex : list Z :=
  [2; 7;  3;0;10000;100;0;0;0;0;0;0;
          0;1;0;2;10000;100;1000;10;0;0;   0;2;0;2;10000;100;2000;10;0;0;
          2;1;0;1500;1;0;0;0;0;0;          2;2;0;1200;1;0;0;0;0;0;
          2;1;1;300;0;0;0;0;0;0;           2;2;1;600;0;0;0;0;0;0].

Example c02_dims_subcore_nonvacuous :
  skipn 20 (dims_run_case dims_m7_ex) = [1800; 1; 1200; 1;  1800; 1; 1800; 1]
  /\ dims_prop_case dims_m7_ex (dims_run_case dims_m7_ex) = 0
  /\ dims_prop_case dims_m7_ex (firstn 20 (dims_run_case dims_m7_ex) ++ [1500; 1; 1200; 1;  1500; 1; 1800; 1]) = 144.
Proof. vm_compute. repeat split; reflexivity. Qed.

(* non-vacuity / regression of seeded/C02-m8 (gate on): root 100; p1 (parent, min 20) -> c1 (min 10);
   p2 (min 20) asks 100.  c1's pods (40 + 20) are reserved: p1 is guaranteed 60 and p2 gets 40; the pod
   of 40 is un-reserved: p1 is guaranteed 20 again and competes like p2 (50 / 50); the pods leave: p2 gets
   80.  A manager whose ancestors keep the high-water mark (p1 stays at 60) is rejected at the last step:
   p1 gets more than max(request 20, guaranteed 20) (clause 141) *)
Definition dims_m8_ex : list Z :=
  [103; 12;  3;0;100;100;0;0;0;0;0;0;
     0;1;0;1;100;100;20;20;0;0;  0;2;1;0;100;100;10;10;0;0;  0;3;0;0;100;100;20;20;0;0;
     2;3;0;100;100;0;0;0;0;0;   2;2;0;40;40;0;0;0;0;0;   2;2;1;20;20;0;0;0;0;0;
     5;2;0;0;0;0;0;0;0;0;   5;2;1;0;0;0;0;0;0;0;   6;2;0;0;0;0;0;0;0;0;
     2;2;0;0;0;0;0;0;0;0;   2;2;1;0;0;0;0;0;0;0].

Example c02_dims_guarantee_nonvacuous :
  firstn 6 (skipn 48 (dims_run_case dims_m8_ex)) = [60; 60; 60; 60; 40; 40]
  /\ firstn 6 (skipn 54 (dims_run_case dims_m8_ex)) = [50; 50; 50; 50; 50; 50]
  /\ skipn 66 (dims_run_case dims_m8_ex) = [20; 20; 10; 10; 80; 80]
  /\ dims_prop_case dims_m8_ex (dims_run_case dims_m8_ex) = 0
  /\ dims_prop_case dims_m8_ex (firstn 66 (dims_run_case dims_m8_ex) ++ [60; 60; 10; 10; 40; 40]) = 141.
Proof. vm_compute. repeat split; reflexivity. Qed.

(* ---- 18. regression witness of the defect repaired in /repo (findings/C02-delete-keeps-guarantee.md):
        with the gate on, DeleteQuota handed the deleted quota's USED to its ancestors' Allocated although
        they were given its GUARANTEED = max(Allocated, Min).  root 100; q1 (parent, min 5) -> q2 (min 30,
        no pods); q3 asks 100.  q1 is guaranteed 30 through q2 and gets 30, q3 70.  DeleteQuota(q2): the
        code before the repair ([fxd] = false) still reported 30 / 70 — q1 above
        max(request 5, guaranteed 5): clause 141; the code as it is ([fxd] = true, what run_case models)
        reports 5 / 95 and the decision procedure accepts
        (corpus/C02/dims/f2-delete-keeps-guarantee.case) ---- *)
Definition dims_delete_witness : list Z :=
  [103; 6;  3;0;100;100;0;0;0;0;0;0;
     0;1;0;1;100;100;5;5;0;0;  0;2;1;0;100;100;30;30;0;0;  0;3;0;0;100;100;0;0;0;0;
     2;3;0;100;100;0;0;0;0;0;   1;2;0;0;0;0;0;0;0;0].

Theorem c02_dims_delete_guarantee_refuted :
  exists inp, let '(gate, K, ops) := dims_decode inp in
    gate = true
    /\ skipn 30 (drun_obs gate false K dmgr0 ops) = [30; 30; -1; -1; 70; 70]
    /\ dims_prop_case inp (drun_obs gate false K dmgr0 ops) = 141
    /\ skipn 30 (dims_run_case inp) = [5; 5; -1; -1; 95; 95]
    /\ dims_prop_case inp (dims_run_case inp) = 0.
Proof. exists dims_delete_witness. vm_compute. repeat split; reflexivity. Qed.
Print Assumptions c02_dims_delete_guarantee_refuted.

(* ---- 19. the guarantee chain, gate on: after ANY history with non-negative quantities (create / max /
        min / sharedWeight changes, pods arriving — possibly already bound —, leaving, reserved,
        un-reserved, resized, cluster total, RefreshRuntime of everything after every op; DeleteQuota
        too when it takes the guarantee back, [fxd] = true, the code as it is — for the code before the
        repair the histories without DeleteQuota), in each dimension and for every live quota k:
            Guaranteed(k) = max(Allocated(k), Min(k))
            Allocated(k)  = requests of the ASSIGNED pods of k + sum of Guaranteed(c), c child of k
        (by c02_dims_calculators_agree that Guaranteed is the guarantee of k's node in its parent's
        calculator).  Nothing ratchets: a released guarantee is rolled back at every ancestor (the
        mechanism of seeded/C02-m8).  The parent chains of the model reach the root (quotas are created
        below live parents and never re-parented: Dim_Proofs_Geq.complete), so no hypothesis on paths ---- *)
From Verif Require Import C02.Dim_Proofs_Geq C02.Dim_Proofs_Guar.

Theorem c02_dims_guarantee_exact : forall fxd K ops mem k mq,
  forallb wf_dop ops = true -> (fxd = true \/ forallb not_delete ops = true) ->
  let st := drun true fxd K ops in
  afind k (g_quotas (half mem st)) = Some mq ->
  q_guar (m_info mq) = Z.max (al mem st k) (m_min mq)
  /\ al mem st k = assigned_sum mem k st + kids_guar k (half mem st)
  /\ 0 <= al mem st k.
Proof. exact dims_guarantee_exact. Qed.
Print Assumptions c02_dims_guarantee_exact.

(* non-vacuity: the history of dims_m8_ex is well-formed and has no DeleteQuota; after its first nine ops
   (both pods of c1 reserved) c1 = q2 has Allocated 60 = Guaranteed and its parent q1 Allocated 60 =
   Guaranteed, one op later (the pod of 40 un-reserved) 20 / 20 *)
Example c02_dims_guarantee_exact_nonvacuous :
  let ops := snd (dims_decode dims_m8_ex) in
  forallb wf_dop ops = true /\ forallb not_delete ops = true
  /\ (let st := drun true false 3 (firstn 9 ops) in
      al false st 2 = 60 /\ al false st 1 = 60 /\ kids_guar 1 (d_cpu st) = 60 /\ assigned_sum false 2 st = 60)
  /\ (let st := drun true false 3 (firstn 10 ops) in
      al false st 2 = 20 /\ al false st 1 = 20 /\ kids_guar 1 (d_cpu st) = 20 /\ assigned_sum false 2 st = 20).
Proof. vm_compute. repeat split; reflexivity. Qed.
