(* C02 — exported theorems only: each is closed by [exact] and followed by Print Assumptions. *)
From Coq Require Import List ZArith Bool.
From Verif Require Import C02.Model C02.Spec C02.Proofs.
Open Scope Z_scope.

Theorem c02_init_bounds : forall n,
  Z.min (request n) (eff_min n) <= init_runtime n <= Z.max (request n) (eff_min n).
Proof. exact init_runtime_bounds. Qed.
Print Assumptions c02_init_bounds.
