(* C02 — one round of iterationForRedistribution and the run relation [Iter]. *)
From Coq Require Import List ZArith Bool Lia Permutation.
From Verif Require Import C02.Model C02.Proofs_Hamilton.
Import ListNotations.
Open Scope Z_scope.

Definition ename (e : entry) : Z := nm (fst e).
Definition dl (T W : Z) (es : list entry) (e : entry) : Z := delta_of T W (map fst es) (fst e).
Definition round_es (T W : Z) (es : list entry) : list entry :=
  map (fun e => (fst e, snd e + dl T W es e)) es.
Definition keep_of (T W : Z) (es : list entry) : list entry := filter unsat (round_es T W es).
Definition full_of (T W : Z) (es : list entry) : list entry :=
  filter (fun e => negb (unsat e)) (round_es T W es).
Definition surplus_es (T W : Z) (es : list entry) : Z := sumZ (map surplus_of (full_of T W es)).
Definition wsum (es : list entry) : Z := sumZ (map (fun e => weight (fst e)) es).

Lemma combine_bump (g : node -> Z) (es : list entry) :
  map (fun p => bump (fst p) (snd p)) (combine es (map g (map fst es)))
  = map (fun e => (fst e, snd e + g (fst e))) es.
Proof.
  induction es as [|e es IH]; [reflexivity|].
  cbn [map combine]. rewrite IH. reflexivity.
Qed.

Lemma es1_eq T W es :
  0 < T -> 0 < W ->
  map (fun p => bump (fst p) (snd p)) (combine es (hamilton T W (map fst es))) = round_es T W es.
Proof.
  intros HT HW. rewrite hamilton_unfold by assumption. apply combine_bump.
Qed.

Lemma is_nil_true {A} (l : list A) : is_nil l = true <-> l = [].
Proof. destruct l; cbn; split; congruence. Qed.
Lemma is_nil_false {A} (l : list A) : is_nil l = false <-> l <> [].
Proof. destruct l; cbn; split; congruence. Qed.

Lemma iterate_S f T W es :
  iterate (S f) T W es =
  if (W <=? 0) || (T <=? 0) || is_nil es then es
  else if (0 <? surplus_es T W es) && negb (is_nil (keep_of T W es))
       then map cap (full_of T W es)
            ++ iterate f (surplus_es T W es) (wsum (keep_of T W es)) (keep_of T W es)
       else map cap (full_of T W es) ++ keep_of T W es.
Proof.
  cbn [iterate].
  destruct (W <=? 0) eqn:E1; [reflexivity|].
  destruct (T <=? 0) eqn:E2; [reflexivity|].
  destruct (is_nil es) eqn:E3; [reflexivity|].
  cbn [orb]. apply Z.leb_gt in E1, E2.
  rewrite es1_eq by assumption. reflexivity.
Qed.

Inductive Iter : nat -> Z -> Z -> list entry -> list entry -> Prop :=
| Iter_fuel T W es : Iter O T W es es
| Iter_stop f T W es : W <= 0 \/ T <= 0 \/ es = [] -> Iter (S f) T W es es
| Iter_last f T W es : 0 < W -> 0 < T -> es <> [] ->
    surplus_es T W es <= 0 \/ keep_of T W es = [] ->
    Iter (S f) T W es (map cap (full_of T W es) ++ keep_of T W es)
| Iter_rec f T W es out : 0 < W -> 0 < T -> es <> [] ->
    0 < surplus_es T W es -> keep_of T W es <> [] ->
    Iter f (surplus_es T W es) (wsum (keep_of T W es)) (keep_of T W es) out ->
    Iter (S f) T W es (map cap (full_of T W es) ++ out).

Lemma iterate_Iter f : forall T W es, Iter f T W es (iterate f T W es).
Proof.
  induction f as [|f IH]; intros T W es; [constructor|].
  rewrite iterate_S.
  destruct (W <=? 0) eqn:E1; [apply Z.leb_le in E1; apply Iter_stop; auto|].
  destruct (T <=? 0) eqn:E2; [apply Z.leb_le in E2; apply Iter_stop; auto|].
  destruct (is_nil es) eqn:E3; [apply is_nil_true in E3; apply Iter_stop; auto|].
  cbn [orb]. apply Z.leb_gt in E1, E2. apply is_nil_false in E3.
  destruct (0 <? surplus_es T W es) eqn:E4; cbn [andb].
  - destruct (is_nil (keep_of T W es)) eqn:E5; cbn [negb].
    + apply is_nil_true in E5. apply Iter_last; auto.
    + apply is_nil_false in E5. apply Z.ltb_lt in E4. apply Iter_rec; auto.
  - apply Z.ltb_ge in E4. apply Iter_last; auto.
Qed.

(* ---------- facts about one round ---------- *)
Definition all_unsat (es : list entry) : Prop := forall e, In e es -> unsat e = true.

Record Pre (W : Z) (es : list entry) : Prop := mkPre {
  pre_wnn : wnn (map fst es);
  pre_W : W = wsum es;
  pre_nodup : NoDup (map ename es);
  pre_unsat : all_unsat es }.

Lemma wsum_eq es : wsum es = sumZ (map weight (map fst es)).
Proof. unfold wsum. rewrite map_map. reflexivity. Qed.

Lemma ename_map es : map ename es = map nm (map fst es).
Proof. rewrite map_map. reflexivity. Qed.

Lemma round_fst T W es : map fst (round_es T W es) = map fst es.
Proof. unfold round_es. rewrite map_map. reflexivity. Qed.

Lemma round_ename T W es : map ename (round_es T W es) = map ename es.
Proof. unfold round_es. rewrite map_map. reflexivity. Qed.

Lemma round_length T W es : length (round_es T W es) = length es.
Proof. apply map_length. Qed.

Lemma round_In T W es e1 :
  In e1 (round_es T W es) <-> exists e, In e es /\ e1 = (fst e, snd e + dl T W es e).
Proof.
  unfold round_es. rewrite in_map_iff. split; intros [e [H1 H2]]; exists e; split; auto.
Qed.

Lemma dl_nonneg T W es e : 0 < W -> 0 <= T -> 0 <= dl T W es e.
Proof. intros. apply delta_nonneg; assumption. Qed.

Lemma round_sum T W es :
  0 < T -> 0 < W -> Pre W es ->
  sumZ (map snd (round_es T W es)) = sumZ (map snd es) + T.
Proof.
  intros HT HW [Hnn HWeq Hnd _].
  unfold round_es. rewrite map_map. cbn [snd].
  rewrite (sumZ_map_add snd (dl T W es)). f_equal.
  unfold dl. rewrite <- (map_map fst (delta_of T W (map fst es))).
  rewrite <- hamilton_unfold by assumption.
  apply hamilton_sum; try assumption.
  - rewrite HWeq. apply wsum_eq.
  - rewrite <- ename_map. exact Hnd.
Qed.

Lemma round_partition T W es :
  Permutation (round_es T W es) (keep_of T W es ++ full_of T W es).
Proof. apply filter_partition_perm. Qed.

Lemma keep_In T W es e : In e (keep_of T W es) <-> In e (round_es T W es) /\ unsat e = true.
Proof. apply filter_In. Qed.

Lemma full_In T W es e : In e (full_of T W es) <-> In e (round_es T W es) /\ unsat e = false.
Proof.
  unfold full_of. rewrite filter_In. destruct (unsat e); cbn; intuition congruence.
Qed.

Lemma keep_or_full T W es e :
  In e (round_es T W es) -> In e (keep_of T W es) \/ In e (full_of T W es).
Proof.
  intro H. destruct (unsat e) eqn:E; [left; apply keep_In|right; apply full_In]; auto.
Qed.

Lemma unsat_true e : unsat e = true <-> snd e < request (fst e).
Proof. unfold unsat. apply Z.ltb_lt. Qed.
Lemma unsat_false e : unsat e = false <-> request (fst e) <= snd e.
Proof. unfold unsat. apply Z.ltb_ge. Qed.

Lemma surplus_nonneg T W es : 0 <= surplus_es T W es.
Proof.
  apply sumZ_map_nonneg. intros e He. apply full_In in He. destruct He as [_ He].
  apply unsat_false in He. unfold surplus_of. lia.
Qed.

Lemma surplus_pos_full T W es : 0 < surplus_es T W es -> full_of T W es <> [].
Proof. unfold surplus_es. intros H E. rewrite E in H. cbn in H. lia. Qed.

Lemma keep_length_lt T W es : full_of T W es <> [] -> (length (keep_of T W es) < length es)%nat.
Proof.
  intro H. destruct (full_of T W es) as [|x l] eqn:E; [congruence|].
  assert (Hx : In x (full_of T W es)) by (rewrite E; left; reflexivity).
  apply full_In in Hx. destruct Hx as [Hx Hu].
  rewrite <- (round_length T W es). unfold keep_of. eapply filter_length_lt; eassumption.
Qed.

Lemma keep_length_le T W es : (length (keep_of T W es) <= length es)%nat.
Proof. rewrite <- (round_length T W es). apply filter_length_le. Qed.

Lemma cap_sum l : sumZ (map snd (map cap l)) = sumZ (map snd l) - sumZ (map surplus_of l).
Proof.
  induction l as [|e l IH]; [reflexivity|].
  cbn [map]. rewrite !sumZ_cons, IH. unfold cap, surplus_of. cbn [snd fst]. lia.
Qed.

Lemma cap_fst l : map fst (map cap l) = map fst l.
Proof. rewrite map_map. reflexivity. Qed.

Lemma cap_In e l : In e (map cap l) -> snd e = request (fst e) /\ exists x, In x l /\ fst x = fst e.
Proof.
  intro H. apply in_map_iff in H. destruct H as [x [E Hx]]. subst e.
  split; [reflexivity|]. exists x. split; [exact Hx|reflexivity].
Qed.

(* after capping the full nodes, what a round holds is the old sum + T − surplus *)
Lemma round_out_sum T W es :
  0 < T -> 0 < W -> Pre W es ->
  sumZ (map snd (map cap (full_of T W es))) + sumZ (map snd (keep_of T W es))
  = sumZ (map snd es) + T - surplus_es T W es.
Proof.
  intros HT HW HP. pose proof (round_sum T W es HT HW HP) as HS.
  rewrite (sumZ_map_perm snd _ _ (round_partition T W es)), map_app, sumZ_app in HS.
  rewrite cap_sum. unfold surplus_es. lia.
Qed.

Lemma Pre_keep T W es : Pre W es -> Pre (wsum (keep_of T W es)) (keep_of T W es).
Proof.
  intros [Hnn HWeq Hnd Hu]. split.
  - intros n Hn. apply in_map_iff in Hn. destruct Hn as [e [<- He]].
    apply keep_In in He. destruct He as [He _]. apply Hnn.
    rewrite <- (round_fst T W es). apply in_map, He.
  - reflexivity.
  - unfold keep_of. apply NoDup_map_filter. rewrite round_ename. exact Hnd.
  - intros e He. apply keep_In in He. apply He.
Qed.

Lemma Pre_In_eq W es a b : Pre W es -> In a es -> In b es -> fst a = fst b -> a = b.
Proof.
  intros HP Ha Hb E. apply (NoDup_map_inj_in ename es); try assumption.
  - apply HP.
  - unfold ename. rewrite E. reflexivity.
Qed.

(* all weights are zero when their (non-negative) sum is not positive *)
Lemma wsum_nonpos_zero es :
  wnn (map fst es) -> wsum es <= 0 -> forall e, In e es -> weight (fst e) = 0.
Proof.
  induction es as [|x es IH]; intros Hnn Hs e He; [destruct He|].
  cbn [map] in Hnn. apply wnn_cons in Hnn. destruct Hnn as [Hx Hnn].
  unfold wsum in Hs. cbn [map] in Hs. rewrite sumZ_cons in Hs. fold (wsum es) in Hs.
  assert (0 <= wsum es).
  { unfold wsum. apply sumZ_map_nonneg. intros y Hy. apply Hnn, in_map, Hy. }
  destruct He as [<-|He]; [lia|]. apply IH; [exact Hnn|lia|exact He].
Qed.

(* shares of one round are proportional to the weights up to one unit each *)
Lemma round_fair T W es a b :
  0 < T -> 0 < W -> Pre W es -> In a es -> In b es ->
  Z.abs (dl T W es a * weight (fst b) - dl T W es b * weight (fst a))
  <= weight (fst a) + weight (fst b).
Proof.
  intros HT HW [Hnn HWeq Hnd _] Ha Hb.
  assert (HWeq' : W = sumZ (map weight (map fst es))) by (rewrite HWeq; apply wsum_eq).
  assert (Hnd' : NoDup (map nm (map fst es))) by (rewrite <- ename_map; exact Hnd).
  unfold dl. apply delta_fair; try assumption; apply in_map; assumption.
Qed.

(* ---------- properties of a whole run, by induction on [Iter] ---------- *)

(* L1: the result holds exactly the same nodes *)
Lemma iter_fst_perm f T W es out :
  Iter f T W es out -> Permutation (map fst out) (map fst es).
Proof.
  induction 1 as [T W es|f T W es _|f T W es _ _ _ _|f T W es out _ _ _ _ _ _ IH];
    try apply Permutation_refl.
  - rewrite map_app, cap_fst, <- map_app, <- (round_fst T W es).
    apply Permutation_map. eapply Permutation_trans; [apply Permutation_app_comm|].
    apply Permutation_sym, round_partition.
  - rewrite map_app, cap_fst, <- (round_fst T W es).
    eapply Permutation_trans; [apply Permutation_app_head, IH|].
    rewrite <- map_app. apply Permutation_map.
    eapply Permutation_trans; [apply Permutation_app_comm|].
    apply Permutation_sym, round_partition.
Qed.

Lemma iter_nodup f T W es out :
  Iter f T W es out -> NoDup (map ename es) -> NoDup (map ename out).
Proof.
  intros HI Hnd. rewrite ename_map in *.
  eapply Permutation_NoDup; [|exact Hnd].
  apply Permutation_map, Permutation_sym, (iter_fst_perm _ _ _ _ _ HI).
Qed.

(* L2: every node keeps at least what it had and never passes its request *)
Lemma iter_bounds f T W es out :
  Iter f T W es out -> all_unsat es ->
  forall e, In e es -> exists r, In (fst e, r) out /\ snd e <= r <= request (fst e).
Proof.
  induction 1 as [T W es|f T W es _|f T W es HW HT _ _|f T W es out HW HT _ _ _ _ IH];
    intros Hu e He.
  - exists (snd e). rewrite <- surjective_pairing. split; [exact He|].
    apply Hu, unsat_true in He. lia.
  - exists (snd e). rewrite <- surjective_pairing. split; [exact He|].
    apply Hu, unsat_true in He. lia.
  - pose proof (dl_nonneg T W es e HW (Z.lt_le_incl _ _ HT)) as Hd.
    pose proof (Hu e He) as Hue. apply unsat_true in Hue.
    assert (H1 : In (fst e, snd e + dl T W es e) (round_es T W es)).
    { apply round_In. exists e. auto. }
    destruct (keep_or_full _ _ _ _ H1) as [Hk|Hf].
    + exists (snd e + dl T W es e). split; [apply in_or_app; right; exact Hk|].
      apply keep_In in Hk. destruct Hk as [_ Hk]. apply unsat_true in Hk. cbn [fst snd] in Hk. lia.
    + exists (request (fst e)). split; [|lia]. apply in_or_app. left.
      apply in_map_iff. exists (fst e, snd e + dl T W es e). split; [reflexivity|exact Hf].
  - pose proof (dl_nonneg T W es e HW (Z.lt_le_incl _ _ HT)) as Hd.
    pose proof (Hu e He) as Hue. apply unsat_true in Hue.
    assert (H1 : In (fst e, snd e + dl T W es e) (round_es T W es)).
    { apply round_In. exists e. auto. }
    destruct (keep_or_full _ _ _ _ H1) as [Hk|Hf].
    + destruct (IH (fun x Hx => proj2 (proj1 (keep_In T W es x) Hx)) _ Hk) as [r [Hr Hb]].
      cbn [fst snd] in Hr, Hb. exists r. split; [apply in_or_app; right; exact Hr|lia].
    + exists (request (fst e)). split; [|lia]. apply in_or_app. left.
      apply in_map_iff. exists (fst e, snd e + dl T W es e). split; [reflexivity|exact Hf].
Qed.

(* L3: a run hands out at most T *)
Lemma iter_sum_le f T W es out :
  Iter f T W es out -> 0 <= T -> Pre W es ->
  sumZ (map snd out) <= sumZ (map snd es) + T.
Proof.
  induction 1 as [T W es|f T W es _|f T W es HW HT _ _|f T W es out HW HT _ Hs _ _ IH];
    intros HT0 HP; try lia.
  - rewrite map_app, sumZ_app, (round_out_sum T W es HT HW HP).
    pose proof (surplus_nonneg T W es). lia.
  - rewrite map_app, sumZ_app.
    pose proof (round_out_sum T W es HT HW HP).
    specialize (IH (Z.lt_le_incl _ _ Hs) (Pre_keep T W es HP)). lia.
Qed.

Definition all_met (out : list entry) : Prop :=
  forall e, In e out -> pos_weight (fst e) = true -> snd e = request (fst e).

(* L4: with enough fuel a run hands out exactly T unless every positive-weight node is met;
   in particular running out of fuel is unreachable *)
Lemma iter_work f T W es out :
  Iter f T W es out -> 0 < T -> Pre W es -> (length es < f)%nat ->
  sumZ (map snd out) = sumZ (map snd es) + T \/ all_met out.
Proof.
  induction 1 as [T W es|f T W es Hstop|f T W es HW HT _ Hl|f T W es out HW HT _ Hs _ _ IH];
    intros HT0 HP Hlen.
  - lia.
  - right. destruct Hstop as [HW|[HT|Hnil]]; [|lia|subst es; intros e []].
    intros e He Hp. apply pos_weight_true in Hp.
    pose proof (wsum_nonpos_zero es (pre_wnn _ _ HP)) as Hz.
    rewrite <- (pre_W _ _ HP) in Hz. specialize (Hz HW e He). lia.
  - destruct Hl as [Hl|Hl].
    + left. rewrite map_app, sumZ_app, (round_out_sum T W es HT HW HP).
      pose proof (surplus_nonneg T W es). lia.
    + right. rewrite Hl, app_nil_r. intros e He _. apply cap_In in He. apply He.
  - pose proof (keep_length_lt T W es (surplus_pos_full T W es Hs)) as Hk.
    destruct (IH Hs (Pre_keep T W es HP) ltac:(lia)) as [IH1|IH1].
    + left. rewrite map_app, sumZ_app. pose proof (round_out_sum T W es HT HW HP). lia.
    + right. intros e He Hp. apply in_app_or in He. destruct He as [He|He].
      * apply cap_In in He. apply He.
      * apply IH1; assumption.
Qed.

(* L5: two nodes still short at the end of a run received amounts proportional to their
   weights, up to one unit each per round (at most [length es] rounds) *)
Lemma iter_fair f T W es out :
  Iter f T W es out -> Pre W es ->
  forall a b ra rb, In a es -> In b es ->
    In (fst a, ra) out -> In (fst b, rb) out ->
    ra < request (fst a) -> rb < request (fst b) ->
    Z.abs ((ra - snd a) * weight (fst b) - (rb - snd b) * weight (fst a))
    <= Z.of_nat (length es) * (weight (fst a) + weight (fst b)).
Proof.
  induction 1 as [T W es|f T W es _|f T W es HW HT Hne _|f T W es out HW HT Hne Hs _ HI IH];
    intros HP a b ra rb Ha Hb Hra Hrb Hsa Hsb.
  - assert (E1 : (fst a, ra) = a) by (apply (Pre_In_eq W es); auto).
    assert (E2 : (fst b, rb) = b) by (apply (Pre_In_eq W es); auto).
    rewrite <- E1, <- E2. cbn [fst snd].
    pose proof (pre_wnn _ _ HP _ (in_map fst _ _ Ha)). pose proof (pre_wnn _ _ HP _ (in_map fst _ _ Hb)).
    rewrite !Z.sub_diag. cbn. nia.
  - assert (E1 : (fst a, ra) = a) by (apply (Pre_In_eq W es); auto).
    assert (E2 : (fst b, rb) = b) by (apply (Pre_In_eq W es); auto).
    rewrite <- E1, <- E2. cbn [fst snd].
    pose proof (pre_wnn _ _ HP _ (in_map fst _ _ Ha)). pose proof (pre_wnn _ _ HP _ (in_map fst _ _ Hb)).
    rewrite !Z.sub_diag. cbn. nia.
  - assert (Hlast : forall x rx, In x es -> In (fst x, rx) (map cap (full_of T W es) ++ keep_of T W es) ->
              rx < request (fst x) -> rx = snd x + dl T W es x).
    { intros x rx Hx Hin Hlt. apply in_app_or in Hin. destruct Hin as [Hin|Hin].
      - apply cap_In in Hin. cbn [fst snd] in Hin. lia.
      - apply keep_In in Hin. destruct Hin as [Hin _]. apply round_In in Hin.
        destruct Hin as [y [Hy E]]. inversion E as [[E1 E2]].
        assert (y = x) by (apply (Pre_In_eq W es); auto). subst y. reflexivity. }
    rewrite (Hlast a ra Ha Hra Hsa), (Hlast b rb Hb Hrb Hsb).
    pose proof (round_fair T W es a b HT HW HP Ha Hb) as HF.
    replace (snd a + dl T W es a - snd a) with (dl T W es a) by lia.
    replace (snd b + dl T W es b - snd b) with (dl T W es b) by lia.
    pose proof (pre_wnn _ _ HP _ (in_map fst _ _ Ha)). pose proof (pre_wnn _ _ HP _ (in_map fst _ _ Hb)).
    assert (1 <= Z.of_nat (length es)) by (destruct es; [congruence|cbn [length]; lia]).
    nia.
  - pose proof (Pre_keep T W es HP) as HPk.
    assert (Hin_keep : forall x rx, In x es -> In (fst x, rx) (map cap (full_of T W es) ++ out) ->
              rx < request (fst x) ->
              In (fst x, snd x + dl T W es x) (keep_of T W es) /\ In (fst x, rx) out).
    { intros x rx Hx Hin Hlt. apply in_app_or in Hin. destruct Hin as [Hin|Hin].
      - apply cap_In in Hin. cbn [fst snd] in Hin. lia.
      - split; [|exact Hin].
        pose proof (iter_fst_perm _ _ _ _ _ HI) as HPm.
        assert (Hf : In (fst x) (map fst (keep_of T W es))).
        { eapply Permutation_in; [exact HPm|]. apply (in_map fst _ _ Hin). }
        apply in_map_iff in Hf. destruct Hf as [k [Ek Hk]].
        pose proof Hk as Hk'. apply keep_In in Hk'. destruct Hk' as [Hk' _].
        apply round_In in Hk'. destruct Hk' as [y [Hy E]].
        assert (y = x).
        { apply (Pre_In_eq W es); auto. rewrite E in Ek. cbn [fst] in Ek. exact Ek. }
        subst y. rewrite <- E. exact Hk. }
    destruct (Hin_keep a ra Ha Hra Hsa) as [Hka Hoa].
    destruct (Hin_keep b rb Hb Hrb Hsb) as [Hkb Hob].
    specialize (IH HPk _ _ ra rb Hka Hkb Hoa Hob Hsa Hsb). cbn [fst snd] in IH.
    pose proof (round_fair T W es a b HT HW HP Ha Hb) as HF.
    pose proof (keep_length_lt T W es (surplus_pos_full T W es Hs)) as Hk.
    pose proof (pre_wnn _ _ HP _ (in_map fst _ _ Ha)) as Hwa.
    pose proof (pre_wnn _ _ HP _ (in_map fst _ _ Hb)) as Hwb.
    set (wa := weight (fst a)) in *. set (wb := weight (fst b)) in *.
    set (da := dl T W es a) in *. set (db := dl T W es b) in *.
    set (A := (ra - (snd a + da)) * wb - (rb - (snd b + db)) * wa) in *.
    set (B := da * wb - db * wa) in *.
    replace ((ra - snd a) * wb - (rb - snd b) * wa) with (A + B) by (unfold A, B; ring).
    assert (Z.of_nat (length (keep_of T W es)) * (wa + wb) + (wa + wb)
            <= Z.of_nat (length es) * (wa + wb)) by nia.
    lia.
Qed.

(* ---------- fuel: any fuel above the number of entries gives the same run ---------- *)
Lemma iterate_fuel_S f : forall T W es,
  (length es < f)%nat -> iterate (S f) T W es = iterate f T W es.
Proof.
  induction f as [|f IH]; intros T W es Hlen; [lia|].
  rewrite (iterate_S (S f) T W es), (iterate_S f T W es).
  destruct ((W <=? 0) || (T <=? 0) || is_nil es); [reflexivity|].
  destruct (0 <? surplus_es T W es) eqn:E; [|reflexivity].
  destruct (negb (is_nil (keep_of T W es))); [|reflexivity]. cbn [andb].
  apply Z.ltb_lt in E.
  pose proof (keep_length_lt T W es (surplus_pos_full T W es E)).
  rewrite IH by lia. reflexivity.
Qed.

Lemma iterate_fuel_enough k f T W es :
  (length es < f)%nat -> iterate (k + f) T W es = iterate f T W es.
Proof.
  intro Hlen. induction k as [|k IH]; [reflexivity|].
  cbn [Nat.add]. rewrite iterate_fuel_S by lia. exact IH.
Qed.
