(* C02 — flat-integer interface of the model for the generic OCaml driver.  The four entry
   points (and the wire decoding) are defined in Case.v, where Proofs_Case.v reasons about
   them; this file only extracts them. *)
From Coq Require Import List ZArith Bool.
From Verif Require Import Lib.Wire C02.Model C02.Spec C02.Case.

Require Extraction.
Require Import ExtrOcamlBasic.
Extraction "model.ml" run_case prop_case nontrivial_case finding_sig.
