(* C02 / calculator — the invariant "tree nodes and caches agree with the children's current
   QuotaInfo figures", preserved by every op of the calling discipline, hence by every history. *)
From Coq Require Import List ZArith Bool Lia Permutation.
From Verif Require Import C02.Model C02.Spec C02.Proofs_Iterate C02.Proofs C02.Proofs_Perm C02.Calc_Model.
Import ListNotations.
Open Scope Z_scope.

(* the abstraction: the siblings, from scratch, in table order *)
Definition abs (tb : table) : list node := map (fun p => node_of (fst p) (snd p)) tb.

Definition agrees (f : qinfo -> Z) (c : cache) (tb : table) : Prop :=
  forall k, c_get k c = match tab_find k tb with Some q => f q | None => 0 end.

Record calc_inv (w : world) : Prop := mkInv {
  inv_nodup : NoDup (map fst (w_tab w));
  inv_tree : c_tree (w_calc w) = abs (w_tab w);
  inv_req : agrees limit_req (c_reqLimit (w_calc w)) (w_tab w);
  inv_guar : agrees q_guar (c_guaranteed (w_calc w)) (w_tab w);
  inv_pos : 0 < c_version (w_calc w);
  (* a version stamp equal to the calculator's certifies the cached runtime *)
  inv_ver : forall k q, tab_find k (w_tab w) = Some q ->
      q_rver q < c_version (w_calc w)
      \/ (q_rver q = c_version (w_calc w)
          /\ runtime_of k (calculateRuntime (w_calc w)) = Some (q_runtime q)) }.

Lemma NoDup_app_snoc {A} (l : list A) x : NoDup l -> ~ In x l -> NoDup (l ++ [x]).
Proof.
  intros Hnd Hx.
  apply (Permutation_NoDup (l := x :: l)); [|constructor; assumption].
  apply Permutation_cons_append.
Qed.

(* ---------- caches ---------- *)
Lemma c_get_del k k' c : c_get k' (c_del k c) = if k =? k' then 0 else c_get k' c.
Proof.
  induction c as [|p c IH]; [cbn; destruct (k =? k'); reflexivity|].
  unfold c_del in *. cbn [filter c_get]. destruct (fst p =? k) eqn:E; cbn [negb].
  - rewrite IH. apply Z.eqb_eq in E. rewrite E. destruct (k =? k'); reflexivity.
  - cbn [c_get]. rewrite IH. destruct (fst p =? k') eqn:E2; [|reflexivity].
    apply Z.eqb_eq in E2. apply Z.eqb_neq in E. rewrite <- E2.
    destruct (k =? fst p) eqn:E3; [apply Z.eqb_eq in E3; congruence|reflexivity].
Qed.

Lemma c_get_set k v k' c : c_get k' (c_set k v c) = if k =? k' then v else c_get k' c.
Proof.
  unfold c_set. cbn [c_get fst snd]. destruct (k =? k') eqn:E; [reflexivity|].
  rewrite c_get_del, E. reflexivity.
Qed.

(* ---------- tables ---------- *)
Lemma tab_find_In k q tb : tab_find k tb = Some q -> In (k, q) tb.
Proof.
  induction tb as [|p tb IH]; [discriminate|]. cbn [tab_find].
  destruct (fst p =? k) eqn:E.
  - intro H. inversion H. apply Z.eqb_eq in E. left. destruct p; cbn in *; congruence.
  - intro H. right. apply IH, H.
Qed.

Lemma In_tab_find k q tb : NoDup (map fst tb) -> In (k, q) tb -> tab_find k tb = Some q.
Proof.
  induction tb as [|p tb IH]; intros Hnd Hin; [destruct Hin|].
  cbn [map] in Hnd. inversion Hnd as [|? ? Hnin Hnd']; subst.
  cbn [tab_find]. destruct Hin as [->|Hin].
  - cbn [fst snd]. rewrite Z.eqb_refl. reflexivity.
  - destruct (fst p =? k) eqn:E; [|apply IH; assumption].
    apply Z.eqb_eq in E. exfalso. apply Hnin. rewrite E.
    change k with (fst (k, q)). apply in_map, Hin.
Qed.

Lemma tab_find_None k tb : tab_find k tb = None <-> ~ In k (map fst tb).
Proof.
  induction tb as [|p tb IH]; [cbn; tauto|]. cbn [tab_find map].
  destruct (fst p =? k) eqn:E.
  - apply Z.eqb_eq in E. split; [discriminate|]. intro H. exfalso. apply H. left. exact E.
  - apply Z.eqb_neq in E. rewrite IH. split.
    + intros H [H1|H1]; [exact (E H1)|exact (H H1)].
    + intros H H1. apply H. right. exact H1.
Qed.

Lemma tab_upd_keys k g tb : map fst (tab_upd k g tb) = map fst tb.
Proof.
  unfold tab_upd. rewrite map_map. apply map_ext. intro p.
  destruct (fst p =? k); reflexivity.
Qed.

Lemma tab_find_upd k g k' tb :
  tab_find k' (tab_upd k g tb) =
  if k =? k' then option_map g (tab_find k' tb) else tab_find k' tb.
Proof.
  induction tb as [|p tb IH]; [cbn; destruct (k =? k'); reflexivity|].
  cbn [tab_upd map tab_find]. fold (tab_upd k g tb).
  destruct (fst p =? k) eqn:E1; cbn [fst snd].
  - apply Z.eqb_eq in E1. rewrite E1. destruct (k =? k') eqn:E2; [reflexivity|]. exact IH.
  - destruct (fst p =? k') eqn:E2; [|exact IH].
    apply Z.eqb_eq in E2. apply Z.eqb_neq in E1. rewrite <- E2.
    destruct (k =? fst p) eqn:E3; [apply Z.eqb_eq in E3; congruence|reflexivity].
Qed.

Lemma tab_find_del k k' tb :
  tab_find k' (tab_del k tb) = if k =? k' then None else tab_find k' tb.
Proof.
  induction tb as [|p tb IH]; [cbn; destruct (k =? k'); reflexivity|].
  unfold tab_del in *. cbn [filter tab_find]. destruct (fst p =? k) eqn:E; cbn [negb].
  - rewrite IH. apply Z.eqb_eq in E. rewrite E. destruct (k =? k'); reflexivity.
  - cbn [tab_find]. rewrite IH. destruct (fst p =? k') eqn:E2; [|reflexivity].
    apply Z.eqb_eq in E2. apply Z.eqb_neq in E. rewrite <- E2.
    destruct (k =? fst p) eqn:E3; [apply Z.eqb_eq in E3; congruence|reflexivity].
Qed.

Lemma tab_find_app k q k' tb :
  tab_find k' (tb ++ [(k, q)]) =
  match tab_find k' tb with Some x => Some x | None => if k =? k' then Some q else None end.
Proof.
  induction tb as [|p tb IH]; [reflexivity|].
  rewrite <- app_comm_cons. cbn [tab_find]. destruct (fst p =? k'); [reflexivity|exact IH].
Qed.

Lemma tab_del_keys_nodup k tb : NoDup (map fst tb) -> NoDup (map fst (tab_del k tb)).
Proof. apply NoDup_map_filter. Qed.

(* ---------- the abstraction commutes with the tree operations ---------- *)
Lemma abs_keys tb : map nm (abs tb) = map fst tb.
Proof. unfold abs. rewrite map_map. reflexivity. Qed.

Lemma t_mem_abs k tb : t_mem k (abs tb) = match tab_find k tb with Some _ => true | None => false end.
Proof.
  induction tb as [|p tb IH]; [reflexivity|].
  cbn [abs map t_mem existsb tab_find]. cbn [node_of nm].
  destruct (fst p =? k); [reflexivity|]. exact IH.
Qed.

Lemma abs_upd k g f tb :
  (forall q, In (k, q) tb -> node_of k (g q) = f (node_of k q)) ->
  abs (tab_upd k g tb) = t_upd k f (abs tb).
Proof.
  induction tb as [|p tb IH]; intro H; [reflexivity|].
  cbn [abs tab_upd t_upd map]. fold (tab_upd k g tb) (abs (tab_upd k g tb)) (abs tb) (t_upd k f (abs tb)).
  rewrite IH by (intros; apply H; right; assumption).
  f_equal. cbn [node_of nm]. destruct (fst p =? k) eqn:E; [|reflexivity].
  apply Z.eqb_eq in E. cbn [fst snd]. rewrite E. apply H. left. destruct p; cbn in *; congruence.
Qed.

Lemma abs_same k g tb :
  (forall q, In (k, q) tb -> node_of k (g q) = node_of k q) -> abs (tab_upd k g tb) = abs tb.
Proof.
  intro H. rewrite (abs_upd k g (fun n => n)) by exact H.
  unfold t_upd. rewrite <- (map_id (abs tb)) at 2. apply map_ext. intro n.
  destruct (nm n =? k); reflexivity.
Qed.

Lemma abs_del k tb : abs (tab_del k tb) = t_erase k (abs tb).
Proof.
  unfold abs, tab_del, t_erase. rewrite filter_map_comm. reflexivity.
Qed.

Lemma abs_app k q tb : abs (tb ++ [(k, q)]) = abs tb ++ [node_of k q].
Proof. unfold abs. rewrite map_app. reflexivity. Qed.

(* ---------- a live child's figure changes and is pushed ---------- *)
Definition keeps_stamp (g : qinfo -> qinfo) : Prop :=
  forall q, q_rver (g q) = q_rver q /\ q_runtime (g q) = q_runtime q.

Lemma unique_live w k q q' :
  calc_inv w -> tab_find k (w_tab w) = Some q -> In (k, q') (w_tab w) -> q' = q.
Proof.
  intros Hi Hf Hin. apply (In_tab_find _ _ _ (inv_nodup w Hi)) in Hin. congruence.
Qed.

(* the push bumped the version: every stamp is now old *)
Lemma inv_after_bump w c' tb' :
  calc_inv w ->
  NoDup (map fst tb') -> c_tree c' = abs tb' ->
  agrees limit_req (c_reqLimit c') tb' -> agrees q_guar (c_guaranteed c') tb' ->
  c_version c' = c_version (w_calc w) + 1 ->
  (forall k q, tab_find k tb' = Some q -> q_rver q <= c_version (w_calc w)) ->
  calc_inv (mkW c' tb').
Proof.
  intros Hi Hnd Ht Hr Hg Hv Hle. constructor; cbn [w_calc w_tab]; try assumption.
  - pose proof (inv_pos w Hi). lia.
  - intros k q Hf. left. specialize (Hle k q Hf). lia.
Qed.

Lemma stamps_le w k q :
  calc_inv w -> tab_find k (w_tab w) = Some q -> q_rver q <= c_version (w_calc w).
Proof. intros Hi Hf. destruct (inv_ver w Hi k q Hf) as [H|[H _]]; lia. Qed.

Lemma stamps_le_upd w k g :
  calc_inv w -> keeps_stamp g ->
  forall k' q', tab_find k' (tab_upd k g (w_tab w)) = Some q' -> q_rver q' <= c_version (w_calc w).
Proof.
  intros Hi Hk k' q' Hf. rewrite tab_find_upd in Hf.
  destruct (k =? k').
  - destruct (tab_find k' (w_tab w)) as [q0|] eqn:E; [|discriminate].
    cbn in Hf. inversion Hf. rewrite (proj1 (Hk q0)). eapply stamps_le; eassumption.
  - eapply stamps_le; eassumption.
Qed.

Lemma agrees_upd f c k g tb v :
  agrees f c tb ->
  (forall q, tab_find k tb = Some q -> f (g q) = v) ->
  tab_find k tb <> None ->
  agrees f (c_set k v c) (tab_upd k g tb).
Proof.
  intros Ha Hv Hl k'. rewrite c_get_set, tab_find_upd.
  destruct (k =? k') eqn:E.
  - apply Z.eqb_eq in E. subst k'. destruct (tab_find k tb) as [q|] eqn:E2; [|congruence].
    cbn. symmetry. apply Hv. reflexivity.
  - apply Ha.
Qed.

Lemma agrees_upd_same f c k g tb :
  agrees f c tb ->
  (forall q, tab_find k tb = Some q -> f (g q) = f q) ->
  agrees f c (tab_upd k g tb).
Proof.
  intros Ha Hv k'. rewrite tab_find_upd. rewrite (Ha k').
  destruct (k =? k') eqn:E; [|reflexivity].
  apply Z.eqb_eq in E. subst k'. destruct (tab_find k tb) as [q|] eqn:E2; [|reflexivity].
  cbn. symmetry. apply Hv. reflexivity.
Qed.

Ltac live_upsert Hi Hf :=
  unfold upsert; rewrite (inv_tree _ Hi), t_mem_abs, Hf.

Lemma step_max_inv w k v : calc_inv w -> calc_inv (step w (OSetMax k v)).
Proof.
  intro Hi. cbn [step]. unfold on_live. destruct (tab_find k (w_tab w)) as [q|] eqn:Hf; [|exact Hi].
  apply (inv_after_bump w); try assumption; cbn [updateOneGroupMaxQuota c_tree c_reqLimit c_guaranteed c_version].
  - rewrite tab_upd_keys. apply (inv_nodup w Hi).
  - live_upsert Hi Hf. symmetry. apply abs_upd. intros q' Hin.
    rewrite (unique_live w k q q' Hi Hf Hin). reflexivity.
  - apply agrees_upd; [apply (inv_req w Hi)| |congruence].
    intros q0 H0. congruence.
  - apply agrees_upd_same; [apply (inv_guar w Hi)|]. reflexivity.
  - reflexivity.
  - apply stamps_le_upd; [exact Hi|]. intro; split; reflexivity.
Qed.

Lemma step_min_inv w k v : calc_inv w -> calc_inv (step w (OSetMin k v)).
Proof.
  intro Hi. cbn [step]. unfold on_live. destruct (tab_find k (w_tab w)) as [q|] eqn:Hf; [|exact Hi].
  apply (inv_after_bump w); try assumption; cbn [updateOneGroupMinQuota c_tree c_reqLimit c_guaranteed c_version].
  - rewrite tab_upd_keys. apply (inv_nodup w Hi).
  - live_upsert Hi Hf. symmetry. apply abs_upd. intros q' Hin. reflexivity.
  - apply agrees_upd_same; [apply (inv_req w Hi)|]. reflexivity.
  - apply agrees_upd_same; [apply (inv_guar w Hi)|]. reflexivity.
  - reflexivity.
  - apply stamps_le_upd; [exact Hi|]. intro; split; reflexivity.
Qed.

Lemma step_weight_inv w k v : calc_inv w -> calc_inv (step w (OSetWeight k v)).
Proof.
  intro Hi. cbn [step]. unfold on_live. destruct (tab_find k (w_tab w)) as [q|] eqn:Hf; [|exact Hi].
  apply (inv_after_bump w); try assumption; cbn [updateOneGroupSharedWeight c_tree c_reqLimit c_guaranteed c_version].
  - rewrite tab_upd_keys. apply (inv_nodup w Hi).
  - live_upsert Hi Hf. symmetry. apply abs_upd. intros q' Hin. reflexivity.
  - apply agrees_upd_same; [apply (inv_req w Hi)|]. reflexivity.
  - apply agrees_upd_same; [apply (inv_guar w Hi)|]. reflexivity.
  - reflexivity.
  - apply stamps_le_upd; [exact Hi|]. intro; split; reflexivity.
Qed.

(* need… = false: nothing is pushed, and nothing had to be — the cache is the current figure *)
Lemma inv_unchanged w k g :
  calc_inv w -> keeps_stamp g ->
  (forall q, tab_find k (w_tab w) = Some q -> node_of k (g q) = node_of k q) ->
  calc_inv (mkW (w_calc w) (tab_upd k g (w_tab w))).
Proof.
  intros Hi Hk Hn.
  assert (Habs : abs (tab_upd k g (w_tab w)) = abs (w_tab w)).
  { apply abs_same. intros q Hin. apply Hn. apply In_tab_find; [apply (inv_nodup w Hi)|exact Hin]. }
  constructor; cbn [w_calc w_tab].
  - rewrite tab_upd_keys. apply (inv_nodup w Hi).
  - rewrite Habs. apply (inv_tree w Hi).
  - apply agrees_upd_same; [apply (inv_req w Hi)|]. intros q Hq.
    specialize (Hn q Hq). unfold node_of in Hn. inversion Hn. reflexivity.
  - apply agrees_upd_same; [apply (inv_guar w Hi)|]. intros q Hq.
    specialize (Hn q Hq). unfold node_of in Hn. inversion Hn. reflexivity.
  - apply (inv_pos w Hi).
  - intros k' q' Hf. rewrite tab_find_upd in Hf. destruct (k =? k') eqn:E.
    + destruct (tab_find k' (w_tab w)) as [q0|] eqn:E0; [|discriminate].
      cbn in Hf. inversion Hf. destruct (Hk q0) as [H1 H2]. rewrite H1, H2.
      apply (inv_ver w Hi k' q0 E0).
    + apply (inv_ver w Hi k' q' Hf).
Qed.

Lemma step_req_inv w k v : calc_inv w -> calc_inv (step w (OSetReq k v)).
Proof.
  intro Hi. cbn [step]. unfold on_live. destruct (tab_find k (w_tab w)) as [q|] eqn:Hf; [|exact Hi].
  unfold push_request, needUpdateOneGroupRequest.
  destruct (c_get k (c_reqLimit (w_calc w)) =? limit_req (q_set_req v q)) eqn:En; cbn [negb].
  - (* not needed: the cached limited request equals the new one *)
    apply Z.eqb_eq in En. rewrite (inv_req w Hi k), Hf in En.
    apply inv_unchanged; [exact Hi|intro; split; reflexivity|].
    intros q0 H0. assert (q0 = q) by congruence. subst q0.
    unfold node_of. rewrite <- En. reflexivity.
  - apply (inv_after_bump w); try assumption; cbn [updateOneGroupRequest c_tree c_reqLimit c_guaranteed c_version].
    + rewrite tab_upd_keys. apply (inv_nodup w Hi).
    + live_upsert Hi Hf. symmetry. apply abs_upd. intros q' Hin.
      rewrite (unique_live w k q q' Hi Hf Hin). reflexivity.
    + apply agrees_upd; [apply (inv_req w Hi)| |congruence]. intros q0 H0. congruence.
    + apply agrees_upd_same; [apply (inv_guar w Hi)|]. reflexivity.
    + reflexivity.
    + apply stamps_le_upd; [exact Hi|]. intro; split; reflexivity.
Qed.

Lemma step_guar_inv w k v : calc_inv w -> calc_inv (step w (OSetGuar k v)).
Proof.
  intro Hi. cbn [step]. unfold on_live. destruct (tab_find k (w_tab w)) as [q|] eqn:Hf; [|exact Hi].
  unfold push_guaranteed, needUpdateOneGroupGuaranteed.
  destruct (c_get k (c_guaranteed (w_calc w)) =? q_guar (q_set_guar v q)) eqn:En; cbn [negb].
  - apply Z.eqb_eq in En. rewrite (inv_guar w Hi k), Hf in En.
    apply inv_unchanged; [exact Hi|intro; split; reflexivity|].
    intros q0 H0. assert (q0 = q) by congruence. subst q0.
    unfold node_of. cbn [q_set_guar q_guar] in *. rewrite <- En. reflexivity.
  - apply (inv_after_bump w); try assumption; cbn [updateOneGroupGuaranteed c_tree c_reqLimit c_guaranteed c_version].
    + rewrite tab_upd_keys. apply (inv_nodup w Hi).
    + live_upsert Hi Hf. symmetry. apply abs_upd. intros q' Hin. reflexivity.
    + apply agrees_upd_same; [apply (inv_req w Hi)|]. reflexivity.
    + apply agrees_upd; [apply (inv_guar w Hi)| |congruence]. intros q0 H0. reflexivity.
    + reflexivity.
    + apply stamps_le_upd; [exact Hi|]. intro; split; reflexivity.
Qed.

Lemma step_create_inv w k l mx : calc_inv w -> calc_inv (step w (OCreate k l mx)).
Proof.
  intro Hi. cbn [step]. destruct (tab_find k (w_tab w)) as [q|] eqn:Hf; [exact Hi|].
  apply (inv_after_bump w); try assumption; cbn [updateOneGroupMaxQuota c_tree c_reqLimit c_guaranteed c_version].
  - rewrite map_app. cbn [map fst]. apply NoDup_app_snoc; [apply (inv_nodup w Hi)|].
    apply tab_find_None, Hf.
  - unfold upsert. rewrite (inv_tree w Hi), t_mem_abs, Hf, abs_app. reflexivity.
  - intro k'. rewrite c_get_set, tab_find_app. destruct (k =? k') eqn:E.
    + apply Z.eqb_eq in E. subst k'. rewrite Hf. reflexivity.
    + rewrite (inv_req w Hi k'). destruct (tab_find k' (w_tab w)); reflexivity.
  - (* the guarantee cache is not written on creation: it must hold nothing for this name *)
    intro k'. rewrite tab_find_app, (inv_guar w Hi k'). destruct (k =? k') eqn:E.
    + apply Z.eqb_eq in E. subst k'. rewrite Hf. reflexivity.
    + destruct (tab_find k' (w_tab w)); reflexivity.
  - reflexivity.
  - intros k' q' H. rewrite tab_find_app in H. destruct (tab_find k' (w_tab w)) as [q0|] eqn:E0.
    + inversion H; subst. eapply stamps_le; eassumption.
    + destruct (k =? k'); [|discriminate]. inversion H. cbn. pose proof (inv_pos w Hi). lia.
Qed.

Lemma step_delete_inv w k : calc_inv w -> calc_inv (step w (ODelete k)).
Proof.
  intro Hi. cbn [step]. destruct (tab_find k (w_tab w)) as [q|] eqn:Hf; [|exact Hi].
  apply (inv_after_bump w); try assumption; cbn [deleteOneGroup c_tree c_reqLimit c_guaranteed c_version].
  - apply tab_del_keys_nodup, (inv_nodup w Hi).
  - rewrite (inv_tree w Hi), abs_del. reflexivity.
  - intro k'. rewrite c_get_del, tab_find_del. destruct (k =? k'); [reflexivity|apply (inv_req w Hi)].
  - intro k'. rewrite c_get_del, tab_find_del. destruct (k =? k'); [reflexivity|apply (inv_guar w Hi)].
  - reflexivity.
  - intros k' q' H. rewrite tab_find_del in H. destruct (k =? k'); [discriminate|].
    eapply stamps_le; eassumption.
Qed.

Lemma step_total_inv w t : calc_inv w -> calc_inv (step w (OSetTotal t)).
Proof.
  intro Hi. cbn [step].
  apply (inv_after_bump w); try assumption; cbn [setClusterTotalResource c_tree c_reqLimit c_guaranteed c_version];
    try reflexivity; try apply Hi.
  intros k q H. eapply stamps_le; eassumption.
Qed.

Lemma step_inv w o : calc_inv w -> calc_inv (step w o).
Proof.
  destruct o; intro Hi.
  - apply step_create_inv, Hi.
  - apply step_max_inv, Hi.
  - apply step_min_inv, Hi.
  - apply step_weight_inv, Hi.
  - apply step_req_inv, Hi.
  - apply step_guar_inv, Hi.
  - apply step_delete_inv, Hi.
  - apply step_total_inv, Hi.
  - exact Hi.
Qed.
