(* C02 / manager — resetQuotaNoLock (label edits): rebuilding every calculator from the cleared
   QuotaInfos and replaying every quota's own request re-establishes [minv], whatever the
   calculators and request figures were before (only the tree shape is needed). *)
From Coq Require Import List ZArith Bool Lia Permutation.
From Verif Require Import C02.Model C02.Calc_Model C02.Calc_Proofs_Inv C02.Mgr_Model C02.Mgr_Proofs_Base
  C02.Mgr_Proofs_Inv.
Import ListNotations.
Open Scope Z_scope.

(* what a reset relies on *)
Record pre_inv (st : mgr) : Prop := mkPre {
  pi_nodup : NoDup (map fst (g_quotas st));
  pi_parents : forall k mq, afind k (g_quotas st) = Some mq ->
      m_parent mq <> k /\ (m_parent mq = 0 \/ afind (m_parent mq) (g_quotas st) <> None);
  pi_noroot : afind 0 (g_quotas st) = None }.

Lemma minv_pre st : minv st -> pre_inv st.
Proof. intros [H1 _ H3 H4 _]. constructor; assumption. Qed.

Lemma pre_set_quota st k mq mq' :
  pre_inv st -> afind k (g_quotas st) = Some mq -> m_parent mq' = m_parent mq ->
  pre_inv (set_quota k mq' st).
Proof.
  intros Hi Hf Hpar.
  assert (Hq : g_quotas (set_quota k mq' st) = repl k mq' (g_quotas st)).
  { cbn. apply (aset_live k mq' mq), Hf. }
  assert (Hlive : forall j, afind j (g_quotas st) <> None -> afind j (repl k mq' (g_quotas st)) <> None).
  { intros j Hj. rewrite afind_repl. destruct (k =? j); [|exact Hj].
    destruct (afind j (g_quotas st)); [discriminate|congruence]. }
  constructor; rewrite Hq.
  - rewrite repl_keys. apply (pi_nodup st Hi).
  - intros k' mq0 H0. rewrite afind_repl in H0. destruct (k =? k') eqn:E.
    + apply Z.eqb_eq in E. subst k'. rewrite Hf in H0. cbn in H0. inversion H0; subst mq0.
      rewrite Hpar. destruct (pi_parents st Hi k mq Hf) as [Hn Hp]. split; [exact Hn|].
      destruct Hp as [Hp|Hp]; [left; exact Hp|right; apply Hlive, Hp].
    + destruct (pi_parents st Hi k' mq0 H0) as [Hn Hp]. split; [exact Hn|].
      destruct Hp as [Hp|Hp]; [left; exact Hp|right; apply Hlive, Hp].
  - rewrite afind_repl, (pi_noroot st Hi). destruct (k =? 0); reflexivity.
Qed.

(* ---------- one calculator is rebuilt from its children ---------- *)
Definition cleared_entry (e : Z * mquota) : Z * qinfo := (fst e, cleared (snd e)).

Lemma tab_find_app_l k tb tb' : tab_find k tb = None -> tab_find k (tb ++ tb') = tab_find k tb'.
Proof.
  induction tb as [|p tb IH]; [reflexivity|]. cbn [tab_find app].
  destruct (fst p =? k); [discriminate|exact IH].
Qed.

Lemma tab_upd_last k g q tb :
  ~ In k (map fst tb) -> tab_upd k g (tb ++ [(k, q)]) = tb ++ [(k, g q)].
Proof.
  intro H. unfold tab_upd. rewrite map_app. fold (tab_upd k g tb). rewrite (tab_upd_absent k g tb H).
  cbn [map fst snd]. rewrite Z.eqb_refl. reflexivity.
Qed.

Lemma reinsert_tab w e :
  ~ In (fst e) (map fst (w_tab w)) -> w_tab (reinsert w e) = w_tab w ++ [cleared_entry e].
Proof.
  intro H. destruct e as [k mq]. cbn [fst snd] in *. unfold reinsert. cbn [fst snd].
  assert (Hn : tab_find k (w_tab w) = None) by (apply tab_find_None, H).
  set (l := q_lend (m_info mq)). set (mx := q_max (m_info mq)).
  assert (S1 : w_tab (step w (OCreate k l mx)) = w_tab w ++ [(k, q_new l mx)]).
  { cbn [step]. rewrite Hn. reflexivity. }
  set (w1 := step w (OCreate k l mx)) in *.
  assert (F1 : tab_find k (w_tab w1) = Some (q_new l mx)).
  { rewrite S1, tab_find_app_l by exact Hn. cbn. rewrite Z.eqb_refl. reflexivity. }
  assert (S2 : w_tab (step w1 (OSetMin k (m_min mq))) = w_tab w ++ [(k, q_set_min (m_min mq) (q_new l mx))]).
  { cbn [step]. unfold on_live. rewrite F1. cbn [w_tab]. rewrite S1. apply tab_upd_last, H. }
  set (w2 := step w1 (OSetMin k (m_min mq))) in *.
  assert (F2 : tab_find k (w_tab w2) = Some (q_set_min (m_min mq) (q_new l mx))).
  { rewrite S2, tab_find_app_l by exact Hn. cbn. rewrite Z.eqb_refl. reflexivity. }
  cbn [step]. unfold on_live. rewrite F2. cbn [w_tab]. rewrite S2.
  rewrite tab_upd_last by exact H. reflexivity.
Qed.

Lemma step_total_same w o :
  (forall t, o <> OSetTotal t) -> c_total (w_calc (step w o)) = c_total (w_calc w).
Proof.
  intro H. destruct o; cbn [step]; try (unfold on_live; destruct (tab_find k (w_tab w)); reflexivity).
  - unfold on_live. destruct (tab_find k (w_tab w)); [|reflexivity]. cbn. apply push_request_total.
  - unfold on_live. destruct (tab_find k (w_tab w)); [|reflexivity]. cbn.
    unfold push_guaranteed. destruct (needUpdateOneGroupGuaranteed _ _ _); reflexivity.
  - exfalso. apply (H t). reflexivity.
  - reflexivity.
Qed.

Lemma reinsert_total w e : c_total (w_calc (reinsert w e)) = c_total (w_calc w).
Proof. unfold reinsert. rewrite !step_total_same by (intros t; discriminate). reflexivity. Qed.

Lemma reinsert_inv w e : calc_inv w -> calc_inv (reinsert w e).
Proof. intro H. unfold reinsert. repeat apply step_inv. exact H. Qed.

Lemma fold_reinsert l : forall w,
  calc_inv w -> NoDup (map fst l) -> (forall k, In k (map fst l) -> ~ In k (map fst (w_tab w))) ->
  let w' := fold_left reinsert l w in
  calc_inv w' /\ w_tab w' = w_tab w ++ map cleared_entry l /\ c_total (w_calc w') = c_total (w_calc w).
Proof.
  induction l as [|e l IH]; intros w Hi Hnd Hdis.
  - cbn. rewrite app_nil_r. auto.
  - cbn [fold_left]. cbn [map] in Hnd. inversion Hnd as [|? ? Hnin Hnd']; subst.
    assert (He : ~ In (fst e) (map fst (w_tab w))) by (apply Hdis; left; reflexivity).
    destruct (IH (reinsert w e) (reinsert_inv w e Hi) Hnd') as [H1 [H2 H3]].
    + intros k Hk. rewrite (reinsert_tab w e He), map_app. cbn [map fst cleared_entry].
      intro Hin. apply in_app_or in Hin. destruct Hin as [Hin|[Hin|[]]].
      * apply (Hdis k); [right; exact Hk|exact Hin].
      * apply Hnin. rewrite Hin. exact Hk.
    + cbv zeta. split; [exact H1|]. split.
      * rewrite H2, (reinsert_tab w e He), <- app_assoc. reflexivity.
      * rewrite H3. apply reinsert_total.
Qed.

(* ---------- the rebuilt state ---------- *)
Lemma base_world_inv p st : calc_inv (mkW (base_calc p st) []).
Proof.
  unfold base_calc. destruct (p =? 0); [|apply world0_calc_inv].
  exact (step_inv _ (OSetTotal (g_total st)) world0_calc_inv).
Qed.

Lemma world_for_spec p st :
  NoDup (map fst (g_quotas st)) ->
  calc_inv (world_for p st)
  /\ w_tab (world_for p st) = map cleared_entry (filter (fun e => m_parent (snd e) =? p) (g_quotas st))
  /\ c_total (w_calc (world_for p st)) = c_total (base_calc p st).
Proof.
  intro Hnd. unfold world_for.
  destruct (fold_reinsert (filter (fun e => m_parent (snd e) =? p) (g_quotas st)) (mkW (base_calc p st) [])
              (base_world_inv p st)) as [H1 [H2 H3]].
  - apply NoDup_map_filter, Hnd.
  - intros k _ [].
  - auto.
Qed.

Lemma afind_clear k qs :
  afind k (map clear_quota qs) = option_map (fun mq => snd (clear_quota (k, mq))) (afind k qs).
Proof.
  induction qs as [|e qs IH]; [reflexivity|]. cbn [map afind clear_quota fst snd].
  destruct (fst e =? k) eqn:E; [|exact IH]. reflexivity.
Qed.

Lemma kids_clear p qs :
  kids p (map clear_quota qs) = map cleared_entry (filter (fun e => m_parent (snd e) =? p) qs).
Proof.
  unfold kids. induction qs as [|e qs IH]; [reflexivity|].
  cbn [map filter clear_quota fst snd m_parent]. destruct (m_parent (snd e) =? p); cbn [map]; rewrite IH; reflexivity.
Qed.

Lemma afind_keymap {A B} (F : Z -> B) p (l : list (Z * A)) :
  afind p (map (fun e => (fst e, F (fst e))) l) = match afind p l with Some _ => Some (F p) | None => None end.
Proof.
  induction l as [|e l IH]; [reflexivity|]. cbn [map afind fst snd].
  destruct (fst e =? p) eqn:E; [apply Z.eqb_eq in E; rewrite E; reflexivity|exact IH].
Qed.

Lemma no_orphans st p : pre_inv st -> p <> 0 -> afind p (g_quotas st) = None ->
  filter (fun e => m_parent (snd e) =? p) (g_quotas st) = [].
Proof.
  intros Hi Hp Hf.
  assert (H : forall l, (forall e, In e l -> In e (g_quotas st)) -> filter (fun e => m_parent (snd e) =? p) l = []).
  { induction l as [|e l IH]; intro Hin; [reflexivity|]. cbn [filter].
    destruct (m_parent (snd e) =? p) eqn:E; [|apply IH; intros; apply Hin; right; assumption].
    apply Z.eqb_eq in E. exfalso.
    assert (Hfe : afind (fst e) (g_quotas st) = Some (snd e)).
    { apply In_afind; [apply (pi_nodup st Hi)|]. destruct e; apply Hin; left; reflexivity. }
    destruct (pi_parents st Hi _ _ Hfe) as [_ [H|H]]; congruence. }
  apply H. auto.
Qed.

Lemma get_calc_rebuilt p st : pre_inv st -> get_calc p (rebuilt st) = w_calc (world_for p st).
Proof.
  intro Hi. unfold get_calc, rebuilt. cbn [remake g_calcs].
  change (afind p ((0, w_calc (world_for 0 st)) :: map (fun e => (fst e, w_calc (world_for (fst e) st))) (g_quotas st)))
    with (if 0 =? p then Some (w_calc (world_for 0 st))
          else afind p (map (fun e => (fst e, (fun k => w_calc (world_for k st)) (fst e))) (g_quotas st))).
  destruct (0 =? p) eqn:E; [apply Z.eqb_eq in E; subst p; reflexivity|].
  apply Z.eqb_neq in E. rewrite (afind_keymap (fun k => w_calc (world_for k st))).
  destruct (afind p (g_quotas st)) eqn:Hf; [reflexivity|].
  unfold world_for. rewrite (no_orphans st p Hi ltac:(lia) Hf). cbn. unfold base_calc.
  destruct (p =? 0) eqn:E2; [apply Z.eqb_eq in E2; lia|reflexivity].
Qed.

Lemma rebuilt_inv st : pre_inv st -> minv (rebuilt st).
Proof.
  intro Hi. pose proof (pi_nodup st Hi) as Hnd.
  assert (Hq : g_quotas (rebuilt st) = map clear_quota (g_quotas st)) by reflexivity.
  assert (Hkeys : map fst (map clear_quota (g_quotas st)) = map fst (g_quotas st)).
  { rewrite map_map. reflexivity. }
  constructor.
  - rewrite Hq, Hkeys. exact Hnd.
  - intro p. unfold wld. rewrite (get_calc_rebuilt p st Hi), Hq, kids_clear.
    destruct (world_for_spec p st Hnd) as [H1 [H2 _]]. rewrite <- H2.
    destruct (world_for p st) as [c tb]. exact H1.
  - intros k mq' H. rewrite Hq, afind_clear in H. rewrite Hq.
    destruct (afind k (g_quotas st)) as [mq|] eqn:Hf; [|discriminate]. cbn in H. inversion H. cbn [m_parent].
    destruct (pi_parents st Hi k mq Hf) as [Hn Hp]. split; [exact Hn|].
    destruct Hp as [Hp|Hp]; [left; exact Hp|right]. rewrite afind_clear.
    destruct (afind (m_parent mq) (g_quotas st)); [discriminate|congruence].
  - rewrite Hq, afind_clear, (pi_noroot st Hi). reflexivity.
  - rewrite (get_calc_rebuilt 0 st Hi). destruct (world_for_spec 0 st Hnd) as [_ [_ H3]].
    rewrite H3. reflexivity.
Qed.

Lemma fold_replay_inv l : forall s, minv s -> minv (fold_left replay l s).
Proof.
  induction l as [|e l IH]; intros s Hi; [exact Hi|].
  cbn [fold_left]. apply IH. unfold replay. apply rec_delta_inv, Hi.
Qed.

Theorem reset_inv st : pre_inv st -> minv (reset st).
Proof. intro Hi. unfold reset. apply fold_replay_inv, rebuilt_inv, Hi. Qed.
