(* C02 / manager — the scaled minimums of getScaledMinQuota, evaluated in binary64 exactly as the
   code does (int64(float64(T) * float64(min) / float64(sum))), never add up to more than the total
   that is being divided, for totals up to 2^51 and mins / sums below 2^53 (c02_scaled_min_le for the
   float model; beyond that range float64(int64) itself rounds and the statement is not claimed). *)
From Coq Require Import List ZArith Bool Lia QArith Qpower Qabs Lqa.
From Verif Require Import C09.Model C09.Proofs_Float C09.Proofs_FloatAcc.
From Verif Require Import Lib.ListX C02.Mgr_Model.
Import ListNotations.

Local Open Scope Z_scope.

Lemma rne_zero d : rne 0 d = (0, 0).
Proof. reflexivity. Qed.

Lemma scaled_min_zero T E : scaled_min T 0 E = 0.
Proof.
  unfold scaled_min. destruct (T <=? 0); [reflexivity|]. destruct (0 <? E); [|reflexivity].
  change (f_of_int 0) with (0, 0). destruct (f_of_int T) as [mT eT]. unfold f_mul.
  rewrite Z.mul_0_r, rne_zero. destruct (f_of_int E) as [mE eE]. unfold f_div.
  replace (if mE <? 0 then - 0 else 0) with 0 by (destruct (mE <? 0); reflexivity).
  rewrite rne_zero. apply f_trunc_zero.
Qed.

Lemma f_mul_mant_pos a b : 0 < fst a -> 0 < fst b -> 0 < fst (f_mul a b).
Proof.
  destruct a as [ma ea], b as [mb eb]. cbn [fst]. intros Ha Hb. unfold f_mul.
  assert (Hp : 0 < ma * mb) by nia. unfold rne.
  destruct (ma * mb <? 0) eqn:E; [apply Z.ltb_lt in E; lia|].
  pose proof (rne_pos_mant_pos (ma * mb) 1 Hp ltac:(lia)) as H.
  destruct (rne_pos (ma * mb) 1) as [m e]. exact H.
Qed.

Local Open Scope Q_scope.

Definition c53 : Q := (1 + u53) * (1 + u53).

(* one sibling: scaled * sum <= total * min * (1 + 2^-53)^2 *)
Lemma scaled_term T m E :
  (0 < T < 2 ^ 53)%Z -> (0 <= m < 2 ^ 53)%Z -> (0 < E < 2 ^ 53)%Z ->
  inject_Z (scaled_min T m E) * inject_Z E <= inject_Z T * inject_Z m * c53.
Proof.
  intros HT Hm HE.
  destruct (Z.eq_dec m 0) as [->|Hm0].
  { rewrite scaled_min_zero. change (inject_Z 0) with 0%Q. unfold c53, u53. lra. }
  unfold scaled_min.
  destruct (T <=? 0)%Z eqn:E1; [apply Z.leb_le in E1; lia|].
  destruct (0 <? E)%Z eqn:E2; [|apply Z.ltb_ge in E2; lia].
  destruct (val_of_int T ltac:(lia)) as [Va Pa].
  destruct (val_of_int m ltac:(lia)) as [Vb Pb].
  destruct (val_of_int E ltac:(lia)) as [Vc Pc].
  set (a := f_of_int T) in *. set (b := f_of_int m) in *. set (c := f_of_int E) in *.
  pose proof (val_f_mul a b Pa Pb) as Hx.
  pose proof (f_mul_mant_pos a b Pa Pb) as Px.
  set (x := f_mul a b) in *.
  destruct (val_f_div x c Px Pc) as [[_ Hy] Py].
  set (y := f_div x c) in *.
  pose proof (f_trunc_le_val y ltac:(lia)) as Hs.
  set (s := inject_Z (f_trunc y)) in *.
  pose proof (val_pos c Pc) as Hc0.
  rewrite <- Vc, <- Va, <- Vb.
  assert (H1 : s * val c <= val y * val c) by (apply Qmult_le_compat_r; [exact Hs|lra]).
  assert (Hu : 0 <= 1 + u53) by (unfold u53; lra).
  assert (H2 : val x * (1 + u53) <= val a * val b * (1 + u53) * (1 + u53))
    by (apply Qmult_le_compat_r; [exact Hx|exact Hu]).
  unfold c53. lra.
Qed.

Fixpoint sumQ (l : list Z) : Q := match l with [] => 0 | x :: t => inject_Z x + sumQ t end.

Lemma sumQ_sumZ l : sumQ l == inject_Z (sumZ l).
Proof.
  induction l as [|x l IH]; [reflexivity|].
  cbn [sumQ]. rewrite sumZ_cons, inject_Z_plus, IH. reflexivity.
Qed.

Lemma scaled_sum_Q T E ms :
  (0 < T < 2 ^ 53)%Z -> (0 < E < 2 ^ 53)%Z -> (forall m, In m ms -> (0 <= m < 2 ^ 53)%Z) ->
  sumQ (map (fun m => scaled_min T m E) ms) * inject_Z E <= inject_Z T * sumQ ms * c53.
Proof.
  intros HT HE. induction ms as [|m ms IH]; intro H.
  - cbn. lra.
  - cbn [map sumQ].
    pose proof (scaled_term T m E HT (H m (or_introl eq_refl)) HE) as H1.
    specialize (IH (fun x Hx => H x (or_intror Hx))).
    lra.
Qed.

Local Open Scope Z_scope.

Lemma sumZ_nonneg l : (forall x, In x l -> 0 <= x) -> 0 <= sumZ l.
Proof.
  induction l as [|y l IH]; intro H; [cbn; lia|]. rewrite sumZ_cons.
  assert (0 <= y) by (apply H; left; reflexivity).
  assert (0 <= sumZ l) by (apply IH; intros x Hx; apply H; right; exact Hx). lia.
Qed.

Lemma In_le_sumZ l m : (forall x, In x l -> 0 <= x) -> In m l -> m <= sumZ l.
Proof.
  induction l as [|y l IH]; intros H Hin; [destruct Hin|]. rewrite sumZ_cons.
  assert (0 <= y) by (apply H; left; reflexivity).
  assert (Hl : forall x, In x l -> 0 <= x) by (intros x Hx; apply H; right; exact Hx).
  pose proof (sumZ_nonneg l Hl).
  destruct Hin as [->|Hin]; [lia|]. specialize (IH Hl Hin). lia.
Qed.

(* c02_scaled_min_le, for the binary64 evaluation the code performs *)
Theorem scaled_min_sum_le T ms :
  0 < T <= 2 ^ 51 -> (forall m, In m ms -> 0 <= m) -> sumZ ms < 2 ^ 53 -> T < sumZ ms ->
  sumZ (map (fun m => scaled_min T m (sumZ ms)) ms) <= T.
Proof.
  intros HT Hnn HE Hlt.
  set (E := sumZ ms) in *.
  assert (Hm : forall m, In m ms -> 0 <= m < 2 ^ 53).
  { intros m Hin. split; [apply Hnn, Hin|]. pose proof (In_le_sumZ ms m Hnn Hin). lia. }
  pose proof (scaled_sum_Q T E ms ltac:(lia) ltac:(lia) Hm) as HQ.
  rewrite !sumQ_sumZ in HQ. fold E in HQ.
  set (S := sumZ (map (fun m => scaled_min T m E) ms)) in *.
  (* S * E <= T * E * c53, E > 0, hence S <= T * c53 < T + 1 *)
  destruct (Z_le_gt_dec S T) as [Hle|Hgt]; [exact Hle|exfalso].
  assert (HS : (inject_Z (T + 1) <= inject_Z S)%Q) by (rewrite <- Zle_Qle; lia).
  assert (HEq : (0 < inject_Z E)%Q) by (change 0%Q with (inject_Z 0); rewrite <- Zlt_Qlt; lia).
  assert (HTq : (inject_Z T <= inject_Z (2 ^ 51))%Q) by (rewrite <- Zle_Qle; lia).
  assert (HT0 : (0 < inject_Z T)%Q) by (change 0%Q with (inject_Z 0); rewrite <- Zlt_Qlt; lia).
  rewrite inject_Z_plus in HS. change (inject_Z 1) with 1%Q in HS.
  (* divide by E *)
  assert (H3 : (inject_Z S <= inject_Z T * c53)%Q).
  { apply (Qmult_le_r _ _ (inject_Z E) HEq).
    setoid_replace (inject_Z T * c53 * inject_Z E)%Q with (inject_Z T * inject_Z E * c53)%Q by ring.
    exact HQ. }
  unfold c53, u53 in H3. change (inject_Z (2 ^ 51)) with (2251799813685248 # 1)%Q in HTq.
  lra.
Qed.
