(* C02 / dims — GroupQuotaManager in TWO resource dimensions (cpu in milli-cores, memory in bytes)
   with the feature gate ElasticQuotaGuaranteeUsage as a configuration switch [gate], and pods
   that are reserved / un-reserved (assigned), so that "Used" and, with the gate on, the
   Allocated -> Guaranteed chain (group_quota_manager.go:239 updateGroupDeltaUsedNoLock, :1139
   recursiveUpdateGroupTreeWithDeltaAllocated, :1418 the guarantee part of
   doUpdateOneGroupMinQuotaNoLock) are inside the model.

   Representation: every v1.ResourceList of the code is a pair of integers; the cpu halves of all
   QuotaInfos and calculators live in one Mgr_Model.mgr value ([d_cpu]), the memory halves in
   another ([d_mem]) — a struct of arrays.  What the code keeps ONCE for all dimensions (parent,
   isParent, AllowLent, RuntimeVersion, globalRuntimeVersion, the PodCache) is written to both
   halves in lock-step.  Every place where the code looks at the dimensions TOGETHER is
   transcribed as such:
     needUpdateOneGroupRequest / needUpdateOneGroupGuaranteed   true as soon as ANY dimension
        differs; updateOneGroupRequest / updateOneGroupGuaranteed then rewrite ALL dimensions;
     quotav1.IsZero(delta) / quotav1.Equals(old, new)           all dimensions zero / equal;
     extension.GetSharedWeight                                  "same as max" only if the whole
        annotation is zero.
   Everything else is the per-dimension code of Mgr_Model.v / Calc_Model.v.  Min-quota scaling off,
   parent / isParent / allowLent of a live quota never change (no resetQuotaNoLock) in this stream.

   [fxd] = false is the code as it is: DeleteQuota hands the deleted quota's USED to the ancestors'
   Allocated (deleteQuotaNoLock -> updateGroupDeltaUsedNoLock), although what they were given is
   its GUARANTEED = max(Allocated, Min) (findings/C02-delete-keeps-guarantee.md); [fxd] = true takes
   the Guaranteed back.  Executable, no proofs. *)
From Coq Require Import List ZArith Bool.
From Verif Require Import C02.Model C02.Calc_Model C02.Mgr_Model.
Import ListNotations.
Open Scope Z_scope.

Record dpod := mkPod { p_quota : Z; p_slot : Z; p_cpu : Z; p_mem : Z; p_assigned : bool }.

Record dmgr := mkD {
  d_cpu : mgr;                       (* the cpu half (g_pods unused) *)
  d_mem : mgr;                       (* the memory half *)
  d_alloc : list (Z * (Z * Z));      (* CalculateInfo.Allocated of every quota; absent = zero *)
  d_pods : list dpod }.              (* the PodCaches *)

Definition dmgr0 : dmgr := mkD mgr0 mgr0 [] [].

Definition alloc_of (k : Z) (st : dmgr) : Z * Z :=
  match afind k (d_alloc st) with Some a => a | None => (0, 0) end.

(* ---------- the joint "need -> update" pairs ---------- *)
Definition force_request (b : bool) (k : Z) (q : qinfo) (c : calc) : calc :=
  if b then updateOneGroupRequest k q c else c.
Definition force_guaranteed (b : bool) (k : Z) (q : qinfo) (c : calc) : calc :=
  if b then updateOneGroupGuaranteed k q c else c.

(* ---------- recursiveUpdateGroupTreeWithDeltaRequest, both dimensions ---------- *)
Definition req_figures (mq : mquota) (delta : Z) : mquota :=
  let cr := Z.max 0 (m_childReq mq + delta) in
  mkMQ (m_parent mq) (m_isParent mq) (q_set_req (real_request mq cr) (m_info mq)) (m_min mq) cr.

Fixpoint rec_delta2 (pth : list Z) (d1 d2 : Z) (s1 s2 : mgr) : mgr * mgr :=
  match pth with
  | [] => (s1, s2)
  | k :: rest =>
      match afind k (g_quotas s1), afind k (g_quotas s2) with
      | Some m1, Some m2 =>
          let m1' := req_figures m1 d1 in
          let m2' := req_figures m2 d2 in
          let nd := needUpdateOneGroupRequest k (m_info m1') (get_calc (m_parent m1) s1)
                    || needUpdateOneGroupRequest k (m_info m2') (get_calc (m_parent m2) s2) in
          let s1' := upd_calc (m_parent m1) (force_request nd k (m_info m1')) (set_quota k m1' s1) in
          let s2' := upd_calc (m_parent m2) (force_request nd k (m_info m2')) (set_quota k m2' s2) in
          rec_delta2 rest (limit_req (m_info m1') - limit_req (m_info m1))
                          (limit_req (m_info m2') - limit_req (m_info m2)) s1' s2'
      | _, _ => (s1, s2)
      end
  end.

Definition with_halves (st : dmgr) (p : mgr * mgr) : dmgr := mkD (fst p) (snd p) (d_alloc st) (d_pods st).

(* updateGroupDeltaRequestNoLock(k, delta) *)
Definition request_walk (k : Z) (d1 d2 : Z) (st : dmgr) : dmgr :=
  with_halves st (rec_delta2 (path k (d_cpu st)) d1 d2 (d_cpu st) (d_mem st)).

(* ---------- recursiveUpdateGroupTreeWithDeltaAllocated, both dimensions (gate on) ----------
   Allocated += delta (clamped at zero); Guaranteed := max(Allocated, Min); pushed to the parent's
   calculator when any dimension differs from its cache; what goes up is the change of Guaranteed *)
Fixpoint rec_alloc2 (pth : list Z) (d1 d2 : Z) (st : dmgr) : dmgr :=
  match pth with
  | [] => st
  | k :: rest =>
      match afind k (g_quotas (d_cpu st)), afind k (g_quotas (d_mem st)) with
      | Some m1, Some m2 =>
          let a := alloc_of k st in
          let a1 := Z.max 0 (fst a + d1) in
          let a2 := Z.max 0 (snd a + d2) in
          let g1 := Z.max a1 (m_min m1) in
          let g2 := Z.max a2 (m_min m2) in
          let q1 := q_set_guar g1 (m_info m1) in
          let q2 := q_set_guar g2 (m_info m2) in
          let nd := needUpdateOneGroupGuaranteed k q1 (get_calc (m_parent m1) (d_cpu st))
                    || needUpdateOneGroupGuaranteed k q2 (get_calc (m_parent m2) (d_mem st)) in
          let s1' := upd_calc (m_parent m1) (force_guaranteed nd k q1) (set_quota k (with_info m1 q1) (d_cpu st)) in
          let s2' := upd_calc (m_parent m2) (force_guaranteed nd k q2) (set_quota k (with_info m2 q2) (d_mem st)) in
          rec_alloc2 rest (g1 - q_guar (m_info m1)) (g2 - q_guar (m_info m2))
                     (mkD s1' s2' (aset k (a1, a2) (d_alloc st)) (d_pods st))
      | _, _ => st
      end
  end.

(* updateGroupDeltaUsedNoLock(k, delta): Used itself is not an input of the division; with the gate
   on the delta goes into Allocated along the path *)
Definition used_walk (gate : bool) (k : Z) (d1 d2 : Z) (st : dmgr) : dmgr :=
  if gate then rec_alloc2 (path k (d_cpu st)) d1 d2 st else st.

(* ---------- doUpdateOneGroupMaxQuotaNoLock ---------- *)
Definition do_max2 (k v1 v2 : Z) (st : dmgr) : dmgr :=
  match afind k (g_quotas (d_cpu st)), afind k (g_quotas (d_mem st)) with
  | Some m1, Some m2 =>
      let q1 := q_set_max v1 (m_info m1) in
      let q2 := q_set_max v2 (m_info m2) in
      let s1 := upd_calc (m_parent m1) (updateOneGroupMaxQuota k q1) (set_quota k (with_info m1 q1) (d_cpu st)) in
      let s2 := upd_calc (m_parent m2) (updateOneGroupMaxQuota k q2) (set_quota k (with_info m2 q2) (d_mem st)) in
      with_halves st (rec_delta2 (path (m_parent m1) s1)
                                 (limit_req q1 - limit_req (m_info m1)) (limit_req q2 - limit_req (m_info m2)) s1 s2)
  | _, _ => st
  end.

(* ---------- doUpdateOneGroupMinQuotaNoLock ---------- *)
Definition min_figures (mq : mquota) (v : Z) : mquota :=
  let mq1 := mkMQ (m_parent mq) (m_isParent mq) (q_set_min v (m_info mq)) v (m_childReq mq) in
  with_info mq1 (q_set_req (real_request mq1 (m_childReq mq)) (q_set_min v (m_info mq))).

Definition do_min2 (gate : bool) (k v1 v2 : Z) (st : dmgr) : dmgr :=
  match afind k (g_quotas (d_cpu st)), afind k (g_quotas (d_mem st)) with
  | Some m1, Some m2 =>
      let m1' := min_figures m1 v1 in
      let m2' := min_figures m2 v2 in
      (* the min, then (cf84410) the request through need… / update… *)
      let c1 := updateOneGroupMinQuota k (m_info m1') (get_calc (m_parent m1) (d_cpu st)) in
      let c2 := updateOneGroupMinQuota k (m_info m2') (get_calc (m_parent m2) (d_mem st)) in
      let nd := needUpdateOneGroupRequest k (m_info m1') c1 || needUpdateOneGroupRequest k (m_info m2') c2 in
      let s1 := upd_calc (m_parent m1) (fun c => force_request nd k (m_info m1') (updateOneGroupMinQuota k (m_info m1') c))
                         (set_quota k m1' (d_cpu st)) in
      let s2 := upd_calc (m_parent m2) (fun c => force_request nd k (m_info m2') (updateOneGroupMinQuota k (m_info m2') c))
                         (set_quota k m2' (d_mem st)) in
      let st1 := with_halves st (rec_delta2 (path (m_parent m1) s1)
                                   (limit_req (m_info m1') - limit_req (m_info m1))
                                   (limit_req (m_info m2') - limit_req (m_info m2)) s1 s2) in
      if negb gate then st1 else
      (* the guarantee: Guaranteed := max(Allocated, Min), pushed, its change handed to the ancestors *)
      match afind k (g_quotas (d_cpu st1)), afind k (g_quotas (d_mem st1)) with
      | Some n1, Some n2 =>
          let a := alloc_of k st1 in
          let g1 := Z.max (fst a) v1 in
          let g2 := Z.max (snd a) v2 in
          let q1 := q_set_guar g1 (m_info n1) in
          let q2 := q_set_guar g2 (m_info n2) in
          let ndg := needUpdateOneGroupGuaranteed k q1 (get_calc (m_parent n1) (d_cpu st1))
                     || needUpdateOneGroupGuaranteed k q2 (get_calc (m_parent n2) (d_mem st1)) in
          let t1 := upd_calc (m_parent n1) (force_guaranteed ndg k q1) (set_quota k (with_info n1 q1) (d_cpu st1)) in
          let t2 := upd_calc (m_parent n2) (force_guaranteed ndg k q2) (set_quota k (with_info n2 q2) (d_mem st1)) in
          rec_alloc2 (path (m_parent n1) t1) (g1 - q_guar (m_info n1)) (g2 - q_guar (m_info n2))
                     (mkD t1 t2 (d_alloc st1) (d_pods st1))
      | _, _ => st1
      end
  | _, _ => st
  end.

(* ---------- doUpdateOneGroupSharedWeightNoLock ---------- *)
Definition do_weight2 (k v1 v2 : Z) (st : dmgr) : dmgr :=
  mkD (do_weight k v1 (d_cpu st)) (do_weight k v2 (d_mem st)) (d_alloc st) (d_pods st).

(* extension.GetSharedWeight: "same as max" only when the whole annotation is zero *)
Definition eff_weight2 (mx1 mx2 w1 w2 : Z) : Z * Z :=
  if (w1 =? 0) && (w2 =? 0) then (mx1, mx2) else (w1, w2).

(* ---------- UpdateQuota ---------- *)
Definition add_quota (k par : Z) (isPar lnd : bool) (s : mgr) : mgr :=
  remake s (g_total s) (g_quotas s ++ [(k, mkMQ par isPar (q_new lnd 0) 0 0)]) (aset k calc0 (g_calcs s)) (g_pods s).

Definition parent_live (par : Z) (s : mgr) : bool :=
  match afind par (g_quotas s) with Some p => m_isParent p | None => false end.

Definition update_quota2 (gate : bool) (k par : Z) (isPar lnd : bool) (mx1 mx2 mn1 mn2 w1 w2 : Z) (st : dmgr) : dmgr :=
  let ew := eff_weight2 mx1 mx2 w1 w2 in
  match afind k (g_quotas (d_cpu st)), afind k (g_quotas (d_mem st)) with
  | Some m1, Some m2 =>
      (* live: parent and labels as they are (never changed in this stream); updateQuotaInternalNoLock *)
      let st1 := if (q_max (m_info m1) =? mx1) && (q_max (m_info m2) =? mx2) then st else do_max2 k mx1 mx2 st in
      let st2 := if (m_min m1 =? mn1) && (m_min m2 =? mn2) then st1 else do_min2 gate k mn1 mn2 st1 in
      if (q_weight (m_info m1) =? fst ew) && (q_weight (m_info m2) =? snd ew) then st2
      else do_weight2 k (fst ew) (snd ew) st2
  | None, None =>
      let parent_ok := (par =? 0) || (parent_live par (d_cpu st) && parent_live par (d_mem st)) in
      if negb parent_ok || (k =? 0) then st else
      (* NewQuotaInfoFromQuota: with the gate on nobody lends *)
      let lnd' := if gate then false else lnd in
      let st1 := mkD (add_quota k par isPar lnd' (d_cpu st)) (add_quota k par isPar lnd' (d_mem st)) (d_alloc st) (d_pods st) in
      do_weight2 k (fst ew) (snd ew) (do_min2 gate k mn1 mn2 (do_max2 k mx1 mx2 st1))
  | _, _ => st
  end.

(* ---------- pods ---------- *)
Definition pod_is (k s : Z) (p : dpod) : bool := (p_quota p =? k) && (p_slot p =? s).
Definition pod_find2 (k s : Z) (st : dmgr) : option dpod :=
  match filter (pod_is k s) (d_pods st) with p :: _ => Some p | [] => None end.
Definition set_pods (ps : list dpod) (st : dmgr) : dmgr := mkD (d_cpu st) (d_mem st) (d_alloc st) ps.
Definition del_pod (k s : Z) (st : dmgr) : dmgr := set_pods (filter (fun p => negb (pod_is k s p)) (d_pods st)) st.
Definition put_pod (p : dpod) (st : dmgr) : dmgr :=
  set_pods (filter (fun x => negb (pod_is (p_quota p) (p_slot p) x)) (d_pods st) ++ [p]) st.

(* updatePodRequestNoLock / updatePodUsedNoLock: nothing happens for an all-zero delta *)
Definition pod_request (k d1 d2 : Z) (st : dmgr) : dmgr :=
  if (d1 =? 0) && (d2 =? 0) then st else request_walk k d1 d2 st.
Definition pod_used (gate : bool) (k d1 d2 : Z) (st : dmgr) : dmgr :=
  if (d1 =? 0) && (d2 =? 0) then st else used_walk gate k d1 d2 st.

(* OnPodDelete *)
Definition pod_leave (gate : bool) (k s : Z) (st : dmgr) : dmgr :=
  match pod_find2 k s st with
  | None => st
  | Some p =>
      let st1 := pod_request k (- p_cpu p) (- p_mem p) st in
      let st2 := if p_assigned p then pod_used gate k (- p_cpu p) (- p_mem p) st1 else st1 in
      del_pod k s st2
  end.

(* OnPodAdd (Spec.NodeName set: assigned at once) *)
Definition pod_arrive (gate : bool) (k s c m : Z) (asg : bool) (st : dmgr) : dmgr :=
  let st1 := pod_request k c m (put_pod (mkPod k s c m false) st) in
  if asg then pod_used gate k c m (put_pod (mkPod k s c m true) st1) else st1.

(* harness op 2: the pod of (k, slot) leaves, one requesting (c, m) arrives unless both are zero *)
Definition pod_set2 (gate : bool) (k s c m : Z) (asg : bool) (st : dmgr) : dmgr :=
  match afind k (g_quotas (d_cpu st)) with
  | None => st
  | Some mq =>
      if m_isParent mq then st else
      let st1 := pod_leave gate k s st in
      if (c =? 0) && (m =? 0) then st1 else pod_arrive gate k s c m asg st1
  end.

(* OnPodUpdate(k, k, new, old) of a pod that is known and stays in its quota (in-place resize) *)
Definition pod_resize (gate : bool) (k s c m : Z) (st : dmgr) : dmgr :=
  match pod_find2 k s st with
  | None => st
  | Some p =>
      let st1 := pod_request k (c - p_cpu p) (m - p_mem p) (put_pod (mkPod k s c m (p_assigned p)) st) in
      if p_assigned p then pod_used gate k (c - p_cpu p) (m - p_mem p) st1 else st1
  end.

(* ReservePod / UnreservePod *)
Definition pod_reserve (gate : bool) (k s : Z) (st : dmgr) : dmgr :=
  match pod_find2 k s st with
  | Some p => if p_assigned p then st
              else pod_used gate k (p_cpu p) (p_mem p) (put_pod (mkPod k s (p_cpu p) (p_mem p) true) st)
  | None => st
  end.
Definition pod_unreserve (gate : bool) (k s : Z) (st : dmgr) : dmgr :=
  match pod_find2 k s st with
  | Some p => if p_assigned p
              then put_pod (mkPod k s (p_cpu p) (p_mem p) false) (pod_used gate k (- p_cpu p) (- p_mem p) st)
              else st
  | None => st
  end.

(* CalculateInfo.Used of a quota without children: its assigned pods *)
Definition used_of (k : Z) (st : dmgr) : Z * Z :=
  let ps := filter (fun p => (p_quota p =? k) && p_assigned p) (d_pods st) in
  (sumZ (map p_cpu ps), sumZ (map p_mem ps)).

(* ---------- DeleteQuota (quotas without children) ---------- *)
Definition drop_quota (k par : Z) (s : mgr) : mgr :=
  upd_calc par (deleteOneGroup k) (remake s (g_total s) (adel k (g_quotas s)) (adel k (g_calcs s)) (g_pods s)).

Definition delete_quota2 (gate fxd : bool) (k : Z) (st : dmgr) : dmgr :=
  match afind k (g_quotas (d_cpu st)), afind k (g_quotas (d_mem st)) with
  | Some m1, Some m2 =>
      if has_children k (d_cpu st) || has_children k (d_mem st) then st else
      let u := used_of k st in
      let st1 := mkD (drop_quota k (m_parent m1) (d_cpu st)) (drop_quota k (m_parent m2) (d_mem st))
                     (adel k (d_alloc st)) (filter (fun p => negb (p_quota p =? k)) (d_pods st)) in
      let r1 := limit_req (m_info m1) in
      let r2 := limit_req (m_info m2) in
      let st2 := if (r1 =? 0) && (r2 =? 0) then st1 else request_walk (m_parent m1) (- r1) (- r2) st1 in
      if fxd then used_walk gate (m_parent m1) (- q_guar (m_info m1)) (- q_guar (m_info m2)) st2
      else if (fst u =? 0) && (snd u =? 0) then st2
      else used_walk gate (m_parent m1) (- fst u) (- snd u) st2
  | _, _ => st
  end.

(* ---------- UpdateClusterTotalResource ---------- *)
Definition force_total (t : Z) (s : mgr) : mgr :=
  upd_calc 0 (setClusterTotalResource t) (mkM t (g_quotas s) (g_calcs s) (g_pods s) true).
Definition set_total2 (t1 t2 : Z) (st : dmgr) : dmgr :=
  if (t1 =? g_total (d_cpu st)) && (t2 =? g_total (d_mem st)) then st
  else mkD (force_total t1 (d_cpu st)) (force_total t2 (d_mem st)) (d_alloc st) (d_pods st).

(* ---------- RefreshRuntime: the version stamps are common to the dimensions and move in
   lock-step, so the walk is the per-dimension walk of Mgr_Model.refresh in both halves ---------- *)
Definition refresh2 (k : Z) (st : dmgr) : dmgr :=
  mkD (refresh false k (d_cpu st)) (refresh false k (d_mem st)) (d_alloc st) (d_pods st).

Inductive dop :=
| DUpdate (k par : Z) (isPar lnd : bool) (mx1 mx2 mn1 mn2 w1 w2 : Z)
| DDelete (k : Z)
| DPod (k s c m : Z) (asg : bool)
| DTotal (t1 t2 : Z)
| DNoop
| DReserve (k s : Z)
| DUnreserve (k s : Z)
| DResize (k s c m : Z).

Definition dstep (gate fxd : bool) (st : dmgr) (o : dop) : dmgr :=
  match o with
  | DUpdate k par isPar lnd mx1 mx2 mn1 mn2 w1 w2 => update_quota2 gate k par isPar lnd mx1 mx2 mn1 mn2 w1 w2 st
  | DDelete k => delete_quota2 gate fxd k st
  | DPod k s c m asg => pod_set2 gate k s c m asg st
  | DTotal t1 t2 => set_total2 t1 t2 st
  | DNoop => st
  | DReserve k s => pod_reserve gate k s st
  | DUnreserve k s => pod_unreserve gate k s st
  | DResize k s c m => pod_resize gate k s c m st
  end.

(* after every op: RefreshRuntime of the quotas 1..K in name order; cpu (milli) and memory of each,
   -1 -1 for a name that is not live *)
Definition runtime_in (k : Z) (s : mgr) : Z :=
  match afind k (g_quotas s) with Some mq => q_runtime (m_info mq) | None => -1 end.

Fixpoint dobserve (ks : list Z) (st : dmgr) : dmgr * list Z :=
  match ks with
  | [] => (st, [])
  | k :: t =>
      match afind k (g_quotas (d_cpu st)) with
      | None => let '(st', o) := dobserve t st in (st', -1 :: -1 :: o)
      | Some _ =>
          let st1 := refresh2 k st in
          let '(st', o) := dobserve t st1 in
          (st', runtime_in k (d_cpu st1) :: runtime_in k (d_mem st1) :: o)
      end
  end.

Fixpoint drun_obs (gate fxd : bool) (K : nat) (st : dmgr) (ops : list dop) : list Z :=
  match ops with
  | [] => []
  | o :: t => let '(st', obs) := dobserve (ids K) (dstep gate fxd st o) in obs ++ drun_obs gate fxd K st' t
  end.

Definition dostep (gate fxd : bool) (K : nat) (st : dmgr) (o : dop) : dmgr :=
  fst (dobserve (ids K) (dstep gate fxd st o)).
Definition drun (gate fxd : bool) (K : nat) (ops : list dop) : dmgr := fold_left (dostep gate fxd K) ops dmgr0.
