(* C02 / manager — every calculator of the quota tree, together with the QuotaInfo figures of
   the quotas whose parent it serves, is a Calc_Model world; the manager's primitives act on these
   worlds as Calc_Model ops.  This file: association lists, the per-parent worlds, and how
   [set_quota] / [upd_calc] change them. *)
From Coq Require Import List ZArith Bool Lia Permutation.
From Verif Require Import C02.Model C02.Calc_Model C02.Calc_Proofs_Inv C02.Mgr_Model.
Import ListNotations.
Open Scope Z_scope.

(* ---------- association lists ---------- *)
Definition repl {A} (k : Z) (v : A) (l : list (Z * A)) : list (Z * A) :=
  map (fun p => if fst p =? k then (k, v) else p) l.

Lemma afind_In {A} k (v : A) l : afind k l = Some v -> In (k, v) l.
Proof.
  induction l as [|p l IH]; [discriminate|]. cbn [afind].
  destruct (fst p =? k) eqn:E.
  - intro H. inversion H. apply Z.eqb_eq in E. left. destruct p; cbn in *; congruence.
  - intro H. right. apply IH, H.
Qed.

Lemma In_afind {A} k (v : A) l : NoDup (map fst l) -> In (k, v) l -> afind k l = Some v.
Proof.
  induction l as [|p l IH]; intros Hnd Hin; [destruct Hin|].
  cbn [map] in Hnd. inversion Hnd as [|? ? Hnin Hnd']; subst.
  cbn [afind]. destruct Hin as [->|Hin].
  - cbn [fst snd]. rewrite Z.eqb_refl. reflexivity.
  - destruct (fst p =? k) eqn:E; [|apply IH; assumption].
    apply Z.eqb_eq in E. exfalso. apply Hnin. rewrite E.
    change k with (fst (k, v)). apply in_map, Hin.
Qed.

Lemma afind_None {A} k (l : list (Z * A)) : afind k l = None <-> ~ In k (map fst l).
Proof.
  induction l as [|p l IH]; [cbn; tauto|]. cbn [afind map].
  destruct (fst p =? k) eqn:E.
  - apply Z.eqb_eq in E. split; [discriminate|]. intro H. exfalso. apply H. left. exact E.
  - apply Z.eqb_neq in E. rewrite IH. split.
    + intros H [H1|H1]; [exact (E H1)|exact (H H1)].
    + intros H H1. apply H. right. exact H1.
Qed.

Lemma existsb_afind {A} k (l : list (Z * A)) :
  existsb (fun p => fst p =? k) l = match afind k l with Some _ => true | None => false end.
Proof.
  induction l as [|p l IH]; [reflexivity|]. cbn [existsb afind].
  destruct (fst p =? k); [reflexivity|exact IH].
Qed.

Lemma aset_live {A} k (v v0 : A) l : afind k l = Some v0 -> aset k v l = repl k v l.
Proof. intro H. unfold aset. rewrite existsb_afind, H. reflexivity. Qed.

Lemma aset_dead {A} k (v : A) l : afind k l = None -> aset k v l = l ++ [(k, v)].
Proof. intro H. unfold aset. rewrite existsb_afind, H. reflexivity. Qed.

Lemma afind_repl {A} k (v : A) k' l :
  afind k' (repl k v l) = if k =? k' then option_map (fun _ => v) (afind k' l) else afind k' l.
Proof.
  induction l as [|p l IH]; [cbn; destruct (k =? k'); reflexivity|].
  cbn [repl map afind]. fold (repl k v l).
  destruct (fst p =? k) eqn:E1; cbn [fst snd].
  - apply Z.eqb_eq in E1. rewrite E1. destruct (k =? k') eqn:E2; [reflexivity|]. exact IH.
  - destruct (fst p =? k') eqn:E2; [|exact IH].
    apply Z.eqb_eq in E2. apply Z.eqb_neq in E1. rewrite <- E2.
    destruct (k =? fst p) eqn:E3; [apply Z.eqb_eq in E3; congruence|reflexivity].
Qed.

Lemma afind_app {A} k (v : A) k' l :
  afind k' (l ++ [(k, v)]) =
  match afind k' l with Some x => Some x | None => if k =? k' then Some v else None end.
Proof.
  induction l as [|p l IH]; [reflexivity|].
  rewrite <- app_comm_cons. cbn [afind]. destruct (fst p =? k'); [reflexivity|exact IH].
Qed.

Lemma afind_aset {A} k (v : A) k' l : afind k' (aset k v l) = if k =? k' then Some v else afind k' l.
Proof.
  destruct (afind k l) as [v0|] eqn:E.
  - rewrite (aset_live k v v0 l E), afind_repl. destruct (k =? k') eqn:E2; [|reflexivity].
    apply Z.eqb_eq in E2. subst k'. rewrite E. reflexivity.
  - rewrite (aset_dead k v l E), afind_app. destruct (k =? k') eqn:E2.
    + apply Z.eqb_eq in E2. subst k'. rewrite E. reflexivity.
    + destruct (afind k' l); reflexivity.
Qed.

Lemma afind_adel {A} k k' (l : list (Z * A)) :
  afind k' (adel k l) = if k =? k' then None else afind k' l.
Proof.
  induction l as [|p l IH]; [cbn; destruct (k =? k'); reflexivity|].
  unfold adel in *. cbn [filter afind]. destruct (fst p =? k) eqn:E; cbn [negb].
  - rewrite IH. apply Z.eqb_eq in E. rewrite E. destruct (k =? k'); reflexivity.
  - cbn [afind]. rewrite IH. destruct (fst p =? k') eqn:E2; [|reflexivity].
    apply Z.eqb_eq in E2. apply Z.eqb_neq in E. rewrite <- E2.
    destruct (k =? fst p) eqn:E3; [apply Z.eqb_eq in E3; congruence|reflexivity].
Qed.

Lemma repl_keys {A} k (v : A) l : map fst (repl k v l) = map fst l.
Proof.
  unfold repl. rewrite map_map. apply map_ext_in. intros p _.
  destruct (fst p =? k) eqn:E; [apply Z.eqb_eq in E; cbn; congruence|reflexivity].
Qed.

(* ---------- the world of calculator p ---------- *)
Definition kids (p : Z) (qs : list (Z * mquota)) : table :=
  map (fun e => (fst e, m_info (snd e))) (filter (fun e => m_parent (snd e) =? p) qs).

Definition wld (p : Z) (st : mgr) : world := mkW (get_calc p st) (kids p (g_quotas st)).

Lemma kids_keys_incl p qs k : In k (map fst (kids p qs)) -> In k (map fst qs).
Proof.
  unfold kids. rewrite map_map. cbn [fst]. intro H. apply in_map_iff in H.
  destruct H as [e [<- He]]. apply filter_In in He. apply in_map, He.
Qed.

Lemma kids_nodup p qs : NoDup (map fst qs) -> NoDup (map fst (kids p qs)).
Proof.
  intro H. unfold kids. rewrite map_map. cbn [fst]. apply NoDup_map_filter, H.
Qed.

Lemma kids_find p qs k :
  NoDup (map fst qs) ->
  tab_find k (kids p qs) =
  match afind k qs with
  | Some mq => if m_parent mq =? p then Some (m_info mq) else None
  | None => None
  end.
Proof.
  induction qs as [|e qs IH]; intro Hnd; [reflexivity|].
  cbn [map] in Hnd. inversion Hnd as [|? ? Hnin Hnd']; subst.
  unfold kids in *. cbn [filter afind]. destruct (fst e =? k) eqn:Ek.
  - apply Z.eqb_eq in Ek. destruct (m_parent (snd e) =? p) eqn:Ep.
    + cbn [map tab_find fst snd]. rewrite Ek, Z.eqb_refl. reflexivity.
    + specialize (IH Hnd'). rewrite IH.
      destruct (afind k qs) as [mq|] eqn:E; [|reflexivity].
      exfalso. apply Hnin. rewrite Ek. apply afind_In in E.
      change k with (fst (k, mq)). apply in_map, E.
  - destruct (m_parent (snd e) =? p).
    + cbn [map tab_find fst snd]. rewrite Ek. apply IH, Hnd'.
    + apply IH, Hnd'.
Qed.

Lemma tab_upd_absent k g tb : ~ In k (map fst tb) -> tab_upd k g tb = tb.
Proof.
  intro H. unfold tab_upd. rewrite <- (map_id tb) at 2. apply map_ext_in. intros p Hp.
  destruct (fst p =? k) eqn:E; [|reflexivity].
  apply Z.eqb_eq in E. exfalso. apply H. rewrite <- E. apply in_map, Hp.
Qed.

Lemma tab_upd_const k g q tb :
  (forall q', In (k, q') tb -> q' = q) -> tab_upd k g tb = tab_upd k (fun _ => g q) tb.
Proof.
  intro H. unfold tab_upd. apply map_ext_in. intros p Hp.
  destruct (fst p =? k) eqn:E; [|reflexivity].
  apply Z.eqb_eq in E. rewrite (H (snd p)); [reflexivity|]. rewrite <- E. destruct p; exact Hp.
Qed.

(* replacing quota k's record (same parent) rewrites its entry in its parent's table *)
Lemma kids_repl p k mq' qs :
  (forall e, In e qs -> fst e = k -> m_parent (snd e) = m_parent mq') ->
  kids p (repl k mq' qs) = tab_upd k (fun _ => m_info mq') (kids p qs).
Proof.
  induction qs as [|e qs IH]; intro H; [reflexivity|].
  unfold kids, repl in *. cbn [map filter].
  destruct (fst e =? k) eqn:Ek; cbn [snd].
  - apply Z.eqb_eq in Ek. rewrite <- (H e (or_introl eq_refl) Ek).
    destruct (m_parent (snd e) =? p); cbn [map tab_upd fst snd].
    + rewrite Ek, Z.eqb_refl. cbn [fst]. f_equal. apply IH. intros; apply H; cbn; auto.
    + apply IH. intros; apply H; cbn; auto.
  - destruct (m_parent (snd e) =? p); cbn [map tab_upd fst snd].
    + rewrite Ek. f_equal. apply IH. intros; apply H; cbn; auto.
    + apply IH. intros; apply H; cbn; auto.
Qed.

Lemma kids_app p qs k mq :
  kids p (qs ++ [(k, mq)]) = kids p qs ++ (if m_parent mq =? p then [(k, m_info mq)] else []).
Proof.
  unfold kids. rewrite filter_app, map_app. cbn [filter snd].
  destruct (m_parent mq =? p); reflexivity.
Qed.

Lemma kids_adel p k qs : kids p (adel k qs) = tab_del k (kids p qs).
Proof.
  unfold kids, adel, tab_del. rewrite filter_map_comm. cbn [fst]. f_equal.
  induction qs as [|e qs IH]; [reflexivity|].
  cbn [filter]. destruct (fst e =? k) eqn:E1, (m_parent (snd e) =? p) eqn:E2; cbn [negb filter];
    rewrite ?E1, ?E2; cbn [negb]; rewrite ?IH; reflexivity.
Qed.

Lemma filter_all_true {A} (g : A -> bool) l : (forall x, In x l -> g x = true) -> filter g l = l.
Proof.
  induction l as [|x l IH]; intro H; [reflexivity|].
  cbn [filter]. rewrite (H x) by (cbn; auto). rewrite IH by (intros; apply H; cbn; auto). reflexivity.
Qed.

Lemma tab_del_absent k tb : ~ In k (map fst tb) -> tab_del k tb = tb.
Proof.
  intro H. unfold tab_del. apply filter_all_true. intros p Hp.
  destruct (fst p =? k) eqn:E; [|reflexivity].
  apply Z.eqb_eq in E. exfalso. apply H. rewrite <- E. apply in_map, Hp.
Qed.

(* ---------- state updates ---------- *)
Lemma get_calc_upd p p' f st :
  get_calc p (upd_calc p' f st) = if p' =? p then f (get_calc p' st) else get_calc p st.
Proof.
  unfold get_calc, upd_calc, set_calc, remake. cbn [g_calcs]. rewrite afind_aset.
  destruct (p' =? p); reflexivity.
Qed.

Lemma quotas_upd_calc p f st : g_quotas (upd_calc p f st) = g_quotas st.
Proof. reflexivity. Qed.

Lemma total_upd_calc p f st : g_total (upd_calc p f st) = g_total st.
Proof. reflexivity. Qed.

Lemma get_calc_set_quota p k mq st : get_calc p (set_quota k mq st) = get_calc p st.
Proof. reflexivity. Qed.
