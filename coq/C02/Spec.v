(* C02 — the property as a Prop over (inputs, observables) and its boolean decision
   procedure [prop_code] (0 = holds; otherwise the number of the first failing clause).
   An observable is the list of runtime quotas in ascending order of name rank 1..k. *)
From Coq Require Import List ZArith Bool.
From Verif Require Import C02.Model.
Import ListNotations.
Open Scope Z_scope.

Definition obs_get (obs : list Z) (n : node) : Z := nth (Z.to_nat (nm n) - 1) obs (-1).

(* clause 1/2: per-sibling bounds *)
Definition bounds_ok (obs : list Z) (n : node) : Prop :=
  let r := obs_get obs n in
  Z.min (request n) (eff_min n) <= r <= Z.max (request n) (eff_min n)
  /\ (lend n = false -> eff_min n <= r).
Definition bounds_okb (obs : list Z) (n : node) : bool :=
  let r := obs_get obs n in
  (Z.min (request n) (eff_min n) <=? r) && (r <=? Z.max (request n) (eff_min n))
  && (lend n || (eff_min n <=? r)).

(* clause 3: siblings never get more than the parent has whenever their minimums fit *)
Definition conservation_ok (total : Z) (ns : list node) (obs : list Z) : Prop :=
  sumZ (map init_runtime ns) <= total -> sumZ (map (obs_get obs) ns) <= total.
Definition conservation_okb (total : Z) (ns : list node) (obs : list Z) : bool :=
  negb (sumZ (map init_runtime ns) <=? total) || (sumZ (map (obs_get obs) ns) <=? total).

(* clause 4: work conservation — after the minimums, capacity is handed out until every
   positive-weight request is met or nothing is left *)
Definition satisfied (obs : list Z) (n : node) : bool :=
  negb (needs_adjust n) || negb (pos_weight n) || (obs_get obs n =? request n).
Definition work_conserving (total : Z) (ns : list node) (obs : list Z) : Prop :=
  sumZ (map init_runtime ns) <= total ->
  sumZ (map (obs_get obs) ns) = total \/ forallb (satisfied obs) ns = true.
Definition work_conservingb (total : Z) (ns : list node) (obs : list Z) : bool :=
  negb (sumZ (map init_runtime ns) <=? total)
  || (sumZ (map (obs_get obs) ns) =? total) || forallb (satisfied obs) ns.

(* clause 5: fairness — two siblings that are both still short at the end received shares
   above their minimum in proportion to their weights, up to one unit per round each *)
Definition still_short (obs : list Z) (n : node) : bool :=
  needs_adjust n && pos_weight n && (obs_get obs n <? request n).
Definition fair_pair (k : Z) (obs : list Z) (a b : node) : Prop :=
  still_short obs a = true -> still_short obs b = true ->
  Z.abs ((obs_get obs a - eff_min a) * weight b - (obs_get obs b - eff_min b) * weight a)
    <= k * (weight a + weight b).
Definition fair_pairb (k : Z) (obs : list Z) (a b : node) : bool :=
  negb (still_short obs a) || negb (still_short obs b) ||
  (Z.abs ((obs_get obs a - eff_min a) * weight b - (obs_get obs b - eff_min b) * weight a)
    <=? k * (weight a + weight b)).
Definition fair (ns : list node) (obs : list Z) : Prop :=
  forall a b, In a ns -> In b ns -> fair_pair (Z.of_nat (length ns)) obs a b.
Definition fairb (ns : list node) (obs : list Z) : bool :=
  forallb (fun a => forallb (fair_pairb (Z.of_nat (length ns)) obs a) ns) ns.

Definition C02_holds (total : Z) (ns : list node) (obs : list Z) : Prop :=
  length obs = length ns
  /\ (forall n, In n ns -> bounds_ok obs n)
  /\ conservation_ok total ns obs
  /\ work_conserving total ns obs
  /\ fair ns obs.

Definition prop_code (total : Z) (ns : list node) (obs : list Z) : Z :=
  if negb (Nat.eqb (length obs) (length ns)) then 9
  else if negb (forallb (bounds_okb obs) ns) then 1
  else if negb (conservation_okb total ns obs) then 3
  else if negb (work_conservingb total ns obs) then 4
  else if negb (fairb ns obs) then 5
  else 0.

(* the observable of a result: the runtime of name rank 1..k (-1 if absent) *)
Definition obs_of (ns : list node) (es : list entry) : list Z :=
  map (fun k => match runtime_of k es with Some r => r | None => -1 end)
      (map Z.of_nat (seq 1 (length ns))).

(* well-formed sibling set as produced by the quotaTree map: names are exactly 1..k *)
Definition names_ok (ns : list node) : Prop :=
  NoDup (map nm ns) /\ forall n, In n ns -> 1 <= nm n <= Z.of_nat (length ns).
