(* C02 — proofs about the model (see Properties.v for the exported statements). *)
From Coq Require Import List ZArith Bool Lia.
From Verif Require Import C02.Model C02.Spec.
Import ListNotations.
Open Scope Z_scope.

Lemma init_runtime_bounds n :
  Z.min (request n) (eff_min n) <= init_runtime n <= Z.max (request n) (eff_min n).
Proof.
  unfold init_runtime, needs_adjust.
  destruct (eff_min n <? request n) eqn:E; [apply Z.ltb_lt in E|apply Z.ltb_ge in E];
  destruct (lend n); lia.
Qed.
