(* C02 — redistribution satisfies every clause of the specification (see Properties.v for
   the exported statements).  Proofs_Hamilton: the largest-remainder split; Proofs_Iterate:
   the run relation of iterationForRedistribution and its invariants; Proofs_Perm:
   independence of the input order. *)
From Coq Require Import List ZArith Bool Lia Permutation.
From Verif Require Import C02.Model C02.Spec C02.Proofs_Hamilton C02.Proofs_Iterate.
Import ListNotations.
Open Scope Z_scope.

Lemma init_runtime_bounds n :
  Z.min (request n) (eff_min n) <= init_runtime n <= Z.max (request n) (eff_min n).
Proof.
  unfold init_runtime, needs_adjust.
  destruct (eff_min n <? request n) eqn:E; [apply Z.ltb_lt in E|apply Z.ltb_ge in E];
  destruct (lend n); lia.
Qed.

Lemma init_runtime_nolend n : lend n = false -> init_runtime n = eff_min n.
Proof. intro E. unfold init_runtime. rewrite E. destruct (needs_adjust n); reflexivity. Qed.

Lemma needs_adjust_true n :
  needs_adjust n = true -> init_runtime n = eff_min n /\ eff_min n < request n.
Proof.
  intro E. unfold init_runtime. rewrite E. split; [reflexivity|].
  unfold needs_adjust in E. apply Z.ltb_lt in E. exact E.
Qed.

Lemma needs_adjust_false n : needs_adjust n = false -> request n <= eff_min n.
Proof. unfold needs_adjust. apply Z.ltb_ge. Qed.

(* ---------- the pieces of [redistribution] ---------- *)
Definition init_es (ns : list node) : list entry := map (fun n => (n, init_runtime n)) ns.
Definition adj_es (ns : list node) : list entry :=
  filter (fun e => needs_adjust (fst e)) (init_es ns).
Definition rest_es (ns : list node) : list entry :=
  filter (fun e => negb (needs_adjust (fst e))) (init_es ns).
Definition to_part (total : Z) (ns : list node) : Z := total - sumZ (map snd (init_es ns)).

Lemma redistribution_eq total ns :
  redistribution total ns =
  if 0 <? to_part total ns
  then rest_es ns ++ iterate (S (length (adj_es ns))) (to_part total ns) (wsum (adj_es ns)) (adj_es ns)
  else init_es ns.
Proof. reflexivity. Qed.

Lemma init_fst ns : map fst (init_es ns) = ns.
Proof. unfold init_es. rewrite map_map. cbn [fst]. apply map_id. Qed.

Lemma init_snd ns : map snd (init_es ns) = map init_runtime ns.
Proof. unfold init_es. rewrite map_map. reflexivity. Qed.

Lemma init_ename ns : map ename (init_es ns) = map nm ns.
Proof. rewrite ename_map, init_fst. reflexivity. Qed.

Lemma init_In ns e : In e (init_es ns) <-> In (fst e) ns /\ snd e = init_runtime (fst e).
Proof.
  unfold init_es. rewrite in_map_iff. split.
  - intros [n [<- Hn]]. cbn [fst snd]. auto.
  - intros [H1 H2]. exists (fst e). split; [|exact H1].
    rewrite <- H2. symmetry. apply surjective_pairing.
Qed.

Lemma adj_In ns e :
  In e (adj_es ns) <-> In (fst e) ns /\ snd e = init_runtime (fst e) /\ needs_adjust (fst e) = true.
Proof. unfold adj_es. rewrite filter_In, init_In. tauto. Qed.

Lemma rest_In ns e :
  In e (rest_es ns) <-> In (fst e) ns /\ snd e = init_runtime (fst e) /\ needs_adjust (fst e) = false.
Proof.
  unfold rest_es. rewrite filter_In, init_In. destruct (needs_adjust (fst e)); cbn; intuition congruence.
Qed.

Lemma adj_rest_perm ns : Permutation (init_es ns) (adj_es ns ++ rest_es ns).
Proof. apply filter_partition_perm. Qed.

Lemma adj_length ns : (length (adj_es ns) <= length ns)%nat.
Proof.
  unfold adj_es. etransitivity; [apply filter_length_le|].
  unfold init_es. rewrite map_length. reflexivity.
Qed.

Lemma adj_unsat ns : all_unsat (adj_es ns).
Proof.
  intros e He. apply adj_In in He. destruct He as [_ [Hs Hn]].
  apply needs_adjust_true in Hn. apply unsat_true. lia.
Qed.

Lemma Pre_adj ns : wnn ns -> NoDup (map nm ns) -> Pre (wsum (adj_es ns)) (adj_es ns).
Proof.
  intros Hnn Hnd. split.
  - intros n Hn. apply in_map_iff in Hn. destruct Hn as [e [<- He]].
    apply adj_In in He. apply Hnn, He.
  - reflexivity.
  - unfold adj_es. apply NoDup_map_filter. rewrite init_ename. exact Hnd.
  - apply adj_unsat.
Qed.

Lemma in_range_wnn total ns : in_range total ns = true -> wnn ns.
Proof.
  unfold in_range. intros H n Hn.
  repeat (apply andb_prop in H; destruct H as [H ?]).
  match goal with H : forallb node_ok ns = true |- _ => rewrite forallb_forall in H; specialize (H n Hn) end.
  unfold node_ok in *.
  repeat match goal with H : _ && _ = true |- _ => apply andb_prop in H; destruct H end.
  match goal with H : (0 <=? weight n) = true |- _ => apply Z.leb_le in H; exact H end.
Qed.

Lemma in_range_total total ns : in_range total ns = true -> 0 <= total.
Proof.
  unfold in_range. intros H.
  repeat (apply andb_prop in H; destruct H as [H ?]). apply Z.leb_le in H. exact H.
Qed.

(* ---------- the result holds the same nodes, each once ---------- *)
Lemma redistribution_fst_perm total ns : Permutation (map fst (redistribution total ns)) ns.
Proof.
  rewrite redistribution_eq. destruct (0 <? to_part total ns).
  - rewrite map_app.
    eapply Permutation_trans;
      [apply Permutation_app_head, (iter_fst_perm _ _ _ _ _ (iterate_Iter _ _ _ _))|].
    rewrite <- map_app. apply Permutation_trans with (map fst (init_es ns));
      [|rewrite init_fst; apply Permutation_refl].
    apply Permutation_map.
    eapply Permutation_trans; [apply Permutation_app_comm|].
    apply Permutation_sym, adj_rest_perm.
  - rewrite init_fst. apply Permutation_refl.
Qed.

Lemma redistribution_nodup total ns :
  NoDup (map nm ns) -> NoDup (map ename (redistribution total ns)).
Proof.
  intro H. rewrite ename_map. eapply Permutation_NoDup; [|exact H].
  apply Permutation_map, Permutation_sym, redistribution_fst_perm.
Qed.

(* ---------- lookups by name ---------- *)
Definition rt (es : list entry) (k : Z) : Z :=
  match runtime_of k es with Some r => r | None => -1 end.

Lemma runtime_of_In es n r :
  NoDup (map ename es) -> In (n, r) es -> runtime_of (nm n) es = Some r.
Proof.
  induction es as [|e es IH]; intros Hnd Hin; [destruct Hin|].
  cbn [map] in Hnd. inversion Hnd as [|? ? Hnin Hnd']; subst.
  cbn [runtime_of]. destruct (nm (fst e) =? nm n) eqn:E.
  - apply Z.eqb_eq in E. destruct Hin as [->|Hin]; [reflexivity|].
    exfalso. apply Hnin. unfold ename at 1. rewrite E.
    change (nm n) with (ename (n, r)). apply in_map, Hin.
  - apply Z.eqb_neq in E. destruct Hin as [->|Hin]; [cbn [fst] in E; congruence|].
    apply IH; assumption.
Qed.

Lemma rt_In es n r : NoDup (map ename es) -> In (n, r) es -> rt es (nm n) = r.
Proof. intros Hnd Hin. unfold rt. rewrite (runtime_of_In es n r Hnd Hin). reflexivity. Qed.

Lemma obs_of_length ns es : length (obs_of ns es) = length ns.
Proof. unfold obs_of. rewrite !map_length, seq_length. reflexivity. Qed.

Lemma obs_get_obs_of ns es n :
  1 <= nm n <= Z.of_nat (length ns) -> obs_get (obs_of ns es) n = rt es (nm n).
Proof.
  intro Hr. unfold obs_get, obs_of.
  set (F := fun k => match runtime_of k es with Some r => r | None => -1 end).
  set (i := (Z.to_nat (nm n) - 1)%nat).
  assert (Hi : (i < length ns)%nat) by (unfold i; lia).
  rewrite (nth_indep _ (-1) (F (Z.of_nat 0))) by (rewrite !map_length, seq_length; exact Hi).
  rewrite map_map. rewrite (map_nth (fun x => F (Z.of_nat x))).
  rewrite seq_nth by exact Hi.
  replace (Z.of_nat (1 + i)) with (nm n) by (unfold i; lia). reflexivity.
Qed.

Lemma obs_sum ns es :
  names_ok ns -> Permutation (map fst es) ns ->
  sumZ (map (obs_get (obs_of ns es)) ns) = sumZ (map snd es).
Proof.
  intros [Hnd Hr] HP.
  rewrite (sumZ_map_ext _ (fun n => rt es (nm n))).
  2:{ intros n Hn. apply obs_get_obs_of, Hr, Hn. }
  rewrite <- (sumZ_map_perm _ _ _ HP). rewrite map_map.
  apply sumZ_map_ext. intros e He.
  apply rt_In; [|rewrite <- surjective_pairing; exact He].
  rewrite ename_map. eapply Permutation_NoDup; [|exact Hnd].
  apply Permutation_map, Permutation_sym, HP.
Qed.

(* ---------- every sibling has an entry in the result, with its bounds ---------- *)
Lemma redistribution_entry total ns n :
  In n ns ->
  exists r, In (n, r) (redistribution total ns)
    /\ Z.min (request n) (eff_min n) <= r <= Z.max (request n) (eff_min n)
    /\ (lend n = false -> eff_min n <= r)
    /\ (needs_adjust n = true -> eff_min n <= r <= request n)
    /\ (needs_adjust n = false -> r = init_runtime n).
Proof.
  intro Hn. rewrite redistribution_eq.
  pose proof (init_runtime_bounds n) as Hb.
  destruct (0 <? to_part total ns).
  - destruct (needs_adjust n) eqn:E.
    + assert (He : In (n, init_runtime n) (adj_es ns)) by (apply adj_In; cbn [fst snd]; auto).
      pose proof (iterate_Iter (S (length (adj_es ns))) (to_part total ns)
                    (wsum (adj_es ns)) (adj_es ns)) as HI.
      destruct (iter_bounds _ _ _ _ _ HI (adj_unsat ns) _ He) as [r [Hr Hrb]].
      cbn [fst snd] in Hr, Hrb. apply needs_adjust_true in E. destruct E as [E1 E2].
      exists r. split; [apply in_or_app; right; exact Hr|].
      repeat split; intros; try lia; try congruence.
    + exists (init_runtime n). split.
      * apply in_or_app. left. apply rest_In. cbn [fst snd]. auto.
      * repeat split; intros; try lia; try congruence.
        rewrite init_runtime_nolend by assumption. lia.
  - exists (init_runtime n). split; [apply init_In; cbn [fst snd]; auto|].
    repeat split; intros; try lia; try congruence.
    + rewrite init_runtime_nolend by assumption. lia.
    + match goal with H : needs_adjust n = true |- _ => apply needs_adjust_true in H end. lia.
    + match goal with H : needs_adjust n = true |- _ => apply needs_adjust_true in H end. lia.
Qed.

Lemma obs_get_redistribution total ns n r :
  names_ok ns -> In n ns -> In (n, r) (redistribution total ns) ->
  obs_get (obs_of ns (redistribution total ns)) n = r.
Proof.
  intros [Hnd Hr] Hn Hin. rewrite obs_get_obs_of by (apply Hr, Hn).
  apply rt_In; [apply redistribution_nodup, Hnd|exact Hin].
Qed.

(* clause 1/2 *)
Lemma bounds_proved total ns :
  names_ok ns -> forall n, In n ns -> bounds_ok (obs_of ns (redistribution total ns)) n.
Proof.
  intros Hok n Hn. destruct (redistribution_entry total ns n Hn) as [r [Hin [Hb [Hl _]]]].
  unfold bounds_ok. rewrite (obs_get_redistribution total ns n r Hok Hn Hin). auto.
Qed.

Lemma redistribution_sum total ns :
  names_ok ns ->
  sumZ (map (obs_get (obs_of ns (redistribution total ns))) ns)
  = sumZ (map snd (redistribution total ns)).
Proof. intro Hok. apply obs_sum; [exact Hok|apply redistribution_fst_perm]. Qed.

Lemma init_split_sum ns :
  sumZ (map snd (rest_es ns)) + sumZ (map snd (adj_es ns)) = sumZ (map init_runtime ns).
Proof.
  rewrite <- init_snd, (sumZ_map_perm snd _ _ (adj_rest_perm ns)), map_app, sumZ_app. lia.
Qed.

Lemma to_part_eq total ns : to_part total ns = total - sumZ (map init_runtime ns).
Proof. unfold to_part. rewrite init_snd. reflexivity. Qed.

(* clause 3 *)
Lemma conservation_proved total ns :
  wnn ns -> names_ok ns -> conservation_ok total ns (obs_of ns (redistribution total ns)).
Proof.
  intros Hnn Hok Hfit. rewrite (redistribution_sum total ns Hok), redistribution_eq.
  pose proof (to_part_eq total ns) as HT.
  destruct (0 <? to_part total ns) eqn:E.
  - apply Z.ltb_lt in E. rewrite map_app, sumZ_app.
    pose proof (iter_sum_le _ _ _ _ _ (iterate_Iter (S (length (adj_es ns))) (to_part total ns)
                  (wsum (adj_es ns)) (adj_es ns)) (Z.lt_le_incl _ _ E) (Pre_adj ns Hnn (proj1 Hok))).
    pose proof (init_split_sum ns). lia.
  - rewrite init_snd. lia.
Qed.

(* clause 4 *)
Lemma work_conserving_proved total ns :
  wnn ns -> names_ok ns -> work_conserving total ns (obs_of ns (redistribution total ns)).
Proof.
  intros Hnn Hok Hfit.
  pose proof (to_part_eq total ns) as HT.
  destruct (0 <? to_part total ns) eqn:E.
  - apply Z.ltb_lt in E.
    pose proof (iterate_Iter (S (length (adj_es ns))) (to_part total ns)
                  (wsum (adj_es ns)) (adj_es ns)) as HI.
    destruct (iter_work _ _ _ _ _ HI E (Pre_adj ns Hnn (proj1 Hok)) (Nat.lt_succ_diag_r _))
      as [Hsum|Hmet].
    + left. rewrite (redistribution_sum total ns Hok), redistribution_eq.
      apply Z.ltb_lt in E. rewrite E. rewrite map_app, sumZ_app.
      pose proof (init_split_sum ns). lia.
    + right. apply forallb_forall. intros n Hn. unfold satisfied.
      destruct (needs_adjust n) eqn:En; [|reflexivity].
      destruct (pos_weight n) eqn:Ep; [|reflexivity]. cbn [negb orb].
      assert (He : In (n, init_runtime n) (adj_es ns)) by (apply adj_In; cbn [fst snd]; auto).
      destruct (iter_bounds _ _ _ _ _ HI (adj_unsat ns) _ He) as [r [Hr _]]. cbn [fst] in Hr.
      pose proof (Hmet _ Hr Ep) as Hreq. cbn [fst snd] in Hreq.
      rewrite (obs_get_redistribution total ns n r Hok Hn).
      * apply Z.eqb_eq. exact Hreq.
      * rewrite redistribution_eq. apply Z.ltb_lt in E. rewrite E.
        apply in_or_app. right. exact Hr.
  - left. apply Z.ltb_ge in E.
    rewrite (redistribution_sum total ns Hok), redistribution_eq.
    apply Z.ltb_ge in E. rewrite E. rewrite init_snd. apply Z.ltb_ge in E. lia.
Qed.

(* clause 5 *)
Lemma fair_proved total ns :
  wnn ns -> names_ok ns -> fair ns (obs_of ns (redistribution total ns)).
Proof.
  intros Hnn Hok a b Ha Hb Hsa Hsb.
  unfold still_short in Hsa, Hsb.
  apply andb_prop in Hsa. destruct Hsa as [Hsa Hla]. apply andb_prop in Hsa. destruct Hsa as [Hna _].
  apply andb_prop in Hsb. destruct Hsb as [Hsb Hlb]. apply andb_prop in Hsb. destruct Hsb as [Hnb _].
  apply Z.ltb_lt in Hla, Hlb.
  pose proof (Hnn a Ha) as Hwa. pose proof (Hnn b Hb) as Hwb.
  pose proof (needs_adjust_true a Hna) as [Hia _]. pose proof (needs_adjust_true b Hnb) as [Hib _].
  destruct (0 <? to_part total ns) eqn:E.
  - pose proof (iterate_Iter (S (length (adj_es ns))) (to_part total ns)
                  (wsum (adj_es ns)) (adj_es ns)) as HI.
    assert (Hea : In (a, init_runtime a) (adj_es ns)) by (apply adj_In; cbn [fst snd]; auto).
    assert (Heb : In (b, init_runtime b) (adj_es ns)) by (apply adj_In; cbn [fst snd]; auto).
    destruct (iter_bounds _ _ _ _ _ HI (adj_unsat ns) _ Hea) as [ra [Hra _]].
    destruct (iter_bounds _ _ _ _ _ HI (adj_unsat ns) _ Heb) as [rb [Hrb _]].
    cbn [fst] in Hra, Hrb.
    assert (Hoa : obs_get (obs_of ns (redistribution total ns)) a = ra).
    { apply obs_get_redistribution; auto. rewrite redistribution_eq, E.
      apply in_or_app. right. exact Hra. }
    assert (Hob : obs_get (obs_of ns (redistribution total ns)) b = rb).
    { apply obs_get_redistribution; auto. rewrite redistribution_eq, E.
      apply in_or_app. right. exact Hrb. }
    rewrite Hoa, Hob in *.
    pose proof (iter_fair _ _ _ _ _ HI (Pre_adj ns Hnn (proj1 Hok)) _ _ ra rb Hea Heb Hra Hrb Hla Hlb)
      as HF.
    cbn [fst snd] in HF. rewrite Hia, Hib in HF.
    pose proof (adj_length ns) as Hlen.
    assert (Z.of_nat (length (adj_es ns)) * (weight a + weight b)
            <= Z.of_nat (length ns) * (weight a + weight b)) by nia.
    lia.
  - assert (Hoa : obs_get (obs_of ns (redistribution total ns)) a = init_runtime a).
    { apply obs_get_redistribution; auto. rewrite redistribution_eq, E.
      apply init_In. cbn [fst snd]. auto. }
    assert (Hob : obs_get (obs_of ns (redistribution total ns)) b = init_runtime b).
    { apply obs_get_redistribution; auto. rewrite redistribution_eq, E.
      apply init_In. cbn [fst snd]. auto. }
    rewrite Hoa, Hob, Hia, Hib, !Z.sub_diag. cbn [Z.mul Z.sub Z.abs Z.opp Z.add]. nia.
Qed.

(* ---------- the capstone ---------- *)
Lemma model_satisfies_spec total ns :
  in_range total ns = true -> names_ok ns ->
  C02_holds total ns (obs_of ns (redistribution total ns)).
Proof.
  intros Hr Hok. pose proof (in_range_wnn total ns Hr) as Hnn.
  split; [apply obs_of_length|].
  split; [apply bounds_proved, Hok|].
  split; [apply conservation_proved; assumption|].
  split; [apply work_conserving_proved; assumption|].
  apply fair_proved; assumption.
Qed.
