(* C02 / calculator — (1) delete-then-recreate leaves no residue; (2) the entry points bin/check
   runs: the model's own observable passes [calc_prop_case] on every well-formed input, and an
   observable (the implementation's) on which it returns 0 satisfies every C02 clause at every
   step against the figures current at that step. *)
From Coq Require Import List ZArith Bool Lia Permutation.
From Verif Require Import C02.Model C02.Spec C02.Proofs C02.Proofs_Spec
  C02.Calc_Model C02.Calc_Spec C02.Calc_Proofs_Inv C02.Calc_Proofs_Run C02.Calc_Proofs_Pad.
Import ListNotations.
Open Scope Z_scope.

(* ---------- lookups in figure lists ---------- *)
Lemma figs_find_upd k g k' fs :
  figs_find k' (figs_upd k g fs) =
  if k =? k' then option_map g (figs_find k' fs) else figs_find k' fs.
Proof.
  induction fs as [|p fs IH]; [cbn; destruct (k =? k'); reflexivity|].
  cbn [figs_upd map figs_find]. fold (figs_upd k g fs).
  destruct (fst p =? k) eqn:E1; cbn [fst snd].
  - apply Z.eqb_eq in E1. rewrite E1. destruct (k =? k') eqn:E2; [reflexivity|]. exact IH.
  - destruct (fst p =? k') eqn:E2; [|exact IH].
    apply Z.eqb_eq in E2. apply Z.eqb_neq in E1. rewrite <- E2.
    destruct (k =? fst p) eqn:E3; [apply Z.eqb_eq in E3; congruence|reflexivity].
Qed.

Lemma figs_find_del k k' fs :
  figs_find k' (figs_del k fs) = if k =? k' then None else figs_find k' fs.
Proof.
  induction fs as [|p fs IH]; [cbn; destruct (k =? k'); reflexivity|].
  unfold figs_del in *. cbn [filter figs_find]. destruct (fst p =? k) eqn:E; cbn [negb].
  - rewrite IH. apply Z.eqb_eq in E. rewrite E. destruct (k =? k'); reflexivity.
  - cbn [figs_find]. rewrite IH. destruct (fst p =? k') eqn:E2; [|reflexivity].
    apply Z.eqb_eq in E2. apply Z.eqb_neq in E. rewrite <- E2.
    destruct (k =? fst p) eqn:E3; [apply Z.eqb_eq in E3; congruence|reflexivity].
Qed.

Lemma figs_find_app k f k' fs :
  figs_find k' (fs ++ [(k, f)]) =
  match figs_find k' fs with Some x => Some x | None => if k =? k' then Some f else None end.
Proof.
  induction fs as [|p fs IH]; [reflexivity|].
  rewrite <- app_comm_cons. cbn [figs_find]. destruct (fst p =? k'); [reflexivity|exact IH].
Qed.

Lemma cur_of_app a b : cur_of (a ++ b) = fold_left cur_step b (cur_of a).
Proof. unfold cur_of. apply fold_left_app. Qed.

Lemma run_app a b : run (a ++ b) = fold_left ostep b (run a).
Proof. unfold run. apply fold_left_app. Qed.

(* ---------- delete, then create again under the same name with the same figures ---------- *)
Definition recreate (k : Z) (f : fig) : list op :=
  [ODelete k; OCreate k (f_lend f) (f_max f); OSetMin k (f_min f); OSetWeight k (f_weight f);
   OSetReq k (f_req f); OSetGuar k (f_guar f)].

Lemma recreate_same_inputs cu k f :
  figs_find k (cu_figs cu) = Some f ->
  same_inputs (fold_left cur_step (recreate k f) cu) cu.
Proof.
  intro Hf. destruct cu as [t fs]. cbn [cu_figs] in Hf. unfold recreate. cbn [fold_left].
  assert (L0 : live k fs = true) by (unfold live; rewrite Hf; reflexivity).
  cbn [cur_step cu_figs cu_total]. rewrite L0.
  assert (L1 : live k (figs_del k fs) = false).
  { unfold live. rewrite figs_find_del, Z.eqb_refl. reflexivity. }
  cbn [cur_step cu_figs cu_total]. rewrite L1.
  set (fs1 := figs_del k fs ++ [(k, mkF (f_max f) 0 0 0 0 (f_lend f))]).
  assert (F1 : figs_find k fs1 = Some (mkF (f_max f) 0 0 0 0 (f_lend f))).
  { unfold fs1. rewrite figs_find_app, figs_find_del, !Z.eqb_refl. reflexivity. }
  unfold cur_upd. cbn [cu_figs cu_total].
  assert (Hlive : forall g fs', figs_find k fs' <> None -> live k (figs_upd k g fs') = true /\ live k fs' = true).
  { intros g fs' H. unfold live. rewrite figs_find_upd, Z.eqb_refl.
    destruct (figs_find k fs'); [split; reflexivity|congruence]. }
  repeat match goal with
  | |- context [live k ?x] =>
      let H := fresh in
      assert (H : live k x = true)
        by (unfold live; repeat rewrite figs_find_upd, Z.eqb_refl; rewrite F1; reflexivity);
      rewrite H; clear H; cbn [cu_figs cu_total]
  end.
  split; [reflexivity|]. intro k'. cbn [cu_figs].
  rewrite !figs_find_upd. destruct (k =? k') eqn:E.
  - apply Z.eqb_eq in E. subst k'. rewrite F1, Hf. cbn. destruct f; reflexivity.
  - unfold fs1. rewrite figs_find_app, figs_find_del, E. destruct (figs_find k' fs); reflexivity.
Qed.

Theorem calc_delete_recreate ops k f K :
  figs_find k (cu_figs (cur_of ops)) = Some f ->
  obs_world K (run (ops ++ recreate k f)) = obs_world K (run ops).
Proof.
  intro Hf. apply calc_pure. rewrite cur_of_app. apply recreate_same_inputs, Hf.
Qed.

(* ---------- the decision procedure on the model's own observable ---------- *)
Lemma node_eqb_eq a b : node_eqb a b = true -> a = b.
Proof.
  unfold node_eqb. intro H. repeat (apply andb_prop in H; destruct H as [H ?]).
  destruct a, b. cbn in *.
  repeat match goal with H : (_ =? _) = true |- _ => apply Z.eqb_eq in H end.
  match goal with H : Bool.eqb _ _ = true |- _ => apply Bool.eqb_prop in H end.
  congruence.
Qed.

Lemma nodes_eqb_eq a : forall b, nodes_eqb a b = true -> a = b.
Proof.
  induction a as [|x a IH]; intros [|y b] H; try discriminate; [reflexivity|].
  cbn [nodes_eqb] in H. apply andb_prop in H. destruct H as [H1 H2].
  rewrite (node_eqb_eq x y H1), (IH b H2). reflexivity.
Qed.

Lemma eq_lz_refl a : eq_lz a a = true.
Proof. induction a as [|x a IH]; [reflexivity|]. cbn. rewrite Z.eqb_refl. exact IH. Qed.

Definition seen_ok (s : list (Z * list node * list Z)) : Prop :=
  forall t ns o, In (t, ns, o) s -> o = obs_of ns (redistribution t ns).

Lemma pure_ok_model t ns s :
  seen_ok s -> pure_ok t ns (obs_of ns (redistribution t ns)) s = true.
Proof.
  intro Hs. unfold pure_ok. apply forallb_forall. intros [[t' ns'] o'] Hin.
  destruct ((t' =? t) && nodes_eqb ns' ns) eqn:E; cbn [negb orb]; [|reflexivity].
  apply andb_prop in E. destruct E as [E1 E2]. apply Z.eqb_eq in E1. apply nodes_eqb_eq in E2.
  subst. rewrite (Hs _ _ _ Hin). apply eq_lz_refl.
Qed.

Lemma obs_world_length K w : length (obs_world K w) = K.
Proof. unfold obs_world. rewrite map_length. apply ids_length. Qed.

Lemma firstn_exact {A} (a b : list A) n : length a = n -> firstn n (a ++ b) = a.
Proof.
  intros <-. rewrite firstn_app, Nat.sub_diag, firstn_all. cbn. apply app_nil_r.
Qed.

Lemma skipn_exact {A} (a b : list A) n : length a = n -> skipn n (a ++ b) = b.
Proof. intros <-. rewrite skipn_app, Nat.sub_diag, skipn_all. reflexivity. Qed.

Lemma marks_model K ops :
  marks_ok K (cu_figs (cur_of ops)) (obs_world K (run ops)) = true.
Proof.
  unfold marks_ok, obs_world. rewrite combine_ids. apply forallb_forall.
  intros [k x] Hin. apply in_map_iff in Hin. destruct Hin as [k0 [H _]]. inversion H; subst.
  cbn [fst snd]. pose proof (history_independent ops k) as HI. cbv zeta in HI.
  destruct (tab_find k (w_tab (run ops))).
  - destruct HI as [Hl _]. rewrite Hl. reflexivity.
  - rewrite HI. reflexivity.
Qed.

Lemma step_code_model K ops :
  wf_ops K ops = true -> step_code K (cur_of ops) (obs_world K (run ops)) = 0.
Proof.
  intro Hwf. unfold step_code. rewrite obs_world_length, Nat.eqb_refl. cbn [negb].
  rewrite marks_model. cbn [negb].
  rewrite (prop_code_complete _ _ _ (calc_satisfies_spec K ops Hwf)). reflexivity.
Qed.

Lemma wf_ops_app K a b : wf_ops K (a ++ b) = wf_ops K a && wf_ops K b.
Proof. unfold wf_ops. apply forallb_app. Qed.

Lemma check_steps_model K ops : forall pre s,
  wf_ops K (pre ++ ops) = true -> seen_ok s ->
  check_steps K (cur_of pre) s ops (run_obs K (run pre) ops) = 0.
Proof.
  induction ops as [|o ops IH]; intros pre s Hwf Hs; [reflexivity|].
  cbn [check_steps run_obs]. cbv zeta.
  assert (Hpre : wf_ops K (pre ++ [o]) = true).
  { rewrite wf_ops_app in *. apply andb_prop in Hwf. destruct Hwf as [H1 H2].
    cbn [wf_ops forallb] in H2. apply andb_prop in H2. destruct H2 as [H2 _].
    rewrite H1. cbn. rewrite H2. reflexivity. }
  assert (Ec : cur_step (cur_of pre) o = cur_of (pre ++ [o])) by (rewrite cur_of_app; reflexivity).
  assert (Ew : ostep (run pre) o = run (pre ++ [o])) by (rewrite run_app; reflexivity).
  rewrite Ec, Ew.
  rewrite (firstn_exact _ _ K (obs_world_length K _)), (skipn_exact _ _ K (obs_world_length K _)).
  rewrite (step_code_model K _ Hpre). cbn [Z.eqb negb].
  rewrite (logged_is_division K _ Hpre).
  rewrite pure_ok_model by exact Hs. cbn [negb].
  apply IH.
  - rewrite <- app_assoc. exact Hwf.
  - intros t ns o' [H|H]; [inversion H; reflexivity|apply (Hs _ _ _ H)].
Qed.

Theorem calc_prop_case_model inp :
  wf_ops (fst (calc_decode inp)) (snd (calc_decode inp)) = true ->
  calc_prop_case inp (calc_run_case inp) = 0.
Proof.
  unfold calc_prop_case, calc_run_case. destruct (calc_decode inp) as [K ops]. cbn [fst snd].
  intro Hwf. apply (check_steps_model K ops [] []); [exact Hwf|intros t ns o []].
Qed.

(* ---------- soundness of the decision on ANY observable ---------- *)
Fixpoint steps_hold (K : nat) (cu : cur) (ops : list op) (obs : list Z) : Prop :=
  match ops with
  | [] => obs = []
  | o :: t =>
      let cu' := cur_step cu o in
      let oi := firstn K obs in
      length oi = K
      /\ C02_holds (cu_total cu') (pad K (cu_figs cu')) (clean K (cu_figs cu') oi)
      /\ steps_hold K cu' t (skipn K obs)
  end.

Lemma prop_code_nonneg total ns obs : 0 <= prop_code total ns obs.
Proof.
  unfold prop_code.
  repeat match goal with |- context [if ?b then _ else _] => destruct b end; lia.
Qed.

Lemma check_steps_sound K ops : forall cu s obs,
  check_steps K cu s ops obs = 0 -> steps_hold K cu ops obs.
Proof.
  induction ops as [|o ops IH]; intros cu s obs H.
  - cbn in *. destruct obs; [reflexivity|discriminate].
  - cbn [check_steps] in H. cbv zeta in H. cbn [steps_hold]. cbv zeta.
    destruct (step_code K (cur_step cu o) (firstn K obs) =? 0) eqn:Ec; cbn [negb] in H;
      [|apply Z.eqb_neq in Ec; congruence].
    apply Z.eqb_eq in Ec.
    destruct (pure_ok _ _ _ s); cbn [negb] in H; [|discriminate].
    unfold step_code in Ec.
    destruct (Nat.eqb (length (firstn K obs)) K) eqn:El; cbn [negb] in Ec; [|discriminate].
    destruct (marks_ok K _ _); cbn [negb] in Ec; [|discriminate].
    cbv zeta in Ec.
    match type of Ec with context [prop_code ?a ?b ?c] => pose proof (prop_code_nonneg a b c) as Hnn end.
    destruct (prop_code _ _ _ =? 0) eqn:Ep; [|lia].
    apply Z.eqb_eq in Ep. apply Nat.eqb_eq in El.
    split; [exact El|]. split; [apply prop_code_sound, Ep|]. eapply IH, H.
Qed.

Theorem calc_prop_case_sound inp obs :
  calc_prop_case inp obs = 0 ->
  steps_hold (fst (calc_decode inp)) cur0 (snd (calc_decode inp)) obs.
Proof.
  unfold calc_prop_case. destruct (calc_decode inp) as [K ops]. cbn [fst snd].
  apply check_steps_sound.
Qed.

(* ---------- two levels: the parent's calculator feeds the child's (refreshRuntimeNoLock) ----------
   Whatever the histories of the two calculators were: when the runtime reported for child c by
   its parent's calculator is handed to c's own calculator as the total (step 3 of
   refreshRuntimeNoLock), what that calculator reports for a grandchild g is the from-scratch
   division, top-down: first among c's siblings, then among g's siblings with c's share. *)
Theorem calc_two_level opsP opsC c g qc qg :
  tab_find c (w_tab (run opsP)) = Some qc ->
  tab_find g (w_tab (run (opsC ++ [OSetTotal (q_runtime qc)]))) = Some qg ->
  exists rc,
    runtime_of c (redistribution (cu_total (cur_of opsP)) (nodes_of (cu_figs (cur_of opsP)))) = Some rc
    /\ runtime_of g (redistribution rc (nodes_of (cu_figs (cur_of opsC)))) = Some (q_runtime qg).
Proof.
  intros Hc Hg.
  pose proof (history_independent opsP c) as HP. cbv zeta in HP. rewrite Hc in HP.
  pose proof (history_independent (opsC ++ [OSetTotal (q_runtime qc)]) g) as HC. cbv zeta in HC.
  rewrite Hg in HC. rewrite cur_of_app in HC. cbn [fold_left cur_step cu_total cu_figs] in HC.
  exists (q_runtime qc). split; [apply HP|apply HC].
Qed.
