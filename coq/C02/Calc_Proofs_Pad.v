(* C02 / calculator — siblings that ask for nothing and are owed nothing are inert, so the
   division among the live children equals the division among the K slots (names exactly 1..K,
   which is the shape the C02 theorems are stated for); corollary: every C02 clause holds for what
   the calculator reports after ANY history, and equal current inputs give equal reports. *)
From Coq Require Import List ZArith Bool Lia Permutation.
From Verif Require Import C02.Model C02.Spec C02.Proofs_Hamilton C02.Proofs_Iterate C02.Proofs C02.Proofs_Perm
  C02.Proofs_Spec C02.Calc_Model C02.Calc_Spec C02.Calc_Proofs_Inv C02.Calc_Proofs_Run.
Import ListNotations.
Open Scope Z_scope.

(* ---------- inert siblings ---------- *)
Definition inert (n : node) : Prop := request n = 0 /\ qmin n = 0 /\ guarantee n = 0.

Lemma inert_no_adjust n : inert n -> needs_adjust n = false.
Proof. intros [H1 [H2 H3]]. unfold needs_adjust, eff_min. rewrite H1, H2, H3. reflexivity. Qed.

Lemma inert_init n : inert n -> init_runtime n = 0.
Proof.
  intro H. unfold init_runtime. rewrite (inert_no_adjust n H).
  destruct H as [H1 [H2 H3]]. unfold eff_min. rewrite H1, H2, H3. destruct (lend n); reflexivity.
Qed.

Lemma filter_absorb {A} (a b : A -> bool) l :
  (forall x, In x l -> a x = true -> b x = true) -> filter a (filter b l) = filter a l.
Proof.
  induction l as [|x l IH]; intro H; [reflexivity|].
  cbn [filter]. destruct (b x) eqn:Eb; cbn [filter].
  - rewrite IH by (intros; apply H; cbn; auto). reflexivity.
  - destruct (a x) eqn:Ea.
    + rewrite (H x) in Eb by (cbn; auto). discriminate.
    + apply IH. intros; apply H; cbn; auto.
Qed.

Lemma filter_comm {A} (a b : A -> bool) l : filter a (filter b l) = filter b (filter a l).
Proof.
  induction l as [|x l IH]; [reflexivity|].
  cbn [filter]. destruct (a x) eqn:Ea, (b x) eqn:Eb; cbn [filter]; rewrite ?Ea, ?Eb, IH; reflexivity.
Qed.

Lemma filter_all {A} (g : A -> bool) l : (forall x, In x l -> g x = true) -> filter g l = l.
Proof.
  induction l as [|x l IH]; intro H; [reflexivity|].
  cbn [filter]. rewrite (H x) by (cbn; auto). rewrite IH by (intros; apply H; cbn; auto). reflexivity.
Qed.

Section Inert.
  Variable p : node -> bool.
  Variable ns : list node.
  Hypothesis Hp : forall n, In n ns -> p n = false -> inert n.
  Let g (e : entry) : bool := p (fst e).

  Lemma init_filter : init_es (filter p ns) = filter g (init_es ns).
  Proof.
    clear Hp. unfold init_es, g. induction ns as [|n l IH]; [reflexivity|].
    cbn [filter map fst]. destruct (p n); cbn [map]; rewrite IH; reflexivity.
  Qed.

  Lemma adj_filter : adj_es (filter p ns) = adj_es ns.
  Proof.
    unfold adj_es. rewrite init_filter. apply filter_absorb.
    intros e He Ha. apply init_In in He. destruct He as [Hn _].
    unfold g. destruct (p (fst e)) eqn:E; [reflexivity|].
    rewrite (inert_no_adjust _ (Hp _ Hn E)) in Ha. discriminate.
  Qed.

  Lemma rest_filter : rest_es (filter p ns) = filter g (rest_es ns).
  Proof. unfold rest_es. rewrite init_filter. apply filter_comm. Qed.

  Lemma to_part_filter total : to_part total (filter p ns) = to_part total ns.
  Proof.
    unfold to_part. rewrite init_filter. f_equal.
    apply sumZ_map_filter_zero. intros e He Hg.
    apply init_In in He. destruct He as [Hn Hs]. rewrite Hs. apply inert_init, Hp; assumption.
  Qed.

  Lemma redistribution_filter total :
    redistribution total (filter p ns) = filter g (redistribution total ns).
  Proof.
    rewrite !redistribution_eq, to_part_filter, adj_filter, rest_filter.
    destruct (0 <? to_part total ns); [|apply init_filter].
    rewrite filter_app. f_equal. symmetry. apply filter_all.
    intros e He. unfold g.
    pose proof (iter_fst_perm _ _ _ _ _ (iterate_Iter (S (length (adj_es ns))) (to_part total ns)
                  (wsum (adj_es ns)) (adj_es ns))) as HP.
    assert (Hin : In (fst e) (map fst (adj_es ns))).
    { eapply Permutation_in; [exact HP|]. apply in_map, He. }
    apply in_map_iff in Hin. destruct Hin as [e0 [Hfe He0]].
    apply adj_In in He0. destruct He0 as [Hn [_ Ha]]. rewrite <- Hfe.
    destruct (p (fst e0)) eqn:E; [reflexivity|].
    rewrite (inert_no_adjust _ (Hp _ Hn E)) in Ha. discriminate.
  Qed.
End Inert.

Lemma runtime_of_filter (g : entry -> bool) k es :
  (forall e, In e es -> ename e = k -> g e = true) ->
  runtime_of k (filter g es) = runtime_of k es.
Proof.
  induction es as [|e es IH]; intro H; [reflexivity|].
  cbn [filter runtime_of]. destruct (g e) eqn:Eg.
  - cbn [runtime_of]. destruct (nm (fst e) =? k); [reflexivity|].
    apply IH. intros; apply H; cbn; auto.
  - destruct (nm (fst e) =? k) eqn:E.
    + apply Z.eqb_eq in E. rewrite (H e) in Eg by (cbn; auto). discriminate.
    + apply IH. intros; apply H; cbn; auto.
Qed.

(* dropping inert siblings does not change anybody else's runtime *)
Lemma redistribution_inert total ns p k :
  (forall n, In n ns -> p n = false -> inert n) ->
  (forall n, In n ns -> nm n = k -> p n = true) ->
  runtime_of k (redistribution total (filter p ns)) = runtime_of k (redistribution total ns).
Proof.
  intros Hp Hk. rewrite (redistribution_filter p ns Hp total). apply runtime_of_filter.
  intros e He Hn. apply Hk; [|exact Hn].
  eapply Permutation_in; [apply redistribution_fst_perm|]. apply in_map, He.
Qed.

(* an inert sibling gets 0 *)
Lemma inert_runtime total ns n :
  NoDup (map nm ns) -> In n ns -> inert n ->
  runtime_of (nm n) (redistribution total ns) = Some 0.
Proof.
  intros Hnd Hn Hi. destruct (redistribution_entry total ns n Hn) as [r [Hin [_ [_ [_ Hr]]]]].
  rewrite (Hr (inert_no_adjust n Hi)), (inert_init n Hi) in Hin.
  apply runtime_of_In; [apply redistribution_nodup, Hnd|exact Hin].
Qed.

(* ---------- figure lists ---------- *)
Lemma figs_find_In k f fs : figs_find k fs = Some f -> In (k, f) fs.
Proof.
  induction fs as [|p fs IH]; [discriminate|]. cbn [figs_find].
  destruct (fst p =? k) eqn:E.
  - intro H. inversion H. apply Z.eqb_eq in E. left. destruct p; cbn in *; congruence.
  - intro H. right. apply IH, H.
Qed.

Lemma In_figs_find k f fs : NoDup (map fst fs) -> In (k, f) fs -> figs_find k fs = Some f.
Proof.
  induction fs as [|p fs IH]; intros Hnd Hin; [destruct Hin|].
  cbn [map] in Hnd. inversion Hnd as [|? ? Hnin Hnd']; subst.
  cbn [figs_find]. destruct Hin as [->|Hin].
  - cbn [fst snd]. rewrite Z.eqb_refl. reflexivity.
  - destruct (fst p =? k) eqn:E; [|apply IH; assumption].
    apply Z.eqb_eq in E. exfalso. apply Hnin. rewrite E.
    change k with (fst (k, f)). apply in_map, Hin.
Qed.

(* ---------- the K slots ---------- *)
Definition slot (fs : figs) (k : Z) : node :=
  match figs_find k fs with Some f => fig_node k f | None => zero_node k end.

Lemma pad_eq K fs : pad K fs = map (slot fs) (ids K).
Proof. reflexivity. Qed.

Lemma slot_nm fs k : nm (slot fs k) = k.
Proof. unfold slot. destruct (figs_find k fs); reflexivity. Qed.

Lemma pad_names K fs : map nm (pad K fs) = ids K.
Proof.
  rewrite pad_eq, map_map. rewrite <- (map_id (ids K)) at 2. apply map_ext. intro k. apply slot_nm.
Qed.

Lemma ids_In K k : In k (ids K) <-> 1 <= k <= Z.of_nat K.
Proof.
  unfold ids. rewrite in_map_iff. split.
  - intros [n [<- Hn]]. apply in_seq in Hn. lia.
  - intro H. exists (Z.to_nat k). split; [lia|]. apply in_seq. lia.
Qed.

Lemma ids_nodup K : NoDup (ids K).
Proof.
  unfold ids. apply FinFun.Injective_map_NoDup; [|apply seq_NoDup].
  intros a b H. lia.
Qed.

Lemma ids_length K : length (ids K) = K.
Proof. unfold ids. rewrite map_length, seq_length. reflexivity. Qed.

Lemma pad_length K fs : length (pad K fs) = K.
Proof. rewrite pad_eq, map_length. apply ids_length. Qed.

Lemma pad_names_ok K fs : names_ok (pad K fs).
Proof.
  split; [rewrite pad_names; apply ids_nodup|].
  intros n Hn. rewrite pad_length. apply ids_In. rewrite <- (pad_names K fs). apply in_map, Hn.
Qed.

Lemma obs_of_pad K fs es :
  obs_of (pad K fs) es = map (fun k => match runtime_of k es with Some r => r | None => -1 end) (ids K).
Proof. unfold obs_of. rewrite pad_length. reflexivity. Qed.

Definition keys_in (K : nat) (fs : figs) : Prop := forall k, In k (map fst fs) -> In k (ids K).

Lemma nodes_of_names fs : map nm (nodes_of fs) = map fst fs.
Proof. unfold nodes_of. rewrite map_map. reflexivity. Qed.

(* the live slots are exactly the live children *)
Lemma live_slots_perm K fs :
  NoDup (map fst fs) -> keys_in K fs ->
  Permutation (nodes_of fs) (filter (fun n => live (nm n) fs) (pad K fs)).
Proof.
  intros Hnd Hk. apply NoDup_Permutation.
  - apply (NoDup_map_inv nm). rewrite nodes_of_names. exact Hnd.
  - apply (NoDup_map_inv nm). apply NoDup_map_filter. rewrite pad_names. apply ids_nodup.
  - intro n. rewrite filter_In, pad_eq. unfold nodes_of. rewrite !in_map_iff. split.
    + intros [[k f] [<- Hin]]. cbn [fst snd]. cbn [fig_node nm].
      pose proof (In_figs_find k f fs Hnd Hin) as Hf. split.
      * exists k. split; [unfold slot; rewrite Hf; reflexivity|].
        apply Hk. change k with (fst (k, f)). apply in_map, Hin.
      * unfold live. rewrite Hf. reflexivity.
    + intros [[k [<- Hkin]] Hl]. rewrite slot_nm in Hl. unfold live in Hl. unfold slot.
      destruct (figs_find k fs) as [f|] eqn:Hf; [|discriminate].
      exists (k, f). split; [reflexivity|]. apply figs_find_In, Hf.
Qed.

Lemma dead_slot_inert K fs n :
  In n (pad K fs) -> live (nm n) fs = false -> inert n.
Proof.
  rewrite pad_eq, in_map_iff. intros [k [<- _]]. rewrite slot_nm. unfold live, slot.
  destruct (figs_find k fs); [discriminate|]. intros _. repeat split.
Qed.

(* the division among the slots, seen from a slot *)
Lemma pad_runtime_live total K fs k :
  NoDup (map fst fs) -> keys_in K fs -> live k fs = true ->
  runtime_of k (redistribution total (pad K fs)) = runtime_of k (redistribution total (nodes_of fs)).
Proof.
  intros Hnd Hk Hl.
  rewrite <- (redistribution_inert total (pad K fs) (fun n => live (nm n) fs) k).
  - apply perm_invariant; [apply live_slots_perm; assumption|].
    rewrite nodes_of_names. exact Hnd.
  - intros n Hn. apply (dead_slot_inert K), Hn.
  - intros n _ Hn. rewrite Hn. exact Hl.
Qed.

Lemma pad_runtime_dead total K fs k :
  In k (ids K) -> live k fs = false ->
  runtime_of k (redistribution total (pad K fs)) = Some 0.
Proof.
  intros Hk Hl. rewrite <- (slot_nm fs k). apply inert_runtime.
  - rewrite pad_names. apply ids_nodup.
  - rewrite pad_eq. apply in_map, Hk.
  - apply (dead_slot_inert K fs); [rewrite pad_eq; apply in_map, Hk|]. rewrite slot_nm. exact Hl.
Qed.

(* ---------- well-formed histories ---------- *)
Definition figs_wf (K : nat) (fs : figs) : Prop :=
  keys_in K fs /\ forall k f, In (k, f) fs -> 0 <= f_weight f.

Lemma figs_upd_In k g fs k' f' :
  In (k', f') (figs_upd k g fs) -> In (k', f') fs \/ exists f, In (k', f) fs /\ f' = g f.
Proof.
  unfold figs_upd. rewrite in_map_iff. intros [[k0 f0] [H Hin]]. cbn [fst snd] in H.
  destruct (k0 =? k); inversion H; subst; eauto.
Qed.

Lemma figs_upd_keys k g fs : map fst (figs_upd k g fs) = map fst fs.
Proof.
  unfold figs_upd. rewrite map_map. apply map_ext. intro p. destruct (fst p =? k); reflexivity.
Qed.

Lemma cur_upd_wf K cu k g :
  figs_wf K (cu_figs cu) ->
  (forall f, 0 <= f_weight f -> 0 <= f_weight (g f)) ->
  figs_wf K (cu_figs (cur_upd cu k g)).
Proof.
  intros [Hk Hw] Hg. unfold cur_upd. destruct (live k (cu_figs cu)); [|split; assumption].
  cbn [cu_figs]. split.
  - unfold keys_in. rewrite figs_upd_keys. exact Hk.
  - intros k' f' Hin. apply figs_upd_In in Hin. destruct Hin as [Hin|[f [Hin ->]]].
    + eapply Hw, Hin.
    + apply Hg. eapply Hw, Hin.
Qed.

Lemma cur_step_wf K cu o :
  op_ok K o = true -> figs_wf K (cu_figs cu) -> figs_wf K (cu_figs (cur_step cu o)).
Proof.
  intros Hok Hwf. destruct o; cbn [cur_step];
    try (apply cur_upd_wf; [exact Hwf|]; intros f Hf; cbn [f_weight]; try exact Hf).
  - destruct (live k (cu_figs cu)); [exact Hwf|]. destruct Hwf as [Hk Hw]. cbn [cu_figs]. split.
    + intros k' Hin. rewrite map_app in Hin. apply in_app_or in Hin. destruct Hin as [Hin|Hin].
      * apply Hk, Hin.
      * cbn in Hin. destruct Hin as [<-|[]]. apply ids_In. cbn [op_ok] in Hok.
        apply andb_prop in Hok. destruct Hok as [H1 H2]. apply Z.leb_le in H1, H2. lia.
    + intros k' f' Hin. apply in_app_or in Hin. destruct Hin as [Hin|Hin].
      * eapply Hw, Hin.
      * cbn in Hin. destruct Hin as [H|[]]. inversion H. cbn. lia.
  - cbn [op_ok] in Hok. apply Z.leb_le in Hok. exact Hok.
  - destruct (live k (cu_figs cu)); [|exact Hwf]. destruct Hwf as [Hk Hw]. cbn [cu_figs]. split.
    + intros k' Hin. apply Hk. unfold figs_del in Hin. apply in_map_iff in Hin.
      destruct Hin as [x [<- Hx]]. apply filter_In in Hx. apply in_map, Hx.
    + intros k' f' Hin. unfold figs_del in Hin. apply filter_In in Hin. eapply Hw, Hin.
  - exact Hwf.
  - exact Hwf.
Qed.

Lemma fold_cur_wf K ops : forall cu,
  wf_ops K ops = true -> figs_wf K (cu_figs cu) -> figs_wf K (cu_figs (fold_left cur_step ops cu)).
Proof.
  induction ops as [|o ops IH]; intros cu Hwf Hf; [exact Hf|].
  cbn [wf_ops forallb] in Hwf. apply andb_prop in Hwf. destruct Hwf as [Ho Hr].
  cbn [fold_left]. apply IH; [exact Hr|]. apply cur_step_wf; assumption.
Qed.

Lemma cur_of_wf K ops : wf_ops K ops = true -> figs_wf K (cu_figs (cur_of ops)).
Proof.
  intro H. apply fold_cur_wf; [exact H|]. split; [intros k []|intros k f []].
Qed.

Lemma pad_wnn K fs : figs_wf K fs -> wnn (pad K fs).
Proof.
  intros [_ Hw] n Hn. rewrite pad_eq in Hn. apply in_map_iff in Hn. destruct Hn as [k [<- _]].
  unfold slot. destruct (figs_find k fs) as [f|] eqn:E; [|cbn; lia].
  cbn. eapply Hw, figs_find_In, E.
Qed.

(* ---------- what is logged is the division among the slots ---------- *)
Lemma combine_ids {A} (h : Z -> A) l : combine l (map h l) = map (fun k => (k, h k)) l.
Proof. induction l as [|x l IH]; [reflexivity|]. cbn [map combine]. rewrite IH. reflexivity. Qed.

Theorem logged_is_division K ops :
  wf_ops K ops = true ->
  let cu := cur_of ops in
  clean K (cu_figs cu) (obs_world K (run ops))
  = obs_of (pad K (cu_figs cu)) (redistribution (cu_total cu) (pad K (cu_figs cu))).
Proof.
  intro Hwf. cbv zeta. destruct (cur_of_wf K ops Hwf) as [Hk _].
  destruct (calc_state_agrees ops) as [_ [_ [Hnd _]]].
  rewrite obs_of_pad. unfold clean, obs_world. rewrite combine_ids, map_map. cbn [fst snd].
  apply map_ext_in. intros k Hkin.
  pose proof (history_independent ops k) as HI. cbv zeta in HI.
  destruct (tab_find k (w_tab (run ops))) as [q|].
  - destruct HI as [Hl Hr]. rewrite Hl.
    rewrite (pad_runtime_live _ K _ k Hnd Hk Hl), Hr. reflexivity.
  - rewrite HI. rewrite (pad_runtime_dead _ K _ k Hkin HI). reflexivity.
Qed.

(* every C02 clause holds for the calculator's reports, against the current figures *)
Theorem calc_satisfies_spec K ops :
  wf_ops K ops = true ->
  let cu := cur_of ops in
  C02_holds (cu_total cu) (pad K (cu_figs cu)) (clean K (cu_figs cu) (obs_world K (run ops))).
Proof.
  intro Hwf. cbv zeta. rewrite (logged_is_division K ops Hwf).
  pose proof (pad_names_ok K (cu_figs (cur_of ops))) as Hok.
  pose proof (pad_wnn K _ (cur_of_wf K ops Hwf)) as Hnn.
  split; [apply obs_of_length|].
  split; [apply bounds_proved, Hok|].
  split; [apply conservation_proved; assumption|].
  split; [apply work_conserving_proved; assumption|].
  apply fair_proved; assumption.
Qed.

(* ---------- purity: equal current inputs, equal reports, whatever the histories ---------- *)
Definition same_inputs (a b : cur) : Prop :=
  cu_total a = cu_total b /\ forall k, figs_find k (cu_figs a) = figs_find k (cu_figs b).

Lemma same_inputs_perm a b :
  NoDup (map fst (cu_figs a)) -> NoDup (map fst (cu_figs b)) -> same_inputs a b ->
  Permutation (nodes_of (cu_figs a)) (nodes_of (cu_figs b)).
Proof.
  intros Ha Hb [_ Hs]. unfold nodes_of. apply Permutation_map. apply NoDup_Permutation.
  - eapply NoDup_map_inv, Ha.
  - eapply NoDup_map_inv, Hb.
  - intros [k f]. split; intro H.
    + apply figs_find_In. rewrite <- Hs. apply In_figs_find; assumption.
    + apply figs_find_In. rewrite Hs. apply In_figs_find; assumption.
Qed.

Theorem calc_pure ops1 ops2 K :
  same_inputs (cur_of ops1) (cur_of ops2) ->
  obs_world K (run ops1) = obs_world K (run ops2).
Proof.
  intros Hs. unfold obs_world. apply map_ext. intro k.
  pose proof (history_independent ops1 k) as H1. pose proof (history_independent ops2 k) as H2.
  cbv zeta in H1, H2.
  destruct (calc_state_agrees ops1) as [_ [_ [Hnd1 _]]].
  destruct (calc_state_agrees ops2) as [_ [_ [Hnd2 _]]].
  pose proof (same_inputs_perm _ _ Hnd1 Hnd2 Hs) as HP. destruct Hs as [Ht Hf].
  unfold live in H1, H2. rewrite (Hf k) in H1.
  destruct (tab_find k (w_tab (run ops1))) as [q1|], (tab_find k (w_tab (run ops2))) as [q2|].
  - destruct H1 as [_ H1], H2 as [_ H2].
    rewrite Ht in H1.
    rewrite (perm_invariant _ _ _ HP) in H2 by (rewrite nodes_of_names; exact Hnd1).
    congruence.
  - destruct H1 as [H1 _]. destruct (figs_find k (cu_figs (cur_of ops2))); discriminate.
  - destruct H2 as [H2 _]. destruct (figs_find k (cu_figs (cur_of ops2))); discriminate.
  - reflexivity.
Qed.
