(* C02 / manager — every op of the manager model and every RefreshRuntime preserves [minv];
   RefreshRuntime(k) reports, level by level along the path, the from-scratch division of the
   level's total among the current QuotaInfo figures of the siblings of that level. *)
From Coq Require Import List ZArith Bool Lia Permutation.
From Verif Require Import C02.Model C02.Proofs C02.Proofs_Perm C02.Calc_Model C02.Calc_Spec
  C02.Calc_Proofs_Inv C02.Calc_Proofs_Run C02.Mgr_Model C02.Mgr_Proofs_Base C02.Mgr_Proofs_Inv
  C02.Mgr_Proofs_Reset.
Import ListNotations.
Open Scope Z_scope.

(* ---------- UpdateQuota of a name that is not live ---------- *)
Lemma repl_absent {A} k (v : A) l : ~ In k (map fst l) -> repl k v l = l.
Proof.
  intro H. unfold repl. rewrite <- (map_id l) at 2. apply map_ext_in. intros p Hp.
  destruct (fst p =? k) eqn:E; [|reflexivity].
  apply Z.eqb_eq in E. exfalso. apply H. rewrite <- E. apply in_map, Hp.
Qed.

Lemma filter_none {A} (f : A -> bool) l : (forall x, In x l -> f x = false) -> filter f l = [].
Proof.
  induction l as [|x l IH]; intro H; [reflexivity|].
  cbn [filter]. rewrite (H x) by (cbn; auto). apply IH. intros; apply H; cbn; auto.
Qed.

Lemma kids_nil st k : minv st -> k <> 0 -> afind k (g_quotas st) = None -> kids k (g_quotas st) = [].
Proof.
  intros Hi Hk Hf. unfold kids.
  rewrite filter_none; [reflexivity|].
  intros e He. destruct (m_parent (snd e) =? k) eqn:E; [|reflexivity].
  apply Z.eqb_eq in E. exfalso.
  assert (Hfe : afind (fst e) (g_quotas st) = Some (snd e)).
  { apply In_afind; [apply (mi_nodup st Hi)|]. destruct e; exact He. }
  destruct (mi_parents st Hi _ _ Hfe) as [_ [H|H]]; congruence.
Qed.

Lemma create_inv st k par isPar lnd mx :
  minv st -> afind k (g_quotas st) = None -> k <> 0 ->
  (par = 0 \/ afind par (g_quotas st) <> None) ->
  minv (do_max k mx (remake st (g_total st) (g_quotas st ++ [(k, mkMQ par isPar (q_new lnd 0) 0 0)])
                         (aset k calc0 (g_calcs st)) (g_pods st))).
Proof.
  intros Hi Hf Hk Hpar.
  set (mq0 := mkMQ par isPar (q_new lnd 0) 0 0).
  set (st1 := remake st (g_total st) (g_quotas st ++ [(k, mq0)]) (aset k calc0 (g_calcs st)) (g_pods st)).
  assert (Hpk : par <> k).
  { destruct Hpar as [->|H]; [congruence|]. intro E. subst par. congruence. }
  unfold do_max. assert (Hf1 : afind k (g_quotas st1) = Some mq0).
  { cbn [st1 g_quotas remake]. rewrite afind_app, Hf, Z.eqb_refl. reflexivity. }
  rewrite Hf1. cbv zeta. apply rec_delta_inv.
  set (q' := q_set_max mx (m_info mq0)).
  assert (Hnk : ~ In k (map fst (g_quotas st))) by (apply afind_None, Hf).
  assert (Hq : g_quotas (upd_calc (m_parent mq0) (updateOneGroupMaxQuota k q') (set_quota k (with_info mq0 q') st1))
               = g_quotas st ++ [(k, with_info mq0 q')]).
  { cbn [upd_calc set_calc set_quota g_quotas st1 remake]. rewrite (aset_live k _ mq0) by exact Hf1.
    unfold repl. rewrite map_app. fold (repl k (with_info mq0 q') (g_quotas st)).
    rewrite repl_absent by exact Hnk. cbn [map fst]. rewrite Z.eqb_refl. reflexivity. }
  assert (Hc : forall p, get_calc p (upd_calc (m_parent mq0) (updateOneGroupMaxQuota k q') (set_quota k (with_info mq0 q') st1))
               = if par =? p then updateOneGroupMaxQuota k q' (get_calc par st)
                 else if k =? p then calc0 else get_calc p st).
  { intro p. rewrite get_calc_upd, !get_calc_set_quota. cbn [mq0 m_parent].
    assert (Hg : forall p', get_calc p' st1 = if k =? p' then calc0 else get_calc p' st).
    { intro p'. unfold get_calc. cbn [st1 g_calcs remake]. rewrite afind_aset. destruct (k =? p'); reflexivity. }
    rewrite !Hg. destruct (k =? par) eqn:E; [apply Z.eqb_eq in E; congruence|]. reflexivity. }
  constructor.
  - rewrite Hq, map_app. cbn [map fst]. apply NoDup_app_snoc; [apply (mi_nodup st Hi)|exact Hnk].
  - intro p. unfold wld. rewrite Hq, Hc, kids_app. cbn [with_info m_parent mq0 m_info].
    destruct (par =? p) eqn:E.
    + apply Z.eqb_eq in E. subst p.
      pose proof (step_inv _ (OCreate k lnd mx) (mi_worlds st Hi par)) as H.
      cbn [step wld w_tab w_calc] in H.
      assert (Hd : tab_find k (kids par (g_quotas st)) = None) by (apply tab_find_None, kids_dead, Hf).
      rewrite Hd in H. exact H.
    + rewrite app_nil_r. destruct (k =? p) eqn:E2.
      * apply Z.eqb_eq in E2. subst p. rewrite (kids_nil st k Hi Hk Hf). apply world0_calc_inv.
      * apply (mi_worlds st Hi p).
  - intros k' mq1 H1. rewrite Hq in *. rewrite afind_app in H1.
    assert (Hlive : forall j, afind j (g_quotas st) <> None ->
                     afind j (g_quotas st ++ [(k, with_info mq0 q')]) <> None).
    { intros j Hj. rewrite afind_app. destruct (afind j (g_quotas st)); [discriminate|congruence]. }
    destruct (afind k' (g_quotas st)) as [mq2|] eqn:E2.
    + inversion H1; subst mq1. destruct (mi_parents st Hi k' mq2 E2) as [Hn Hp]. split; [exact Hn|].
      destruct Hp as [Hp|Hp]; [left; exact Hp|right; apply Hlive, Hp].
    + destruct (k =? k') eqn:E3; [|discriminate]. apply Z.eqb_eq in E3. subst k'.
      inversion H1; subst mq1. cbn [with_info m_parent mq0]. split; [exact Hpk|].
      destruct Hpar as [Hp|Hp]; [left; exact Hp|right; apply Hlive, Hp].
  - rewrite Hq, afind_app, (mi_noroot st Hi). destruct (k =? 0) eqn:E; [apply Z.eqb_eq in E; congruence|reflexivity].
  - rewrite Hc. cbn [upd_calc set_calc set_quota g_total st1 remake].
    destruct (par =? 0) eqn:E.
    + apply Z.eqb_eq in E. subst par. cbn [updateOneGroupMaxQuota c_total]. apply (mi_root_total st Hi).
    + destruct (k =? 0) eqn:E2; [apply Z.eqb_eq in E2; congruence|]. apply (mi_root_total st Hi).
Qed.

Lemma update_quota_inv k par isPar lnd mx mn w st :
  minv st -> minv (update_quota true k par isPar lnd mx mn w st).
Proof.
  intro Hi. unfold update_quota. destruct (afind k (g_quotas st)) as [mq|] eqn:Hf.
  - cbv zeta.
    destruct (negb (Bool.eqb _ (m_isParent mq)) || negb (Bool.eqb _ (q_lend (m_info mq)))).
    { apply reset_inv. apply (pre_set_quota st k mq); [apply minv_pre, Hi|exact Hf|reflexivity]. }
    assert (H1 : minv (if q_max (m_info mq) =? mx then st else do_max k mx st))
      by (destruct (q_max (m_info mq) =? mx); [exact Hi|apply do_max_inv, Hi]).
    set (st1 := if q_max (m_info mq) =? mx then st else do_max k mx st) in *.
    assert (H2 : minv (if m_min mq =? mn then st1 else do_min true k mn st1))
      by (destruct (m_min mq =? mn); [exact H1|apply do_min_inv, H1]).
    destruct (q_weight (m_info mq) =? eff_weight mx w); [exact H2|apply do_weight_inv, H2].
  - cbv zeta.
    destruct (negb ((par =? 0) || match afind par (g_quotas st) with Some p => m_isParent p | None => false end)
              || (k =? 0)) eqn:E; [exact Hi|].
    apply orb_false_elim in E. destruct E as [E1 E2]. apply negb_false_iff in E1.
    apply Z.eqb_neq in E2.
    apply do_weight_inv, do_min_inv, create_inv; try assumption.
    apply orb_prop in E1. destruct E1 as [E1|E1]; [left; apply Z.eqb_eq, E1|right].
    destruct (afind par (g_quotas st)); [discriminate|discriminate].
Qed.

(* ---------- DeleteQuota ---------- *)
Lemma no_children_kids st k : has_children k st = false -> kids k (g_quotas st) = [].
Proof.
  intro H. unfold kids. rewrite filter_none; [reflexivity|].
  intros e He. unfold has_children in H.
  destruct (m_parent (snd e) =? k) eqn:E; [|reflexivity].
  assert (X : existsb (fun p => m_parent (snd p) =? k) (g_quotas st) = true)
    by (apply existsb_exists; exists e; auto).
  congruence.
Qed.

Lemma delete_quota_inv k st : minv st -> minv (delete_quota k st).
Proof.
  intro Hi. unfold delete_quota. destruct (afind k (g_quotas st)) as [mq|] eqn:Hf; [|exact Hi].
  destruct (has_children k st) eqn:Hch; [exact Hi|]. cbv zeta.
  set (pods' := filter (fun p => negb (fst (fst p) =? k)) (g_pods st)).
  set (st1 := remake st (g_total st) (adel k (g_quotas st)) (adel k (g_calcs st)) pods').
  set (st2 := upd_calc (m_parent mq) (deleteOneGroup k) st1).
  destruct (mi_parents st Hi k mq Hf) as [Hpk Hpl].
  assert (Hk0 : k <> 0) by (intro E; subst k; rewrite (mi_noroot st Hi) in Hf; discriminate).
  assert (Hi2 : minv st2).
  { assert (Hc : forall p, get_calc p st2 = if m_parent mq =? p then deleteOneGroup k (get_calc (m_parent mq) st)
                                          else if k =? p then calc0 else get_calc p st).
    { intro p. unfold st2. rewrite get_calc_upd.
      assert (Hg : forall p', get_calc p' st1 = if k =? p' then calc0 else get_calc p' st).
      { intro p'. unfold get_calc. cbn [st1 g_calcs remake]. rewrite afind_adel. destruct (k =? p'); reflexivity. }
      rewrite !Hg. destruct (k =? m_parent mq) eqn:E; [apply Z.eqb_eq in E; congruence|]. reflexivity. }
    constructor.
    - cbn [st2 upd_calc set_calc g_quotas st1 remake]. unfold adel. apply NoDup_map_filter, (mi_nodup st Hi).
    - intro p. unfold wld. rewrite Hc. cbn [st2 upd_calc set_calc g_quotas st1 remake]. rewrite kids_adel.
      destruct (m_parent mq =? p) eqn:E.
      + apply Z.eqb_eq in E. subst p.
        pose proof (step_inv _ (ODelete k) (mi_worlds st Hi (m_parent mq))) as H.
        cbn [step wld w_tab w_calc] in H. rewrite (kids_live st k mq Hi Hf) in H. exact H.
      + apply Z.eqb_neq in E. rewrite tab_del_absent by (eapply kids_not_mine; eassumption).
        destruct (k =? p) eqn:E2; [|apply (mi_worlds st Hi p)].
        apply Z.eqb_eq in E2. subst p. rewrite (no_children_kids st k Hch). apply world0_calc_inv.
    - intros k' mq1 H1. cbn [st2 upd_calc set_calc g_quotas st1 remake] in *. rewrite afind_adel in H1.
      destruct (k =? k') eqn:E; [discriminate|].
      destruct (mi_parents st Hi k' mq1 H1) as [Hn Hp]. split; [exact Hn|].
      destruct Hp as [Hp|Hp]; [left; exact Hp|right]. rewrite afind_adel.
      destruct (k =? m_parent mq1) eqn:E2; [|exact Hp].
      apply Z.eqb_eq in E2. exfalso.
      (* k' would be a child of k *)
      assert (X : existsb (fun p => m_parent (snd p) =? k) (g_quotas st) = true).
      { apply existsb_exists. exists (k', mq1). split; [apply afind_In, H1|]. cbn. apply Z.eqb_eq. congruence. }
      unfold has_children in Hch. congruence.
    - cbn [st2 upd_calc set_calc g_quotas st1 remake]. rewrite afind_adel, (mi_noroot st Hi). destruct (k =? 0); reflexivity.
    - rewrite Hc. cbn [st2 upd_calc set_calc g_total st1 remake].
      destruct (m_parent mq =? 0) eqn:E.
      + apply Z.eqb_eq in E. rewrite E. cbn [deleteOneGroup c_total]. apply (mi_root_total st Hi).
      + destruct (k =? 0) eqn:E2; [apply Z.eqb_eq in E2; congruence|]. apply (mi_root_total st Hi). }
  destruct (- limit_req (m_info mq) =? 0); [exact Hi2|apply rec_delta_inv, Hi2].
Qed.

(* ---------- pods, total ---------- *)
Lemma pod_request_delta_inv k d st : minv st -> minv (pod_request_delta k d st).
Proof. intro Hi. unfold pod_request_delta. destruct (d =? 0); [exact Hi|apply rec_delta_inv, Hi]. Qed.

Lemma pod_set_inv k s v st : minv st -> minv (pod_set k s v st).
Proof.
  intro Hi. unfold pod_set. destruct (afind k (g_quotas st)) as [mq|]; [|exact Hi].
  destruct (m_isParent mq); [exact Hi|].
  assert (H1 : minv (match pod_find k s st with
                     | Some old =>
                         let st' := pod_request_delta k (- old) st in
                         remake st' (g_total st') (g_quotas st') (g_calcs st')
                           (filter (fun p => negb ((fst (fst p) =? k) && (snd (fst p) =? s))) (g_pods st'))
                     | None => st
                     end)).
  { destruct (pod_find k s st); [|exact Hi]. cbv zeta. apply minv_pods, pod_request_delta_inv, Hi. }
  set (st1 := match pod_find k s st with Some _ => _ | None => _ end) in *.
  destruct (v =? 0); [exact H1|]. cbv zeta. apply pod_request_delta_inv.
  apply (minv_pods st1), H1.
Qed.

Lemma set_total_inv t st : minv st -> minv (set_total t st).
Proof.
  intro Hi. unfold set_total. destruct (t =? g_total st); [exact Hi|].
  apply (calc_only_inv st _ 0 (setClusterTotalResource t (get_calc 0 st))); try assumption.
  - reflexivity.
  - intro p'. rewrite get_calc_upd. reflexivity.
  - pose proof (step_inv _ (OSetTotal t) (mi_worlds st Hi 0)) as H. exact H.
  - rewrite get_calc_upd. reflexivity.
Qed.

Lemma mstep_inv st o : minv st -> minv (mstep true st o).
Proof.
  intro Hi. destruct o; cbn [mstep].
  - apply update_quota_inv, Hi.
  - apply delete_quota_inv, Hi.
  - apply pod_set_inv, Hi.
  - apply set_total_inv, Hi.
  - exact Hi.
Qed.

(* ---------- RefreshRuntime ---------- *)
(* one child's stamps are refreshed against its parent's calculator *)
Lemma refresh_one w k q :
  calc_inv w -> tab_find k (w_tab w) = Some q ->
  let q' := updateOneGroupRuntimeQuota k q (w_calc w) in
  calc_inv (mkW (w_calc w) (tab_upd k (fun _ => q') (w_tab w)))
  /\ runtime_of k (redistribution (c_total (w_calc w)) (abs (w_tab w))) = Some (q_runtime q')
  /\ node_of k q' = node_of k q.
Proof.
  intros Hi Hf q'.
  assert (Hrt : q_rver q' = c_version (w_calc w)
                /\ runtime_of k (calculateRuntime (w_calc w)) = Some (q_runtime q')).
  { unfold q', updateOneGroupRuntimeQuota. destruct (q_rver q =? c_version (w_calc w)) eqn:Ev.
    - apply Z.eqb_eq in Ev. destruct (inv_ver w Hi k q Hf) as [H|[_ H]]; [lia|]. auto.
    - cbn [q_rver q_runtime]. split; [reflexivity|].
      destruct (named_has_runtime (c_total (w_calc w)) (c_tree (w_calc w)) k) as [r Hr].
      + rewrite (inv_tree w Hi), abs_keys. apply tab_find_In in Hf.
        change k with (fst (k, q)). apply in_map, Hf.
      + unfold calculateRuntime. rewrite Hr. reflexivity. }
  assert (Hn : node_of k q' = node_of k q) by apply refresh_node.
  assert (Habs : abs (tab_upd k (fun _ => q') (w_tab w)) = abs (w_tab w)).
  { apply abs_same. intros q0 Hin. rewrite (In_tab_find _ _ _ (inv_nodup w Hi) Hin) in Hf.
    inversion Hf. subst q0. exact Hn. }
  split; [|split; [|exact Hn]].
  - constructor; cbn [w_calc w_tab].
    + rewrite tab_upd_keys. apply (inv_nodup w Hi).
    + rewrite Habs. apply (inv_tree w Hi).
    + apply agrees_upd_same; [apply (inv_req w Hi)|]. intros q0 H0.
      assert (q0 = q) by congruence. subst q0. unfold node_of in Hn. inversion Hn. reflexivity.
    + apply agrees_upd_same; [apply (inv_guar w Hi)|]. intros q0 H0.
      assert (q0 = q) by congruence. subst q0. unfold node_of in Hn. inversion Hn. reflexivity.
    + apply (inv_pos w Hi).
    + intros k' q0 H0. rewrite tab_find_upd in H0. destruct (k =? k') eqn:E.
      * apply Z.eqb_eq in E. subst k'. rewrite Hf in H0. cbn in H0. inversion H0. subst q0.
        right. exact Hrt.
      * apply (inv_ver w Hi k' q0 H0).
  - destruct Hrt as [_ Hrt]. unfold calculateRuntime in Hrt. rewrite (inv_tree w Hi) in Hrt. exact Hrt.
Qed.

(* the guard of refreshRuntimeNoLock repeats the one inside updateOneGroupRuntimeQuota *)
Lemma refresh_guard k q c :
  (if q_rver q =? c_version c then q else updateOneGroupRuntimeQuota k q c) = updateOneGroupRuntimeQuota k q c.
Proof. unfold updateOneGroupRuntimeQuota. destruct (q_rver q =? c_version c); reflexivity. Qed.

(* what only depends on the figures (not on stamps, totals, versions) *)
Definition same_figs (a b : mgr) : Prop :=
  (forall p, abs (kids p (g_quotas a)) = abs (kids p (g_quotas b)))
  /\ (forall j, option_map m_parent (afind j (g_quotas a)) = option_map m_parent (afind j (g_quotas b))).

(* the path, top first, hangs together: each element's parent is the one before it *)
Fixpoint chain (par : Z) (pth : list Z) (st : mgr) : Prop :=
  match pth with
  | [] => True
  | j :: rest => option_map m_parent (afind j (g_quotas st)) = Some par /\ chain j rest st
  end.

(* the division top-down along a path, from the figures alone *)
Fixpoint down (pth : list Z) (T : Z) (st : mgr) : option Z :=
  match pth with
  | [] => Some T
  | j :: rest =>
      match option_map m_parent (afind j (g_quotas st)) with
      | None => None
      | Some par =>
          match runtime_of j (redistribution T (abs (kids par (g_quotas st)))) with
          | Some r => down rest r st
          | None => None
          end
      end
  end.

Lemma level_inv st k mq :
  minv st -> afind k (g_quotas st) = Some mq ->
  let q' := updateOneGroupRuntimeQuota k (m_info mq) (get_calc (m_parent mq) st) in
  let st1 := set_quota k (with_info mq q') st in
  minv st1 /\ same_figs st st1
  /\ runtime_of k (redistribution (c_total (get_calc (m_parent mq) st)) (abs (kids (m_parent mq) (g_quotas st))))
     = Some (q_runtime q')
  /\ afind k (g_quotas st1) = Some (with_info mq q').
Proof.
  intros Hi Hf q' st1.
  destruct (refresh_one (wld (m_parent mq) st) k (m_info mq) (mi_worlds st Hi _) (kids_live st k mq Hi Hf))
    as [Hw [Hr Hn]].
  cbn [wld w_calc w_tab] in Hw, Hr, Hn. fold q' in Hw, Hr, Hn.
  assert (Hq1 : g_quotas st1 = repl k (with_info mq q') (g_quotas st)).
  { cbn. apply (aset_live k _ mq), Hf. }
  split; [|split; [|split]].
  - apply (set_quota_inv st k mq); try assumption. reflexivity.
  - split.
    + intro p. rewrite Hq1.
      rewrite kids_repl by (intros e He Hk; rewrite (live_unique st k mq e Hi Hf He Hk); reflexivity).
      symmetry. apply abs_same. intros q0 Hin. cbn [with_info m_info].
      assert (Hq0 : tab_find k (kids p (g_quotas st)) = Some q0).
      { apply In_tab_find; [apply kids_nodup, (mi_nodup st Hi)|exact Hin]. }
      rewrite (kids_find _ _ _ (mi_nodup st Hi)), Hf in Hq0.
      destruct (m_parent mq =? p); [|discriminate]. inversion Hq0. subst q0. exact Hn.
    + intro j. rewrite Hq1, afind_repl. destruct (k =? j) eqn:E; [|reflexivity].
      apply Z.eqb_eq in E. subst j. rewrite Hf. reflexivity.
  - exact Hr.
  - rewrite Hq1, afind_repl, Z.eqb_refl, Hf. reflexivity.
Qed.

Lemma same_figs_trans a b c : same_figs a b -> same_figs b c -> same_figs a c.
Proof. intros [H1 H2] [H3 H4]. split; intro x; [rewrite H1; apply H3|rewrite H2; apply H4]. Qed.

Lemma same_figs_upd_calc st p f : same_figs st (upd_calc p f st).
Proof. split; reflexivity. Qed.

(* ---------- the scaling step of a level ---------- *)
Lemma scale_level_off k T hk st : scale_level false k T hk st = st.
Proof. unfold scale_level. destruct (afind k (g_quotas st)); reflexivity. Qed.

Lemma scale_level_inv sc k T hk st : minv st -> minv (scale_level sc k T hk st).
Proof.
  intro Hi. unfold scale_level. destruct (afind k (g_quotas st)) as [mq|] eqn:Hf; [|exact Hi].
  cbv zeta. destruct (sc && negb (q_min (m_info mq) =? _)); [|exact Hi].
  set (nm := get_scaled hk T (esum (m_parent mq) st) (m_min mq)).
  apply (push_inv st k mq (with_info mq (q_set_min nm (m_info mq)))
           (updateOneGroupMinQuota k (q_set_min nm (m_info mq)))); try assumption; try reflexivity.
  cbn [with_info m_info].
  pose proof (step_inv _ (OSetMin k nm) (mi_worlds st Hi (m_parent mq))) as H.
  cbn [step] in H. rewrite (on_live_wld st k mq _ _ Hi Hf) in H. exact H.
Qed.

(* one level of RefreshRuntime after its scaling step *)
Lemma level_total_inv st j mq r :
  minv st -> afind j (g_quotas st) = Some mq ->
  minv (upd_calc j (setClusterTotalResource r) st).
Proof.
  intros Hi Hf.
  assert (Hj0 : j <> 0) by (intro E; subst j; rewrite (mi_noroot st Hi) in Hf; discriminate).
  apply (calc_only_inv st _ j (setClusterTotalResource r (get_calc j st))); try assumption.
  - reflexivity.
  - intro p'. rewrite get_calc_upd. reflexivity.
  - pose proof (step_inv _ (OSetTotal r) (mi_worlds st Hi j)) as H. exact H.
  - rewrite get_calc_upd. destruct (j =? 0) eqn:E; [apply Z.eqb_eq in E; congruence|].
    apply (mi_root_total st Hi).
Qed.

Lemma refresh_down_inv sc pth : forall T hk st, minv st -> minv (refresh_down sc pth T hk st).
Proof.
  induction pth as [|j rest IH]; intros T hk st Hi; [exact Hi|].
  cbn [refresh_down]. cbv zeta.
  pose proof (scale_level_inv sc j T hk st Hi) as Hi0.
  set (sta := scale_level sc j T hk st) in *.
  destruct (afind j (g_quotas sta)) as [mq|] eqn:Hf; [|exact Hi0].
  rewrite refresh_guard.
  destruct (level_inv sta j mq Hi0 Hf) as [Hi1 [_ [_ Hf1]]].
  apply IH. destruct rest; [exact Hi1|]. eapply level_total_inv; eassumption.
Qed.

Lemma refresh_down_spec pth : forall st0 st par T Tm hk,
  same_figs st0 st -> minv st -> chain par pth st0 -> c_total (get_calc par st) = T ->
  same_figs st0 (refresh_down false pth Tm hk st)
  /\ (pth <> [] ->
      exists mq', afind (last pth 0) (g_quotas (refresh_down false pth Tm hk st)) = Some mq'
                  /\ down pth T st0 = Some (q_runtime (m_info mq'))).
Proof.
  induction pth as [|j rest IH]; intros st0 st par T Tm hk Hs Hi Hch HT.
  - cbn [refresh_down]. split; [exact Hs|]. intro H. congruence.
  - cbn [chain] in Hch. destruct Hch as [Hpj Hch].
    destruct Hs as [Hs1 Hs2].
    assert (Hpj' : option_map m_parent (afind j (g_quotas st)) = Some par) by (rewrite <- Hs2; exact Hpj).
    cbn [refresh_down]. rewrite scale_level_off.
    destruct (afind j (g_quotas st)) as [mq|] eqn:Hf; [|discriminate].
    cbn [option_map] in Hpj'. inversion Hpj' as [Hpar].
    cbv zeta. rewrite refresh_guard.
    destruct (level_inv st j mq Hi Hf) as [Hi1 [Hsf1 [Hr Hf1]]].
    rewrite Hpar in *. rewrite HT in Hr. rewrite <- Hs1 in Hr.
    set (q' := updateOneGroupRuntimeQuota j (m_info mq) (get_calc par st)) in *.
    set (st1 := set_quota j (with_info mq q') st) in *.
    destruct rest as [|j2 rest'].
    + cbn [refresh_down]. split; [eapply same_figs_trans; [split; eassumption|exact Hsf1]|].
      intros _. cbn [last]. exists (with_info mq q'). split; [exact Hf1|].
      cbn [down]. rewrite Hpj. rewrite Hr. reflexivity.
    + set (st2 := upd_calc j (setClusterTotalResource (q_runtime q')) st1).
      assert (Hi2 : minv st2) by (eapply level_total_inv; eassumption).
      assert (Hs02 : same_figs st0 st2).
      { eapply same_figs_trans; [split; eassumption|]. eapply same_figs_trans; [exact Hsf1|].
        apply same_figs_upd_calc. }
      assert (HT2 : c_total (get_calc j st2) = q_runtime q').
      { unfold st2. rewrite get_calc_upd, Z.eqb_refl. reflexivity. }
      destruct (IH st0 st2 j (q_runtime q') (q_runtime q') true Hs02 Hi2 Hch HT2) as [Hs3 Hlast].
      split; [exact Hs3|]. intros _.
      destruct (Hlast ltac:(discriminate)) as [mq' [Hl Hd]].
      exists mq'. split; [exact Hl|].
      cbn [down]. rewrite Hpj, Hr. exact Hd.
Qed.

(* ---------- the path ---------- *)
Lemma path_of_head f k st :
  path_of f k st = [] \/ exists t, path_of f k st = k :: t.
Proof.
  destruct f; [left; reflexivity|]. cbn [path_of].
  destruct (k =? 0); [left; reflexivity|].
  destruct (afind k (g_quotas st)); [right; eauto|left; reflexivity].
Qed.

Lemma last_any {A} (l : list A) d d' : l <> [] -> last l d = last l d'.
Proof.
  induction l as [|x l IH]; intro H; [congruence|].
  destruct l as [|y l']; [reflexivity|]. cbn [last] in *. apply IH. discriminate.
Qed.

Lemma chain_snoc pth : forall par k st,
  chain par pth st ->
  option_map m_parent (afind k (g_quotas st)) = Some (last pth par) ->
  chain par (pth ++ [k]) st.
Proof.
  induction pth as [|j rest IH]; intros par k st Hc Hk.
  - cbn in *. auto.
  - cbn [chain app] in *. destruct Hc as [H1 H2]. split; [exact H1|].
    apply IH; [exact H2|]. destruct rest as [|z rest']; [exact Hk|].
    rewrite Hk. f_equal. change (last (j :: z :: rest') par) with (last (z :: rest') par).
    apply last_any. discriminate.
Qed.

Definition top_parent (pth : list Z) (st : mgr) : Z :=
  match pth with
  | [] => 0
  | j :: _ => match afind j (g_quotas st) with Some mq => m_parent mq | None => 0 end
  end.

Lemma path_chain f : forall k st,
  chain (top_parent (rev (path_of f k st)) st) (rev (path_of f k st)) st
  /\ (path_of f k st <> [] -> last (rev (path_of f k st)) 0 = k).
Proof.
  induction f as [|f IH]; intros k st; [cbn; split; [exact I|congruence]|].
  cbn [path_of]. destruct (k =? 0); [cbn; split; [exact I|congruence]|].
  destruct (afind k (g_quotas st)) as [mq|] eqn:Hf; [|cbn; split; [exact I|congruence]].
  cbn [rev]. destruct (IH (m_parent mq) st) as [Hc Hl].
  split; [|intros _; apply last_last].
  destruct (path_of_head f (m_parent mq) st) as [E|[t E]].
  - rewrite E. cbn [rev app top_parent chain]. rewrite Hf. cbn. auto.
  - assert (Hne : path_of f (m_parent mq) st <> []) by (rewrite E; discriminate).
    specialize (Hl Hne).
    assert (Htop : top_parent (rev (path_of f (m_parent mq) st) ++ [k]) st
                   = top_parent (rev (path_of f (m_parent mq) st)) st).
    { destruct (rev (path_of f (m_parent mq) st)) as [|x xs] eqn:Er; [|reflexivity].
      exfalso. apply Hne. apply (f_equal (@rev Z)) in Er. rewrite rev_involutive in Er. exact Er. }
    rewrite Htop. apply chain_snoc; [exact Hc|].
    rewrite Hf. cbn [option_map]. f_equal.
    destruct (rev (path_of f (m_parent mq) st)) as [|x xs] eqn:Er.
    + exfalso. apply Hne. apply (f_equal (@rev Z)) in Er. rewrite rev_involutive in Er. exact Er.
    + rewrite <- Hl. apply last_any. discriminate.
Qed.

Lemma same_figs_refl st : same_figs st st.
Proof. split; reflexivity. Qed.

Lemma refresh_inv sc k st : minv st -> minv (refresh sc k st).
Proof. intro Hi. apply refresh_down_inv, Hi. Qed.

(* RefreshRuntime(k), min-quota scaling off *)
Theorem refresh_division st k mq :
  minv st -> afind k (g_quotas st) = Some mq ->
  let pth := rev (path k st) in
  let top := top_parent pth st in
  same_figs st (refresh false k st)
  /\ exists mq', afind k (g_quotas (refresh false k st)) = Some mq'
                 /\ down pth (c_total (get_calc top st)) st = Some (q_runtime (m_info mq')).
Proof.
  intros Hi Hf pth top. unfold refresh. fold pth.
  destruct (path_chain (S (length (g_quotas st))) k st) as [Hc Hl]. fold (path k st) in Hc, Hl. fold pth in Hc, Hl.
  assert (Hk0 : k <> 0) by (intro E; subst k; rewrite (mi_noroot st Hi) in Hf; discriminate).
  assert (Hne : path k st <> []).
  { unfold path. cbn [path_of]. destruct (k =? 0) eqn:E; [apply Z.eqb_eq in E; congruence|].
    rewrite Hf. discriminate. }
  destruct (refresh_down_spec pth st st top (c_total (get_calc top st)) (g_total st) (g_hasTotal st)
              (same_figs_refl st) Hi Hc eq_refl) as [Hs' Hlast].
  split; [exact Hs'|].
  assert (Hpne : pth <> []).
  { unfold pth. intro E. apply Hne. apply (f_equal (@rev Z)) in E. rewrite rev_involutive in E. exact E. }
  destruct (Hlast Hpne) as [mq' [H1 H2]]. rewrite (Hl Hne) in H1. eauto.
Qed.

(* ---------- histories ---------- *)
Lemma mobserve1_inv sc ks : forall st, minv st -> minv (fst (mobserve1 sc ks st)).
Proof.
  induction ks as [|k ks IH]; intros st Hi; [exact Hi|].
  cbn [mobserve1]. destruct (afind k (g_quotas st)) as [mq|] eqn:Hf.
  - specialize (IH (refresh sc k st) (refresh_inv sc k st Hi)).
    destruct (mobserve1 sc ks (refresh sc k st)) as [st' o]. exact IH.
  - specialize (IH st Hi). destruct (mobserve1 sc ks st) as [st' o]. exact IH.
Qed.

Lemma mobserve_inv sc ks st : minv st -> minv (fst (mobserve sc ks st)).
Proof.
  intro Hi. unfold mobserve. destruct sc; repeat apply mobserve1_inv; exact Hi.
Qed.

Definition mostep (sc : bool) (K : nat) (st : mgr) (o : mop) : mgr := fst (mobserve sc (ids K) (mstep true st o)).
Definition mrun (sc : bool) (K : nat) (ops : list mop) : mgr := fold_left (mostep sc K) ops mgr0.

Theorem mrun_inv sc K ops : minv (mrun sc K ops).
Proof.
  unfold mrun. assert (H : forall st, minv st -> minv (fold_left (mostep sc K) ops st)).
  { induction ops as [|o ops IH]; intros st Hi; [exact Hi|].
    cbn [fold_left]. apply IH. apply mobserve_inv, mstep_inv, Hi. }
  apply H, mgr0_inv.
Qed.

(* ---------- the exported statements ---------- *)
Lemma mgr_calculators_agree sc K ops p :
  let st := mrun sc K ops in let c := get_calc p st in let tb := kids p (g_quotas st) in
  c_tree c = abs tb
  /\ (forall k, c_get k (c_reqLimit c) = match tab_find k tb with Some q => limit_req q | None => 0 end)
  /\ (forall k, c_get k (c_guaranteed c) = match tab_find k tb with Some q => q_guar q | None => 0 end)
  /\ c_total (get_calc 0 st) = g_total st.
Proof.
  cbv zeta. pose proof (mrun_inv sc K ops) as Hi.
  pose proof (mi_worlds _ Hi p) as Hw. repeat split.
  - exact (inv_tree _ Hw).
  - exact (inv_req _ Hw).
  - exact (inv_guar _ Hw).
  - exact (mi_root_total _ Hi).
Qed.

Lemma mgr_refresh_division K ops k mq :
  let st := mrun false K ops in
  afind k (g_quotas st) = Some mq ->
  let pth := rev (path k st) in
  let top := top_parent pth st in
  same_figs st (refresh false k st)
  /\ (top = 0 -> c_total (get_calc top st) = g_total st)
  /\ exists mq', afind k (g_quotas (refresh false k st)) = Some mq'
                 /\ down pth (c_total (get_calc top st)) st = Some (q_runtime (m_info mq')).
Proof.
  intros st Hf pth top. pose proof (mrun_inv false K ops) as Hi. fold st in Hi.
  destruct (refresh_division st k mq Hi Hf) as [Hs Hd].
  split; [exact Hs|]. split; [|exact Hd].
  intro E. rewrite E. apply (mi_root_total _ Hi).
Qed.
