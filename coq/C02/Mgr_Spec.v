(* C02 / manager — specification side of the "manager" stream.  The CURRENT objects (quotas with
   parent / max / min / sharedWeight / allowLent, the pods of every leaf, the cluster total) are
   recomputed from the op history alone; every quota's request is then computed FROM SCRATCH
   bottom-up (leaf: sum of its pods; Request = allowLent ? childRequest : max(childRequest, min);
   what goes upwards is min(Request, max)), and at every level of the tree the C02 clauses
   (C02.Spec.prop_code) are decided on the runtimes the IMPLEMENTATION logged for the children of
   one parent, against those from-scratch siblings and the parent's logged runtime as the total.
   With min-quota scaling on, a child is owed its DECLARED min whenever the declared mins of its
   siblings fit in what the parent has, and otherwise the scaled min of getScaledMinQuota (exact
   binary64 evaluation), whose sum must not exceed the parent's total (clause 47).
   Clause ids 41..49 (46 = equal inputs, different division). *)
From Coq Require Import List ZArith Bool.
From Verif Require Import Lib.Wire C02.Model C02.Spec C02.Calc_Model C02.Mgr_Model.
Import ListNotations.
Open Scope Z_scope.

Record obj := mkObj { o_parent : Z; o_isParent : bool; o_lend : bool; o_max : Z; o_min : Z; o_weight : Z }.
Record objs := mkObjs { os_total : Z; os_quotas : list (Z * obj); os_pods : list (Z * Z * Z);
                        os_hasTotal : bool (* the cluster total was ever set to something else *) }.
Definition objs0 : objs := mkObjs 0 [] [] false.

Definition obj_children (k : Z) (s : objs) : list (Z * obj) := filter (fun p => o_parent (snd p) =? k) (os_quotas s).

Definition objs_step (s : objs) (o : mop) : objs :=
  match o with
  | MUpdate k par isPar lnd mx mn w =>
      match afind k (os_quotas s) with
      | None =>
          let parent_ok := (par =? 0) || match afind par (os_quotas s) with Some p => o_isParent p | None => false end in
          if negb parent_ok || (k =? 0) then s
          else mkObjs (os_total s) (os_quotas s ++ [(k, mkObj par isPar lnd mx mn (eff_weight mx w))]) (os_pods s) (os_hasTotal s)
      | Some ob =>
          (* labels count only with an unchanged parent; is-parent only flips without children and pods *)
          let same_par := par =? o_parent ob in
          let quiet := match obj_children k s with [] => true | _ => false end
                       && negb (existsb (fun p => fst (fst p) =? k) (os_pods s)) in
          let isPar' := if same_par && quiet then isPar else o_isParent ob in
          let lnd' := if same_par then lnd else o_lend ob in
          mkObjs (os_total s)
                 (aset k (mkObj (o_parent ob) isPar' lnd' mx mn (eff_weight mx w)) (os_quotas s))
                 (os_pods s) (os_hasTotal s)
      end
  | MDelete k =>
      match afind k (os_quotas s), obj_children k s with
      | Some _, [] => mkObjs (os_total s) (adel k (os_quotas s)) (filter (fun p => negb (fst (fst p) =? k)) (os_pods s)) (os_hasTotal s)
      | _, _ => s
      end
  | MPod k sl v =>
      match afind k (os_quotas s) with
      | Some ob =>
          if o_isParent ob then s else
          let rest := filter (fun p => negb ((fst (fst p) =? k) && (snd (fst p) =? sl))) (os_pods s) in
          mkObjs (os_total s) (os_quotas s) (if v =? 0 then rest else rest ++ [(k, sl, v)]) (os_hasTotal s)
      | None => s
      end
  | MTotal t => if t =? os_total s then s else mkObjs t (os_quotas s) (os_pods s) true
  | MNoop => s
  end.

(* the request a quota passes upwards, from scratch *)
Fixpoint up_request (fuel : nat) (s : objs) (k : Z) (ob : obj) : Z :=
  match fuel with
  | O => 0
  | S f =>
      let cr := if o_isParent ob
                then sumZ (map (fun p => up_request f s (fst p) (snd p)) (obj_children k s))
                else sumZ (map snd (filter (fun p => fst (fst p) =? k) (os_pods s))) in
      let req := if o_lend ob then cr else Z.max cr (o_min ob) in
      Z.min req (o_max ob)
  end.

(* the children of parent g as siblings named 1..n in name order *)
Fixpoint ins_id (x : Z * obj) (s : list (Z * obj)) : list (Z * obj) :=
  match s with
  | [] => [x]
  | y :: s' => if fst x <=? fst y then x :: s else y :: ins_id x s'
  end.
Fixpoint sort_ids (l : list (Z * obj)) : list (Z * obj) :=
  match l with
  | [] => []
  | p :: t => ins_id p (sort_ids t)
  end.

Fixpoint number {A} (i : Z) (l : list A) : list (Z * A) :=
  match l with [] => [] | x :: t => (i, x) :: number (i + 1) t end.

(* the minimum a child of parent g is owed when g has [t] to divide: its DECLARED min whenever the
   declared mins of g's children fit in t (or scaling is off, or the cluster total was never set);
   otherwise the scaled min of getScaledMinQuota *)
Definition sum_min (s : objs) (g : Z) : Z := sumZ (map (fun p => o_min (snd p)) (obj_children g s)).
Definition scaling (sc : bool) (s : objs) (g t : Z) : bool :=
  sc && ((negb (g =? 0)) || os_hasTotal s) && (t <? sum_min s g).
Definition owed_min (sc : bool) (s : objs) (g t : Z) (ob : obj) : Z :=
  if scaling sc s g t then scaled_min t (o_min ob) (sum_min s g) else o_min ob.

Definition group_nodes (sc : bool) (s : objs) (g t : Z) : list (Z * node) :=   (* (quota id, sibling) *)
  let fuel := S (length (os_quotas s)) in
  map (fun ip => let '(i, (k, ob)) := ip in
                 (k, mkNode i (up_request fuel s k ob) (o_weight ob) (owed_min sc s g t ob) 0 (o_lend ob)))
      (number 1 (sort_ids (obj_children g s))).

Definition logged (K : nat) (o : list Z) (k : Z) : Z := nth (Z.to_nat k - 1) o (-1).

Definition node_eqb (a b : node) : bool :=
  (nm a =? nm b) && (request a =? request b) && (weight a =? weight b) && (qmin a =? qmin b)
  && (guarantee a =? guarantee b) && Bool.eqb (lend a) (lend b).
Fixpoint nodes_eqb (a b : list node) : bool :=
  match a, b with
  | [], [] => true
  | x :: a', y :: b' => node_eqb x y && nodes_eqb a' b'
  | _, _ => false
  end.
Fixpoint eq_lz (a b : list Z) : bool :=
  match a, b with
  | [], [] => true
  | x :: a', y :: b' => (x =? y) && eq_lz a' b'
  | _, _ => false
  end.

Notation seen := (list (Z * list node * list Z)).
Definition pure_ok (t : Z) (ns : list node) (o : list Z) (sn : seen) : bool :=
  forallb (fun e => let '(t', ns', o') := e in negb ((t' =? t) && nodes_eqb ns' ns) || eq_lz o' o) sn.

(* one group: parent g (0 = root) with total t *)
Definition group_code (sc : bool) (s : objs) (K : nat) (o : list Z) (g t : Z) (sn : seen) : Z * seen :=
  let kn := group_nodes sc s g t in
  match kn with
  | [] => (0, sn)
  | _ =>
      let ns := map snd kn in
      let rts := map (fun p => logged K o (fst p)) kn in
      let c := prop_code t ns rts in
      if negb (c =? 0) then (40 + c, sn)
      else if scaling sc s g t && negb (sumZ (map qmin ns) <=? t) then (47, sn)   (* scaled mins must fit *)
      else if negb (pure_ok t ns rts sn) then (46, sn)
      else (0, (t, ns, rts) :: sn)
  end.

Fixpoint groups_code (sc : bool) (s : objs) (K : nat) (o : list Z) (gs : list Z) (sn : seen) : Z * seen :=
  match gs with
  | [] => (0, sn)
  | g :: rest =>
      let t := if g =? 0 then os_total s else logged K o g in
      let '(c, sn') := group_code sc s K o g t sn in
      if negb (c =? 0) then (c, sn) else groups_code sc s K o rest sn'
  end.

Definition marks_ok (K : nat) (s : objs) (o : list Z) : bool :=
  forallb (fun p => match afind (fst p) (os_quotas s) with Some _ => negb (snd p =? -1) | None => snd p =? -1 end)
          (combine (ids K) o).

Definition mstep_code (sc : bool) (K : nat) (s : objs) (o : list Z) (sn : seen) : Z * seen :=
  if negb (Nat.eqb (length o) K) then (49, sn)
  else if negb (marks_ok K s o) then (48, sn)
  else groups_code sc s K o (0 :: map fst (filter (fun p => o_isParent (snd p)) (os_quotas s))) sn.

Fixpoint mcheck (sc : bool) (K : nat) (s : objs) (sn : seen) (ops : list mop) (obs : list Z) : Z :=
  match ops with
  | [] => if is_nil obs then 0 else 49
  | o :: t =>
      let s' := objs_step s o in
      let '(c, sn') := mstep_code sc K s' (firstn K obs) sn in
      if negb (c =? 0) then c else mcheck sc K s' sn' t (skipn K obs)
  end.

(* ---------- wire format ----------
   input: K+100*scale n then n records  code k a b c d e
     0 UpdateQuota(k, parent=a, flags=b (1: isParent, 2: allowLent), max=c, min=d, sharedWeight=e)
     1 DeleteQuota(k)   2 pod of (k, slot a) replaced by one requesting b (0: just removed)
     3 cluster total = a   4 observe only
   observable: after every op RefreshRuntime(q01..qK) in name order, -1 for a name that is not live *)
Definition decode_mop (c k a b x d e : Z) : mop :=
  if c =? 0 then MUpdate k a (Z.odd b) (Z.odd (b / 2)) x d e
  else if c =? 1 then MDelete k
  else if c =? 2 then MPod k a b
  else if c =? 3 then MTotal a
  else MNoop.

Fixpoint decode_mops (n : nat) (l : list Z) : list mop :=
  match n, l with
  | S n', c :: k :: a :: b :: x :: d :: e :: t => decode_mop c k a b x d e :: decode_mops n' t
  | _, _ => []
  end.

(* first integer: K + 100 * (EnableMinQuotaScale ? 1 : 0) *)
Definition mgr_decode (inp : list Z) : bool * nat * list mop :=
  match inp with
  | K :: n :: t => (100 <=? K, Z.to_nat (K mod 100), decode_mops (Z.to_nat n) t)
  | _ => (false, O, [])
  end.

Definition mgr_run_case (inp : list Z) : list Z :=
  let '(sc, K, ops) := mgr_decode inp in mrun_obs true sc K mgr0 ops.

Definition mgr_prop_case (inp obs : list Z) : Z :=
  let '(sc, K, ops) := mgr_decode inp in mcheck sc K objs0 [] ops obs.

(* non-trivial: at some step some group has at least two children, one asking for more than its
   minimum, and capacity is left after the minimums — judged on the model's own runtimes *)
Fixpoint mcontended (sc : bool) (K : nat) (s : objs) (st : mgr) (ops : list mop) : bool :=
  match ops with
  | [] => false
  | o :: t =>
      let s' := objs_step s o in
      let '(st', ob) := mobserve sc (ids K) (mstep true st o) in
      existsb (fun g =>
                 let tt := if g =? 0 then os_total s' else logged K ob g in
                 let ns := map snd (group_nodes sc s' g tt) in
                 (1 <? Z.of_nat (length ns)) && existsb needs_adjust ns && (sumZ (map init_runtime ns) <? tt))
              (0 :: map fst (filter (fun p => o_isParent (snd p)) (os_quotas s')))
      || mcontended sc K s' st' t
  end.

Definition mgr_nontrivial_case (inp : list Z) : bool :=
  let '(sc, K, ops) := mgr_decode inp in mcontended sc K objs0 mgr0 ops.

(* no known finding: the stale request after a min update (findings/C02-stale-request-after-min-update.md)
   was repaired in /repo by cf84410 and is a regression scenario now *)
Definition mgr_finding_sig (inp obs : list Z) : Z := 0.
