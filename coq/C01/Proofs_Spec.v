(* C01 — the quota attributes the model reports are those of the ElasticQuota objects the history
   delivered last (Spec.spec_shapes), for every history. *)
From Coq Require Import List ZArith Bool Lia.
From Verif Require Import Lib.VecN C01.Model C01.Spec C01.Proofs_Base C01.Proofs_Main C01.Proofs_Ghost.
Import ListNotations.
Open Scope Z_scope.

Section WithDim.
Context {D : Dim}.

Definition FE (l1 l2 : list qshape) : Prop := forall n, find l1 n = find l2 n.

Lemma find_upd_const_any l n q' m : q_name q' = n ->
  find (upd_sh l n (fun _ => q')) m =
  if m =? n then match find l n with Some _ => Some q' | None => None end else find l m.
Proof.
  intros Hn. unfold upd_sh. destruct (Z.eq_dec m n) as [->|Hne].
  - rewrite Z.eqb_refl. induction l as [|x t IH]; cbn [map find]; [reflexivity|].
    destruct (q_name x =? n) eqn:E; [rewrite Hn, Z.eqb_refl; reflexivity | rewrite E; exact IH].
  - replace (m =? n) with false by (symmetry; apply Z.eqb_neq; exact Hne).
    induction l as [|x t IH]; cbn [map find]; [reflexivity|].
    destruct (q_name x =? n) eqn:E.
    + rewrite Hn. apply Z.eqb_eq in E.
      replace (n =? m) with false by (symmetry; apply Z.eqb_neq; congruence).
      replace (q_name x =? m) with false by (symmetry; apply Z.eqb_neq; congruence). exact IH.
    + destruct (q_name x =? m); [reflexivity | exact IH].
Qed.

Lemma find_snoc l b m : find l (q_name b) = None ->
  find (l ++ [b]) m = if m =? q_name b then Some b else find l m.
Proof.
  intros Hn. destruct (m =? q_name b) eqn:E.
  - apply Z.eqb_eq in E. subst m. rewrite find_app_r by exact Hn. cbn [find]. rewrite Z.eqb_refl. reflexivity.
  - destruct (find l m) as [q|] eqn:Hf; [apply find_app_l; exact Hf|].
    rewrite find_app_r by exact Hf. cbn [find]. rewrite Z.eqb_sym, E. reflexivity.
Qed.

Lemma find_remove l n m : find (remove_sh l n) m = if m =? n then None else find l m.
Proof.
  destruct (m =? n) eqn:E; [apply Z.eqb_eq in E; subst m; apply find_remove_same|].
  apply find_remove_other. apply Z.eqb_neq. exact E.
Qed.

Lemma find_sset l sp m : find (sset l sp) m = if m =? q_name sp then Some sp else find l m.
Proof.
  unfold sset. destruct (find l (q_name sp)) as [q|] eqn:Hf.
  - rewrite find_upd_const_any by reflexivity. rewrite Hf. reflexivity.
  - apply find_snoc. exact Hf.
Qed.

(* ---------- the quota list after each model operation ---------- *)

Lemma st_sh_do_update_max s n q m : find (st_sh s) n = Some q ->
  st_sh (do_update_max s n m) = upd_sh (st_sh s) n (fun _ => mkQ (q_name q) (q_parent q) (q_isparent q) (q_lend q) m (q_min q)).
Proof. intros Hf. unfold do_update_max, pathf. cbn [path]. rewrite Hf. reflexivity. Qed.
Lemma st_sh_do_update_min s n q m : find (st_sh s) n = Some q ->
  st_sh (do_update_min s n m) = upd_sh (st_sh s) n (fun _ => mkQ (q_name q) (q_parent q) (q_isparent q) (q_lend q) (q_max q) m).
Proof. intros Hf. unfold do_update_min, pathf. cbn [path]. rewrite Hf. reflexivity. Qed.

(* setting max then min of the entry named n *)
Lemma find_max_min s n q mx mn m : find (st_sh s) n = Some q ->
  find (st_sh (do_update_min (do_update_max s n mx) n mn)) m =
  if m =? n then Some (mkQ (q_name q) (q_parent q) (q_isparent q) (q_lend q) mx mn) else find (st_sh s) m.
Proof.
  intros Hf. pose proof (find_name _ _ _ Hf) as Hn.
  assert (H1 : forall k, find (st_sh (do_update_max s n mx)) k =
             if k =? n then Some (mkQ (q_name q) (q_parent q) (q_isparent q) (q_lend q) mx (q_min q)) else find (st_sh s) k).
  { intros k. rewrite (st_sh_do_update_max s n q mx Hf), find_upd_const_any by exact Hn. rewrite Hf. reflexivity. }
  pose proof (H1 n) as H1n. rewrite Z.eqb_refl in H1n.
  rewrite (st_sh_do_update_min _ n _ mn H1n), find_upd_const_any by exact Hn. rewrite H1n. cbn [q_name q_parent q_isparent q_lend q_max].
  destruct (m =? n) eqn:E; [reflexivity|]. rewrite H1, E. reflexivity.
Qed.

Lemma qshape_eta sp : mkQ (q_name sp) (q_parent sp) (q_isparent sp) (q_lend sp) (q_max sp) (q_min sp) = sp.
Proof. destruct sp; reflexivity. Qed.

Lemma find_update_quota s sp m :
  find (st_sh (update_quota s sp)) m = if m =? q_name sp then Some sp else find (st_sh s) m.
Proof.
  unfold update_quota. destruct (find (st_sh s) (q_name sp)) as [loc|] eqn:Hf.
  - pose proof (find_name _ _ _ Hf) as Hn.
    destruct (Bool.eqb (q_lend loc) (q_lend sp) && Bool.eqb (q_isparent loc) (q_isparent sp) && (q_parent loc =? q_parent sp)) eqn:Em.
    + (* max / min only *)
      apply andb_prop in Em. destruct Em as [Em Ep]. apply andb_prop in Em. destruct Em as [El Ei].
      apply Bool.eqb_prop in El. apply Bool.eqb_prop in Ei. apply Z.eqb_eq in Ep.
      assert (Hsp : forall mx mn, mx = q_max sp -> mn = q_min sp ->
                mkQ (q_name loc) (q_parent loc) (q_isparent loc) (q_lend loc) mx mn = sp).
      { intros mx mn -> ->. rewrite Hn, El, Ei, Ep. apply qshape_eta. }
      unfold update_internal.
      destruct (negb (veqb (q_max sp) (q_max loc))) eqn:E1; destruct (negb (veqb (q_min sp) (q_min loc))) eqn:E2.
      * rewrite (find_max_min s _ loc _ _ m Hf), (Hsp _ _ eq_refl eq_refl). reflexivity.
      * apply negb_false_iff, veqb_eq in E2.
        rewrite (st_sh_do_update_max s _ loc _ Hf), find_upd_const_any by exact Hn. rewrite Hf.
        rewrite (Hsp _ _ eq_refl (eq_sym E2)). reflexivity.
      * apply negb_false_iff, veqb_eq in E1.
        rewrite (st_sh_do_update_min s _ loc _ Hf), find_upd_const_any by exact Hn. rewrite Hf.
        rewrite (Hsp _ _ (eq_sym E1) eq_refl). reflexivity.
      * apply negb_false_iff, veqb_eq in E1. apply negb_false_iff, veqb_eq in E2.
        destruct (m =? q_name sp) eqn:E; [|reflexivity]. apply Z.eqb_eq in E. subst m. rewrite Hf. f_equal.
        rewrite <- (Hsp _ _ (eq_sym E1) (eq_sym E2)). symmetry. apply qshape_eta.
    + destruct (negb (q_parent loc =? q_parent sp)).
      * (* re-parenting *)
        unfold parent_change. rewrite Hf.
        repeat match goal with
               | |- find (st_sh (if ?g then delta_used ?sx ?n ?a ?b ?f else ?sx)) _ = _ =>
                   rewrite (proj2 (st_sh_cdelta sx n a b f g))
               | |- find (st_sh (if ?g then delta_req ?sx ?n ?a ?b ?f else ?sx)) _ = _ =>
                   rewrite (proj1 (st_sh_cdelta sx n a b f g))
               end.
        set (s2 := add_blank (delete_quota s (q_name sp)) sp (st_p s (q_name sp))).
        destruct (Proofs_Quota.delete_quota_comp s (q_name sp) loc Hf) as (Esh & _).
        assert (H2 : forall k, find (st_sh s2) k =
                  if k =? q_name sp then Some (mkQ (q_name sp) (q_parent sp) (q_isparent sp) (q_lend sp) vzero vzero)
                  else find (st_sh s) k).
        { intros k. unfold s2, add_blank. cbn [st_sh]. rewrite Esh.
          rewrite find_snoc by (cbn [q_name]; apply find_remove_same). cbn [q_name].
          destruct (k =? q_name sp) eqn:E; [reflexivity|]. rewrite find_remove, E. reflexivity. }
        pose proof (H2 (q_name sp)) as H2n. rewrite Z.eqb_refl in H2n.
        rewrite (find_max_min s2 _ _ _ _ m H2n). cbn [q_name q_parent q_isparent q_lend].
        rewrite qshape_eta. destruct (m =? q_name sp) eqn:E; [reflexivity|]. rewrite H2, E. reflexivity.
      * (* flag change: updateQuotaInfoFromRemote + rebuild *)
        rewrite st_sh_reset. cbn [st_sh set_sh].
        destruct (m =? q_name sp) eqn:E.
        -- apply Z.eqb_eq in E. subst m.
           rewrite (find_upd_same (st_sh s) (q_name sp) (from_remote sp) loc (fun _ => eq_refl) Hf).
           unfold from_remote. rewrite Hn. f_equal. apply qshape_eta.
        -- apply find_upd_other; [intros; reflexivity | apply Z.eqb_neq; exact E].
  - (* creation *)
    unfold update_internal.
    set (s1 := add_blank s sp []).
    assert (H1 : forall k, find (st_sh s1) k =
              if k =? q_name sp then Some (mkQ (q_name sp) (q_parent sp) (q_isparent sp) (q_lend sp) vzero vzero)
              else find (st_sh s) k).
    { intros k. unfold s1, add_blank. cbn [st_sh]. rewrite find_snoc by (cbn [q_name]; exact Hf). reflexivity. }
    pose proof (H1 (q_name sp)) as H1n. rewrite Z.eqb_refl in H1n.
    rewrite (find_max_min s1 _ _ _ _ m H1n). cbn [q_name q_parent q_isparent q_lend].
    rewrite qshape_eta. destruct (m =? q_name sp) eqn:E; [reflexivity|]. rewrite H1, E. reflexivity.
Qed.

Lemma fe_step s l o : FE (st_sh s) l -> FE (st_sh (step s o)) (sstep l o).
Proof.
  intros HF n. pose proof (sh_pod_ops s o) as Hsh.
  destruct o; cbn [sstep]; try (rewrite Hsh; apply HF).
  - cbn [step]. rewrite find_update_quota, find_sset, HF. reflexivity.
  - cbn [step]. rewrite find_remove, <- HF.
    destruct (find (st_sh s) n0) as [q|] eqn:Hf.
    + destruct (Proofs_Quota.delete_quota_comp s n0 q Hf) as (Esh & _). rewrite Esh. apply find_remove.
    + unfold delete_quota. rewrite Hf. destruct (n =? n0) eqn:E; [apply Z.eqb_eq in E; subst n; exact Hf | reflexivity].
  - cbn [step]. rewrite st_sh_reset. apply HF.
Qed.

Theorem shapes_follow_history h : forall s, FE (st_sh (run s h)) (spec_shapes (st_sh s) h).
Proof.
  assert (H : forall h s l, FE (st_sh s) l -> FE (st_sh (run s h)) (fold_left sstep h l)).
  { induction h0 as [|o t IH]; intros s l HF; [exact HF|]. cbn [run fold_left]. apply IH. apply fe_step. exact HF. }
  intros s. apply H. intros n. reflexivity.
Qed.

(* ---------- the boolean form evaluated by prop_case (clause 14) ---------- *)

Lemma names_upd_const l n q' : q_name q' = n -> names (upd_sh l n (fun _ => q')) = names l.
Proof.
  intros Hn. unfold names, upd_sh. rewrite map_map. apply map_ext. intros c.
  destruct (q_name c =? n) eqn:E; [apply Z.eqb_eq in E; congruence | reflexivity].
Qed.

Lemma nodup_sstep l o : NoDup (names l) -> NoDup (names (sstep l o)).
Proof.
  intros Hnd. destruct o; cbn [sstep]; auto.
  - unfold sset. destruct (find l (q_name sp)) eqn:Hf.
    + rewrite names_upd_const by reflexivity. exact Hnd.
    + rewrite Proofs_Shape.names_app. cbn [names map]. apply Proofs_Shape.nodup_snoc; [exact Hnd | apply find_none; exact Hf].
  - apply names_remove_nodup. exact Hnd.
Qed.

Lemma nodup_spec h : forall l, NoDup (names l) -> NoDup (names (spec_shapes l h)).
Proof. induction h as [|o t IH]; intros l H; [exact H|]. cbn [spec_shapes fold_left]. apply IH. apply nodup_sstep. exact H. Qed.

Lemma in_names_find l n : In n (names l) <-> find l n <> None.
Proof.
  split.
  - intros Hin E. apply find_none in E. contradiction.
  - intros H. destruct (find l n) as [q|] eqn:E; [eapply find_some_in_names; eauto | congruence].
Qed.

Lemma fe_length l1 l2 : FE l1 l2 -> NoDup (names l1) -> NoDup (names l2) -> length l1 = length l2.
Proof.
  intros HF H1 H2.
  assert (Hi : forall a b, FE a b -> incl (names a) (names b)).
  { intros a b H n Hn. apply in_names_find. rewrite <- H. apply in_names_find. exact Hn. }
  pose proof (NoDup_incl_length H1 (Hi _ _ HF)) as L1.
  pose proof (NoDup_incl_length H2 (Hi _ _ (fun n => eq_sym (HF n)))) as L2.
  unfold names in L1, L2. rewrite !map_length in L1, L2. lia.
Qed.

Lemma qshape_eqb_refl q : qshape_eqb q q = true.
Proof. unfold qshape_eqb. rewrite !Z.eqb_refl, !Bool.eqb_reflx, !veqb_refl. reflexivity. Qed.

Theorem shapes_eqb_holds sm dm h :
  wf_init sm dm = true -> wf_history (init sm dm) h = true ->
  shapes_eqb (st_sh (run (init sm dm) h)) (spec_shapes (st_sh (init sm dm)) h) = true.
Proof.
  intros Hi Hwf. destruct (run_inv h _ (init_inv sm dm Hi) Hwf) as [HI _].
  pose proof (shapes_follow_history h (init sm dm)) as HF.
  pose proof (so_nodup _ (inv_shape _ HI)) as Hnd.
  assert (Hnd0 : NoDup (names (st_sh (init sm dm)))).
  { cbn. constructor; [intros [H|[]]; discriminate | constructor; [intros [] | constructor]]. }
  unfold shapes_eqb. apply andb_true_intro. split.
  - apply Nat.eqb_eq. apply fe_length; [exact HF | exact Hnd | apply nodup_spec; exact Hnd0].
  - apply forallb_forall. intros q Hq. rewrite <- HF, (in_find _ _ Hnd Hq). apply qshape_eqb_refl.
Qed.

End WithDim.
