(* C01 — every operation preserves the invariant; the main theorems. *)
From Coq Require Import List ZArith Bool Lia.
From Verif Require Import Lib.VecN C01.Model C01.Spec C01.Proofs_Base C01.Proofs_Walk C01.Proofs_Delta
  C01.Proofs_Unique C01.Proofs_PodList C01.Proofs_Sections C01.Proofs_Pods C01.Proofs_Shape C01.Proofs_CWalk
  C01.Proofs_Detach C01.Proofs_SetMaxMin C01.Proofs_Mid C01.Proofs_Reset C01.Proofs_Quota C01.Proofs_Reparent.
Import ListNotations.
Open Scope Z_scope.

Section WithDim.
Context {D : Dim}.

Definition Inv2 (s : state) : Prop := Inv s /\ SpecOk (st_sh s).

(* ---------- the pod handlers do not touch the quota list ---------- *)

Lemma sh_delta_req s n d dnp f : st_sh (delta_req s n d dnp f) = st_sh s. Proof. reflexivity. Qed.
Lemma sh_delta_used s n d dnp f : st_sh (delta_used s n d dnp f) = st_sh s. Proof. reflexivity. Qed.
Lemma sh_upd_pod s q id f : st_sh (upd_pod s q id f) = st_sh s. Proof. reflexivity. Qed.
Lemma sh_cache_add s q id : st_sh (cache_add s q id) = st_sh s.
Proof. unfold cache_add. destruct (exists_q s q && negb (has_pod (st_p s q) id)); reflexivity. Qed.
Lemma sh_cache_del s q id : st_sh (cache_del s q id) = st_sh s.
Proof. unfold cache_del. destruct (exists_q s q); reflexivity. Qed.
Lemma sh_set_asg s q id b : st_sh (set_asg s q id b) = st_sh s.
Proof. unfold set_asg. destruct (exists_q s q); reflexivity. Qed.
Lemma sh_pod_req_sec s q o n : st_sh (pod_req_sec s q o n) = st_sh s.
Proof.
  unfold pod_req_sec. destruct (exists_q s q); [|reflexivity].
  destruct (viszero (vsub (oreq n) (oreq o)) && viszero (vsub (onp n) (onp o))); reflexivity.
Qed.
Lemma sh_pod_used_sec s q o n : st_sh (pod_used_sec s q o n) = st_sh s.
Proof.
  unfold pod_used_sec. destruct (exists_q s q); [|reflexivity].
  destruct (negb (oasg (st_p s q) n) && negb (oasg (st_p s q) o)); [reflexivity|].
  destruct (viszero (vsub (oreq n) (oreq o)) && viszero (vsub (onp n) (onp o))); reflexivity.
Qed.

End WithDim.

Ltac sh_simpl :=
  repeat (rewrite ?sh_pod_used_sec, ?sh_pod_req_sec, ?sh_cache_del, ?sh_cache_add, ?sh_set_asg;
          try match goal with |- context [if ?c then _ else _] => destruct c end);
  try reflexivity.

Section WithDimB.
Context {D : Dim}.

Lemma sh_add_new_pod s q p : st_sh (add_new_pod s q p) = st_sh s.
Proof. unfold add_new_pod. sh_simpl. Qed.
Lemma sh_remove_pod_req_first s q p : st_sh (remove_pod_req_first s q p) = st_sh s.
Proof. unfold remove_pod_req_first. sh_simpl. Qed.

End WithDimB.

Ltac shr := repeat first [rewrite sh_add_new_pod | rewrite sh_remove_pod_req_first | rewrite sh_pod_used_sec
                          | rewrite sh_pod_req_sec | rewrite sh_cache_del | rewrite sh_cache_add | rewrite sh_set_asg].

Section WithDimC.
Context {D : Dim}.

Lemma sh_pod_ops s o :
  match o with OpQuotaUpdate _ | OpQuotaDelete _ | OpReset => True | _ => st_sh (step s o) = st_sh s end.
Proof.
  destruct o; cbn [step]; auto.
  - unfold on_pod_add. repeat match goal with |- context [if ?c then _ else _] => destruct c end; shr; reflexivity.
  - unfold on_pod_update.
    repeat match goal with |- context [if ?c then _ else _] => destruct c end; shr; reflexivity.
  - unfold on_pod_delete. destruct (exists_in s q (p_id p)); shr; reflexivity.
  - unfold reserve_pod. repeat match goal with |- context [if ?c then _ else _] => destruct c end; shr; reflexivity.
  - unfold unreserve_pod. repeat match goal with |- context [if ?c then _ else _] => destruct c end; shr; reflexivity.
  - unfold migrate_pod. repeat match goal with |- context [if ?c then _ else _] => destruct c end; shr; reflexivity.
Qed.

(* ---------- the quota list after a quota operation: entries named n, or old entries ---------- *)

Lemma do_update_max_sh s n m x : In x (st_sh (do_update_max s n m)) -> q_name x = n \/ In x (st_sh s).
Proof.
  unfold do_update_max. destruct (pathf (st_sh s) n) as [|h rest]; [auto|].
  destruct (find (st_sh s) n) as [q|] eqn:Hf; [|auto]. cbn [st_sh]. intros Hx.
  apply in_upd_const in Hx. destruct Hx as [->|Hx]; [left; cbn; eapply find_name; eauto | right; exact Hx].
Qed.
Lemma do_update_min_sh s n m x : In x (st_sh (do_update_min s n m)) -> q_name x = n \/ In x (st_sh s).
Proof.
  unfold do_update_min. destruct (pathf (st_sh s) n) as [|h rest]; [auto|].
  destruct (find (st_sh s) n) as [q|] eqn:Hf; [|auto]. cbn [st_sh]. intros Hx.
  apply in_upd_const in Hx. destruct Hx as [->|Hx]; [left; cbn; eapply find_name; eauto | right; exact Hx].
Qed.

Lemma update_internal_sh s sp old x :
  In x (st_sh (update_internal s sp old)) -> q_name x = q_name sp \/ In x (st_sh s).
Proof.
  unfold update_internal. intros Hx.
  assert (H1 : forall y, In y (st_sh (match old with Some _ => s | None => add_blank s sp [] end)) ->
             q_name y = q_name sp \/ In y (st_sh s)).
  { intros y Hy. destruct old; [right; exact Hy|]. unfold add_blank in Hy. cbn [st_sh] in Hy.
    apply in_app_or in Hy. destruct Hy as [Hy|[<-|[]]]; [right; exact Hy | left; reflexivity]. }
  set (s1 := match old with Some _ => s | None => add_blank s sp [] end) in *.
  assert (H2 : forall y, In y (st_sh (if match old with Some o => negb (veqb (q_max sp) (q_max o)) | None => true end
                                      then do_update_max s1 (q_name sp) (q_max sp) else s1)) ->
             q_name y = q_name sp \/ In y (st_sh s)).
  { intros y Hy. destruct (match old with Some o => negb (veqb (q_max sp) (q_max o)) | None => true end); [|auto].
    apply do_update_max_sh in Hy. destruct Hy as [Hy|Hy]; auto. }
  destruct (match old with Some o => negb (veqb (q_min sp) (q_min o)) | None => true end); [|auto].
  apply do_update_min_sh in Hx. destruct Hx as [Hx|Hx]; auto.
Qed.

Lemma spec_ok_from s s' n : SpecOk (st_sh s) -> 3 <= n ->
  (forall x, In x (st_sh s') -> q_name x = n \/ In x (st_sh s)) -> SpecOk (st_sh s').
Proof.
  intros Hs H3 H x Hx Hsp. destruct (H x Hx) as [E|Hin]; [|apply Hs; assumption].
  rewrite E, (special_ge3 _ H3) in Hsp. discriminate.
Qed.

(* ---------- UpdateQuota ---------- *)

Lemma update_quota_inv s sp : Inv2 s -> wf_op s (OpQuotaUpdate sp) = true -> Inv2 (update_quota s sp).
Proof.
  intros [HI Hspec] Hwf. cbn [wf_op] in Hwf.
  apply andb_prop in Hwf. destruct Hwf as [Hwf W].
  apply andb_prop in Hwf. destruct Hwf as [Hwf W1].
  apply andb_prop in Hwf. destruct Hwf as [Hwf W2].
  apply andb_prop in Hwf. destruct Hwf as [Hwf W3].
  apply andb_prop in Hwf. destruct Hwf as [Hwf W4].
  apply andb_prop in Hwf. destruct Hwf as [H3 W5].
  apply Z.leb_le in H3.
  apply vnonnegb_iff in W4. apply vnonnegb_iff in W5.
  apply negb_true_iff in W1. apply Z.eqb_neq in W1.
  apply negb_true_iff in W2.
  assert (Hcyc : ~ In (q_name sp) (pathf (st_sh s) (q_parent sp))).
  { intros Hin. apply (proj2 (existsb_eqb_in _ _)) in Hin. congruence. }
  assert (Hisp : q_isparent sp = true \/ forall c, In c (st_sh s) -> q_parent c <> q_name sp).
  { apply orb_prop in W. destruct W as [W|W]; [left; exact W | right].
    apply negb_true_iff in W. apply has_children_false. exact W. }
  unfold update_quota. destruct (find (st_sh s) (q_name sp)) as [loc|] eqn:Hf.
  - destruct (Bool.eqb (q_lend loc) (q_lend sp) && Bool.eqb (q_isparent loc) (q_isparent sp)
              && (q_parent loc =? q_parent sp)) eqn:Emeta.
    + split; [apply update_internal_old_inv; assumption|].
      apply (spec_ok_from s _ (q_name sp) Hspec H3). apply update_internal_sh.
    + destruct (q_parent loc =? q_parent sp) eqn:Ep; cbn [negb].
      * apply Z.eqb_eq in Ep.
        destruct (flag_change_inv s sp loc HI Hspec Hf Ep H3 W5 W4 Hisp) as [HI' Hsh'].
        split; [exact HI'|]. apply (spec_ok_from s _ (q_name sp) Hspec H3).
        intros x Hx. rewrite Hsh' in Hx. apply in_upd_const in Hx.
        destruct Hx as [->|Hx]; [left; cbn; eapply find_name; eauto | right; exact Hx].
      * destruct (parent_change_inv s sp loc HI Hf H3 W3 W1 Hcyc Hisp W5 W4) as [HI' Hsh'].
        split; [exact HI'|]. apply (spec_ok_from s _ (q_name sp) Hspec H3 Hsh').
  - split; [apply update_internal_new_inv; assumption|].
    apply (spec_ok_from s _ (q_name sp) Hspec H3). apply update_internal_sh.
Qed.

(* ---------- one step ---------- *)

Theorem step_inv s o : Inv2 s -> wf_op s o = true -> Inv2 (step s o).
Proof.
  intros [HI Hspec] Hwf.
  pose proof (sh_pod_ops s o) as Hsh.
  destruct o; cbn [step] in *.
  - split; [apply on_pod_add_inv; assumption | rewrite Hsh; exact Hspec].
  - split; [apply on_pod_update_inv; assumption | rewrite Hsh; exact Hspec].
  - split; [apply on_pod_delete_inv; assumption | rewrite Hsh; exact Hspec].
  - split; [apply reserve_pod_inv; assumption | rewrite Hsh; exact Hspec].
  - split; [apply unreserve_pod_inv; assumption | rewrite Hsh; exact Hspec].
  - split; [apply migrate_pod_inv; assumption | rewrite Hsh; exact Hspec].
  - apply update_quota_inv; [split; assumption | exact Hwf].
  - split; [apply delete_quota_inv; assumption|].
    destruct (find (st_sh s) n) as [q|] eqn:Hf.
    + destruct (delete_quota_comp s n q Hf) as (E & _). rewrite E.
      intros x Hx Hs. apply in_remove in Hx. apply Hspec; tauto.
    + unfold delete_quota. rewrite Hf. exact Hspec.
  - destruct (reset_op_inv s HI Hspec) as [HI' Hsh']. split; [exact HI' | rewrite Hsh'; exact Hspec].
  - split; assumption.
Qed.

(* ---------- the initial state ---------- *)

Lemma init_inv sm dm : wf_init sm dm = true -> Inv2 (init sm dm).
Proof.
  intros Hwf. unfold wf_init in Hwf. apply andb_prop in Hwf. destruct Hwf as [Hs Hd].
  apply vnonnegb_iff in Hs. apply vnonnegb_iff in Hd.
  assert (Hnc : forall k c, In c (st_sh (init sm dm)) -> q_parent c <> k \/ k = 0).
  { intros k c [<-|[<-|[]]]; cbn; destruct (Z.eq_dec k 0); auto. }
  split.
  - constructor.
    + constructor; cbn [init st_sh].
      * cbn. constructor; [intros [H|[]]; discriminate | constructor; [intros [] | constructor]].
      * intros q [<-|[<-|[]]]; cbn; lia.
      * intros q [<-|[<-|[]]]; cbn; eexists; (econstructor; [discriminate | cbn; reflexivity | cbn; constructor]).
      * intros c [<-|[<-|[]]]; left; reflexivity.
      * intros q [<-|[<-|[]]]; cbn; split; auto; apply vnonneg_zero.
    + cbn. constructor.
    + intros q Hq.
      assert (Hz : forall g, sumc (st_sh (init sm dm)) g (q_name q) = vzero).
      { intros g. apply sumc_no_children. intros c Hc E.
        destruct Hc as [<-|[<-|[]]]; cbn in E; destruct Hq as [<-|[<-|[]]]; cbn in E; discriminate. }
      constructor; unfold okA, okN, okB, okU, okUN, okS; rewrite ?Hz; cbn [init st_r st_u st_p]; cbn; rewrite ?vadd_0_l; auto using nonneg_r0, nonneg_u0.
      destruct Hq as [<-|[<-|[]]]; reflexivity.
    + intros q Hq. reflexivity.
  - intros q [<-|[<-|[]]] _; reflexivity.
Qed.

(* ---------- histories ---------- *)

Lemma run_inv h : forall s, Inv2 s -> wf_history s h = true -> Inv2 (run s h).
Proof.
  induction h as [|o t IH]; intros s HI Hwf; [exact HI|].
  cbn [wf_history] in Hwf. apply andb_prop in Hwf. destruct Hwf as [Ho Ht].
  cbn [run fold_left]. apply IH; [apply step_inv; assumption | exact Ht].
Qed.

Lemma trace_inv h : forall s, Inv2 s -> wf_history s h = true -> forall s', In s' (trace s h) -> Inv2 s'.
Proof.
  induction h as [|o t IH]; intros s HI Hwf s' Hin; [destruct Hin|].
  cbn [wf_history] in Hwf. apply andb_prop in Hwf. destruct Hwf as [Ho Ht].
  cbn [trace] in Hin. destruct Hin as [<-|Hin]; [apply step_inv; assumption|].
  apply (IH (step s o)); [apply step_inv; assumption | exact Ht | exact Hin].
Qed.

(* the decision procedure returns 0 on every state reached *)
Theorem accounting_exact sm dm h :
  wf_init sm dm = true -> wf_history (init sm dm) h = true ->
  state_code (run (init sm dm) h) = 0 /\
  forall s', In s' (trace (init sm dm) h) -> state_code s' = 0.
Proof.
  intros Hi Hh. pose proof (init_inv sm dm Hi) as HI0. split.
  - apply state_code_ok, inv_state_ok. apply (run_inv h _ HI0 Hh).
  - intros s' Hin. apply state_code_ok, inv_state_ok. apply (trace_inv h _ HI0 Hh s' Hin).
Qed.

(* ---------- the figures are a function of the surviving objects ---------- *)

Lemma rc_creq_ext f : forall s1 s2 q, st_sh s1 = st_sh s2 -> (forall k, st_p s1 k = st_p s2 k) ->
  rc_creq f s1 q = rc_creq f s2 q.
Proof.
  induction f as [|f IH]; intros s1 s2 q Hsh Hp; [reflexivity|]. cbn [rc_creq].
  rewrite Hsh, Hp. f_equal. apply vsum_map_ext. intros c _. rewrite (IH s1 s2 c Hsh Hp). reflexivity.
Qed.
Lemma rc_sum_ext g f : forall s1 s2 q, st_sh s1 = st_sh s2 -> (forall k, st_p s1 k = st_p s2 k) ->
  rc_sum g f s1 q = rc_sum g f s2 q.
Proof.
  induction f as [|f IH]; intros s1 s2 q Hsh Hp; [reflexivity|]. cbn [rc_sum].
  rewrite Hsh, Hp. f_equal. apply vsum_map_ext. intros c _. apply IH; assumption.
Qed.

Theorem figures_determined s1 s2 :
  state_ok s1 -> state_ok s2 -> st_sh s1 = st_sh s2 -> (forall k, st_p s1 k = st_p s2 k) ->
  forall q, In q (st_sh s1) ->
    st_r s1 (q_name q) = st_r s2 (q_name q) /\ st_u s1 (q_name q) = st_u s2 (q_name q).
Proof.
  intros [_ H1] [_ H2] Hsh Hp q Hq.
  pose proof (H1 q Hq) as A. pose proof (H2 q ltac:(rewrite <- Hsh; exact Hq)) as B.
  unfold quota_ok in A, B. cbn zeta in A, B.
  assert (Hfuel : fuel_of s1 = fuel_of s2) by (unfold fuel_of; rewrite Hsh; reflexivity).
  destruct A as (A1 & A2 & A3 & A4 & A5 & A6 & A7 & A8 & A9 & _).
  destruct B as (B1 & B2 & B3 & B4 & B5 & B6 & B7 & B8 & B9 & _).
  unfold rc_req in A6, B6.
  rewrite Hfuel, (rc_creq_ext _ s1 s2 q Hsh Hp) in A5.
  rewrite Hfuel, (rc_creq_ext _ s1 s2 q Hsh Hp) in A6.
  rewrite Hfuel, (rc_sum_ext _ _ s1 s2 q Hsh Hp) in A7.
  rewrite Hfuel, (rc_sum_ext _ _ s1 s2 q Hsh Hp) in A8.
  rewrite Hfuel, (rc_sum_ext _ _ s1 s2 q Hsh Hp) in A9.
  rewrite Hp in A1, A2, A3, A4.
  destruct (st_r s1 (q_name q)), (st_r s2 (q_name q)), (st_u s1 (q_name q)), (st_u s2 (q_name q)).
  cbn in A1, A2, A3, A4, A5, A6, A7, A8, A9, B1, B2, B3, B4, B5, B6, B7, B8, B9. split; congruence.
Qed.

Lemma st_p_readd_fold l : forall st, st_p (fold_left readd l st) = st_p st.
Proof.
  induction l as [|[n [[[a b] c] d]] l IH]; intros st; [reflexivity|]. cbn [fold_left]. rewrite IH. reflexivity.
Qed.
Lemma st_p_reset s : st_p (reset s) = st_p s.
Proof. unfold reset. rewrite st_p_readd_fold. reflexivity. Qed.

(* the full rebuild (the code's own differential oracle) reproduces the incremental figures *)
Theorem rebuild_agrees s : Inv2 s -> forall q, In q (st_sh s) ->
  st_r (reset s) (q_name q) = st_r s (q_name q) /\ st_u (reset s) (q_name q) = st_u s (q_name q).
Proof.
  intros [HI Hspec] q Hq. destruct (reset_op_inv s HI Hspec) as [HI' Hsh'].
  apply (figures_determined (reset s) s (inv_state_ok _ HI') (inv_state_ok _ HI) Hsh').
  - intros k. rewrite st_p_reset. reflexivity.
  - rewrite Hsh'. exact Hq.
Qed.

(* corollaries spelled out *)
Theorem no_double_count sm dm h :
  wf_init sm dm = true -> wf_history (init sm dm) h = true -> NoDup (all_pod_ids (run (init sm dm) h)).
Proof. intros Hi Hh. apply (inv_ids _ (proj1 (run_inv h _ (init_inv sm dm Hi) Hh))). Qed.

Theorem figures_nonneg sm dm h :
  wf_init sm dm = true -> wf_history (init sm dm) h = true ->
  forall q, In q (st_sh (run (init sm dm) h)) ->
    nonneg_r (st_r (run (init sm dm) h) (q_name q)) = true /\ nonneg_u (st_u (run (init sm dm) h) (q_name q)) = true.
Proof.
  intros Hi Hh q Hq. destruct (inv_q _ (proj1 (run_inv h _ (init_inv sm dm Hi) Hh)) q Hq). auto.
Qed.

End WithDimC.
