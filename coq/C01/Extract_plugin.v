(* C01 — stream "plugin": the plugin's informer handlers and migrateDefaultQuotaGroupsPod.
   input : sysMax(2) defMax(2) k, then k records of 15 integers (pod = id cpu mem np bound ign)
             1 PodAdd      label pod
             2 PodUpdate   labelNew labelOld newpod oldpod
             3 PodDelete   label pod
             6 QuotaAdd    name parent isParent lend maxCpu maxMem minCpu minMem (weights ignored)
             7 QuotaUpdate (same layout)
             8 QuotaDelete name
             9 Migrate     (one run of migrateDefaultQuotaGroupsPod)
   observable: the summaries after every operation (format of Codec.v). *)
From Coq Require Import List ZArith Bool.
From Verif Require Import Lib.Wire Lib.VecN C01.Dim2 C01.Model C01.Spec C01.Codec C01.Plugin.
Import ListNotations.
Open Scope Z_scope.

Local Existing Instance D2.

Definition dec_pop (r : list Z) : pop :=
  let a := fun i => nthZ r i in
  let sp := dec_qshape r in
  match a 0%nat with
  | 1 => PlPodAdd (mkPP (dec_pod r 2) (a 1%nat))
  | 2 => PlPodUpdate (mkPP (dec_pod r 3) (a 1%nat)) (mkPP (dec_pod r (3 + pod_len)) (a 2%nat))
  | 3 => PlPodDelete (mkPP (dec_pod r 2) (a 1%nat))
  | 6 => PlQuotaAdd sp
  | 7 => PlQuotaUpdate sp
  | 8 => PlQuotaDelete (a 1%nat)
  | _ => PlMigrate
  end.

Fixpoint dec_pops (k : nat) (l : list Z) : list pop :=
  match k with
  | O => []
  | S k' => dec_pop (firstn rec_len l) :: dec_pops k' (skipn rec_len l)
  end.

Definition pdecode (inp : list Z) : vec * vec * list pop :=
  (dec_vec inp 0, dec_vec inp dim, dec_pops (Z.to_nat (nthZ inp (2 * dim))) (skipn (2 * dim + 1) inp)).

Definition run_case (inp : list Z) : list Z :=
  let '(sm, dm, ops) := pdecode inp in
  flat_map (fun s => observe (ps_core s)) (ptrace (pinit sm dm) ops).

(* the quota objects the plugin was handed, from the history alone *)
Definition psstep (sh : list qshape) (o : pop) : list qshape :=
  match o with
  | PlQuotaAdd sp => match find sh (q_name sp) with Some _ => sh | None => sset sh sp end
  | PlQuotaUpdate sp => sset sh sp
  | PlQuotaDelete n => remove_sh sh n
  | _ => sh
  end.

Fixpoint pcheck (fuel : nat) (sh : list qshape) (s : pstate) (rest : list pop) (obs : list Z) : Z :=
  match fuel, rest with
  | S f, o :: t =>
      if pwf_op s o then
        match obs with
        | [] => 99
        | _ =>
            let s' := pstep s o in
            let sh' := psstep sh o in
            let '(snap, leak, obs') := dec_snapshot [] obs in
            let c := if negb (leak =? 0) then 13
                     else if negb (shapes_eqb (st_sh snap) sh') then 14
                     else state_code (refill (ps_alive s') snap) in
            if c =? 0 then pcheck f sh' s' t obs' else c
        end
      else 0
  | _, _ => 0
  end.

Definition prop_case (inp obs : list Z) : Z :=
  let '(sm, dm, ops) := pdecode inp in
  if negb (wf_init sm dm) then 0
  else if (hdZ obs =? -777777) && (Nat.eqb (length obs) 1) then 98
  else pcheck (length ops) (st_sh (init sm dm)) (pinit sm dm) ops obs.

(* ---------- known shapes ---------- *)

(* the stored object handed to MigratePod differs from the last delivered one *)
Definition stale_migration (s : pstate) : bool :=
  existsb (fun x => let '(id, o) := x in
             negb ((resolve (ps_core s) (pp_label o)) =? 2)
             && match alookup (ps_alive s) id with
                | Some cur => negb (ppod_eqb cur o)
                | None => true
                end) (ps_dobj s).

(* a delete event that is routed to the pod's own (new) quota while the pod is cached in the default one *)
Definition lost_delete (s : pstate) (o : pop) : bool :=
  match o with
  | PlPodDelete p => negb (resolve (ps_core s) (pp_label p) =? 2) && in_default (ps_core s) (p_id (pp_pod p))
  | _ => false
  end.

(* sig 1: a pod sits in the default quota's cache and in its own quota's cache (update event
          between the creation of its quota and the next migration run)
   sig 2: a migration run moves a pod with a stale stored object, or a delete event misses the pod
          that still waits in the default quota (so that a deleted pod is migrated later)
   The shape must be what makes the MODEL's figures wrong: a wrong figure before the first shape
   gives 0. *)
Fixpoint psig (fuel : nat) (s : pstate) (rest : list pop) : Z :=
  match fuel, rest with
  | S f, o :: t =>
      if pwf_op s o then
        let s' := pstep s o in
        if negb (nodupb (all_pod_ids (ps_core s'))) then 1
        else if (match o with PlMigrate => true | _ => false end) && stale_migration s then 2
        else if lost_delete s o then 2
        else if negb (pstate_code s' =? 0) then 0
        else psig f s' t
      else 0
  | _, _ => 0
  end.

Fixpoint eq_listZ (a b : list Z) : bool :=
  match a, b with
  | [], [] => true
  | x :: a', y :: b' => (x =? y) && eq_listZ a' b'
  | _, _ => false
  end.

(* a known shape only explains an observable that is exactly the faithful model's: any other wrong
   figure at the plugin layer keeps signature 0 and is reported as a plain violation *)
Definition finding_sig (inp obs : list Z) : Z :=
  let '(sm, dm, ops) := pdecode inp in
  if eq_listZ obs (run_case inp) then psig (length ops) (pinit sm dm) ops else 0.

Definition nontrivial_case (inp : list Z) : bool :=
  let '(sm, dm, ops) := pdecode inp in
  wf_init sm dm && pwf_history (pinit sm dm) ops
  && existsb (fun o => match o with PlMigrate => true | _ => false end) ops
  && existsb (fun s => negb (viszero (u_used (st_u (ps_core s) 2))) || existsb (fun q => (3 <=? q_name q) && negb (viszero (r_req (st_r (ps_core s) (q_name q))))) (st_sh (ps_core s)))
             (ptrace (pinit sm dm) ops).

Require Extraction.
Require Import ExtrOcamlBasic.
Extraction "model.ml" run_case prop_case nontrivial_case finding_sig.
