(* C01 — the ghost "counted request" of every cached pod is the request of the object the history
   delivered last for that pod (the identification used when the implementation's observable is
   judged: Codec.mk_pinfo / ghost_matches). *)
From Coq Require Import List ZArith Bool Lia.
From Verif Require Import Lib.VecN C01.Model C01.Spec C01.Codec C01.Proofs_Base C01.Proofs_PodList
  C01.Proofs_Sections C01.Proofs_Pods C01.Proofs_Main C01.Proofs_Conc.
Import ListNotations.
Open Scope Z_scope.

Section WithDim.
Context {D : Dim}.

Definition key (pi : pinfo) : vec * vec := (pi_areq pi, pi_anp pi).
Definition pkey (p : pod) : vec * vec := (p_req p, p_npreq p).
Definition kv (s : state) (id q : Z) : option (vec * vec) := option_map key (find_pod s q id).

(* ---------- what each section does to the keys (no invariant needed) ---------- *)

Lemma find_map_pod ps id id' f : (forall pi, pi_id (f pi) = pi_id pi) ->
  List.find (fun pi => pi_id pi =? id') (map_pod ps id f) =
  if id' =? id then option_map f (List.find (fun pi => pi_id pi =? id') ps)
  else List.find (fun pi => pi_id pi =? id') ps.
Proof.
  intros Hf. unfold map_pod. induction ps as [|x t IH]; [destruct (id' =? id); reflexivity|]. cbn [map List.find].
  destruct (pi_id x =? id) eqn:E.
  - rewrite Hf. apply Z.eqb_eq in E. destruct (pi_id x =? id') eqn:E2.
    + apply Z.eqb_eq in E2. replace (id' =? id) with true by (symmetry; apply Z.eqb_eq; congruence). reflexivity.
    + exact IH.
  - destruct (pi_id x =? id') eqn:E2; [|exact IH].
    apply Z.eqb_eq in E2. replace (id' =? id) with false; [reflexivity|].
    symmetry. apply Z.eqb_neq. apply Z.eqb_neq in E. congruence.
Qed.

Lemma find_filter_id ps id id' :
  List.find (fun pi => pi_id pi =? id') (filter (fun pi => negb (pi_id pi =? id)) ps) =
  if id' =? id then None else List.find (fun pi => pi_id pi =? id') ps.
Proof.
  induction ps as [|x t IH]; [destruct (id' =? id); reflexivity|]. cbn [filter List.find].
  destruct (pi_id x =? id) eqn:E; cbn [negb].
  - rewrite IH. apply Z.eqb_eq in E. destruct (id' =? id) eqn:E2; [reflexivity|].
    replace (pi_id x =? id') with false; [reflexivity|]. symmetry. apply Z.eqb_neq. apply Z.eqb_neq in E2. congruence.
  - cbn [List.find]. destruct (pi_id x =? id') eqn:E2.
    + apply Z.eqb_eq in E2. replace (id' =? id) with false; [reflexivity|].
      symmetry. apply Z.eqb_neq. apply Z.eqb_neq in E. congruence.
    + exact IH.
Qed.

Lemma find_snoc_e0 ps id id' :
  List.find (fun pi => pi_id pi =? id') (ps ++ [e0 id]) =
  match List.find (fun pi => pi_id pi =? id') ps with
  | Some pi => Some pi
  | None => if id =? id' then Some (e0 id) else None
  end.
Proof.
  induction ps as [|x t IH]; cbn [app List.find]; [cbn; reflexivity|].
  destruct (pi_id x =? id'); [reflexivity | exact IH].
Qed.

Lemma kv_by s s' id q : st_sh s' = st_sh s ->
  option_map key (List.find (fun pi => pi_id pi =? id) (st_p s' q)) =
  option_map key (List.find (fun pi => pi_id pi =? id) (st_p s q)) ->
  kv s' id q = kv s id q.
Proof. intros H1 H2. unfold kv, find_pod, exists_q. rewrite H1. destruct (find (st_sh s) q); [exact H2 | reflexivity]. Qed.

Lemma kv_set_asg s q id b id' q' : kv (set_asg s q id b) id' q' = kv s id' q'.
Proof.
  apply kv_by; [apply sh_set_asg|]. unfold set_asg, upd_pod. destruct (exists_q s q); [|reflexivity].
  cbn [st_p set_P]. unfold fupd. destruct (q' =? q) eqn:E; [|reflexivity]. apply Z.eqb_eq in E. subst q'.
  rewrite find_map_pod by reflexivity. destruct (id' =? id); [|reflexivity].
  destruct (List.find (fun pi => pi_id pi =? id') (st_p s q)); reflexivity.
Qed.

Lemma kv_pod_used_sec s q o n id' q' : kv (pod_used_sec s q o n) id' q' = kv s id' q'.
Proof.
  apply kv_by; [apply sh_pod_used_sec|]. unfold pod_used_sec. destruct (exists_q s q); [|reflexivity].
  destruct (negb (oasg (st_p s q) n) && negb (oasg (st_p s q) o)); [reflexivity|].
  assert (E0 : forall sx, st_p (if viszero (vsub (oreq n) (oreq o)) && viszero (vsub (onp n) (onp o)) then sx
                                else delta_used sx q (vsub (oreq n) (oreq o)) (vsub (onp n) (onp o)) true) = st_p sx)
    by (intros sx; destruct (viszero (vsub (oreq n) (oreq o)) && viszero (vsub (onp n) (onp o))); reflexivity).
  rewrite E0. unfold upd_pod. cbn [st_p set_P]. unfold fupd. destruct (q' =? q) eqn:E; [|reflexivity].
  apply Z.eqb_eq in E. subst q'. rewrite find_map_pod by reflexivity. destruct (id' =? oid o n); [|reflexivity].
  destruct (List.find (fun pi => pi_id pi =? id') (st_p s q)); reflexivity.
Qed.

Lemma kv_pod_req_sec s q o n id' q' :
  kv (pod_req_sec s q o n) id' q' =
  if (q' =? q) && (id' =? oid o n) then option_map (fun _ => (oreq n, onp n)) (kv s id' q') else kv s id' q'.
Proof.
  unfold pod_req_sec. destruct (exists_q s q) eqn:Ex.
  - assert (E0 : forall sx, st_p (if viszero (vsub (oreq n) (oreq o)) && viszero (vsub (onp n) (onp o)) then sx
                                  else delta_req sx q (vsub (oreq n) (oreq o)) (vsub (onp n) (onp o)) true) = st_p sx)
      by (intros sx; destruct (viszero (vsub (oreq n) (oreq o)) && viszero (vsub (onp n) (onp o))); reflexivity).
    assert (E1 : forall sx, st_sh (if viszero (vsub (oreq n) (oreq o)) && viszero (vsub (onp n) (onp o)) then sx
                                  else delta_req sx q (vsub (oreq n) (oreq o)) (vsub (onp n) (onp o)) true) = st_sh sx)
      by (intros sx; destruct (viszero (vsub (oreq n) (oreq o)) && viszero (vsub (onp n) (onp o))); reflexivity).
    unfold kv, find_pod, exists_q. rewrite E0, E1. unfold upd_pod. cbn [st_sh st_p set_P]. unfold fupd.
    destruct (q' =? q) eqn:E; cbn [andb]; [|reflexivity]. apply Z.eqb_eq in E. subst q'.
    unfold exists_q in Ex. destruct (find (st_sh s) q); [|discriminate].
    rewrite find_map_pod by reflexivity. destruct (id' =? oid o n); [|reflexivity].
    destruct (List.find (fun pi => pi_id pi =? id') (st_p s q)); reflexivity.
  - destruct ((q' =? q) && (id' =? oid o n)) eqn:E; [|reflexivity].
    apply andb_prop in E. destruct E as [E _]. apply Z.eqb_eq in E. subst q'.
    unfold kv, find_pod. rewrite Ex. reflexivity.
Qed.

Lemma kv_cache_del s q id id' q' :
  kv (cache_del s q id) id' q' = if (q' =? q) && (id' =? id) then None else kv s id' q'.
Proof.
  unfold cache_del. destruct (exists_q s q) eqn:Ex.
  - unfold kv, find_pod, exists_q. cbn [st_sh st_p set_P]. unfold fupd.
    destruct (q' =? q) eqn:E; cbn [andb]; [|reflexivity]. apply Z.eqb_eq in E. subst q'.
    rewrite find_filter_id. destruct (id' =? id); [destruct (find (st_sh s) q); reflexivity | reflexivity].
  - destruct ((q' =? q) && (id' =? id)) eqn:E; [|reflexivity].
    apply andb_prop in E. destruct E as [E _]. apply Z.eqb_eq in E. subst q'.
    unfold kv, find_pod. rewrite Ex. reflexivity.
Qed.

(* after cache_add the entry (q, id) exists whenever q does; other entries are unchanged *)
Lemma kv_cache_add_other s q id id' q' : negb ((q' =? q) && (id' =? id)) = true ->
  kv (cache_add s q id) id' q' = kv s id' q'.
Proof.
  intros Hne. apply kv_by; [apply sh_cache_add|]. unfold cache_add.
  destruct (exists_q s q && negb (has_pod (st_p s q) id)); [|reflexivity].
  cbn [st_p set_P]. unfold fupd. destruct (q' =? q) eqn:E; [|reflexivity].
  cbn [andb] in Hne. apply negb_true_iff in Hne. apply Z.eqb_eq in E. subst q'.
  change (mkPI id false vzero vzero vzero vzero) with (e0 id).
  rewrite find_snoc_e0. destruct (List.find (fun pi => pi_id pi =? id') (st_p s q)); [reflexivity|].
  rewrite Z.eqb_sym, Hne. reflexivity.
Qed.

Lemma find_none_notin' ps id : List.find (fun x => pi_id x =? id) ps = None -> ~ In id (ids ps).
Proof.
  intros H Hin. apply in_map_iff in Hin. destruct Hin as [pi [E Hpi]].
  pose proof (List.find_none _ _ H pi Hpi) as Hf. cbn in Hf. rewrite E, Z.eqb_refl in Hf. discriminate.
Qed.

(* ---------- frames and own entries of the pod handlers ---------- *)

Definition Fr (s s' : state) (id : Z) : Prop := forall id' q', id' <> id -> kv s' id' q' = kv s id' q'.
Definition Own (s : state) (id : Z) (k0 : vec * vec) : Prop := forall q' k, kv s id q' = Some k -> k = k0.
Definition NoOwn (s : state) (id : Z) : Prop := forall q', kv s id q' = None.

Lemma fr_refl s id : Fr s s id. Proof. intros id' q' _. reflexivity. Qed.
Lemma fr_trans s1 s2 s3 id : Fr s1 s2 id -> Fr s2 s3 id -> Fr s1 s3 id.
Proof. intros H1 H2 id' q' Hne. rewrite (H2 id' q' Hne). apply H1. exact Hne. Qed.

Lemma eqb_false_ne a b : a <> b -> (a =? b) = false. Proof. apply Z.eqb_neq. Qed.

Lemma fr_set_asg s q id b : Fr s (set_asg s q id b) id.
Proof. intros id' q' _. apply kv_set_asg. Qed.
Lemma fr_used s q o n id : Fr s (pod_used_sec s q o n) id.
Proof. intros id' q' _. apply kv_pod_used_sec. Qed.
Lemma fr_req s q o n id : oid o n = id -> Fr s (pod_req_sec s q o n) id.
Proof. intros E id' q' Hne. rewrite kv_pod_req_sec, E, (eqb_false_ne _ _ Hne), andb_false_r. reflexivity. Qed.
Lemma fr_del s q id : Fr s (cache_del s q id) id.
Proof. intros id' q' Hne. rewrite kv_cache_del, (eqb_false_ne _ _ Hne), andb_false_r. reflexivity. Qed.
Lemma fr_add s q id : Fr s (cache_add s q id) id.
Proof. intros id' q' Hne. apply kv_cache_add_other. rewrite (eqb_false_ne _ _ Hne), andb_false_r. reflexivity. Qed.

Ltac fr_step :=
  first [ apply fr_refl
        | eapply fr_trans; [|apply fr_used]
        | eapply fr_trans; [|apply fr_set_asg]
        | eapply fr_trans; [|apply fr_del]
        | eapply fr_trans; [|apply fr_add]
        | eapply fr_trans; [|apply fr_req; reflexivity] ].

Lemma fr_add_new_pod s q p : Fr s (add_new_pod s q p) (p_id p).
Proof. unfold add_new_pod. destruct (p_bound p && negb (is_asg _ q (p_id p))); repeat fr_step. Qed.

Lemma fr_remove_req_first s q p : Fr s (remove_pod_req_first s q p) (p_id p).
Proof. unfold remove_pod_req_first. destruct (is_asg _ q (p_id p)); repeat fr_step. Qed.

Lemma fr_pod_ops s o : match o with
  | OpPodAdd _ p | OpPodDelete _ p | OpReserve _ p | OpUnreserve _ p | OpMigrate p _ _ => Fr s (step s o) (p_id p)
  | OpPodUpdate _ _ pn po => p_id pn = p_id po -> Fr s (step s o) (p_id pn)
  | _ => True end.
Proof.
  destruct o; cbn [step]; auto.
  - unfold on_pod_add. destruct (p_ign p); [apply fr_refl|].
    destruct (exists_q s q && negb (has_pod (st_p s q) (p_id p))); [apply fr_add_new_pod | apply fr_refl].
  - intros Hid. unfold on_pod_update. destruct (qo =? qn).
    + destruct (exists_q s qn); [|apply fr_refl]. destruct (negb (p_ign pn)).
      * destruct (has_pod (st_p s qn) (p_id pn)).
        -- destruct (is_asg _ qn (p_id pn)); [|destruct (p_bound pn)]; repeat fr_step.
           all: eapply fr_trans; [apply fr_refl | apply fr_req; cbn [oid]; congruence].
        -- destruct (is_asg _ qn (p_id pn)); [|destruct (p_bound pn)]; repeat fr_step.
      * destruct (has_pod (st_p s qn) (p_id po)); [rewrite Hid; apply fr_remove_req_first | apply fr_refl].
    + set (s1 := if exists_in s qo (p_id po) then _ else s).
      assert (H1 : Fr s s1 (p_id pn)).
      { unfold s1. destruct (exists_in s qo (p_id po)); [|apply fr_refl]. rewrite Hid.
        destruct (is_asg s qo (p_id po)); repeat fr_step. }
      destruct (exists_q s1 qn && negb (has_pod (st_p s1 qn) (p_id pn)) && negb (p_ign pn)); [|exact H1].
      eapply fr_trans; [exact H1 | apply fr_add_new_pod].
  - unfold on_pod_delete. destruct (exists_in s q (p_id p)); [apply fr_remove_req_first | apply fr_refl].
  - unfold reserve_pod. destruct (exists_in s q (p_id p) && negb (is_asg s q (p_id p))); repeat fr_step.
  - unfold unreserve_pod. destruct (exists_in s q (p_id p) && is_asg s q (p_id p)); repeat fr_step.
  - unfold migrate_pod. destruct (is_asg s qout (p_id p)); repeat fr_step.
Qed.

(* ---------- the entries of the handler's own pod ---------- *)

Lemma kv_matches s q p k : matches s q p = true -> kv s (p_id p) q = Some k -> k = pkey p.
Proof.
  unfold matches, kv. destruct (find_pod s q (p_id p)) as [pi|]; [|discriminate].
  intros Hm H. cbn in H. injection H as <-. apply andb_prop in Hm. destruct Hm as [H1 H2].
  apply veqb_eq in H1. apply veqb_eq in H2. unfold key, pkey. congruence.
Qed.

Lemma kv_nowhere s q id q' : nowhere_else s q id = true -> q' <> q -> kv s id q' = None.
Proof.
  intros Hnw Hne. unfold kv, find_pod. destruct (exists_q s q') eqn:Ex; [|reflexivity].
  apply exists_q_find in Ex. destruct Ex as [qq Hf].
  unfold nowhere_else in Hnw. rewrite forallb_forall in Hnw.
  specialize (Hnw qq (find_in _ _ _ Hf)). rewrite (find_name _ _ _ Hf) in Hnw.
  apply orb_prop in Hnw. destruct Hnw as [E|E]; [apply Z.eqb_eq in E; contradiction|].
  apply negb_true_iff, has_pod_false in E. rewrite (find_notin id _ E). reflexivity.
Qed.

Lemma kv_absent s q id : exists_q s q = false \/ has_pod (st_p s q) id = false -> kv s id q = None.
Proof.
  intros [H|H]; unfold kv, find_pod; [rewrite H; reflexivity|].
  destruct (exists_q s q); [|reflexivity]. apply has_pod_false in H. rewrite (find_notin id _ H). reflexivity.
Qed.

Lemma own_add_new_pod s q p : NoOwn s (p_id p) -> Own (add_new_pod s q p) (p_id p) (pkey p).
Proof.
  intros Hno q' k. unfold add_new_pod.
  assert (H : forall sx, kv sx (p_id p) q' = kv (pod_req_sec (cache_add s q (p_id p)) q None (Some p)) (p_id p) q' ->
              kv sx (p_id p) q' = Some k -> k = pkey p).
  { intros sx E Hk. rewrite E, kv_pod_req_sec in Hk. cbn [oid] in Hk. rewrite Z.eqb_refl, andb_true_r in Hk.
    destruct (q' =? q) eqn:Eq.
    - destruct (kv (cache_add s q (p_id p)) (p_id p) q'); [|discriminate]. cbn in Hk. injection Hk as <-. reflexivity.
    - rewrite kv_cache_add_other in Hk by (rewrite Eq; reflexivity). rewrite Hno in Hk. discriminate. }
  destruct (p_bound p && negb (is_asg _ q (p_id p))).
  - apply H. rewrite kv_pod_used_sec, kv_set_asg. reflexivity.
  - apply H. reflexivity.
Qed.

Lemma noown_remove_req_first s q p : (forall q', q' <> q -> kv s (p_id p) q' = None) ->
  NoOwn (remove_pod_req_first s q p) (p_id p).
Proof.
  intros Hoth q'. unfold remove_pod_req_first. rewrite kv_cache_del, Z.eqb_refl, andb_true_r.
  destruct (q' =? q) eqn:Eq; [reflexivity|]. apply Z.eqb_neq in Eq.
  assert (E : forall sx, kv sx (p_id p) q' = kv (pod_req_sec s q (Some p) None) (p_id p) q' -> kv sx (p_id p) q' = None).
  { intros sx ->. rewrite kv_pod_req_sec. apply Z.eqb_neq in Eq. rewrite Eq. cbn [andb]. apply Hoth. apply Z.eqb_neq. exact Eq. }
  destruct (is_asg _ q (p_id p)); apply E; [apply kv_pod_used_sec | reflexivity].
Qed.

Lemma own_on_pod_add s q p : wf_op s (OpPodAdd q p) = true -> Own (on_pod_add s q p) (p_id p) (pkey p).
Proof.
  intros Hwf. cbn [wf_op] in Hwf. apply andb_prop in Hwf. destruct Hwf as [Hwf Hnw].
  apply andb_prop in Hwf. destruct Hwf as [_ Hm].
  assert (Hs : Own s (p_id p) (pkey p)).
  { intros q' k Hk. destruct (Z.eq_dec q' q) as [->|Hne]; [eapply kv_matches; eauto|].
    rewrite (kv_nowhere s q _ q' Hnw Hne) in Hk. discriminate. }
  unfold on_pod_add. destruct (p_ign p); [exact Hs|].
  destruct (exists_q s q && negb (has_pod (st_p s q) (p_id p))) eqn:E; [|exact Hs].
  apply andb_prop in E. destruct E as [_ Eh]. apply negb_true_iff in Eh.
  apply own_add_new_pod. intros q'. destruct (Z.eq_dec q' q) as [->|Hne]; [apply kv_absent; auto | eapply kv_nowhere; eauto].
Qed.

Lemma own_on_pod_update s qn qo pn po : wf_op s (OpPodUpdate qn qo pn po) = true ->
  Own (on_pod_update s qn qo pn po) (p_id pn) (pkey pn).
Proof.
  intros Hwf. cbn [wf_op] in Hwf.
  apply andb_prop in Hwf. destruct Hwf as [Hwf Hnw]. apply andb_prop in Hwf. destruct Hwf as [Hwf Hm].
  apply andb_prop in Hwf. destruct Hwf as [Hid _]. apply Z.eqb_eq in Hid. rewrite <- Hid in Hnw.
  assert (Hoth : forall q', q' <> qo -> kv s (p_id pn) q' = None) by (intros q' Hne; eapply kv_nowhere; eauto).
  unfold on_pod_update. destruct (qo =? qn) eqn:Eq.
  - apply Z.eqb_eq in Eq. subst qo. destruct (exists_q s qn) eqn:Ex.
    + destruct (p_ign pn); cbn [negb].
      * (* removal, or nothing cached *)
        destruct (has_pod (st_p s qn) (p_id po)) eqn:Eh.
        -- intros q' k Hk. rewrite Hid in Hk, Hoth.
           rewrite (noown_remove_req_first s qn po Hoth q') in Hk. discriminate.
        -- intros q' k Hk. destruct (Z.eq_dec q' qn) as [->|Hne]; [|rewrite (Hoth _ Hne) in Hk; discriminate].
           rewrite Hid, kv_absent in Hk by auto. discriminate.
      * intros q' k.
        assert (H : forall sx s1, kv sx (p_id pn) q' = kv s1 (p_id pn) q' ->
                   (q' = qn -> forall k1, kv s1 (p_id pn) qn = Some k1 -> k1 = pkey pn) ->
                   (q' <> qn -> kv s1 (p_id pn) q' = None) ->
                   kv sx (p_id pn) q' = Some k -> k = pkey pn).
        { intros sx s1 E H1 H2 Hk. rewrite E in Hk. destruct (Z.eq_dec q' qn) as [->|Hne]; [eapply H1; eauto|].
          rewrite (H2 Hne) in Hk. discriminate. }
        destruct (has_pod (st_p s qn) (p_id pn)) eqn:Eh.
        -- set (s1 := pod_req_sec s qn (Some po) (Some pn)).
           assert (H1 : q' = qn -> forall k1, kv s1 (p_id pn) qn = Some k1 -> k1 = pkey pn).
           { intros _ k1 Hk1. unfold s1 in Hk1. rewrite kv_pod_req_sec in Hk1. cbn [oid] in Hk1.
             rewrite Z.eqb_refl, Hid, Z.eqb_refl in Hk1. cbn [andb] in Hk1.
             destruct (kv s (p_id po) qn); [|discriminate]. cbn in Hk1. injection Hk1 as <-. reflexivity. }
           assert (H2 : q' <> qn -> kv s1 (p_id pn) q' = None).
           { intros Hne. unfold s1. rewrite kv_pod_req_sec. apply Z.eqb_neq in Hne. rewrite Hne. cbn [andb].
             apply Hoth. apply Z.eqb_neq. exact Hne. }
           destruct (is_asg s1 qn (p_id pn)); [|destruct (p_bound pn)]; apply (H _ s1); auto;
             rewrite ?kv_pod_used_sec, ?kv_set_asg; reflexivity.
        -- set (s1 := pod_req_sec (cache_add s qn (p_id pn)) qn None (Some pn)).
           assert (H1 : q' = qn -> forall k1, kv s1 (p_id pn) qn = Some k1 -> k1 = pkey pn).
           { intros _ k1 Hk1. unfold s1 in Hk1. rewrite kv_pod_req_sec in Hk1. cbn [oid] in Hk1.
             rewrite !Z.eqb_refl in Hk1. cbn [andb] in Hk1.
             destruct (kv (cache_add s qn (p_id pn)) (p_id pn) qn); [|discriminate]. cbn in Hk1. injection Hk1 as <-. reflexivity. }
           assert (H2 : q' <> qn -> kv s1 (p_id pn) q' = None).
           { intros Hne. unfold s1. rewrite kv_pod_req_sec. pose proof Hne as Hne'. apply Z.eqb_neq in Hne. rewrite Hne. cbn [andb].
             rewrite kv_cache_add_other by (rewrite Hne; reflexivity). apply Hoth. exact Hne'. }
           destruct (is_asg s1 qn (p_id pn)); [|destruct (p_bound pn)]; apply (H _ s1); auto;
             rewrite ?kv_pod_used_sec, ?kv_set_asg; reflexivity.
    + intros q' k Hk. destruct (Z.eq_dec q' qn) as [->|Hne]; [|rewrite (Hoth _ Hne) in Hk; discriminate].
      rewrite kv_absent in Hk by auto. discriminate.
  - apply Z.eqb_neq in Eq.
    set (s1 := if exists_in s qo (p_id po) then _ else s).
    assert (Hno1 : NoOwn s1 (p_id pn)).
    { intros q'. unfold s1. destruct (exists_in s qo (p_id po)) eqn:Ein.
      - rewrite kv_cache_del, Hid, Z.eqb_refl, andb_true_r. destruct (q' =? qo) eqn:E; [reflexivity|].
        rewrite kv_pod_req_sec, E. cbn [andb].
        assert (E2 : kv s (p_id po) q' = None) by (rewrite <- Hid; apply Hoth; apply Z.eqb_neq; exact E).
        destruct (is_asg s qo (p_id po)); [rewrite kv_pod_used_sec|]; exact E2.
      - destruct (Z.eq_dec q' qo) as [->|Hne]; [|apply Hoth; exact Hne].
        rewrite Hid. apply kv_absent. unfold exists_in in Ein. apply andb_false_iff in Ein. exact Ein. }
    destruct (exists_q s1 qn && negb (has_pod (st_p s1 qn) (p_id pn)) && negb (p_ign pn)).
    + apply own_add_new_pod. exact Hno1.
    + intros q' k Hk. rewrite Hno1 in Hk. discriminate.
Qed.

(* handlers that deliver no new object: every entry of their pod keeps a key it had before *)
Definition OldKey (s s' : state) (id : Z) : Prop :=
  forall q' k, kv s' id q' = Some k -> exists q0, kv s id q0 = Some k.

Lemma oldkey_ops s o : wf_op s o = true -> match o with
  | OpPodDelete _ p | OpReserve _ p | OpUnreserve _ p | OpMigrate p _ _ => OldKey s (step s o) (p_id p)
  | _ => True end.
Proof.
  intros Hwf. destruct o; cbn [step]; auto.
  - (* delete *)
    intros q' k Hk. unfold on_pod_delete in Hk. destruct (exists_in s q (p_id p)); [|eauto].
    unfold remove_pod_req_first in Hk. rewrite kv_cache_del in Hk.
    destruct ((q' =? q) && (p_id p =? p_id p)) eqn:E; [discriminate|].
    assert (E2 : forall sx, kv sx (p_id p) q' = kv (pod_req_sec s q (Some p) None) (p_id p) q' ->
               kv sx (p_id p) q' = Some k -> exists q0, kv s (p_id p) q0 = Some k).
    { intros sx -> H. rewrite kv_pod_req_sec in H. cbn [oid] in H. rewrite E in H. eauto. }
    destruct (is_asg _ q (p_id p)); [apply (E2 _ (kv_pod_used_sec _ _ _ _ _ _) Hk) | apply (E2 _ eq_refl Hk)].
  - intros q' k Hk. unfold reserve_pod in Hk.
    destruct (exists_in s q (p_id p) && negb (is_asg s q (p_id p))); [rewrite kv_pod_used_sec, kv_set_asg in Hk|]; eauto.
  - intros q' k Hk. unfold unreserve_pod in Hk.
    destruct (exists_in s q (p_id p) && is_asg s q (p_id p)); [rewrite kv_set_asg, kv_pod_used_sec in Hk|]; eauto.
  - (* migrate: the new entry carries the pod's request, which is what the old entry counted *)
    cbn [wf_op] in Hwf. apply andb_prop in Hwf. destruct Hwf as [Hwf _].
    apply andb_prop in Hwf. destruct Hwf as [Hwf Hnw]. apply andb_prop in Hwf. destruct Hwf as [Hex Hm].
    assert (Hold : kv s (p_id p) qout = Some (pkey p)).
    { apply exists_in_iff in Hex. destruct Hex as [[qq Hf] Hin].
      destruct (kv s (p_id p) qout) as [k0|] eqn:E; [rewrite (kv_matches s qout p k0 Hm E); reflexivity|].
      exfalso. unfold kv, find_pod in E. replace (exists_q s qout) with true in E by (symmetry; apply exists_q_find; eauto).
      destruct (List.find (fun pi => pi_id pi =? p_id p) (st_p s qout)) eqn:E2; [discriminate|].
      apply (find_none_notin' _ _ E2). exact Hin. }
    intros q' k Hk. unfold migrate_pod in Hk.
    set (a := is_asg s qout (p_id p)) in *.
    set (s3 := cache_del (if a then pod_used_sec (pod_req_sec s qout (Some p) None) qout (Some p) None
                          else pod_req_sec s qout (Some p) None) qout (p_id p)) in *.
    assert (H6 : kv (pod_req_sec (set_asg (cache_add s3 qin (p_id p)) qin (p_id p) a) qin None (Some p)) (p_id p) q' = Some k).
    { destruct a; [rewrite kv_pod_used_sec in Hk|]; exact Hk. }
    rewrite kv_pod_req_sec in H6. cbn [oid] in H6. rewrite Z.eqb_refl, andb_true_r in H6.
    destruct (q' =? qin) eqn:Eq.
    + exists qout. destruct (kv (set_asg (cache_add s3 qin (p_id p)) qin (p_id p) a) (p_id p) q'); [|discriminate].
      cbn in H6. injection H6 as <-. exact Hold.
    + rewrite kv_set_asg, kv_cache_add_other in H6 by (rewrite Eq; reflexivity).
      unfold s3 in H6. rewrite kv_cache_del in H6. destruct ((q' =? qout) && (p_id p =? p_id p)) eqn:E; [discriminate|].
      assert (H7 : kv (pod_req_sec s qout (Some p) None) (p_id p) q' = Some k).
      { destruct a; [rewrite kv_pod_used_sec in H6|]; exact H6. }
      rewrite kv_pod_req_sec in H7. cbn [oid] in H7. rewrite E in H7. eauto.
Qed.

(* ---------- quota operations never add a cache entry ---------- *)

Lemma st_p_do_update_max s n m : st_p (do_update_max s n m) = st_p s.
Proof. unfold do_update_max. destruct (pathf (st_sh s) n); [reflexivity|]. destruct (find (st_sh s) n); reflexivity. Qed.
Lemma st_p_do_update_min s n m : st_p (do_update_min s n m) = st_p s.
Proof. unfold do_update_min. destruct (pathf (st_sh s) n); [reflexivity|]. destruct (find (st_sh s) n); reflexivity. Qed.

Lemma st_p_delete_quota s n k : st_p (delete_quota s n) k = st_p s k \/ st_p (delete_quota s n) k = [].
Proof.
  destruct (find (st_sh s) n) as [q|] eqn:Hf; [|unfold delete_quota; rewrite Hf; left; reflexivity].
  destruct (Proofs_Quota.delete_quota_comp s n q Hf) as (_ & _ & _ & EP). rewrite EP. unfold fupd.
  destruct (k =? n); [right | left]; reflexivity.
Qed.

Lemma st_p_update_internal s sp old k :
  st_p (update_internal s sp old) k = st_p s k \/ st_p (update_internal s sp old) k = [].
Proof.
  unfold update_internal.
  assert (H : forall sx, st_p (if match old with Some o => negb (veqb (q_min sp) (q_min o)) | None => true end
                               then do_update_min (if match old with Some o => negb (veqb (q_max sp) (q_max o)) | None => true end
                                                   then do_update_max sx (q_name sp) (q_max sp) else sx) (q_name sp) (q_min sp)
                               else (if match old with Some o => negb (veqb (q_max sp) (q_max o)) | None => true end
                                     then do_update_max sx (q_name sp) (q_max sp) else sx)) = st_p sx).
  { intros sx. destruct (match old with Some o => negb (veqb (q_min sp) (q_min o)) | None => true end);
      destruct (match old with Some o => negb (veqb (q_max sp) (q_max o)) | None => true end);
      rewrite ?st_p_do_update_min, ?st_p_do_update_max; reflexivity. }
  rewrite H. destruct old; [left; reflexivity|]. unfold add_blank. cbn [st_p]. unfold fupd.
  destruct (k =? q_name sp); [right | left]; reflexivity.
Qed.

Lemma st_p_cdelta s n a b f (g : bool) :
  st_p (if g then delta_req s n a b f else s) = st_p s /\ st_p (if g then delta_used s n a b f else s) = st_p s.
Proof. destruct g; split; reflexivity. Qed.

Lemma st_p_parent_change s sp k : st_p (parent_change s sp) k = st_p s k.
Proof.
  unfold parent_change. destruct (find (st_sh s) (q_name sp)) as [old|] eqn:Hf; [|reflexivity].
  repeat match goal with
         | |- st_p (if ?g then delta_used ?sx ?n ?a ?b ?f else ?sx) k = _ =>
             rewrite (proj2 (st_p_cdelta sx n a b f g))
         | |- st_p (if ?g then delta_req ?sx ?n ?a ?b ?f else ?sx) k = _ =>
             rewrite (proj1 (st_p_cdelta sx n a b f g))
         end.
  rewrite st_p_do_update_min, st_p_do_update_max. unfold add_blank. cbn [st_p].
  destruct (Proofs_Quota.delete_quota_comp s (q_name sp) old Hf) as (_ & _ & _ & EP). rewrite EP.
  unfold fupd. destruct (k =? q_name sp) eqn:E; [apply Z.eqb_eq in E; subst k|]; reflexivity.
Qed.

Lemma exists_q_in s q : exists_q s q = true <-> In q (names (st_sh s)).
Proof.
  rewrite exists_q_find. split.
  - intros [qq Hf]. eapply find_some_in_names; eauto.
  - intros Hin. destruct (find (st_sh s) q) as [qq|] eqn:E; [eauto|]. apply find_none in E. contradiction.
Qed.

Lemma st_sh_readd_fold l : forall st, st_sh (fold_left readd l st) = st_sh st.
Proof.
  induction l as [|[n [[[a b] c] d]] l IH]; intros st; [reflexivity|]. cbn [fold_left]. rewrite IH. reflexivity.
Qed.
Lemma st_sh_reset s : st_sh (reset s) = st_sh s.
Proof. unfold reset. rewrite st_sh_readd_fold. reflexivity. Qed.

Lemma st_sh_cdelta s n a b f (g : bool) :
  st_sh (if g then delta_req s n a b f else s) = st_sh s /\ st_sh (if g then delta_used s n a b f else s) = st_sh s.
Proof. destruct g; split; reflexivity. Qed.

Lemma parent_change_sh s sp x : In x (st_sh (parent_change s sp)) -> q_name x = q_name sp \/ In x (st_sh s).
Proof.
  unfold parent_change. destruct (find (st_sh s) (q_name sp)) as [old|] eqn:Hf; [|auto].
  repeat match goal with
         | |- In x (st_sh (if ?g then delta_used ?sx ?n ?a ?b ?f else ?sx)) -> _ =>
             rewrite (proj2 (st_sh_cdelta sx n a b f g))
         | |- In x (st_sh (if ?g then delta_req ?sx ?n ?a ?b ?f else ?sx)) -> _ =>
             rewrite (proj1 (st_sh_cdelta sx n a b f g))
         end.
  intros Hx. apply do_update_min_sh in Hx. destruct Hx as [E|Hx]; [auto|].
  apply do_update_max_sh in Hx. destruct Hx as [E|Hx]; [auto|].
  unfold add_blank in Hx. cbn [st_sh] in Hx. apply in_app_or in Hx. destruct Hx as [Hx|[<-|[]]]; [|left; reflexivity].
  destruct (Proofs_Quota.delete_quota_comp s (q_name sp) old Hf) as (Esh & _). rewrite Esh in Hx.
  apply in_remove in Hx. right. tauto.
Qed.

(* an entry present after a quota operation was present before *)
Lemma kv_quota_ops s o :
  match o with OpQuotaUpdate _ | OpQuotaDelete _ | OpReset | OpNode =>
    forall id q' k, kv (step s o) id q' = Some k -> kv s id q' = Some k
  | _ => True end.
Proof.
  assert (Hgen : forall s', (forall k0, st_p s' k0 = st_p s k0 \/ st_p s' k0 = []) ->
            (forall x, In x (st_sh s') -> exists_q s (q_name x) = true \/ st_p s' (q_name x) = []) ->
            forall id q' k, kv s' id q' = Some k -> kv s id q' = Some k).
  { intros s' HP Hex id q' k Hk. unfold kv, find_pod in Hk |- *.
    destruct (exists_q s' q') eqn:Ex; [|discriminate].
    apply exists_q_find in Ex. destruct Ex as [x Hf]. pose proof (find_in _ _ _ Hf) as Hx.
    pose proof (find_name _ _ _ Hf) as Hnm. specialize (Hex x Hx). rewrite Hnm in Hex.
    destruct Hex as [Hq|Hq]; [|rewrite Hq in Hk; discriminate].
    rewrite Hq. destruct (HP q') as [E|E]; rewrite E in Hk; [exact Hk | discriminate]. }
  assert (Hold : forall x, In x (st_sh s) -> exists_q s (q_name x) = true).
  { intros x Hx. apply exists_q_in. apply in_map. exact Hx. }
  destruct o; auto; cbn [step].
  - (* UpdateQuota *)
    unfold update_quota. destruct (find (st_sh s) (q_name sp)) as [loc|] eqn:Hf.
    + assert (Hexn : exists_q s (q_name sp) = true) by (apply exists_q_find; eauto).
      destruct (Bool.eqb (q_lend loc) (q_lend sp) && Bool.eqb (q_isparent loc) (q_isparent sp) && (q_parent loc =? q_parent sp)).
      * apply Hgen; [intros k0; apply st_p_update_internal|].
        intros x Hx. left. apply update_internal_sh in Hx. destruct Hx as [E|Hx]; [rewrite E; exact Hexn | auto].
      * destruct (negb (q_parent loc =? q_parent sp)).
        -- apply Hgen; [intros k0; left; apply st_p_parent_change|].
           intros x Hx. left. apply parent_change_sh in Hx. destruct Hx as [E|Hx]; [rewrite E; exact Hexn | auto].
        -- apply Hgen; [intros k0; left; rewrite st_p_reset; reflexivity|].
           intros x Hx. left. rewrite st_sh_reset in Hx. cbn [st_sh set_sh] in Hx. unfold upd_sh in Hx.
           apply in_map_iff in Hx. destruct Hx as [c [E Hc]].
           replace (q_name x) with (q_name c); [auto|].
           rewrite <- E. destruct (q_name c =? q_name sp); reflexivity.
    + apply Hgen; [intros k0; apply st_p_update_internal|].
      intros x Hx. apply update_internal_sh in Hx. destruct Hx as [E|Hx]; [right | left; auto].
      rewrite E. unfold update_internal. rewrite st_p_do_update_min, st_p_do_update_max. unfold add_blank. cbn [st_p].
      apply fupd_same.
  - (* DeleteQuota *)
    destruct (find (st_sh s) n) as [q|] eqn:Hf; [|unfold delete_quota; rewrite Hf; auto].
    destruct (Proofs_Quota.delete_quota_comp s n q Hf) as (Esh & _ & _ & EP).
    apply Hgen; [intros k0; apply st_p_delete_quota|].
    intros x Hx. rewrite Esh in Hx. apply in_remove in Hx. left. apply Hold. tauto.
  - (* Reset *)
    apply Hgen; [intros k0; left; rewrite st_p_reset; reflexivity|].
    intros x Hx. rewrite st_sh_reset in Hx. left. auto.
Qed.

(* ---------- the link ---------- *)

Definition GL (s : state) (h : list op) : Prop :=
  forall id q k, kv s id q = Some k -> exists p, last_obj h id None = Some p /\ k = pkey p.

Lemma last_obj_app h1 : forall h2 id acc, last_obj (h1 ++ h2) id acc = last_obj h2 id (last_obj h1 id acc).
Proof. induction h1 as [|o t IH]; intros h2 id acc; [reflexivity|]. cbn [app last_obj]. apply IH. Qed.

Lemma last_obj_snoc h o id :
  last_obj (h ++ [o]) id None =
  match o with
  | OpPodAdd _ p => if p_id p =? id then Some p else last_obj h id None
  | OpPodUpdate _ _ pn _ => if p_id pn =? id then Some pn else last_obj h id None
  | _ => last_obj h id None
  end.
Proof. rewrite last_obj_app. destruct o; reflexivity. Qed.

Lemma gl_step s h o : GL s h -> wf_op s o = true -> GL (step s o) (h ++ [o]).
Proof.
  intros HG Hwf id q k Hk. rewrite last_obj_snoc.
  pose proof (fr_pod_ops s o) as Hfr. pose proof (oldkey_ops s o Hwf) as Hold. pose proof (kv_quota_ops s o) as Hq.
  destruct o.
  - (* add *)
    destruct (p_id p =? id) eqn:E.
    + apply Z.eqb_eq in E. subst id. exists p. split; [reflexivity|]. eapply own_on_pod_add; eauto.
    + apply Z.eqb_neq in E. rewrite (Hfr id q (not_eq_sym E)) in Hk. apply (HG _ _ _ Hk).
  - (* update *)
    assert (Hid : p_id pn = p_id po).
    { cbn [wf_op] in Hwf. apply andb_prop in Hwf. destruct Hwf as [Hwf _]. apply andb_prop in Hwf. destruct Hwf as [Hwf _].
      apply andb_prop in Hwf. destruct Hwf as [Hwf _]. apply Z.eqb_eq. exact Hwf. }
    destruct (p_id pn =? id) eqn:E.
    + apply Z.eqb_eq in E. subst id. exists pn. split; [reflexivity|]. eapply own_on_pod_update; eauto.
    + apply Z.eqb_neq in E. rewrite (Hfr Hid id q (not_eq_sym E)) in Hk. apply (HG _ _ _ Hk).
  - destruct (Z.eq_dec id (p_id p)) as [->|E]; [destruct (Hold _ _ Hk) as [qx H0]; apply (HG _ _ _ H0)|].
    rewrite (Hfr id q E) in Hk. apply (HG _ _ _ Hk).
  - destruct (Z.eq_dec id (p_id p)) as [->|E]; [destruct (Hold _ _ Hk) as [qx H0]; apply (HG _ _ _ H0)|].
    rewrite (Hfr id q E) in Hk. apply (HG _ _ _ Hk).
  - destruct (Z.eq_dec id (p_id p)) as [->|E]; [destruct (Hold _ _ Hk) as [qx H0]; apply (HG _ _ _ H0)|].
    rewrite (Hfr id q E) in Hk. apply (HG _ _ _ Hk).
  - destruct (Z.eq_dec id (p_id p)) as [->|E]; [destruct (Hold _ _ Hk) as [qx H0]; apply (HG _ _ _ H0)|].
    rewrite (Hfr id q E) in Hk. apply (HG _ _ _ Hk).
  - apply (HG _ _ _ (Hq _ _ _ Hk)).
  - apply (HG _ _ _ (Hq _ _ _ Hk)).
  - apply (HG _ _ _ (Hq _ _ _ Hk)).
  - apply (HG _ _ _ (Hq _ _ _ Hk)).
Qed.

Lemma gl_run h : forall s h0, GL s h0 -> wf_history s h = true -> GL (run s h) (h0 ++ h).
Proof.
  induction h as [|o t IH]; intros s h0 HG Hwf; [rewrite app_nil_r; exact HG|].
  cbn [wf_history] in Hwf. apply andb_prop in Hwf. destruct Hwf as [Ho Ht].
  cbn [run fold_left]. replace (h0 ++ o :: t) with ((h0 ++ [o]) ++ t) by (rewrite <- app_assoc; reflexivity).
  apply IH; [apply gl_step; assumption | exact Ht].
Qed.

Theorem ghost_is_last_delivered sm dm h : wf_history (init sm dm) h = true -> GL (run (init sm dm) h) h.
Proof.
  intros Hwf. apply (gl_run h (init sm dm) []); [|exact Hwf].
  intros id q k Hk. unfold kv, find_pod in Hk. cbn in Hk. destruct (exists_q (init sm dm) q); discriminate.
Qed.

(* the boolean assertion evaluated by Codec.check_steps on every case never fails *)
Theorem ghost_matches_holds sm dm h :
  wf_init sm dm = true -> wf_history (init sm dm) h = true ->
  ghost_matches h (run (init sm dm) h) = true.
Proof.
  intros Hi Hwf. pose proof (ghost_is_last_delivered sm dm h Hwf) as HG.
  destruct (run_inv h _ (init_inv sm dm Hi) Hwf) as [HI _].
  set (s := run (init sm dm) h) in *.
  unfold ghost_matches. apply forallb_forall. intros q Hq. apply forallb_forall. intros pi Hpi.
  assert (Hf : find (st_sh s) (q_name q) = Some q) by (apply in_find; [apply (inv_shape _ HI) | exact Hq]).
  pose proof (ev_of_member s (q_name q) q pi (inv_invq _ HI) Hf Hpi) as He.
  assert (Hk : kv s (pi_id pi) (q_name q) = Some (key pi)) by (unfold kv; unfold ev in He; rewrite He; reflexivity).
  destruct (HG _ _ _ Hk) as (p & Hl & E). rewrite Hl. unfold key, pkey in E. injection E as E1 E2.
  rewrite E1, E2, !veqb_refl. reflexivity.
Qed.

End WithDim.
