(* C01 — the two propagation walks as they are used: all local equations hold except possibly
   at the start quota, whose aggregates move by the delta without clamping. *)
From Coq Require Import List ZArith Bool Lia.
From Verif Require Import Lib.VecN C01.Model C01.Spec C01.Proofs_Base C01.Proofs_Walk.
Import ListNotations.
Open Scope Z_scope.

Section WithDim.
Context {D : Dim}.

Lemma walk_req_self sh l : forall R d dnp self m,
  (self = false \/ match l with [] => True | n :: _ => m <> n end) ->
  r_sreq (walk_req sh R l d dnp self m) = r_sreq (R m) /\
  r_snp (walk_req sh R l d dnp self m) = r_snp (R m).
Proof.
  induction l as [|n rest IH]; intros R d dnp self m Hs; cbn [walk_req]; [auto|].
  destruct (find sh n) as [q|]; [|auto].
  destruct (IH (fupd R n (req_node q d dnp self (R n)))
               (vsub (lim q (req_node q d dnp self (R n))) (lim q (R n))) dnp false m (or_introl eq_refl)) as [E1 E2].
  rewrite E1, E2. unfold fupd. destruct (m =? n) eqn:E; [|auto].
  apply Z.eqb_eq in E. subst m. destruct Hs as [->|Hs]; [|congruence].
  unfold req_node. cbn [r_sreq r_snp]. auto.
Qed.

Section DeltaReq.
  Variable sh : list qshape.
  Hypothesis Hshape_nd : NoDup (names sh).
  Hypothesis Hnz : forall q, In q sh -> q_name q <> 0.
  Hypothesis Hvals : ValsOk sh.

  Lemma walk_req_ok n l q R d dnp self :
    reaches sh n l -> find sh n = Some q -> PosR sh R ->
    (forall q0, In q0 sh -> q_name q0 <> n -> okA sh R q0 /\ okN sh R q0 /\ okB R q0) ->
    vnonneg (vadd (r_creq (R n)) d) -> vnonneg (vadd (r_np (R n)) dnp) ->
    (self = true -> vnonneg (vadd (r_sreq (R n)) d) /\ vnonneg (vadd (r_snp (R n)) dnp)) ->
    let R' := walk_req sh R l d dnp self in
    PosR sh R' /\
    (forall q0, In q0 sh -> okB R' q0) /\
    (forall q0, In q0 sh -> q_name q0 <> n -> okA sh R' q0 /\ okN sh R' q0) /\
    R' n = mkR (freq q (vadd (r_creq (R n)) d)) (vadd (r_creq (R n)) d)
               (if self then vadd (r_sreq (R n)) d else r_sreq (R n))
               (vadd (r_np (R n)) dnp)
               (if self then vadd (r_snp (R n)) dnp else r_snp (R n)) /\
    sumc sh (limR R') n = sumc sh (limR R) n /\ sumc sh (npR R') n = sumc sh (npR R) n /\
    (forall m, m <> n -> r_sreq (R' m) = r_sreq (R m) /\ r_snp (R' m) = r_snp (R m)) /\
    (forall m, ~ In m l -> R' m = R m).
  Proof.
    intros Hr Hf Hpos Hoth Hc Hnp Hself R'.
    assert (Hn0 : n <> 0) by (rewrite <- (find_name _ _ _ Hf); apply Hnz; eapply find_in; eauto).
    destruct (walk_req_spec sh Hshape_nd Hnz Hvals n l Hr R d dnp self Hpos)
      as (Hfr & Hpos' & Hb & Ha & Hn & Hst & Hsl & Hsn).
    fold R' in Hfr, Hpos', Hb, Ha, Hn, Hst, Hsl, Hsn.
    refine (conj Hpos' (conj _ (conj _ (conj _ (conj Hsl (conj Hsn (conj _ Hfr))))))).
    - intros q0 Hq0. destruct (in_dec Z.eq_dec (q_name q0) l) as [Hin|Hin].
      + eapply Hb; eauto. apply in_find; assumption.
      + unfold okB. rewrite Hfr by exact Hin. apply Hoth; [exact Hq0|].
        intros E. apply Hin. rewrite E. destruct (reaches_head _ _ _ Hr Hn0) as [t ->]. left. reflexivity.
    - intros q0 Hq0 Hne. split.
      + apply Ha; [exact Hq0 | exact Hne | apply Hoth; assumption].
      + apply Hn; [intros _; exact Hnp | | exact Hq0 | exact Hne | apply Hoth; assumption].
        intros qx Hx Hin. apply Hoth; [exact Hx|].
        destruct (reaches_head _ _ _ Hr Hn0) as [t Ht]. subst l. cbn [tl_ok] in Hin.
        pose proof (reaches_nodup _ _ _ Hr) as Hd. inversion Hd; subst. intros E. rewrite E in Hin. contradiction.
    - rewrite (Hst q Hf). unfold req_node.
      rewrite (vclamp_nonneg _ Hc), (vclamp_nonneg _ Hnp).
      destruct self; [destruct (Hself eq_refl) as [H1 H2]; rewrite (vclamp_nonneg _ H1), (vclamp_nonneg _ H2)|]; reflexivity.
    - intros m Hm. apply walk_req_self. right.
      destruct (reaches_head _ _ _ Hr Hn0) as [t ->]. exact Hm.
  Qed.
End DeltaReq.

Section DeltaUsed.
  Variable sh : list qshape.
  Hypothesis Hshape_nd : NoDup (names sh).
  Hypothesis Hnz : forall q, In q sh -> q_name q <> 0.

  Lemma walk_used_self l : forall U d dnp self m,
    (self = false \/ match l with [] => True | n :: _ => m <> n end) ->
    u_sused (walk_used U l d dnp self m) = u_sused (U m) /\
    u_snp (walk_used U l d dnp self m) = u_snp (U m).
  Proof.
    induction l as [|n rest IH]; intros U d dnp self m Hs; cbn [walk_used]; [auto|].
    destruct (IH (fupd U n (used_node d dnp self (U n))) d dnp false m (or_introl eq_refl)) as [E1 E2].
    rewrite E1, E2. unfold fupd. destruct (m =? n) eqn:E; [|auto].
    apply Z.eqb_eq in E. subst m. destruct Hs as [->|Hs]; [|congruence].
    unfold used_node. cbn [u_sused u_snp]. auto.
  Qed.

  Lemma walk_used_ok n l q U d dnp self :
    reaches sh n l -> find sh n = Some q -> PosU sh U ->
    (forall q0, In q0 sh -> q_name q0 <> n -> okU sh U q0 /\ okUN sh U q0) ->
    vnonneg (vadd (u_used (U n)) d) -> vnonneg (vadd (u_np (U n)) dnp) ->
    (self = true -> vnonneg (vadd (u_sused (U n)) d) /\ vnonneg (vadd (u_snp (U n)) dnp)) ->
    let U' := walk_used U l d dnp self in
    PosU sh U' /\
    (forall q0, In q0 sh -> q_name q0 <> n -> okU sh U' q0 /\ okUN sh U' q0) /\
    U' n = mkU (vadd (u_used (U n)) d) (if self then vadd (u_sused (U n)) d else u_sused (U n))
               (vadd (u_np (U n)) dnp) (if self then vadd (u_snp (U n)) dnp else u_snp (U n)) /\
    sumc sh (usedU U') n = sumc sh (usedU U) n /\ sumc sh (unpU U') n = sumc sh (unpU U) n /\
    (forall m, m <> n -> u_sused (U' m) = u_sused (U m) /\ u_snp (U' m) = u_snp (U m)) /\
    (forall m, ~ In m l -> U' m = U m).
  Proof.
    intros Hr Hf Hpos Hoth Hc Hnp Hself U'.
    assert (Hn0 : n <> 0) by (rewrite <- (find_name _ _ _ Hf); apply Hnz; eapply find_in; eauto).
    destruct (walk_used_U sh n l Hshape_nd Hnz Hr U d dnp self Hpos) as (Hu & Hst & Hsu).
    destruct (walk_used_UN sh n l Hshape_nd Hnz Hr U d dnp self Hpos) as (Hun & _ & Hsun).
    fold U' in Hu, Hst, Hsu, Hun, Hsun.
    assert (Hanc : forall qx, In qx sh -> In (q_name qx) (tl_ok l) -> q_name qx <> n).
    { intros qx Hx Hin. destruct (reaches_head _ _ _ Hr Hn0) as [t Ht]. subst l. cbn [tl_ok] in Hin.
      pose proof (reaches_nodup _ _ _ Hr) as Hd. inversion Hd; subst. intros E. rewrite E in Hin. contradiction. }
    refine (conj _ (conj _ (conj _ (conj Hsu (conj Hsun (conj _ _)))))).
    - apply walk_used_pos. exact Hpos.
    - intros q0 Hq0 Hne. split.
      + apply Hu; [intros _; exact Hc | | exact Hq0 | exact Hne | apply Hoth; assumption].
        intros qx Hx Hin. apply Hoth; [exact Hx | apply Hanc; assumption].
      + apply Hun; [intros _; exact Hnp | | exact Hq0 | exact Hne | apply Hoth; assumption].
        intros qx Hx Hin. apply Hoth; [exact Hx | apply Hanc; assumption].
    - rewrite (Hst Hn0). unfold used_node.
      rewrite (vclamp_nonneg _ Hc), (vclamp_nonneg _ Hnp).
      destruct self; [destruct (Hself eq_refl) as [H1 H2]; rewrite (vclamp_nonneg _ H1), (vclamp_nonneg _ H2)|]; reflexivity.
    - intros m Hm. apply walk_used_self. right.
      destruct (reaches_head _ _ _ Hr Hn0) as [t ->]. exact Hm.
    - intros m Hm. apply walk_used_frame. exact Hm.
  Qed.
End DeltaUsed.

(* ---------- the same in "individual" form: nothing is assumed about quotas that are neither
   the start nor its ancestors (used while a quota is being re-attached, and during a rebuild) *)

Section DeltaInd.
  Variable sh : list qshape.
  Hypothesis Hshape_nd : NoDup (names sh).
  Hypothesis Hnz : forall q, In q sh -> q_name q <> 0.
  Hypothesis Hvals : ValsOk sh.

  Lemma walk_req_ind n l q R d dnp self :
    reaches sh n l -> find sh n = Some q -> PosR sh R ->
    (forall q0, In q0 sh -> In (q_name q0) (tl_ok l) -> okN sh R q0) ->
    vnonneg (vadd (r_creq (R n)) d) -> vnonneg (vadd (r_np (R n)) dnp) ->
    (self = true -> vnonneg (vadd (r_sreq (R n)) d) /\ vnonneg (vadd (r_snp (R n)) dnp)) ->
    let R' := walk_req sh R l d dnp self in
    PosR sh R' /\
    (forall q0, In q0 sh -> okB R q0 \/ In (q_name q0) l -> okB R' q0) /\
    (forall q0, In q0 sh -> q_name q0 <> n -> okA sh R q0 -> okA sh R' q0) /\
    (forall q0, In q0 sh -> q_name q0 <> n -> okN sh R q0 -> okN sh R' q0) /\
    R' n = mkR (freq q (vadd (r_creq (R n)) d)) (vadd (r_creq (R n)) d)
               (if self then vadd (r_sreq (R n)) d else r_sreq (R n))
               (vadd (r_np (R n)) dnp)
               (if self then vadd (r_snp (R n)) dnp else r_snp (R n)) /\
    sumc sh (limR R') n = sumc sh (limR R) n /\ sumc sh (npR R') n = sumc sh (npR R) n /\
    (forall m, m <> n -> r_sreq (R' m) = r_sreq (R m) /\ r_snp (R' m) = r_snp (R m)) /\
    (forall m, ~ In m l -> R' m = R m).
  Proof.
    intros Hr Hf Hpos Hanc Hc Hnp Hself R'.
    assert (Hn0 : n <> 0) by (rewrite <- (find_name _ _ _ Hf); apply Hnz; eapply find_in; eauto).
    destruct (walk_req_spec sh Hshape_nd Hnz Hvals n l Hr R d dnp self Hpos)
      as (Hfr & Hpos' & Hb & Ha & Hn & Hst & Hsl & Hsn).
    fold R' in Hfr, Hpos', Hb, Ha, Hn, Hst, Hsl, Hsn.
    refine (conj Hpos' (conj _ (conj Ha (conj _ (conj _ (conj Hsl (conj Hsn (conj _ Hfr)))))))).
    - intros q0 Hq0 [HB|Hin].
      + destruct (in_dec Z.eq_dec (q_name q0) l) as [Hin|Hin].
        * eapply Hb; eauto. apply in_find; assumption.
        * unfold okB. rewrite Hfr by exact Hin. exact HB.
      + eapply Hb; eauto. apply in_find; assumption.
    - apply Hn; [intros _; exact Hnp | exact Hanc].
    - rewrite (Hst q Hf). unfold req_node.
      rewrite (vclamp_nonneg _ Hc), (vclamp_nonneg _ Hnp).
      destruct self; [destruct (Hself eq_refl) as [H1 H2]; rewrite (vclamp_nonneg _ H1), (vclamp_nonneg _ H2)|]; reflexivity.
    - intros m Hm. apply walk_req_self. right.
      destruct (reaches_head _ _ _ Hr Hn0) as [t ->]. exact Hm.
  Qed.

  Lemma walk_used_ind n l q U d dnp self :
    reaches sh n l -> find sh n = Some q -> PosU sh U ->
    (forall q0, In q0 sh -> In (q_name q0) (tl_ok l) -> okU sh U q0 /\ okUN sh U q0) ->
    vnonneg (vadd (u_used (U n)) d) -> vnonneg (vadd (u_np (U n)) dnp) ->
    (self = true -> vnonneg (vadd (u_sused (U n)) d) /\ vnonneg (vadd (u_snp (U n)) dnp)) ->
    let U' := walk_used U l d dnp self in
    PosU sh U' /\
    (forall q0, In q0 sh -> q_name q0 <> n -> okU sh U q0 -> okU sh U' q0) /\
    (forall q0, In q0 sh -> q_name q0 <> n -> okUN sh U q0 -> okUN sh U' q0) /\
    U' n = mkU (vadd (u_used (U n)) d) (if self then vadd (u_sused (U n)) d else u_sused (U n))
               (vadd (u_np (U n)) dnp) (if self then vadd (u_snp (U n)) dnp else u_snp (U n)) /\
    sumc sh (usedU U') n = sumc sh (usedU U) n /\ sumc sh (unpU U') n = sumc sh (unpU U) n /\
    (forall m, m <> n -> u_sused (U' m) = u_sused (U m) /\ u_snp (U' m) = u_snp (U m)) /\
    (forall m, ~ In m l -> U' m = U m).
  Proof.
    intros Hr Hf Hpos Hanc Hc Hnp Hself U'.
    assert (Hn0 : n <> 0) by (rewrite <- (find_name _ _ _ Hf); apply Hnz; eapply find_in; eauto).
    destruct (walk_used_U sh n l Hshape_nd Hnz Hr U d dnp self Hpos) as (Hu & Hst & Hsu).
    destruct (walk_used_UN sh n l Hshape_nd Hnz Hr U d dnp self Hpos) as (Hun & _ & Hsun).
    fold U' in Hu, Hst, Hsu, Hun, Hsun.
    refine (conj _ (conj _ (conj _ (conj _ (conj Hsu (conj Hsun (conj _ _))))))).
    - apply walk_used_pos. exact Hpos.
    - apply Hu; [intros _; exact Hc | intros q0 Hq0 Hin; apply Hanc; assumption].
    - apply Hun; [intros _; exact Hnp | intros q0 Hq0 Hin; apply Hanc; assumption].
    - rewrite (Hst Hn0). unfold used_node.
      rewrite (vclamp_nonneg _ Hc), (vclamp_nonneg _ Hnp).
      destruct self; [destruct (Hself eq_refl) as [H1 H2]; rewrite (vclamp_nonneg _ H1), (vclamp_nonneg _ H2)|]; reflexivity.
    - intros m Hm. apply walk_used_self. right.
      destruct (reaches_head _ _ _ Hr Hn0) as [t ->]. exact Hm.
    - intros m Hm. apply walk_used_frame. exact Hm.
  Qed.
End DeltaInd.

End WithDim.
