(* C01 — how the tree shape and the sums over children change when a quota entry is replaced,
   appended or removed. *)
From Coq Require Import List ZArith Bool Lia.
From Verif Require Import Lib.VecN C01.Model C01.Spec C01.Proofs_Base.
Import ListNotations.
Open Scope Z_scope.

Section WithDim.
Context {D : Dim}.

(* ---------- sums ---------- *)

Lemma filter_all {A} (f : A -> bool) l : (forall x, In x l -> f x = true) -> filter f l = l.
Proof.
  induction l as [|a t IH]; intros H; [reflexivity|]. cbn [filter].
  rewrite (H a (or_introl eq_refl)), IH; [reflexivity|]. intros x Hx. apply H. right. exact Hx.
Qed.

Lemma children_upd_sh sh n f m : (forall c, q_parent (f c) = q_parent c) ->
  children (upd_sh sh n f) m = map (fun c => if q_name c =? n then f c else c) (children sh m).
Proof.
  intros Hf. unfold children, upd_sh. induction sh as [|c t IH]; [reflexivity|]. cbn [map filter].
  assert (E : q_parent (if q_name c =? n then f c else c) = q_parent c) by (destruct (q_name c =? n); auto).
  rewrite E. destruct (q_parent c =? m); cbn [map]; rewrite IH; reflexivity.
Qed.

Lemma sumc_upd_sh sh n f g m : (forall c, q_parent (f c) = q_parent c) ->
  sumc (upd_sh sh n f) g m = sumc sh (fun c => g (if q_name c =? n then f c else c)) m.
Proof. intros Hf. unfold sumc. rewrite (children_upd_sh _ _ _ _ Hf), map_map. reflexivity. Qed.

Lemma sumc_remove sh g n q m : NoDup (names sh) -> find sh n = Some q ->
  sumc (remove_sh sh n) g m = if q_parent q =? m then vsub (sumc sh g m) (g q) else sumc sh g m.
Proof.
  intros Hnd Hf. unfold sumc, children, remove_sh.
  revert Hnd Hf. induction sh as [|y t IH]; intros Hnd Hf; [discriminate|].
  cbn [names map] in Hnd. inversion Hnd as [|? ? Hy Ht]; subst.
  cbn [find] in Hf. cbn [filter]. destruct (q_name y =? n) eqn:E; cbn [negb].
  - injection Hf as <-. apply Z.eqb_eq in E.
    assert (Hrest : filter (fun q0 => negb (q_name q0 =? n)) t = t).
    { apply filter_all. intros x Hx. apply negb_true_iff, Z.eqb_neq.
      intros Ex. apply Hy. rewrite E, <- Ex. apply in_map. exact Hx. }
    rewrite Hrest. destruct (q_parent y =? m); cbn [map]; rewrite ?vsum_cons; [|reflexivity].
    generalize (vsum (map g (filter (fun c => q_parent c =? m) t))) (g y). intros. vlia.
  - specialize (IH Ht Hf). cbn [filter]. destruct (q_parent y =? m) eqn:Ey; cbn [map]; rewrite ?vsum_cons, IH; [|reflexivity].
    destruct (q_parent q =? m); [|reflexivity].
    generalize (vsum (map g (filter (fun c => q_parent c =? m) t))) (g y) (g q). intros. vlia.
Qed.

(* ---------- chains ---------- *)

Lemma reaches_upd_sh sh n f m l :
  (forall c, q_name (f c) = q_name c) -> (forall c, q_parent (f c) = q_parent c) ->
  reaches sh m l -> reaches (upd_sh sh n f) m l.
Proof.
  intros Hn Hp. apply reaches_ext. intros x.
  destruct (Z.eq_dec x n) as [->|E].
  - destruct (find sh n) as [q|] eqn:Hf.
    + rewrite (find_upd_same sh n f q Hn Hf). symmetry. apply Hp.
    + assert (find (upd_sh sh n f) n = None).
      { apply find_none. rewrite (names_upd _ _ _ Hn). apply find_none. exact Hf. }
      rewrite H. exact I.
  - rewrite (find_upd_other sh n f x Hn E). destruct (find sh x); auto.
Qed.

Lemma reaches_upd_sh_inv sh n f m l :
  (forall c, q_name (f c) = q_name c) -> (forall c, q_parent (f c) = q_parent c) ->
  reaches (upd_sh sh n f) m l -> reaches sh m l.
Proof.
  intros Hn Hp. apply reaches_ext. intros x.
  destruct (Z.eq_dec x n) as [->|E].
  - destruct (find sh n) as [q|] eqn:Hf.
    + rewrite (find_upd_same sh n f q Hn Hf). apply Hp.
    + assert (find (upd_sh sh n f) n = None).
      { apply find_none. rewrite (names_upd _ _ _ Hn). apply find_none. exact Hf. }
      rewrite H. exact I.
  - rewrite (find_upd_other sh n f x Hn E). destruct (find sh x); auto.
Qed.

(* a chain that avoids n survives the removal of n and the appending of anything *)
Lemma reaches_remove_app sh n t m l : reaches sh m l -> ~ In n l -> reaches (remove_sh sh n ++ t) m l.
Proof.
  induction 1 as [|m q l Hm Hf Hr IH]; intros Hn; [constructor|].
  econstructor; [exact Hm | | apply IH; intros H; apply Hn; right; exact H].
  apply find_app_l. rewrite find_remove_other; [exact Hf|]. intros E. apply Hn. left. exact E.
Qed.

Lemma reaches_remove sh n m l : reaches sh m l -> ~ In n l -> reaches (remove_sh sh n) m l.
Proof. intros H Hn. rewrite <- (app_nil_r (remove_sh sh n)). apply reaches_remove_app; assumption. Qed.

Lemma reaches_app sh t m l : reaches sh m l -> reaches (sh ++ t) m l.
Proof.
  induction 1 as [|m q l Hm Hf Hr IH]; [constructor|].
  econstructor; [exact Hm | apply find_app_l; exact Hf | exact IH].
Qed.

(* an ancestor other than the start has a child *)
Lemma chain_member_has_child sh m l n : reaches sh m l -> In n l -> n <> m ->
  exists c, In c sh /\ q_parent c = n.
Proof.
  induction 1 as [|m q l Hm Hf Hr IH]; intros Hin Hne; [destruct Hin|].
  destruct Hin as [E|Hin]; [congruence|].
  destruct (Z.eq_dec n (q_parent q)) as [E|E].
  - exists q. split; [eapply find_in; eauto | auto].
  - apply IH; assumption.
Qed.

Lemma find_snoc_new sh b : ~ In (q_name b) (names sh) -> find (sh ++ [b]) (q_name b) = Some b.
Proof.
  intros H. rewrite find_app_r by (apply find_none; exact H). cbn [find]. rewrite Z.eqb_refl. reflexivity.
Qed.
Lemma find_snoc_old sh b m : m <> q_name b -> find (sh ++ [b]) m = find sh m.
Proof.
  intros H. destruct (find sh m) as [q|] eqn:E; [apply find_app_l; exact E|].
  rewrite find_app_r by exact E. cbn [find]. destruct (q_name b =? m) eqn:E2; [apply Z.eqb_eq in E2; congruence | reflexivity].
Qed.

Lemma names_app sh t : names (sh ++ t) = names sh ++ names t.
Proof. unfold names. apply map_app. Qed.

Lemma not_in_names_remove sh n : ~ In n (names (remove_sh sh n)).
Proof. apply find_none. apply find_remove_same. Qed.

Lemma nodup_snoc (l : list Z) x : NoDup l -> ~ In x l -> NoDup (l ++ [x]).
Proof.
  intros Hl Hx. induction l as [|a t IH]; cbn [app]; [constructor; [auto | constructor]|].
  inversion Hl as [|? ? Ha Ht]; subst. constructor.
  - intros Hin. apply in_app_or in Hin. destruct Hin as [Hin|[E|[]]]; [contradiction|].
    apply Hx. left. symmetry. exact E.
  - apply IH; [exact Ht | intros H; apply Hx; right; exact H].
Qed.

(* ---------- ShapeOk is preserved ---------- *)

Lemma shape_upd sh n q q' :
  ShapeOk sh -> find sh n = Some q ->
  q_name q' = q_name q -> q_parent q' = q_parent q ->
  vnonneg (q_max q') -> vnonneg (q_min q') ->
  (q_isparent q' = true \/ forall c, In c sh -> q_parent c <> n) ->
  ShapeOk (upd_sh sh n (fun _ => q')).
Proof.
  intros [Hnd Hpos Hreach Hpar Hvals] Hf Hn' Hp' Hmax Hmin Hisp.
  assert (Hqn : q_name q = n) by (eapply find_name; eauto).
  assert (Hfn : forall c, q_name c =? n = true -> q_name ((fun _ : qshape => q') c) = q_name c).
  { intros c E. apply Z.eqb_eq in E. cbn. congruence. }
  assert (Hin' : forall c', In c' (upd_sh sh n (fun _ => q')) ->
            exists c, In c sh /\ c' = (if q_name c =? n then q' else c)).
  { intros c' Hc'. unfold upd_sh in Hc'. apply in_map_iff in Hc'. destruct Hc' as [c [E Hc]]. eauto. }
  assert (Hnames : names (upd_sh sh n (fun _ => q')) = names sh).
  { unfold names, upd_sh. rewrite map_map. apply map_ext_in. intros c Hc.
    destruct (q_name c =? n) eqn:E; [|reflexivity]. apply Z.eqb_eq in E. congruence. }
  assert (Hfind_n : find (upd_sh sh n (fun _ => q')) n = Some q').
  { clear - Hf Hn' Hqn. induction sh as [|x t IH]; [discriminate|]. cbn [find upd_sh map] in *.
    destruct (q_name x =? n) eqn:E.
    - injection Hf as <-. rewrite Hn', E. reflexivity.
    - rewrite E. apply IH. exact Hf. }
  assert (Hfind_o : forall m, m <> n -> find (upd_sh sh n (fun _ => q')) m = find sh m).
  { intros m Hm. clear - Hm Hn' Hqn Hf. induction sh as [|x t IH]; [reflexivity|]. cbn [find upd_sh map] in *.
    destruct (q_name x =? n) eqn:E.
    - injection Hf as <-. rewrite Hn'. apply Z.eqb_eq in E.
      destruct (q_name x =? m) eqn:E2; [apply Z.eqb_eq in E2; congruence|].
      (* the rest of the list has no n: but we do not need that *)
      clear IH. induction t as [|y t IH]; [reflexivity|]. cbn [find map].
      destruct (q_name y =? n) eqn:E3.
      + rewrite Hn'. rewrite E2. apply Z.eqb_eq in E3.
        destruct (q_name y =? m) eqn:E4; [apply Z.eqb_eq in E4; congruence | exact IH].
      + destruct (q_name y =? m); [reflexivity | exact IH].
    - destruct (q_name x =? m); [reflexivity | apply IH; exact Hf]. }
  assert (Hreach' : forall m l, reaches sh m l -> reaches (upd_sh sh n (fun _ => q')) m l).
  { apply reaches_ext. intros x. destruct (Z.eq_dec x n) as [->|E].
    - rewrite Hf, Hfind_n. congruence.
    - rewrite (Hfind_o _ E). destruct (find sh x); auto. }
  constructor.
  - rewrite Hnames. exact Hnd.
  - intros c' Hc'. destruct (Hin' c' Hc') as [c [Hc ->]].
    destruct (q_name c =? n) eqn:E; [apply Z.eqb_eq in E; replace (q_name q') with (q_name c) by congruence|]; apply Hpos; exact Hc.
  - intros c' Hc'. destruct (Hin' c' Hc') as [c [Hc ->]].
    destruct (Hreach c Hc) as [l Hl]. exists l.
    destruct (q_name c =? n) eqn:E; [apply Z.eqb_eq in E; replace (q_name q') with (q_name c) by congruence|]; apply Hreach'; exact Hl.
  - intros c' Hc'. destruct (Hin' c' Hc') as [c [Hc ->]].
    assert (Hpc : q_parent (if q_name c =? n then q' else c) = q_parent c).
    { destruct (q_name c =? n) eqn:E; [|reflexivity]. apply Z.eqb_eq in E.
      assert (c = q) by (rewrite <- E in Hf; rewrite (in_find _ _ Hnd Hc) in Hf; congruence). subst c. exact Hp'. }
    rewrite Hpc. destruct (Hpar c Hc) as [H0|[H3 [pq [Hfp Hip]]]]; [left; exact H0|]. right. split; [exact H3|].
    destruct (Z.eq_dec (q_parent c) n) as [E|E].
    + exists q'. rewrite E. split; [exact Hfind_n|].
      destruct Hisp as [Hisp|Hisp]; [exact Hisp | exfalso; apply (Hisp c Hc E)].
    + exists pq. rewrite (Hfind_o _ E). auto.
  - intros c' Hc'. destruct (Hin' c' Hc') as [c [Hc ->]].
    destruct (q_name c =? n); [auto | apply Hvals; exact Hc].
Qed.

Lemma shape_app sh b :
  ShapeOk sh -> ~ In (q_name b) (names sh) -> 1 <= q_name b -> parent_ok sh (q_parent b) = true ->
  vnonneg (q_max b) -> vnonneg (q_min b) -> ShapeOk (sh ++ [b]).
Proof.
  intros [Hnd Hpos Hreach Hpar Hvals] Hnew Hb1 Hpok Hmax Hmin.
  assert (Hpar_b : q_parent b = 0 \/ (3 <= q_parent b /\ exists pq, find sh (q_parent b) = Some pq /\ q_isparent pq = true)).
  { unfold parent_ok in Hpok. apply orb_prop in Hpok. destruct Hpok as [E|E]; [left; apply Z.eqb_eq; exact E|].
    right. destruct (find sh (q_parent b)) as [pq|]; [|discriminate].
    apply andb_prop in E. destruct E as [E1 E2]. apply Z.leb_le in E1. eauto. }
  constructor.
  - rewrite names_app. cbn [names map]. apply nodup_snoc; assumption.
  - intros c Hc. apply in_app_or in Hc. destruct Hc as [Hc|[<-|[]]]; [apply Hpos; exact Hc | exact Hb1].
  - intros c Hc. apply in_app_or in Hc. destruct Hc as [Hc|[<-|[]]].
    + destruct (Hreach c Hc) as [l Hl]. exists l. apply reaches_app. exact Hl.
    + destruct Hpar_b as [H0|[_ [pq [Hfp _]]]].
      * exists [q_name b]. econstructor; [lia | apply find_snoc_new; exact Hnew | rewrite H0; constructor].
      * destruct (Hreach pq (find_in _ _ _ Hfp)) as [l Hl]. rewrite (find_name _ _ _ Hfp) in Hl.
        exists (q_name b :: l). econstructor; [lia | apply find_snoc_new; exact Hnew | apply reaches_app; exact Hl].
  - intros c Hc. apply in_app_or in Hc.
    assert (Hlift : forall x, x = 0 \/ (3 <= x /\ exists pq, find sh x = Some pq /\ q_isparent pq = true) ->
              x = 0 \/ (3 <= x /\ exists pq, find (sh ++ [b]) x = Some pq /\ q_isparent pq = true)).
    { intros x [H0|[H3 [pq [Hfp Hip]]]]; [left; exact H0 | right; split; [exact H3|]].
      exists pq. split; [apply find_app_l; exact Hfp | exact Hip]. }
    destruct Hc as [Hc|[<-|[]]]; apply Hlift; [apply Hpar; exact Hc | exact Hpar_b].
  - intros c Hc. apply in_app_or in Hc. destruct Hc as [Hc|[<-|[]]]; [apply Hvals; exact Hc | auto].
Qed.

Lemma shape_remove_leaf sh n :
  ShapeOk sh -> (forall c, In c sh -> q_parent c <> n) -> ShapeOk (remove_sh sh n).
Proof.
  intros [Hnd Hpos Hreach Hpar Hvals] Hleaf.
  constructor.
  - apply names_remove_nodup. exact Hnd.
  - intros c Hc. apply in_remove in Hc. apply Hpos. tauto.
  - intros c Hc. apply in_remove in Hc. destruct Hc as [Hc Hne].
    destruct (Hreach c Hc) as [l Hl]. exists l. apply reaches_remove; [exact Hl|].
    intros Hin. destruct (chain_member_has_child _ _ _ _ Hl Hin (fun E => Hne (eq_sym E))) as [x [Hx Hpx]].
    apply (Hleaf x Hx Hpx).
  - intros c Hc. apply in_remove in Hc. destruct Hc as [Hc Hne].
    destruct (Hpar c Hc) as [H0|[H3 [pq [Hfp Hip]]]]; [left; exact H0 | right; split; [exact H3|]].
    exists pq. split; [|exact Hip]. rewrite find_remove_other; [exact Hfp|]. apply Hleaf. exact Hc.
  - intros c Hc. apply in_remove in Hc. apply Hvals. tauto.
Qed.

(* re-attaching n (with its subtree) under another parent *)
Lemma shape_reparent sh n old b lp :
  ShapeOk sh -> find sh n = Some old -> q_name b = n -> 3 <= n ->
  parent_ok sh (q_parent b) = true -> q_parent b <> n ->
  reaches sh (q_parent b) lp -> ~ In n lp ->
  (q_isparent b = true \/ forall c, In c sh -> q_parent c <> n) ->
  vnonneg (q_max b) -> vnonneg (q_min b) ->
  ShapeOk (remove_sh sh n ++ [b]).
Proof.
  intros [Hnd Hpos Hreach Hpar Hvals] Hf Hbn Hn3 Hpok Hpne Hlp Hnlp Hisp Hmax Hmin.
  set (sh2 := remove_sh sh n ++ [b]).
  assert (Hnew : ~ In (q_name b) (names (remove_sh sh n))) by (rewrite Hbn; apply not_in_names_remove).
  assert (Hfind_n : find sh2 n = Some b).
  { pose proof (find_snoc_new (remove_sh sh n) b Hnew) as H. rewrite Hbn in H. exact H. }
  assert (Hfind_o : forall m, m <> n -> find sh2 m = find sh m).
  { intros m Hm. unfold sh2. rewrite find_snoc_old by (rewrite Hbn; exact Hm). apply find_remove_other. exact Hm. }
  assert (Hlp2 : reaches sh2 (q_parent b) lp) by (apply reaches_remove_app; assumption).
  assert (Hall : forall m l, reaches sh m l -> exists l', reaches sh2 m l').
  { induction 1 as [|m q l Hm Hfm Hr IH]; [exists []; constructor|].
    destruct (Z.eq_dec m n) as [->|E].
    - exists (n :: lp). econstructor; [exact Hm | exact Hfind_n | exact Hlp2].
    - destruct IH as [l' Hl']. exists (m :: l'). econstructor; [exact Hm | rewrite (Hfind_o _ E); exact Hfm | exact Hl']. }
  constructor.
  - unfold sh2. rewrite names_app. cbn [names map]. apply nodup_snoc; [apply names_remove_nodup; exact Hnd | exact Hnew].
  - intros c Hc. apply in_app_or in Hc. destruct Hc as [Hc|[<-|[]]]; [apply in_remove in Hc; apply Hpos; tauto | lia].
  - intros c Hc. apply in_app_or in Hc. destruct Hc as [Hc|[<-|[]]].
    + apply in_remove in Hc. destruct (Hreach c (proj1 Hc)) as [l Hl]. eapply Hall; eauto.
    + rewrite Hbn. destruct (Hreach old (find_in _ _ _ Hf)) as [l Hl]. rewrite (find_name _ _ _ Hf) in Hl. eapply Hall; eauto.
  - intros c Hc. apply in_app_or in Hc.
    assert (Hlift : forall x, x = 0 \/ (3 <= x /\ exists pq, find sh x = Some pq /\ q_isparent pq = true) ->
              (x = n -> q_isparent b = true) ->
              x = 0 \/ (3 <= x /\ exists pq, find sh2 x = Some pq /\ q_isparent pq = true)).
    { intros x [H0|[H3 [pq [Hfp Hip]]]] Hxn; [left; exact H0 | right; split; [exact H3|]].
      destruct (Z.eq_dec x n) as [->|E]; [exists b; auto | exists pq; rewrite (Hfind_o _ E); auto]. }
    destruct Hc as [Hc|[<-|[]]].
    + apply in_remove in Hc. destruct Hc as [Hc Hne]. apply Hlift; [apply Hpar; exact Hc|].
      intros E. destruct Hisp as [Hisp|Hisp]; [exact Hisp | exfalso; apply (Hisp c Hc E)].
    + apply Hlift; [|intros E; contradiction].
      unfold parent_ok in Hpok. apply orb_prop in Hpok. destruct Hpok as [E|E]; [left; apply Z.eqb_eq; exact E|].
      right. destruct (find sh (q_parent b)) as [pq|]; [|discriminate].
      apply andb_prop in E. destruct E as [E1 E2]. apply Z.leb_le in E1. eauto.
  - intros c Hc. apply in_app_or in Hc. destruct Hc as [Hc|[<-|[]]]; [apply in_remove in Hc; apply Hvals; tauto | auto].
Qed.

(* ---------- replacing the entry named n by q' (same name and parent) ---------- *)

Lemma map_replace_notin (q' : qshape) k l : (forall y, In y l -> q_name y <> k) ->
  map (fun c => if q_name c =? k then q' else c) l = l.
Proof.
  induction l as [|y l IHl]; intros H; [reflexivity|]. cbn [map].
  destruct (q_name y =? k) eqn:E3; [apply Z.eqb_eq in E3; exfalso; apply (H y); [left; reflexivity | exact E3]|].
  f_equal. apply IHl. intros z Hz. apply H. right. exact Hz.
Qed.

Section UpdConst.
  Variables (sh : list qshape) (n : Z) (q q' : qshape).
  Hypothesis Hnd : NoDup (names sh).
  Hypothesis Hf : find sh n = Some q.
  Hypothesis Hname : q_name q' = q_name q.
  Hypothesis Hpar : q_parent q' = q_parent q.

  Let sh' := upd_sh sh n (fun _ => q').

  Lemma upd_const_pointwise : sh' = map (fun c => if q_name c =? n then q' else c) sh.
  Proof. reflexivity. Qed.

  Lemma upd_const_names : names sh' = names sh.
  Proof.
    unfold sh', names, upd_sh. rewrite map_map. apply map_ext_in. intros c Hc.
    destruct (q_name c =? n) eqn:E; [|reflexivity]. apply Z.eqb_eq in E.
    assert (c = q) by (rewrite <- E in Hf; rewrite (in_find _ _ Hnd Hc) in Hf; congruence). subst c. exact Hname.
  Qed.

  Lemma upd_const_find_same : find sh' n = Some q'.
  Proof.
    assert (Hqn : q_name q = n) by (eapply find_name; eauto).
    unfold sh'. clear sh' Hnd. induction sh as [|x t IH]; [discriminate|]. cbn [find upd_sh map] in *.
    destruct (q_name x =? n) eqn:E.
    - injection Hf as <-. rewrite Hname, E. reflexivity.
    - rewrite E. apply IH. exact Hf.
  Qed.

  Lemma upd_const_find_other m : m <> n -> find sh' m = find sh m.
  Proof.
    intros Hm. assert (Hqn : q_name q = n) by (eapply find_name; eauto).
    unfold sh'. clear sh'. induction sh as [|x t IH]; [reflexivity|]. cbn [find upd_sh map] in *.
    cbn [names map] in Hnd. inversion Hnd as [|? ? Hx Ht]; subst.
    destruct (q_name x =? q_name q) eqn:E.
    - injection Hf as <-. rewrite Hname. apply Z.eqb_eq in E.
      destruct (q_name x =? m) eqn:E2; [apply Z.eqb_eq in E2; congruence|].
      (* no other entry is named n *)
      f_equal. apply map_replace_notin. intros y Hy E3. apply Hx. rewrite <- E3. apply in_map. exact Hy.
    - destruct (q_name x =? m); [reflexivity | apply IH; assumption].
  Qed.

  Lemma sumc_upd_const g m :
    sumc sh' g m = if q_parent q =? m then vadd (vsub (sumc sh g m) (g q)) (g q') else sumc sh g m.
  Proof.
    assert (Hqn : q_name q = n) by (eapply find_name; eauto).
    set (g' := fun c => g (if q_name c =? n then q' else c)).
    assert (E1 : sumc sh' g m = sumc sh g' m).
    { unfold sumc, sh', children, upd_sh, g'. clear sh'. induction sh as [|x t IH]; [reflexivity|].
      cbn [names map] in Hnd. inversion Hnd as [|? ? Hx Ht]; subst.
      cbn [map filter find] in *. destruct (q_name x =? q_name q) eqn:E.
      - injection Hf as <-. rewrite Hpar.
        rewrite (map_replace_notin q' (q_name x) t) by (intros y Hy E3; apply Hx; rewrite <- E3; apply in_map; exact Hy).
        destruct (q_parent x =? m); cbn [map]; rewrite ?vsum_cons, ?E.
        + f_equal. apply vsum_map_ext. intros c Hc. apply filter_In in Hc. destruct Hc as [Hc _].
          destruct (q_name c =? q_name x) eqn:E3; [|reflexivity].
          apply Z.eqb_eq in E3. exfalso. apply Hx. rewrite <- E3. apply in_map. exact Hc.
        + apply vsum_map_ext. intros c Hc. apply filter_In in Hc. destruct Hc as [Hc _].
          destruct (q_name c =? q_name x) eqn:E3; [|reflexivity].
          apply Z.eqb_eq in E3. exfalso. apply Hx. rewrite <- E3. apply in_map. exact Hc.
      - specialize (IH Ht Hf). destruct (q_parent x =? m); cbn [map]; rewrite ?vsum_cons, ?E, IH; reflexivity. }
    rewrite E1.
    rewrite (sumc_change sh g g' m n q Hnd Hf).
    - unfold g'. rewrite Hqn, Z.eqb_refl. reflexivity.
    - intros c Hc Hcn. unfold g'. apply Z.eqb_neq in Hcn. rewrite Hcn. reflexivity.
  Qed.
End UpdConst.

End WithDim.
