(* C01 — concurrency: the pod event handlers run under the read side of hierarchyUpdateLock, so
   handlers for different pods interleave at the granularity of their atomic sections (pod-cache
   write under the quota lock; request propagation under the ordered path locks; assigned flag;
   used propagation). Every interleaving of the section lists of handlers on pairwise distinct
   pods, started from a consistent state, ends in a consistent state. *)
From Coq Require Import List ZArith Bool Lia.
From Verif Require Import Lib.VecN Lib.Interleave C01.Model C01.Spec C01.Proofs_Base C01.Proofs_Walk C01.Proofs_Delta
  C01.Proofs_Unique C01.Proofs_PodList C01.Proofs_Sections C01.Proofs_Pods C01.Proofs_Reset C01.Proofs_Main.
Import ListNotations.
Open Scope Z_scope.

Section WithDim.
Context {D : Dim}.

(* ---------- atomic sections ---------- *)

Inductive action :=
| ACacheAdd (q id : Z)
| ACacheDel (q id : Z)
| ASetAsg (q id : Z) (b : bool)
| AReq (q id : Z) (old new : option pod)
| AUsed (q id : Z) (old new : option pod).

Definition act (s : state) (a : action) : state :=
  match a with
  | ACacheAdd q id => cache_add s q id
  | ACacheDel q id => cache_del s q id
  | ASetAsg q id b => set_asg s q id b
  | AReq q _ old new => pod_req_sec s q old new
  | AUsed q _ old new => pod_used_sec s q old new
  end.

Definition aid (a : action) : Z :=
  match a with
  | ACacheAdd _ id | ACacheDel _ id | ASetAsg _ id _ | AReq _ id _ _ | AUsed _ id _ _ => id
  end.

(* an action is well-formed when the pod objects it carries belong to its pod *)
Definition aok (a : action) : Prop :=
  match a with
  | AReq _ id old new | AUsed _ id old new =>
      (old <> None \/ new <> None) /\ oid old new = id /\
      (forall p, old = Some p -> p_id p = id) /\ (forall p, new = Some p -> p_id p = id)
  | _ => True
  end.

(* ---------- the section lists of the three handlers that hold the read lock ---------- *)

Definition add_secs (q : Z) (p : pod) : list action :=
  [ACacheAdd q (p_id p); AReq q (p_id p) None (Some p)]
  ++ (if p_bound p then [ASetAsg q (p_id p) true; AUsed q (p_id p) None (Some p)] else []).

Definition remove_secs (q : Z) (p : pod) (asg : bool) : list action :=
  [AReq q (p_id p) (Some p) None]
  ++ (if asg then [AUsed q (p_id p) (Some p) None] else [])
  ++ [ACacheDel q (p_id p)].

Definition sections (s : state) (o : op) : list action :=
  match o with
  | OpPodAdd q p =>
      if p_ign p then []
      else if exists_q s q && negb (has_pod (st_p s q) (p_id p)) then add_secs q p else []
  | OpPodDelete q p =>
      if exists_in s q (p_id p) then remove_secs q p (is_asg s q (p_id p)) else []
  | OpPodUpdate qn qo pn po =>
      if qo =? qn then
        if exists_q s qn then
          if negb (p_ign pn) then
            if has_pod (st_p s qn) (p_id pn) then
              AReq qn (p_id pn) (Some po) (Some pn)
              :: (if is_asg s qn (p_id pn) then [AUsed qn (p_id pn) (Some po) (Some pn)]
                  else if p_bound pn then [ASetAsg qn (p_id pn) true; AUsed qn (p_id pn) None (Some pn)] else [])
            else add_secs qn pn
          else if has_pod (st_p s qn) (p_id po) then remove_secs qo po (is_asg s qo (p_id po)) else []
        else []
      else
        (if exists_in s qo (p_id po) then
           (if is_asg s qo (p_id po) then [AUsed qo (p_id po) (Some po) None] else [])
           ++ [AReq qo (p_id po) (Some po) None; ACacheDel qo (p_id po)]
         else [])
        ++ (if exists_q s qn && negb (has_pod (st_p s qn) (p_id pn)) && negb (p_ign pn)
            then add_secs qn pn else [])
  | _ => []
  end.

(* ---------- run one after the other, the sections of a handler are the handler ---------- *)

Lemma exec_cons s a l : exec act s (a :: l) = exec act (act s a) l.
Proof. reflexivity. Qed.
Lemma exec_nil s : exec act s [] = s.
Proof. reflexivity. Qed.

Lemma is_asg_cache_add_fresh s q id : negb (has_pod (st_p s q) id) = true -> is_asg (cache_add s q id) q id = false.
Proof.
  intros H. apply negb_true_iff, has_pod_false in H. unfold is_asg, cache_add.
  destruct (exists_q s q) eqn:E; cbn [andb].
  - replace (has_pod (st_p s q) id) with false by (symmetry; apply has_pod_false; exact H). cbn [negb].
    unfold exists_q in *. cbn [st_sh st_p set_P]. rewrite fupd_same.
    destruct (find (st_sh s) q); [|discriminate]. cbn [andb].
    unfold asg_pod. rewrite existsb_app. fold (asg_pod (st_p s q) id). rewrite (asg_notin id _ H). cbn.
    rewrite Z.eqb_refl. reflexivity.
  - unfold exists_q in *. destruct (find (st_sh s) q); [discriminate | reflexivity].
Qed.

Lemma exec_add_secs s q p : negb (has_pod (st_p s q) (p_id p)) = true ->
  exec act s (add_secs q p) = add_new_pod s q p.
Proof.
  intros Hfresh. unfold add_secs, add_new_pod. cbn [app]. rewrite !exec_cons. cbn [act].
  rewrite is_asg_req_sec, (is_asg_cache_add_fresh s q (p_id p) Hfresh). cbn [negb]. rewrite andb_true_r.
  destruct (p_bound p); reflexivity.
Qed.

Lemma exec_remove_secs s q p : exec act s (remove_secs q p (is_asg s q (p_id p))) = remove_pod_req_first s q p.
Proof.
  unfold remove_secs, remove_pod_req_first. cbn [app]. rewrite exec_cons. cbn [act].
  rewrite is_asg_req_sec. destruct (is_asg s q (p_id p)); reflexivity.
Qed.

Lemma exec_app_act s l1 l2 : exec act s (l1 ++ l2) = exec act (exec act s l1) l2.
Proof. apply exec_app. Qed.

(* the removal half of a quota change touches the old quota's cache only *)
Lemma st_p_other_sections s q id o n m : m <> q ->
  st_p (pod_req_sec s q o n) m = st_p s m /\ st_p (pod_used_sec s q o n) m = st_p s m /\
  st_p (cache_del s q id) m = st_p s m /\ st_p (cache_add s q id) m = st_p s m /\
  forall b, st_p (set_asg s q id b) m = st_p s m.
Proof.
  intros Hm. unfold pod_req_sec, pod_used_sec, cache_del, cache_add, set_asg.
  destruct (exists_q s q); [|repeat split; reflexivity].
  repeat split.
  - destruct (viszero (vsub (oreq n) (oreq o)) && viszero (vsub (onp n) (onp o))); cbn; apply fupd_other; exact Hm.
  - destruct (negb (oasg (st_p s q) n) && negb (oasg (st_p s q) o)); [reflexivity|].
    destruct (viszero (vsub (oreq n) (oreq o)) && viszero (vsub (onp n) (onp o))); cbn; apply fupd_other; exact Hm.
  - cbn. apply fupd_other. exact Hm.
  - cbn [andb]. destruct (negb (has_pod (st_p s q) id)); [cbn; apply fupd_other; exact Hm | reflexivity].
  - intros b. cbn. apply fupd_other. exact Hm.
Qed.

Theorem sections_refine s o :
  match o with OpPodAdd _ _ | OpPodUpdate _ _ _ _ | OpPodDelete _ _ => exec act s (sections s o) = step s o | _ => True end.
Proof.
  destruct o; cbn [sections step]; auto.
  - unfold on_pod_add. destruct (p_ign p); [reflexivity|].
    destruct (exists_q s q && negb (has_pod (st_p s q) (p_id p))) eqn:E; [|reflexivity].
    apply andb_prop in E. apply exec_add_secs. tauto.
  - unfold on_pod_update. destruct (qo =? qn) eqn:Eq.
    + destruct (exists_q s qn); [|reflexivity].
      destruct (p_ign pn); cbn [negb].
      * destruct (has_pod (st_p s qn) (p_id po)); [apply exec_remove_secs | reflexivity].
      * destruct (has_pod (st_p s qn) (p_id pn)) eqn:Eh.
        -- rewrite exec_cons. cbn [act]. rewrite is_asg_req_sec.
           destruct (is_asg s qn (p_id pn)); [reflexivity|]. destruct (p_bound pn); reflexivity.
        -- assert (Hfresh : negb (has_pod (st_p s qn) (p_id pn)) = true) by (rewrite Eh; reflexivity).
           rewrite (exec_add_secs s qn pn Hfresh). unfold add_new_pod.
           rewrite is_asg_req_sec, (is_asg_cache_add_fresh s qn (p_id pn) Hfresh). cbn [negb]. rewrite andb_true_r.
           destruct (p_bound pn); reflexivity.
    + apply Z.eqb_neq in Eq. rewrite exec_app_act.
      set (s1 := exec act s (if exists_in s qo (p_id po)
                    then (if is_asg s qo (p_id po) then [AUsed qo (p_id po) (Some po) None] else [])
                         ++ [AReq qo (p_id po) (Some po) None; ACacheDel qo (p_id po)] else [])).
      assert (Es1 : s1 = (if exists_in s qo (p_id po)
                          then cache_del (pod_req_sec (if is_asg s qo (p_id po) then pod_used_sec s qo (Some po) None else s) qo (Some po) None) qo (p_id po)
                          else s)).
      { unfold s1. destruct (exists_in s qo (p_id po)); [|reflexivity]. destruct (is_asg s qo (p_id po)); reflexivity. }
      rewrite <- Es1.
      assert (Hsh1 : st_sh s1 = st_sh s).
      { rewrite Es1. destruct (exists_in s qo (p_id po)); [|reflexivity]. destruct (is_asg s qo (p_id po)); shr; reflexivity. }
      assert (HP1 : st_p s1 qn = st_p s qn).
      { rewrite Es1. destruct (exists_in s qo (p_id po)); [|reflexivity].
        assert (Hne : qn <> qo) by congruence.
        destruct (is_asg s qo (p_id po)).
        - destruct (st_p_other_sections (pod_req_sec (pod_used_sec s qo (Some po) None) qo (Some po) None) qo (p_id po) None None qn Hne) as (_ & _ & E3 & _).
          rewrite E3. destruct (st_p_other_sections (pod_used_sec s qo (Some po) None) qo (p_id po) (Some po) None qn Hne) as (E1 & _).
          rewrite E1. destruct (st_p_other_sections s qo (p_id po) (Some po) None qn Hne) as (_ & E2 & _). exact E2.
        - destruct (st_p_other_sections (pod_req_sec s qo (Some po) None) qo (p_id po) None None qn Hne) as (_ & _ & E3 & _).
          rewrite E3. destruct (st_p_other_sections s qo (p_id po) (Some po) None qn Hne) as (E1 & _). exact E1. }
      assert (Hex1 : exists_q s1 qn = exists_q s qn) by (unfold exists_q; rewrite Hsh1; reflexivity).
      rewrite Hex1, HP1.
      destruct (exists_q s qn && negb (has_pod (st_p s qn) (p_id pn)) && negb (p_ign pn)) eqn:E; [|reflexivity].
      apply exec_add_secs. rewrite HP1. apply andb_prop in E. destruct E as [E _]. apply andb_prop in E. tauto.
  - unfold on_pod_delete. destruct (exists_in s q (p_id p)); [apply exec_remove_secs | reflexivity].
Qed.

(* ---------- the view of one pod: its entry in every cache ---------- *)

Definition ev (s : state) (id : Z) : Z -> option pinfo := fun q => find_pod s q id.

Lemma find_map_pod_other ps id id' f : id <> id' -> (forall pi, pi_id (f pi) = pi_id pi) ->
  List.find (fun pi => pi_id pi =? id) (map_pod ps id' f) = List.find (fun pi => pi_id pi =? id) ps.
Proof.
  intros Hne Hf. unfold map_pod. induction ps as [|x t IH]; [reflexivity|]. cbn [map List.find].
  destruct (pi_id x =? id') eqn:E.
  - rewrite Hf. apply Z.eqb_eq in E. destruct (pi_id x =? id) eqn:E2; [apply Z.eqb_eq in E2; congruence | exact IH].
  - destruct (pi_id x =? id); [reflexivity | exact IH].
Qed.
Lemma find_filter_other ps id id' : id <> id' ->
  List.find (fun pi => pi_id pi =? id) (filter (fun pi => negb (pi_id pi =? id')) ps) = List.find (fun pi => pi_id pi =? id) ps.
Proof.
  intros Hne. induction ps as [|x t IH]; [reflexivity|]. cbn [filter List.find].
  destruct (pi_id x =? id') eqn:E; cbn [negb].
  - apply Z.eqb_eq in E. destruct (pi_id x =? id) eqn:E2; [apply Z.eqb_eq in E2; congruence | exact IH].
  - cbn [List.find]. destruct (pi_id x =? id); [reflexivity | exact IH].
Qed.
Lemma find_app_other ps id id' : id <> id' ->
  List.find (fun pi => pi_id pi =? id) (ps ++ [e0 id']) = List.find (fun pi => pi_id pi =? id) ps.
Proof.
  intros Hne. induction ps as [|x t IH]; cbn [app List.find].
  - cbn. destruct (id' =? id) eqn:E; [apply Z.eqb_eq in E; congruence | reflexivity].
  - destruct (pi_id x =? id); [reflexivity | exact IH].
Qed.

Lemma find_pod_by_p s s' q id : st_sh s' = st_sh s ->
  List.find (fun pi => pi_id pi =? id) (st_p s' q) = List.find (fun pi => pi_id pi =? id) (st_p s q) ->
  find_pod s' q id = find_pod s q id.
Proof. intros H1 H2. unfold find_pod, exists_q. rewrite H1, H2. reflexivity. Qed.

(* an action of another pod does not touch this pod's entries *)
Lemma act_frame s a id q : aid a <> id -> aok a -> find_pod (act s a) q id = find_pod s q id.
Proof.
  intros Hne Hok.
  assert (Hne' : id <> aid a) by congruence.
  destruct a as [q0 id0|q0 id0|q0 id0 b|q0 id0 o n|q0 id0 o n]; cbn [act aid] in *.
  - apply find_pod_by_p; [apply sh_cache_add|]. unfold cache_add.
    destruct (exists_q s q0 && negb (has_pod (st_p s q0) id0)); [|reflexivity]. cbn [st_p set_P]. unfold fupd.
    destruct (q =? q0) eqn:E; [apply Z.eqb_eq in E; subst q; apply find_app_other; exact Hne' | reflexivity].
  - apply find_pod_by_p; [apply sh_cache_del|]. unfold cache_del.
    destruct (exists_q s q0); [|reflexivity]. cbn [st_p set_P]. unfold fupd.
    destruct (q =? q0) eqn:E; [apply Z.eqb_eq in E; subst q; apply find_filter_other; exact Hne' | reflexivity].
  - apply find_pod_by_p; [apply sh_set_asg|]. unfold set_asg, upd_pod.
    destruct (exists_q s q0); [|reflexivity]. cbn [st_p set_P]. unfold fupd.
    destruct (q =? q0) eqn:E; [apply Z.eqb_eq in E; subst q; apply find_map_pod_other; [exact Hne' | reflexivity] | reflexivity].
  - destruct Hok as (_ & Hoid & _). apply find_pod_by_p; [apply sh_pod_req_sec|]. unfold pod_req_sec.
    destruct (exists_q s q0); [|reflexivity].
    assert (E0 : forall sx, st_p (if viszero (vsub (oreq n) (oreq o)) && viszero (vsub (onp n) (onp o)) then sx
                                  else delta_req sx q0 (vsub (oreq n) (oreq o)) (vsub (onp n) (onp o)) true) = st_p sx)
      by (intros sx; destruct (viszero (vsub (oreq n) (oreq o)) && viszero (vsub (onp n) (onp o))); reflexivity).
    rewrite E0. unfold upd_pod. cbn [st_p set_P]. unfold fupd.
    destruct (q =? q0) eqn:E; [apply Z.eqb_eq in E; subst q; rewrite Hoid; apply find_map_pod_other; [exact Hne' | reflexivity] | reflexivity].
  - destruct Hok as (_ & Hoid & _). apply find_pod_by_p; [apply sh_pod_used_sec|]. unfold pod_used_sec.
    destruct (exists_q s q0); [|reflexivity].
    destruct (negb (oasg (st_p s q0) n) && negb (oasg (st_p s q0) o)); [reflexivity|].
    assert (E0 : forall sx, st_p (if viszero (vsub (oreq n) (oreq o)) && viszero (vsub (onp n) (onp o)) then sx
                                  else delta_used sx q0 (vsub (oreq n) (oreq o)) (vsub (onp n) (onp o)) true) = st_p sx)
      by (intros sx; destruct (viszero (vsub (oreq n) (oreq o)) && viszero (vsub (onp n) (onp o))); reflexivity).
    rewrite E0. unfold upd_pod. cbn [st_p set_P]. unfold fupd.
    destruct (q =? q0) eqn:E; [apply Z.eqb_eq in E; subst q; rewrite Hoid; apply find_map_pod_other; [exact Hne' | reflexivity] | reflexivity].
Qed.

Lemma sh_act s a : st_sh (act s a) = st_sh s.
Proof. destruct a; cbn [act]; shr; reflexivity. Qed.

(* ---------- what a section requires of, and does to, its own pod's entries ---------- *)

Definition set_req (pi : pinfo) (new : option pod) : pinfo :=
  mkPI (pi_id pi) (pi_asg pi) (oreq new) (onp new) (pi_aused pi) (pi_anpused pi).
Definition set_used (pi : pinfo) (new : option pod) : pinfo :=
  mkPI (pi_id pi) (pi_asg pi) (pi_areq pi) (pi_anp pi) (oreq new) (onp new).
Definition set_flag (pi : pinfo) (b : bool) : pinfo :=
  mkPI (pi_id pi) b (pi_areq pi) (pi_anp pi) (pi_aused pi) (pi_anpused pi).

Inductive astep (ex : Z -> bool) (id : Z) : action -> (Z -> option pinfo) -> (Z -> option pinfo) -> Prop :=
| as_add q e : ex q = true -> (forall q', e q' = None) ->
    astep ex id (ACacheAdd q id) e (fupd e q (Some (e0 id)))
| as_del q e pi : ex q = true -> e q = Some pi ->
    pi_areq pi = vzero -> pi_anp pi = vzero -> pi_aused pi = vzero -> pi_anpused pi = vzero ->
    astep ex id (ACacheDel q id) e (fupd e q None)
| as_asg q b e pi : ex q = true -> e q = Some pi ->
    astep ex id (ASetAsg q id b) e (fupd e q (Some (set_flag pi b)))
| as_req q old new e pi : ex q = true -> e q = Some pi -> aok (AReq q id old new) ->
    pi_areq pi = oreq old -> pi_anp pi = onp old -> vnonneg (oreq new) -> vnonneg (onp new) ->
    astep ex id (AReq q id old new) e (fupd e q (Some (set_req pi new)))
| as_used q old new e pi : ex q = true -> e q = Some pi -> aok (AUsed q id old new) -> pi_asg pi = true ->
    pi_aused pi = oreq old -> pi_anpused pi = onp old -> vnonneg (oreq new) -> vnonneg (onp new) ->
    astep ex id (AUsed q id old new) e (fupd e q (Some (set_used pi new))).

Lemma find_some_in ps id pi : List.find (fun x => pi_id x =? id) ps = Some pi -> In pi ps /\ pi_id pi = id.
Proof. intros H. apply List.find_some in H. destruct H as [H1 H2]. apply Z.eqb_eq in H2. auto. Qed.

Lemma find_none_notin ps id : List.find (fun x => pi_id x =? id) ps = None -> ~ In id (ids ps).
Proof.
  intros H Hin. apply in_map_iff in Hin. destruct Hin as [pi [E Hpi]].
  pose proof (List.find_none _ _ H pi Hpi) as Hf. cbn in Hf. rewrite E, Z.eqb_refl in Hf. discriminate.
Qed.

Lemma ev_split s q id pi : InvQ s -> ev s id q = Some pi ->
  exists qq ps1 ps2, find (st_sh s) q = Some qq /\ split_at (st_p s q) id ps1 pi ps2.
Proof.
  intros HQ He. unfold ev, find_pod in He. destruct (exists_q s q) eqn:Ex; [|discriminate].
  apply exists_q_find in Ex. destruct Ex as [qq Hf]. exists qq.
  destruct (find_some_in _ _ _ He) as [Hin Hid].
  assert (Hnd : NoDup (ids (st_p s q))).
  { rewrite <- (find_name _ _ _ Hf). apply (all_ids_nodup_each (st_sh s)); [apply (iq_ids _ HQ) | eapply find_in; eauto]. }
  assert (Hinid : In id (ids (st_p s q))) by (rewrite <- Hid; apply in_map; exact Hin).
  destruct (has_split _ _ Hnd Hinid) as (ps1 & pi' & ps2 & Hsp).
  rewrite (find_split _ _ _ _ _ Hsp) in He. injection He as ->. eauto.
Qed.

Lemma ev_after s s' q qq id ps1 pi' ps2 :
  st_sh s' = st_sh s -> find (st_sh s) q = Some qq ->
  st_p s' q = ps1 ++ pi' :: ps2 -> pi_id pi' = id -> ~ In id (ids ps1) -> ~ In id (ids ps2) ->
  (forall m, m <> q -> st_p s' m = st_p s m) ->
  forall q', ev s' id q' = fupd (ev s id) q (Some pi') q'.
Proof.
  intros Hsh Hf HP Hid H1 H2 Hfr q'. unfold ev, fupd. destruct (q' =? q) eqn:E.
  - apply Z.eqb_eq in E. subst q'. unfold find_pod, exists_q. rewrite Hsh, Hf, HP.
    apply (find_split (ps1 ++ pi' :: ps2) ps1 ps2 pi' id). repeat split; auto.
  - apply Z.eqb_neq in E. unfold find_pod, exists_q. rewrite Hsh, (Hfr _ E). reflexivity.
Qed.

Lemma astep_sound s ex id a e' :
  InvQ s -> (forall q, ex q = exists_q s q) -> astep ex id a (ev s id) e' ->
  InvQ (act s a) /\ forall q, ev (act s a) id q = e' q.
Proof.
  intros HQ Hex Hst. inversion Hst as [q e Hq Hnone | q e pi Hq He Z1 Z2 Z3 Z4 | q b e pi Hq He
                                      | q old new e pi Hq He Hok Ha Hn Hr Hrn | q old new e pi Hq He Hok Hasg Ha Hn Hr Hrn];
    subst; cbn [act].
  - (* cache add *)
    rewrite Hex in Hq. apply exists_q_find in Hq. destruct Hq as [qq Hf].
    assert (Hfresh : ~ In id (all_pod_ids s)).
    { intros Hin. apply in_all_ids in Hin. destruct Hin as [x [Hx Hin]].
      specialize (Hnone (q_name x)). unfold ev, find_pod in Hnone.
      replace (exists_q s (q_name x)) with true in Hnone.
      - apply find_none_notin in Hnone. contradiction.
      - symmetry. apply exists_q_find. exists x. apply in_find; [apply (iq_shape _ HQ) | exact Hx]. }
    destruct (cache_add_ok s q qq id HQ Hf Hfresh) as (HQ' & Hsh & HP & Hfr & Hsp).
    split; [exact HQ'|].
    apply (ev_after s _ q qq id (st_p s q) (e0 id) [] Hsh Hf HP eq_refl); auto.
    destruct Hsp as (_ & _ & H1 & _). exact H1.
  - (* cache del *)
    destruct (ev_split s q id pi HQ He) as (qq & ps1 & ps2 & Hf & Hsp).
    destruct (cache_del_ok s q qq id ps1 pi ps2 HQ Hf Hsp Z1 Z2 Z3 Z4) as (HQ' & Hsh & HP & Hfr).
    split; [exact HQ'|]. intros q'. unfold ev, fupd. destruct (q' =? q) eqn:E.
    + apply Z.eqb_eq in E. subst q'. unfold find_pod, exists_q. rewrite Hsh, Hf, HP.
      destruct Hsp as (_ & _ & H1 & H2). rewrite (find_app_notin id ps1 ps2 H1). apply (find_notin id ps2 H2).
    + apply Z.eqb_neq in E. unfold find_pod, exists_q. rewrite Hsh, (Hfr _ E). reflexivity.
  - (* assigned flag *)
    destruct (ev_split s q id pi HQ He) as (qq & ps1 & ps2 & Hf & Hsp).
    destruct (set_asg_ok s q qq id b ps1 pi ps2 HQ Hf Hsp) as (HQ' & Hsh & HP & Hfr).
    split; [exact HQ'|]. destruct Hsp as (_ & Hid & H1 & H2).
    apply (ev_after s _ q qq id ps1 _ ps2 Hsh Hf HP Hid H1 H2 Hfr).
  - (* request *)
    destruct (ev_split s q id pi HQ He) as (qq & ps1 & ps2 & Hf & Hsp).
    destruct Hok as (_ & Hoid & _).
    assert (Hsp' : split_at (st_p s q) (oid old new) ps1 pi ps2) by (rewrite Hoid; exact Hsp).
    destruct (pod_req_sec_ok s q qq old new ps1 pi ps2 HQ Hf Hsp' Ha Hn Hr Hrn) as (HQ' & Hsh & HP & Hfr).
    split; [exact HQ'|]. destruct Hsp as (_ & Hid & H1 & H2).
    apply (ev_after s _ q qq id ps1 _ ps2 Hsh Hf HP Hid H1 H2 Hfr).
  - (* used *)
    destruct (ev_split s q id pi HQ He) as (qq & ps1 & ps2 & Hf & Hsp).
    destruct Hok as (Hne & Hoid & _).
    assert (Hsp' : split_at (st_p s q) (oid old new) ps1 pi ps2) by (rewrite Hoid; exact Hsp).
    destruct (pod_used_sec_ok s q qq old new ps1 pi ps2 HQ Hf Hsp' Hasg Hne Ha Hn Hr Hrn) as (HQ' & Hsh & HP & Hfr).
    split; [exact HQ'|]. destruct Hsp as (_ & Hid & H1 & H2).
    apply (ev_after s _ q qq id ps1 _ ps2 Hsh Hf HP Hid H1 H2 Hfr).
Qed.

(* ---------- a thread: the remaining sections of one handler, all on the same pod ---------- *)

Definition quiet_opt (o : option pinfo) : Prop :=
  match o with Some pi => pi_quiet pi = true | None => True end.

Fixpoint tok (ex : Z -> bool) (id : Z) (e : Z -> option pinfo) (t : list action) : Prop :=
  match t with
  | [] => forall q, quiet_opt (e q)
  | a :: t' => aid a = id /\ aok a /\ exists e', astep ex id a e e' /\ tok ex id e' t'
  end.

Lemma fupd_ext {A} (e1 e2 : Z -> A) q v : (forall k, e1 k = e2 k) -> forall k, fupd e1 q v k = fupd e2 q v k.
Proof. intros H k. unfold fupd. destruct (k =? q); auto. Qed.

Lemma tok_ext t : forall ex1 ex2 id e1 e2,
  (forall q, ex1 q = ex2 q) -> (forall q, e1 q = e2 q) -> tok ex1 id e1 t -> tok ex2 id e2 t.
Proof.
  induction t as [|a t IH]; intros ex1 ex2 id e1 e2 Hex He H; cbn [tok] in *.
  - intros q. rewrite <- He. apply H.
  - destruct H as (Hid & Hok & e' & Hst & Ht). refine (conj Hid (conj Hok _)). clear Hid Hok.
    inversion Hst as [q e Hq Hnone | q e pi Hq Hpi Z1 Z2 Z3 Z4 | q b e pi Hq Hpi
                      | q old new e pi Hq Hpi Hok' Ha Hn Hr Hrn | q old new e pi Hq Hpi Hok' Hasg Ha Hn Hr Hrn]; subst.
    + exists (fupd e2 q (Some (e0 id))). split.
      * constructor; [rewrite <- Hex; exact Hq | intros q'; rewrite <- He; apply Hnone].
      * eapply IH; [exact Hex | apply fupd_ext; exact He | exact Ht].
    + exists (fupd e2 q None). split.
      * apply as_del with (pi := pi); auto; [rewrite <- Hex; exact Hq | rewrite <- He; exact Hpi].
      * eapply IH; [exact Hex | apply fupd_ext; exact He | exact Ht].
    + exists (fupd e2 q (Some (set_flag pi b))). split.
      * apply as_asg; [rewrite <- Hex; exact Hq | rewrite <- He; exact Hpi].
      * eapply IH; [exact Hex | apply fupd_ext; exact He | exact Ht].
    + exists (fupd e2 q (Some (set_req pi new))). split.
      * apply as_req; auto; [rewrite <- Hex; exact Hq | rewrite <- He; exact Hpi].
      * eapply IH; [exact Hex | apply fupd_ext; exact He | exact Ht].
    + exists (fupd e2 q (Some (set_used pi new))). split.
      * apply as_used; auto; [rewrite <- Hex; exact Hq | rewrite <- He; exact Hpi].
      * eapply IH; [exact Hex | apply fupd_ext; exact He | exact Ht].
Qed.

(* the global invariant of a concurrent run: aggregates exact for what is counted so far, every
   thread can continue, pods without a thread are quiescent *)
Record G (s : state) (ts : list (list action)) (tids : list Z) : Prop := {
  g_invq : InvQ s;
  g_spec : SpecOk (st_sh s);
  g_nodup : NoDup tids;
  g_threads : Forall2 (fun t id => tok (exists_q s) id (ev s id) t) ts tids;
  g_others : forall q id pi, ev s id q = Some pi -> ~ In id tids -> pi_quiet pi = true
}.

Lemma forall2_split {A B} (R : A -> B -> Prop) pre x post l :
  Forall2 R (pre ++ x :: post) l ->
  exists lpre y lpost, l = lpre ++ y :: lpost /\ Forall2 R pre lpre /\ R x y /\ Forall2 R post lpost.
Proof.
  intros H. apply Forall2_app_inv_l in H. destruct H as (lpre & l2 & Hpre & H2 & ->).
  inversion H2 as [|? y ? lpost Hxy Hpost]; subst. exists lpre, y, lpost. auto.
Qed.

Lemma forall2_impl_in {A B} (R R' : A -> B -> Prop) l1 l2 :
  (forall a b, In a l1 -> In b l2 -> R a b -> R' a b) -> Forall2 R l1 l2 -> Forall2 R' l1 l2.
Proof.
  intros H HF. induction HF as [|a b l1 l2 Hab HF IH]; constructor.
  - apply H; [left; reflexivity | left; reflexivity | exact Hab].
  - apply IH. intros x y Hx Hy. apply H; right; assumption.
Qed.

Lemma g_step s pre a t post tids :
  G s (pre ++ (a :: t) :: post) tids -> G (act s a) (pre ++ t :: post) tids.
Proof.
  intros [HQ Hspec Hnd Hth Hoth].
  destruct (forall2_split _ _ _ _ _ Hth) as (ipre & id & ipost & -> & Hpre & Hx & Hpost).
  cbn [tok] in Hx. destruct Hx as (Hid & Hok & e' & Hst & Ht).
  destruct (astep_sound s (exists_q s) id a e' HQ (fun _ => eq_refl) Hst) as [HQ' Hev'].
  assert (Hexq : forall q, exists_q s q = exists_q (act s a) q) by (intros q; unfold exists_q; rewrite sh_act; reflexivity).
  assert (Hframe : forall id2, id2 <> id -> forall q, ev s id2 q = ev (act s a) id2 q).
  { intros id2 Hne q. unfold ev. symmetry. apply act_frame; [congruence | exact Hok]. }
  assert (Hnotin : ~ In id ipre /\ ~ In id ipost).
  { apply NoDup_remove_2 in Hnd. split; intros H; apply Hnd; apply in_or_app; auto. }
  constructor.
  - exact HQ'.
  - rewrite sh_act. exact Hspec.
  - exact Hnd.
  - apply Forall2_app; [|constructor].
    + eapply forall2_impl_in; [|exact Hpre]. intros t2 id2 _ Hin2 H.
      apply (tok_ext t2 (exists_q s) _ id2 (ev s id2) _ Hexq); [|exact H].
      apply Hframe. intros ->. apply (proj1 Hnotin). exact Hin2.
    + apply (tok_ext t (exists_q s) _ id e' _ Hexq); [|exact Ht]. intros q. symmetry. apply Hev'.
    + eapply forall2_impl_in; [|exact Hpost]. intros t2 id2 _ Hin2 H.
      apply (tok_ext t2 (exists_q s) _ id2 (ev s id2) _ Hexq); [|exact H].
      apply Hframe. intros ->. apply (proj2 Hnotin). exact Hin2.
  - intros q id3 pi He Hn3.
    assert (Hne : id3 <> id) by (intros ->; apply Hn3; apply in_or_app; right; left; reflexivity).
    rewrite <- (Hframe id3 Hne q) in He. apply (Hoth q id3 pi He Hn3).
Qed.

(* ---------- every interleaving ends in a consistent state ---------- *)

Lemma ev_of_member s q qq pi : InvQ s -> find (st_sh s) q = Some qq -> In pi (st_p s q) ->
  ev s (pi_id pi) q = Some pi.
Proof.
  intros HQ Hf Hin. unfold ev, find_pod.
  replace (exists_q s q) with true by (symmetry; apply exists_q_find; eauto).
  assert (Hnd : NoDup (ids (st_p s q))).
  { rewrite <- (find_name _ _ _ Hf). apply (all_ids_nodup_each (st_sh s)); [apply (iq_ids _ HQ) | eapply find_in; eauto]. }
  assert (Hinid : In (pi_id pi) (ids (st_p s q))) by (apply in_map; exact Hin).
  destruct (has_split _ _ Hnd Hinid) as (ps1 & pi' & ps2 & Hsp).
  rewrite (find_split _ _ _ _ _ Hsp). f_equal.
  destruct Hsp as (HP & Hid & H1 & H2). rewrite HP in Hin. apply in_app_or in Hin.
  destruct Hin as [Hin|[E|Hin]].
  - exfalso. apply H1. apply in_map. exact Hin.
  - exact E.
  - exfalso. apply H2. apply in_map. exact Hin.
Qed.

Lemma forall2_in_r {A B} (R : A -> B -> Prop) l1 l2 y : Forall2 R l1 l2 -> In y l2 -> exists x, In x l1 /\ R x y.
Proof.
  intros HF. induction HF as [|a b l1 l2 Hab HF IH]; intros Hin; [destruct Hin|].
  destruct Hin as [<-|Hin]; [exists a; split; [left; reflexivity | exact Hab]|].
  destruct (IH Hin) as [x [Hx Hr]]. exists x. split; [right; exact Hx | exact Hr].
Qed.

Lemma g_done s ts tids : Forall (fun t => t = []) ts -> G s ts tids -> Inv2 s.
Proof.
  intros Hnil [HQ Hspec Hnd Hth Hoth]. split; [|exact Hspec].
  apply invq_inv; [exact HQ|]. intros x Hx. apply forallb_forall. intros pi Hpi.
  assert (Hf : find (st_sh s) (q_name x) = Some x) by (apply in_find; [apply (iq_shape _ HQ) | exact Hx]).
  pose proof (ev_of_member s (q_name x) x pi HQ Hf Hpi) as He.
  destruct (in_dec Z.eq_dec (pi_id pi) tids) as [Hin|Hnin].
  - destruct (forall2_in_r _ _ _ _ Hth Hin) as [t [Ht Htok]].
    rewrite Forall_forall in Hnil. rewrite (Hnil t Ht) in Htok. cbn [tok] in Htok.
    specialize (Htok (q_name x)). rewrite He in Htok. exact Htok.
  - apply (Hoth _ _ _ He Hnin).
Qed.

Theorem conc_inv ts l : interleaving ts l -> forall s tids, G s ts tids -> Inv2 (exec act s l).
Proof.
  induction 1 as [ts Hnil | pre a t post l Hil IH]; intros s tids HG.
  - cbn. eapply g_done; eauto.
  - change (exec act s (a :: l)) with (exec act (act s a) l). apply (IH _ tids). apply g_step. exact HG.
Qed.

(* ---------- the sections of a well-formed handler call form a thread that can run ---------- *)

Inductive aruns (ex : Z -> bool) (id : Z) : list action -> (Z -> option pinfo) -> (Z -> option pinfo) -> Prop :=
| ar_nil e : aruns ex id [] e e
| ar_cons a t e e1 e2 : aid a = id -> aok a -> astep ex id a e e1 -> aruns ex id t e1 e2 -> aruns ex id (a :: t) e e2.

Lemma tok_app_runs ex id l1 : forall e e1 l2, aruns ex id l1 e e1 -> tok ex id e1 l2 -> tok ex id e (l1 ++ l2).
Proof.
  induction l1 as [|a t IH]; intros e e1 l2 Hr Ht; inversion Hr; subst; [exact Ht|].
  cbn [app tok]. refine (conj eq_refl (conj _ _)); [assumption|]. eexists. split; [eassumption|]. eapply IH; eassumption.
Qed.

Lemma tok_of_runs ex id l e e1 : aruns ex id l e e1 -> (forall q, quiet_opt (e1 q)) -> tok ex id e l.
Proof. intros Hr Hq. rewrite <- (app_nil_r l). eapply tok_app_runs; [exact Hr | exact Hq]. Qed.

Lemma aok_req q p o n : (o = Some p \/ o = None) -> (n = Some p \/ n = None) -> (o <> None \/ n <> None) ->
  aok (AReq q (p_id p) o n) /\ aok (AUsed q (p_id p) o n).
Proof.
  intros Ho Hn Hne. assert (H : (o <> None \/ n <> None) /\ oid o n = p_id p /\
    (forall p0, o = Some p0 -> p_id p0 = p_id p) /\ (forall p0, n = Some p0 -> p_id p0 = p_id p)).
  { destruct Ho as [->| ->], Hn as [->| ->]; cbn [oid]; repeat split; auto;
      try (intros p0 E; injection E as <-; reflexivity); try discriminate.
    destruct Hne; congruence. }
  split; exact H.
Qed.

(* adding a pod that is cached nowhere *)
Lemma runs_add ex q p e : ex q = true -> (forall q', e q' = None) -> vnonneg (p_req p) ->
  exists e1, aruns ex (p_id p) (add_secs q p) e e1 /\ (forall q', q' <> q -> e1 q' = None) /\ quiet_opt (e1 q).
Proof.
  intros Hq Hnone Hreq. set (id := p_id p). pose proof (npreq_nonneg p Hreq) as Hnp.
  assert (Hne0 : (@None pod) <> None \/ Some p <> None) by (right; discriminate).
  destruct (aok_req q p None (Some p) (or_intror eq_refl) (or_introl eq_refl) Hne0) as [Hok1 Hok2].
  fold id in Hok1, Hok2.
  set (e1 := fupd e q (Some (e0 id))).
  set (pi2 := set_req (e0 id) (Some p)). set (e2 := fupd e1 q (Some pi2)).
  assert (S1 : astep ex id (ACacheAdd q id) e e1) by (apply as_add; assumption).
  assert (S2 : astep ex id (AReq q id None (Some p)) e1 e2).
  { apply as_req; auto. unfold e1. apply fupd_same. }
  unfold add_secs. fold id. destruct (p_bound p).
  - set (pi3 := set_flag pi2 true). set (e3 := fupd e2 q (Some pi3)).
    set (pi4 := set_used pi3 (Some p)). set (e4 := fupd e3 q (Some pi4)).
    exists e4. refine (conj _ (conj _ _)).
    + cbn [app]. apply ar_cons with (e1 := e1); [reflexivity | exact I | exact S1|].
      apply ar_cons with (e1 := e2); [reflexivity | exact Hok1 | exact S2|].
      apply ar_cons with (e1 := e3); [reflexivity | exact I | apply as_asg; [exact Hq | unfold e2; apply fupd_same]|].
      apply ar_cons with (e1 := e4); [reflexivity | exact Hok2 | | constructor].
      apply as_used; auto. unfold e3. apply fupd_same.
    + intros q' Hne. unfold e4, e3, e2, e1. rewrite !fupd_other by exact Hne. apply Hnone.
    + unfold e4. rewrite fupd_same. cbn. unfold pi_quiet. cbn. rewrite !veqb_refl. reflexivity.
  - exists e2. refine (conj _ (conj _ _)).
    + cbn [app]. apply ar_cons with (e1 := e1); [reflexivity | exact I | exact S1|].
      apply ar_cons with (e1 := e2); [reflexivity | exact Hok1 | exact S2 | constructor].
    + intros q' Hne. unfold e2, e1. rewrite !fupd_other by exact Hne. apply Hnone.
    + unfold e2. rewrite fupd_same. cbn. unfold pi_quiet. cbn. rewrite ?viszero_zero. reflexivity.
Qed.

(* removing a cached pod (request first) *)
Lemma runs_remove ex q p e pi : ex q = true -> e q = Some pi ->
  pi_areq pi = p_req p -> pi_anp pi = p_npreq p -> pi_quiet pi = true ->
  exists e1, aruns ex (p_id p) (remove_secs q p (pi_asg pi)) e e1 /\
             (forall q', q' <> q -> e1 q' = e q') /\ e1 q = None.
Proof.
  intros Hq He Ha Hn Hqu. set (id := p_id p).
  assert (Hne0 : Some p <> None \/ (@None pod) <> None) by (left; discriminate).
  destruct (aok_req q p (Some p) None (or_introl eq_refl) (or_intror eq_refl) Hne0) as [Hok1 Hok2].
  fold id in Hok1, Hok2.
  set (pi1 := set_req pi None). set (e1 := fupd e q (Some pi1)).
  assert (S1 : astep ex id (AReq q id (Some p) None) e e1) by (apply as_req; auto; apply vnonneg_zero).
  unfold remove_secs. fold id. destruct (pi_asg pi) eqn:Easg.
  - destruct (quiet_asg _ Hqu Easg) as [Hu Hun].
    set (pi2 := set_used pi1 None). set (e2 := fupd e1 q (Some pi2)).
    exists (fupd e2 q None). refine (conj _ (conj _ _)).
    + cbn [app]. apply ar_cons with (e1 := e1); [reflexivity | exact Hok1 | exact S1|].
      apply ar_cons with (e1 := e2); [reflexivity | exact Hok2 | |].
      * apply as_used; auto; try apply vnonneg_zero; [unfold e1; apply fupd_same | cbn; congruence | cbn; congruence].
      * apply ar_cons with (e1 := fupd e2 q None); [reflexivity | exact I | | constructor].
        apply as_del with (pi := pi2); auto. unfold e2. apply fupd_same.
    + intros q' Hne. unfold e2, e1. rewrite !fupd_other by exact Hne. reflexivity.
    + apply fupd_same.
  - destruct (quiet_nasg _ Hqu Easg) as [Hu Hun].
    exists (fupd e1 q None). refine (conj _ (conj _ _)).
    + cbn [app]. apply ar_cons with (e1 := e1); [reflexivity | exact Hok1 | exact S1|].
      apply ar_cons with (e1 := fupd e1 q None); [reflexivity | exact I | | constructor].
      apply as_del with (pi := pi1); auto. unfold e1. apply fupd_same.
    + intros q' Hne. unfold e1. rewrite !fupd_other by exact Hne. reflexivity.
    + apply fupd_same.
Qed.

(* removing a cached pod, used first (the order of a quota change) *)
Lemma runs_remove_used_first ex q p e pi : ex q = true -> e q = Some pi ->
  pi_areq pi = p_req p -> pi_anp pi = p_npreq p -> pi_quiet pi = true ->
  exists e1, aruns ex (p_id p)
               ((if pi_asg pi then [AUsed q (p_id p) (Some p) None] else [])
                ++ [AReq q (p_id p) (Some p) None; ACacheDel q (p_id p)]) e e1 /\
             (forall q', q' <> q -> e1 q' = e q') /\ e1 q = None.
Proof.
  intros Hq He Ha Hn Hqu. set (id := p_id p).
  assert (Hne0 : Some p <> None \/ (@None pod) <> None) by (left; discriminate).
  destruct (aok_req q p (Some p) None (or_introl eq_refl) (or_intror eq_refl) Hne0) as [Hok1 Hok2].
  fold id in Hok1, Hok2.
  destruct (pi_asg pi) eqn:Easg.
  - destruct (quiet_asg _ Hqu Easg) as [Hu Hun].
    set (pi1 := set_used pi None). set (e1 := fupd e q (Some pi1)).
    set (pi2 := set_req pi1 None). set (e2 := fupd e1 q (Some pi2)).
    exists (fupd e2 q None). refine (conj _ (conj _ _)).
    + cbn [app]. apply ar_cons with (e1 := e1); [reflexivity | exact Hok2 | |].
      * apply as_used; auto; try apply vnonneg_zero; cbn [oreq onp]; congruence.
      * apply ar_cons with (e1 := e2); [reflexivity | exact Hok1 | |].
        -- apply as_req; auto; try apply vnonneg_zero. unfold e1. apply fupd_same.
        -- apply ar_cons with (e1 := fupd e2 q None); [reflexivity | exact I | | constructor].
           apply as_del with (pi := pi2); auto. unfold e2. apply fupd_same.
    + intros q' Hne. unfold e2, e1. rewrite !fupd_other by exact Hne. reflexivity.
    + apply fupd_same.
  - destruct (quiet_nasg _ Hqu Easg) as [Hu Hun].
    set (pi1 := set_req pi None). set (e1 := fupd e q (Some pi1)).
    exists (fupd e1 q None). refine (conj _ (conj _ _)).
    + cbn [app]. apply ar_cons with (e1 := e1); [reflexivity | exact Hok1 | |].
      * apply as_req; auto; apply vnonneg_zero.
      * apply ar_cons with (e1 := fupd e1 q None); [reflexivity | exact I | | constructor].
        apply as_del with (pi := pi1); auto. unfold e1. apply fupd_same.
    + intros q' Hne. unfold e1. rewrite !fupd_other by exact Hne. reflexivity.
    + apply fupd_same.
Qed.

(* a pod is updated in place *)
Lemma runs_update ex q pn po e pi : ex q = true -> e q = Some pi -> p_id po = p_id pn ->
  pi_areq pi = p_req po -> pi_anp pi = p_npreq po -> pi_quiet pi = true -> vnonneg (p_req pn) ->
  exists e1, aruns ex (p_id pn)
               (AReq q (p_id pn) (Some po) (Some pn)
                :: (if pi_asg pi then [AUsed q (p_id pn) (Some po) (Some pn)]
                    else if p_bound pn then [ASetAsg q (p_id pn) true; AUsed q (p_id pn) None (Some pn)] else [])) e e1 /\
             (forall q', q' <> q -> e1 q' = e q') /\ quiet_opt (e1 q).
Proof.
  intros Hq He Hid Ha Hn Hqu Hreq. set (id := p_id pn). pose proof (npreq_nonneg pn Hreq) as Hnp.
  assert (Hok : forall (o : option pod), (o = Some po \/ o = None) ->
            aok (AReq q id o (Some pn)) /\ aok (AUsed q id o (Some pn))).
  { intros o Ho. assert (H : (o <> None \/ Some pn <> None) /\ oid o (Some pn) = id /\
      (forall p0, o = Some p0 -> p_id p0 = id) /\ (forall p0, Some pn = Some p0 -> p_id p0 = id)).
    { destruct Ho as [->| ->]; cbn [oid]; repeat split; auto; try (right; discriminate);
        try (intros p0 E; injection E as <-; auto); try discriminate. }
    split; exact H. }
  destruct (Hok (Some po) (or_introl eq_refl)) as [Hok1 Hok2].
  destruct (Hok None (or_intror eq_refl)) as [_ Hok3].
  set (pi1 := set_req pi (Some pn)). set (e1 := fupd e q (Some pi1)).
  assert (S1 : astep ex id (AReq q id (Some po) (Some pn)) e e1) by (apply as_req; auto).
  destruct (pi_asg pi) eqn:Easg.
  - destruct (quiet_asg _ Hqu Easg) as [Hu Hun].
    set (pi2 := set_used pi1 (Some pn)). set (e2 := fupd e1 q (Some pi2)).
    exists e2. refine (conj _ (conj _ _)).
    + apply ar_cons with (e1 := e1); [reflexivity | exact Hok1 | exact S1|].
      apply ar_cons with (e1 := e2); [reflexivity | exact Hok2 | | constructor].
      apply as_used; auto; [unfold e1; apply fupd_same | cbn; congruence | cbn; congruence].
    + intros q' Hne. unfold e2, e1. rewrite !fupd_other by exact Hne. reflexivity.
    + unfold e2. rewrite fupd_same. cbn. unfold pi_quiet. cbn. rewrite Easg, !veqb_refl. reflexivity.
  - destruct (quiet_nasg _ Hqu Easg) as [Hu Hun]. destruct (p_bound pn).
    + set (pi2 := set_flag pi1 true). set (e2 := fupd e1 q (Some pi2)).
      set (pi3 := set_used pi2 (Some pn)). set (e3 := fupd e2 q (Some pi3)).
      exists e3. refine (conj _ (conj _ _)).
      * apply ar_cons with (e1 := e1); [reflexivity | exact Hok1 | exact S1|].
        apply ar_cons with (e1 := e2); [reflexivity | exact I | apply as_asg; [exact Hq | unfold e1; apply fupd_same]|].
        apply ar_cons with (e1 := e3); [reflexivity | exact Hok3 | | constructor].
        apply as_used; auto; try (unfold e2; apply fupd_same); try (cbn; assumption).
      * intros q' Hne. unfold e3, e2, e1. rewrite !fupd_other by exact Hne. reflexivity.
      * unfold e3. rewrite fupd_same. cbn. unfold pi_quiet. cbn. rewrite !veqb_refl. reflexivity.
    + exists e1. refine (conj _ (conj _ _)).
      * apply ar_cons with (e1 := e1); [reflexivity | exact Hok1 | exact S1 | constructor].
      * intros q' Hne. unfold e1. rewrite !fupd_other by exact Hne. reflexivity.
      * unfold e1. rewrite fupd_same. cbn. unfold pi_quiet. cbn. rewrite Easg, Hu, Hun, ?viszero_zero. reflexivity.
Qed.

(* ---------- facts about a pod's entries in a consistent state ---------- *)

Lemma ev_in s q id pi : ev s id q = Some pi ->
  exists_q s q = true /\ In pi (st_p s q) /\ pi_id pi = id.
Proof.
  unfold ev, find_pod. destruct (exists_q s q); [|discriminate]. intros H.
  destruct (find_some_in _ _ _ H). auto.
Qed.

Lemma ev_quiet s id q : Inv s -> quiet_opt (ev s id q).
Proof.
  intros HI. destruct (ev s id q) as [pi|] eqn:E; [|exact I]. cbn.
  destruct (ev_in _ _ _ _ E) as (Hex & Hin & _). apply exists_q_find in Hex. destruct Hex as [qq Hf].
  pose proof (inv_quiet_at _ _ _ HI Hf) as Hq. rewrite forallb_forall in Hq. apply Hq. exact Hin.
Qed.

Lemma ev_none_other s q id q' : nowhere_else s q id = true -> q' <> q -> ev s id q' = None.
Proof.
  intros Hnw Hne. unfold ev, find_pod. destruct (exists_q s q') eqn:Ex; [|reflexivity].
  apply exists_q_find in Ex. destruct Ex as [qq Hf].
  unfold nowhere_else in Hnw. rewrite forallb_forall in Hnw.
  specialize (Hnw qq (find_in _ _ _ Hf)). rewrite (find_name _ _ _ Hf) in Hnw.
  apply orb_prop in Hnw. destruct Hnw as [E|E]; [apply Z.eqb_eq in E; contradiction|].
  apply negb_true_iff, has_pod_false in E. apply (find_notin id _ E).
Qed.

Lemma ev_none_here s q id : exists_q s q = false \/ has_pod (st_p s q) id = false -> ev s id q = None.
Proof.
  intros [H|H]; unfold ev, find_pod; [rewrite H; reflexivity|].
  destruct (exists_q s q); [|reflexivity]. apply has_pod_false in H. apply (find_notin id _ H).
Qed.

Lemma ev_some_here s q id : exists_q s q = true -> has_pod (st_p s q) id = true -> exists pi, ev s id q = Some pi.
Proof.
  intros Hex Hh. unfold ev, find_pod. rewrite Hex.
  destruct (List.find (fun pi => pi_id pi =? id) (st_p s q)) as [pi|] eqn:E; [eauto|].
  apply find_none_notin in E. apply has_pod_in in Hh. contradiction.
Qed.

Lemma ev_matches s q p pi : matches s q p = true -> ev s (p_id p) q = Some pi ->
  pi_areq pi = p_req p /\ pi_anp pi = p_npreq p.
Proof.
  unfold matches, ev. intros Hm He. rewrite He in Hm. apply andb_prop in Hm. destruct Hm as [H1 H2].
  apply veqb_eq in H1. apply veqb_eq in H2. auto.
Qed.

Lemma ev_is_asg s q id pi : Inv s -> ev s id q = Some pi -> is_asg s q id = pi_asg pi.
Proof.
  intros HI He. destruct (ev_split s q id pi (inv_invq _ HI) He) as (qq & ps1 & ps2 & Hf & Hsp).
  apply (is_asg_split s q qq id ps1 pi ps2 Hf Hsp).
Qed.

Definition op_pod (o : op) : Z :=
  match o with
  | OpPodAdd _ p | OpPodDelete _ p => p_id p
  | OpPodUpdate _ _ pn _ => p_id pn
  | _ => 0
  end.
Definition rl_op (o : op) : Prop :=
  match o with OpPodAdd _ _ | OpPodUpdate _ _ _ _ | OpPodDelete _ _ => True | _ => False end.

Lemma quiet_from_parts (e e1 : Z -> option pinfo) q :
  (forall q', q' <> q -> e1 q' = e q') -> quiet_opt (e1 q) -> (forall q', quiet_opt (e q')) ->
  forall q', quiet_opt (e1 q').
Proof.
  intros H1 H2 H3 q'. destruct (Z.eq_dec q' q) as [->|E]; [exact H2 | rewrite (H1 _ E); apply H3].
Qed.

Theorem sections_tok s o : Inv s -> rl_op o -> wf_op s o = true ->
  tok (exists_q s) (op_pod o) (ev s (op_pod o)) (sections s o).
Proof.
  intros HI Hrl Hwf. pose proof (fun q' => ev_quiet s (op_pod o) q' HI) as Hquiet.
  destruct o; try contradiction; cbn [op_pod sections wf_op] in *.
  - (* OnPodAdd *)
    apply andb_prop in Hwf. destruct Hwf as [Hwf Hnw]. apply andb_prop in Hwf. destruct Hwf as [Hreq Hm].
    apply vnonnegb_iff in Hreq.
    destruct (p_ign p); [exact Hquiet|].
    destruct (exists_q s q && negb (has_pod (st_p s q) (p_id p))) eqn:E; [|exact Hquiet].
    apply andb_prop in E. destruct E as [Hex Hh]. apply negb_true_iff in Hh.
    assert (Hnone : forall q', ev s (p_id p) q' = None).
    { intros q'. destruct (Z.eq_dec q' q) as [->|Hne]; [apply ev_none_here; auto | eapply ev_none_other; eauto]. }
    destruct (runs_add (exists_q s) q p _ Hex Hnone Hreq) as (e1 & Hr & Ho & Hq).
    apply (tok_of_runs _ _ _ _ _ Hr). intros q'. destruct (Z.eq_dec q' q) as [->|Hne]; [exact Hq | rewrite (Ho _ Hne); exact I].
  - (* OnPodUpdate *)
    apply andb_prop in Hwf. destruct Hwf as [Hwf Hnw]. apply andb_prop in Hwf. destruct Hwf as [Hwf Hm].
    apply andb_prop in Hwf. destruct Hwf as [Hid Hreq]. apply Z.eqb_eq in Hid. apply vnonnegb_iff in Hreq.
    rewrite <- Hid in Hnw |- *.
    destruct (qo =? qn) eqn:Eq.
    + apply Z.eqb_eq in Eq. subst qo.
      destruct (exists_q s qn) eqn:Hex; [|exact Hquiet].
      destruct (p_ign pn); cbn [negb].
      * destruct (has_pod (st_p s qn) (p_id pn)) eqn:Hh; [|exact Hquiet].
        destruct (ev_some_here s qn _ Hex Hh) as [pi He].
        assert (He' : ev s (p_id po) qn = Some pi) by (rewrite <- Hid; exact He).
        destruct (ev_matches s qn po pi Hm He') as [Ha Hn].
        pose proof (Hquiet qn) as Hqpi. rewrite He in Hqpi. cbn in Hqpi.
        rewrite (ev_is_asg s qn _ pi HI He).
        destruct (runs_remove (exists_q s) qn po _ pi Hex He' Ha Hn Hqpi) as (e1 & Hr & Ho & Hq).
        rewrite <- Hid in Hr, Ho.
        apply (tok_of_runs _ _ _ _ _ Hr).
        apply (quiet_from_parts _ e1 qn Ho); [rewrite Hq; exact I | exact Hquiet].
      * destruct (has_pod (st_p s qn) (p_id pn)) eqn:Hh.
        -- destruct (ev_some_here s qn _ Hex Hh) as [pi He].
           assert (He' : ev s (p_id po) qn = Some pi) by (rewrite <- Hid; exact He).
           destruct (ev_matches s qn po pi Hm He') as [Ha Hn].
           pose proof (Hquiet qn) as Hqpi. rewrite He in Hqpi. cbn in Hqpi.
           rewrite (ev_is_asg s qn _ pi HI He).
           destruct (runs_update (exists_q s) qn pn po _ pi Hex He (eq_sym Hid) Ha Hn Hqpi Hreq) as (e1 & Hr & Ho & Hq).
           apply (tok_of_runs _ _ _ _ _ Hr). apply (quiet_from_parts _ e1 qn Ho Hq Hquiet).
        -- assert (Hnone : forall q', ev s (p_id pn) q' = None).
           { intros q'. destruct (Z.eq_dec q' qn) as [->|Hne]; [apply ev_none_here; auto | eapply ev_none_other; eauto]. }
           destruct (runs_add (exists_q s) qn pn _ Hex Hnone Hreq) as (e1 & Hr & Ho & Hq).
           apply (tok_of_runs _ _ _ _ _ Hr). intros q'. destruct (Z.eq_dec q' qn) as [->|Hne]; [exact Hq | rewrite (Ho _ Hne); exact I].
    + apply Z.eqb_neq in Eq.
      (* the removal half leaves the pod cached nowhere *)
      assert (Hpart1 : exists e1, aruns (exists_q s) (p_id pn)
                (if exists_in s qo (p_id pn)
                 then (if is_asg s qo (p_id pn) then [AUsed qo (p_id pn) (Some po) None] else [])
                      ++ [AReq qo (p_id pn) (Some po) None; ACacheDel qo (p_id pn)] else []) (ev s (p_id pn)) e1 /\
                forall q', e1 q' = None).
      { destruct (exists_in s qo (p_id pn)) eqn:Ein.
        - apply exists_in_iff in Ein. destruct Ein as [[qq Hf] Hin].
          assert (Hex : exists_q s qo = true) by (apply exists_q_find; eauto).
          assert (Hh : has_pod (st_p s qo) (p_id pn) = true) by (apply has_pod_in; exact Hin).
          destruct (ev_some_here s qo _ Hex Hh) as [pi He].
          assert (He' : ev s (p_id po) qo = Some pi) by (rewrite <- Hid; exact He).
          destruct (ev_matches s qo po pi Hm He') as [Ha Hn].
          pose proof (Hquiet qo) as Hqpi. rewrite He in Hqpi. cbn in Hqpi.
          rewrite (ev_is_asg s qo _ pi HI He).
          destruct (runs_remove_used_first (exists_q s) qo po _ pi Hex He' Ha Hn Hqpi) as (e1 & Hr & Ho & Hq).
          rewrite <- Hid in Hr, Ho.
          exists e1. split; [exact Hr|].
          intros q'. destruct (Z.eq_dec q' qo) as [->|Hne]; [exact Hq|].
          rewrite (Ho _ Hne). eapply ev_none_other; eauto.
        - exists (ev s (p_id pn)). split; [constructor|]. intros q'.
          destruct (Z.eq_dec q' qo) as [->|Hne]; [|eapply ev_none_other; eauto].
          apply ev_none_here. unfold exists_in in Ein. apply andb_false_iff in Ein. exact Ein. }
      destruct Hpart1 as (e1 & Hr1 & Hnone1).
      eapply tok_app_runs; [exact Hr1|].
      destruct (exists_q s qn && negb (has_pod (st_p s qn) (p_id pn)) && negb (p_ign pn)) eqn:E.
      * apply andb_prop in E. destruct E as [E _]. apply andb_prop in E. destruct E as [Hex _].
        destruct (runs_add (exists_q s) qn pn e1 Hex Hnone1 Hreq) as (e2 & Hr & Ho & Hq).
        apply (tok_of_runs _ _ _ _ _ Hr). intros q'. destruct (Z.eq_dec q' qn) as [->|Hne]; [exact Hq | rewrite (Ho _ Hne); exact I].
      * intros q'. rewrite Hnone1. exact I.
  - (* OnPodDelete *)
    destruct (exists_in s q (p_id p)) eqn:Ein; [|exact Hquiet].
    apply exists_in_iff in Ein. destruct Ein as [[qq Hf] Hin].
    assert (Hex : exists_q s q = true) by (apply exists_q_find; eauto).
    assert (Hh : has_pod (st_p s q) (p_id p) = true) by (apply has_pod_in; exact Hin).
    destruct (ev_some_here s q _ Hex Hh) as [pi He].
    destruct (ev_matches s q p pi Hwf He) as [Ha Hn].
    pose proof (Hquiet q) as Hqpi. rewrite He in Hqpi. cbn in Hqpi.
    rewrite (ev_is_asg s q _ pi HI He).
    destruct (runs_remove (exists_q s) q p _ pi Hex He Ha Hn Hqpi) as (e1 & Hr & Ho & Hq).
    apply (tok_of_runs _ _ _ _ _ Hr). apply (quiet_from_parts _ e1 q Ho); [rewrite Hq; exact I | exact Hquiet].
Qed.

(* ---------- the theorem ---------- *)

Lemma forall2_map {A B C} (R : B -> C -> Prop) (f : A -> B) (g : A -> C) l :
  (forall x, In x l -> R (f x) (g x)) -> Forall2 R (map f l) (map g l).
Proof.
  induction l as [|a t IH]; intros H; cbn [map]; constructor.
  - apply H. left. reflexivity.
  - apply IH. intros x Hx. apply H. right. exact Hx.
Qed.

Theorem any_interleaving s0 ops l :
  Inv2 s0 ->
  (forall o, In o ops -> rl_op o /\ wf_op s0 o = true) ->
  NoDup (map op_pod ops) ->
  interleaving (map (sections s0) ops) l ->
  Inv2 (exec act s0 l) /\ state_code (exec act s0 l) = 0.
Proof.
  intros [HI Hspec] Hops Hnd Hil.
  assert (HG : G s0 (map (sections s0) ops) (map op_pod ops)).
  { constructor.
    - apply inv_invq. exact HI.
    - exact Hspec.
    - exact Hnd.
    - apply forall2_map. intros o Ho. destruct (Hops o Ho) as [Hrl Hwf]. apply sections_tok; assumption.
    - intros q id pi He _. pose proof (ev_quiet s0 id q HI) as H. rewrite He in H. exact H. }
  pose proof (conc_inv _ _ Hil s0 _ HG) as H. split; [exact H|].
  apply state_code_ok, inv_state_ok. apply H.
Qed.


End WithDim.
