(* C01 — the root entry: its four figures equal the from-scratch sums over the quotas directly
   under it after every operation of a well-formed history, provided no tree rebuild happens
   while system/default are max-limited (Root.benign); one such rebuild leaves a permanent
   phantom request (refuted witness below). *)
From Coq Require Import List ZArith Bool Lia.
From Verif Require Import Lib.VecN C01.Dim2 C01.Model C01.Spec C01.Root C01.Proofs_Base C01.Proofs_Walk
  C01.Proofs_Unique C01.Proofs_Reset C01.Proofs_Main.
Import ListNotations.
Open Scope Z_scope.

Section WithDim.
Context {D : Dim}.

(* ---------- sums ---------- *)

Lemma vsum_filter_split {A} (g : A -> vec) (f : A -> bool) l :
  vsum (map g l) = vadd (vsum (map g (filter f l))) (vsum (map g (filter (fun x => negb (f x)) l))).
Proof.
  induction l as [|a l IH]; [cbn; symmetry; apply vadd_0_l|].
  cbn [map filter]. rewrite vsum_cons, IH. destruct (f a); cbn [negb map]; rewrite ?vsum_cons.
  - generalize (g a) (vsum (map g (filter f l))) (vsum (map g (filter (fun x => negb (f x)) l))). intros. vlia.
  - generalize (g a) (vsum (map g (filter f l))) (vsum (map g (filter (fun x => negb (f x)) l))). intros. vlia.
Qed.

Lemma filter_filter_imp {A} (f g : A -> bool) l :
  (forall x, In x l -> f x = true -> g x = true) -> filter f (filter g l) = filter f l.
Proof.
  induction l as [|a l IH]; intros H; [reflexivity|]. cbn [filter].
  assert (IH' : filter f (filter g l) = filter f l) by (apply IH; intros x Hx; apply H; right; exact Hx).
  destruct (g a) eqn:Eg; cbn [filter].
  - rewrite IH'. reflexivity.
  - destruct (f a) eqn:Ef; [|exact IH']. rewrite (H a (or_introl eq_refl) Ef) in Eg. discriminate.
Qed.

Lemma special_children sh : SpecOk sh -> filter is_special (children sh 0) = filter is_special sh.
Proof.
  intros Hs. unfold children. apply filter_filter_imp. intros x Hx E. apply Z.eqb_eq. apply Hs; assumption.
Qed.

Lemma sum_over_split s lr (f : qshape -> bool) l :
  sum_over s lr l = radd (sum_over s lr (filter f l)) (sum_over s lr (filter (fun x => negb (f x)) l)).
Proof.
  unfold sum_over, radd. cbn [ro_req ro_np ro_used ro_npu].
  f_equal; apply vsum_filter_split.
Qed.

(* ---------- the figures under the root, from the invariant ---------- *)

Lemma phi_rc_root s : Inv s -> phi s = rc_root s.
Proof.
  intros HI. destruct (inv_state_ok s HI) as [_ Hq].
  unfold phi, rc_root, sum_over. cbn zeta.
  assert (Hin : forall c, In c (children (st_sh s) 0) -> In c (st_sh s)) by (intros c Hc; apply in_children in Hc; tauto).
  f_equal; apply vsum_map_ext; intros c Hc; specialize (Hq c (Hin c Hc)); unfold quota_ok in Hq; cbn zeta in Hq;
    destruct Hq as (_ & _ & _ & _ & _ & Q6 & Q7 & Q8 & Q9 & _).
  - unfold lim. rewrite Q6. reflexivity.
  - exact Q7.
  - exact Q8.
  - exact Q9.
Qed.

Definition rnonneg (a : rootacc) : Prop :=
  vnonneg (ro_req a) /\ vnonneg (ro_np a) /\ vnonneg (ro_used a) /\ vnonneg (ro_npu a).

Lemma phi_nonneg s : Inv s -> rnonneg (phi s).
Proof.
  intros HI. pose proof (inv_shape _ HI) as Hshape.
  assert (HposR : PosR (st_sh s) (st_r s)) by (intros q Hq; apply (inv_q _ HI q Hq)).
  assert (HposU : PosU (st_sh s) (st_u s)) by (intros q Hq; apply (inv_q _ HI q Hq)).
  assert (Hvals : ValsOk (st_sh s)) by (intros q Hq; apply (so_vals _ Hshape q Hq)).
  unfold phi, sum_over, rnonneg. cbn [ro_req ro_np ro_used ro_npu].
  refine (conj _ (conj _ (conj _ _))).
  - apply (sumc_nonneg (st_sh s) (limR (st_r s)) 0). apply limR_nonneg; assumption.
  - apply (sumc_nonneg (st_sh s) (npR (st_r s)) 0). apply npR_nonneg; assumption.
  - apply (sumc_nonneg (st_sh s) (usedU (st_u s)) 0). apply usedU_nonneg; assumption.
  - apply (sumc_nonneg (st_sh s) (unpU (st_u s)) 0). apply unpU_nonneg; assumption.
Qed.

Lemma rclamp_move a b : rnonneg b -> rclamp (radd a (rsub b a)) = b.
Proof.
  intros (H1 & H2 & H3 & H4). destruct a as [a1 a2 a3 a4], b as [b1 b2 b3 b4]. unfold rnonneg in *. unfold rclamp, radd, rsub. cbn [ro_req ro_np ro_used ro_npu] in *.
  rewrite !vadd_sub, !vclamp_nonneg by assumption. reflexivity.
Qed.

(* the rebuild: what the root holds afterwards against what it should hold *)
Lemma reset_root_benign s : SpecOk (st_sh s) -> benign s = true -> radd (special_sum s) (topo_phi s) = phi s.
Proof.
  intros Hspec Hb. unfold phi. rewrite (sum_over_split s lim is_special (children (st_sh s) 0)).
  unfold topo_phi. f_equal. rewrite (special_children _ Hspec). unfold special_sum, sum_over. f_equal.
  apply vsum_map_ext. intros c Hc. unfold benign in Hb. rewrite forallb_forall in Hb.
  specialize (Hb c Hc). apply veqb_eq in Hb. unfold plain. symmetry. exact Hb.
Qed.

(* ---------- one step, histories ---------- *)

Definition RootInv (x : xstate) : Prop := Inv2 (x_s x) /\ x_root x = phi (x_s x).

Lemma xstep_inv x o :
  RootInv x -> wf_op (x_s x) o = true -> (resets (x_s x) o = true -> benign (step (x_s x) o) = true) ->
  RootInv (xstep x o).
Proof.
  intros [HI Hro] Hwf Hb. pose proof (step_inv _ _ HI Hwf) as HI'. destruct HI' as [HI' Hspec'].
  split; [split; assumption|]. unfold xstep. cbn [x_s x_root]. unfold root_step. cbn zeta.
  destruct (resets (x_s x) o) eqn:E.
  - apply reset_root_benign; [exact Hspec' | apply Hb; reflexivity].
  - rewrite Hro. apply rclamp_move. apply phi_nonneg. exact HI'.
Qed.

Lemma xinit_inv sm dm : wf_init sm dm = true -> RootInv (xinit sm dm).
Proof.
  intros H. split; [apply init_inv; exact H|].
  unfold wf_init in H. apply andb_prop in H. destruct H as [Hs Hd].
  apply vnonnegb_iff in Hs. apply vnonnegb_iff in Hd.
  assert (Hz : forall m, vnonneg m -> vmin vzero m = vzero) by (intros m Hm; vlia).
  unfold xinit, phi, sum_over, root0. cbn [x_s x_root init st_sh st_r st_u children filter q_parent q_name Z.eqb map r0 u0 lim r_req r_np u_used u_np q_max].
  rewrite !vsum_cons. cbn [vsum fold_right]. unfold lim. cbn [r_req r0 q_max]. rewrite (Hz _ Hs), (Hz _ Hd), !vadd_0_l. reflexivity.
Qed.

Lemma xs_xrun h : forall x, x_s (xrun x h) = run (x_s x) h.
Proof. induction h as [|o t IH]; intros x; [reflexivity|]. cbn [xrun run fold_left]. apply (IH (xstep x o)). Qed.

Lemma xrun_inv h : forall x, RootInv x -> wf_history (x_s x) h = true -> benign_history (x_s x) h = true ->
  RootInv (xrun x h).
Proof.
  induction h as [|o t IH]; intros x HI Hwf Hb; [exact HI|].
  cbn [wf_history] in Hwf. apply andb_prop in Hwf. destruct Hwf as [Ho Ht].
  cbn [benign_history] in Hb. apply andb_prop in Hb. destruct Hb as [Hbo Hbt].
  cbn [xrun fold_left]. apply (IH (xstep x o)); [|exact Ht | exact Hbt].
  apply xstep_inv; [exact HI | exact Ho|]. intros E. rewrite E in Hbo. exact Hbo.
Qed.

Lemma xtrace_inv h : forall x, RootInv x -> wf_history (x_s x) h = true -> benign_history (x_s x) h = true ->
  forall x', In x' (xtrace x h) -> RootInv x'.
Proof.
  induction h as [|o t IH]; intros x HI Hwf Hb x' Hin; [destruct Hin|].
  cbn [wf_history] in Hwf. apply andb_prop in Hwf. destruct Hwf as [Ho Ht].
  cbn [benign_history] in Hb. apply andb_prop in Hb. destruct Hb as [Hbo Hbt].
  assert (HI' : RootInv (xstep x o)).
  { apply xstep_inv; [exact HI | exact Ho|]. intros E. rewrite E in Hbo. exact Hbo. }
  cbn [xtrace] in Hin. destruct Hin as [<-|Hin]; [exact HI'|].
  apply (IH (xstep x o)); assumption.
Qed.

Lemma root_code_ok s ro : root_code s ro = 0 <-> root_ok s ro.
Proof.
  unfold root_code, root_ok. cbn zeta.
  repeat match goal with
         | |- context [negb (veqb ?a ?b)] =>
             let E := fresh "E" in destruct (veqb a b) eqn:E; cbn [negb];
             [apply veqb_eq in E |
              split; [discriminate | intros H; exfalso;
                      assert (X : veqb a b = true) by (apply veqb_eq; rewrite H; reflexivity); congruence]]
         end.
  split; [intros _ | reflexivity].
  destruct ro as [a1 a2 a3 a4], (rc_root s) as [b1 b2 b3 b4]. cbn [ro_req ro_np ro_used ro_npu] in *. congruence.
Qed.

Lemma rootinv_code x : RootInv x -> root_code (x_s x) (x_root x) = 0.
Proof. intros [[HI _] Hro]. apply root_code_ok. unfold root_ok. rewrite Hro. apply phi_rc_root. exact HI. Qed.

Theorem root_exact sm dm h :
  wf_init sm dm = true -> wf_history (init sm dm) h = true -> benign_history (init sm dm) h = true ->
  root_code (x_s (xrun (xinit sm dm) h)) (x_root (xrun (xinit sm dm) h)) = 0 /\
  forall x', In x' (xtrace (xinit sm dm) h) -> root_code (x_s x') (x_root x') = 0.
Proof.
  intros Hi Hh Hb. pose proof (xinit_inv sm dm Hi) as HI0. split.
  - apply rootinv_code. apply xrun_inv; assumption.
  - intros x' Hin. apply rootinv_code. apply (xtrace_inv h _ HI0 Hh Hb x' Hin).
Qed.

(* the root layer leaves the tree model alone *)
Theorem root_layer_projects h x : x_s (xrun x h) = run (x_s x) h.
Proof. apply xs_xrun. Qed.

End WithDim.

(* ---------- the rebuild while the default quota is max-limited: refuted ---------- *)

Local Existing Instance D2.

Definition ex_root_pod : pod := mkPod 1 (v2 30 30) false true false.
Definition ex_root_reset : list op := [ OpPodAdd 2 ex_root_pod; OpReset; OpPodDelete 2 ex_root_pod ].

(* default max (20,20), one bound pod of (30,30) in the default quota: the root holds 20 (the limited
   request); ResetQuota makes it 30 (resetRootQuotaUsedAndRequest adds the unlimited Request); after
   the pod is deleted 10 remain for ever although no pod is left anywhere. The history obeys the
   informer discipline and every quota of the tree stays exact. *)
Lemma root_reset_refuted :
  wf_init (v2 1000 1000) (v2 20 20) = true /\ wf_history (init (v2 1000 1000) (v2 20 20)) ex_root_reset = true /\
  benign_history (init (v2 1000 1000) (v2 20 20)) ex_root_reset = false /\
  (let x := xrun (xinit (v2 1000 1000) (v2 20 20)) ex_root_reset in
   state_code (x_s x) = 0 /\ root_code (x_s x) (x_root x) = 15 /\
   ro_req (x_root x) = (v2 10 10) /\ ro_req (rc_root (x_s x)) = (v2 0 0)) /\
  (let x := xrun (xinit (v2 1000 1000) (v2 20 20)) (firstn 2 ex_root_reset) in
   ro_req (x_root x) = (v2 30 30) /\ ro_req (rc_root (x_s x)) = (v2 20 20)).
Proof. vm_compute. repeat split; reflexivity. Qed.
