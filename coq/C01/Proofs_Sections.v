(* C01 — the atomic sections of the pod handlers (cache add/remove, assigned flag, request
   propagation, used propagation) preserve the invariant minus "quiescence" of the pod in flight. *)
From Coq Require Import List ZArith Bool Lia.
From Verif Require Import Lib.VecN C01.Model C01.Spec C01.Proofs_Base C01.Proofs_Walk C01.Proofs_Delta
  C01.Proofs_PodList.
Import ListNotations.
Open Scope Z_scope.

Section WithDim.
Context {D : Dim}.

Record InvQ (s : state) : Prop := {
  iq_shape : ShapeOk (st_sh s);
  iq_ids : NoDup (all_pod_ids s);
  iq_q : forall q, In q (st_sh s) -> QOk s q
}.

Lemma inv_invq s : Inv s -> InvQ s.
Proof. intros [H1 H2 H3 _]. constructor; assumption. Qed.

Lemma invq_inv s : InvQ s -> (forall q, In q (st_sh s) -> forallb pi_quiet (st_p s (q_name q)) = true) -> Inv s.
Proof. intros [H1 H2 H3] H4. constructor; assumption. Qed.

Lemma exists_q_find s q : exists_q s q = true <-> exists qq, find (st_sh s) q = Some qq.
Proof.
  unfold exists_q. destruct (find (st_sh s) q) as [x|].
  - split; [intros _; eauto | reflexivity].
  - split; [discriminate | intros [? H]; discriminate].
Qed.

Lemma shape_valsok sh : ShapeOk sh -> ValsOk sh.
Proof. intros H q Hq. apply (so_vals _ H q Hq). Qed.

Lemma shape_reach_find sh n q : ShapeOk sh -> find sh n = Some q -> exists l, reaches sh n l.
Proof.
  intros H Hf. destruct (so_reach _ H q (find_in _ _ _ Hf)) as [l Hl].
  rewrite (find_name _ _ _ Hf) in Hl. eauto.
Qed.

Lemma shape_pathf sh n l : ShapeOk sh -> reaches sh n l -> pathf sh n = l.
Proof. intros H Hr. apply pathf_reaches; [apply H | apply shape_nonzero; exact H | exact Hr]. Qed.

Lemma invq_posr s : InvQ s -> PosR (st_sh s) (st_r s).
Proof. intros H q Hq. apply (iq_q _ H q Hq). Qed.
Lemma invq_posu s : InvQ s -> PosU (st_sh s) (st_u s).
Proof. intros H q Hq. apply (iq_q _ H q Hq). Qed.

Lemma self_replace (g : pinfo -> vec) ps1 pi pi' ps2 :
  vsum (map g (ps1 ++ pi' :: ps2)) = vadd (vsub (vsum (map g (ps1 ++ pi :: ps2))) (g pi)) (g pi').
Proof.
  rewrite !vsum_split'. generalize (vsum (map g ps1)) (vsum (map g ps2)) (g pi) (g pi'). intros. vlia.
Qed.

Lemma forall_pos_replace ps1 pi pi' ps2 :
  Forall pi_pos (ps1 ++ pi :: ps2) -> pi_pos pi' -> Forall pi_pos (ps1 ++ pi' :: ps2).
Proof.
  rewrite !Forall_app. intros [H1 H2] H. split; [exact H1|]. inversion H2; subst. constructor; assumption.
Qed.

Lemma ids_replace ps1 pi pi' ps2 : pi_id pi' = pi_id pi -> ids (ps1 ++ pi' :: ps2) = ids (ps1 ++ pi :: ps2).
Proof. intros H. unfold ids. rewrite !map_app. cbn [map]. rewrite H. reflexivity. Qed.

Lemma vsum_nonneg_map (g : pinfo -> vec) ps : Forall (fun pi => vnonneg (g pi)) ps -> vnonneg (vsum (map g ps)).
Proof. intros H. apply vsum_nonneg. apply Forall_map. exact H. Qed.

Lemma self_sums_nonneg ps : Forall pi_pos ps ->
  vnonneg (self_req ps) /\ vnonneg (self_np ps) /\ vnonneg (self_used ps) /\ vnonneg (self_npused ps).
Proof.
  intros H. unfold self_req, self_np, self_used, self_npused.
  repeat split; apply vsum_nonneg_map; eapply Forall_impl; try exact H; intros pi Hp; apply Hp.
Qed.

(* ---------- request section ---------- *)

Lemma pod_req_sec_ok s q qq old new ps1 pi ps2 :
  InvQ s -> find (st_sh s) q = Some qq ->
  split_at (st_p s q) (oid old new) ps1 pi ps2 ->
  pi_areq pi = oreq old -> pi_anp pi = onp old ->
  vnonneg (oreq new) -> vnonneg (onp new) ->
  let s' := pod_req_sec s q old new in
  let pi' := mkPI (pi_id pi) (pi_asg pi) (oreq new) (onp new) (pi_aused pi) (pi_anpused pi) in
  InvQ s' /\ st_sh s' = st_sh s /\ st_p s' q = ps1 ++ pi' :: ps2 /\
  (forall m, m <> q -> st_p s' m = st_p s m).
Proof.
  intros HI Hf Hsp Hareq Hanp Hnew Hnewnp s' pi'.
  destruct HI as [Hshape Hids Hq].
  pose proof (so_nodup _ Hshape) as Hnd.
  pose proof (shape_nonzero _ Hshape) as Hnz.
  pose proof (shape_valsok _ Hshape) as Hvals.
  assert (Hex : exists_q s q = true) by (apply exists_q_find; eauto).
  assert (Hqqin : In qq (st_sh s)) by (eapply find_in; eauto).
  assert (Hqqn : q_name qq = q) by (eapply find_name; eauto).
  set (d := vsub (oreq new) (oreq old)).
  set (dnp := vsub (onp new) (onp old)).
  set (P0 := fupd (st_p s) q (ps1 ++ pi' :: ps2)).
  set (s0 := set_P s P0).
  assert (Hs0 : upd_pod s q (oid old new) (fun pi0 => mkPI (pi_id pi0) (pi_asg pi0) (oreq new) (onp new) (pi_aused pi0) (pi_anpused pi0)) = s0).
  { unfold upd_pod, s0, P0. rewrite (map_pod_split _ _ _ _ _ Hsp). reflexivity. }
  assert (HPq : st_p s q = ps1 ++ pi :: ps2) by apply Hsp.
  assert (Hid' : pi_id pi' = pi_id pi) by reflexivity.
  (* pods of s0 *)
  assert (Hpods0 : forall q0, In q0 (st_sh s) -> Forall pi_pos (P0 (q_name q0))).
  { intros q0 Hq0. unfold P0, fupd. destruct (q_name q0 =? q) eqn:E; [|apply (Hq q0 Hq0)].
    pose proof (qpods _ _ (Hq qq Hqqin)) as Hp. rewrite Hqqn, HPq in Hp.
    eapply forall_pos_replace; [exact Hp|].
    rewrite Forall_app in Hp. destruct Hp as [_ Hp]. inversion Hp as [|? ? Hpi _]; subst.
    destruct Hpi as (_ & _ & H3 & H4). unfold pi_pos, pi'. cbn. auto. }
  assert (Hids0 : NoDup (all_ids (st_sh s) P0)).
  { rewrite (all_ids_ext (st_sh s) (st_p s) P0); [exact Hids|].
    intros q0 Hq0. unfold P0, fupd. destruct (q_name q0 =? q) eqn:E; [|reflexivity].
    apply Z.eqb_eq in E. rewrite E, HPq. apply ids_replace. reflexivity. }
  (* self sums of q in s0 *)
  assert (Hsr : self_req (ps1 ++ pi' :: ps2) = vadd (self_req (st_p s q)) d).
  { unfold self_req. rewrite (self_replace pi_areq ps1 pi pi' ps2), HPq. cbn [pi_areq pi']. rewrite Hareq.
    unfold d. generalize (vsum (map pi_areq (ps1 ++ pi :: ps2))) (oreq old) (oreq new). intros. vlia. }
  assert (Hsn : self_np (ps1 ++ pi' :: ps2) = vadd (self_np (st_p s q)) dnp).
  { unfold self_np. rewrite (self_replace pi_anp ps1 pi pi' ps2), HPq. cbn [pi_anp pi']. rewrite Hanp.
    unfold dnp. generalize (vsum (map pi_anp (ps1 ++ pi :: ps2))) (onp old) (onp new). intros. vlia. }
  assert (Hsu : self_used (ps1 ++ pi' :: ps2) = self_used (st_p s q)).
  { unfold self_used. rewrite (self_replace pi_aused ps1 pi pi' ps2), HPq. cbn [pi_aused pi'].
    generalize (vsum (map pi_aused (ps1 ++ pi :: ps2))) (pi_aused pi). intros. vlia. }
  assert (Hsnu : self_npused (ps1 ++ pi' :: ps2) = self_npused (st_p s q)).
  { unfold self_npused. rewrite (self_replace pi_anpused ps1 pi pi' ps2), HPq. cbn [pi_anpused pi'].
    generalize (vsum (map pi_anpused (ps1 ++ pi :: ps2))) (pi_anpused pi). intros. vlia. }
  assert (HP0q : P0 q = ps1 ++ pi' :: ps2) by (unfold P0; apply fupd_same).
  assert (HP0o : forall m, m <> q -> P0 m = st_p s m) by (intros m Hm; unfold P0; apply fupd_other; exact Hm).
  unfold s', pod_req_sec. rewrite Hex. fold d dnp. rewrite Hs0.
  destruct (viszero d && viszero dnp) eqn:Ez.
  - (* nothing to propagate *)
    apply andb_prop in Ez. destruct Ez as [Ed Ednp]. apply viszero_eq in Ed. apply viszero_eq in Ednp.
    rewrite Ed, vadd_0_r in Hsr. rewrite Ednp, vadd_0_r in Hsn.
    refine (conj _ (conj eq_refl (conj HP0q HP0o))).
    constructor; [exact Hshape | exact Hids0 |].
    intros q0 Hq0. destruct (Hq q0 Hq0) as [HA HN HB HU HUN HS Hpr Hpu Hpo].
    constructor; cbn [st_sh st_r st_u st_p s0 set_P]; auto.
    unfold okS in *. cbn [st_r st_u st_p s0 set_P].
    destruct (Z.eq_dec (q_name q0) q) as [E|E].
    + rewrite E in *. rewrite HP0q, Hsr, Hsn, Hsu, Hsnu. exact HS.
    + rewrite (HP0o _ E). exact HS.
  - (* propagate *)
    destruct (shape_reach_find _ _ _ Hshape Hf) as [l Hl].
    unfold delta_req. cbn [st_sh st_r s0 set_P]. rewrite (shape_pathf _ _ _ Hshape Hl).
    destruct (Hq qq Hqqin) as [HAq HNq HBq HUq HUNq HSq Hprq Hpuq Hpoq].
    unfold okA, okN, okS in HAq, HNq, HSq.
    rewrite Hqqn in *. destruct HSq as (HS1 & HS2 & HS3 & HS4).
    pose proof (self_sums_nonneg _ (Hpods0 qq Hqqin)) as Hnn. rewrite Hqqn, HP0q in Hnn.
    destruct Hnn as (Hnn1 & Hnn2 & _ & _).
    assert (HSl : vnonneg (sumc (st_sh s) (limR (st_r s)) q)).
    { apply sumc_nonneg. apply limR_nonneg; [exact Hvals | apply invq_posr; constructor; assumption]. }
    assert (HSn : vnonneg (sumc (st_sh s) (npR (st_r s)) q)).
    { apply sumc_nonneg. apply (npR_nonneg (st_sh s)). apply invq_posr; constructor; assumption. }
    destruct (walk_req_ok (st_sh s) Hnd Hnz Hvals q l qq (st_r s) d dnp true Hl Hf)
      as (Hpos' & Hb' & Hoth' & Hst' & Hsl' & Hsn' & Hself' & Hfr').
    { apply invq_posr; constructor; assumption. }
    { intros q0 Hq0 _. destruct (Hq q0 Hq0); auto. }
    { rewrite HAq, HS1. rewrite Hsr in Hnn1.
      revert Hnn1 HSl. generalize (self_req (st_p s q)) (sumc (st_sh s) (limR (st_r s)) q). intros. vlia. }
    { rewrite HNq, HS2. rewrite Hsn in Hnn2.
      revert Hnn2 HSn. generalize (self_np (st_p s q)) (sumc (st_sh s) (npR (st_r s)) q). intros. vlia. }
    { intros _. rewrite HS1, HS2, <- Hsr, <- Hsn. auto. }
    set (R' := walk_req (st_sh s) (st_r s) l d dnp true) in *. clearbody R'.
    refine (conj _ (conj eq_refl (conj HP0q HP0o))).
    constructor; cbn [st_sh st_r st_u st_p set_R s0 set_P]; [exact Hshape | exact Hids0 |].
    intros q0 Hq0. destruct (Hq q0 Hq0) as [HA HN HB HU HUN HS Hpr Hpu Hpo].
    destruct (Z.eq_dec (q_name q0) q) as [E|E].
    + assert (q0 = qq) by (rewrite <- E in Hf; rewrite (in_find _ _ Hnd Hq0) in Hf; congruence). subst q0.
      constructor; cbn [st_sh st_r st_u st_p set_R s0 set_P]; auto.
      * unfold okA. rewrite Hqqn. rewrite Hst'. rewrite Hsl'. cbn [r_creq r_sreq].
        rewrite HAq. generalize (r_sreq (st_r s q)) (sumc (st_sh s) (limR (st_r s)) q) d. intros. vlia.
      * unfold okN. rewrite Hqqn. rewrite Hst'. rewrite Hsn'. cbn [r_np r_snp].
        rewrite HNq. generalize (r_snp (st_r s q)) (sumc (st_sh s) (npR (st_r s)) q) dnp. intros. vlia.
      * unfold okS, set_R, s0, set_P. cbn [st_r st_u st_p]. rewrite Hqqn, Hst', HP0q. cbn [r_sreq r_snp].
        rewrite Hsr, Hsn, Hsu, Hsnu, HS1, HS2. auto.
    + destruct (Hoth' q0 Hq0 E) as [HA' HN'].
      constructor; cbn [st_sh st_r st_u st_p set_R s0 set_P]; auto.
      * destruct (Hself' _ E) as [E1 E2]. unfold okS, set_R, s0, set_P in *. cbn [st_r st_u st_p].
        rewrite E1, E2, (HP0o _ E). exact HS.
Qed.

(* ---------- used section ---------- *)

Lemma oasg_guard ps id ps1 pi ps2 old new :
  split_at ps id ps1 pi ps2 -> oid old new = id -> pi_asg pi = true -> (old <> None \/ new <> None) ->
  negb (oasg ps new) && negb (oasg ps old) = false.
Proof.
  intros Hsp Hid Ha Hne. destruct old as [po|].
  - cbn [oid] in Hid. cbn [oasg]. rewrite Hid, (asg_split _ _ _ _ _ Hsp), Ha. apply andb_false_r.
  - destruct new as [pn|]; [|destruct Hne; congruence].
    cbn [oid] in Hid. cbn [oasg]. rewrite Hid, (asg_split _ _ _ _ _ Hsp), Ha. reflexivity.
Qed.

Lemma pod_used_sec_ok s q qq old new ps1 pi ps2 :
  InvQ s -> find (st_sh s) q = Some qq ->
  split_at (st_p s q) (oid old new) ps1 pi ps2 ->
  pi_asg pi = true -> (old <> None \/ new <> None) ->
  pi_aused pi = oreq old -> pi_anpused pi = onp old ->
  vnonneg (oreq new) -> vnonneg (onp new) ->
  let s' := pod_used_sec s q old new in
  let pi' := mkPI (pi_id pi) (pi_asg pi) (pi_areq pi) (pi_anp pi) (oreq new) (onp new) in
  InvQ s' /\ st_sh s' = st_sh s /\ st_p s' q = ps1 ++ pi' :: ps2 /\
  (forall m, m <> q -> st_p s' m = st_p s m).
Proof.
  intros HI Hf Hsp Hasg Hne Hau Hanu Hnew Hnewnp s' pi'.
  destruct HI as [Hshape Hids Hq].
  pose proof (so_nodup _ Hshape) as Hnd.
  pose proof (shape_nonzero _ Hshape) as Hnz.
  assert (Hex : exists_q s q = true) by (apply exists_q_find; eauto).
  assert (Hqqin : In qq (st_sh s)) by (eapply find_in; eauto).
  assert (Hqqn : q_name qq = q) by (eapply find_name; eauto).
  set (d := vsub (oreq new) (oreq old)).
  set (dnp := vsub (onp new) (onp old)).
  set (P0 := fupd (st_p s) q (ps1 ++ pi' :: ps2)).
  set (s0 := set_P s P0).
  assert (Hs0 : upd_pod s q (oid old new) (fun pi0 => mkPI (pi_id pi0) (pi_asg pi0) (pi_areq pi0) (pi_anp pi0) (oreq new) (onp new)) = s0).
  { unfold upd_pod, s0, P0. rewrite (map_pod_split _ _ _ _ _ Hsp). reflexivity. }
  assert (HPq : st_p s q = ps1 ++ pi :: ps2) by apply Hsp.
  assert (Hpods0 : forall q0, In q0 (st_sh s) -> Forall pi_pos (P0 (q_name q0))).
  { intros q0 Hq0. unfold P0, fupd. destruct (q_name q0 =? q) eqn:E; [|apply (Hq q0 Hq0)].
    pose proof (qpods _ _ (Hq qq Hqqin)) as Hp. rewrite Hqqn, HPq in Hp.
    eapply forall_pos_replace; [exact Hp|].
    rewrite Forall_app in Hp. destruct Hp as [_ Hp]. inversion Hp as [|? ? Hpi _]; subst.
    destruct Hpi as (H1 & H2 & _ & _). unfold pi_pos, pi'. cbn. auto. }
  assert (Hids0 : NoDup (all_ids (st_sh s) P0)).
  { rewrite (all_ids_ext (st_sh s) (st_p s) P0); [exact Hids|].
    intros q0 Hq0. unfold P0, fupd. destruct (q_name q0 =? q) eqn:E; [|reflexivity].
    apply Z.eqb_eq in E. rewrite E, HPq. apply ids_replace. reflexivity. }
  assert (Hsr : self_req (ps1 ++ pi' :: ps2) = self_req (st_p s q)).
  { unfold self_req. rewrite (self_replace pi_areq ps1 pi pi' ps2), HPq. cbn [pi_areq pi'].
    generalize (vsum (map pi_areq (ps1 ++ pi :: ps2))) (pi_areq pi). intros. vlia. }
  assert (Hsn : self_np (ps1 ++ pi' :: ps2) = self_np (st_p s q)).
  { unfold self_np. rewrite (self_replace pi_anp ps1 pi pi' ps2), HPq. cbn [pi_anp pi'].
    generalize (vsum (map pi_anp (ps1 ++ pi :: ps2))) (pi_anp pi). intros. vlia. }
  assert (Hsu : self_used (ps1 ++ pi' :: ps2) = vadd (self_used (st_p s q)) d).
  { unfold self_used. rewrite (self_replace pi_aused ps1 pi pi' ps2), HPq. cbn [pi_aused pi']. rewrite Hau.
    unfold d. generalize (vsum (map pi_aused (ps1 ++ pi :: ps2))) (oreq old) (oreq new). intros. vlia. }
  assert (Hsnu : self_npused (ps1 ++ pi' :: ps2) = vadd (self_npused (st_p s q)) dnp).
  { unfold self_npused. rewrite (self_replace pi_anpused ps1 pi pi' ps2), HPq. cbn [pi_anpused pi']. rewrite Hanu.
    unfold dnp. generalize (vsum (map pi_anpused (ps1 ++ pi :: ps2))) (onp old) (onp new). intros. vlia. }
  assert (HP0q : P0 q = ps1 ++ pi' :: ps2) by (unfold P0; apply fupd_same).
  assert (HP0o : forall m, m <> q -> P0 m = st_p s m) by (intros m Hm; unfold P0; apply fupd_other; exact Hm).
  unfold s', pod_used_sec. rewrite Hex.
  rewrite (oasg_guard _ _ _ _ _ old new Hsp eq_refl Hasg Hne).
  fold d dnp. rewrite Hs0.
  destruct (viszero d && viszero dnp) eqn:Ez.
  - apply andb_prop in Ez. destruct Ez as [Ed Ednp]. apply viszero_eq in Ed. apply viszero_eq in Ednp.
    rewrite Ed, vadd_0_r in Hsu. rewrite Ednp, vadd_0_r in Hsnu.
    refine (conj _ (conj eq_refl (conj HP0q HP0o))).
    constructor; [exact Hshape | exact Hids0 |].
    intros q0 Hq0. destruct (Hq q0 Hq0) as [HA HN HB HU HUN HS Hpr Hpu Hpo].
    constructor; cbn [st_sh st_r st_u st_p s0 set_P]; auto.
    unfold okS in *. cbn [st_r st_u st_p s0 set_P].
    destruct (Z.eq_dec (q_name q0) q) as [E|E].
    + rewrite E in *. rewrite HP0q, Hsr, Hsn, Hsu, Hsnu. exact HS.
    + rewrite (HP0o _ E). exact HS.
  - destruct (shape_reach_find _ _ _ Hshape Hf) as [l Hl].
    unfold delta_used. cbn [st_sh st_u s0 set_P]. rewrite (shape_pathf _ _ _ Hshape Hl).
    destruct (Hq qq Hqqin) as [HAq HNq HBq HUq HUNq HSq Hprq Hpuq Hpoq].
    unfold okU, okUN, okS in HUq, HUNq, HSq.
    rewrite Hqqn in *. destruct HSq as (HS1 & HS2 & HS3 & HS4).
    pose proof (self_sums_nonneg _ (Hpods0 qq Hqqin)) as Hnn. rewrite Hqqn, HP0q in Hnn.
    destruct Hnn as (_ & _ & Hnn1 & Hnn2).
    assert (HSl : vnonneg (sumc (st_sh s) (usedU (st_u s)) q)).
    { apply sumc_nonneg. apply (usedU_nonneg (st_sh s)). apply invq_posu; constructor; assumption. }
    assert (HSn : vnonneg (sumc (st_sh s) (unpU (st_u s)) q)).
    { apply sumc_nonneg. apply (unpU_nonneg (st_sh s)). apply invq_posu; constructor; assumption. }
    destruct (walk_used_ok (st_sh s) Hnd Hnz q l qq (st_u s) d dnp true Hl Hf)
      as (Hpos' & Hoth' & Hst' & Hsl' & Hsn' & Hself' & Hfr').
    { apply invq_posu; constructor; assumption. }
    { intros q0 Hq0 _. destruct (Hq q0 Hq0); auto. }
    { rewrite HUq, HS3. rewrite Hsu in Hnn1.
      revert Hnn1 HSl. generalize (self_used (st_p s q)) (sumc (st_sh s) (usedU (st_u s)) q). intros. vlia. }
    { rewrite HUNq, HS4. rewrite Hsnu in Hnn2.
      revert Hnn2 HSn. generalize (self_npused (st_p s q)) (sumc (st_sh s) (unpU (st_u s)) q). intros. vlia. }
    { intros _. rewrite HS3, HS4, <- Hsu, <- Hsnu. auto. }
    set (U' := walk_used (st_u s) l d dnp true) in *. clearbody U'.
    refine (conj _ (conj eq_refl (conj HP0q HP0o))).
    constructor; cbn [st_sh st_r st_u st_p set_U s0 set_P]; [exact Hshape | exact Hids0 |].
    intros q0 Hq0. destruct (Hq q0 Hq0) as [HA HN HB HU HUN HS Hpr Hpu Hpo].
    destruct (Z.eq_dec (q_name q0) q) as [E|E].
    + assert (q0 = qq) by (rewrite <- E in Hf; rewrite (in_find _ _ Hnd Hq0) in Hf; congruence). subst q0.
      constructor; cbn [st_sh st_r st_u st_p set_U s0 set_P]; auto.
      * unfold okU. rewrite Hqqn. rewrite Hst'. rewrite Hsl'. cbn [u_used u_sused].
        rewrite HUq. generalize (u_sused (st_u s q)) (sumc (st_sh s) (usedU (st_u s)) q) d. intros. vlia.
      * unfold okUN. rewrite Hqqn. rewrite Hst'. rewrite Hsn'. cbn [u_np u_snp].
        rewrite HUNq. generalize (u_snp (st_u s q)) (sumc (st_sh s) (unpU (st_u s)) q) dnp. intros. vlia.
      * unfold okS, set_U, s0, set_P. cbn [st_r st_u st_p]. rewrite Hqqn, Hst', HP0q. cbn [u_sused u_snp].
        rewrite Hsr, Hsn, Hsu, Hsnu, HS3, HS4. auto.
    + destruct (Hoth' q0 Hq0 E) as [HU' HUN'].
      constructor; cbn [st_sh st_r st_u st_p set_U s0 set_P]; auto.
      * destruct (Hself' _ E) as [E1 E2]. unfold okS, set_U, s0, set_P in *. cbn [st_r st_u st_p].
        rewrite E1, E2, (HP0o _ E). exact HS.
Qed.

(* a pod that is not assigned (or not cached) is not counted as used: nothing happens *)
Lemma pod_used_sec_skip s q old new :
  oasg (st_p s q) new = false -> oasg (st_p s q) old = false -> pod_used_sec s q old new = s.
Proof. intros H1 H2. unfold pod_used_sec. rewrite H1, H2. cbn [negb andb]. destruct (exists_q s q); reflexivity. Qed.

(* ---------- cache sections ---------- *)

Definition e0 (id : Z) : pinfo := mkPI id false vzero vzero vzero vzero.

Lemma qok_same_RU s P' q0 :
  QOk s q0 ->
  self_req (P' (q_name q0)) = self_req (st_p s (q_name q0)) ->
  self_np (P' (q_name q0)) = self_np (st_p s (q_name q0)) ->
  self_used (P' (q_name q0)) = self_used (st_p s (q_name q0)) ->
  self_npused (P' (q_name q0)) = self_npused (st_p s (q_name q0)) ->
  Forall pi_pos (P' (q_name q0)) ->
  QOk (set_P s P') q0.
Proof.
  intros [HA HN HB HU HUN HS Hpr Hpu Hpo] E1 E2 E3 E4 Hp.
  constructor; cbn [st_sh st_r st_u st_p set_P]; auto.
  unfold okS in *. cbn [st_r st_u st_p set_P]. rewrite E1, E2, E3, E4. exact HS.
Qed.

Lemma cache_add_ok s q qq id :
  InvQ s -> find (st_sh s) q = Some qq -> ~ In id (all_pod_ids s) ->
  let s' := cache_add s q id in
  InvQ s' /\ st_sh s' = st_sh s /\ st_p s' q = st_p s q ++ [e0 id] /\
  (forall m, m <> q -> st_p s' m = st_p s m) /\
  split_at (st_p s' q) id (st_p s q) (e0 id) [].
Proof.
  intros HI Hf Hfresh s'. destruct HI as [Hshape Hids Hq].
  pose proof (so_nodup _ Hshape) as Hnd.
  assert (Hex : exists_q s q = true) by (apply exists_q_find; eauto).
  assert (Hqqin : In qq (st_sh s)) by (eapply find_in; eauto).
  assert (Hqqn : q_name qq = q) by (eapply find_name; eauto).
  assert (Hnot : ~ In id (ids (st_p s q))).
  { intros H. apply Hfresh. apply in_all_ids. exists qq. rewrite Hqqn. auto. }
  unfold s', cache_add. rewrite Hex. apply has_pod_false in Hnot as Hhas. rewrite Hhas. cbn [negb andb].
  fold (e0 id). set (P' := fupd (st_p s) q (st_p s q ++ [e0 id])).
  assert (HP'q : P' q = st_p s q ++ [e0 id]) by (unfold P'; apply fupd_same).
  assert (HP'o : forall m, m <> q -> P' m = st_p s m) by (intros m Hm; unfold P'; apply fupd_other; exact Hm).
  refine (conj _ (conj eq_refl (conj HP'q (conj HP'o _)))).
  - constructor; cbn [st_sh st_p set_P]; [exact Hshape | |].
    + change (NoDup (all_ids (st_sh s) P')). unfold P'.
      apply nodup_all_upd_add; [exact Hnd | eapply find_some_in_names; eauto | exact Hids | exact Hfresh].
    + intros q0 Hq0. apply qok_same_RU; [apply Hq; exact Hq0 | | | | |];
        (destruct (Z.eq_dec (q_name q0) q) as [E|E]; [rewrite E, HP'q | rewrite (HP'o _ E); try reflexivity]).
      * unfold self_req. rewrite vsum_app2. cbn. rewrite !vadd_0_r. reflexivity.
      * unfold self_np. rewrite vsum_app2. cbn. rewrite !vadd_0_r. reflexivity.
      * unfold self_used. rewrite vsum_app2. cbn. rewrite !vadd_0_r. reflexivity.
      * unfold self_npused. rewrite vsum_app2. cbn. rewrite !vadd_0_r. reflexivity.
      * apply Forall_app. split; [rewrite <- E; apply (Hq q0 Hq0)|]. constructor; [|constructor].
        unfold pi_pos, e0. cbn. repeat split; apply vnonneg_zero.
      * apply (Hq q0 Hq0).
  - cbn [st_p set_P]. rewrite HP'q. repeat split; auto.
Qed.

Lemma cache_del_ok s q qq id ps1 pi ps2 :
  InvQ s -> find (st_sh s) q = Some qq -> split_at (st_p s q) id ps1 pi ps2 ->
  pi_areq pi = vzero -> pi_anp pi = vzero -> pi_aused pi = vzero -> pi_anpused pi = vzero ->
  let s' := cache_del s q id in
  InvQ s' /\ st_sh s' = st_sh s /\ st_p s' q = ps1 ++ ps2 /\ (forall m, m <> q -> st_p s' m = st_p s m).
Proof.
  intros HI Hf Hsp Z1 Z2 Z3 Z4 s'. destruct HI as [Hshape Hids Hq].
  pose proof (so_nodup _ Hshape) as Hnd.
  assert (Hex : exists_q s q = true) by (apply exists_q_find; eauto).
  assert (Hqqin : In qq (st_sh s)) by (eapply find_in; eauto).
  assert (Hqqn : q_name qq = q) by (eapply find_name; eauto).
  assert (HPq : st_p s q = ps1 ++ pi :: ps2) by apply Hsp.
  unfold s', cache_del. rewrite Hex, (filter_split _ _ _ _ _ Hsp).
  set (P' := fupd (st_p s) q (ps1 ++ ps2)).
  assert (HP'q : P' q = ps1 ++ ps2) by (unfold P'; apply fupd_same).
  assert (HP'o : forall m, m <> q -> P' m = st_p s m) by (intros m Hm; unfold P'; apply fupd_other; exact Hm).
  refine (conj _ (conj eq_refl (conj HP'q HP'o))).
  constructor; cbn [st_sh st_p set_P]; [exact Hshape | |].
  - change (NoDup (all_ids (st_sh s) P')). unfold P'.
    apply nodup_all_upd_sub; [exact Hnd | eapply find_some_in_names; eauto | exact Hids |].
    intros x. rewrite HPq. apply cnt_ids_split_le.
  - intros q0 Hq0. apply qok_same_RU; [apply Hq; exact Hq0 | | | | |];
      (destruct (Z.eq_dec (q_name q0) q) as [E|E]; [rewrite E, HP'q, ?HPq | rewrite (HP'o _ E); try reflexivity]).
    + unfold self_req. rewrite vsum_app2, vsum_split', Z1. generalize (vsum (map pi_areq ps1)) (vsum (map pi_areq ps2)). intros. vlia.
    + unfold self_np. rewrite vsum_app2, vsum_split', Z2. generalize (vsum (map pi_anp ps1)) (vsum (map pi_anp ps2)). intros. vlia.
    + unfold self_used. rewrite vsum_app2, vsum_split', Z3. generalize (vsum (map pi_aused ps1)) (vsum (map pi_aused ps2)). intros. vlia.
    + unfold self_npused. rewrite vsum_app2, vsum_split', Z4. generalize (vsum (map pi_anpused ps1)) (vsum (map pi_anpused ps2)). intros. vlia.
    + pose proof (qpods _ _ (Hq q0 Hq0)) as Hp. rewrite E, HPq in Hp.
      rewrite Forall_app in *. destruct Hp as [H1 H2]. inversion H2; subst. split; assumption.
    + apply (Hq q0 Hq0).
Qed.

Lemma set_asg_ok s q qq id b ps1 pi ps2 :
  InvQ s -> find (st_sh s) q = Some qq -> split_at (st_p s q) id ps1 pi ps2 ->
  let s' := set_asg s q id b in
  let pi' := mkPI (pi_id pi) b (pi_areq pi) (pi_anp pi) (pi_aused pi) (pi_anpused pi) in
  InvQ s' /\ st_sh s' = st_sh s /\ st_p s' q = ps1 ++ pi' :: ps2 /\ (forall m, m <> q -> st_p s' m = st_p s m).
Proof.
  intros HI Hf Hsp s' pi'. destruct HI as [Hshape Hids Hq].
  assert (Hex : exists_q s q = true) by (apply exists_q_find; eauto).
  assert (HPq : st_p s q = ps1 ++ pi :: ps2) by apply Hsp.
  unfold s', set_asg, upd_pod. rewrite Hex, (map_pod_split _ _ _ _ _ Hsp). fold pi'.
  set (P' := fupd (st_p s) q (ps1 ++ pi' :: ps2)).
  assert (HP'q : P' q = ps1 ++ pi' :: ps2) by (unfold P'; apply fupd_same).
  assert (HP'o : forall m, m <> q -> P' m = st_p s m) by (intros m Hm; unfold P'; apply fupd_other; exact Hm).
  refine (conj _ (conj eq_refl (conj HP'q HP'o))).
  constructor; cbn [st_sh st_p set_P]; [exact Hshape | |].
  - change (NoDup (all_ids (st_sh s) P')). rewrite (all_ids_ext (st_sh s) (st_p s) P'); [exact Hids|].
    intros q0 Hq0. destruct (Z.eq_dec (q_name q0) q) as [E|E]; [|rewrite (HP'o _ E); reflexivity].
    rewrite E, HP'q, HPq. apply ids_replace. reflexivity.
  - intros q0 Hq0. apply qok_same_RU; [apply Hq; exact Hq0 | | | | |];
      (destruct (Z.eq_dec (q_name q0) q) as [E|E]; [rewrite E, HP'q, ?HPq | rewrite (HP'o _ E); try reflexivity]).
    + unfold self_req. rewrite !vsum_split'. reflexivity.
    + unfold self_np. rewrite !vsum_split'. reflexivity.
    + unfold self_used. rewrite !vsum_split'. reflexivity.
    + unfold self_npused. rewrite !vsum_split'. reflexivity.
    + pose proof (qpods _ _ (Hq q0 Hq0)) as Hp. rewrite E, HPq in Hp.
      eapply forall_pos_replace; [exact Hp|]. rewrite Forall_app in Hp. destruct Hp as [_ Hp].
      inversion Hp; subst. assumption.
    + apply (Hq q0 Hq0).
Qed.

End WithDim.
