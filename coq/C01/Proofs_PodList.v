(* C01 — facts about one PodCache (a list of entries) and about the list of all cached pod ids. *)
From Coq Require Import List ZArith Bool Lia.
From Verif Require Import Lib.VecN C01.Model C01.Spec C01.Proofs_Base.
Import ListNotations.
Open Scope Z_scope.

Section WithDim.
Context {D : Dim}.

Definition ids (ps : list pinfo) : list Z := map pi_id ps.

Definition split_at (ps : list pinfo) (id : Z) (ps1 : list pinfo) (pi : pinfo) (ps2 : list pinfo) : Prop :=
  ps = ps1 ++ pi :: ps2 /\ pi_id pi = id /\ ~ In id (ids ps1) /\ ~ In id (ids ps2).

Lemma has_pod_in ps id : has_pod ps id = true <-> In id (ids ps).
Proof.
  unfold has_pod, ids. rewrite existsb_exists, in_map_iff. split.
  - intros [pi [Hin E]]. apply Z.eqb_eq in E. eauto.
  - intros [pi [E Hin]]. exists pi. split; [exact Hin | apply Z.eqb_eq; exact E].
Qed.
Lemma has_pod_false ps id : has_pod ps id = false <-> ~ In id (ids ps).
Proof. rewrite <- has_pod_in. destruct (has_pod ps id); split; congruence. Qed.

Lemma has_split ps id : NoDup (ids ps) -> In id (ids ps) -> exists ps1 pi ps2, split_at ps id ps1 pi ps2.
Proof.
  induction ps as [|x t IH]; intros Hnd Hin; [destruct Hin|].
  cbn [ids map] in Hnd. inversion Hnd as [|? ? Hx Ht]; subst.
  destruct (Z.eq_dec (pi_id x) id) as [E|E].
  - exists [], x, t. repeat split; auto. rewrite <- E. exact Hx.
  - destruct Hin as [Hin|Hin]; [contradiction|].
    destruct (IH Ht Hin) as (ps1 & pi & ps2 & -> & Hid & H1 & H2).
    exists (x :: ps1), pi, ps2. repeat split; auto.
    cbn [ids map]. intros [H|H]; [contradiction | apply H1; exact H].
Qed.

Lemma find_app_notin id l r : ~ In id (ids l) ->
  List.find (fun x => pi_id x =? id) (l ++ r) = List.find (fun x => pi_id x =? id) r.
Proof.
  induction l as [|x t IH]; intros Hn; [reflexivity|]. cbn [app List.find].
  cbn [ids map] in Hn. destruct (pi_id x =? id) eqn:E.
  - apply Z.eqb_eq in E. exfalso. apply Hn. left. exact E.
  - apply IH. intros H. apply Hn. right. exact H.
Qed.

Lemma flat_map_ext_in {A B} (f g : A -> list B) l :
  (forall a, In a l -> f a = g a) -> flat_map f l = flat_map g l.
Proof.
  induction l as [|a t IH]; intros H; [reflexivity|]. cbn [flat_map].
  rewrite (H a (or_introl eq_refl)), IH; [reflexivity|]. intros x Hx. apply H. right. exact Hx.
Qed.

Section Split.
  Variables (ps ps1 ps2 : list pinfo) (pi : pinfo) (id : Z).
  Hypothesis Hs : split_at ps id ps1 pi ps2.

  Lemma map_pod_notin l f : ~ In id (ids l) -> map_pod l id f = l.
  Proof.
    induction l as [|x t IH]; intros Hn; [reflexivity|]. cbn [map_pod map].
    cbn [ids map] in Hn. destruct (pi_id x =? id) eqn:E.
    - apply Z.eqb_eq in E. exfalso. apply Hn. left. exact E.
    - f_equal. apply IH. intros H. apply Hn. right. exact H.
  Qed.

  Lemma map_pod_split f : map_pod ps id f = ps1 ++ f pi :: ps2.
  Proof.
    destruct Hs as (-> & Hid & H1 & H2). unfold map_pod. rewrite map_app. cbn [map].
    rewrite Hid, Z.eqb_refl. f_equal; [apply (map_pod_notin ps1 f H1)|]. f_equal. apply (map_pod_notin ps2 f H2).
  Qed.

  Lemma filter_notin l : ~ In id (ids l) -> filter (fun x => negb (pi_id x =? id)) l = l.
  Proof.
    induction l as [|x t IH]; intros Hn; [reflexivity|]. cbn [filter].
    cbn [ids map] in Hn. destruct (pi_id x =? id) eqn:E; cbn [negb].
    - apply Z.eqb_eq in E. exfalso. apply Hn. left. exact E.
    - f_equal. apply IH. intros H. apply Hn. right. exact H.
  Qed.

  Lemma filter_split : filter (fun x => negb (pi_id x =? id)) ps = ps1 ++ ps2.
  Proof.
    destruct Hs as (-> & Hid & H1 & H2). rewrite filter_app. cbn [filter].
    rewrite Hid, Z.eqb_refl. cbn [negb]. rewrite (filter_notin ps1 H1), (filter_notin ps2 H2). reflexivity.
  Qed.

  Lemma asg_notin l : ~ In id (ids l) -> asg_pod l id = false.
  Proof.
    induction l as [|x t IH]; intros Hn; [reflexivity|]. unfold asg_pod. cbn [existsb].
    cbn [ids map] in Hn. destruct (pi_id x =? id) eqn:E.
    - apply Z.eqb_eq in E. exfalso. apply Hn. left. exact E.
    - cbn [andb orb]. apply IH. intros H. apply Hn. right. exact H.
  Qed.

  Lemma asg_split : asg_pod ps id = pi_asg pi.
  Proof.
    destruct Hs as (-> & Hid & H1 & H2). unfold asg_pod. rewrite existsb_app. cbn [existsb].
    fold (asg_pod ps1 id). fold (asg_pod ps2 id).
    rewrite (asg_notin ps1 H1), (asg_notin ps2 H2), Hid, Z.eqb_refl. cbn [orb andb]. apply orb_false_r.
  Qed.

  Lemma has_split_true : has_pod ps id = true.
  Proof.
    destruct Hs as (-> & Hid & _). apply has_pod_in. unfold ids. rewrite map_app. apply in_or_app.
    right. left. exact Hid.
  Qed.

  Lemma find_notin l : ~ In id (ids l) -> List.find (fun x => pi_id x =? id) l = None.
  Proof.
    induction l as [|x t IH]; intros Hn; [reflexivity|]. cbn [List.find].
    cbn [ids map] in Hn. destruct (pi_id x =? id) eqn:E.
    - apply Z.eqb_eq in E. exfalso. apply Hn. left. exact E.
    - apply IH. intros H. apply Hn. right. exact H.
  Qed.

  Lemma find_split : List.find (fun x => pi_id x =? id) ps = Some pi.
  Proof.
    destruct Hs as (-> & Hid & H1 & H2). rewrite (find_app_notin id ps1 _ H1). cbn [List.find].
    rewrite Hid, Z.eqb_refl. reflexivity.
  Qed.

  Lemma vsum_split (g : pinfo -> vec) :
    vsum (map g ps) = vadd (g pi) (vadd (vsum (map g ps1)) (vsum (map g ps2))).
  Proof.
    destruct Hs as (-> & _). rewrite map_app, vsum_app. cbn [map]. rewrite vsum_cons.
    generalize (vsum (map g ps1)) (vsum (map g ps2)) (g pi). intros. vlia.
  Qed.

  Lemma ids_split : ids ps = ids ps1 ++ id :: ids ps2.
  Proof. destruct Hs as (-> & Hid & _). unfold ids. rewrite map_app. cbn [map]. rewrite Hid. reflexivity. Qed.

  Lemma forallb_split (f : pinfo -> bool) :
    forallb f ps = forallb f ps1 && (f pi && forallb f ps2).
  Proof. destruct Hs as (-> & _). rewrite forallb_app. reflexivity. Qed.
End Split.

Lemma split_replace ps1 pi pi' ps2 id :
  split_at (ps1 ++ pi :: ps2) id ps1 pi ps2 -> pi_id pi' = id -> split_at (ps1 ++ pi' :: ps2) id ps1 pi' ps2.
Proof. intros (_ & _ & H1 & H2) Hid. repeat split; auto. Qed.

Lemma vsum_split' (g : pinfo -> vec) ps1 pi ps2 :
  vsum (map g (ps1 ++ pi :: ps2)) = vadd (g pi) (vadd (vsum (map g ps1)) (vsum (map g ps2))).
Proof.
  rewrite map_app, vsum_app. cbn [map]. rewrite vsum_cons.
  generalize (vsum (map g ps1)) (vsum (map g ps2)) (g pi). intros. vlia.
Qed.
Lemma vsum_app2 (g : pinfo -> vec) ps1 ps2 :
  vsum (map g (ps1 ++ ps2)) = vadd (vsum (map g ps1)) (vsum (map g ps2)).
Proof. rewrite map_app, vsum_app. reflexivity. Qed.

(* ---------- all cached pod ids ---------- *)

Definition all_ids (sh : list qshape) (P : Z -> list pinfo) : list Z :=
  flat_map (fun q => ids (P (q_name q))) sh.

Lemma all_pod_ids_eq s : all_pod_ids s = all_ids (st_sh s) (st_p s).
Proof. reflexivity. Qed.

Lemma all_ids_ext sh P P' : (forall q, In q sh -> ids (P' (q_name q)) = ids (P (q_name q))) ->
  all_ids sh P' = all_ids sh P.
Proof.
  intros H. unfold all_ids. induction sh as [|q t IH]; [reflexivity|]. cbn [flat_map].
  rewrite (H q (or_introl eq_refl)), IH; [reflexivity|]. intros x Hx. apply H. right. exact Hx.
Qed.

Lemma in_all_ids sh P x : In x (all_ids sh P) <-> exists q, In q sh /\ In x (ids (P (q_name q))).
Proof. unfold all_ids. rewrite in_flat_map. tauto. Qed.

Definition cnt (x : Z) (l : list Z) : nat := count_occ Z.eq_dec l x.

Lemma cnt_app x l1 l2 : cnt x (l1 ++ l2) = (cnt x l1 + cnt x l2)%nat.
Proof. apply count_occ_app. Qed.

Lemma nodup_cnt l : NoDup l <-> forall x, (cnt x l <= 1)%nat.
Proof. apply NoDup_count_occ. Qed.

Lemma cnt_zero x l : cnt x l = 0%nat <-> ~ In x l.
Proof. unfold cnt. split; [apply count_occ_not_In | apply count_occ_not_In]. Qed.

Lemma nodup_app_l (l1 l2 : list Z) : NoDup (l1 ++ l2) -> NoDup l1.
Proof. rewrite !nodup_cnt. intros H x. specialize (H x). rewrite cnt_app in H. lia. Qed.
Lemma nodup_app_r (l1 l2 : list Z) : NoDup (l1 ++ l2) -> NoDup l2.
Proof. rewrite !nodup_cnt. intros H x. specialize (H x). rewrite cnt_app in H. lia. Qed.

Lemma all_ids_nodup_each sh P q : NoDup (all_ids sh P) -> In q sh -> NoDup (ids (P (q_name q))).
Proof.
  unfold all_ids. induction sh as [|x t IH]; intros Hnd Hq; [destruct Hq|].
  cbn [flat_map] in Hnd. destruct Hq as [->|Hq].
  - eapply nodup_app_l. exact Hnd.
  - apply IH; [|exact Hq]. eapply nodup_app_r. exact Hnd.
Qed.

(* replacing the cache of one quota *)
Lemma cnt_all_upd sh P n new x : NoDup (names sh) -> In n (names sh) ->
  (cnt x (all_ids sh (fupd P n new)) + cnt x (ids (P n)) = cnt x (all_ids sh P) + cnt x (ids new))%nat.
Proof.
  unfold all_ids. induction sh as [|q t IH]; intros Hnd Hin; [destruct Hin|].
  cbn [names map] in Hnd, Hin. inversion Hnd as [|? ? Hq Ht]; subst.
  cbn [flat_map]. rewrite !cnt_app.
  destruct (Z.eq_dec (q_name q) n) as [E|E].
  - rewrite E, fupd_same.
    assert (Hrest : flat_map (fun q0 => ids (fupd P n new (q_name q0))) t = flat_map (fun q0 => ids (P (q_name q0))) t).
    { apply flat_map_ext_in. intros a Ha. rewrite fupd_other; [reflexivity|].
      intros Ea. apply Hq. rewrite E, <- Ea. apply in_map. exact Ha. }
    rewrite Hrest. lia.
  - rewrite fupd_other by exact E. destruct Hin as [Hin|Hin]; [contradiction|].
    specialize (IH Ht Hin). lia.
Qed.

Lemma nodup_all_upd_sub sh P n new : NoDup (names sh) -> In n (names sh) -> NoDup (all_ids sh P) ->
  (forall x, (cnt x (ids new) <= cnt x (ids (P n)))%nat) -> NoDup (all_ids sh (fupd P n new)).
Proof.
  intros Hnd Hin Hall Hle. apply nodup_cnt. intros x.
  pose proof (cnt_all_upd sh P n new x Hnd Hin) as Hc.
  pose proof (proj1 (nodup_cnt _) Hall x). specialize (Hle x). lia.
Qed.

Lemma nodup_all_upd_add sh P n pi : NoDup (names sh) -> In n (names sh) -> NoDup (all_ids sh P) ->
  ~ In (pi_id pi) (all_ids sh P) -> NoDup (all_ids sh (fupd P n (P n ++ [pi]))).
Proof.
  intros Hnd Hin Hall Hfresh. apply nodup_cnt. intros x.
  pose proof (cnt_all_upd sh P n (P n ++ [pi]) x Hnd Hin) as Hc.
  pose proof (proj1 (nodup_cnt _) Hall x).
  assert (E : cnt x (ids (P n ++ [pi])) = (cnt x (ids (P n)) + cnt x [pi_id pi])%nat).
  { unfold ids. rewrite map_app, cnt_app. reflexivity. }
  rewrite E in Hc. unfold cnt at 5 in Hc. cbn [count_occ] in Hc.
  destruct (Z.eq_dec (pi_id pi) x) as [Ex|Ex]; [|lia].
  subst x. apply cnt_zero in Hfresh. lia.
Qed.

Lemma cnt_ids_split_le x ps1 pi ps2 : (cnt x (ids (ps1 ++ ps2)) <= cnt x (ids (ps1 ++ pi :: ps2)))%nat.
Proof.
  unfold ids. rewrite !map_app, !cnt_app. cbn [map]. unfold cnt at 4. cbn [count_occ].
  fold (cnt x (map pi_id ps2)). destruct (Z.eq_dec (pi_id pi) x); lia.
Qed.

End WithDim.
