(* C01 — witnesses for the findings at the plugin layer (see findings/C01-default-quota-routing.md). *)
From Coq Require Import List ZArith Bool.
From Verif Require Import Lib.VecN C01.Dim2 C01.Model C01.Spec C01.Plugin.
Import ListNotations.
Open Scope Z_scope.

Local Existing Instance D2.

Definition ex_pp (c m : Z) (bound : bool) : ppod := mkPP (mkPod 1 (v2 c m) false bound false) 3.
Definition ex_q3 : qshape := mkQ 3 0 false true (v2 96 160) (v2 0 0).

(* sig 1 — a pod that arrived before its quota is counted twice: pod add (-> default quota), quota
   add, ANY update event before the next migrateDefaultQuotaGroupsPod run, the run *)
Definition ex_double_count : list pop :=
  [PlPodAdd (ex_pp 10 10 true); PlQuotaAdd ex_q3; PlPodUpdate (ex_pp 10 10 true) (ex_pp 10 10 true); PlMigrate].
(* sig 2 — the migration hands the object stored at add time to MigratePod *)
Definition ex_stale_migrate : list pop :=
  [PlPodAdd (ex_pp 10 10 false); PlPodUpdate (ex_pp 30 30 true) (ex_pp 10 10 false); PlQuotaAdd ex_q3; PlMigrate].
(* sig 2 (second shape) — a delete event routed to the new quota misses the pod in the default cache *)
Definition ex_lost_delete : list pop :=
  [PlPodAdd (ex_pp 10 10 true); PlQuotaAdd ex_q3; PlPodDelete (ex_pp 10 10 true); PlMigrate].

Lemma plugin_routing_refuted :
  (pwf_history (pinit (v2 1000 1000) (v2 1000 1000)) ex_double_count = true /\
   pstate_code (prun (pinit (v2 1000 1000) (v2 1000 1000)) ex_double_count) = 1 /\
   r_req (st_r (ps_core (prun (pinit (v2 1000 1000) (v2 1000 1000)) ex_double_count)) 3) = (v2 20 20)) /\
  (pwf_history (pinit (v2 1000 1000) (v2 1000 1000)) ex_stale_migrate = true /\
   pstate_code (prun (pinit (v2 1000 1000) (v2 1000 1000)) ex_stale_migrate) = 1 /\
   r_req (st_r (ps_core (prun (pinit (v2 1000 1000) (v2 1000 1000)) ex_stale_migrate)) 2) = (v2 20 20)) /\
  (pwf_history (pinit (v2 1000 1000) (v2 1000 1000)) ex_lost_delete = true /\
   pstate_code (prun (pinit (v2 1000 1000) (v2 1000 1000)) ex_lost_delete) = 1 /\
   u_used (st_u (ps_core (prun (pinit (v2 1000 1000) (v2 1000 1000)) ex_lost_delete)) 3) = (v2 10 10)).
Proof. vm_compute. repeat split; reflexivity. Qed.
