(* C01 — the invariant with one exempted quota ("Mid s ex"), and the max/min setters on it. *)
From Coq Require Import List ZArith Bool Lia.
From Verif Require Import Lib.VecN C01.Model C01.Spec C01.Proofs_Base C01.Proofs_Walk C01.Proofs_Delta
  C01.Proofs_PodList C01.Proofs_Sections C01.Proofs_Shape C01.Proofs_SetMaxMin.
Import ListNotations.
Open Scope Z_scope.

Section WithDim.
Context {D : Dim}.

Record Mid (s : state) (ex : Z) : Prop := {
  mid_shape : ShapeOk (st_sh s);
  mid_posr : PosR (st_sh s) (st_r s);
  mid_posu : PosU (st_sh s) (st_u s);
  mid_r : AllBut (st_sh s) (st_r s) ex;
  mid_u : forall q0, In q0 (st_sh s) -> q_name q0 <> ex ->
            okU (st_sh s) (st_u s) q0 /\ okUN (st_sh s) (st_u s) q0;
  mid_s : forall q0, In q0 (st_sh s) -> q_name q0 <> ex -> okS s (q_name q0);
  mid_pods : forall q0, In q0 (st_sh s) -> Forall pi_pos (st_p s (q_name q0));
  mid_ids : NoDup (all_pod_ids s);
  mid_quiet : forall q0, In q0 (st_sh s) -> forallb pi_quiet (st_p s (q_name q0)) = true
}.

Lemma inv_mid s ex : Inv s -> Mid s ex.
Proof.
  intros [Hshape Hids Hq Hquiet]. constructor; auto.
  - intros q0 Hq0. apply (Hq q0 Hq0).
  - intros q0 Hq0. apply (Hq q0 Hq0).
  - intros q0 Hq0 _. destruct (Hq q0 Hq0); auto.
  - intros q0 Hq0 _. destruct (Hq q0 Hq0); auto.
  - intros q0 Hq0 _. apply (Hq q0 Hq0).
  - intros q0 Hq0. apply (Hq q0 Hq0).
Qed.

(* the exempted name is not a quota: the full invariant *)
Lemma mid_inv s ex : Mid s ex -> ~ In ex (names (st_sh s)) -> Inv s.
Proof.
  intros [Hshape Hpr Hpu Hr Hu Hs Hpods Hids Hquiet] Hex. constructor; auto.
  intros q0 Hq0.
  assert (Hne : q_name q0 <> ex) by (intros E; apply Hex; rewrite <- E; apply in_map; exact Hq0).
  destruct (Hr q0 Hq0 Hne) as (HA & HN & HB). destruct (Hu q0 Hq0 Hne) as (HU & HUN).
  constructor; auto.
Qed.

(* the exempted quota satisfies its equations after all *)
Lemma mid_inv_at s ex qx : Mid s ex -> find (st_sh s) ex = Some qx ->
  okA (st_sh s) (st_r s) qx -> okN (st_sh s) (st_r s) qx -> okB (st_r s) qx ->
  okU (st_sh s) (st_u s) qx -> okUN (st_sh s) (st_u s) qx -> okS s ex -> Inv s.
Proof.
  intros [Hshape Hpr Hpu Hr Hu Hs Hpods Hids Hquiet] Hf HA HN HB HU HUN HS. constructor; auto.
  intros q0 Hq0. destruct (Z.eq_dec (q_name q0) ex) as [E|Hne].
  - assert (q0 = qx) by (rewrite <- E in Hf; rewrite (in_find _ _ (so_nodup _ Hshape) Hq0) in Hf; congruence).
    subst q0. rewrite <- E in HS. constructor; auto.
  - destruct (Hr q0 Hq0 Hne) as (HA' & HN' & HB'). destruct (Hu q0 Hq0 Hne) as (HU' & HUN').
    constructor; auto.
Qed.

(* sums that do not look at the shape are insensitive to a replacement of an entry *)
Lemma sumc_upd_const_name sh n q q' (g : Z -> vec) m :
  NoDup (names sh) -> find sh n = Some q -> q_name q' = q_name q -> q_parent q' = q_parent q ->
  sumc (upd_sh sh n (fun _ => q')) (fun c => g (q_name c)) m = sumc sh (fun c => g (q_name c)) m.
Proof.
  intros Hnd Hf Hn Hp. rewrite (sumc_upd_const sh n q q' Hnd Hf Hn Hp).
  destruct (q_parent q =? m); [|reflexivity]. rewrite Hn.
  generalize (sumc sh (fun c => g (q_name c)) m) (g (q_name q)). clear. intros x1 x2. vlia.
Qed.

Lemma all_ids_by_names sh P : all_ids sh P = flat_map (fun k => ids (P k)) (names sh).
Proof.
  unfold all_ids, names. induction sh as [|x t IH]; [reflexivity|]. cbn [flat_map map]. rewrite IH. reflexivity.
Qed.

Section SetOnState.
  Variables (s : state) (ex n : Z) (q q' : qshape) (rest : list Z) (r' : racc).
  Hypothesis HM : Mid s ex.
  Hypothesis Hf : find (st_sh s) n = Some q.
  Hypothesis Hchain : reaches (st_sh s) n (n :: rest).
  Hypothesis Hex : ~ In ex rest.
  Hypothesis Hname : q_name q' = q_name q.
  Hypothesis Hpar : q_parent q' = q_parent q.
  Hypothesis Hisp : q_isparent q' = q_isparent q.
  Hypothesis Hmax : vnonneg (q_max q').
  Hypothesis Hmin : vnonneg (q_min q').
  Hypothesis Hr'pos : nonneg_r r' = true.
  Hypothesis Hc' : r_creq r' = r_creq (st_r s n).
  Hypothesis Hs' : r_sreq r' = r_sreq (st_r s n).
  Hypothesis Hn' : r_np r' = r_np (st_r s n).
  Hypothesis Hsn' : r_snp r' = r_snp (st_r s n).
  Hypothesis HB' : n <> ex -> r_req r' = freq q' (r_creq r').

  Variable R0 : Z -> racc.
  Hypothesis HR0 : forall m, m <> n -> R0 m = st_r s m.
  Hypothesis HR0n : R0 n = r'.

  Let sh' := upd_sh (st_sh s) n (fun _ => q').
  Let s' := mkSt sh' (walk_req sh' R0 rest (vsub (lim q' r') (lim q (st_r s n))) vzero false) (st_u s) (st_p s).

  Lemma set_on_state :
    Mid s' ex /\ st_r s' n = r' /\
    (forall m, m <> n -> ~ In m rest -> st_r s' m = st_r s m).
  Proof.
    destruct HM as [Hshape Hpr Hpu Hr Hu Hs Hpods Hids Hquiet].
    pose proof (so_nodup _ Hshape) as Hnd.
    destruct (set_step (st_sh s) Hshape n q q' rest Hf Hchain Hname Hpar Hisp Hmax Hmin (st_r s) R0 r' ex
                HR0 HR0n Hpr Hr'pos Hr Hex Hc' Hs' Hn' Hsn') as (S1 & S2 & S3 & S4 & S5 & S6).
    pose proof (setshape_shape (st_sh s) Hshape n q q' Hf Hname Hpar Hisp Hmax Hmin) as Hshape'.
    assert (Hqn : q_name q = n) by (eapply find_name; eauto).
    assert (Hq'n : q_name q' = n) by congruence.
    assert (Hin' : forall x, In x sh' -> exists c, In c (st_sh s) /\ q_name c = q_name x).
    { intros x Hx. apply (setshape_in (st_sh s) n q') in Hx. destruct Hx as [c [Hc ->]].
      exists c. split; [exact Hc|]. destruct (q_name c =? n) eqn:E; [apply Z.eqb_eq in E; congruence | reflexivity]. }
    refine (conj _ (conj S4 S6)).
    constructor; cbn [st_sh st_r st_u st_p s'].
    - exact Hshape'.
    - exact S1.
    - intros x Hx. destruct (Hin' x Hx) as [c [Hc E]]. rewrite <- E. apply Hpu. exact Hc.
    - intros x Hx Hxe. destruct (Z.eq_dec (q_name x) n) as [E|E].
      + pose proof (setshape_in_n (st_sh s) n q' x Hx E) as ->.
        assert (Hne : n <> ex) by congruence. destruct (S3 Hne) as [HA HN].
        refine (conj HA (conj HN _)). unfold okB, sh'. rewrite Hq'n, S4. apply HB'. exact Hne.
      + apply S2; assumption.
    - intros x Hx Hxe. destruct (Hin' x Hx) as [c [Hc E]].
      assert (Hce : q_name c <> ex) by congruence.
      destruct (Hu c Hc Hce) as [HU HUN]. unfold okU, okUN in *.
      unfold usedU, unpU, sh'.
      rewrite (sumc_upd_const_name (st_sh s) n q q' (fun k => u_used (st_u s k)) (q_name x) Hnd Hf Hname Hpar).
      rewrite (sumc_upd_const_name (st_sh s) n q q' (fun k => u_np (st_u s k)) (q_name x) Hnd Hf Hname Hpar).
      rewrite <- E. auto.
    - intros x Hx Hxe. destruct (Hin' x Hx) as [c [Hc E]].
      assert (Hce : q_name c <> ex) by congruence.
      pose proof (Hs c Hc Hce) as HS. unfold okS, s', sh' in *. cbn [st_r st_u st_p]. rewrite <- E.
      destruct (Z.eq_dec (q_name c) n) as [En|En].
      + rewrite En in *. rewrite S4, Hs', Hsn'. exact HS.
      + destruct (S5 _ En) as [E1 E2]. rewrite E1, E2. exact HS.
    - intros x Hx. destruct (Hin' x Hx) as [c [Hc E]]. rewrite <- E. apply Hpods. exact Hc.
    - change (NoDup (all_ids sh' (st_p s))). rewrite all_ids_by_names. unfold sh'.
      rewrite (upd_const_names (st_sh s) n q q' Hnd Hf Hname), <- all_ids_by_names. exact Hids.
    - intros x Hx. destruct (Hin' x Hx) as [c [Hc E]]. rewrite <- E. apply Hquiet. exact Hc.
  Qed.
End SetOnState.

(* ---------- the model's setters ---------- *)

Lemma mid_chain s ex n q : Mid s ex -> find (st_sh s) n = Some q ->
  exists rest, reaches (st_sh s) n (n :: rest) /\ pathf (st_sh s) n = n :: rest /\ reaches (st_sh s) (q_parent q) rest.
Proof.
  intros HM Hf. pose proof (mid_shape _ _ HM) as Hshape.
  destruct (shape_reach_find _ _ _ Hshape Hf) as [l Hl].
  assert (Hn0 : n <> 0) by (rewrite <- (find_name _ _ _ Hf); apply (shape_nonzero _ Hshape); eapply find_in; eauto).
  destruct (reaches_inv _ _ _ Hl Hn0) as (q2 & t & Hf2 & -> & Hr). rewrite Hf in Hf2. injection Hf2 as <-.
  exists t. refine (conj Hl (conj _ Hr)). apply shape_pathf; assumption.
Qed.

Lemma do_update_max_mid s ex n q rest m :
  Mid s ex -> find (st_sh s) n = Some q -> reaches (st_sh s) n (n :: rest) -> ~ In ex rest -> vnonneg m ->
  let s' := do_update_max s n m in
  Mid s' ex /\ st_sh s' = upd_sh (st_sh s) n (fun _ => with_max q m) /\
  st_r s' n = st_r s n /\ st_u s' = st_u s /\ st_p s' = st_p s /\
  (forall k, k <> n -> ~ In k rest -> st_r s' k = st_r s k).
Proof.
  intros HM Hf Hchain Hex Hm s'.
  pose proof (mid_shape _ _ HM) as Hshape.
  assert (Hpath : pathf (st_sh s) n = n :: rest) by (apply shape_pathf; assumption).
  assert (Hqin : In q (st_sh s)) by (eapply find_in; eauto).
  assert (Hqn : q_name q = n) by (eapply find_name; eauto).
  destruct (so_vals _ Hshape q Hqin) as [_ Hqmin].
  assert (HB' : n <> ex -> r_req (st_r s n) = freq (with_max q m) (r_creq (st_r s n))).
  { intros Hne. destruct (mid_r _ _ HM q Hqin ltac:(rewrite Hqn; exact Hne)) as (_ & _ & HB).
    unfold okB in HB. rewrite Hqn in HB. exact HB. }
  assert (Hrp : nonneg_r (st_r s n) = true) by (rewrite <- Hqn; apply (mid_posr _ _ HM); exact Hqin).
  destruct (set_on_state s ex n q (with_max q m) rest (st_r s n) HM Hf Hchain Hex eq_refl eq_refl eq_refl Hm Hqmin
              Hrp eq_refl eq_refl eq_refl eq_refl HB' (st_r s) (fun _ _ => eq_refl) eq_refl) as (M1 & M2 & M3).
  assert (E : s' = mkSt (upd_sh (st_sh s) n (fun _ => with_max q m))
                (walk_req (upd_sh (st_sh s) n (fun _ => with_max q m)) (st_r s) rest
                   (vsub (lim (with_max q m) (st_r s n)) (lim q (st_r s n))) vzero false) (st_u s) (st_p s)).
  { unfold s', do_update_max. rewrite Hpath, Hf. reflexivity. }
  rewrite E. cbn [st_sh st_r st_u st_p].
  exact (conj M1 (conj eq_refl (conj M2 (conj eq_refl (conj eq_refl M3))))).
Qed.

Lemma do_update_min_mid s ex n q rest m :
  Mid s ex -> find (st_sh s) n = Some q -> reaches (st_sh s) n (n :: rest) -> ~ In ex rest -> vnonneg m ->
  let s' := do_update_min s n m in
  let r := st_r s n in
  Mid s' ex /\ st_sh s' = upd_sh (st_sh s) n (fun _ => with_min q m) /\
  st_r s' n = mkR (freq (with_min q m) (r_creq r)) (r_creq r) (r_sreq r) (r_np r) (r_snp r) /\
  st_u s' = st_u s /\ st_p s' = st_p s /\
  (forall k, k <> n -> ~ In k rest -> st_r s' k = st_r s k).
Proof.
  intros HM Hf Hchain Hex Hm s' r.
  pose proof (mid_shape _ _ HM) as Hshape.
  assert (Hpath : pathf (st_sh s) n = n :: rest) by (apply shape_pathf; assumption).
  assert (Hqin : In q (st_sh s)) by (eapply find_in; eauto).
  assert (Hqn : q_name q = n) by (eapply find_name; eauto).
  destruct (so_vals _ Hshape q Hqin) as [Hqmax _].
  set (r' := mkR (freq (with_min q m) (r_creq r)) (r_creq r) (r_sreq r) (r_np r) (r_snp r)).
  assert (Hrp : nonneg_r r = true) by (unfold r; rewrite <- Hqn; apply (mid_posr _ _ HM); exact Hqin).
  assert (Hr'p : nonneg_r r' = true).
  { apply nonneg_r_iff in Hrp. destruct Hrp as (H1 & H2 & H3 & H4 & H5). apply nonneg_r_iff. unfold r'. cbn.
    refine (conj _ (conj H2 (conj H3 (conj H4 H5)))). apply freq_nonneg; [exact Hm | exact H2]. }
  destruct (set_on_state s ex n q (with_min q m) rest r' HM Hf Hchain Hex eq_refl eq_refl eq_refl Hqmax Hm
              Hr'p eq_refl eq_refl eq_refl eq_refl (fun _ => eq_refl) (fupd (st_r s) n r')
              (fun k Hk => fupd_other _ _ _ _ Hk) (fupd_same _ _ _)) as (M1 & M2 & M3).
  assert (E : s' = mkSt (upd_sh (st_sh s) n (fun _ => with_min q m))
                (walk_req (upd_sh (st_sh s) n (fun _ => with_min q m)) (fupd (st_r s) n r') rest
                   (vsub (lim (with_min q m) r') (lim q (st_r s n))) vzero false) (st_u s) (st_p s)).
  { unfold s', do_update_min. rewrite Hpath, Hf. reflexivity. }
  rewrite E. cbn [st_sh st_r st_u st_p].
  exact (conj M1 (conj eq_refl (conj M2 (conj eq_refl (conj eq_refl M3))))).
Qed.

End WithDim.
