(* C01 — resetQuotaNoLock: clearing every aggregate of the topology and propagating each quota's
   own amounts again yields a state that satisfies all local equations, whatever the equations
   of the non-special quotas were before (only the self sums and the leaf figures are read). *)
From Coq Require Import List ZArith Bool Lia.
From Verif Require Import Lib.VecN C01.Model C01.Spec C01.Proofs_Base C01.Proofs_Walk C01.Proofs_Delta
  C01.Proofs_PodList C01.Proofs_Sections C01.Proofs_Shape.
Import ListNotations.
Open Scope Z_scope.

Section WithDim.
Context {D : Dim}.

Definition SpecOk (sh : list qshape) : Prop :=
  forall q, In q sh -> special (q_name q) = true -> q_parent q = 0.

Definition selfs (ps : list pinfo) : vec * vec * vec * vec :=
  (self_req ps, self_np ps, self_used ps, self_npused ps).

Record PreReset (s : state) : Prop := {
  pr_shape : ShapeOk (st_sh s);
  pr_spec : SpecOk (st_sh s);
  pr_ids : NoDup (all_pod_ids s);
  pr_quiet : forall q, In q (st_sh s) -> forallb pi_quiet (st_p s (q_name q)) = true;
  pr_pods : forall q, In q (st_sh s) -> Forall pi_pos (st_p s (q_name q));
  pr_posr : PosR (st_sh s) (st_r s);
  pr_posu : PosU (st_sh s) (st_u s);
  pr_s : forall q, In q (st_sh s) -> okS s (q_name q);
  pr_special : forall q, In q (st_sh s) -> special (q_name q) = true ->
      okA (st_sh s) (st_r s) q /\ okN (st_sh s) (st_r s) q /\ okB (st_r s) q /\
      okU (st_sh s) (st_u s) q /\ okUN (st_sh s) (st_u s) q;
  pr_saved : forall q, In q (st_sh s) -> special (q_name q) = false ->
      snd (saved_of s q) = selfs (st_p s (q_name q))
}.

Section Reset.
  Variable s : state.
  Hypothesis HP : PreReset s.
  Let sh := st_sh s.

  Let Hshape := pr_shape _ HP.
  Let Hnd := so_nodup _ Hshape.
  Let Hnz := shape_nonzero _ Hshape.
  Let Hvals := shape_valsok _ Hshape.

  Lemma special_no_children q c : In q sh -> In c sh -> special (q_name q) = true -> q_parent c <> q_name q.
  Proof.
    intros Hq Hc Hs E. destruct (so_par _ Hshape c Hc) as [H0|[H3 _]].
    - apply (Hnz q Hq). rewrite <- E. exact H0.
    - rewrite E in H3. unfold special in Hs. apply orb_prop in Hs. destruct Hs as [Hs|Hs]; apply Z.eqb_eq in Hs; lia.
  Qed.

  (* a special quota is on nobody's chain but its own *)
  Lemma special_not_on_chain n l m : reaches sh n l -> In m l -> m <> n -> special m = false.
  Proof.
    intros Hr Hin Hne. destruct (chain_member_has_child _ _ _ _ Hr Hin Hne) as [c [Hc Hpc]].
    destruct (special m) eqn:E; [|reflexivity]. exfalso.
    destruct (so_par _ Hshape c Hc) as [H0|[H3 _]].
    - rewrite Hpc in H0. rewrite H0 in E. vm_compute in E. discriminate E.
    - rewrite Hpc in H3. unfold special in E. apply orb_prop in E. destruct E as [E|E]; apply Z.eqb_eq in E; lia.
  Qed.

  (* loop invariant: [todo] still have zero self figures, the others carry their pods *)
  Record J (st : state) (todo : list qshape) : Prop := {
    j_sh : st_sh st = sh;
    j_p : st_p st = st_p s;
    j_posr : PosR sh (st_r st);
    j_posu : PosU sh (st_u st);
    j_eq : forall q, In q sh -> okA sh (st_r st) q /\ okN sh (st_r st) q /\ okU sh (st_u st) q /\ okUN sh (st_u st) q;
    j_special : forall q, In q sh -> special (q_name q) = true ->
        st_r st (q_name q) = st_r s (q_name q) /\ st_u st (q_name q) = st_u s (q_name q);
    j_todo : forall q, In q todo ->
        r_sreq (st_r st (q_name q)) = vzero /\ r_snp (st_r st (q_name q)) = vzero /\
        u_sused (st_u st (q_name q)) = vzero /\ u_snp (st_u st (q_name q)) = vzero;
    j_done : forall q, In q sh -> special (q_name q) = false -> ~ In q todo ->
        okB (st_r st) q /\
        (r_sreq (st_r st (q_name q)), r_snp (st_r st (q_name q)),
         u_sused (st_u st (q_name q)), u_snp (st_u st (q_name q))) = selfs (st_p s (q_name q))
  }.

  Lemma reset_step st q todo :
    J st (q :: todo) -> In q sh -> special (q_name q) = false -> NoDup (names (q :: todo)) ->
    J (readd st (saved_of s q)) todo.
  Proof.
    intros HJ Hq Hspec Hndt.
    assert (Hnot : ~ In q todo).
    { cbn [names map] in Hndt. inversion Hndt as [|? ? Hx _]; subst. intros H. apply Hx. apply in_map. exact H. }
    destruct HJ as [Jsh Jp Jpr Jpu Jeq Jsp Jtodo Jdone].
    set (n := q_name q).
    assert (Hf : find sh n = Some q) by (apply in_find; assumption).
    destruct (so_reach _ Hshape q Hq) as [l Hl]. fold n in Hl.
    pose proof (pr_saved _ HP q Hq Hspec) as Hsv.
    destruct (saved_of s q) as [n' [[[a b] c] d]] eqn:Esv.
    assert (n' = n) by (unfold saved_of in Esv; injection Esv as <-; reflexivity). subst n'.
    cbn [snd] in Hsv. unfold selfs in Hsv. injection Hsv as Ha Hb Hc Hd.
    destruct (self_sums_nonneg _ (pr_pods _ HP q Hq)) as (Na & Nb & Nc & Nd).
    rewrite <- Ha in Na. rewrite <- Hb in Nb. rewrite <- Hc in Nc. rewrite <- Hd in Nd.
    destruct (Jtodo q (or_introl eq_refl)) as (Z1 & Z2 & Z3 & Z4). fold n in Z1, Z2, Z3, Z4.
    unfold readd, delta_used, delta_req. cbn [st_sh st_r st_u set_R set_U]. rewrite Jsh.
    rewrite (pathf_reaches sh n l Hnd Hnz Hl).
    (* request walk *)
    pose proof (Jpr q Hq) as Hprn. fold n in Hprn. apply nonneg_r_iff in Hprn. destruct Hprn as (_ & Pc & _ & Pn & _).
    destruct (walk_req_ind sh Hnd Hnz Hvals n l q (st_r st) a b true Hl Hf Jpr)
      as (W1 & W2 & W3 & W4 & W5 & W6 & W7 & W8 & W9).
    { intros q0 Hq0 _. apply (Jeq q0 Hq0). }
    { apply vnonneg_add; assumption. }
    { apply vnonneg_add; assumption. }
    { intros _. rewrite Z1, Z2, !vadd_0_l. auto. }
    set (R' := walk_req sh (st_r st) l a b true) in *.
    (* used walk *)
    pose proof (Jpu q Hq) as Hpun. fold n in Hpun. apply nonneg_u_iff in Hpun. destruct Hpun as (Pu & _ & Pun & _).
    destruct (walk_used_ind sh Hnd Hnz n l q (st_u st) c d true Hl Hf Jpu)
      as (V1 & V2 & V3 & V4 & V5 & V6 & V7 & V8).
    { intros q0 Hq0 _. destruct (Jeq q0 Hq0) as (_ & _ & H3 & H4). auto. }
    { apply vnonneg_add; assumption. }
    { apply vnonneg_add; assumption. }
    { intros _. rewrite Z3, Z4, !vadd_0_l. auto. }
    set (U' := walk_used (st_u st) l c d true) in *.
    constructor; unfold set_U, set_R; cbn [st_sh st_r st_u st_p]; auto.
    - (* the equations *)
      intros q0 Hq0. destruct (Jeq q0 Hq0) as (E1 & E2 & E3 & E4).
      destruct (Z.eq_dec (q_name q0) n) as [E|E].
      + assert (q0 = q).
        { assert (Hf0 : find sh (q_name q0) = Some q0) by (apply in_find; assumption). rewrite E, Hf in Hf0. injection Hf0; auto. }
        subst q0.
        unfold okA, okN, okU, okUN in *. fold n in E1, E2, E3, E4 |- *.
        rewrite W5, W6, W7, V4, V5, V6. cbn [r_creq r_sreq r_np r_snp u_used u_sused u_np u_snp].
        rewrite E1, E2, E3, E4.
        refine (conj _ (conj _ (conj _ _))).
        * generalize (r_sreq (st_r st n)) (sumc sh (limR (st_r st)) n) a. clear. intros x1 x2 x3. vlia.
        * generalize (r_snp (st_r st n)) (sumc sh (npR (st_r st)) n) b. clear. intros x1 x2 x3. vlia.
        * generalize (u_sused (st_u st n)) (sumc sh (usedU (st_u st)) n) c. clear. intros x1 x2 x3. vlia.
        * generalize (u_snp (st_u st n)) (sumc sh (unpU (st_u st)) n) d. clear. intros x1 x2 x3. vlia.
      + auto.
    - (* specials are untouched *)
      intros q0 Hq0 Hs0. destruct (Jsp q0 Hq0 Hs0) as [E1 E2].
      assert (Hnotin : ~ In (q_name q0) l).
      { intros Hin. destruct (Z.eq_dec (q_name q0) n) as [E|E]; [unfold n in E; congruence|].
        pose proof (special_not_on_chain n l (q_name q0) Hl Hin E). congruence. }
      rewrite (W9 _ Hnotin), (V8 _ Hnotin). auto.
    - (* the rest of the list *)
      intros q0 Hq0. destruct (Jtodo q0 (or_intror Hq0)) as (T1 & T2 & T3 & T4).
      assert (Hne : q_name q0 <> n).
      { intros E. cbn [names map] in Hndt. inversion Hndt as [|? ? Hx _]; subst. apply Hx. fold n. rewrite <- E. apply in_map. exact Hq0. }
      destruct (W8 _ Hne) as [S1 S2]. destruct (V7 _ Hne) as [S3 S4].
      rewrite S1, S2, S3, S4. auto.
    - (* done quotas *)
      intros q0 Hq0 Hs0 Hnot0.
      destruct (Z.eq_dec (q_name q0) n) as [E|E].
      + assert (q0 = q).
        { assert (Hf0 : find sh (q_name q0) = Some q0) by (apply in_find; assumption). rewrite E, Hf in Hf0. injection Hf0; auto. }
        subst q0.
        split; [apply W2; [exact Hq | right; destruct (reaches_head _ _ _ Hl (Hnz q Hq)) as [t ->]; left; reflexivity]|].
        fold n. rewrite W5, V4. cbn [r_sreq r_snp u_sused u_snp]. rewrite Z1, Z2, Z3, Z4, !vadd_0_l.
        unfold selfs. congruence.
      + assert (Hnot1 : ~ In q0 (q :: todo)) by (intros [H|H]; [subst q0; apply E; reflexivity | contradiction]).
        destruct (Jdone q0 Hq0 Hs0 Hnot1) as [HB Hsf].
        split; [apply W2; [exact Hq0 | left; exact HB]|].
        destruct (W8 _ E) as [S1 S2]. destruct (V7 _ E) as [S3 S4]. rewrite S1, S2, S3, S4. exact Hsf.
  Qed.

  Lemma reset_loop todo : forall st,
    J st todo -> (forall x, In x todo -> In x sh /\ special (q_name x) = false) -> NoDup (names todo) ->
    J (fold_left readd (map (saved_of s) todo) st) [].
  Proof.
    induction todo as [|q todo IH]; intros st HJ Hall Hndt; [exact HJ|].
    cbn [map fold_left]. apply IH.
    - destruct (Hall q (or_introl eq_refl)) as [Hq Hs]. apply reset_step; assumption.
    - intros x Hx. apply Hall. right. exact Hx.
    - cbn [names map] in Hndt. inversion Hndt; assumption.
  Qed.

  Let topo := filter (fun q => negb (special (q_name q))) sh.
  Let s0 := mkSt sh (fun n => if special n then st_r s n else r0)
                 (fun n => if special n then st_u s n else u0) (st_p s).

  Lemma child_not_special q c : In q sh -> In c sh -> q_parent c = q_name q -> special (q_name c) = false.
  Proof.
    intros Hq Hc Hp. destruct (special (q_name c)) eqn:E; [|reflexivity].
    exfalso. apply (Hnz q Hq). rewrite <- Hp. apply (pr_spec _ HP c Hc E).
  Qed.

  Lemma reset_init : J s0 topo.
  Proof.
    assert (HR0s : forall k, special k = true -> st_r s0 k = st_r s k) by (intros k Hk; cbn; rewrite Hk; reflexivity).
    assert (HR0n : forall k, special k = false -> st_r s0 k = r0) by (intros k Hk; cbn; rewrite Hk; reflexivity).
    assert (HU0s : forall k, special k = true -> st_u s0 k = st_u s k) by (intros k Hk; cbn; rewrite Hk; reflexivity).
    assert (HU0n : forall k, special k = false -> st_u s0 k = u0) by (intros k Hk; cbn; rewrite Hk; reflexivity).
    constructor; try reflexivity.
    - intros q Hq. destruct (special (q_name q)) eqn:E.
      + rewrite (HR0s _ E). apply (pr_posr _ HP). exact Hq.
      + rewrite (HR0n _ E). apply nonneg_r_iff. cbn [r0 r_req r_creq r_sreq r_np r_snp]. repeat split; apply vnonneg_zero.
    - intros q Hq. destruct (special (q_name q)) eqn:E.
      + rewrite (HU0s _ E). apply (pr_posu _ HP). exact Hq.
      + rewrite (HU0n _ E). apply nonneg_u_iff. cbn [u0 u_used u_sused u_np u_snp]. repeat split; apply vnonneg_zero.
    - intros q Hq. destruct (special (q_name q)) eqn:E.
      + destruct (pr_special _ HP q Hq E) as (HA & HN & _ & HU & HUN).
        assert (Hnc : forall c, In c sh -> q_parent c <> q_name q) by (intros c Hc; apply special_no_children; assumption).
        unfold okA, okN, okU, okUN in *. fold sh in HA, HN, HU, HUN.
        rewrite (sumc_no_children _ _ _ Hnc) in HA. rewrite (sumc_no_children _ _ _ Hnc) in HN.
        rewrite (sumc_no_children _ _ _ Hnc) in HU. rewrite (sumc_no_children _ _ _ Hnc) in HUN.
        rewrite !(sumc_no_children _ _ _ Hnc), (HR0s _ E), (HU0s _ E). auto.
      + assert (Hz : forall g : qshape -> vec, (forall c, In c sh -> q_parent c = q_name q -> g c = vzero) ->
                  sumc sh g (q_name q) = vzero).
        { intros g Hg. unfold sumc. apply vsum_map_zero. intros c Hc. apply in_children in Hc. apply Hg; tauto. }
        unfold okA, okN, okU, okUN. rewrite (HR0n _ E), (HU0n _ E). cbn [r_creq r_sreq r_np r_snp u_used u_sused u_np u_snp r0 u0].
        rewrite !Hz; rewrite ?vadd_0_l; auto.
        * intros c Hc Hp. unfold unpU. rewrite (HU0n _ (child_not_special q c Hq Hc Hp)). reflexivity.
        * intros c Hc Hp. unfold usedU. rewrite (HU0n _ (child_not_special q c Hq Hc Hp)). reflexivity.
        * intros c Hc Hp. unfold npR. rewrite (HR0n _ (child_not_special q c Hq Hc Hp)). reflexivity.
        * intros c Hc Hp. unfold limR. rewrite (HR0n _ (child_not_special q c Hq Hc Hp)).
          unfold lim. cbn [r_req r0]. destruct (Hvals c Hc) as [Hm _]. revert Hm. generalize (q_max c). clear. intros x1 H. vlia.
    - intros q Hq E. rewrite (HR0s _ E), (HU0s _ E). auto.
    - intros q Hq. unfold topo in Hq. apply filter_In in Hq. destruct Hq as [_ E]. apply negb_true_iff in E.
      rewrite (HR0n _ E), (HU0n _ E). auto.
    - intros q Hq E Hnot. exfalso. apply Hnot. unfold topo. apply filter_In. split; [exact Hq | rewrite E; reflexivity].
  Qed.

  Lemma names_filter_nodup (f : qshape -> bool) l : NoDup (names l) -> NoDup (names (filter f l)).
  Proof.
    induction l as [|x t IH]; intros H; [constructor|]. cbn [names map] in H. inversion H as [|? ? Hx Ht]; subst.
    cbn [filter]. destruct (f x); [|apply IH; exact Ht]. cbn [names map]. constructor; [|apply IH; exact Ht].
    intros Hin. apply Hx. apply in_map_iff in Hin. destruct Hin as [y [E Hy]]. apply filter_In in Hy.
    rewrite <- E. apply in_map. tauto.
  Qed.

  Theorem reset_inv : Inv (reset s) /\ st_sh (reset s) = st_sh s.
  Proof.
    assert (HJ : J (reset s) []).
    { unfold reset. fold sh topo s0. apply reset_loop; [apply reset_init | |].
      - intros x Hx. unfold topo in Hx. apply filter_In in Hx. destruct Hx as [Hx E]. apply negb_true_iff in E. auto.
      - apply names_filter_nodup. exact Hnd. }
    destruct HJ as [Jsh Jp Jpr Jpu Jeq Jsp _ Jdone].
    split; [|exact Jsh].
    constructor.
    - rewrite Jsh. exact Hshape.
    - rewrite all_pod_ids_eq, Jsh, Jp. apply (pr_ids _ HP).
    - intros q Hq. rewrite Jsh in Hq. destruct (Jeq q Hq) as (HA & HN & HU & HUN).
      assert (HBS : okB (st_r (reset s)) q /\ okS (reset s) (q_name q)).
      { destruct (special (q_name q)) eqn:E.
        - destruct (Jsp q Hq E) as [E1 E2]. destruct (pr_special _ HP q Hq E) as (_ & _ & HB & _ & _).
          pose proof (pr_s _ HP q Hq) as HS. unfold okB, okS in *. rewrite E1, E2, Jp. auto.
        - destruct (Jdone q Hq E (fun H => H)) as [HB Hsf]. split; [exact HB|].
          unfold selfs in Hsf. injection Hsf as S1 S2 S3 S4. unfold okS. rewrite Jp. auto. }
      destruct HBS as [HB HS].
      constructor; rewrite ?Jsh, ?Jp; auto.
      apply (pr_pods _ HP). exact Hq.
    - intros q Hq. rewrite Jsh in Hq. rewrite Jp. apply (pr_quiet _ HP). exact Hq.
  Qed.
End Reset.

End WithDim.
