(* C01 — exported theorems only: each is closed by [exact] and followed by Print Assumptions. *)
From Coq Require Import List ZArith Bool.
From Verif Require Import Lib.VecN Lib.Interleave C01.Dim2 C01.Model C01.Spec C01.Proofs_Base C01.Proofs_Unique C01.Proofs_Reset C01.Proofs_Main C01.Proofs_Conc C01.Plugin C01.Proofs_Findings C01.Codec C01.Proofs_Ghost C01.Proofs_Spec C01.Root C01.Proofs_Root.
Import ListNotations.
Open Scope Z_scope.

(* Main theorem: after ANY finite history that obeys the informer discipline, and after every
   prefix of it, every figure GetQuotaSummaries reports equals its from-scratch recomputation from
   the surviving objects (decision procedure of Spec.v returns 0). *)
Theorem c01_accounting_exact : forall (D : Dim) sm dm h,
  wf_init sm dm = true -> wf_history (init sm dm) h = true ->
  state_code (run (init sm dm) h) = 0 /\
  forall s', In s' (trace (init sm dm) h) -> state_code s' = 0.
Proof. exact (@accounting_exact). Qed.
Print Assumptions c01_accounting_exact.

(* the decision procedure decides the Prop *)
Theorem c01_decision_sound : forall (D : Dim) s, state_code s = 0 <-> state_ok s.
Proof. exact (@state_code_ok). Qed.
Print Assumptions c01_decision_sound.

(* one operation preserves the invariant (tree shape, local equations, no clamp needed) *)
Theorem c01_step_invariant : forall (D : Dim) s o, Inv2 s -> wf_op s o = true -> Inv2 (step s o).
Proof. exact (@step_inv). Qed.
Print Assumptions c01_step_invariant.

(* on a well-formed tree the local equations have one solution: the recomputation *)
Theorem c01_local_eqs_unique : forall (D : Dim) s, Inv s -> state_ok s.
Proof. exact (@inv_state_ok). Qed.
Print Assumptions c01_local_eqs_unique.

Theorem c01_nonneg : forall (D : Dim) sm dm h,
  wf_init sm dm = true -> wf_history (init sm dm) h = true ->
  forall q, In q (st_sh (run (init sm dm) h)) ->
    nonneg_r (st_r (run (init sm dm) h) (q_name q)) = true /\ nonneg_u (st_u (run (init sm dm) h) (q_name q)) = true.
Proof. exact (@figures_nonneg). Qed.
Print Assumptions c01_nonneg.

Theorem c01_no_double_count : forall (D : Dim) sm dm h,
  wf_init sm dm = true -> wf_history (init sm dm) h = true -> NoDup (all_pod_ids (run (init sm dm) h)).
Proof. exact (@no_double_count). Qed.
Print Assumptions c01_no_double_count.

(* resetQuotaNoLock (the code's own full rebuild) reproduces the incrementally kept figures *)
Theorem c01_rebuild_agrees : forall (D : Dim) s, Inv2 s -> forall q, In q (st_sh s) ->
  st_r (reset s) (q_name q) = st_r s (q_name q) /\ st_u (reset s) (q_name q) = st_u s (q_name q).
Proof. exact (@rebuild_agrees). Qed.
Print Assumptions c01_rebuild_agrees.

(* two managers holding the same objects report the same figures, however they got there *)
Theorem c01_figures_determined_by_objects : forall (D : Dim) s1 s2,
  state_ok s1 -> state_ok s2 -> st_sh s1 = st_sh s2 -> (forall k, st_p s1 k = st_p s2 k) ->
  forall q, In q (st_sh s1) ->
    st_r s1 (q_name q) = st_r s2 (q_name q) /\ st_u s1 (q_name q) = st_u s2 (q_name q).
Proof. exact (@figures_determined). Qed.
Print Assumptions c01_figures_determined_by_objects.

(* the "counted request" of every cached pod (the ghost the invariant sums) is the request of the
   object the history delivered last for that pod: this is how Codec.mk_pinfo reconstructs it when
   the IMPLEMENTATION's observable is judged, so what is proved is what is compared *)
Theorem c01_ghost_is_last_delivered : forall (D : Dim) sm dm h,
  wf_init sm dm = true -> wf_history (init sm dm) h = true ->
  ghost_matches h (run (init sm dm) h) = true.
Proof. exact (@ghost_matches_holds). Qed.
Print Assumptions c01_ghost_is_last_delivered.

(* the quota attributes the model reports (parent, flags, max, min) are those of the ElasticQuota
   objects the history delivered last — for EVERY history; prop_case compares the implementation's
   reported attributes with that history-derived list (clause 14) *)
Theorem c01_shapes_follow_history : forall (D : Dim) h s n,
  find (st_sh (run s h)) n = find (spec_shapes (st_sh s) h) n.
Proof. exact (@shapes_follow_history). Qed.
Print Assumptions c01_shapes_follow_history.

Theorem c01_shapes_check_holds : forall (D : Dim) sm dm h,
  wf_init sm dm = true -> wf_history (init sm dm) h = true ->
  shapes_eqb (st_sh (run (init sm dm) h)) (spec_shapes (st_sh (init sm dm)) h) = true.
Proof. exact (@shapes_eqb_holds). Qed.
Print Assumptions c01_shapes_check_holds.

(* ---------- the root entry (koordinator-root-quota) ---------- *)

(* the root entry's Request / NonPreemptibleRequest / Used / NonPreemptibleUsed equal the from-scratch
   sums over the quotas directly under it (max-limited, min-raised requests; plain sums of the pods
   of the subtrees) after every operation of every well-formed history along which the tree is never
   rebuilt while system/default ask for more than their max (benign_history, boolean) *)
Theorem c01_root_exact : forall (D : Dim) sm dm h,
  wf_init sm dm = true -> wf_history (init sm dm) h = true -> benign_history (init sm dm) h = true ->
  root_code (x_s (xrun (xinit sm dm) h)) (x_root (xrun (xinit sm dm) h)) = 0 /\
  forall x', In x' (xtrace (xinit sm dm) h) -> root_code (x_s x') (x_root x') = 0.
Proof. exact (@root_exact). Qed.
Print Assumptions c01_root_exact.

Theorem c01_root_decision_sound : forall (D : Dim) s ro, root_code s ro = 0 <-> ro = rc_root s.
Proof. exact (@root_code_ok). Qed.
Print Assumptions c01_root_decision_sound.

(* the root layer never feeds back into the tree: all theorems about [run] speak about [xrun] *)
Theorem c01_root_layer_projects : forall (D : Dim) h x, x_s (xrun x h) = run (x_s x) h.
Proof. exact (@root_layer_projects). Qed.
Print Assumptions c01_root_layer_projects.

Local Existing Instance D2.

(* without the hypothesis: ResetQuota while the default quota is max-limited leaves a phantom request
   in the root entry for ever (findings/C01-root-reset.md) *)
Theorem c01_root_reset_refuted :
  wf_init (v2 1000 1000) (v2 20 20) = true /\ wf_history (init (v2 1000 1000) (v2 20 20)) ex_root_reset = true /\
  benign_history (init (v2 1000 1000) (v2 20 20)) ex_root_reset = false /\
  (let x := xrun (xinit (v2 1000 1000) (v2 20 20)) ex_root_reset in
   state_code (x_s x) = 0 /\ root_code (x_s x) (x_root x) = 15 /\
   ro_req (x_root x) = (v2 10 10) /\ ro_req (rc_root (x_s x)) = (v2 0 0)) /\
  (let x := xrun (xinit (v2 1000 1000) (v2 20 20)) (firstn 2 ex_root_reset) in
   ro_req (x_root x) = (v2 30 30) /\ ro_req (rc_root (x_s x)) = (v2 20 20)).
Proof. exact root_reset_refuted. Qed.
Print Assumptions c01_root_reset_refuted.

(* ---------- concurrency ---------- *)

(* the atomic sections of a pod handler, run one after the other, are the handler *)
Theorem c01_sections_refine : forall (D : Dim) s o,
  match o with
  | OpPodAdd _ _ | OpPodUpdate _ _ _ _ | OpPodDelete _ _ => exec act s (sections s o) = step s o
  | _ => True
  end.
Proof. exact (@sections_refine). Qed.
Print Assumptions c01_sections_refine.

(* handlers for pairwise distinct pods that run concurrently (they only hold the read side of
   hierarchyUpdateLock): EVERY interleaving of their atomic sections, from a consistent state, ends
   in a consistent state whose figures equal the from-scratch recomputation *)
Theorem c01_any_interleaving : forall (D : Dim) s0 ops l,
  Inv2 s0 ->
  (forall o, In o ops -> rl_op o /\ wf_op s0 o = true) ->
  NoDup (map op_pod ops) ->
  interleaving (map (sections s0) ops) l ->
  Inv2 (exec act s0 l) /\ state_code (exec act s0 l) = 0.
Proof. exact (@any_interleaving). Qed.
Print Assumptions c01_any_interleaving.

(* ---------- non-vacuity: a history that obeys the discipline and uses every operation ---------- *)

Definition ex_pod (id c m : Z) (np bound : bool) : pod := mkPod id (v2 c m) np bound false.
Definition ex_history : list op :=
  [ OpQuotaUpdate (mkQ 3 0 true true (v2 30 30) (v2 5 5));
    OpQuotaUpdate (mkQ 4 3 false false (v2 10 10) (v2 4 4));
    OpQuotaUpdate (mkQ 5 3 false true (v2 10 10) (v2 0 0));
    OpQuotaUpdate (mkQ 6 0 true true (v2 50 50) (v2 0 0));
    OpPodAdd 4 (ex_pod 1 7 20 false false);
    OpPodAdd 5 (ex_pod 2 3 3 true true);
    OpReserve 4 (ex_pod 1 7 20 false false);
    OpPodUpdate 4 4 (ex_pod 1 9 2 true true) (ex_pod 1 7 20 false false);
    OpUnreserve 4 (ex_pod 1 9 2 true true);
    OpPodAdd 2 (ex_pod 3 1 1 false true);
    OpMigrate (ex_pod 3 1 1 false true) 2 5;
    OpQuotaUpdate (mkQ 4 6 false false (v2 8 8) (v2 4 4));      (* re-parent *)
    OpQuotaUpdate (mkQ 5 3 false false (v2 10 10) (v2 6 6));     (* lend flag: full rebuild *)
    OpQuotaUpdate (mkQ 3 6 true true (v2 30 30) (v2 5 5));       (* re-parent a subtree *)
    OpPodUpdate 5 4 (ex_pod 1 9 2 true true) (ex_pod 1 9 2 true true);   (* pod changes its quota *)
    OpNode; OpReset;
    OpPodDelete 5 (ex_pod 2 3 3 true true);
    OpQuotaDelete 4 ].

Example c01_wf_nonvacuous :
  wf_init (v2 1000 1000) (v2 1000 1000) = true /\ wf_history (init (v2 1000 1000) (v2 1000 1000)) ex_history = true.
Proof. vm_compute. split; reflexivity. Qed.

(* ... and along which the figures are not trivially zero *)
Example c01_example_figures :
  let s := run (init (v2 1000 1000) (v2 1000 1000)) (firstn 15 ex_history) in
  (r_req (st_r s 6), r_creq (st_r s 3), u_used (st_u s 6)) = ((v2 14 10), (v2 10 6), (v2 13 6)).
Proof. vm_compute. reflexivity. Qed.

(* non-vacuity of the hypothesis: the example history (which rebuilds the tree twice) is benign *)
Example c01_root_benign_nonvacuous :
  benign_history (init (v2 1000 1000) (v2 1000 1000)) ex_history = true /\
  ro_req (x_root (xrun (xinit (v2 1000 1000) (v2 1000 1000)) (firstn 15 ex_history))) = (v2 14 10).
Proof. vm_compute. split; reflexivity. Qed.

(* a genuine interleaving of three concurrent handlers (add, update with quota change, delete) *)
Definition ex_s0 : state := run (init (v2 1000 1000) (v2 1000 1000)) (firstn 11 ex_history).
Definition ex_conc_ops : list op :=
  [ OpPodAdd 5 (ex_pod 7 4 4 false true);
    OpPodUpdate 5 4 (ex_pod 1 9 2 true true) (ex_pod 1 9 2 true true);
    OpPodDelete 5 (ex_pod 2 3 3 true true) ].

Example c01_conc_nonvacuous :
  forallb (wf_op ex_s0) ex_conc_ops = true /\ map op_pod ex_conc_ops = [7; 1; 2] /\
  map (@length action) (map (sections ex_s0) ex_conc_ops) = [4; 6; 3]%nat.
Proof. vm_compute. repeat split; reflexivity. Qed.

(* ---------- findings: the plugin layer breaks the discipline the core relies on ---------- *)

(* three histories that obey the discipline at the plugin's interface and after which the reported
   figures differ from the recomputation (double count / phantom usage of a pod that arrived before
   its quota): see findings/C01-default-quota-routing.md *)
Theorem c01_plugin_routing_refuted :
  (pwf_history (pinit (v2 1000 1000) (v2 1000 1000)) ex_double_count = true /\
   pstate_code (prun (pinit (v2 1000 1000) (v2 1000 1000)) ex_double_count) = 1 /\
   r_req (st_r (ps_core (prun (pinit (v2 1000 1000) (v2 1000 1000)) ex_double_count)) 3) = (v2 20 20)) /\
  (pwf_history (pinit (v2 1000 1000) (v2 1000 1000)) ex_stale_migrate = true /\
   pstate_code (prun (pinit (v2 1000 1000) (v2 1000 1000)) ex_stale_migrate) = 1 /\
   r_req (st_r (ps_core (prun (pinit (v2 1000 1000) (v2 1000 1000)) ex_stale_migrate)) 2) = (v2 20 20)) /\
  (pwf_history (pinit (v2 1000 1000) (v2 1000 1000)) ex_lost_delete = true /\
   pstate_code (prun (pinit (v2 1000 1000) (v2 1000 1000)) ex_lost_delete) = 1 /\
   u_used (st_u (ps_core (prun (pinit (v2 1000 1000) (v2 1000 1000)) ex_lost_delete)) 3) = (v2 10 10)).
Proof. exact plugin_routing_refuted. Qed.
Print Assumptions c01_plugin_routing_refuted.
