(* C01 — exported theorems only. *)
From Coq Require Import List ZArith Bool.
From Verif Require Import Lib.Vec2 C01.Model C01.Spec C01.Proofs.
Open Scope Z_scope.

Theorem c01_init_exact : forall sm dm, state_code (init sm dm) = 0.
Proof. exact init_code. Qed.
Print Assumptions c01_init_exact.
