(* C01 — on a well-formed tree the local equations have exactly one solution: the recursive
   from-scratch recomputation of Spec.v. Also: the decision procedure decides the Prop. *)
From Coq Require Import List ZArith Bool Lia.
From Verif Require Import Lib.VecN C01.Model C01.Spec C01.Proofs_Base.
Import ListNotations.
Open Scope Z_scope.

Section WithDim.
Context {D : Dim}.

Section Unique.
  Variable s : state.
  Let sh := st_sh s.
  Hypothesis Hshape : ShapeOk sh.

  Lemma child_chain q l c : In q sh -> reaches sh (q_name q) l -> In c (children sh (q_name q)) ->
    In c sh /\ reaches sh (q_name c) (q_name c :: l).
  Proof.
    intros Hq Hr Hc. apply in_children in Hc. destruct Hc as [Hc Hp]. split; [exact Hc|].
    econstructor; [eapply shape_nonzero; eauto | apply in_find; [apply Hshape | exact Hc] | rewrite Hp; exact Hr].
  Qed.

  Lemma rc_creq_unique :
    (forall q, In q sh -> okA sh (st_r s) q /\ okB (st_r s) q /\
                          r_sreq (st_r s (q_name q)) = self_req (st_p s (q_name q))) ->
    forall fuel q l, In q sh -> reaches sh (q_name q) l -> (length sh < fuel + length l)%nat ->
    rc_creq fuel s q = r_creq (st_r s (q_name q)).
  Proof.
    intros Hloc. induction fuel as [|f IH]; intros q l Hq Hr Hfuel.
    - pose proof (reaches_length _ _ _ (so_nodup _ Hshape) Hr). lia.
    - cbn [rc_creq]. fold sh.
      destruct (Hloc q Hq) as (HA & _ & HS). unfold okA in HA. rewrite HA, HS. f_equal.
      unfold sumc. apply vsum_map_ext. intros c Hc.
      destruct (child_chain q l c Hq Hr Hc) as [Hcin Hcr].
      rewrite (IH c _ Hcin Hcr) by (cbn [length]; lia).
      destruct (Hloc c Hcin) as (_ & HB & _). unfold okB in HB. rewrite <- HB. reflexivity.
  Qed.

  Lemma rc_sum_unique (g : list pinfo -> vec) (val : Z -> vec) :
    (forall q, In q sh -> val (q_name q) =
       vadd (g (st_p s (q_name q))) (sumc sh (fun c => val (q_name c)) (q_name q))) ->
    forall fuel q l, In q sh -> reaches sh (q_name q) l -> (length sh < fuel + length l)%nat ->
    rc_sum g fuel s q = val (q_name q).
  Proof.
    intros Hloc. induction fuel as [|f IH]; intros q l Hq Hr Hfuel.
    - pose proof (reaches_length _ _ _ (so_nodup _ Hshape) Hr). lia.
    - cbn [rc_sum]. fold sh. rewrite (Hloc q Hq). f_equal.
      unfold sumc. apply vsum_map_ext. intros c Hc.
      destruct (child_chain q l c Hq Hr Hc) as [Hcin Hcr].
      apply (IH c _ Hcin Hcr). cbn [length]. lia.
  Qed.
End Unique.

Theorem inv_state_ok s : Inv s -> state_ok s.
Proof.
  intros HI. destruct HI as [Hshape Hids Hq Hquiet].
  split; [exact Hids|]. intros q Hqin.
  destruct (so_reach _ Hshape q Hqin) as [l Hr].
  assert (Hfuel : (length (st_sh s) < fuel_of s + length l)%nat) by (unfold fuel_of; lia).
  destruct (Hq q Hqin) as [HA HN HB HU HUN HS Hpr Hpu Hpods].
  destruct HS as (HS1 & HS2 & HS3 & HS4).
  unfold quota_ok. cbn zeta.
  assert (Hcreq : r_creq (st_r s (q_name q)) = rc_creq (fuel_of s) s q).
  { symmetry. eapply rc_creq_unique; eauto.
    intros q' Hq'. destruct (Hq q' Hq') as [HA' _ HB' _ _ HS' _ _ _]. destruct HS' as (? & _). auto. }
  refine (conj HS1 (conj HS2 (conj HS3 (conj HS4 (conj Hcreq (conj _ (conj _ (conj _ (conj _ (conj _ _)))))))))).
  - unfold rc_req. rewrite <- Hcreq. exact HB.
  - symmetry. apply (rc_sum_unique s Hshape self_np (fun n => r_np (st_r s n))) with (l := l); auto.
    intros q' Hq'. destruct (Hq q' Hq') as [_ HN' _ _ _ HS' _ _ _]. destruct HS' as (_ & HS2' & _).
    unfold okN in HN'. rewrite HN', HS2'. reflexivity.
  - symmetry. apply (rc_sum_unique s Hshape self_used (fun n => u_used (st_u s n))) with (l := l); auto.
    intros q' Hq'. destruct (Hq q' Hq') as [_ _ _ HU' _ HS' _ _ _]. destruct HS' as (_ & _ & HS3' & _).
    unfold okU in HU'. rewrite HU', HS3'. reflexivity.
  - symmetry. apply (rc_sum_unique s Hshape self_npused (fun n => u_np (st_u s n))) with (l := l); auto.
    intros q' Hq'. destruct (Hq q' Hq') as [_ _ _ _ HUN' HS' _ _ _]. destruct HS' as (_ & _ & _ & HS4').
    unfold okUN in HUN'. rewrite HUN', HS4'. reflexivity.
  - rewrite Hpr, Hpu. reflexivity.
  - apply Hquiet. exact Hqin.
Qed.

(* ---------- the decision procedure decides the Prop ---------- *)

Lemma existsb_eqb_in x l : existsb (Z.eqb x) l = true <-> In x l.
Proof.
  rewrite existsb_exists. split.
  - intros [y [Hy E]]. apply Z.eqb_eq in E. subst. exact Hy.
  - intros H. exists x. split; [exact H | apply Z.eqb_refl].
Qed.

Lemma nodupb_iff l : nodupb l = true <-> NoDup l.
Proof.
  induction l as [|x t IH]; cbn [nodupb]; [split; [constructor | reflexivity]|].
  rewrite andb_true_iff, negb_true_iff, IH. split.
  - intros [Hx Ht]. constructor; [|exact Ht]. intros Hin. apply existsb_eqb_in in Hin. congruence.
  - intros H. inversion H as [|? ? Hx Ht]; subst. split; [|exact Ht].
    destruct (existsb (Z.eqb x) t) eqn:E; [|reflexivity]. apply existsb_eqb_in in E. contradiction.
Qed.

Lemma first_code_zero l : first_code l = 0 <-> Forall (fun c => c = 0) l.
Proof.
  induction l as [|c t IH]; cbn [first_code]; [split; [constructor | reflexivity]|].
  destruct (c =? 0) eqn:E.
  - apply Z.eqb_eq in E. rewrite IH. split; [intros H; constructor; assumption | intros H; inversion H; assumption].
  - apply Z.eqb_neq in E. split; [intros H; congruence | intros H; inversion H; congruence].
Qed.

Lemma quota_code_ok s q : quota_code s q = 0 <-> quota_ok s q.
Proof.
  unfold quota_code, quota_ok. cbn zeta.
  repeat match goal with
         | |- context [negb (veqb ?a ?b)] =>
             let E := fresh "E" in destruct (veqb a b) eqn:E; cbn [negb];
             [apply veqb_eq in E |
              split; [discriminate | intros H; exfalso;
                      assert (X : veqb a b = true) by (apply veqb_eq; tauto); congruence]]
         end.
  destruct (nonneg_r (st_r s (q_name q)) && nonneg_u (st_u s (q_name q))) eqn:EN1; cbn [negb];
    [|split; [discriminate | intros H; exfalso; decompose [and] H; congruence]].
  destruct (forallb pi_quiet (st_p s (q_name q))) eqn:EN2; cbn [negb];
    [|split; [discriminate | intros H; exfalso; decompose [and] H; congruence]].
  split; [intros _; tauto | reflexivity].
Qed.

Theorem state_code_ok s : state_code s = 0 <-> state_ok s.
Proof.
  unfold state_code, state_ok.
  destruct (nodupb (all_pod_ids s)) eqn:E; cbn [negb].
  - apply nodupb_iff in E. rewrite first_code_zero, Forall_map, Forall_forall.
    split; [intros H; split; [exact E|]; intros q Hq; apply quota_code_ok, H, Hq
           | intros [_ H] q Hq; apply quota_code_ok, H, Hq].
  - split; [discriminate|]. intros [H _]. apply nodupb_iff in H. congruence.
Qed.

End WithDim.
