(* C01 — wire format shared by the extraction entry points (Extract*.v).

   The first integer of every input is D, the number of resource dimensions of the case (the
   harness names them cpu, memory, then extended resources); everything below is for that D.

   input :  D  sysMax(D) defMax(D)  k  then k records of L = 2D+11 integers
            tag a1 .. a(L-1)   (pod = id request(D) nonPreemptible bound ignored; bound: 1 = has a
            node and is not terminated)
              1 PodAdd      q pod
              2 PodUpdate   qnew qold newpod oldpod
              3 PodDelete   q pod
              4 Reserve     q pod
              5 Unreserve   q pod
              6 Migrate     qout qin pod
              7 QuotaUpdate name parent isParent lend max(D) min(D) (weights(D): ignored)
              8 QuotaDelete name
              9 Reset
             10 Node*       (cluster total only)
             11 SetScaleMinEnabled flag | 12 SetClusterTotal amounts(D) | 13 RefreshRuntime name
                (runtime / AutoScaleMin side only: OpNode, no effect on the accounting figures)
   observable: after every operation the summaries of all quotas in ascending name order:
            nq, then per quota  name parent isParent lend max(D) min(D) request(D) childRequest(D)
            selfRequest(D) nonPreemptibleRequest(D) selfNonPreemptibleRequest(D) used(D) selfUsed(D)
            nonPreemptibleUsed(D) selfNonPreemptibleUsed(D) leak npods (podid assigned)* in id order;
            streams history and conc: followed by the root entry (GetQuotaSummary of
            koordinator-root-quota): request(D) nonPreemptibleRequest(D) used(D) nonPreemptibleUsed(D). *)
From Coq Require Import List ZArith Bool.
From Verif Require Import Lib.Wire Lib.VecN C01.Model C01.Spec C01.Root.
Import ListNotations.
Open Scope Z_scope.

Section WithDim.
Context {D : Dim}.

Definition nthZ (l : list Z) (i : nat) : Z := nth i l 0.

(* a vector starting at position k of a record *)
Definition dec_vec (l : list Z) (k : nat) : vec := vof_list (skipn k l).

Definition pod_len : nat := (dim + 4)%nat.
Definition rec_len : nat := (2 * dim + 11)%nat.

Definition dec_pod (l : list Z) (k : nat) : pod :=
  mkPod (nthZ l k) (dec_vec l (k + 1)) (zb (nthZ l (k + 1 + dim)))
        (nthZ l (k + 2 + dim) =? 1) (zb (nthZ l (k + 3 + dim))).

Definition dec_qshape (r : list Z) : qshape :=
  mkQ (nthZ r 1) (nthZ r 2) (zb (nthZ r 3)) (zb (nthZ r 4)) (dec_vec r 5) (dec_vec r (5 + dim)).

Definition dec_op (r : list Z) : op :=
  let a := fun i => nthZ r i in
  match a 0%nat with
  | 1 => OpPodAdd (a 1%nat) (dec_pod r 2)
  | 2 => OpPodUpdate (a 1%nat) (a 2%nat) (dec_pod r 3) (dec_pod r (3 + pod_len))
  | 3 => OpPodDelete (a 1%nat) (dec_pod r 2)
  | 4 => OpReserve (a 1%nat) (dec_pod r 2)
  | 5 => OpUnreserve (a 1%nat) (dec_pod r 2)
  | 6 => OpMigrate (dec_pod r 3) (a 1%nat) (a 2%nat)
  | 7 => OpQuotaUpdate (dec_qshape r)
  | 8 => OpQuotaDelete (a 1%nat)
  | 9 => OpReset
  | _ => OpNode
  end.

Fixpoint dec_ops (k : nat) (l : list Z) : list op :=
  match k with
  | O => []
  | S k' => dec_op (firstn rec_len l) :: dec_ops k' (skipn rec_len l)
  end.

(* the input without its leading D *)
Definition decode (inp : list Z) : vec * vec * list op :=
  (dec_vec inp 0, dec_vec inp dim, dec_ops (Z.to_nat (nthZ inp (2 * dim))) (skipn (2 * dim + 1) inp)).

(* ---------- observation ---------- *)

Fixpoint insert_by {A} (key : A -> Z) (x : A) (l : list A) : list A :=
  match l with
  | [] => [x]
  | y :: t => if key x <=? key y then x :: l else y :: insert_by key x t
  end.
Definition sort_by {A} (key : A -> Z) (l : list A) : list A := fold_right (insert_by key) [] l.

Definition vz (v : vec) : list Z := vto_list v.

Definition obs_q (s : state) (q : qshape) : list Z :=
  let r := st_r s (q_name q) in let u := st_u s (q_name q) in let ps := st_p s (q_name q) in
  [q_name q; q_parent q; bz (q_isparent q); bz (q_lend q)]
  ++ vz (q_max q) ++ vz (q_min q)
  ++ vz (r_req r) ++ vz (r_creq r) ++ vz (r_sreq r) ++ vz (r_np r) ++ vz (r_snp r)
  ++ vz (u_used u) ++ vz (u_sused u) ++ vz (u_np u) ++ vz (u_snp u)
  ++ 0                                 (* amounts under keys outside the quota dimensions *)
  :: Z.of_nat (length ps)
     :: flat_map (fun pi => [pi_id pi; bz (pi_asg pi)]) (sort_by pi_id ps).

Definition observe (s : state) : list Z :=
  Z.of_nat (length (st_sh s)) :: flat_map (obs_q s) (sort_by q_name (st_sh s)).

Definition obs_root (ro : rootacc) : list Z :=
  vz (ro_req ro) ++ vz (ro_np ro) ++ vz (ro_used ro) ++ vz (ro_npu ro).
Definition xobserve (x : xstate) : list Z := observe (x_s x) ++ obs_root (x_root x).

Definition dec_root (l : list Z) : rootacc * list Z :=
  (mkRoot (dec_vec l 0) (dec_vec l dim) (dec_vec l (2 * dim)) (dec_vec l (3 * dim)), skipn (4 * dim) l).

(* ---------- the property on the implementation's observable ---------- *)

(* the object last delivered for a pod by the history so far *)
Fixpoint last_obj (h : list op) (id : Z) (acc : option pod) : option pod :=
  match h with
  | [] => acc
  | o :: t =>
      let acc' := match o with
                  | OpPodAdd _ p => if p_id p =? id then Some p else acc
                  | OpPodUpdate _ _ pn _ => if p_id pn =? id then Some pn else acc
                  | _ => acc
                  end in
      last_obj t id acc'
  end.

(* a cache entry as the specification sees it: the pod counts with the request of its last
   delivered object, and as used iff it is assigned *)
Definition mk_pinfo (h : list op) (id : Z) (asg : bool) : pinfo :=
  let rq := match last_obj h id None with Some p => p_req p | None => vzero end in
  let np := match last_obj h id None with Some p => p_npreq p | None => vzero end in
  mkPI id asg rq np (if asg then rq else vzero) (if asg then np else vzero).

Fixpoint dec_pods (h : list op) (k : nat) (l : list Z) : list pinfo * list Z :=
  match k, l with
  | S k', id :: a :: t => let '(ps, r) := dec_pods h k' t in (mk_pinfo h id (zb a) :: ps, r)
  | _, _ => ([], l)
  end.

Definition dec_q (h : list op) (l : list Z) : (qshape * racc * uacc * list pinfo * Z) * list Z :=
  let a := fun i => nthZ l i in
  let v := fun i => dec_vec l (4 + i * dim) in           (* the i-th vector of the block *)
  let '(ps, r) := dec_pods h (Z.to_nat (a (5 + 11 * dim)%nat)) (skipn (6 + 11 * dim) l) in
  ((mkQ (a 0%nat) (a 1%nat) (zb (a 2%nat)) (zb (a 3%nat)) (v 0%nat) (v 1%nat),
    mkR (v 2%nat) (v 3%nat) (v 4%nat) (v 5%nat) (v 6%nat),
    mkU (v 7%nat) (v 8%nat) (v 9%nat) (v 10%nat), ps, a (4 + 11 * dim)%nat), r).

Definition snapshot_state (qs : list (qshape * racc * uacc * list pinfo * Z)) : state :=
  fold_right (fun x st => let '(q, r, u, ps, _) := x in
                mkSt (q :: st_sh st) (fupd (st_r st) (q_name q) r) (fupd (st_u st) (q_name q) u)
                     (fupd (st_p st) (q_name q) ps))
             (mkSt [] (fun _ => r0) (fun _ => u0) (fun _ => [])) qs.

(* the snapshot, the number of amounts found under keys outside the quota dimensions, the rest *)
Definition dec_snapshot (h : list op) (l : list Z) : state * Z * list Z :=
  let '(qs, r) := decode_seq (dec_q h) l in
  (snapshot_state qs, fold_right (fun x acc => let '(_, _, _, _, k) := x in k + acc) 0 qs, r).

(* the model's ghost "counted request" of every cached pod is the request of the object the history
   delivered last for that pod (the link between the proved invariant and [mk_pinfo]); evaluated on
   every case as an assertion about the model itself: clause 97 *)
Definition ghost_matches (h : list op) (s : state) : bool :=
  forallb (fun q =>
    forallb (fun pi =>
      match last_obj h (pi_id pi) None with
      | Some p => veqb (pi_areq pi) (p_req p) && veqb (pi_anp pi) (p_npreq p)
      | None => false
      end) (st_p s (q_name q))) (st_sh s).

(* walk the history with the model state alongside (only to evaluate the informer discipline);
   every snapshot up to the first operation outside the discipline must satisfy the property *)
Fixpoint check_steps (fuel : nat) (sh0 : list qshape) (s : state) (done rest : list op) (obs : list Z) : Z :=
  match fuel, rest with
  | S f, o :: t =>
      if wf_op s o then
        match obs with
        | [] => 99                                  (* a snapshot is missing *)
        | _ =>
            let h := done ++ [o] in
            let s' := step s o in
            let '(snap, leak, obs') := dec_snapshot h obs in
            let '(ro, obs'') := dec_root obs' in
            let c := if negb (ghost_matches h s') then 97
                     else if negb (leak =? 0) then 13                       (* the mask was not applied *)
                     else if negb (shapes_eqb (st_sh snap) (spec_shapes sh0 h)) then 14
                          (* 14: a reported quota attribute is not that of the last delivered object *)
                     else if negb (state_code snap =? 0) then state_code snap
                     else if Nat.ltb (length obs') (4 * dim) then 99                   (* the root entry is missing *)
                     else root_code snap ro in   (* 15-18: the root entry against the from-scratch sums *)
            if c =? 0 then check_steps f sh0 s' h t obs'' else c
        end
      else 0
  | _, _ => 0
  end.


End WithDim.
