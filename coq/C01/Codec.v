(* C01 — wire format shared by the extraction entry points (Extract*.v).

   input :  sysMaxCpu sysMaxMem defMaxCpu defMaxMem  k  then k records of 15 integers
            tag a1 .. a14   (pod = id cpu mem nonPreemptible bound ignored; bound: 1 = has a node
            and is not terminated)
              1 PodAdd      q pod
              2 PodUpdate   qnew qold newpod oldpod
              3 PodDelete   q pod
              4 Reserve     q pod
              5 Unreserve   q pod
              6 Migrate     qout qin pod
              7 QuotaUpdate name parent isParent lend maxCpu maxMem minCpu minMem (weights: ignored)
              8 QuotaDelete name
              9 Reset
             10 Node*       (cluster total only)
             11 SetScaleMinEnabled flag | 12 SetClusterTotal cpu mem | 13 RefreshRuntime name
                (runtime / AutoScaleMin side only: OpNode, no effect on the accounting figures)
   observable: after every operation the summaries of all quotas in ascending name order:
            nq, then per quota  name parent isParent lend max(2) min(2) request(2) childRequest(2)
            selfRequest(2) nonPreemptibleRequest(2) selfNonPreemptibleRequest(2) used(2) selfUsed(2)
            nonPreemptibleUsed(2) selfNonPreemptibleUsed(2) leak npods (podid assigned)* in id order;
            streams history and conc: followed by the root entry (GetQuotaSummary of
            koordinator-root-quota): request(2) nonPreemptibleRequest(2) used(2) nonPreemptibleUsed(2). *)
From Coq Require Import List ZArith Bool.
From Verif Require Import Lib.Wire Lib.Vec2 C01.Model C01.Spec C01.Root.
Import ListNotations.
Open Scope Z_scope.

Definition nthZ (l : list Z) (i : nat) : Z := nth i l 0.

Definition dec_pod (l : list Z) (k : nat) : pod :=
  mkPod (nthZ l k) (nthZ l (k + 1), nthZ l (k + 2)) (zb (nthZ l (k + 3)))
        (nthZ l (k + 4) =? 1) (zb (nthZ l (k + 5))).

Definition dec_op (r : list Z) : op :=
  let a := fun i => nthZ r i in
  match a 0%nat with
  | 1 => OpPodAdd (a 1%nat) (dec_pod r 2)
  | 2 => OpPodUpdate (a 1%nat) (a 2%nat) (dec_pod r 3) (dec_pod r 9)
  | 3 => OpPodDelete (a 1%nat) (dec_pod r 2)
  | 4 => OpReserve (a 1%nat) (dec_pod r 2)
  | 5 => OpUnreserve (a 1%nat) (dec_pod r 2)
  | 6 => OpMigrate (dec_pod r 3) (a 1%nat) (a 2%nat)
  | 7 => OpQuotaUpdate (mkQ (a 1%nat) (a 2%nat) (zb (a 3%nat)) (zb (a 4%nat))
                            (a 5%nat, a 6%nat) (a 7%nat, a 8%nat))
  | 8 => OpQuotaDelete (a 1%nat)
  | 9 => OpReset
  | _ => OpNode
  end.

Fixpoint dec_ops (k : nat) (l : list Z) : list op :=
  match k with
  | O => []
  | S k' => dec_op (firstn 15 l) :: dec_ops k' (skipn 15 l)
  end.

Definition decode (inp : list Z) : vec * vec * list op :=
  match inp with
  | a :: b :: c :: d :: k :: t => ((a, b), (c, d), dec_ops (Z.to_nat k) t)
  | _ => (vzero, vzero, [])
  end.

(* ---------- observation ---------- *)

Fixpoint insert_by {A} (key : A -> Z) (x : A) (l : list A) : list A :=
  match l with
  | [] => [x]
  | y :: t => if key x <=? key y then x :: l else y :: insert_by key x t
  end.
Definition sort_by {A} (key : A -> Z) (l : list A) : list A := fold_right (insert_by key) [] l.

Definition vz (v : vec) : list Z := [fst v; snd v].

Definition obs_q (s : state) (q : qshape) : list Z :=
  let r := st_r s (q_name q) in let u := st_u s (q_name q) in let ps := st_p s (q_name q) in
  [q_name q; q_parent q; bz (q_isparent q); bz (q_lend q)]
  ++ vz (q_max q) ++ vz (q_min q)
  ++ vz (r_req r) ++ vz (r_creq r) ++ vz (r_sreq r) ++ vz (r_np r) ++ vz (r_snp r)
  ++ vz (u_used u) ++ vz (u_sused u) ++ vz (u_np u) ++ vz (u_snp u)
  ++ 0                                 (* amounts under keys outside the quota dimensions *)
  :: Z.of_nat (length ps)
     :: flat_map (fun pi => [pi_id pi; bz (pi_asg pi)]) (sort_by pi_id ps).

Definition observe (s : state) : list Z :=
  Z.of_nat (length (st_sh s)) :: flat_map (obs_q s) (sort_by q_name (st_sh s)).

Definition obs_root (ro : rootacc) : list Z :=
  vz (ro_req ro) ++ vz (ro_np ro) ++ vz (ro_used ro) ++ vz (ro_npu ro).
Definition xobserve (x : xstate) : list Z := observe (x_s x) ++ obs_root (x_root x).

Definition dec_root (l : list Z) : rootacc * list Z :=
  let v := fun i => (nthZ l i, nthZ l (i + 1)) in
  (mkRoot (v 0%nat) (v 2%nat) (v 4%nat) (v 6%nat), skipn 8 l).

(* ---------- the property on the implementation's observable ---------- *)

(* the object last delivered for a pod by the history so far *)
Fixpoint last_obj (h : list op) (id : Z) (acc : option pod) : option pod :=
  match h with
  | [] => acc
  | o :: t =>
      let acc' := match o with
                  | OpPodAdd _ p => if p_id p =? id then Some p else acc
                  | OpPodUpdate _ _ pn _ => if p_id pn =? id then Some pn else acc
                  | _ => acc
                  end in
      last_obj t id acc'
  end.

(* a cache entry as the specification sees it: the pod counts with the request of its last
   delivered object, and as used iff it is assigned *)
Definition mk_pinfo (h : list op) (id : Z) (asg : bool) : pinfo :=
  let rq := match last_obj h id None with Some p => p_req p | None => vzero end in
  let np := match last_obj h id None with Some p => p_npreq p | None => vzero end in
  mkPI id asg rq np (if asg then rq else vzero) (if asg then np else vzero).

Fixpoint dec_pods (h : list op) (k : nat) (l : list Z) : list pinfo * list Z :=
  match k, l with
  | S k', id :: a :: t => let '(ps, r) := dec_pods h k' t in (mk_pinfo h id (zb a) :: ps, r)
  | _, _ => ([], l)
  end.

Definition dec_q (h : list op) (l : list Z) : (qshape * racc * uacc * list pinfo * Z) * list Z :=
  let a := fun i => nthZ l i in
  let v := fun i => (nthZ l i, nthZ l (i + 1)) in
  let '(ps, r) := dec_pods h (Z.to_nat (a 27%nat)) (skipn 28 l) in
  ((mkQ (a 0%nat) (a 1%nat) (zb (a 2%nat)) (zb (a 3%nat)) (v 4%nat) (v 6%nat),
    mkR (v 8%nat) (v 10%nat) (v 12%nat) (v 14%nat) (v 16%nat),
    mkU (v 18%nat) (v 20%nat) (v 22%nat) (v 24%nat), ps, a 26%nat), r).

Definition snapshot_state (qs : list (qshape * racc * uacc * list pinfo * Z)) : state :=
  fold_right (fun x st => let '(q, r, u, ps, _) := x in
                mkSt (q :: st_sh st) (fupd (st_r st) (q_name q) r) (fupd (st_u st) (q_name q) u)
                     (fupd (st_p st) (q_name q) ps))
             (mkSt [] (fun _ => r0) (fun _ => u0) (fun _ => [])) qs.

(* the snapshot, the number of amounts found under keys outside the quota dimensions, the rest *)
Definition dec_snapshot (h : list op) (l : list Z) : state * Z * list Z :=
  let '(qs, r) := decode_seq (dec_q h) l in
  (snapshot_state qs, fold_right (fun x acc => let '(_, _, _, _, k) := x in k + acc) 0 qs, r).

(* the model's ghost "counted request" of every cached pod is the request of the object the history
   delivered last for that pod (the link between the proved invariant and [mk_pinfo]); evaluated on
   every case as an assertion about the model itself: clause 97 *)
Definition ghost_matches (h : list op) (s : state) : bool :=
  forallb (fun q =>
    forallb (fun pi =>
      match last_obj h (pi_id pi) None with
      | Some p => veqb (pi_areq pi) (p_req p) && veqb (pi_anp pi) (p_npreq p)
      | None => false
      end) (st_p s (q_name q))) (st_sh s).

(* walk the history with the model state alongside (only to evaluate the informer discipline);
   every snapshot up to the first operation outside the discipline must satisfy the property *)
Fixpoint check_steps (fuel : nat) (sh0 : list qshape) (s : state) (done rest : list op) (obs : list Z) : Z :=
  match fuel, rest with
  | S f, o :: t =>
      if wf_op s o then
        match obs with
        | [] => 99                                  (* a snapshot is missing *)
        | _ =>
            let h := done ++ [o] in
            let s' := step s o in
            let '(snap, leak, obs') := dec_snapshot h obs in
            let '(ro, obs'') := dec_root obs' in
            let c := if negb (ghost_matches h s') then 97
                     else if negb (leak =? 0) then 13                       (* the mask was not applied *)
                     else if negb (shapes_eqb (st_sh snap) (spec_shapes sh0 h)) then 14
                          (* 14: a reported quota attribute is not that of the last delivered object *)
                     else if negb (state_code snap =? 0) then state_code snap
                     else if Nat.ltb (length obs') 8 then 99                   (* the root entry is missing *)
                     else root_code snap ro in   (* 15-18: the root entry against the from-scratch sums *)
            if c =? 0 then check_steps f sh0 s' h t obs'' else c
        end
      else 0
  | _, _ => 0
  end.

