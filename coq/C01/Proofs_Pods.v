(* C01 — every pod handler preserves the invariant under the informer discipline. *)
From Coq Require Import List ZArith Bool Lia.
From Verif Require Import Lib.VecN C01.Model C01.Spec C01.Proofs_Base C01.Proofs_Walk C01.Proofs_Delta
  C01.Proofs_PodList C01.Proofs_Sections.
Import ListNotations.
Open Scope Z_scope.

Section WithDim.
Context {D : Dim}.

(* ---------- small facts ---------- *)

Lemma is_asg_split s q qq id ps1 pi ps2 :
  find (st_sh s) q = Some qq -> split_at (st_p s q) id ps1 pi ps2 -> is_asg s q id = pi_asg pi.
Proof.
  intros Hf Hsp. unfold is_asg. replace (exists_q s q) with true by (symmetry; apply exists_q_find; eauto).
  cbn [andb]. eapply asg_split; eauto.
Qed.

Lemma exists_in_iff s q id :
  exists_in s q id = true <-> (exists qq, find (st_sh s) q = Some qq) /\ In id (ids (st_p s q)).
Proof. unfold exists_in. rewrite andb_true_iff, exists_q_find, has_pod_in. tauto. Qed.

Lemma matches_split s q qq p ps1 pi ps2 :
  matches s q p = true -> find (st_sh s) q = Some qq -> split_at (st_p s q) (p_id p) ps1 pi ps2 ->
  pi_areq pi = p_req p /\ pi_anp pi = p_npreq p.
Proof.
  intros Hm Hf Hsp. unfold matches, find_pod in Hm.
  replace (exists_q s q) with true in Hm by (symmetry; apply exists_q_find; eauto).
  rewrite (find_split _ _ _ _ _ Hsp) in Hm. apply andb_prop in Hm. destruct Hm as [H1 H2].
  apply veqb_eq in H1. apply veqb_eq in H2. auto.
Qed.

Lemma quiet_zero_used id a b : pi_quiet (mkPI id false a b vzero vzero) = true.
Proof.
  unfold pi_quiet. cbn [pi_asg pi_aused pi_anpused].
  rewrite viszero_zero. reflexivity.
Qed.

Lemma quiet_asg pi : pi_quiet pi = true -> pi_asg pi = true ->
  pi_aused pi = pi_areq pi /\ pi_anpused pi = pi_anp pi.
Proof.
  unfold pi_quiet. intros H Ha. rewrite Ha in H. apply andb_prop in H. destruct H as [H1 H2].
  apply veqb_eq in H1. apply veqb_eq in H2. auto.
Qed.
Lemma quiet_nasg pi : pi_quiet pi = true -> pi_asg pi = false ->
  pi_aused pi = vzero /\ pi_anpused pi = vzero.
Proof.
  unfold pi_quiet. intros H Ha. rewrite Ha in H. apply andb_prop in H. destruct H as [H1 H2].
  apply viszero_eq in H1. apply viszero_eq in H2. auto.
Qed.

Lemma npreq_nonneg p : vnonneg (p_req p) -> vnonneg (p_npreq p).
Proof. intros H. unfold p_npreq. destruct (p_np p); [exact H | apply vnonneg_zero]. Qed.

Lemma fresh_from_nowhere s q id :
  nowhere_else s q id = true ->
  (forall qq, find (st_sh s) q = Some qq -> ~ In id (ids (st_p s q))) ->
  ~ In id (all_pod_ids s).
Proof.
  intros Hnw Hq Hin. apply in_all_ids in Hin. destruct Hin as [x [Hx Hin]].
  unfold nowhere_else in Hnw. rewrite forallb_forall in Hnw. specialize (Hnw x Hx).
  apply orb_prop in Hnw. destruct Hnw as [E|E].
  - apply Z.eqb_eq in E. rewrite E in Hin.
    (* x is the quota q *)
    destruct (find (st_sh s) q) as [qq|] eqn:Hf.
    + apply (Hq qq eq_refl). exact Hin.
    + apply find_none in Hf. apply Hf. rewrite <- E. apply in_map. exact Hx.
  - apply negb_true_iff in E. apply has_pod_false in E. contradiction.
Qed.

Lemma removed_fresh sh P P' q qq id ps1 pi ps2 :
  NoDup (names sh) -> NoDup (all_ids sh P) -> find sh q = Some qq ->
  split_at (P q) id ps1 pi ps2 -> P' q = ps1 ++ ps2 -> (forall m, m <> q -> P' m = P m) ->
  ~ In id (all_ids sh P').
Proof.
  intros Hnd Hall Hf Hsp HPq HPo.
  assert (Hext : all_ids sh P' = all_ids sh (fupd P q (ps1 ++ ps2))).
  { apply all_ids_ext. intros x Hx. unfold fupd. destruct (q_name x =? q) eqn:E.
    - apply Z.eqb_eq in E. rewrite E, HPq. reflexivity.
    - apply Z.eqb_neq in E. rewrite (HPo _ E). reflexivity. }
  rewrite Hext. apply cnt_zero.
  pose proof (cnt_all_upd sh P q (ps1 ++ ps2) id Hnd (find_some_in_names _ _ _ Hf)) as Hc.
  pose proof (proj1 (nodup_cnt _) Hall id) as Hle.
  destruct Hsp as (HP & Hid & H1 & H2).
  assert (E1 : cnt id (ids (P q)) = 1%nat).
  { rewrite HP. unfold ids. rewrite map_app, cnt_app. cbn [map]. unfold cnt at 2. cbn [count_occ].
    destruct (Z.eq_dec (pi_id pi) id); [|contradiction].
    apply cnt_zero in H1. apply cnt_zero in H2. unfold ids in H1, H2. fold (cnt id (map pi_id ps2)). lia. }
  assert (E2 : cnt id (ids (ps1 ++ ps2)) = 0%nat).
  { unfold ids. rewrite map_app, cnt_app. apply cnt_zero in H1. apply cnt_zero in H2. unfold ids in H1, H2. lia. }
  lia.
Qed.

Lemma finish s s' q :
  Inv s -> InvQ s' -> st_sh s' = st_sh s -> (forall m, m <> q -> st_p s' m = st_p s m) ->
  forallb pi_quiet (st_p s' q) = true -> Inv s'.
Proof.
  intros HI HQ Hsh Hfr Hq. apply invq_inv; [exact HQ|].
  intros x Hx. destruct (Z.eq_dec (q_name x) q) as [E|E]; [rewrite E; exact Hq|].
  rewrite (Hfr _ E). apply (inv_quiet _ HI). rewrite <- Hsh. exact Hx.
Qed.

Lemma quiet_parts ps1 pi ps2 : forallb pi_quiet (ps1 ++ pi :: ps2) = true ->
  forallb pi_quiet ps1 = true /\ pi_quiet pi = true /\ forallb pi_quiet ps2 = true.
Proof. rewrite forallb_app. cbn [forallb]. rewrite !andb_true_iff. tauto. Qed.
Lemma quiet_join ps1 pi ps2 : forallb pi_quiet ps1 = true -> pi_quiet pi = true -> forallb pi_quiet ps2 = true ->
  forallb pi_quiet (ps1 ++ pi :: ps2) = true.
Proof. intros. rewrite forallb_app. cbn [forallb]. rewrite !andb_true_iff. tauto. Qed.
Lemma quiet_join2 ps1 ps2 : forallb pi_quiet ps1 = true -> forallb pi_quiet ps2 = true ->
  forallb pi_quiet (ps1 ++ ps2) = true.
Proof. intros. rewrite forallb_app, andb_true_iff. tauto. Qed.

Lemma inv_each_nodup s q qq : Inv s -> find (st_sh s) q = Some qq -> NoDup (ids (st_p s q)).
Proof.
  intros HI Hf. rewrite <- (find_name _ _ _ Hf).
  apply (all_ids_nodup_each (st_sh s)); [apply (inv_ids _ HI) | eapply find_in; eauto].
Qed.

Lemma inv_quiet_at s q qq : Inv s -> find (st_sh s) q = Some qq -> forallb pi_quiet (st_p s q) = true.
Proof. intros HI Hf. rewrite <- (find_name _ _ _ Hf). apply (inv_quiet _ HI). eapply find_in; eauto. Qed.

Lemma inv_pods_pos s q qq : Inv s -> find (st_sh s) q = Some qq -> Forall pi_pos (st_p s q).
Proof. intros HI Hf. rewrite <- (find_name _ _ _ Hf). apply (inv_q _ HI). eapply find_in; eauto. Qed.

(* ---------- adding a pod that is cached nowhere ---------- *)

Lemma add_new_pod_inv s q qq p :
  Inv s -> find (st_sh s) q = Some qq -> ~ In (p_id p) (all_pod_ids s) -> vnonneg (p_req p) ->
  Inv (add_new_pod s q p) /\ st_sh (add_new_pod s q p) = st_sh s.
Proof.
  intros HI Hf Hfresh Hreq. set (id := p_id p) in *.
  pose proof (npreq_nonneg p Hreq) as Hnp.
  destruct (cache_add_ok s q qq id (inv_invq _ HI) Hf Hfresh) as (HQa & Hsha & HPa & Hfra & Hspa).
  set (sa := cache_add s q id) in *.
  assert (Hfa : find (st_sh sa) q = Some qq) by (rewrite Hsha; exact Hf).
  destruct (pod_req_sec_ok sa q qq None (Some p) (st_p s q) (e0 id) [] HQa Hfa Hspa eq_refl eq_refl Hreq Hnp)
    as (HQ1 & Hsh1 & HP1 & Hfr1).
  cbn [oreq onp e0 pi_id pi_asg pi_aused pi_anpused] in HP1.
  set (s1 := pod_req_sec sa q None (Some p)) in *.
  set (e1 := mkPI id false (p_req p) (p_npreq p) vzero vzero) in *.
  assert (Hf1 : find (st_sh s1) q = Some qq) by (rewrite Hsh1; exact Hfa).
  assert (Hsp1 : split_at (st_p s1 q) id (st_p s q) e1 []).
  { rewrite HP1. eapply split_replace; [rewrite <- HPa; exact Hspa | reflexivity]. }
  assert (Hasg1 : is_asg s1 q id = false) by (rewrite (is_asg_split s1 q qq id _ _ _ Hf1 Hsp1); reflexivity).
  assert (Hq0 : forallb pi_quiet (st_p s q) = true) by (eapply inv_quiet_at; eauto).
  unfold add_new_pod. fold id sa s1. rewrite Hasg1. cbn [negb]. rewrite andb_true_r.
  destruct (p_bound p).
  - destruct (set_asg_ok s1 q qq id true (st_p s q) e1 [] HQ1 Hf1 Hsp1) as (HQ2 & Hsh2 & HP2 & Hfr2).
    cbn [e1 pi_id pi_areq pi_anp pi_aused pi_anpused] in HP2.
    set (s2 := set_asg s1 q id true) in *.
    set (e2 := mkPI id true (p_req p) (p_npreq p) vzero vzero) in *.
    assert (Hf2 : find (st_sh s2) q = Some qq) by (rewrite Hsh2; exact Hf1).
    assert (Hsp2 : split_at (st_p s2 q) id (st_p s q) e2 []).
    { rewrite HP2. eapply split_replace; [rewrite <- HP1; exact Hsp1 | reflexivity]. }
    assert (Hne : (@None pod) <> None \/ Some p <> None) by (right; discriminate).
    destruct (pod_used_sec_ok s2 q qq None (Some p) (st_p s q) e2 [] HQ2 Hf2 Hsp2 eq_refl Hne eq_refl eq_refl Hreq Hnp)
      as (HQ3 & Hsh3 & HP3 & Hfr3).
    cbn [oreq onp e2 pi_id pi_asg pi_areq pi_anp] in HP3.
    split.
    + apply (finish s _ q HI HQ3).
      * rewrite Hsh3, Hsh2, Hsh1, Hsha. reflexivity.
      * intros m Hm. rewrite (Hfr3 _ Hm), (Hfr2 _ Hm), (Hfr1 _ Hm), (Hfra _ Hm). reflexivity.
      * rewrite HP3. apply quiet_join; [exact Hq0 | | reflexivity].
        unfold pi_quiet. cbn. rewrite !veqb_refl. reflexivity.
    + rewrite Hsh3, Hsh2, Hsh1, Hsha. reflexivity.
  - split.
    + apply (finish s _ q HI HQ1).
      * rewrite Hsh1, Hsha. reflexivity.
      * intros m Hm. rewrite (Hfr1 _ Hm), (Hfra _ Hm). reflexivity.
      * rewrite HP1. apply quiet_join; [exact Hq0 | apply quiet_zero_used | reflexivity].
    + rewrite Hsh1, Hsha. reflexivity.
Qed.

(* ---------- removing a cached pod ---------- *)

Lemma is_asg_frame s s' q id : st_sh s' = st_sh s -> st_p s' q = st_p s q -> is_asg s' q id = is_asg s q id.
Proof. intros H1 H2. unfold is_asg, exists_q. rewrite H1, H2. reflexivity. Qed.

Lemma remove_pod_req_first_inv s q qq p :
  Inv s -> find (st_sh s) q = Some qq -> In (p_id p) (ids (st_p s q)) -> matches s q p = true ->
  let s' := remove_pod_req_first s q p in
  Inv s' /\ st_sh s' = st_sh s /\ ~ In (p_id p) (all_pod_ids s').
Proof.
  intros HI Hf Hin Hm s'. set (id := p_id p) in *.
  destruct (has_split _ _ (inv_each_nodup _ _ _ HI Hf) Hin) as (ps1 & pi & ps2 & Hsp).
  destruct (matches_split _ _ _ _ _ _ _ Hm Hf Hsp) as [Ha Hn].
  destruct (quiet_parts _ _ _ (eq_ind _ (fun l => forallb pi_quiet l = true) (inv_quiet_at _ _ _ HI Hf) _ (proj1 Hsp)))
    as (Hq1 & Hqpi & Hq2).
  assert (Hidpi : pi_id pi = id) by apply Hsp.
  destruct (pod_req_sec_ok s q qq (Some p) None ps1 pi ps2 (inv_invq _ HI) Hf Hsp Ha Hn vnonneg_zero vnonneg_zero)
    as (HQ1 & Hsh1 & HP1 & Hfr1).
  cbn [oreq onp] in HP1.
  set (s1 := pod_req_sec s q (Some p) None) in *.
  set (pi1 := mkPI (pi_id pi) (pi_asg pi) vzero vzero (pi_aused pi) (pi_anpused pi)) in *.
  assert (Hf1 : find (st_sh s1) q = Some qq) by (rewrite Hsh1; exact Hf).
  assert (Hsp1 : split_at (st_p s1 q) id ps1 pi1 ps2).
  { rewrite HP1. eapply split_replace; [rewrite <- (proj1 Hsp); exact Hsp | exact Hidpi]. }
  assert (Hasg1 : is_asg s1 q id = pi_asg pi) by (rewrite (is_asg_split s1 q qq id _ _ _ Hf1 Hsp1); reflexivity).
  unfold s', remove_pod_req_first. fold id s1. rewrite Hasg1.
  destruct (pi_asg pi) eqn:Easg.
  - destruct (quiet_asg _ Hqpi Easg) as [Hu Hun].
    assert (Hne : Some p <> None \/ (@None pod) <> None) by (left; discriminate).
    destruct (pod_used_sec_ok s1 q qq (Some p) None ps1 pi1 ps2 HQ1 Hf1 Hsp1 eq_refl Hne
                (eq_trans Hu Ha) (eq_trans Hun Hn) vnonneg_zero vnonneg_zero) as (HQ2 & Hsh2 & HP2 & Hfr2).
    cbn [oreq onp pi1 pi_id pi_asg pi_areq pi_anp] in HP2.
    set (s2 := pod_used_sec s1 q (Some p) None) in *.
    set (pi2 := mkPI (pi_id pi) true vzero vzero vzero vzero) in *.
    assert (Hf2 : find (st_sh s2) q = Some qq) by (rewrite Hsh2; exact Hf1).
    assert (Hsp2 : split_at (st_p s2 q) id ps1 pi2 ps2).
    { rewrite HP2. eapply split_replace; [rewrite <- HP1; exact Hsp1 | exact Hidpi]. }
    destruct (cache_del_ok s2 q qq id ps1 pi2 ps2 HQ2 Hf2 Hsp2 eq_refl eq_refl eq_refl eq_refl) as (HQ3 & Hsh3 & HP3 & Hfr3).
    assert (Hsh : st_sh (cache_del s2 q id) = st_sh s) by (rewrite Hsh3, Hsh2, Hsh1; reflexivity).
    assert (Hfr : forall m, m <> q -> st_p (cache_del s2 q id) m = st_p s m).
    { intros m Hmq. rewrite (Hfr3 _ Hmq), (Hfr2 _ Hmq), (Hfr1 _ Hmq). reflexivity. }
    refine (conj _ (conj Hsh _)).
    + apply (finish s _ q HI HQ3 Hsh Hfr). rewrite HP3. apply quiet_join2; assumption.
    + rewrite all_pod_ids_eq, Hsh.
      eapply (removed_fresh (st_sh s) (st_p s)); eauto; [apply (inv_shape _ HI) | apply (inv_ids _ HI)].
  - destruct (quiet_nasg _ Hqpi Easg) as [Hu Hun].
    destruct (cache_del_ok s1 q qq id ps1 pi1 ps2 HQ1 Hf1 Hsp1 eq_refl eq_refl Hu Hun) as (HQ3 & Hsh3 & HP3 & Hfr3).
    assert (Hsh : st_sh (cache_del s1 q id) = st_sh s) by (rewrite Hsh3, Hsh1; reflexivity).
    assert (Hfr : forall m, m <> q -> st_p (cache_del s1 q id) m = st_p s m).
    { intros m Hmq. rewrite (Hfr3 _ Hmq), (Hfr1 _ Hmq). reflexivity. }
    refine (conj _ (conj Hsh _)).
    + apply (finish s _ q HI HQ3 Hsh Hfr). rewrite HP3. apply quiet_join2; assumption.
    + rewrite all_pod_ids_eq, Hsh.
      eapply (removed_fresh (st_sh s) (st_p s)); eauto; [apply (inv_shape _ HI) | apply (inv_ids _ HI)].
Qed.

(* the order used by OnPodUpdate when the pod changes its quota: used first, then request *)
Definition remove_pod_used_first (s : state) (q : Z) (p : pod) : state :=
  let s' := if is_asg s q (p_id p) then pod_used_sec s q (Some p) None else s in
  cache_del (pod_req_sec s' q (Some p) None) q (p_id p).

Lemma remove_pod_used_first_inv s q qq p :
  Inv s -> find (st_sh s) q = Some qq -> In (p_id p) (ids (st_p s q)) -> matches s q p = true ->
  let s' := remove_pod_used_first s q p in
  Inv s' /\ st_sh s' = st_sh s /\ ~ In (p_id p) (all_pod_ids s').
Proof.
  intros HI Hf Hin Hm s'. set (id := p_id p) in *.
  destruct (has_split _ _ (inv_each_nodup _ _ _ HI Hf) Hin) as (ps1 & pi & ps2 & Hsp).
  destruct (matches_split _ _ _ _ _ _ _ Hm Hf Hsp) as [Ha Hn].
  destruct (quiet_parts _ _ _ (eq_ind _ (fun l => forallb pi_quiet l = true) (inv_quiet_at _ _ _ HI Hf) _ (proj1 Hsp)))
    as (Hq1 & Hqpi & Hq2).
  assert (Hidpi : pi_id pi = id) by apply Hsp.
  unfold s', remove_pod_used_first. fold id. rewrite (is_asg_split s q qq id _ _ _ Hf Hsp).
  (* the state after the optional used section *)
  assert (Hmid : exists sm piu, InvQ sm /\ st_sh sm = st_sh s /\ st_p sm q = ps1 ++ piu :: ps2 /\
            (forall m, m <> q -> st_p sm m = st_p s m) /\
            sm = (if pi_asg pi then pod_used_sec s q (Some p) None else s) /\
            pi_id piu = id /\ pi_areq piu = p_req p /\ pi_anp piu = p_npreq p /\
            pi_aused piu = vzero /\ pi_anpused piu = vzero).
  { destruct (pi_asg pi) eqn:Easg.
    - destruct (quiet_asg _ Hqpi Easg) as [Hu Hun].
      assert (Hne : Some p <> None \/ (@None pod) <> None) by (left; discriminate).
      destruct (pod_used_sec_ok s q qq (Some p) None ps1 pi ps2 (inv_invq _ HI) Hf Hsp Easg Hne
                  (eq_trans Hu Ha) (eq_trans Hun Hn) vnonneg_zero vnonneg_zero) as (HQ2 & Hsh2 & HP2 & Hfr2).
      eexists _, _. refine (conj HQ2 (conj Hsh2 (conj HP2 (conj Hfr2 (conj eq_refl _))))).
      cbn [oreq onp pi_id pi_areq pi_anp pi_aused pi_anpused]. auto.
    - destruct (quiet_nasg _ Hqpi Easg) as [Hu Hun].
      exists s, pi. refine (conj (inv_invq _ HI) (conj eq_refl (conj (proj1 Hsp) (conj (fun _ _ => eq_refl) (conj eq_refl _))))).
      auto. }
  destruct Hmid as (sm & piu & HQm & Hshm & HPm & Hfrm & <- & Hidu & Hau & Hnu & Huu & Hunu).
  assert (Hfm : find (st_sh sm) q = Some qq) by (rewrite Hshm; exact Hf).
  assert (Hspm : split_at (st_p sm q) id ps1 piu ps2).
  { rewrite HPm. eapply split_replace; [rewrite <- (proj1 Hsp); exact Hsp | exact Hidu]. }
  destruct (pod_req_sec_ok sm q qq (Some p) None ps1 piu ps2 HQm Hfm Hspm Hau Hnu vnonneg_zero vnonneg_zero)
    as (HQ1 & Hsh1 & HP1 & Hfr1).
  cbn [oreq onp] in HP1. rewrite Huu, Hunu in HP1.
  set (s1 := pod_req_sec sm q (Some p) None) in *.
  set (pi1 := mkPI (pi_id piu) (pi_asg piu) vzero vzero vzero vzero) in *.
  assert (Hf1 : find (st_sh s1) q = Some qq) by (rewrite Hsh1; exact Hfm).
  assert (Hsp1 : split_at (st_p s1 q) id ps1 pi1 ps2).
  { rewrite HP1. eapply split_replace; [rewrite <- HPm; exact Hspm | exact Hidu]. }
  destruct (cache_del_ok s1 q qq id ps1 pi1 ps2 HQ1 Hf1 Hsp1 eq_refl eq_refl eq_refl eq_refl) as (HQ3 & Hsh3 & HP3 & Hfr3).
  assert (Hsh : st_sh (cache_del s1 q id) = st_sh s) by (rewrite Hsh3, Hsh1, Hshm; reflexivity).
  assert (Hfr : forall m, m <> q -> st_p (cache_del s1 q id) m = st_p s m).
  { intros m Hmq. rewrite (Hfr3 _ Hmq), (Hfr1 _ Hmq), (Hfrm _ Hmq). reflexivity. }
  refine (conj _ (conj Hsh _)).
  - apply (finish s _ q HI HQ3 Hsh Hfr). rewrite HP3. apply quiet_join2; assumption.
  - rewrite all_pod_ids_eq, Hsh.
    eapply (removed_fresh (st_sh s) (st_p s)); eauto; [apply (inv_shape _ HI) | apply (inv_ids _ HI)].
Qed.

(* ---------- the end of an add/update: count the pod as used if it is (or becomes) assigned ---------- *)

(* state s1: the pod's entry counts request rn/nn; its used side still counts what it did before *)
Lemma settle_used s s1 q qq po pn ps1 pi1 ps2 :
  Inv s -> InvQ s1 -> st_sh s1 = st_sh s -> (forall m, m <> q -> st_p s1 m = st_p s m) ->
  find (st_sh s) q = Some qq ->
  forallb pi_quiet ps1 = true -> forallb pi_quiet ps2 = true ->
  split_at (st_p s1 q) (p_id pn) ps1 pi1 ps2 -> p_id po = p_id pn ->
  pi_areq pi1 = p_req pn -> pi_anp pi1 = p_npreq pn -> vnonneg (p_req pn) ->
  (if pi_asg pi1 then pi_aused pi1 = p_req po /\ pi_anpused pi1 = p_npreq po
   else pi_aused pi1 = vzero /\ pi_anpused pi1 = vzero) ->
  let s' := if is_asg s1 q (p_id pn) then pod_used_sec s1 q (Some po) (Some pn)
            else if p_bound pn then pod_used_sec (set_asg s1 q (p_id pn) true) q None (Some pn)
                 else s1 in
  Inv s' /\ st_sh s' = st_sh s.
Proof.
  intros HI HQ1 Hsh1 Hfr1 Hf Hq1 Hq2 Hsp1 Hid Ha Hn Hreq Hused s'.
  pose proof (npreq_nonneg pn Hreq) as Hnp.
  assert (Hf1 : find (st_sh s1) q = Some qq) by (rewrite Hsh1; exact Hf).
  assert (HP1 : st_p s1 q = ps1 ++ pi1 :: ps2) by apply Hsp1.
  assert (Hidpi : pi_id pi1 = p_id pn) by apply Hsp1.
  unfold s'. rewrite (is_asg_split s1 q qq _ _ _ _ Hf1 Hsp1).
  destruct (pi_asg pi1) eqn:Easg.
  - destruct Hused as [Hu Hun].
    assert (Hne : Some po <> None \/ Some pn <> None) by (left; discriminate).
    assert (Hsp1' : split_at (st_p s1 q) (oid (Some po) (Some pn)) ps1 pi1 ps2) by (cbn [oid]; rewrite Hid; exact Hsp1).
    destruct (pod_used_sec_ok s1 q qq (Some po) (Some pn) ps1 pi1 ps2 HQ1 Hf1 Hsp1' Easg Hne Hu Hun Hreq Hnp)
      as (HQ2 & Hsh2 & HP2 & Hfr2).
    cbn [oreq onp] in HP2. split; [|rewrite Hsh2; exact Hsh1].
    apply (finish s _ q HI HQ2); [rewrite Hsh2; exact Hsh1 | intros m Hm; rewrite (Hfr2 _ Hm); apply Hfr1; exact Hm |].
    rewrite HP2. apply quiet_join; [exact Hq1 | | exact Hq2].
    unfold pi_quiet. cbn [pi_asg pi_aused pi_areq pi_anpused pi_anp]. rewrite Easg, Ha, Hn, !veqb_refl. reflexivity.
  - destruct Hused as [Hu Hun]. destruct (p_bound pn).
    + destruct (set_asg_ok s1 q qq (p_id pn) true ps1 pi1 ps2 HQ1 Hf1 Hsp1) as (HQ2 & Hsh2 & HP2 & Hfr2).
      set (s2 := set_asg s1 q (p_id pn) true) in *.
      set (pi2 := mkPI (pi_id pi1) true (pi_areq pi1) (pi_anp pi1) (pi_aused pi1) (pi_anpused pi1)) in *.
      assert (Hf2 : find (st_sh s2) q = Some qq) by (rewrite Hsh2; exact Hf1).
      assert (Hsp2 : split_at (st_p s2 q) (oid None (Some pn)) ps1 pi2 ps2).
      { cbn [oid]. rewrite HP2. eapply split_replace; [rewrite <- HP1; exact Hsp1 | exact Hidpi]. }
      assert (Hne : (@None pod) <> None \/ Some pn <> None) by (right; discriminate).
      destruct (pod_used_sec_ok s2 q qq None (Some pn) ps1 pi2 ps2 HQ2 Hf2 Hsp2 eq_refl Hne Hu Hun Hreq Hnp)
        as (HQ3 & Hsh3 & HP3 & Hfr3).
      cbn [oreq onp pi2 pi_id pi_asg pi_areq pi_anp] in HP3.
      split; [|rewrite Hsh3, Hsh2; exact Hsh1].
      apply (finish s _ q HI HQ3); [rewrite Hsh3, Hsh2; exact Hsh1 | intros m Hm; rewrite (Hfr3 _ Hm), (Hfr2 _ Hm); apply Hfr1; exact Hm |].
      rewrite HP3. apply quiet_join; [exact Hq1 | | exact Hq2].
      unfold pi_quiet. cbn [pi_asg pi_aused pi_areq pi_anpused pi_anp]. rewrite Ha, Hn, !veqb_refl. reflexivity.
    + split; [|exact Hsh1].
      apply (finish s _ q HI HQ1 Hsh1 Hfr1). rewrite HP1. apply quiet_join; [exact Hq1 | | exact Hq2].
      unfold pi_quiet. rewrite Easg, Hu, Hun, viszero_zero. reflexivity.
Qed.

(* ---------- OnPodAdd / OnPodDelete ---------- *)

Lemma on_pod_add_inv s q p : Inv s -> wf_op s (OpPodAdd q p) = true -> Inv (on_pod_add s q p).
Proof.
  intros HI Hwf. cbn [wf_op] in Hwf. apply andb_prop in Hwf. destruct Hwf as [Hwf Hnw].
  apply andb_prop in Hwf. destruct Hwf as [Hreq Hm]. apply vnonnegb_iff in Hreq.
  unfold on_pod_add. destruct (p_ign p); [exact HI|].
  destruct (exists_q s q && negb (has_pod (st_p s q) (p_id p))) eqn:E; [|exact HI].
  apply andb_prop in E. destruct E as [Eq Eh]. apply exists_q_find in Eq. destruct Eq as [qq Hf].
  apply negb_true_iff, has_pod_false in Eh.
  apply (add_new_pod_inv s q qq p HI Hf); [|exact Hreq].
  apply (fresh_from_nowhere s q); [exact Hnw | intros; exact Eh].
Qed.

Lemma on_pod_delete_inv s q p : Inv s -> wf_op s (OpPodDelete q p) = true -> Inv (on_pod_delete s q p).
Proof.
  intros HI Hwf. cbn [wf_op] in Hwf. unfold on_pod_delete.
  destruct (exists_in s q (p_id p)) eqn:E; [|exact HI].
  apply exists_in_iff in E. destruct E as [[qq Hf] Hin].
  apply (remove_pod_req_first_inv s q qq p HI Hf Hin Hwf).
Qed.

(* ---------- ReservePod / UnreservePod ---------- *)

Lemma reserve_pod_inv s q p : Inv s -> wf_op s (OpReserve q p) = true -> Inv (reserve_pod s q p).
Proof.
  intros HI Hm. cbn [wf_op] in Hm. unfold reserve_pod.
  destruct (exists_in s q (p_id p) && negb (is_asg s q (p_id p))) eqn:E; [|exact HI].
  apply andb_prop in E. destruct E as [E Ea]. apply exists_in_iff in E. destruct E as [[qq Hf] Hin].
  destruct (has_split _ _ (inv_each_nodup _ _ _ HI Hf) Hin) as (ps1 & pi & ps2 & Hsp).
  rewrite (is_asg_split s q qq _ _ _ _ Hf Hsp) in Ea. apply negb_true_iff in Ea.
  destruct (matches_split _ _ _ _ _ _ _ Hm Hf Hsp) as [Ha Hn].
  destruct (quiet_parts _ _ _ (eq_ind _ (fun l => forallb pi_quiet l = true) (inv_quiet_at _ _ _ HI Hf) _ (proj1 Hsp)))
    as (Hq1 & Hqpi & Hq2).
  destruct (quiet_nasg _ Hqpi Ea) as [Hu Hun].
  assert (Hreq : vnonneg (p_req p)).
  { pose proof (inv_pods_pos _ _ _ HI Hf) as Hp. rewrite (proj1 Hsp), Forall_app in Hp. destruct Hp as [_ Hp].
    inversion Hp as [|? ? Hpi _]; subst. rewrite <- Ha. apply Hpi. }
  assert (Hasg' : is_asg s q (p_id p) = false) by (rewrite (is_asg_split s q qq _ _ _ _ Hf Hsp); exact Ea).
  pose proof (settle_used s s q qq p p ps1 pi ps2 HI (inv_invq _ HI) eq_refl (fun _ _ => eq_refl) Hf Hq1 Hq2 Hsp eq_refl Ha Hn Hreq) as H.
  rewrite Ea in H. specialize (H (conj Hu Hun)). cbn zeta in H. rewrite Hasg' in H.
  (* reserve assigns unconditionally: same as the bound branch *)
  destruct (set_asg_ok s q qq (p_id p) true ps1 pi ps2 (inv_invq _ HI) Hf Hsp) as (HQ2 & Hsh2 & HP2 & Hfr2).
  set (s2 := set_asg s q (p_id p) true) in *.
  set (pi2 := mkPI (pi_id pi) true (pi_areq pi) (pi_anp pi) (pi_aused pi) (pi_anpused pi)) in *.
  assert (Hf2 : find (st_sh s2) q = Some qq) by (rewrite Hsh2; exact Hf).
  assert (Hsp2 : split_at (st_p s2 q) (oid None (Some p)) ps1 pi2 ps2).
  { cbn [oid]. rewrite HP2. eapply split_replace; [rewrite <- (proj1 Hsp); exact Hsp | apply Hsp]. }
  assert (Hne : (@None pod) <> None \/ Some p <> None) by (right; discriminate).
  destruct (pod_used_sec_ok s2 q qq None (Some p) ps1 pi2 ps2 HQ2 Hf2 Hsp2 eq_refl Hne Hu Hun Hreq (npreq_nonneg _ Hreq))
    as (HQ3 & Hsh3 & HP3 & Hfr3).
  cbn [oreq onp pi2 pi_id pi_asg pi_areq pi_anp] in HP3.
  apply (finish s _ q HI HQ3); [rewrite Hsh3; exact Hsh2 | intros m Hmq; rewrite (Hfr3 _ Hmq); apply Hfr2; exact Hmq |].
  rewrite HP3. apply quiet_join; [exact Hq1 | | exact Hq2].
  unfold pi_quiet. cbn [pi_asg pi_aused pi_areq pi_anpused pi_anp]. rewrite Ha, Hn, !veqb_refl. reflexivity.
Qed.

Lemma unreserve_pod_inv s q p : Inv s -> wf_op s (OpUnreserve q p) = true -> Inv (unreserve_pod s q p).
Proof.
  intros HI Hm. cbn [wf_op] in Hm. unfold unreserve_pod.
  destruct (exists_in s q (p_id p) && is_asg s q (p_id p)) eqn:E; [|exact HI].
  apply andb_prop in E. destruct E as [E Ea]. apply exists_in_iff in E. destruct E as [[qq Hf] Hin].
  destruct (has_split _ _ (inv_each_nodup _ _ _ HI Hf) Hin) as (ps1 & pi & ps2 & Hsp).
  rewrite (is_asg_split s q qq _ _ _ _ Hf Hsp) in Ea.
  destruct (matches_split _ _ _ _ _ _ _ Hm Hf Hsp) as [Ha Hn].
  destruct (quiet_parts _ _ _ (eq_ind _ (fun l => forallb pi_quiet l = true) (inv_quiet_at _ _ _ HI Hf) _ (proj1 Hsp)))
    as (Hq1 & Hqpi & Hq2).
  destruct (quiet_asg _ Hqpi Ea) as [Hu Hun].
  assert (Hne : Some p <> None \/ (@None pod) <> None) by (left; discriminate).
  destruct (pod_used_sec_ok s q qq (Some p) None ps1 pi ps2 (inv_invq _ HI) Hf Hsp Ea Hne
              (eq_trans Hu Ha) (eq_trans Hun Hn) vnonneg_zero vnonneg_zero) as (HQ2 & Hsh2 & HP2 & Hfr2).
  cbn [oreq onp] in HP2.
  set (s2 := pod_used_sec s q (Some p) None) in *.
  set (pi2 := mkPI (pi_id pi) (pi_asg pi) (pi_areq pi) (pi_anp pi) vzero vzero) in *.
  assert (Hf2 : find (st_sh s2) q = Some qq) by (rewrite Hsh2; exact Hf).
  assert (Hsp2 : split_at (st_p s2 q) (p_id p) ps1 pi2 ps2).
  { rewrite HP2. eapply split_replace; [rewrite <- (proj1 Hsp); exact Hsp | apply Hsp]. }
  destruct (set_asg_ok s2 q qq (p_id p) false ps1 pi2 ps2 HQ2 Hf2 Hsp2) as (HQ3 & Hsh3 & HP3 & Hfr3).
  cbn [pi2 pi_id pi_areq pi_anp pi_aused pi_anpused] in HP3.
  apply (finish s _ q HI HQ3); [rewrite Hsh3; exact Hsh2 | intros m Hmq; rewrite (Hfr3 _ Hmq); apply Hfr2; exact Hmq |].
  rewrite HP3. apply quiet_join; [exact Hq1 | apply quiet_zero_used | exact Hq2].
Qed.

(* ---------- OnPodUpdate ---------- *)

Lemma on_pod_update_inv s qn qo pn po :
  Inv s -> wf_op s (OpPodUpdate qn qo pn po) = true -> Inv (on_pod_update s qn qo pn po).
Proof.
  intros HI Hwf. cbn [wf_op] in Hwf.
  apply andb_prop in Hwf. destruct Hwf as [Hwf Hnw].
  apply andb_prop in Hwf. destruct Hwf as [Hwf Hm].
  apply andb_prop in Hwf. destruct Hwf as [Hid Hreq].
  apply Z.eqb_eq in Hid. apply vnonnegb_iff in Hreq.
  unfold on_pod_update. destruct (qo =? qn) eqn:Eq.
  - apply Z.eqb_eq in Eq. subst qo.
    destruct (exists_q s qn) eqn:Ex; [|exact HI].
    apply exists_q_find in Ex. destruct Ex as [qq Hf].
    destruct (p_ign pn); cbn [negb].
    + (* the new object is to be ignored: drop the pod *)
      destruct (has_pod (st_p s qn) (p_id po)) eqn:Eh; [|exact HI].
      apply has_pod_in in Eh. apply (remove_pod_req_first_inv s qn qq po HI Hf Eh Hm).
    + destruct (has_pod (st_p s qn) (p_id pn)) eqn:Eh.
      * apply has_pod_in in Eh.
        destruct (has_split _ _ (inv_each_nodup _ _ _ HI Hf) Eh) as (ps1 & pi & ps2 & Hsp).
        assert (Hsp' : split_at (st_p s qn) (p_id po) ps1 pi ps2) by (rewrite <- Hid; exact Hsp).
        destruct (matches_split _ _ _ _ _ _ _ Hm Hf Hsp') as [Ha Hn].
        destruct (quiet_parts _ _ _ (eq_ind _ (fun l => forallb pi_quiet l = true) (inv_quiet_at _ _ _ HI Hf) _ (proj1 Hsp)))
          as (Hq1 & Hqpi & Hq2).
        destruct (pod_req_sec_ok s qn qq (Some po) (Some pn) ps1 pi ps2 (inv_invq _ HI) Hf Hsp' Ha Hn Hreq (npreq_nonneg _ Hreq))
          as (HQ1 & Hsh1 & HP1 & Hfr1).
        cbn [oreq onp] in HP1.
        set (s1 := pod_req_sec s qn (Some po) (Some pn)) in *.
        set (pi1 := mkPI (pi_id pi) (pi_asg pi) (p_req pn) (p_npreq pn) (pi_aused pi) (pi_anpused pi)) in *.
        assert (Hsp1 : split_at (st_p s1 qn) (p_id pn) ps1 pi1 ps2).
        { rewrite HP1. eapply split_replace; [rewrite <- (proj1 Hsp); exact Hsp | apply Hsp]. }
        apply (settle_used s s1 qn qq po pn ps1 pi1 ps2 HI HQ1 Hsh1 Hfr1 Hf Hq1 Hq2 Hsp1 (eq_sym Hid) eq_refl eq_refl Hreq).
        cbn [pi1 pi_asg pi_aused pi_anpused]. destruct (pi_asg pi) eqn:Easg.
        -- destruct (quiet_asg _ Hqpi Easg) as [Hu Hun]. split; congruence.
        -- apply (quiet_nasg _ Hqpi Easg).
      * apply has_pod_false in Eh.
        assert (Hfresh : ~ In (p_id pn) (all_pod_ids s)).
        { apply (fresh_from_nowhere s qn); [rewrite Hid; exact Hnw | intros; exact Eh]. }
        destruct (cache_add_ok s qn qq (p_id pn) (inv_invq _ HI) Hf Hfresh) as (HQa & Hsha & HPa & Hfra & Hspa).
        set (sa := cache_add s qn (p_id pn)) in *.
        assert (Hfa : find (st_sh sa) qn = Some qq) by (rewrite Hsha; exact Hf).
        destruct (pod_req_sec_ok sa qn qq None (Some pn) (st_p s qn) (e0 (p_id pn)) [] HQa Hfa Hspa eq_refl eq_refl Hreq (npreq_nonneg _ Hreq))
          as (HQ1 & Hsh1 & HP1 & Hfr1).
        cbn [oreq onp e0 pi_id pi_asg pi_aused pi_anpused] in HP1.
        set (s1 := pod_req_sec sa qn None (Some pn)) in *.
        set (e1 := mkPI (p_id pn) false (p_req pn) (p_npreq pn) vzero vzero) in *.
        assert (Hsp1 : split_at (st_p s1 qn) (p_id pn) (st_p s qn) e1 []).
        { rewrite HP1. eapply split_replace; [rewrite <- HPa; exact Hspa | reflexivity]. }
        assert (Hsh1s : st_sh s1 = st_sh s) by (rewrite Hsh1; exact Hsha).
        assert (Hfr1s : forall m, m <> qn -> st_p s1 m = st_p s m).
        { intros m Hmq. rewrite (Hfr1 _ Hmq). apply Hfra. exact Hmq. }
        apply (settle_used s s1 qn qq po pn (st_p s qn) e1 [] HI HQ1 Hsh1s Hfr1s Hf
                 (inv_quiet_at _ _ _ HI Hf) eq_refl Hsp1 (eq_sym Hid) eq_refl eq_refl Hreq).
        cbn [e1 pi_asg pi_aused pi_anpused]. auto.
  - (* the pod moves to another quota *)
    apply Z.eqb_neq in Eq.
    assert (Hrem : exists s1, s1 = (if exists_in s qo (p_id po) then remove_pod_used_first s qo po else s) /\
                     Inv s1 /\ st_sh s1 = st_sh s /\ ~ In (p_id po) (all_pod_ids s1)).
    { eexists. split; [reflexivity|]. destruct (exists_in s qo (p_id po)) eqn:E.
      - apply exists_in_iff in E. destruct E as [[qq Hf] Hin].
        apply (remove_pod_used_first_inv s qo qq po HI Hf Hin Hm).
      - refine (conj HI (conj eq_refl _)). apply (fresh_from_nowhere s qo); [exact Hnw|].
        intros qq Hf Hin. assert (exists_in s qo (p_id po) = true) by (apply exists_in_iff; eauto). congruence. }
    destruct Hrem as (s1 & Hs1 & HI1 & Hsh1 & Hfresh1).
    unfold remove_pod_used_first in Hs1. rewrite <- Hs1.
    destruct (exists_q s1 qn && negb (has_pod (st_p s1 qn) (p_id pn)) && negb (p_ign pn)) eqn:E; [|exact HI1].
    apply andb_prop in E. destruct E as [E _]. apply andb_prop in E. destruct E as [Ex _].
    apply exists_q_find in Ex. destruct Ex as [qq Hf].
    apply (add_new_pod_inv s1 qn qq pn HI1 Hf); [rewrite Hid; exact Hfresh1 | exact Hreq].
Qed.

(* ---------- MigratePod ---------- *)

Lemma asg_map_pod ps id f id' : (forall pi, pi_id (f pi) = pi_id pi /\ pi_asg (f pi) = pi_asg pi) ->
  asg_pod (map_pod ps id f) id' = asg_pod ps id'.
Proof.
  intros Hf. unfold asg_pod, map_pod. induction ps as [|x t IH]; [reflexivity|]. cbn [map existsb].
  rewrite IH. f_equal. destruct (pi_id x =? id); [|reflexivity]. destruct (Hf x) as [-> ->]. reflexivity.
Qed.

Lemma is_asg_req_sec s q old new q' id' : is_asg (pod_req_sec s q old new) q' id' = is_asg s q' id'.
Proof.
  unfold pod_req_sec. destruct (exists_q s q); [|reflexivity].
  match goal with |- is_asg (if ?c then ?a else ?b) _ _ = _ =>
    assert (H : is_asg b q' id' = is_asg a q' id') by reflexivity; destruct c; [|rewrite H] end.
  all: unfold is_asg, exists_q, upd_pod; cbn [st_sh st_p set_P]; f_equal;
    unfold fupd; destruct (q' =? q) eqn:E; [apply Z.eqb_eq in E; subst q'; apply asg_map_pod; intros; cbn; auto | reflexivity].
Qed.

Lemma migrate_pod_inv s p qout qin : Inv s -> wf_op s (OpMigrate p qout qin) = true -> Inv (migrate_pod s p qout qin).
Proof.
  intros HI Hwf. cbn [wf_op] in Hwf.
  apply andb_prop in Hwf. destruct Hwf as [Hwf Hin'].
  apply andb_prop in Hwf. destruct Hwf as [Hwf Hnw].
  apply andb_prop in Hwf. destruct Hwf as [Hex Hm].
  apply exists_in_iff in Hex. destruct Hex as [[qq Hf] Hin].
  apply exists_q_find in Hin'. destruct Hin' as [qi Hfi].
  set (id := p_id p) in *.
  (* what the pod counts with *)
  destruct (has_split _ _ (inv_each_nodup _ _ _ HI Hf) Hin) as (ps1 & pi & ps2 & Hsp).
  destruct (matches_split _ _ _ _ _ _ _ Hm Hf Hsp) as [Ha Hn].
  assert (Hreq : vnonneg (p_req p)).
  { pose proof (inv_pods_pos _ _ _ HI Hf) as Hp. rewrite (proj1 Hsp), Forall_app in Hp. destruct Hp as [_ Hp].
    inversion Hp as [|? ? Hpi _]; subst. rewrite <- Ha. apply Hpi. }
  pose proof (npreq_nonneg _ Hreq) as Hnp.
  (* the removal half is remove_pod_req_first *)
  unfold migrate_pod. fold id. set (a := is_asg s qout id).
  assert (Hrm : cache_del (if a then pod_used_sec (pod_req_sec s qout (Some p) None) qout (Some p) None
                           else pod_req_sec s qout (Some p) None) qout id = remove_pod_req_first s qout p).
  { unfold remove_pod_req_first. fold id. rewrite is_asg_req_sec. reflexivity. }
  rewrite Hrm.
  destruct (remove_pod_req_first_inv s qout qq p HI Hf Hin Hm) as (HI3 & Hsh3 & Hfresh3).
  set (s3 := remove_pod_req_first s qout p) in *. fold id in Hfresh3.
  assert (Hf3 : find (st_sh s3) qin = Some qi) by (rewrite Hsh3; exact Hfi).
  destruct (cache_add_ok s3 qin qi id (inv_invq _ HI3) Hf3 Hfresh3) as (HQ4 & Hsh4 & HP4 & Hfr4 & Hsp4).
  set (s4 := cache_add s3 qin id) in *.
  assert (Hf4 : find (st_sh s4) qin = Some qi) by (rewrite Hsh4; exact Hf3).
  destruct (set_asg_ok s4 qin qi id a (st_p s3 qin) (e0 id) [] HQ4 Hf4 Hsp4) as (HQ5 & Hsh5 & HP5 & Hfr5).
  cbn [e0 pi_id pi_areq pi_anp pi_aused pi_anpused] in HP5.
  set (s5 := set_asg s4 qin id a) in *.
  set (e5 := mkPI id a vzero vzero vzero vzero) in *.
  assert (Hf5 : find (st_sh s5) qin = Some qi) by (rewrite Hsh5; exact Hf4).
  assert (Hsp5 : split_at (st_p s5 qin) id (st_p s3 qin) e5 []).
  { rewrite HP5. eapply split_replace; [rewrite <- HP4; exact Hsp4 | reflexivity]. }
  destruct (pod_req_sec_ok s5 qin qi None (Some p) (st_p s3 qin) e5 [] HQ5 Hf5 Hsp5 eq_refl eq_refl Hreq Hnp)
    as (HQ6 & Hsh6 & HP6 & Hfr6).
  cbn [oreq onp e5 pi_id pi_asg pi_aused pi_anpused] in HP6.
  set (s6 := pod_req_sec s5 qin None (Some p)) in *.
  set (e6 := mkPI id a (p_req p) (p_npreq p) vzero vzero) in *.
  assert (Hf6 : find (st_sh s6) qin = Some qi) by (rewrite Hsh6; exact Hf5).
  assert (Hsp6 : split_at (st_p s6 qin) id (st_p s3 qin) e6 []).
  { rewrite HP6. eapply split_replace; [rewrite <- HP5; exact Hsp5 | reflexivity]. }
  assert (Hq3 : forallb pi_quiet (st_p s3 qin) = true) by (eapply inv_quiet_at; eauto).
  assert (Hsh63 : st_sh s6 = st_sh s3) by (rewrite Hsh6, Hsh5, Hsh4; reflexivity).
  assert (Hfr63 : forall m, m <> qin -> st_p s6 m = st_p s3 m).
  { intros m Hmq. rewrite (Hfr6 _ Hmq), (Hfr5 _ Hmq), (Hfr4 _ Hmq). reflexivity. }
  destruct a eqn:Ea.
  - assert (Hne : (@None pod) <> None \/ Some p <> None) by (right; discriminate).
    destruct (pod_used_sec_ok s6 qin qi None (Some p) (st_p s3 qin) e6 [] HQ6 Hf6 Hsp6 eq_refl Hne eq_refl eq_refl Hreq Hnp)
      as (HQ7 & Hsh7 & HP7 & Hfr7).
    cbn [oreq onp e6 pi_id pi_asg pi_areq pi_anp] in HP7.
    apply (finish s3 _ qin HI3 HQ7); [rewrite Hsh7; exact Hsh63 | intros m Hmq; rewrite (Hfr7 _ Hmq); apply Hfr63; exact Hmq |].
    rewrite HP7. apply quiet_join; [exact Hq3 | | reflexivity].
    unfold pi_quiet. cbn. rewrite !veqb_refl. reflexivity.
  - apply (finish s3 _ qin HI3 HQ6 Hsh63 Hfr63).
    rewrite HP6. apply quiet_join; [exact Hq3 | unfold e6; apply quiet_zero_used | reflexivity].
Qed.

End WithDim.
