(* C01 — the two-dimensional instance (cpu, memory) used by the concrete examples and witnesses. *)
From Coq Require Import ZArith.
From Verif Require Import Lib.VecN.
Open Scope Z_scope.

Definition D2 : Dim := 2%nat.
Definition v2 (a b : Z) : @vec D2 := (a, (b, tt)).

Definition D3 : Dim := 3%nat.
Definition v3 (a b c : Z) : @vec D3 := (a, (b, (c, tt))).
