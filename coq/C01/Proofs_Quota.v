(* C01 — quota handlers preserve the invariant: DeleteQuota, UpdateQuota (create, max/min change,
   re-parenting, flag change with full rebuild), ResetQuota. *)
From Coq Require Import List ZArith Bool Lia.
From Verif Require Import Lib.VecN C01.Model C01.Spec C01.Proofs_Base C01.Proofs_Walk C01.Proofs_Delta
  C01.Proofs_PodList C01.Proofs_Sections C01.Proofs_Shape C01.Proofs_CWalk C01.Proofs_Detach
  C01.Proofs_SetMaxMin C01.Proofs_Mid C01.Proofs_Reset.
Import ListNotations.
Open Scope Z_scope.

Section WithDim.
Context {D : Dim}.

Lemma has_children_false sh n : has_children sh n = false <-> forall c, In c sh -> q_parent c <> n.
Proof.
  unfold has_children. split.
  - intros H c Hc E. assert (existsb (fun c0 => q_parent c0 =? n) sh = true); [|congruence].
    apply existsb_exists. exists c. split; [exact Hc | apply Z.eqb_eq; exact E].
  - intros H. destruct (existsb (fun c => q_parent c =? n) sh) eqn:E; [|reflexivity].
    apply existsb_exists in E. destruct E as [c [Hc E]]. apply Z.eqb_eq in E. exfalso. eapply H; eauto.
Qed.

(* ---------- components of delete_quota ---------- *)

Lemma delete_quota_comp s n q : find (st_sh s) n = Some q ->
  let sh1 := remove_sh (st_sh s) n in
  let s' := delete_quota s n in
  st_sh s' = sh1 /\
  st_r s' = cwalk_req sh1 (fupd (st_r s) n r0) (q_parent q)
              (vsub vzero (lim q (st_r s n))) (vsub vzero (r_np (st_r s n))) false /\
  st_u s' = cwalk_used sh1 (fupd (st_u s) n u0) (q_parent q)
              (vsub vzero (u_used (st_u s n))) (vsub vzero (u_np (st_u s n))) false /\
  st_p s' = fupd (st_p s) n [].
Proof.
  intros Hf. cbn zeta. unfold delete_quota. rewrite Hf. unfold cwalk_req, cwalk_used, nz2.
  destruct (negb (viszero (vsub vzero (lim q (st_r s n)))) || negb (viszero (vsub vzero (r_np (st_r s n)))));
  destruct (negb (viszero (vsub vzero (u_used (st_u s n)))) || negb (viszero (vsub vzero (u_np (st_u s n)))));
  cbn; auto.
Qed.

Lemma nodup_all_ids_remove sh P n : NoDup (all_ids sh P) -> NoDup (all_ids (remove_sh sh n) P).
Proof.
  rewrite !nodup_cnt. intros H x. specialize (H x).
  assert (cnt x (all_ids (remove_sh sh n) P) <= cnt x (all_ids sh P))%nat; [|lia].
  clear H. unfold all_ids, remove_sh. induction sh as [|y t IH]; [apply le_n|].
  cbn [filter flat_map]. destruct (negb (q_name y =? n)); cbn [flat_map]; rewrite ?cnt_app; lia.
Qed.

Lemma inv_qagg s : Inv s ->
  PosR (st_sh s) (st_r s) /\ PosU (st_sh s) (st_u s) /\
  (forall q0, In q0 (st_sh s) -> okA (st_sh s) (st_r s) q0) /\
  (forall q0, In q0 (st_sh s) -> okN (st_sh s) (st_r s) q0) /\
  (forall q0, In q0 (st_sh s) -> okB (st_r s) q0) /\
  (forall q0, In q0 (st_sh s) -> okU (st_sh s) (st_u s) q0) /\
  (forall q0, In q0 (st_sh s) -> okUN (st_sh s) (st_u s) q0).
Proof.
  intros HI. repeat split; intros q0 Hq0; apply (inv_q _ HI q0 Hq0).
Qed.

(* ---------- DeleteQuota of a leaf ---------- *)

Lemma delete_quota_inv s n : Inv s -> wf_op s (OpQuotaDelete n) = true -> Inv (delete_quota s n).
Proof.
  intros HI Hwf. cbn [wf_op] in Hwf. apply andb_prop in Hwf. destruct Hwf as [_ Hleaf].
  apply negb_true_iff in Hleaf. pose proof (proj1 (has_children_false _ _) Hleaf) as Hleaf'. clear Hleaf. rename Hleaf' into Hleaf.
  destruct (find (st_sh s) n) as [q|] eqn:Hf; [|unfold delete_quota; rewrite Hf; exact HI].
  destruct (delete_quota_comp s n q Hf) as (Hsh & HR & HU & HP).
  destruct (inv_qagg _ HI) as (Hpr & Hpu & HA & HN & HB & HUo & HUNo).
  pose proof (inv_shape _ HI) as Hshape.
  destruct (detach_req (st_sh s) Hshape n q Hf (st_r s) Hpr (fun q0 H _ => HA q0 H) (fun q0 H _ => HN q0 H) (fun q0 H _ => HB q0 H))
    as (R1 & R2 & R3 & R4 & _).
  destruct (detach_used (st_sh s) Hshape n q Hf (st_u s) Hpu (fun q0 H _ => HUo q0 H) (fun q0 H _ => HUNo q0 H))
    as (U1 & U2 & U3 & _).
  rewrite <- HR in R1, R2, R3, R4. rewrite <- HU in U1, U2, U3.
  set (s' := delete_quota s n) in *.
  assert (Hin1 : forall x, In x (st_sh s') -> In x (st_sh s) /\ q_name x <> n).
  { intros x Hx. rewrite Hsh in Hx. apply in_remove in Hx. exact Hx. }
  assert (HPo : forall x, In x (st_sh s') -> st_p s' (q_name x) = st_p s (q_name x)).
  { intros x Hx. rewrite HP. apply fupd_other. apply Hin1. exact Hx. }
  constructor.
  - rewrite Hsh. apply shape_remove_leaf; assumption.
  - rewrite all_pod_ids_eq, Hsh.
    rewrite (all_ids_ext (remove_sh (st_sh s) n) (st_p s) (st_p s')).
    + apply nodup_all_ids_remove. apply (inv_ids _ HI).
    + intros x Hx. rewrite <- Hsh in Hx. rewrite (HPo x Hx). reflexivity.
  - intros q0 Hq0. destruct (Hin1 q0 Hq0) as [Hq0' Hne].
    destruct (inv_q _ HI q0 Hq0') as [_ _ _ _ _ HS _ _ Hpo].
    rewrite Hsh in Hq0. destruct (R3 q0 Hq0) as [HA' HN']. destruct (U2 q0 Hq0) as [HU' HUN'].
    rewrite <- Hsh in Hq0.
    constructor; try rewrite Hsh; auto.
    + rewrite <- Hsh in R2. apply R2. exact Hq0.
    + unfold okS in *. destruct (R4 _ Hne) as [E1 E2]. destruct (U3 _ Hne) as [E3 E4].
      rewrite E1, E2, E3, E4, (HPo q0 Hq0). exact HS.
    + rewrite <- Hsh in R1. apply R1. exact Hq0.
    + rewrite <- Hsh in U1. apply U1. exact Hq0.
    + rewrite (HPo q0 Hq0). exact Hpo.
  - intros q0 Hq0. rewrite (HPo q0 Hq0). apply (inv_quiet _ HI). apply Hin1. exact Hq0.
Qed.

(* ---------- appending a blank entry ---------- *)

Definition blank (sp : qshape) : qshape := mkQ (q_name sp) (q_parent sp) (q_isparent sp) (q_lend sp) vzero vzero.

Lemma sumc_snoc sh b g m : sumc (sh ++ [b]) g m = vadd (sumc sh g m) (if q_parent b =? m then g b else vzero).
Proof.
  rewrite sumc_app. f_equal. unfold sumc, children. cbn [filter].
  destruct (q_parent b =? m); cbn [map vsum fold_right]; [apply vadd_0_r | reflexivity].
Qed.

Section AppendBlank.
  Variables (sh : list qshape) (b : qshape) (R : Z -> racc) (U : Z -> uacc).
  Hypothesis Hnew : ~ In (q_name b) (names sh).
  Hypothesis Hbmax : q_max b = vzero.

  Let n := q_name b.
  Let sh2 := sh ++ [b].
  Let R2 := fupd R n r0.
  Let U2 := fupd U n u0.

  Lemma append_blank_old x : In x sh -> q_name x <> n.
  Proof. intros Hx E. apply Hnew. fold n. rewrite <- E. apply in_map. exact Hx. Qed.

  Lemma append_blank_sums m :
    sumc sh2 (limR R2) m = sumc sh (limR R) m /\ sumc sh2 (npR R2) m = sumc sh (npR R) m /\
    sumc sh2 (usedU U2) m = sumc sh (usedU U) m /\ sumc sh2 (unpU U2) m = sumc sh (unpU U) m.
  Proof.
    unfold sh2. rewrite !sumc_snoc.
    assert (E1 : limR R2 b = vzero).
    { unfold limR, R2, lim. fold n. rewrite fupd_same, Hbmax. cbn [r_req r0]. clear. vlia. }
    assert (E2 : npR R2 b = vzero) by (unfold npR, R2; fold n; rewrite fupd_same; reflexivity).
    assert (E3 : usedU U2 b = vzero) by (unfold usedU, U2; fold n; rewrite fupd_same; reflexivity).
    assert (E4 : unpU U2 b = vzero) by (unfold unpU, U2; fold n; rewrite fupd_same; reflexivity).
    rewrite E1, E2, E3, E4.
    assert (Hz : forall v, vadd v (if q_parent b =? m then vzero else vzero) = v)
      by (intros v; destruct (q_parent b =? m); apply vadd_0_r).
    rewrite !Hz.
    refine (conj _ (conj _ (conj _ _))); apply sumc_ext; intros c Hc _;
      unfold limR, npR, usedU, unpU, R2, U2; rewrite fupd_other by (apply append_blank_old; exact Hc); reflexivity.
  Qed.

  Lemma append_blank_ok x : In x sh ->
    (okA sh R x -> okA sh2 R2 x) /\ (okN sh R x -> okN sh2 R2 x) /\ (okB R x -> okB R2 x) /\
    (okU sh U x -> okU sh2 U2 x) /\ (okUN sh U x -> okUN sh2 U2 x).
  Proof.
    intros Hx. pose proof (append_blank_old x Hx) as Hne.
    destruct (append_blank_sums (q_name x)) as (E1 & E2 & E3 & E4).
    unfold okA, okN, okB, okU, okUN. rewrite E1, E2, E3, E4.
    unfold R2, U2. rewrite !fupd_other by exact Hne. auto.
  Qed.
End AppendBlank.

Lemma cnt_all_snoc sh b P x : cnt x (all_ids (sh ++ [b]) P) = (cnt x (all_ids sh P) + cnt x (ids (P (q_name b))))%nat.
Proof. unfold all_ids. rewrite flat_map_app, cnt_app. cbn [flat_map]. rewrite app_nil_r. reflexivity. Qed.

Lemma freq_blank b : q_min b = vzero -> freq b vzero = vzero.
Proof. intros H. unfold freq. rewrite H. destruct (q_lend b); [reflexivity | clear; vlia]. Qed.

(* ---------- creating a quota ---------- *)

Lemma parent_ok_cases sh p : parent_ok sh p = true ->
  p = 0 \/ (3 <= p /\ exists pq, find sh p = Some pq /\ q_isparent pq = true).
Proof.
  unfold parent_ok. intros H. apply orb_prop in H. destruct H as [E|E]; [left; apply Z.eqb_eq; exact E|].
  right. destruct (find sh p) as [pq|]; [|discriminate].
  apply andb_prop in E. destruct E as [E1 E2]. apply Z.leb_le in E1. eauto.
Qed.

Lemma add_blank_new_inv s sp :
  Inv s -> ~ In (q_name sp) (names (st_sh s)) -> 3 <= q_name sp ->
  parent_ok (st_sh s) (q_parent sp) = true -> q_parent sp <> q_name sp ->
  Inv (add_blank s sp []).
Proof.
  intros HI Hnew H3 Hpok Hpne.
  destruct HI as [Hshape Hids Hq Hquiet].
  unfold add_blank. change (mkQ (q_name sp) (q_parent sp) (q_isparent sp) (q_lend sp) vzero vzero) with (blank sp).
  remember (blank sp) as b eqn:Eb. remember (q_name sp) as n eqn:En.
  assert (Hbn : q_name b = n) by (rewrite Eb, En; reflexivity).
  assert (Hbp : q_parent b = q_parent sp) by (rewrite Eb; reflexivity).
  assert (Hbmax : q_max b = vzero) by (rewrite Eb; reflexivity).
  assert (Hbmin : q_min b = vzero) by (rewrite Eb; reflexivity).
  clear Eb.
  assert (Hnewb : ~ In (q_name b) (names (st_sh s))) by (rewrite Hbn; exact Hnew).
  assert (Hnochild : forall c, In c (st_sh s) -> q_parent c <> n).
  { intros c Hc E. destruct (so_par _ Hshape c Hc) as [H0|[_ [pq [Hfp _]]]]; [lia|].
    apply Hnew. rewrite <- E. eapply find_some_in_names; eauto. }
  assert (Hshape2 : ShapeOk (st_sh s ++ [b])).
  { apply shape_app; auto; try (rewrite ?Hbmax, ?Hbmin; apply vnonneg_zero); rewrite ?Hbn, ?Hbp; auto. lia. }
  pose proof (append_blank_ok (st_sh s) b (st_r s) (st_u s) Hnewb Hbmax) as Hold. cbn zeta in Hold. rewrite Hbn in Hold.
  pose proof (append_blank_sums (st_sh s) b (st_r s) (st_u s) Hnewb Hbmax) as Hsums. cbn zeta in Hsums. rewrite Hbn in Hsums.
  assert (Hoth : forall x, In x (st_sh s) -> q_name x <> n).
  { intros x Hx E. apply Hnew. rewrite <- E. apply in_map. exact Hx. }
  assert (HPo : forall x, In x (st_sh s) -> fupd (st_p s) n [] (q_name x) = st_p s (q_name x))
    by (intros x Hx; apply fupd_other; apply Hoth; exact Hx).
  assert (HRo : forall x, In x (st_sh s) -> fupd (st_r s) n r0 (q_name x) = st_r s (q_name x))
    by (intros x Hx; apply fupd_other; apply Hoth; exact Hx).
  assert (HUo : forall x, In x (st_sh s) -> fupd (st_u s) n u0 (q_name x) = st_u s (q_name x))
    by (intros x Hx; apply fupd_other; apply Hoth; exact Hx).
  constructor; cbn [st_sh st_r st_u st_p].
  - exact Hshape2.
  - rewrite all_pod_ids_eq. cbn [st_sh st_p]. apply nodup_cnt. intros x. rewrite cnt_all_snoc, Hbn, fupd_same.
    rewrite (all_ids_ext (st_sh s) (st_p s) (fupd (st_p s) n [])) by (intros y Hy; rewrite (HPo y Hy); reflexivity).
    pose proof (proj1 (nodup_cnt _) Hids x) as Hle. rewrite all_pod_ids_eq in Hle. cbn. lia.
  - intros x Hx. apply in_app_or in Hx. destruct Hx as [Hx|[<-|[]]].
    + destruct (Hq x Hx) as [HA HN HB HU HUN HS Hpr Hpu Hpo].
      destruct (Hold x Hx) as (O1 & O2 & O3 & O4 & O5).
      constructor; cbn [st_sh st_r st_u st_p]; auto.
      * unfold okS in *. cbn [st_r st_u st_p]. rewrite (HPo x Hx), (HRo x Hx), (HUo x Hx). exact HS.
      * rewrite (HRo x Hx). exact Hpr.
      * rewrite (HUo x Hx). exact Hpu.
      * rewrite (HPo x Hx). exact Hpo.
    + destruct (Hsums n) as (E1 & E2 & E3 & E4).
      rewrite (sumc_no_children _ _ _ Hnochild) in E1. rewrite (sumc_no_children _ _ _ Hnochild) in E2.
      rewrite (sumc_no_children _ _ _ Hnochild) in E3. rewrite (sumc_no_children _ _ _ Hnochild) in E4.
      constructor; cbn [st_sh st_r st_u st_p]; rewrite ?Hbn.
      * unfold okA. rewrite Hbn, E1, fupd_same. cbn [r_creq r_sreq r0]. rewrite vadd_0_l. reflexivity.
      * unfold okN. rewrite Hbn, E2, fupd_same. cbn [r_np r_snp r0]. rewrite vadd_0_l. reflexivity.
      * unfold okB. rewrite Hbn, fupd_same. cbn [r_req r_creq r0]. symmetry. apply freq_blank. exact Hbmin.
      * unfold okU. rewrite Hbn, E3, fupd_same. cbn [u_used u_sused u0]. rewrite vadd_0_l. reflexivity.
      * unfold okUN. rewrite Hbn, E4, fupd_same. cbn [u_np u_snp u0]. rewrite vadd_0_l. reflexivity.
      * unfold okS. cbn [st_r st_u st_p]. rewrite !fupd_same. cbn. auto.
      * rewrite fupd_same. apply nonneg_r_iff. cbn [r0 r_req r_creq r_sreq r_np r_snp]. repeat split; apply vnonneg_zero.
      * rewrite fupd_same. apply nonneg_u_iff. cbn [u0 u_used u_sused u_np u_snp]. repeat split; apply vnonneg_zero.
      * rewrite fupd_same. constructor.
  - intros x Hx. apply in_app_or in Hx. destruct Hx as [Hx|[<-|[]]].
    + rewrite (HPo x Hx). apply Hquiet. exact Hx.
    + rewrite Hbn, fupd_same. reflexivity.
Qed.

(* ---------- max / min changes on a consistent state ---------- *)

Lemma zero_not_name sh : ShapeOk sh -> ~ In 0 (names sh).
Proof.
  intros H Hin. apply in_map_iff in Hin. destruct Hin as [q [E Hq]].
  apply (shape_nonzero _ H q Hq E).
Qed.

Lemma do_update_max_inv s n q m : Inv s -> find (st_sh s) n = Some q -> vnonneg m ->
  Inv (do_update_max s n m) /\ find (st_sh (do_update_max s n m)) n = Some (with_max q m).
Proof.
  intros HI Hf Hm. pose proof (inv_mid s 0 HI) as HM.
  destruct (mid_chain s 0 n q HM Hf) as (rest & Hch & _ & _).
  destruct (do_update_max_mid s 0 n q rest m HM Hf Hch (fun H => reaches_nonzero _ _ _ Hch (or_intror H)) Hm)
    as (M & Hsh & _).
  split.
  - apply (mid_inv _ 0 M). apply zero_not_name. apply (mid_shape _ _ M).
  - rewrite Hsh. apply (upd_const_find_same (st_sh s) n q (with_max q m) Hf eq_refl eq_refl).
Qed.

Lemma do_update_min_inv s n q m : Inv s -> find (st_sh s) n = Some q -> vnonneg m ->
  Inv (do_update_min s n m) /\ find (st_sh (do_update_min s n m)) n = Some (with_min q m).
Proof.
  intros HI Hf Hm. pose proof (inv_mid s 0 HI) as HM.
  destruct (mid_chain s 0 n q HM Hf) as (rest & Hch & _ & _).
  destruct (do_update_min_mid s 0 n q rest m HM Hf Hch (fun H => reaches_nonzero _ _ _ Hch (or_intror H)) Hm)
    as (M & Hsh & _).
  split.
  - apply (mid_inv _ 0 M). apply zero_not_name. apply (mid_shape _ _ M).
  - rewrite Hsh. apply (upd_const_find_same (st_sh s) n q (with_min q m) Hf eq_refl eq_refl).
Qed.

Lemma update_internal_old_inv s sp loc :
  Inv s -> find (st_sh s) (q_name sp) = Some loc -> vnonneg (q_max sp) -> vnonneg (q_min sp) ->
  Inv (update_internal s sp (Some loc)).
Proof.
  intros HI Hf Hmax Hmin. unfold update_internal.
  destruct (negb (veqb (q_max sp) (q_max loc))).
  - destruct (do_update_max_inv s (q_name sp) loc (q_max sp) HI Hf Hmax) as [HI2 Hf2].
    destruct (negb (veqb (q_min sp) (q_min loc))); [|exact HI2].
    apply (do_update_min_inv _ _ _ _ HI2 Hf2 Hmin).
  - destruct (negb (veqb (q_min sp) (q_min loc))); [|exact HI].
    apply (do_update_min_inv _ _ _ _ HI Hf Hmin).
Qed.

Lemma update_internal_new_inv s sp :
  Inv s -> find (st_sh s) (q_name sp) = None -> 3 <= q_name sp ->
  parent_ok (st_sh s) (q_parent sp) = true -> q_parent sp <> q_name sp ->
  vnonneg (q_max sp) -> vnonneg (q_min sp) ->
  Inv (update_internal s sp None).
Proof.
  intros HI Hf H3 Hpok Hpne Hmax Hmin. unfold update_internal.
  apply find_none in Hf.
  pose proof (add_blank_new_inv s sp HI Hf H3 Hpok Hpne) as HI1.
  assert (Hf1 : find (st_sh (add_blank s sp [])) (q_name sp) = Some (blank sp)).
  { unfold add_blank. cbn [st_sh]. apply (find_snoc_new (st_sh s) (blank sp)). exact Hf. }
  destruct (do_update_max_inv _ _ _ (q_max sp) HI1 Hf1 Hmax) as [HI2 Hf2].
  apply (do_update_min_inv _ _ _ _ HI2 Hf2 Hmin).
Qed.

(* ---------- ResetQuota and the flag change (full rebuild) ---------- *)

Lemma leaf_figures s q : Inv s -> In q (st_sh s) -> (forall c, In c (st_sh s) -> q_parent c <> q_name q) ->
  let r := st_r s (q_name q) in let u := st_u s (q_name q) in
  r_creq r = r_sreq r /\ r_np r = r_snp r /\ u_used u = u_sused u /\ u_np u = u_snp u.
Proof.
  intros HI Hq Hnc. destruct (inv_q _ HI q Hq) as [HA HN _ HU HUN _ _ _ _].
  unfold okA, okN, okU, okUN in *.
  rewrite (sumc_no_children _ _ _ Hnc) in HA. rewrite (sumc_no_children _ _ _ Hnc) in HN.
  rewrite (sumc_no_children _ _ _ Hnc) in HU. rewrite (sumc_no_children _ _ _ Hnc) in HUN.
  rewrite vadd_0_r in HA, HN, HU, HUN. cbn zeta. auto.
Qed.

Lemma not_parent_no_children sh q : ShapeOk sh -> In q sh -> q_isparent q = false ->
  forall c, In c sh -> q_parent c <> q_name q.
Proof.
  intros Hshape Hq Hisp c Hc E. destruct (so_par _ Hshape c Hc) as [H0|[_ [pq [Hfp Hip]]]].
  - apply (shape_nonzero _ Hshape q Hq). congruence.
  - rewrite E in Hfp. rewrite (in_find _ _ (so_nodup _ Hshape) Hq) in Hfp. injection Hfp as <-. congruence.
Qed.

Lemma inv_prereset s : Inv s -> SpecOk (st_sh s) -> PreReset s.
Proof.
  intros HI Hspec. pose proof (inv_shape _ HI) as Hshape.
  constructor; auto.
  - apply (inv_ids _ HI).
  - apply (inv_quiet _ HI).
  - intros q Hq. apply (inv_q _ HI q Hq).
  - intros q Hq. apply (inv_q _ HI q Hq).
  - intros q Hq. apply (inv_q _ HI q Hq).
  - intros q Hq. apply (inv_q _ HI q Hq).
  - intros q Hq _. destruct (inv_q _ HI q Hq); auto.
  - intros q Hq _. destruct (inv_q _ HI q Hq) as [_ _ _ _ _ HS _ _ _]. destruct HS as (S1 & S2 & S3 & S4).
    unfold saved_of, selfs. cbn [snd]. destruct (q_isparent q) eqn:E; [congruence|].
    destruct (leaf_figures s q HI Hq (not_parent_no_children _ q Hshape Hq E)) as (L1 & L2 & L3 & L4).
    congruence.
Qed.

Lemma reset_op_inv s : Inv s -> SpecOk (st_sh s) -> Inv (reset s) /\ st_sh (reset s) = st_sh s.
Proof. intros HI Hspec. apply reset_inv. apply inv_prereset; assumption. Qed.

Lemma upd_sh_const_eq sh n f q : NoDup (names sh) -> find sh n = Some q ->
  upd_sh sh n f = upd_sh sh n (fun _ => f q).
Proof.
  intros Hnd Hf. unfold upd_sh. apply map_ext_in. intros c Hc.
  destruct (q_name c =? n) eqn:E; [|reflexivity]. apply Z.eqb_eq in E.
  assert (c = q) by (rewrite <- E in Hf; rewrite (in_find _ _ Hnd Hc) in Hf; congruence). subst c. reflexivity.
Qed.

Lemma special_ge3 n : 3 <= n -> special n = false.
Proof. intros H. unfold special. apply orb_false_intro; apply Z.eqb_neq; lia. Qed.

Lemma flag_change_inv s sp loc :
  Inv s -> SpecOk (st_sh s) -> find (st_sh s) (q_name sp) = Some loc -> q_parent loc = q_parent sp ->
  3 <= q_name sp -> vnonneg (q_max sp) -> vnonneg (q_min sp) ->
  (q_isparent sp = true \/ forall c, In c (st_sh s) -> q_parent c <> q_name sp) ->
  let s' := reset (set_sh s (upd_sh (st_sh s) (q_name sp) (from_remote sp))) in
  Inv s' /\ st_sh s' = upd_sh (st_sh s) (q_name sp) (fun _ => from_remote sp loc).
Proof.
  intros HI Hspec Hf Hpar H3 Hmax Hmin Hisp s'.
  pose proof (inv_shape _ HI) as Hshape. pose proof (so_nodup _ Hshape) as Hnd.
  set (n := q_name sp) in *. set (q' := from_remote sp loc).
  assert (Hq'n : q_name q' = q_name loc) by reflexivity.
  assert (Hq'p : q_parent q' = q_parent loc) by (cbn; congruence).
  assert (Hlocn : q_name loc = n) by (eapply find_name; eauto).
  assert (Hlocin : In loc (st_sh s)) by (eapply find_in; eauto).
  unfold s'. rewrite (upd_sh_const_eq (st_sh s) n (from_remote sp) loc Hnd Hf). fold q'.
  set (sh' := upd_sh (st_sh s) n (fun _ => q')).
  assert (Hshape' : ShapeOk sh').
  { apply (shape_upd (st_sh s) n loc q' Hshape Hf Hq'n Hq'p); auto. }
  assert (Hin' : forall x, In x sh' -> (x = q' /\ q_name x = n) \/ (In x (st_sh s) /\ q_name x <> n)).
  { intros x Hx. apply (setshape_in (st_sh s) n q') in Hx. destruct Hx as [c [Hc ->]].
    destruct (q_name c =? n) eqn:E; [left; split; [reflexivity | cbn; exact Hlocn] | right; split; [exact Hc | apply Z.eqb_neq; exact E]]. }
  assert (Hnm : forall x, In x sh' -> exists c, In c (st_sh s) /\ q_name c = q_name x).
  { intros x Hx. destruct (Hin' x Hx) as [[-> E]|[Hc _]]; [exists loc; split; [exact Hlocin | cbn; reflexivity] | exists x; auto]. }
  assert (HPR : PreReset (set_sh s sh')).
  { constructor; cbn [st_sh st_r st_u st_p set_sh].
    - exact Hshape'.
    - intros x Hx Hs. destruct (Hin' x Hx) as [[_ E]|[Hc _]]; [rewrite E, (special_ge3 _ H3) in Hs; discriminate | apply Hspec; assumption].
    - change (NoDup (all_ids sh' (st_p s))). rewrite all_ids_by_names. unfold sh'.
      rewrite (upd_const_names (st_sh s) n loc q' Hnd Hf Hq'n), <- all_ids_by_names. apply (inv_ids _ HI).
    - intros x Hx. destruct (Hnm x Hx) as [c [Hc E]]. rewrite <- E. apply (inv_quiet _ HI). exact Hc.
    - intros x Hx. destruct (Hnm x Hx) as [c [Hc E]]. rewrite <- E. apply (inv_q _ HI c Hc).
    - intros x Hx. destruct (Hnm x Hx) as [c [Hc E]]. rewrite <- E. apply (inv_q _ HI c Hc).
    - intros x Hx. destruct (Hnm x Hx) as [c [Hc E]]. rewrite <- E. apply (inv_q _ HI c Hc).
    - intros x Hx. destruct (Hnm x Hx) as [c [Hc E]]. rewrite <- E. apply (inv_q _ HI c Hc).
    - intros x Hx Hs. destruct (Hin' x Hx) as [[_ E]|[Hc Hne]]; [rewrite E, (special_ge3 _ H3) in Hs; discriminate|].
      destruct (inv_q _ HI x Hc) as [HA HN HB HU HUN _ _ _ _].
      assert (Hpn : (q_parent loc =? q_name x) = false).
      { apply Z.eqb_neq. intros E. destruct (so_par _ Hshape loc Hlocin) as [H0|[H3' _]].
        - apply (shape_nonzero _ Hshape x Hc). congruence.
        - rewrite E in H3'. rewrite (special_ge3 _ H3') in Hs. discriminate. }
      unfold okA, okN, okU, okUN, sh' in *.
      rewrite !(sumc_upd_const (st_sh s) n loc q' Hnd Hf Hq'n Hq'p), Hpn. auto.
    - intros x Hx Hs. unfold saved_of, selfs. cbn [snd st_r st_u st_p set_sh].
      destruct (Hin' x Hx) as [[-> E]|[Hc Hne]].
      + destruct (inv_q _ HI loc Hlocin) as [_ _ _ _ _ HS _ _ _]. destruct HS as (S1 & S2 & S3 & S4).
        rewrite Hq'n, Hlocn in *. cbn [q' from_remote q_isparent].
        destruct (q_isparent sp) eqn:Ei; [congruence|].
        destruct Hisp as [Hisp|Hisp]; [congruence|].
        assert (Hnc : forall c, In c (st_sh s) -> q_parent c <> q_name loc) by (rewrite Hlocn; exact Hisp).
        destruct (leaf_figures s loc HI Hlocin Hnc) as (L1 & L2 & L3 & L4). rewrite Hlocn in *. congruence.
      + destruct (inv_q _ HI x Hc) as [_ _ _ _ _ HS _ _ _]. destruct HS as (S1 & S2 & S3 & S4).
        destruct (q_isparent x) eqn:Ei; [congruence|].
        destruct (leaf_figures s x HI Hc (not_parent_no_children _ x Hshape Hc Ei)) as (L1 & L2 & L3 & L4). congruence. }
  destruct (reset_inv _ HPR) as [HI' Hsh']. split; [exact HI' | exact Hsh'].
Qed.

End WithDim.
