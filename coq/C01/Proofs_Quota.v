(* C01 — quota handlers preserve the invariant: DeleteQuota, UpdateQuota (create, max/min change,
   re-parenting, flag change with full rebuild), ResetQuota. *)
From Coq Require Import List ZArith Bool Lia.
From Verif Require Import Lib.Vec2 C01.Model C01.Spec C01.Proofs_Base C01.Proofs_Walk C01.Proofs_Delta
  C01.Proofs_PodList C01.Proofs_Sections C01.Proofs_Shape C01.Proofs_CWalk C01.Proofs_Detach.
Import ListNotations.
Open Scope Z_scope.

Lemma has_children_false sh n : has_children sh n = false <-> forall c, In c sh -> q_parent c <> n.
Proof.
  unfold has_children. split.
  - intros H c Hc E. assert (existsb (fun c0 => q_parent c0 =? n) sh = true); [|congruence].
    apply existsb_exists. exists c. split; [exact Hc | apply Z.eqb_eq; exact E].
  - intros H. destruct (existsb (fun c => q_parent c =? n) sh) eqn:E; [|reflexivity].
    apply existsb_exists in E. destruct E as [c [Hc E]]. apply Z.eqb_eq in E. exfalso. eapply H; eauto.
Qed.

(* ---------- components of delete_quota ---------- *)

Lemma delete_quota_comp s n q : find (st_sh s) n = Some q ->
  let sh1 := remove_sh (st_sh s) n in
  let s' := delete_quota s n in
  st_sh s' = sh1 /\
  st_r s' = cwalk_req sh1 (fupd (st_r s) n r0) (q_parent q)
              (vsub vzero (lim q (st_r s n))) (vsub vzero (r_np (st_r s n))) false /\
  st_u s' = cwalk_used sh1 (fupd (st_u s) n u0) (q_parent q)
              (vsub vzero (u_used (st_u s n))) (vsub vzero (u_np (st_u s n))) false /\
  st_p s' = fupd (st_p s) n [].
Proof.
  intros Hf. cbn zeta. unfold delete_quota. rewrite Hf. unfold cwalk_req, cwalk_used, nz2.
  destruct (negb (viszero (vsub vzero (lim q (st_r s n)))) || negb (viszero (vsub vzero (r_np (st_r s n)))));
  destruct (negb (viszero (vsub vzero (u_used (st_u s n)))) || negb (viszero (vsub vzero (u_np (st_u s n)))));
  cbn; auto.
Qed.

Lemma nodup_all_ids_remove sh P n : NoDup (all_ids sh P) -> NoDup (all_ids (remove_sh sh n) P).
Proof.
  rewrite !nodup_cnt. intros H x. specialize (H x).
  assert (cnt x (all_ids (remove_sh sh n) P) <= cnt x (all_ids sh P))%nat; [|lia].
  clear H. unfold all_ids, remove_sh. induction sh as [|y t IH]; [apply le_n|].
  cbn [filter flat_map]. destruct (negb (q_name y =? n)); cbn [flat_map]; rewrite ?cnt_app; lia.
Qed.

Lemma inv_qagg s : Inv s ->
  PosR (st_sh s) (st_r s) /\ PosU (st_sh s) (st_u s) /\
  (forall q0, In q0 (st_sh s) -> okA (st_sh s) (st_r s) q0) /\
  (forall q0, In q0 (st_sh s) -> okN (st_sh s) (st_r s) q0) /\
  (forall q0, In q0 (st_sh s) -> okB (st_r s) q0) /\
  (forall q0, In q0 (st_sh s) -> okU (st_sh s) (st_u s) q0) /\
  (forall q0, In q0 (st_sh s) -> okUN (st_sh s) (st_u s) q0).
Proof.
  intros HI. repeat split; intros q0 Hq0; apply (inv_q _ HI q0 Hq0).
Qed.

(* ---------- DeleteQuota of a leaf ---------- *)

Lemma delete_quota_inv s n : Inv s -> wf_op s (OpQuotaDelete n) = true -> Inv (delete_quota s n).
Proof.
  intros HI Hwf. cbn [wf_op] in Hwf. apply andb_prop in Hwf. destruct Hwf as [_ Hleaf].
  apply negb_true_iff, has_children_false in Hleaf.
  destruct (find (st_sh s) n) as [q|] eqn:Hf; [|unfold delete_quota; rewrite Hf; exact HI].
  destruct (delete_quota_comp s n q Hf) as (Hsh & HR & HU & HP).
  destruct (inv_qagg _ HI) as (Hpr & Hpu & HA & HN & HB & HUo & HUNo).
  pose proof (inv_shape _ HI) as Hshape.
  destruct (detach_req (st_sh s) Hshape n q Hf (st_r s) Hpr (fun q0 H _ => HA q0 H) (fun q0 H _ => HN q0 H) (fun q0 H _ => HB q0 H))
    as (R1 & R2 & R3 & R4 & _).
  destruct (detach_used (st_sh s) Hshape n q Hf (st_u s) Hpu (fun q0 H _ => HUo q0 H) (fun q0 H _ => HUNo q0 H))
    as (U1 & U2 & U3 & _).
  rewrite <- HR in R1, R2, R3, R4. rewrite <- HU in U1, U2, U3.
  set (s' := delete_quota s n) in *.
  assert (Hin1 : forall x, In x (st_sh s') -> In x (st_sh s) /\ q_name x <> n).
  { intros x Hx. rewrite Hsh in Hx. apply in_remove in Hx. exact Hx. }
  assert (HPo : forall x, In x (st_sh s') -> st_p s' (q_name x) = st_p s (q_name x)).
  { intros x Hx. rewrite HP. apply fupd_other. apply Hin1. exact Hx. }
  constructor.
  - rewrite Hsh. apply shape_remove_leaf; assumption.
  - rewrite all_pod_ids_eq, Hsh.
    rewrite (all_ids_ext (remove_sh (st_sh s) n) (st_p s) (st_p s')).
    + apply nodup_all_ids_remove. apply (inv_ids _ HI).
    + intros x Hx. rewrite <- Hsh in Hx. rewrite (HPo x Hx). reflexivity.
  - intros q0 Hq0. destruct (Hin1 q0 Hq0) as [Hq0' Hne].
    destruct (inv_q _ HI q0 Hq0') as [_ _ _ _ _ HS _ _ Hpo].
    rewrite Hsh in Hq0. destruct (R3 q0 Hq0) as [HA' HN']. destruct (U2 q0 Hq0) as [HU' HUN'].
    rewrite <- Hsh in Hq0.
    constructor; try rewrite Hsh; auto.
    + rewrite <- Hsh in R2. apply R2. exact Hq0.
    + unfold okS in *. destruct (R4 _ Hne) as [E1 E2]. destruct (U3 _ Hne) as [E3 E4].
      rewrite E1, E2, E3, E4, (HPo q0 Hq0). exact HS.
    + rewrite <- Hsh in R1. apply R1. exact Hq0.
    + rewrite <- Hsh in U1. apply U1. exact Hq0.
    + rewrite (HPo q0 Hq0). exact Hpo.
  - intros q0 Hq0. rewrite (HPo q0 Hq0). apply (inv_quiet _ HI). apply Hin1. exact Hq0.
Qed.
