(* C01 — flat-integer interface of the model for the generic OCaml driver, stream "history"
   (wire format: see Codec.v). *)
From Coq Require Import List ZArith Bool.
From Verif Require Import Lib.Wire Lib.Vec2 C01.Model C01.Spec C01.Codec.
Import ListNotations.
Open Scope Z_scope.

Definition run_case (inp : list Z) : list Z :=
  let '(sm, dm, ops) := decode inp in
  flat_map observe (trace (init sm dm) ops).

Definition prop_case (inp obs : list Z) : Z :=
  let '(sm, dm, ops) := decode inp in
  if negb (wf_init sm dm) then 0
  else if (hdZ obs =? -777777) && (Nat.eqb (length obs) 1) then 98   (* the implementation panicked *)
  else check_steps (length ops) (st_sh (init sm dm)) (init sm dm) [] ops obs.

Definition parent_busy (s : state) : bool :=
  existsb (fun q => has_children (st_sh s) (q_name q) && negb (viszero (r_creq (st_r s (q_name q))))
                    && negb (viszero (u_used (st_u s (q_name q))))) (st_sh s).

(* non-trivial: the whole history obeys the discipline and at some point a quota with children
   carries both request and usage (so propagation over at least two levels was exercised) *)
Definition nontrivial_case (inp : list Z) : bool :=
  let '(sm, dm, ops) := decode inp in
  wf_init sm dm && wf_history (init sm dm) ops
  && existsb parent_busy (trace (init sm dm) ops).

Definition finding_sig (inp obs : list Z) : Z := 0.

Require Extraction.
Require Import ExtrOcamlBasic.
Extraction "model.ml" run_case prop_case nontrivial_case finding_sig.
