(* C01 — flat-integer interface of the model for the generic OCaml driver, stream "history"
   (wire format: see Codec.v). *)
From Coq Require Import List ZArith Bool.
From Verif Require Import Lib.Wire Lib.VecN C01.Dim2 C01.Model C01.Spec C01.Root C01.Codec.
Import ListNotations.
Open Scope Z_scope.

(* the harness speaks the two-dimensional instance (cpu, memory) of the wire format; the model, the
   specification and the theorems are for an arbitrary dimension count (Lib/VecN) *)
Local Existing Instance D2.

Definition run_case (inp : list Z) : list Z :=
  let '(sm, dm, ops) := decode inp in
  flat_map xobserve (xtrace (xinit sm dm) ops).

Definition prop_case (inp obs : list Z) : Z :=
  let '(sm, dm, ops) := decode inp in
  if negb (wf_init sm dm) then 0
  else if (hdZ obs =? -777777) && (Nat.eqb (length obs) 1) then 98   (* the implementation panicked *)
  else check_steps (length ops) (st_sh (init sm dm)) (init sm dm) [] ops obs.

Definition parent_busy (s : state) : bool :=
  existsb (fun q => has_children (st_sh s) (q_name q) && negb (viszero (r_creq (st_r s (q_name q))))
                    && negb (viszero (u_used (st_u s (q_name q))))) (st_sh s).

(* non-trivial: the whole history obeys the discipline and at some point a quota with children
   carries both request and usage (so propagation over at least two levels was exercised) *)
Definition nontrivial_case (inp : list Z) : bool :=
  let '(sm, dm, ops) := decode inp in
  wf_init sm dm && wf_history (init sm dm) ops
  && existsb parent_busy (trace (init sm dm) ops).

Fixpoint eq_listZ (a b : list Z) : bool :=
  match a, b with
  | [], [] => true
  | x :: a', y :: b' => (x =? y) && eq_listZ a' b'
  | _, _ => false
  end.

(* the first failing clause of the MODEL along a history that obeys the discipline (0: none) *)
Fixpoint model_code (fuel : nat) (x : xstate) (rest : list op) : Z :=
  match fuel, rest with
  | S f, o :: t =>
      if wf_op (x_s x) o then
        let x' := xstep x o in
        let c := if negb (state_code (x_s x') =? 0) then state_code (x_s x') else root_code (x_s x') (x_root x') in
        if c =? 0 then model_code f x' t else c
      else 0
  | _, _ => 0
  end.

(* sig 3: the tree was rebuilt (ResetQuota / lend or is-parent flag change) while the system or the
   default quota asked for more than its max: resetRootQuotaUsedAndRequest adds their UNLIMITED
   Request to the root entry, which keeps the surplus for ever. The shape only explains an
   observable that is exactly the faithful model's, whose first failing clause is the root's
   Request (15) and whose history contains such a rebuild. *)
Definition finding_sig (inp obs : list Z) : Z :=
  let '(sm, dm, ops) := decode inp in
  if eq_listZ obs (run_case inp) && negb (benign_history (init sm dm) ops)
     && (model_code (length ops) (xinit sm dm) ops =? 15)
  then 3 else 0.

Require Extraction.
Require Import ExtrOcamlBasic.
Extraction "model.ml" run_case prop_case nontrivial_case finding_sig.
