(* C01 — updateQuotaNoLockWhenParentChange: the quota is deleted, re-created blank under its new
   parent with its PodCache, gets its max and min, and then its own and its children's figures
   are propagated again. *)
From Coq Require Import List ZArith Bool Lia.
From Verif Require Import Lib.VecN C01.Model C01.Spec C01.Proofs_Base C01.Proofs_Walk C01.Proofs_Delta
  C01.Proofs_PodList C01.Proofs_Sections C01.Proofs_Shape C01.Proofs_CWalk C01.Proofs_Detach
  C01.Proofs_SetMaxMin C01.Proofs_Mid C01.Proofs_Reset C01.Proofs_Quota.
Import ListNotations.
Open Scope Z_scope.

Section WithDim.
Context {D : Dim}.

Lemma cnt_all_remove sh P n q x : NoDup (names sh) -> find sh n = Some q ->
  (cnt x (all_ids (remove_sh sh n) P) + cnt x (ids (P n)) = cnt x (all_ids sh P))%nat.
Proof.
  unfold all_ids, remove_sh. induction sh as [|y t IH]; intros Hnd Hf; [discriminate|].
  cbn [names map] in Hnd. inversion Hnd as [|? ? Hy Ht]; subst.
  cbn [find] in Hf. cbn [filter flat_map]. destruct (q_name y =? n) eqn:E; cbn [negb].
  - apply Z.eqb_eq in E. rewrite cnt_app, E.
    assert (Hrest : filter (fun q0 => negb (q_name q0 =? n)) t = t).
    { apply filter_all. intros z Hz. apply negb_true_iff, Z.eqb_neq. intros Ez. apply Hy. rewrite E, <- Ez. apply in_map. exact Hz. }
    rewrite Hrest. lia.
  - cbn [flat_map]. rewrite !cnt_app. specialize (IH Ht Hf). lia.
Qed.

(* a child of n is not among the ancestors of a quota whose chain avoids n *)
Lemma child_not_on_chain sh m l n c :
  reaches sh m l -> ~ In n l -> n <> 0 -> find sh (q_name c) = Some c -> q_name c <> 0 -> q_parent c = n ->
  ~ In (q_name c) l.
Proof.
  intros Hr Hn Hn0 Hfc Hc0 Hp Hin.
  destruct (reaches_suffix _ _ _ Hr _ Hin) as (l1 & l2 & -> & H2).
  destruct (reaches_inv _ _ _ H2 Hc0) as (c' & t & Hf' & -> & Hrt). rewrite Hfc in Hf'. injection Hf' as <-.
  rewrite Hp in Hrt. apply Hn. apply in_or_app. right. right.
  destruct (reaches_head _ _ _ Hrt Hn0) as [t' ->]. left. reflexivity.
Qed.

Section Reparent.
  Variables (s : state) (sp old : qshape).
  Hypothesis HI : Inv s.
  Local Notation sh := (st_sh s).
  Local Notation n := (q_name sp).
  Hypothesis Hf : find sh n = Some old.
  Hypothesis H3 : 3 <= n.
  Hypothesis Hpok : parent_ok sh (q_parent sp) = true.
  Hypothesis Hpne : q_parent sp <> n.
  Hypothesis Hcyc : ~ In n (pathf sh (q_parent sp)).
  Hypothesis Hisp : q_isparent sp = true \/ forall c, In c sh -> q_parent c <> n.

  Let Hshape := inv_shape _ HI.
  Let Hnd := so_nodup _ Hshape.
  Let Hnz := shape_nonzero _ Hshape.

  Let b := blank sp.
  Let sh1 := remove_sh sh n.
  Let sh2 := sh1 ++ [b].
  Let s1 := delete_quota s n.
  Let s2 := add_blank s1 sp (st_p s n).

  Lemma rp_old : In old sh /\ q_name old = n.
  Proof. split; [eapply find_in; eauto | eapply find_name; eauto]. Qed.

  Lemma rp_newchain : exists lp', reaches sh (q_parent sp) lp' /\ ~ In n lp'.
  Proof.
    destruct (parent_ok_cases _ _ Hpok) as [H0|[_ [pq [Hfp _]]]].
    - exists []. rewrite H0. split; [constructor | auto].
    - destruct (shape_reach_find _ _ _ Hshape Hfp) as [l Hl]. exists l. split; [exact Hl|].
      rewrite (shape_pathf _ _ _ Hshape Hl) in Hcyc. exact Hcyc.
  Qed.

  Lemma rp_shape2 : ShapeOk sh2.
  Proof.
    destruct rp_newchain as (lp' & Hlp' & Hnlp').
    apply (shape_reparent sh n old b lp' Hshape Hf eq_refl H3 Hpok Hpne Hlp' Hnlp' Hisp); cbn; apply vnonneg_zero.
  Qed.

  Lemma rp_sh2 : st_sh s2 = sh2.
  Proof.
    unfold s2, add_blank. cbn [st_sh]. unfold s1. destruct (delete_quota_comp s n old Hf) as (E & _). rewrite E. reflexivity.
  Qed.

  Lemma rp_in1 x : In x sh1 -> In x sh /\ q_name x <> n.
  Proof. intros Hx. apply in_remove in Hx. exact Hx. Qed.

  Lemma rp_new1 : ~ In (q_name b) (names sh1).
  Proof. apply not_in_names_remove. Qed.

  (* sums over the children of any quota, in the new list *)
  Lemma rp_sumc_n (g : qshape -> vec) : sumc sh2 g n = sumc sh g n.
  Proof.
    unfold sh2. rewrite sumc_snoc. unfold sh1. rewrite (sumc_remove sh g n old n Hnd Hf).
    assert (E1 : (q_parent old =? n) = false).
    { apply Z.eqb_neq. intros E. destruct (so_reach _ Hshape old (proj1 rp_old)) as [l Hl].
      rewrite (proj2 rp_old) in Hl. assert (Hn0 : n <> 0) by lia.
      destruct (reaches_inv _ _ _ Hl Hn0) as (o & t & Hfo & -> & Hrt). rewrite Hf in Hfo. injection Hfo as <-.
      rewrite E in Hrt. destruct (reaches_head _ _ _ Hrt Hn0) as [t' ->].
      pose proof (reaches_nodup _ _ _ Hl) as Hd. inversion Hd as [|? ? Hx _]; subst. apply Hx. left. reflexivity. }
    rewrite E1. assert (E2 : (q_parent b =? n) = false) by (apply Z.eqb_neq; exact Hpne).
    rewrite E2. apply vadd_0_r.
  Qed.

  (* the state after deleteQuotaNoLock + the blank re-creation *)
  Lemma rp_blank :
    Mid s2 n /\
    find (st_sh s2) n = Some b /\
    st_r s2 n = r0 /\ st_u s2 n = u0 /\
    (forall k, st_p s2 k = st_p s k) /\
    (forall c, In c sh -> q_parent c = n -> st_r s2 (q_name c) = st_r s (q_name c) /\ st_u s2 (q_name c) = st_u s (q_name c)).
  Proof.
    destruct (delete_quota_comp s n old Hf) as (Esh & ER & EU & EP).
    destruct (inv_qagg _ HI) as (Hpr & Hpu & HA & HN & HB & HUo & HUNo).
    destruct (detach_req sh Hshape n old Hf (st_r s) Hpr (fun q0 H _ => HA q0 H) (fun q0 H _ => HN q0 H) (fun q0 H _ => HB q0 H))
      as (R1 & R2 & R3 & R4 & R5).
    destruct (detach_used sh Hshape n old Hf (st_u s) Hpu (fun q0 H _ => HUo q0 H) (fun q0 H _ => HUNo q0 H))
      as (U1 & U2 & U3 & U4).
    rewrite <- ER in R1, R2, R3, R4, R5. rewrite <- EU in U1, U2, U3, U4.
    fold s1 in Esh, EP, R1, R2, R3, R4, R5, U1, U2, U3, U4.
    assert (Es2 : s2 = mkSt (st_sh s1 ++ [b]) (fupd (st_r s1) n r0) (fupd (st_u s1) n u0) (fupd (st_p s1) n (st_p s n))) by reflexivity.
    assert (Hsh2 : st_sh s2 = sh2) by apply rp_sh2.
    assert (HP2 : forall k, st_p s2 k = st_p s k).
    { intros k. rewrite Es2. cbn [st_p]. rewrite EP. unfold fupd. destruct (k =? n) eqn:E; [apply Z.eqb_eq in E; subst k|]; reflexivity. }
    pose proof rp_new1 as Hnew1. pose proof rp_shape2 as Hshape2.
    pose proof (append_blank_ok sh1 b (st_r s1) (st_u s1) Hnew1 eq_refl) as Hold. cbn zeta in Hold.
    change (q_name b) with n in Hold.
    assert (HR2o : forall x, In x sh1 -> st_r s2 (q_name x) = st_r s1 (q_name x)).
    { intros x Hx. rewrite Es2. cbn [st_r]. apply fupd_other. apply rp_in1. exact Hx. }
    assert (HU2o : forall x, In x sh1 -> st_u s2 (q_name x) = st_u s1 (q_name x)).
    { intros x Hx. rewrite Es2. cbn [st_u]. apply fupd_other. apply rp_in1. exact Hx. }
    assert (HR2n : st_r s2 n = r0) by (rewrite Es2; cbn [st_r]; apply fupd_same).
    assert (HU2n : st_u s2 n = u0) by (rewrite Es2; cbn [st_u]; apply fupd_same).
    assert (Hsplit : forall x, In x sh2 -> In x sh1 \/ x = b).
    { intros x Hx. unfold sh2 in Hx. apply in_app_or in Hx. destruct Hx as [Hx|[<-|[]]]; auto. }
    refine (conj _ (conj _ (conj HR2n (conj HU2n (conj HP2 _))))).
    - constructor; rewrite ?Hsh2.
      + exact Hshape2.
      + intros x Hx. destruct (Hsplit x Hx) as [Hx1| ->].
        * rewrite (HR2o x Hx1). apply R1. exact Hx1.
        * change (q_name b) with n. rewrite HR2n. apply nonneg_r0.
      + intros x Hx. destruct (Hsplit x Hx) as [Hx1| ->].
        * rewrite (HU2o x Hx1). apply U1. exact Hx1.
        * change (q_name b) with n. rewrite HU2n. apply nonneg_u0.
      + intros x Hx Hne. destruct (Hsplit x Hx) as [Hx1| ->]; [|exfalso; apply Hne; reflexivity].
        destruct (Hold x Hx1) as (O1 & O2 & O3 & _ & _).
        rewrite Es2. cbn [st_r st_sh].
        destruct (R3 x Hx1) as [A1 A2]. pose proof (R2 x Hx1) as A3.
        refine (conj (O1 A1) (conj (O2 A2) (O3 A3))).
      + intros x Hx Hne. destruct (Hsplit x Hx) as [Hx1| ->]; [|exfalso; apply Hne; reflexivity].
        destruct (Hold x Hx1) as (_ & _ & _ & O4 & O5).
        rewrite Es2. cbn [st_u st_sh].
        destruct (U2 x Hx1) as [A1 A2].
        exact (conj (O4 A1) (O5 A2)).
      + intros x Hx Hne. destruct (Hsplit x Hx) as [Hx1| ->]; [|exfalso; apply Hne; reflexivity].
        destruct (rp_in1 x Hx1) as [Hxs Hxn].
        destruct (inv_q _ HI x Hxs) as [_ _ _ _ _ HS _ _ _]. unfold okS in *.
        rewrite (HR2o x Hx1), (HU2o x Hx1), (HP2 (q_name x)).
        destruct (R4 _ Hxn) as [E1 E2]. destruct (U3 _ Hxn) as [E3 E4]. rewrite E1, E2, E3, E4. exact HS.
      + intros x Hx. rewrite (HP2 (q_name x)). destruct (Hsplit x Hx) as [Hx1| ->].
        * apply (inv_q _ HI x). apply rp_in1. exact Hx1.
        * change (q_name b) with n. rewrite <- (proj2 rp_old). apply (inv_q _ HI old). apply rp_old.
      + rewrite all_pod_ids_eq, Hsh2. rewrite (all_ids_ext sh2 (st_p s) (st_p s2)) by (intros x _; rewrite HP2; reflexivity).
        apply nodup_cnt. intros x. unfold sh2. rewrite cnt_all_snoc. change (q_name b) with n.
        unfold sh1. rewrite (cnt_all_remove sh (st_p s) n old x Hnd Hf).
        apply (proj1 (nodup_cnt _) (inv_ids _ HI)).
      + intros x Hx. rewrite (HP2 (q_name x)). destruct (Hsplit x Hx) as [Hx1| ->].
        * apply (inv_quiet _ HI x). apply rp_in1. exact Hx1.
        * change (q_name b) with n. rewrite <- (proj2 rp_old). apply (inv_quiet _ HI old). apply rp_old.
    - rewrite Hsh2. apply (find_snoc_new sh1 b Hnew1).
    - (* the children of n keep their aggregates *)
      intros c Hc Hp.
      assert (Hcn : q_name c <> n).
      { intros E. assert (c = old) by (rewrite <- E in Hf; rewrite (in_find _ _ Hnd Hc) in Hf; congruence). subst c.
        pose proof (rp_sumc_n (fun _ => vzero)) as _. 
        destruct (so_reach _ Hshape old Hc) as [l Hl]. rewrite E in Hl. assert (Hn0 : n <> 0) by lia.
        destruct (reaches_inv _ _ _ Hl Hn0) as (o & t & Hfo & -> & Hrt). rewrite Hf in Hfo. injection Hfo as <-.
        rewrite Hp in Hrt. destruct (reaches_head _ _ _ Hrt Hn0) as [t' ->].
        pose proof (reaches_nodup _ _ _ Hl) as Hd. inversion Hd as [|? ? Hx _]; subst. apply Hx. left. reflexivity. }
      assert (Hc1 : In c sh1) by (apply in_remove; auto).
      rewrite (HR2o c Hc1), (HU2o c Hc1).
      destruct (so_reach _ Hshape old (proj1 rp_old)) as [l Hl]. rewrite (proj2 rp_old) in Hl.
      assert (Hn0 : n <> 0) by lia.
      destruct (reaches_inv _ _ _ Hl Hn0) as (o & lp & Hfo & -> & Hrp). rewrite Hf in Hfo. injection Hfo as <-.
      assert (Hnin : ~ In (q_name c) lp).
      { pose proof (child_not_in_chain sh n (n :: lp) c Hl (in_find _ _ Hnd Hc) (Hnz c Hc) Hp) as H.
        intros Hin. apply H. right. exact Hin. }
      split; [apply (R5 lp Hrp); assumption | apply (U4 lp Hrp); assumption].
  Qed.
End Reparent.

(* ---------- guarded propagation on a state whose start quota is the exempted one ---------- *)

Definition cdelta_req (s : state) (n : Z) (a b : vec) (self : bool) : state :=
  if nz2 a b then delta_req s n a b self else s.
Definition cdelta_used (s : state) (n : Z) (a b : vec) (self : bool) : state :=
  if nz2 a b then delta_used s n a b self else s.

Lemma cdelta_req_comp s n a b self :
  st_sh (cdelta_req s n a b self) = st_sh s /\
  st_r (cdelta_req s n a b self) = cwalk_req (st_sh s) (st_r s) n a b self /\
  st_u (cdelta_req s n a b self) = st_u s /\ st_p (cdelta_req s n a b self) = st_p s.
Proof. unfold cdelta_req, cwalk_req. destruct (nz2 a b); cbn; auto. Qed.

Lemma cdelta_used_comp s n a b self :
  st_sh (cdelta_used s n a b self) = st_sh s /\
  st_u (cdelta_used s n a b self) = cwalk_used (st_sh s) (st_u s) n a b self /\
  st_r (cdelta_used s n a b self) = st_r s /\ st_p (cdelta_used s n a b self) = st_p s.
Proof. unfold cdelta_used, cwalk_used. destruct (nz2 a b); cbn; auto. Qed.

Lemma tail_not_head sh n l x : reaches sh n l -> n <> 0 -> In x (tl_ok l) -> x <> n.
Proof.
  intros Hr Hn0 Hin. destruct (reaches_head _ _ _ Hr Hn0) as [t ->]. cbn [tl_ok] in Hin.
  pose proof (reaches_nodup _ _ _ Hr) as Hd. inversion Hd; subst. intros ->. contradiction.
Qed.

Lemma cdelta_req_mid s n qn l a b self :
  Mid s n -> find (st_sh s) n = Some qn -> reaches (st_sh s) n l -> okB (st_r s) qn ->
  vnonneg (vadd (r_creq (st_r s n)) a) -> vnonneg (vadd (r_np (st_r s n)) b) ->
  (self = true -> vnonneg (vadd (r_sreq (st_r s n)) a) /\ vnonneg (vadd (r_snp (st_r s n)) b)) ->
  let s' := cdelta_req s n a b self in
  Mid s' n /\ st_sh s' = st_sh s /\ st_u s' = st_u s /\ st_p s' = st_p s /\
  st_r s' n = mkR (freq qn (vadd (r_creq (st_r s n)) a)) (vadd (r_creq (st_r s n)) a)
                  (if self then vadd (r_sreq (st_r s n)) a else r_sreq (st_r s n))
                  (vadd (r_np (st_r s n)) b)
                  (if self then vadd (r_snp (st_r s n)) b else r_snp (st_r s n)) /\
  sumc (st_sh s) (limR (st_r s')) n = sumc (st_sh s) (limR (st_r s)) n /\
  sumc (st_sh s) (npR (st_r s')) n = sumc (st_sh s) (npR (st_r s)) n /\
  (forall m, ~ In m l -> st_r s' m = st_r s m).
Proof.
  intros HM Hf Hl HBn Hc Hnp Hself s'.
  destruct HM as [Hshape Hpr Hpu Hr Hu Hs Hpods Hids Hquiet].
  pose proof (so_nodup _ Hshape) as Hnd. pose proof (shape_nonzero _ Hshape) as Hnz.
  pose proof (shape_valsok _ Hshape) as Hvals.
  assert (Hn0 : n <> 0) by (rewrite <- (find_name _ _ _ Hf); apply Hnz; eapply find_in; eauto).
  destruct (cdelta_req_comp s n a b self) as (Esh & ER & EU & EP). fold s' in Esh, ER, EU, EP.
  destruct (cwalk_req_ind (st_sh s) Hnd Hnz Hvals n l qn (st_r s) a b self Hl Hf Hpr HBn)
    as (W1 & W2 & W3 & W4 & W5 & W6 & W7 & W8 & W9); auto.
  { intros q0 Hq0 Hin. apply (Hr q0 Hq0). eapply tail_not_head; eauto. }
  rewrite <- ER in W1, W2, W3, W4, W5, W6, W7, W8, W9.
  refine (conj _ (conj Esh (conj EU (conj EP (conj W5 (conj W6 (conj W7 W9))))))).
  constructor; rewrite ?Esh, ?EU, ?EP; auto.
  - intros q0 Hq0 Hne. destruct (Hr q0 Hq0 Hne) as (HA & HN & HB). auto.
  - intros q0 Hq0 Hne. pose proof (Hs q0 Hq0 Hne) as HS. unfold okS in *. rewrite EU, EP.
    destruct (W8 _ Hne) as [E1 E2]. rewrite E1, E2. exact HS.
  - rewrite all_pod_ids_eq, Esh, EP. exact Hids.
Qed.

Lemma cdelta_used_mid s n qn l a b self :
  Mid s n -> find (st_sh s) n = Some qn -> reaches (st_sh s) n l ->
  vnonneg (vadd (u_used (st_u s n)) a) -> vnonneg (vadd (u_np (st_u s n)) b) ->
  (self = true -> vnonneg (vadd (u_sused (st_u s n)) a) /\ vnonneg (vadd (u_snp (st_u s n)) b)) ->
  let s' := cdelta_used s n a b self in
  Mid s' n /\ st_sh s' = st_sh s /\ st_r s' = st_r s /\ st_p s' = st_p s /\
  st_u s' n = mkU (vadd (u_used (st_u s n)) a) (if self then vadd (u_sused (st_u s n)) a else u_sused (st_u s n))
                  (vadd (u_np (st_u s n)) b) (if self then vadd (u_snp (st_u s n)) b else u_snp (st_u s n)) /\
  sumc (st_sh s) (usedU (st_u s')) n = sumc (st_sh s) (usedU (st_u s)) n /\
  sumc (st_sh s) (unpU (st_u s')) n = sumc (st_sh s) (unpU (st_u s)) n /\
  (forall m, ~ In m l -> st_u s' m = st_u s m).
Proof.
  intros HM Hf Hl Hc Hnp Hself s'.
  destruct HM as [Hshape Hpr Hpu Hr Hu Hs Hpods Hids Hquiet].
  pose proof (so_nodup _ Hshape) as Hnd. pose proof (shape_nonzero _ Hshape) as Hnz.
  assert (Hn0 : n <> 0) by (rewrite <- (find_name _ _ _ Hf); apply Hnz; eapply find_in; eauto).
  destruct (cdelta_used_comp s n a b self) as (Esh & EU & ER & EP). fold s' in Esh, ER, EU, EP.
  destruct (cwalk_used_ind (st_sh s) Hnd Hnz n l qn (st_u s) a b self Hl Hf Hpu)
    as (W1 & W3 & W4 & W5 & W6 & W7 & W8 & W9); auto.
  { intros q0 Hq0 Hin. apply (Hu q0 Hq0). eapply tail_not_head; eauto. }
  rewrite <- EU in W1, W3, W4, W5, W6, W7, W8, W9.
  refine (conj _ (conj Esh (conj ER (conj EP (conj W5 (conj W6 (conj W7 W9))))))).
  constructor; rewrite ?Esh, ?ER, ?EP; auto.
  - intros q0 Hq0 Hne. destruct (Hu q0 Hq0 Hne) as (HU & HUN). auto.
  - intros q0 Hq0 Hne. pose proof (Hs q0 Hq0 Hne) as HS. unfold okS in *. rewrite ER, EP.
    destruct (W8 _ Hne) as [E1 E2]. rewrite E1, E2. exact HS.
  - rewrite all_pod_ids_eq, Esh, EP. exact Hids.
Qed.

Lemma reaches_upd_const sh n q q' m l :
  NoDup (names sh) -> find sh n = Some q -> q_name q' = q_name q -> q_parent q' = q_parent q ->
  (reaches (upd_sh sh n (fun _ => q')) m l <-> reaches sh m l).
Proof.
  intros Hnd Hf Hn Hp.
  assert (Hrel : forall x, match find sh x, find (upd_sh sh n (fun _ => q')) x with
                           | Some a, Some a' => q_parent a = q_parent a'
                           | None, None => True
                           | _, _ => False
                           end).
  { intros x. destruct (Z.eq_dec x n) as [->|E].
    - rewrite Hf, (upd_const_find_same sh n q q' Hf Hn Hp). congruence.
    - rewrite (upd_const_find_other sh n q q' Hnd Hf Hn Hp x E). destruct (find sh x); auto. }
  split; apply reaches_ext; intros x; specialize (Hrel x);
    destruct (find sh x), (find (upd_sh sh n (fun _ => q')) x); auto.
Qed.

Lemma in_upd_const sh n q' x : In x (upd_sh sh n (fun _ => q')) -> x = q' \/ In x sh.
Proof.
  unfold upd_sh. intros H. apply in_map_iff in H. destruct H as [c [E Hc]].
  destruct (q_name c =? n); [left; congruence | right; congruence].
Qed.

Lemma parent_change_inv s sp old :
  Inv s -> find (st_sh s) (q_name sp) = Some old -> 3 <= q_name sp ->
  parent_ok (st_sh s) (q_parent sp) = true -> q_parent sp <> q_name sp ->
  ~ In (q_name sp) (pathf (st_sh s) (q_parent sp)) ->
  (q_isparent sp = true \/ forall c, In c (st_sh s) -> q_parent c <> q_name sp) ->
  vnonneg (q_max sp) -> vnonneg (q_min sp) ->
  Inv (parent_change s sp) /\
  (forall x, In x (st_sh (parent_change s sp)) -> q_name x = q_name sp \/ In x (st_sh s)).
Proof.
  intros HI Hf H3 Hpok Hpne Hcyc Hisp Hmax Hmin.
  pose proof (inv_shape _ HI) as Hshape. pose proof (so_nodup _ Hshape) as Hnd.
  pose proof (shape_nonzero _ Hshape) as Hnz.
  set (n := q_name sp) in *. assert (Hn0 : n <> 0) by lia.
  assert (Holdin : In old (st_sh s)) by (eapply find_in; eauto).
  assert (Holdn : q_name old = n) by (eapply find_name; eauto).
  (* the figures of the quota before the change *)
  set (ro := st_r s n). set (uo := st_u s n).
  destruct (inv_q _ HI old Holdin) as [HAo HNo HBo HUo HUNo HSo Hpro Hpuo Hpodso].
  unfold okA, okN, okU, okUN, okS in HAo, HNo, HUo, HUNo, HSo. rewrite Holdn in HAo, HNo, HUo, HUNo, HSo, Hpro, Hpuo.
  fold ro in HAo, HNo, HSo, Hpro. fold uo in HUo, HUNo, HSo, Hpuo.
  apply nonneg_r_iff in Hpro. destruct Hpro as (_ & Pcr & Psr & Pnp & Psn).
  apply nonneg_u_iff in Hpuo. destruct Hpuo as (Pus & Psu & Pun & Psun).
  (* step A *)
  destruct (rp_blank s sp old HI Hf H3 Hpok Hpne Hcyc Hisp) as (HM2 & Hf2 & HR2n & HU2n & HP2 & Hch2).
  fold n in HM2, Hf2, HR2n, HU2n, HP2, Hch2.
  set (b := blank sp) in *.
  set (s2 := add_blank (delete_quota s n) sp (st_p s n)) in *.
  assert (Esh2 : st_sh s2 = remove_sh (st_sh s) n ++ [b]) by (apply (rp_sh2 s sp old Hf)).
  pose proof (mid_shape _ _ HM2) as Hshape2. pose proof (so_nodup _ Hshape2) as Hnd2.
  destruct (mid_chain s2 n n b HM2 Hf2) as (rest & Hl2 & _ & Hrest2).
  assert (Hnrest : ~ In n rest) by (pose proof (reaches_nodup _ _ _ Hl2) as Hd; inversion Hd; assumption).
  (* the new parent's chain is the old one *)
  assert (Hrest_sh : reaches (st_sh s) (q_parent sp) rest).
  { destruct (rp_newchain s sp HI Hpok Hcyc) as (lp' & Hlp' & Hnlp').
    pose proof (reaches_remove_app (st_sh s) n [b] _ _ Hlp' Hnlp') as H.
    rewrite <- Esh2 in H.
    change (q_parent b) with (q_parent sp) in Hrest2. rewrite (reaches_fun _ _ _ Hrest2 _ H). exact Hlp'. }
  assert (Hchild_off : forall c, In c (st_sh s) -> q_parent c = n -> q_name c <> n /\ ~ In (q_name c) rest).
  { intros c Hc Hp. split.
    - intros E. assert (c = old) by (rewrite <- E in Hf; rewrite (in_find _ _ Hnd Hc) in Hf; congruence). subst c.
      destruct (so_reach _ Hshape old Hc) as [l Hl]. rewrite Holdn in Hl.
      destruct (reaches_inv _ _ _ Hl Hn0) as (o & t & Hfo & -> & Hrt). rewrite Hf in Hfo. injection Hfo as <-.
      rewrite Hp in Hrt. destruct (reaches_head _ _ _ Hrt Hn0) as [t' ->].
      pose proof (reaches_nodup _ _ _ Hl) as Hd. inversion Hd as [|? ? Hx _]; subst. apply Hx. left. reflexivity.
    - apply (child_not_on_chain (st_sh s) (q_parent sp) rest n c Hrest_sh Hnrest Hn0 (in_find _ _ Hnd Hc) (Hnz c Hc) Hp). }
  (* step B: max *)
  destruct (do_update_max_mid s2 n n b rest (q_max sp) HM2 Hf2 Hl2 Hnrest Hmax) as (HM3 & Hsh3 & HR3n & HU3 & HP3 & Hfr3).
  set (s3 := do_update_max s2 n (q_max sp)) in *.
  set (b3 := with_max b (q_max sp)) in *.
  assert (Hf3 : find (st_sh s3) n = Some b3) by (rewrite Hsh3; apply (upd_const_find_same (st_sh s2) n b b3 Hf2 eq_refl eq_refl)).
  assert (Hl3 : reaches (st_sh s3) n (n :: rest)).
  { rewrite Hsh3. apply (reaches_upd_const (st_sh s2) n b b3 n (n :: rest) Hnd2 Hf2 eq_refl eq_refl). exact Hl2. }
  (* step C: min *)
  destruct (do_update_min_mid s3 n n b3 rest (q_min sp) HM3 Hf3 Hl3 Hnrest Hmin) as (HM4 & Hsh4 & HR4n & HU4 & HP4 & Hfr4).
  set (s4 := do_update_min s3 n (q_min sp)) in *.
  set (b4 := with_min b3 (q_min sp)) in *.
  pose proof (mid_shape _ _ HM3) as Hshape3. pose proof (so_nodup _ Hshape3) as Hnd3.
  assert (Hf4 : find (st_sh s4) n = Some b4) by (rewrite Hsh4; apply (upd_const_find_same (st_sh s3) n b3 b4 Hf3 eq_refl eq_refl)).
  assert (Hl4 : reaches (st_sh s4) n (n :: rest)).
  { rewrite Hsh4. apply (reaches_upd_const (st_sh s3) n b3 b4 n (n :: rest) Hnd3 Hf3 eq_refl eq_refl). exact Hl3. }
  rewrite HR3n, HR2n in HR4n. cbn [r_creq r_sreq r_np r_snp r0] in HR4n.
  (* sums over the children of n in the final shape are those of the old state *)
  assert (Hsum4 : forall g, sumc (st_sh s4) g n = sumc (st_sh s) g n).
  { intros g. rewrite Hsh4, (sumc_upd_const (st_sh s3) n b3 b4 Hnd3 Hf3 eq_refl eq_refl).
    replace (q_parent b3 =? n) with false by (symmetry; apply Z.eqb_neq; exact Hpne).
    rewrite Hsh3, (sumc_upd_const (st_sh s2) n b b3 Hnd2 Hf2 eq_refl eq_refl).
    replace (q_parent b =? n) with false by (symmetry; apply Z.eqb_neq; exact Hpne).
    rewrite Esh2. apply (rp_sumc_n s sp old HI Hf H3 Hpne). }
  (* the children of n keep their aggregates up to s4 *)
  assert (Hkids4 : forall c, In c (st_sh s) -> q_parent c = n ->
            st_r s4 (q_name c) = st_r s (q_name c) /\ st_u s4 (q_name c) = st_u s (q_name c)).
  { intros c Hc Hp. destruct (Hchild_off c Hc Hp) as [Hcn Hcr]. destruct (Hch2 c Hc Hp) as [E1 E2].
    rewrite (Hfr4 _ Hcn Hcr), (Hfr3 _ Hcn Hcr), HU4, HU3. auto. }
  (* step D: own request *)
  assert (HB4 : okB (st_r s4) b4).
  { unfold okB. change (q_name b4) with n. rewrite HR4n. reflexivity. }
  destruct (cdelta_req_mid s4 n b4 (n :: rest) (r_sreq ro) (r_snp ro) true HM4 Hf4 Hl4 HB4)
    as (HM5 & Hsh5 & HU5 & HP5 & HR5n & Hsl5 & Hsn5 & Hfr5).
  { rewrite HR4n. cbn [r_creq]. rewrite vadd_0_l. exact Psr. }
  { rewrite HR4n. cbn [r_np]. rewrite vadd_0_l. exact Psn. }
  { intros _. rewrite HR4n. cbn [r_sreq r_snp]. rewrite !vadd_0_l. auto. }
  set (s5 := cdelta_req s4 n (r_sreq ro) (r_snp ro) true) in *.
  rewrite HR4n in HR5n. cbn [r_creq r_sreq r_np r_snp] in HR5n. rewrite !vadd_0_l in HR5n.
  assert (Hf5 : find (st_sh s5) n = Some b4) by (rewrite Hsh5; exact Hf4).
  assert (Hl5 : reaches (st_sh s5) n (n :: rest)) by (rewrite Hsh5; exact Hl4).
  (* step E: children's request *)
  set (dc := vsub (r_creq ro) (r_sreq ro)). set (dcnp := vsub (r_np ro) (r_snp ro)).
  assert (HB5 : okB (st_r s5) b4).
  { unfold okB. change (q_name b4) with n. rewrite HR5n. reflexivity. }
  destruct (cdelta_req_mid s5 n b4 (n :: rest) dc dcnp false HM5 Hf5 Hl5 HB5)
    as (HM6 & Hsh6 & HU6 & HP6 & HR6n & Hsl6 & Hsn6 & Hfr6).
  { rewrite HR5n. cbn [r_creq]. unfold dc. revert Pcr. generalize (r_creq ro) (r_sreq ro). clear. intros x1 x2 H. vlia. }
  { rewrite HR5n. cbn [r_np]. unfold dcnp. revert Pnp. generalize (r_np ro) (r_snp ro). clear. intros x1 x2 H. vlia. }
  { discriminate. }
  set (s6 := cdelta_req s5 n dc dcnp false) in *.
  rewrite HR5n in HR6n. cbn [r_creq r_sreq r_np r_snp] in HR6n.
  assert (Ecr : vadd (r_sreq ro) dc = r_creq ro) by (unfold dc; generalize (r_creq ro) (r_sreq ro); clear; intros x1 x2; vlia).
  assert (Enp : vadd (r_snp ro) dcnp = r_np ro) by (unfold dcnp; generalize (r_np ro) (r_snp ro); clear; intros x1 x2; vlia).
  rewrite Ecr, Enp in HR6n.
  assert (Hf6 : find (st_sh s6) n = Some b4) by (rewrite Hsh6, Hsh5; exact Hf4).
  assert (Hl6 : reaches (st_sh s6) n (n :: rest)) by (rewrite Hsh6, Hsh5; exact Hl4).
  assert (HU6n : st_u s6 n = u0) by (rewrite HU6, HU5, HU4, HU3; exact HU2n).
  (* step F: own used *)
  destruct (cdelta_used_mid s6 n b4 (n :: rest) (u_sused uo) (u_snp uo) true HM6 Hf6 Hl6)
    as (HM7 & Hsh7 & HR7 & HP7 & HU7n & Hsu7 & Hsun7 & Hfr7).
  { rewrite HU6n. cbn [u_used u0]. rewrite vadd_0_l. exact Psu. }
  { rewrite HU6n. cbn [u_np u0]. rewrite vadd_0_l. exact Psun. }
  { intros _. rewrite HU6n. cbn [u_sused u_snp u0]. rewrite !vadd_0_l. auto. }
  set (s7 := cdelta_used s6 n (u_sused uo) (u_snp uo) true) in *.
  rewrite HU6n in HU7n. cbn [u_used u_sused u_np u_snp u0] in HU7n. rewrite !vadd_0_l in HU7n.
  assert (Hf7 : find (st_sh s7) n = Some b4) by (rewrite Hsh7; exact Hf6).
  assert (Hl7 : reaches (st_sh s7) n (n :: rest)) by (rewrite Hsh7; exact Hl6).
  (* step G: children's used *)
  set (du := vsub (u_used uo) (u_sused uo)). set (dunp := vsub (u_np uo) (u_snp uo)).
  destruct (cdelta_used_mid s7 n b4 (n :: rest) du dunp false HM7 Hf7 Hl7)
    as (HM8 & Hsh8 & HR8 & HP8 & HU8n & Hsu8 & Hsun8 & Hfr8).
  { rewrite HU7n. cbn [u_used]. unfold du. revert Pus. generalize (u_used uo) (u_sused uo). clear. intros x1 x2 H. vlia. }
  { rewrite HU7n. cbn [u_np]. unfold dunp. revert Pun. generalize (u_np uo) (u_snp uo). clear. intros x1 x2 H. vlia. }
  { discriminate. }
  set (s8 := cdelta_used s7 n du dunp false) in *.
  rewrite HU7n in HU8n. cbn [u_used u_sused u_np u_snp] in HU8n.
  assert (Eus : vadd (u_sused uo) du = u_used uo) by (unfold du; generalize (u_used uo) (u_sused uo); clear; intros x1 x2; vlia).
  assert (Eun : vadd (u_snp uo) dunp = u_np uo) by (unfold dunp; generalize (u_np uo) (u_snp uo); clear; intros x1 x2; vlia).
  rewrite Eus, Eun in HU8n.
  (* the model's parent_change is s8 *)
  assert (Eleaf : q_isparent old = false -> nz2 dc dcnp = false /\ nz2 du dunp = false).
  { intros Ei. destruct (leaf_figures s old HI Holdin) as (L1 & L2 & L3 & L4).
    - rewrite Holdn. intros c Hc. pose proof (not_parent_no_children _ old Hshape Holdin Ei c Hc) as H. rewrite Holdn in H. exact H.
    - rewrite Holdn in L1, L2, L3, L4. fold ro in L1, L2. fold uo in L3, L4.
      unfold nz2, dc, dcnp, du, dunp. rewrite L1, L2, L3, L4, !vsub_diag, viszero_zero. split; reflexivity. }
  assert (Emodel : parent_change s sp = s8).
  { unfold parent_change. fold n. rewrite Hf. fold ro uo s2 s3 s4.
    change (if negb (viszero (r_sreq ro)) || negb (viszero (r_snp ro)) then delta_req s4 n (r_sreq ro) (r_snp ro) true else s4) with s5.
    fold dc dcnp.
    assert (E6 : (if q_isparent old && (negb (viszero dc) || negb (viszero dcnp)) then delta_req s5 n dc dcnp false else s5) = s6).
    { unfold s6, cdelta_req. destruct (q_isparent old) eqn:Ei; [reflexivity|].
      destruct (Eleaf eq_refl) as [E _]. rewrite E. reflexivity. }
    rewrite E6.
    change (if negb (viszero (u_sused uo)) || negb (viszero (u_snp uo)) then delta_used s6 n (u_sused uo) (u_snp uo) true else s6) with s7.
    fold du dunp.
    unfold s8, cdelta_used. destruct (q_isparent old) eqn:Ei; [reflexivity|].
    destruct (Eleaf eq_refl) as [_ E]. rewrite E. reflexivity. }
  rewrite Emodel.
  assert (Hsh84 : st_sh s8 = st_sh s4) by (rewrite Hsh8, Hsh7, Hsh6, Hsh5; reflexivity).
  assert (HR8n : st_r s8 n = mkR (freq b4 (r_creq ro)) (r_creq ro) (r_sreq ro) (r_np ro) (r_snp ro)) by (rewrite HR8, HR7; exact HR6n).
  assert (HP8all : forall k, st_p s8 k = st_p s k) by (intros k; rewrite HP8, HP7, HP6, HP5, HP4, HP3; apply HP2).
  assert (Hkids8 : forall c, In c (st_sh s) -> q_parent c = n ->
            st_r s8 (q_name c) = st_r s (q_name c) /\ st_u s8 (q_name c) = st_u s (q_name c)).
  { intros c Hc Hp. destruct (Hchild_off c Hc Hp) as [Hcn Hcr]. destruct (Hkids4 c Hc Hp) as [E1 E2].
    assert (Hnl : ~ In (q_name c) (n :: rest)) by (intros [E|E]; [apply Hcn; symmetry; exact E | contradiction]).
    rewrite HR8, HR7, (Hfr6 _ Hnl), (Hfr5 _ Hnl), (Hfr8 _ Hnl), (Hfr7 _ Hnl), HU6, HU5. auto. }
  split.
  - apply (mid_inv_at s8 n b4 HM8); rewrite ?Hsh84; [exact Hf4 | | | | | |].
    + unfold okA. change (q_name b4) with n. rewrite HR8n. cbn [r_creq r_sreq]. rewrite Hsum4, HAo. f_equal.
      apply sumc_ext. intros c Hc Hp. unfold limR. destruct (Hkids8 c Hc Hp) as [E _]. rewrite E. reflexivity.
    + unfold okN. change (q_name b4) with n. rewrite HR8n. cbn [r_np r_snp]. rewrite Hsum4, HNo. f_equal.
      apply sumc_ext. intros c Hc Hp. unfold npR. destruct (Hkids8 c Hc Hp) as [E _]. rewrite E. reflexivity.
    + unfold okB. change (q_name b4) with n. rewrite HR8n. reflexivity.
    + unfold okU. change (q_name b4) with n. rewrite HU8n. cbn [u_used u_sused]. rewrite Hsum4, HUo. f_equal.
      apply sumc_ext. intros c Hc Hp. unfold usedU. destruct (Hkids8 c Hc Hp) as [_ E]. rewrite E. reflexivity.
    + unfold okUN. change (q_name b4) with n. rewrite HU8n. cbn [u_np u_snp]. rewrite Hsum4, HUNo. f_equal.
      apply sumc_ext. intros c Hc Hp. unfold unpU. destruct (Hkids8 c Hc Hp) as [_ E]. rewrite E. reflexivity.
    + unfold okS. rewrite HR8n, HU8n, HP8all. cbn [r_sreq r_snp u_sused u_snp]. exact HSo.
  - intros x Hx. rewrite Hsh84, Hsh4 in Hx. apply in_upd_const in Hx. destruct Hx as [->|Hx]; [left; reflexivity|].
    rewrite Hsh3 in Hx. apply in_upd_const in Hx. destruct Hx as [->|Hx]; [left; reflexivity|].
    rewrite Esh2 in Hx. apply in_app_or in Hx. destruct Hx as [Hx|[<-|[]]]; [|left; reflexivity].
    right. apply in_remove in Hx. tauto.
Qed.

End WithDim.
