(* C01 — basic facts: the quota map, ancestor chains, sums over children, the invariant. *)
From Coq Require Import List ZArith Bool Lia Permutation.
From Verif Require Import Lib.VecN C01.Model C01.Spec.
Import ListNotations.
Open Scope Z_scope.

Section WithDim.
Context {D : Dim}.

(* ---------- find / names ---------- *)

Definition names (sh : list qshape) : list Z := map q_name sh.

Lemma find_name sh n q : find sh n = Some q -> q_name q = n.
Proof.
  induction sh as [|x t IH]; cbn [find]; [discriminate|].
  destruct (q_name x =? n) eqn:E; [intros H; injection H as <-; apply Z.eqb_eq; exact E | exact IH].
Qed.

Lemma find_in sh n q : find sh n = Some q -> In q sh.
Proof.
  induction sh as [|x t IH]; cbn [find]; [discriminate|].
  destruct (q_name x =? n); [intros H; injection H as <-; left; reflexivity | intros H; right; auto].
Qed.

Lemma find_none sh n : find sh n = None <-> ~ In n (names sh).
Proof.
  induction sh as [|x t IH]; [cbn; tauto|]. cbn [find]. unfold names. cbn [map In]. fold (names t).
  destruct (q_name x =? n) eqn:E.
  - apply Z.eqb_eq in E. split; [discriminate | intros H; exfalso; apply H; left; exact E].
  - apply Z.eqb_neq in E. rewrite IH. tauto.
Qed.

Lemma in_find sh q : NoDup (names sh) -> In q sh -> find sh (q_name q) = Some q.
Proof.
  induction sh as [|x t IH]; intros Hnd Hin; [destruct Hin|].
  cbn [names map] in Hnd. inversion Hnd as [|? ? Hx Ht]; subst.
  cbn [find]. destruct Hin as [->|Hin]; [rewrite Z.eqb_refl; reflexivity|].
  destruct (q_name x =? q_name q) eqn:E; [|apply IH; assumption].
  apply Z.eqb_eq in E. exfalso. apply Hx. rewrite E. apply in_map. exact Hin.
Qed.

Lemma find_some_in_names sh n q : find sh n = Some q -> In n (names sh).
Proof.
  intros H. rewrite <- (find_name _ _ _ H). apply in_map. eapply find_in; eauto.
Qed.

Lemma find_app_l sh t n q : find sh n = Some q -> find (sh ++ t) n = Some q.
Proof.
  induction sh as [|x r IH]; cbn [find app]; [discriminate|].
  destruct (q_name x =? n); auto.
Qed.
Lemma find_app_r sh t n : find sh n = None -> find (sh ++ t) n = find t n.
Proof.
  induction sh as [|x r IH]; cbn [find app]; [reflexivity|].
  destruct (q_name x =? n); [discriminate | auto].
Qed.

Lemma names_upd sh n f : (forall q, q_name (f q) = q_name q) -> names (upd_sh sh n f) = names sh.
Proof.
  intros Hf. unfold names, upd_sh. rewrite map_map. apply map_ext.
  intros q. destruct (q_name q =? n); [apply Hf | reflexivity].
Qed.

Lemma find_upd_same sh n f q :
  (forall x, q_name (f x) = q_name x) -> find sh n = Some q -> find (upd_sh sh n f) n = Some (f q).
Proof.
  intros Hf. induction sh as [|x t IH]; cbn [find upd_sh map]; [discriminate|].
  destruct (q_name x =? n) eqn:E.
  - intros H; injection H as <-. rewrite Hf, E. reflexivity.
  - rewrite E. exact IH.
Qed.
Lemma find_upd_other sh n f m :
  (forall x, q_name (f x) = q_name x) -> m <> n -> find (upd_sh sh n f) m = find sh m.
Proof.
  intros Hf Hm. induction sh as [|x t IH]; cbn [find upd_sh map]; [reflexivity|].
  destruct (q_name x =? n) eqn:E.
  - rewrite Hf. apply Z.eqb_eq in E. destruct (q_name x =? m) eqn:E2; [apply Z.eqb_eq in E2; congruence | exact IH].
  - destruct (q_name x =? m); [reflexivity | exact IH].
Qed.

Lemma find_remove_other sh n m : m <> n -> find (remove_sh sh n) m = find sh m.
Proof.
  intros Hm. induction sh as [|x t IH]; cbn [find remove_sh filter]; [reflexivity|].
  destruct (q_name x =? n) eqn:E; cbn [negb].
  - apply Z.eqb_eq in E. destruct (q_name x =? m) eqn:E2; [apply Z.eqb_eq in E2; congruence | exact IH].
  - cbn [find]. destruct (q_name x =? m); [reflexivity | exact IH].
Qed.
Lemma find_remove_same sh n : find (remove_sh sh n) n = None.
Proof.
  induction sh as [|x t IH]; cbn [find remove_sh filter]; [reflexivity|].
  destruct (q_name x =? n) eqn:E; cbn [negb]; [exact IH|]. cbn [find]. rewrite E. exact IH.
Qed.
Lemma in_remove sh n q : In q (remove_sh sh n) <-> In q sh /\ q_name q <> n.
Proof.
  unfold remove_sh. rewrite filter_In, negb_true_iff, Z.eqb_neq. tauto.
Qed.
Lemma names_remove_nodup sh n : NoDup (names sh) -> NoDup (names (remove_sh sh n)).
Proof.
  induction sh as [|x t IH]; cbn [names map remove_sh filter]; [auto|].
  intros H; inversion H as [|? ? Hx Ht]; subst.
  destruct (q_name x =? n); cbn [negb]; [apply IH; exact Ht|].
  cbn [map]. constructor; [|apply IH; exact Ht].
  intros Hin. apply Hx. apply in_map_iff in Hin. destruct Hin as [y [Hy Hin]].
  apply in_remove in Hin. rewrite <- Hy. apply in_map. tauto.
Qed.

(* ---------- ancestor chains ---------- *)

Inductive reaches (sh : list qshape) : Z -> list Z -> Prop :=
| r_root : reaches sh 0 []
| r_step n q l : n <> 0 -> find sh n = Some q -> reaches sh (q_parent q) l -> reaches sh n (n :: l).

Lemma reaches_fun sh n l1 : reaches sh n l1 -> forall l2, reaches sh n l2 -> l1 = l2.
Proof.
  induction 1 as [|n q l Hn Hf Hr IH]; intros l2 H2.
  - inversion H2; [reflexivity | congruence].
  - inversion H2 as [|n' q' l' Hn' Hf' Hr']; subst; [congruence|].
    rewrite Hf in Hf'. injection Hf' as <-. f_equal. apply IH. exact Hr'.
Qed.

Lemma reaches_suffix sh n l : reaches sh n l ->
  forall m, In m l -> exists l1 l2, l = l1 ++ l2 /\ reaches sh m l2.
Proof.
  induction 1 as [|n q l Hn Hf Hr IH]; intros m Hm; [destruct Hm|].
  destruct Hm as [<-|Hm].
  - exists [], (n :: l). split; [reflexivity | econstructor; eauto].
  - destruct (IH m Hm) as [l1 [l2 [-> H2]]]. exists (n :: l1), l2. split; [reflexivity | exact H2].
Qed.

Lemma reaches_nodup sh n l : reaches sh n l -> NoDup l.
Proof.
  induction 1 as [|n q l Hn Hf Hr IH]; constructor; [|exact IH].
  intros Hin. destruct (reaches_suffix _ _ _ Hr n Hin) as [l1 [l2 [-> H2]]].
  assert (Hfull : reaches sh n (n :: l1 ++ l2)) by (econstructor; eauto).
  pose proof (reaches_fun _ _ _ H2 _ Hfull) as E.
  apply (f_equal (@length Z)) in E. cbn [length] in E. rewrite app_length in E. lia.
Qed.

Lemma reaches_in_names sh n l : reaches sh n l -> forall m, In m l -> In m (names sh).
Proof.
  induction 1 as [|n q l Hn Hf Hr IH]; intros m Hm; [destruct Hm|].
  destruct Hm as [<-|Hm]; [eapply find_some_in_names; eauto | auto].
Qed.

Lemma reaches_nonzero sh n l : reaches sh n l -> ~ In 0 l.
Proof.
  induction 1 as [|n q l Hn Hf Hr IH]; [auto|]. intros [H|H]; [congruence | auto].
Qed.

Lemma reaches_length sh n l : NoDup (names sh) -> reaches sh n l -> (length l <= length sh)%nat.
Proof.
  intros Hnd Hr. replace (length sh) with (length (names sh)) by apply map_length.
  apply NoDup_incl_length; [eapply reaches_nodup; eauto|].
  intros m Hm. eapply reaches_in_names; eauto.
Qed.

Lemma path_reaches sh n l : reaches sh n l ->
  (forall q, In q sh -> q_name q <> 0) ->
  forall fuel, (length l < fuel)%nat -> path fuel sh n = l.
Proof.
  intros Hr Hnz. induction Hr as [|n q l Hn Hf Hr IH]; intros fuel Hfuel.
  - destruct fuel; [reflexivity|]. cbn [path].
    destruct (find sh 0) as [q|] eqn:E; [|reflexivity].
    exfalso. apply (Hnz q); [eapply find_in; eauto | eapply find_name; eauto].
  - destruct fuel; [cbn [length] in Hfuel; lia|]. cbn [path]. rewrite Hf. f_equal.
    apply IH. cbn [length] in Hfuel. lia.
Qed.

Lemma pathf_reaches sh n l : NoDup (names sh) -> (forall q, In q sh -> q_name q <> 0) ->
  reaches sh n l -> pathf sh n = l.
Proof.
  intros Hnd Hnz Hr. unfold pathf. apply path_reaches; auto.
  pose proof (reaches_length _ _ _ Hnd Hr). lia.
Qed.

(* a child of n is not among n's ancestors (nor n itself) *)
Lemma child_not_in_chain sh n l c :
  reaches sh n l -> find sh (q_name c) = Some c -> q_name c <> 0 -> q_parent c = n -> ~ In (q_name c) l.
Proof.
  intros Hr Hc Hnz Hp Hin.
  destruct (reaches_suffix _ _ _ Hr _ Hin) as [l1 [l2 [-> H2]]].
  assert (Hfull : reaches sh (q_name c) (q_name c :: l1 ++ l2)).
  { econstructor; eauto. rewrite Hp. exact Hr. }
  pose proof (reaches_fun _ _ _ H2 _ Hfull) as E.
  apply (f_equal (@length Z)) in E. cbn [length] in E. rewrite app_length in E. lia.
Qed.

(* chains only depend on names and parents *)
Lemma reaches_ext sh sh' :
  (forall n, match find sh n, find sh' n with
             | Some q, Some q' => q_parent q = q_parent q'
             | None, None => True
             | _, _ => False
             end) ->
  forall n l, reaches sh n l -> reaches sh' n l.
Proof.
  intros H n l Hr. induction Hr as [|n q l Hn Hf Hr IH]; [constructor|].
  specialize (H n). rewrite Hf in H. destruct (find sh' n) as [q'|] eqn:E; [|contradiction].
  econstructor; eauto. rewrite <- H. exact IH.
Qed.

(* ---------- sums over children ---------- *)

Definition sumc (sh : list qshape) (g : qshape -> vec) (n : Z) : vec := vsum (map g (children sh n)).

Lemma in_children sh n c : In c (children sh n) <-> In c sh /\ q_parent c = n.
Proof. unfold children. rewrite filter_In, Z.eqb_eq. tauto. Qed.

Lemma sumc_ext sh g g' n :
  (forall c, In c sh -> q_parent c = n -> g c = g' c) -> sumc sh g n = sumc sh g' n.
Proof.
  intros H. unfold sumc. apply vsum_map_ext. intros c Hc. apply in_children in Hc. apply H; tauto.
Qed.

(* g and g' differ only on the quota named x *)
Lemma sumc_change sh g g' n x qx :
  NoDup (names sh) -> find sh x = Some qx ->
  (forall c, In c sh -> q_name c <> x -> g c = g' c) ->
  sumc sh g' n = if q_parent qx =? n then vadd (vsub (sumc sh g n) (g qx)) (g' qx) else sumc sh g n.
Proof.
  intros Hnd Hf Hext. unfold sumc, children.
  revert Hnd Hf Hext. induction sh as [|y t IH]; intros Hnd Hf Hext; [discriminate|].
  cbn [names map] in Hnd. inversion Hnd as [|? ? Hy Ht]; subst.
  cbn [find] in Hf. destruct (q_name y =? x) eqn:E.
  - injection Hf as <-. apply Z.eqb_eq in E.
    assert (Hrest : vsum (map g' (filter (fun c => q_parent c =? n) t)) = vsum (map g (filter (fun c => q_parent c =? n) t))).
    { apply vsum_map_ext. intros c Hc. apply filter_In in Hc. destruct Hc as [Hc _]. symmetry. apply Hext; [right; exact Hc|].
      intros Hcx. apply Hy. rewrite E, <- Hcx. apply in_map. exact Hc. }
    cbn [filter]. destruct (q_parent y =? n); cbn [map]; rewrite ?vsum_cons, Hrest; [|reflexivity].
    generalize (vsum (map g (filter (fun c => q_parent c =? n) t))). intros v. vlia.
  - assert (Hgy : g y = g' y) by (apply Hext; [left; reflexivity | apply Z.eqb_neq; exact E]).
    specialize (IH Ht Hf (fun c Hc => Hext c (or_intror Hc))).
    cbn [filter]. destruct (q_parent y =? n) eqn:Ey; cbn [map]; rewrite ?vsum_cons.
    + rewrite IH, Hgy. destruct (q_parent qx =? n); [|reflexivity].
      generalize (vsum (map g (filter (fun c => q_parent c =? n) t))). intros v. vlia.
    + exact IH.
Qed.

Lemma sumc_nonneg sh g n : (forall c, In c sh -> vnonneg (g c)) -> vnonneg (sumc sh g n).
Proof.
  intros H. unfold sumc. apply vsum_nonneg. apply Forall_forall. intros v Hv.
  apply in_map_iff in Hv. destruct Hv as [c [<- Hc]]. apply in_children in Hc. apply H; tauto.
Qed.

Lemma children_app sh t n : children (sh ++ t) n = children sh n ++ children t n.
Proof. unfold children. apply filter_app. Qed.

Lemma sumc_app sh t g n : sumc (sh ++ t) g n = vadd (sumc sh g n) (sumc t g n).
Proof. unfold sumc. rewrite children_app, map_app, vsum_app. reflexivity. Qed.

Lemma sumc_no_children sh g n : (forall c, In c sh -> q_parent c <> n) -> sumc sh g n = vzero.
Proof.
  intros H. unfold sumc. replace (children sh n) with (@nil qshape); [reflexivity|].
  symmetry. unfold children. induction sh as [|c t IH]; [reflexivity|]. cbn [filter].
  destruct (q_parent c =? n) eqn:E.
  - apply Z.eqb_eq in E. exfalso. apply (H c); [left; reflexivity | exact E].
  - apply IH. intros x Hx. apply H. right. exact Hx.
Qed.

(* ---------- the invariant ---------- *)

Definition limR (R : Z -> racc) (c : qshape) : vec := lim c (R (q_name c)).
Definition npR (R : Z -> racc) (c : qshape) : vec := r_np (R (q_name c)).
Definition usedU (U : Z -> uacc) (c : qshape) : vec := u_used (U (q_name c)).
Definition unpU (U : Z -> uacc) (c : qshape) : vec := u_np (U (q_name c)).

Definition okA (sh : list qshape) (R : Z -> racc) (q : qshape) : Prop :=
  r_creq (R (q_name q)) = vadd (r_sreq (R (q_name q))) (sumc sh (limR R) (q_name q)).
Definition okN (sh : list qshape) (R : Z -> racc) (q : qshape) : Prop :=
  r_np (R (q_name q)) = vadd (r_snp (R (q_name q))) (sumc sh (npR R) (q_name q)).
Definition okB (R : Z -> racc) (q : qshape) : Prop :=
  r_req (R (q_name q)) = freq q (r_creq (R (q_name q))).
Definition okU (sh : list qshape) (U : Z -> uacc) (q : qshape) : Prop :=
  u_used (U (q_name q)) = vadd (u_sused (U (q_name q))) (sumc sh (usedU U) (q_name q)).
Definition okUN (sh : list qshape) (U : Z -> uacc) (q : qshape) : Prop :=
  u_np (U (q_name q)) = vadd (u_snp (U (q_name q))) (sumc sh (unpU U) (q_name q)).

Definition okS (s : state) (n : Z) : Prop :=
  r_sreq (st_r s n) = self_req (st_p s n) /\ r_snp (st_r s n) = self_np (st_p s n) /\
  u_sused (st_u s n) = self_used (st_p s n) /\ u_snp (st_u s n) = self_npused (st_p s n).

Definition pi_pos (pi : pinfo) : Prop :=
  vnonneg (pi_areq pi) /\ vnonneg (pi_anp pi) /\ vnonneg (pi_aused pi) /\ vnonneg (pi_anpused pi).

Record ShapeOk (sh : list qshape) : Prop := {
  so_nodup : NoDup (names sh);
  so_pos : forall q, In q sh -> 1 <= q_name q;
  so_reach : forall q, In q sh -> exists l, reaches sh (q_name q) l;
  so_par : forall c, In c sh -> q_parent c = 0 \/
             (3 <= q_parent c /\ exists pq, find sh (q_parent c) = Some pq /\ q_isparent pq = true);
  so_vals : forall q, In q sh -> vnonneg (q_max q) /\ vnonneg (q_min q)
}.

(* everything about the aggregates of one quota *)
Record QOk (s : state) (q : qshape) : Prop := {
  qa : okA (st_sh s) (st_r s) q;
  qn : okN (st_sh s) (st_r s) q;
  qb : okB (st_r s) q;
  qu : okU (st_sh s) (st_u s) q;
  qun : okUN (st_sh s) (st_u s) q;
  qs : okS s (q_name q);
  qposr : nonneg_r (st_r s (q_name q)) = true;
  qposu : nonneg_u (st_u s (q_name q)) = true;
  qpods : Forall pi_pos (st_p s (q_name q))
}.

Record Inv (s : state) : Prop := {
  inv_shape : ShapeOk (st_sh s);
  inv_ids : NoDup (all_pod_ids s);
  inv_q : forall q, In q (st_sh s) -> QOk s q;
  inv_quiet : forall q, In q (st_sh s) -> forallb pi_quiet (st_p s (q_name q)) = true
}.

Lemma shape_nonzero sh : ShapeOk sh -> forall q, In q sh -> q_name q <> 0.
Proof. intros H q Hq. pose proof (so_pos _ H q Hq). lia. Qed.

Lemma nonneg_r_iff r : nonneg_r r = true <->
  vnonneg (r_req r) /\ vnonneg (r_creq r) /\ vnonneg (r_sreq r) /\ vnonneg (r_np r) /\ vnonneg (r_snp r).
Proof. unfold nonneg_r. rewrite !andb_true_iff, !vnonnegb_iff. tauto. Qed.
Lemma nonneg_u_iff u : nonneg_u u = true <->
  vnonneg (u_used u) /\ vnonneg (u_sused u) /\ vnonneg (u_np u) /\ vnonneg (u_snp u).
Proof. unfold nonneg_u. rewrite !andb_true_iff, !vnonnegb_iff. tauto. Qed.

Lemma lim_nonneg q r : vnonneg (q_max q) -> nonneg_r r = true -> vnonneg (lim q r).
Proof. intros Hm Hr. apply nonneg_r_iff in Hr. unfold lim. apply vnonneg_min; tauto. Qed.

Lemma freq_nonneg q c : vnonneg (q_min q) -> vnonneg c -> vnonneg (freq q c).
Proof. intros Hm Hc. unfold freq. destruct (q_lend q); [exact Hc | apply vnonneg_max_l; exact Hc]. Qed.

Lemma fupd_same {A} (f : Z -> A) n v : fupd f n v n = v.
Proof. unfold fupd. rewrite Z.eqb_refl. reflexivity. Qed.
Lemma fupd_other {A} (f : Z -> A) n v m : m <> n -> fupd f n v m = f m.
Proof. intros H. unfold fupd. apply Z.eqb_neq in H. rewrite H. reflexivity. Qed.

(* zero figures (computed by [cbn] when vectors were pairs) *)
Lemma nonneg_r0 : nonneg_r r0 = true.
Proof. apply nonneg_r_iff. cbn [r0 r_req r_creq r_sreq r_np r_snp]. repeat split; apply vnonneg_zero. Qed.
Lemma nonneg_u0 : nonneg_u u0 = true.
Proof. apply nonneg_u_iff. cbn [u0 u_used u_sused u_np u_snp]. repeat split; apply vnonneg_zero. Qed.
Lemma vmin_zero_l m : vnonneg m -> vmin vzero m = vzero.
Proof. vlia. Qed.
Lemma vmin_zero_zero : vmin vzero vzero = vzero.
Proof. vlia. Qed.
Lemma vmax_zero_zero : vmax vzero vzero = vzero.
Proof. vlia. Qed.
Lemma vsub_zero_zero : vsub vzero vzero = vzero.
Proof. vlia. Qed.
Lemma vclamp_zero : vclamp vzero = vzero.
Proof. vlia. Qed.
Lemma veqb_zero_zero : veqb vzero vzero = true.
Proof. apply veqb_refl. Qed.

End WithDim.
