(* C01 — the plugin's event handlers (pod_handler.go, quota_handler.go) and the periodic
   migrateDefaultQuotaGroupsPod (plugin_helper.go) on top of the core model.
   Single quota tree (MultiQuotaTree off); every pod carries a quota-name label.

   A pod whose label names a quota that does not exist (yet) is accounted in the default quota
   (name 2); migrateDefaultQuotaGroupsPod later moves it with MigratePod, handing in the pod object
   that was STORED in the default quota's PodCache when the pod was added (PodInfo.pod is never
   refreshed by OnPodUpdate). [ps_dobj] is that stored object. No proofs in this file. *)
From Coq Require Import List ZArith Bool.
From Verif Require Import Lib.VecN C01.Model C01.Spec.
Import ListNotations.
Open Scope Z_scope.

Section WithDim.
Context {D : Dim}.

Record ppod := mkPP { pp_pod : pod; pp_label : Z }.

Record pstate := mkPS {
  ps_core : state;
  ps_dobj : list (Z * ppod);     (* pod id -> object stored in the default quota's cache *)
  ps_alive : list (Z * ppod)     (* pod id -> last delivered object (the informer's view) *)
}.

Inductive pop :=
| PlPodAdd (p : ppod)
| PlPodUpdate (pn po : ppod)
| PlPodDelete (p : ppod)
| PlQuotaAdd (sp : qshape)
| PlQuotaUpdate (sp : qshape)
| PlQuotaDelete (n : Z)
| PlMigrate.

(* getPodAssociateQuotaNameAndTreeID: the labelled quota if the plugin knows it, else the default *)
Definition resolve (s : state) (l : Z) : Z := if exists_q s l then l else 2.

Fixpoint alookup {A} (l : list (Z * A)) (k : Z) : option A :=
  match l with
  | [] => None
  | (k', v) :: t => if k' =? k then Some v else alookup t k
  end.
Definition aremove {A} (l : list (Z * A)) (k : Z) : list (Z * A) :=
  filter (fun x => negb (fst x =? k)) l.
Definition aset {A} (l : list (Z * A)) (k : Z) (v : A) : list (Z * A) := aremove l k ++ [(k, v)].

Definition in_default (s : state) (id : Z) : bool := has_pod (st_p s 2) id.

(* the stored object of the default cache after a core transition that handed in [obj] *)
Definition track (before after : state) (d : list (Z * ppod)) (id : Z) (obj : ppod) : list (Z * ppod) :=
  if in_default after id then (if in_default before id then d else aset d id obj) else aremove d id.

Fixpoint insert_id (x : Z * ppod) (l : list (Z * ppod)) : list (Z * ppod) :=
  match l with
  | [] => [x]
  | y :: t => if fst x <=? fst y then x :: l else y :: insert_id x t
  end.
Definition sort_ids (l : list (Z * ppod)) : list (Z * ppod) := fold_right insert_id [] l.

(* migrateDefaultQuotaGroupsPod: every pod of the default cache whose (stored) label names an
   existing other quota is moved there with MigratePod(storedObject, default, quota) *)
Definition migrate_default (c : state) (d : list (Z * ppod)) : state * list (Z * ppod) :=
  fold_left (fun acc x =>
               let '(c', d') := acc in
               let '(id, o) := x in
               let q := resolve c' (pp_label o) in
               if (q =? 2) || negb (in_default c' id) then (c', d')
               else (migrate_pod c' (pp_pod o) 2 q, aremove d' id))
            (sort_ids d) (c, d).

Definition pstep (s : pstate) (o : pop) : pstate :=
  let c := ps_core s in
  match o with
  | PlPodAdd p =>
      let c' := on_pod_add c (resolve c (pp_label p)) (pp_pod p) in
      mkPS c' (track c c' (ps_dobj s) (p_id (pp_pod p)) p) (aset (ps_alive s) (p_id (pp_pod p)) p)
  | PlPodUpdate pn po =>
      let c' := on_pod_update c (resolve c (pp_label pn)) (resolve c (pp_label po)) (pp_pod pn) (pp_pod po) in
      mkPS c' (track c c' (ps_dobj s) (p_id (pp_pod pn)) pn) (aset (ps_alive s) (p_id (pp_pod pn)) pn)
  | PlPodDelete p =>
      let c' := on_pod_delete c (resolve c (pp_label p)) (pp_pod p) in
      mkPS c' (track c c' (ps_dobj s) (p_id (pp_pod p)) p) (aremove (ps_alive s) (p_id (pp_pod p)))
  | PlQuotaAdd sp =>
      (* OnQuotaAdd returns early when the manager already has the quota *)
      if exists_q c (q_name sp) then s else mkPS (update_quota c sp) (ps_dobj s) (ps_alive s)
  | PlQuotaUpdate sp => mkPS (update_quota c sp) (ps_dobj s) (ps_alive s)
  | PlQuotaDelete n => mkPS (delete_quota c n) (ps_dobj s) (ps_alive s)
  | PlMigrate => let '(c', d') := migrate_default c (ps_dobj s) in mkPS c' d' (ps_alive s)
  end.

Definition pinit (sm dm : vec) : pstate := mkPS (init sm dm) [] [].

(* ---------- informer discipline at the plugin's interface ---------- *)

Definition pod_eqb (a b : pod) : bool :=
  (p_id a =? p_id b) && veqb (p_req a) (p_req b) && Bool.eqb (p_np a) (p_np b)
  && Bool.eqb (p_bound a) (p_bound b) && Bool.eqb (p_ign a) (p_ign b).
Definition ppod_eqb (a b : ppod) : bool := pod_eqb (pp_pod a) (pp_pod b) && (pp_label a =? pp_label b).

Definition is_last (s : pstate) (p : ppod) : bool :=
  match alookup (ps_alive s) (p_id (pp_pod p)) with Some q => ppod_eqb q p | None => false end.

Definition pwf_op (s : pstate) (o : pop) : bool :=
  match o with
  | PlPodAdd p =>
      vnonnegb (p_req (pp_pod p)) && (3 <=? pp_label p)
      && match alookup (ps_alive s) (p_id (pp_pod p)) with None => true | Some _ => false end
  | PlPodUpdate pn po =>
      (p_id (pp_pod pn) =? p_id (pp_pod po)) && vnonnegb (p_req (pp_pod pn)) && (3 <=? pp_label pn) && is_last s po
  | PlPodDelete p => is_last s p
  | PlQuotaAdd sp | PlQuotaUpdate sp => wf_op (ps_core s) (OpQuotaUpdate sp)
  | PlQuotaDelete n => wf_op (ps_core s) (OpQuotaDelete n)
  | PlMigrate => true
  end.

Fixpoint ptrace (s : pstate) (h : list pop) : list pstate :=
  match h with
  | [] => []
  | o :: t => let s' := pstep s o in s' :: ptrace s' t
  end.

Fixpoint pwf_history (s : pstate) (h : list pop) : bool :=
  match h with
  | [] => true
  | o :: t => pwf_op s o && pwf_history (pstep s o) t
  end.

(* ---------- the property at the plugin's interface ---------- *)

(* a cache entry as the specification sees it: the pod counts with the request of the object the
   informer delivered last *)
Definition mk_pinfo_alive (alive : list (Z * ppod)) (id : Z) (asg : bool) : pinfo :=
  let rq := match alookup alive id with Some p => p_req (pp_pod p) | None => vzero end in
  let np := match alookup alive id with Some p => p_npreq (pp_pod p) | None => vzero end in
  mkPI id asg rq np (if asg then rq else vzero) (if asg then np else vzero).

Definition refill (alive : list (Z * ppod)) (s : state) : state :=
  mkSt (st_sh s) (st_r s) (st_u s)
       (fun q => map (fun pi => mk_pinfo_alive alive (pi_id pi) (pi_asg pi)) (st_p s q)).


(* the figures against the recomputation from the caches, every cached pod counting with the
   request of the object the informer delivered last (a deleted pod counts nothing) *)
Definition pstate_code (s : pstate) : Z := state_code (refill (ps_alive s) (ps_core s)).

Definition prun (s : pstate) (h : list pop) : pstate := fold_left pstep h s.

End WithDim.
