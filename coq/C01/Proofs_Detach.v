(* C01 — removing a quota entry from the map (deleteQuotaNoLock): its max-limited request, its
   non-preemptible request and its used amounts leave the parent chain. In individual form: the
   removed quota may have children (re-parenting), which stay behind as orphans. *)
From Coq Require Import List ZArith Bool Lia.
From Verif Require Import Lib.VecN C01.Model C01.Spec C01.Proofs_Base C01.Proofs_Walk C01.Proofs_Delta
  C01.Proofs_Shape C01.Proofs_CWalk.
Import ListNotations.
Open Scope Z_scope.

Section WithDim.
Context {D : Dim}.

Section Detach.
  Variable sh : list qshape.
  Hypothesis Hshape : ShapeOk sh.
  Variables (n : Z) (q : qshape).
  Hypothesis Hf : find sh n = Some q.

  Let sh1 := remove_sh sh n.
  Let par := q_parent q.

  Lemma detach_names : NoDup (names sh1) /\ (forall x, In x sh1 -> q_name x <> 0) /\ ValsOk sh1.
  Proof.
    refine (conj _ (conj _ _)).
    - apply names_remove_nodup. apply Hshape.
    - intros x Hx. apply in_remove in Hx. apply (shape_nonzero _ Hshape). tauto.
    - intros x Hx. apply in_remove in Hx. apply (so_vals _ Hshape). tauto.
  Qed.

  (* the chain of the parent survives *)
  Lemma detach_parent_chain : exists lp, reaches sh par lp /\ ~ In n lp /\ reaches sh1 par lp.
  Proof.
    destruct (so_reach _ Hshape q (find_in _ _ _ Hf)) as [l Hl].
    rewrite (find_name _ _ _ Hf) in Hl.
    assert (Hn0 : n <> 0) by (rewrite <- (find_name _ _ _ Hf); apply (shape_nonzero _ Hshape); eapply find_in; eauto).
    destruct (reaches_inv _ _ _ Hl Hn0) as (q' & t & Hf' & -> & Hr). rewrite Hf in Hf'. injection Hf' as <-.
    pose proof (reaches_nodup _ _ _ Hl) as Hd. inversion Hd as [|? ? Hnt _]; subst.
    exists t. refine (conj Hr (conj Hnt _)). apply reaches_remove; assumption.
  Qed.

  Lemma detach_parent_find : par <> 0 -> exists qp, find sh par = Some qp /\ find sh1 par = Some qp /\ par <> n.
  Proof.
    intros Hp0. destruct detach_parent_chain as (lp & Hr & Hn & _).
    destruct (reaches_inv _ _ _ Hr Hp0) as (qp & t & Hfp & -> & _).
    assert (Hpn : par <> n) by (intros E; apply Hn; left; exact E).
    exists qp. refine (conj Hfp (conj _ Hpn)). unfold sh1. rewrite find_remove_other; assumption.
  Qed.

  Section Req.
    Variable R : Z -> racc.
    Hypothesis Hpos : PosR sh R.
    Hypothesis HA : forall q0, In q0 sh -> q_name q0 <> n -> okA sh R q0.
    Hypothesis HN : forall q0, In q0 sh -> q_name q0 <> n -> okN sh R q0.
    Hypothesis HB : forall q0, In q0 sh -> q_name q0 <> n -> okB R q0.

    Let R1 := fupd R n r0.
    Let d := vsub vzero (lim q (R n)).
    Let dnp := vsub vzero (r_np (R n)).
    Let R2 := cwalk_req sh1 R1 par d dnp false.

    Lemma detach_req :
      PosR sh1 R2 /\
      (forall q0, In q0 sh1 -> okB R2 q0) /\
      (forall q0, In q0 sh1 -> okA sh1 R2 q0 /\ okN sh1 R2 q0) /\
      (forall m, m <> n -> r_sreq (R2 m) = r_sreq (R m) /\ r_snp (R2 m) = r_snp (R m)) /\
      (forall lp, reaches sh par lp -> forall m, m <> n -> ~ In m lp -> R2 m = R m).
    Proof.
      destruct detach_names as (Hnd1 & Hnz1 & Hvals1).
      pose proof (so_nodup _ Hshape) as Hnd.
      assert (Hqn : q_name q = n) by (eapply find_name; eauto).
      assert (HR1 : forall m, m <> n -> R1 m = R m) by (intros m Hm; unfold R1; apply fupd_other; exact Hm).
      assert (Hin1 : forall x, In x sh1 -> In x sh /\ q_name x <> n) by (intros x Hx; apply in_remove in Hx; exact Hx).
      assert (Hpos1 : PosR sh1 R1).
      { intros x Hx. destruct (Hin1 x Hx) as [Hx' Hne]. rewrite (HR1 _ Hne). apply Hpos. exact Hx'. }
      (* sums over the remaining quotas *)
      assert (Hsl : forall m, sumc sh1 (limR R1) m = if par =? m then vsub (sumc sh (limR R) m) (lim q (R n)) else sumc sh (limR R) m).
      { intros m. rewrite (sumc_ext sh1 (limR R1) (limR R)).
        - unfold sh1. rewrite (sumc_remove sh (limR R) n q m Hnd Hf). unfold limR at 2. rewrite Hqn. reflexivity.
        - intros c Hc _. unfold limR. rewrite HR1; [reflexivity | apply Hin1; exact Hc]. }
      assert (Hsn : forall m, sumc sh1 (npR R1) m = if par =? m then vsub (sumc sh (npR R) m) (r_np (R n)) else sumc sh (npR R) m).
      { intros m. rewrite (sumc_ext sh1 (npR R1) (npR R)).
        - unfold sh1. rewrite (sumc_remove sh (npR R) n q m Hnd Hf). unfold npR at 2. rewrite Hqn. reflexivity.
        - intros c Hc _. unfold npR. rewrite HR1; [reflexivity | apply Hin1; exact Hc]. }
      assert (HA1 : forall q0, In q0 sh1 -> q_name q0 <> par -> okA sh1 R1 q0).
      { intros q0 Hq0 Hne. destruct (Hin1 q0 Hq0) as [Hq0' Hnn]. unfold okA. rewrite Hsl.
        apply Z.eqb_neq in Hne. rewrite Z.eqb_sym in Hne. rewrite Hne, (HR1 _ Hnn). apply HA; assumption. }
      assert (HN1 : forall q0, In q0 sh1 -> q_name q0 <> par -> okN sh1 R1 q0).
      { intros q0 Hq0 Hne. destruct (Hin1 q0 Hq0) as [Hq0' Hnn]. unfold okN. rewrite Hsn.
        apply Z.eqb_neq in Hne. rewrite Z.eqb_sym in Hne. rewrite Hne, (HR1 _ Hnn). apply HN; assumption. }
      assert (HB1 : forall q0, In q0 sh1 -> okB R1 q0).
      { intros q0 Hq0. destruct (Hin1 q0 Hq0) as [Hq0' Hnn]. unfold okB. rewrite (HR1 _ Hnn). apply HB; assumption. }
      destruct (Z.eq_dec par 0) as [Hp0|Hp0].
      - (* top-level quota: only the (unmodelled) root is above *)
        assert (E : R2 = R1) by (unfold R2; rewrite Hp0; apply cwalk_req_root; exact Hnz1).
        rewrite E. refine (conj Hpos1 (conj HB1 (conj _ (conj _ _)))).
        + intros q0 Hq0. assert (q_name q0 <> par) by (rewrite Hp0; apply Hnz1; exact Hq0). auto.
        + intros m Hm. rewrite (HR1 _ Hm). auto.
        + intros lp _ m Hm _. apply HR1. exact Hm.
      - destruct (detach_parent_find Hp0) as (qp & Hfp & Hfp1 & Hpn).
        destruct detach_parent_chain as (lp & Hrp & Hnlp & Hrp1).
        assert (Hqpin : In qp sh) by (eapply find_in; eauto).
        assert (Hqpn : q_name qp = par) by (eapply find_name; eauto).
        pose proof (HA qp Hqpin ltac:(rewrite Hqpn; exact Hpn)) as HAp. unfold okA in HAp. rewrite Hqpn in HAp.
        pose proof (HN qp Hqpin ltac:(rewrite Hqpn; exact Hpn)) as HNp. unfold okN in HNp. rewrite Hqpn in HNp.
        pose proof (Hsl par) as Hslp. rewrite Z.eqb_refl in Hslp.
        pose proof (Hsn par) as Hsnp. rewrite Z.eqb_refl in Hsnp.
        assert (HS1l : vnonneg (sumc sh1 (limR R1) par)) by (apply sumc_nonneg; apply limR_nonneg; assumption).
        assert (HS1n : vnonneg (sumc sh1 (npR R1) par)) by (apply sumc_nonneg; apply (npR_nonneg sh1); assumption).
        assert (Hposp : nonneg_r (R par) = true) by (rewrite <- Hqpn; apply Hpos; exact Hqpin).
        apply nonneg_r_iff in Hposp. destruct Hposp as (_ & _ & Hps & _ & Hpsn).
        assert (Hqp1 : In qp sh1) by (eapply find_in; eauto).
        destruct (cwalk_req_ind sh1 Hnd1 Hnz1 Hvals1 par lp qp R1 d dnp false Hrp1 Hfp1 Hpos1 (HB1 qp Hqp1))
          as (H1 & H2 & H3 & H4 & H5 & H6 & H7 & H8 & H9).
        { intros q0 Hq0 Hin. apply HN1; [exact Hq0|].
          destruct (reaches_head _ _ _ Hrp1 Hp0) as [t Ht]. subst lp. cbn [tl_ok] in Hin.
          pose proof (reaches_nodup _ _ _ Hrp1) as Hd. inversion Hd; subst. intros E. rewrite E in Hin. contradiction. }
        { rewrite (HR1 _ Hpn), HAp. unfold d. rewrite Hslp in HS1l.
          revert HS1l Hps. generalize (r_sreq (R par)) (sumc sh (limR R) par) (lim q (R n)). clear. intros. vlia. }
        { rewrite (HR1 _ Hpn), HNp. unfold dnp. rewrite Hsnp in HS1n.
          revert HS1n Hpsn. generalize (r_snp (R par)) (sumc sh (npR R) par) (r_np (R n)). clear. intros. vlia. }
        { discriminate. }
        fold R2 in H1, H2, H3, H4, H5, H6, H7, H8, H9.
        refine (conj H1 (conj _ (conj _ (conj _ _)))).
        + intros q0 Hq0. apply H2; [exact Hq0 | apply HB1; exact Hq0].
        + intros q0 Hq0. destruct (Z.eq_dec (q_name q0) par) as [E|E].
          * assert (q0 = qp) by (rewrite <- E in Hfp1; rewrite (in_find _ _ Hnd1 Hq0) in Hfp1; congruence). subst q0.
            unfold okA, okN. rewrite Hqpn, H5, H6, H7. cbn [r_creq r_sreq r_np r_snp].
            rewrite (HR1 _ Hpn), Hslp, Hsnp, HAp, HNp. unfold d, dnp. split.
            -- generalize (r_sreq (R par)) (sumc sh (limR R) par) (lim q (R n)). clear. intros. vlia.
            -- generalize (r_snp (R par)) (sumc sh (npR R) par) (r_np (R n)). clear. intros. vlia.
          * split; [apply H3 | apply H4]; auto.
        + intros m Hm. destruct (Z.eq_dec m par) as [->|E].
          * rewrite H5. cbn [r_sreq r_snp]. rewrite (HR1 _ Hpn). auto.
          * destruct (H8 m E) as [E1 E2]. rewrite E1, E2, (HR1 _ Hm). auto.
        + intros lp' Hlp' m Hm Hnin. rewrite (reaches_fun _ _ _ Hlp' _ Hrp) in Hnin.
          rewrite (H9 m Hnin). apply HR1. exact Hm.
    Qed.
  End Req.

  Section Used.
    Variable U : Z -> uacc.
    Hypothesis Hpos : PosU sh U.
    Hypothesis HU : forall q0, In q0 sh -> q_name q0 <> n -> okU sh U q0.
    Hypothesis HUN : forall q0, In q0 sh -> q_name q0 <> n -> okUN sh U q0.

    Let U1 := fupd U n u0.
    Let d := vsub vzero (u_used (U n)).
    Let dnp := vsub vzero (u_np (U n)).
    Let U2 := cwalk_used sh1 U1 par d dnp false.

    Lemma detach_used :
      PosU sh1 U2 /\
      (forall q0, In q0 sh1 -> okU sh1 U2 q0 /\ okUN sh1 U2 q0) /\
      (forall m, m <> n -> u_sused (U2 m) = u_sused (U m) /\ u_snp (U2 m) = u_snp (U m)) /\
      (forall lp, reaches sh par lp -> forall m, m <> n -> ~ In m lp -> U2 m = U m).
    Proof.
      destruct detach_names as (Hnd1 & Hnz1 & Hvals1).
      pose proof (so_nodup _ Hshape) as Hnd.
      assert (Hqn : q_name q = n) by (eapply find_name; eauto).
      assert (HU1 : forall m, m <> n -> U1 m = U m) by (intros m Hm; unfold U1; apply fupd_other; exact Hm).
      assert (Hin1 : forall x, In x sh1 -> In x sh /\ q_name x <> n) by (intros x Hx; apply in_remove in Hx; exact Hx).
      assert (Hpos1 : PosU sh1 U1).
      { intros x Hx. destruct (Hin1 x Hx) as [Hx' Hne]. rewrite (HU1 _ Hne). apply Hpos. exact Hx'. }
      assert (Hsl : forall m, sumc sh1 (usedU U1) m = if par =? m then vsub (sumc sh (usedU U) m) (u_used (U n)) else sumc sh (usedU U) m).
      { intros m. rewrite (sumc_ext sh1 (usedU U1) (usedU U)).
        - unfold sh1. rewrite (sumc_remove sh (usedU U) n q m Hnd Hf). unfold usedU at 2. rewrite Hqn. reflexivity.
        - intros c Hc _. unfold usedU. rewrite HU1; [reflexivity | apply Hin1; exact Hc]. }
      assert (Hsn : forall m, sumc sh1 (unpU U1) m = if par =? m then vsub (sumc sh (unpU U) m) (u_np (U n)) else sumc sh (unpU U) m).
      { intros m. rewrite (sumc_ext sh1 (unpU U1) (unpU U)).
        - unfold sh1. rewrite (sumc_remove sh (unpU U) n q m Hnd Hf). unfold unpU at 2. rewrite Hqn. reflexivity.
        - intros c Hc _. unfold unpU. rewrite HU1; [reflexivity | apply Hin1; exact Hc]. }
      assert (HUa : forall q0, In q0 sh1 -> q_name q0 <> par -> okU sh1 U1 q0).
      { intros q0 Hq0 Hne. destruct (Hin1 q0 Hq0) as [Hq0' Hnn]. unfold okU. rewrite Hsl.
        apply Z.eqb_neq in Hne. rewrite Z.eqb_sym in Hne. rewrite Hne, (HU1 _ Hnn). apply HU; assumption. }
      assert (HUNa : forall q0, In q0 sh1 -> q_name q0 <> par -> okUN sh1 U1 q0).
      { intros q0 Hq0 Hne. destruct (Hin1 q0 Hq0) as [Hq0' Hnn]. unfold okUN. rewrite Hsn.
        apply Z.eqb_neq in Hne. rewrite Z.eqb_sym in Hne. rewrite Hne, (HU1 _ Hnn). apply HUN; assumption. }
      destruct (Z.eq_dec par 0) as [Hp0|Hp0].
      - assert (E : U2 = U1) by (unfold U2; rewrite Hp0; apply cwalk_used_root; exact Hnz1).
        rewrite E. refine (conj Hpos1 (conj _ (conj _ _))).
        + intros q0 Hq0. assert (q_name q0 <> par) by (rewrite Hp0; apply Hnz1; exact Hq0). auto.
        + intros m Hm. rewrite (HU1 _ Hm). auto.
        + intros lp _ m Hm _. apply HU1. exact Hm.
      - destruct (detach_parent_find Hp0) as (qp & Hfp & Hfp1 & Hpn).
        destruct detach_parent_chain as (lp & Hrp & Hnlp & Hrp1).
        assert (Hqpin : In qp sh) by (eapply find_in; eauto).
        assert (Hqpn : q_name qp = par) by (eapply find_name; eauto).
        pose proof (HU qp Hqpin ltac:(rewrite Hqpn; exact Hpn)) as HUp. unfold okU in HUp. rewrite Hqpn in HUp.
        pose proof (HUN qp Hqpin ltac:(rewrite Hqpn; exact Hpn)) as HUNp. unfold okUN in HUNp. rewrite Hqpn in HUNp.
        pose proof (Hsl par) as Hslp. rewrite Z.eqb_refl in Hslp.
        pose proof (Hsn par) as Hsnp. rewrite Z.eqb_refl in Hsnp.
        assert (HS1l : vnonneg (sumc sh1 (usedU U1) par)) by (apply sumc_nonneg; apply (usedU_nonneg sh1); assumption).
        assert (HS1n : vnonneg (sumc sh1 (unpU U1) par)) by (apply sumc_nonneg; apply (unpU_nonneg sh1); assumption).
        assert (Hposp : nonneg_u (U par) = true) by (rewrite <- Hqpn; apply Hpos; exact Hqpin).
        apply nonneg_u_iff in Hposp. destruct Hposp as (_ & Hps & _ & Hpsn).
        destruct (cwalk_used_ind sh1 Hnd1 Hnz1 par lp qp U1 d dnp false Hrp1 Hfp1 Hpos1)
          as (H1 & H3 & H4 & H5 & H6 & H7 & H8 & H9).
        { intros q0 Hq0 Hin.
          assert (q_name q0 <> par).
          { destruct (reaches_head _ _ _ Hrp1 Hp0) as [t Ht]. subst lp. cbn [tl_ok] in Hin.
            pose proof (reaches_nodup _ _ _ Hrp1) as Hd. inversion Hd; subst. intros E. rewrite E in Hin. contradiction. }
          auto. }
        { rewrite (HU1 _ Hpn), HUp. unfold d. rewrite Hslp in HS1l.
          revert HS1l Hps. generalize (u_sused (U par)) (sumc sh (usedU U) par) (u_used (U n)). clear. intros. vlia. }
        { rewrite (HU1 _ Hpn), HUNp. unfold dnp. rewrite Hsnp in HS1n.
          revert HS1n Hpsn. generalize (u_snp (U par)) (sumc sh (unpU U) par) (u_np (U n)). clear. intros. vlia. }
        { discriminate. }
        fold U2 in H1, H3, H4, H5, H6, H7, H8, H9.
        refine (conj H1 (conj _ (conj _ _))).
        + intros q0 Hq0. destruct (Z.eq_dec (q_name q0) par) as [E|E].
          * unfold okU, okUN. rewrite E, H5, H6, H7. cbn [u_used u_sused u_np u_snp].
            rewrite (HU1 _ Hpn), Hslp, Hsnp, HUp, HUNp. unfold d, dnp. split.
            -- generalize (u_sused (U par)) (sumc sh (usedU U) par) (u_used (U n)). clear. intros. vlia.
            -- generalize (u_snp (U par)) (sumc sh (unpU U) par) (u_np (U n)). clear. intros. vlia.
          * split; [apply H3 | apply H4]; auto.
        + intros m Hm. destruct (Z.eq_dec m par) as [->|E].
          * rewrite H5. cbn [u_sused u_snp]. rewrite (HU1 _ Hpn). auto.
          * destruct (H8 m E) as [E1 E2]. rewrite E1, E2, (HU1 _ Hm). auto.
        + intros lp' Hlp' m Hm Hnin. rewrite (reaches_fun _ _ _ Hlp' _ Hrp) in Hnin.
          rewrite (H9 m Hnin). apply HU1. exact Hm.
    Qed.
  End Used.
End Detach.

End WithDim.
