(* C01 — stream "conc": a sequential set-up history, then kc pod handler calls (OnPodAdd /
   OnPodUpdate / OnPodDelete on pairwise distinct pods) issued from concurrent goroutines.
   input : sysMax(2) defMax(2) k kc, then k + kc operation records (format of Codec.v);
   observable: the summaries and the root entry once all goroutines have returned.
   The model runs the concurrent calls one after the other in list order (by
   c01_any_interleaving every interleaving of their sections is consistent, and each pod's own
   cache entry only depends on its own handler). *)
From Coq Require Import List ZArith Bool.
From Verif Require Import Lib.Wire Lib.VecN C01.Dim2 C01.Model C01.Spec C01.Root C01.Codec.
Import ListNotations.
Open Scope Z_scope.

Local Existing Instance D2.

Definition decode_conc (inp : list Z) : vec * vec * list op * list op :=
  let k := Z.to_nat (nthZ inp (2 * dim)) in
  let kc := Z.to_nat (nthZ inp (2 * dim + 1)) in
  let ops := dec_ops (k + kc) (skipn (2 * dim + 2) inp) in
  (dec_vec inp 0, dec_vec inp dim, firstn k ops, skipn k ops).

Definition run_case (inp : list Z) : list Z :=
  let '(sm, dm, setup, conc) := decode_conc inp in
  xobserve (xrun (xinit sm dm) (setup ++ conc)).

Definition is_rl (o : op) : bool :=
  match o with OpPodAdd _ _ | OpPodUpdate _ _ _ _ | OpPodDelete _ _ => true | _ => false end.
Definition pod_of (o : op) : Z :=
  match o with OpPodAdd _ p | OpPodDelete _ p => p_id p | OpPodUpdate _ _ pn _ => p_id pn | _ => 0 end.

(* the hypotheses of c01_any_interleaving, evaluated *)
Definition conc_wf (sm dm : vec) (setup conc : list op) : bool :=
  wf_init sm dm && wf_history (init sm dm) setup
  && forallb (fun o => is_rl o && wf_op (run (init sm dm) setup) o) conc
  && nodupb (map pod_of conc).

Definition prop_case (inp obs : list Z) : Z :=
  let '(sm, dm, setup, conc) := decode_conc inp in
  if negb (conc_wf sm dm setup conc) then 0
  else if (hdZ obs =? -777777) && (Nat.eqb (length obs) 1) then 98
  else let '(snap, leak, rest) := dec_snapshot (setup ++ conc) obs in
       if negb (leak =? 0) then 13
       else if negb (shapes_eqb (st_sh snap) (spec_shapes (st_sh (init sm dm)) (setup ++ conc))) then 14
       else if negb (Nat.eqb (length rest) (4 * dim)) then 99
       else if negb (state_code snap =? 0) then state_code snap
       else if negb (benign_history (init sm dm) (setup ++ conc)) then 0
       else root_code snap (fst (dec_root rest)).

Definition nontrivial_case (inp : list Z) : bool :=
  let '(sm, dm, setup, conc) := decode_conc inp in
  conc_wf sm dm setup conc && (2 <=? Z.of_nat (length conc))
  && existsb (fun q => negb (viszero (r_creq (st_r (run (init sm dm) (setup ++ conc)) (q_name q)))))
             (st_sh (run (init sm dm) (setup ++ conc))).

Definition finding_sig (inp obs : list Z) : Z := 0.

Require Extraction.
Require Import ExtrOcamlBasic.
Extraction "model.ml" run_case prop_case nontrivial_case finding_sig.
