(* C01 — proofs (see Properties.v for the exported statements). *)
From Coq Require Import List ZArith Bool Lia.
From Verif Require Import Lib.Vec2 C01.Model C01.Spec.
Import ListNotations.
Open Scope Z_scope.

Lemma init_code sm dm : state_code (init sm dm) = 0.
Proof. destruct sm, dm. vm_compute. reflexivity. Qed.
